import KG.Model.RemoteLimiter
import KG.Spec.RemoteLimiter
/-!
# Lemmas for C09: the clamp invariant of the gateway side of the global limiter

`Inv K cfg st m` relates a model state `st` with the judge's monitor `m` (KG.Spec.RemoteLimiter) for operation
lists whose schemas are all valid and of one type `K`. `step_inv` shows that every operation preserves it, never
panics, and produces an observation the judge accepts.
-/
set_option linter.unusedSimpArgs false
namespace KG.Lemmas.RemoteLimiter
open KG.Model.RemoteLimiter KG.Spec.RemoteLimiter KG.Gen.C09


/-! ## the exact clauses the CURRENT code satisfies (proof-internal), and: they imply the judge's one-sided clauses

The judge (`KG.Spec.RemoteLimiter`) states the property from its text. The proofs go through these stronger, exact
statements about the model — equalities with the code's formulas (`miFallback`, `clampAccept`, `tbFallbackQps`, the
2 s resync period, `ExpectToken`'s batching, readiness as a function of the heartbeat history) — and
`judgeStep_of_exact` shows that whatever satisfies them satisfies the judge. -/

def expectedChoice (cfg : Cfg) (m : Mon) : Choice :=
  match m.schema with
  | none => .dflt
  | some s =>
    if cfg.rateLimiter = .remote ∧ s.strategy ≠ .empty ∧ s.strategy ≠ .loc ∧ cfg.hasCS = true
       ∧ (m.shards ≠ 0 ∧ specReady m.hist = true) ∧ m.synced = true then .remote else .loc

/-- the size the count wrappers' error fallback must produce -/
def miFallback (obs localMax wmax : Int) : Int :=
  let x := if obs < localMax then localMax else obs
  if x > wmax then wmax else x

def tbFallbackQps (mt : Meter) (localQps wqps : Int) : Int :=
  if mt.rateNum < localQps * mt.rateDen then (if localQps > wqps then wqps else localQps)
  else if mt.rateNum > wqps * mt.rateDen then wqps
  else Int.tdiv mt.rateNum mt.rateDen

def clampAccept (limit reserve wmax : Int) : Int :=
  let l := if limit < reserve then reserve else limit
  if l > wmax then wmax else l

/-- judgements about one `SetLimit` on a max-in-flight count wrapper: its fields before, the reply, its limiter after -/
def exactMISet (lastAcq wreserve wmax : Int) (punavail : Bool) (prlim : Option Lim) (localMi : Option Int)
    (obsMax : Int) (r : Reply) (orlim : Option Lim) (ounavail : Bool) : List String :=
  let fresh := !(decide (r.rt > 0) && decide (r.rt ≤ lastAcq))
  if fresh && r.err == .none && r.accept then
    (if ounavail = false ∧ orlim = some (.mi (clampAccept r.limit wreserve wmax)) then [] else ["c09.recover-not-applied"])
  else if fresh && r.err == .other && !punavail then
    match localMi with
    | some l => if ounavail = true ∧ orlim = some (.mi (miFallback obsMax l wmax)) then [] else ["c09.error-fallback"]
    | none => []
  else if !fresh || r.err == .tooOld || (r.err == .other && punavail) then
    (if orlim = prlim ∧ ounavail = punavail then [] else ["c09.stale-reply-applied"])
  else []

/-- the same for a token-bucket count wrapper -/
def exactTBSet (wqps wburst : Int) (punavail : Bool) (prlim : Option Lim) (localTb : Option TB) (mt : Meter)
    (r : Reply) (orlim : Option Lim) (ounavail : Bool) : List String :=
  if r.err == .other && !punavail then
    match localTb with
    | some lt =>
      let q := tbFallbackQps mt lt.qps wqps
      let b := if q > wburst then wburst else q
      if ounavail = true ∧ orlim = some (.tb q b) then [] else ["c09.error-fallback"]
    | none => []
  else if r.err == .none && r.accept && punavail then
    (if ounavail = false ∧ orlim = some (.tb wqps wburst) then [] else ["c09.recover-not-applied"])
  else
    (if orlim = prlim then [] else ["c09.stale-reply-applied"])

/-- judgements about one `SetLimit` from the previous observation `m.prev` to `o` -/
def exactSetLimit (m : Mon) (r : Reply) (o : Obs) : List String :=
  let p := m.prev
  if p.wkind = 2 then
    exactMISet p.lastAcq p.wreserve p.wmax p.unavail p.rlim (m.schema.bind (·.mi)) m.meter.maxInflight r o.rlim o.unavail
  else if p.wkind = 3 then
    exactTBSet p.wqps p.wburst p.unavail p.rlim (m.schema.bind (·.tb)) m.meter r o.rlim o.unavail
  else []

/-- clauses about the state reached: `m'` is the monitor after the operation, `o` the observation made then -/
def exactPost (cfg : Cfg) (m' : Mon) (o : Obs) : List String :=
  (if o.ready = (decide (m'.shards ≠ 0) && specReady m'.hist) then [] else ["c09.ready-hysteresis"]) ++
  (if o.choice = expectedChoice cfg m' then [] else ["c09.fallback-choice"]) ++
  (match m'.schema with
   | none => []
   | some s =>
     (if o.choice = .loc ∧ o.lim ≠ some (limOf s) then ["c09.local-limit-not-enforced"] else []) ++
     (if o.choice = .remote ∧ o.lim ≠ o.rlim then ["c09.fallback-choice"] else []) ++
     (match o.rlim with
      | none => if m'.synced then ["c09.remote-limiter-missing"] else []
      | some l =>
        if l.kind ≠ guessType s then ["c09.answer-type-mismatch"]
        else if Lim.leb l m'.ob then [] else ["c09.cap-exceeds-global"]))

/-- judgements about one round of the counter manager (`Op.tick`):
* `c09.no-request-when-due` — **the instance keeps asking**: while a count wrapper exists, a round that comes more
  than 2 s (unix seconds) after the last possible creation/answer of the counter must send a request for the flow
  control — degraded or not, idle or not, reserve full or not — unless an event may be pending (a token-bucket
  counter with a pending event and nothing to ask for consumes the event first and resyncs in the next round).
  Without that request no accepted answer can ever arrive and a degraded limiter would stay degraded for ever.
* the answer to the request goes through `SetLimit` like any acquire result (`exactSetLimit`: recovery, error
  fallback, stale replies), with the round's time as its request time. -/
def exactTick (m : Mon) (now : Int) (ans : Option TickAnswer) (o : Obs) : List String :=
  let p := m.prev
  (if (p.wkind = 2 ∨ (p.wkind = 3 ∧ m.mayEvent = false)) ∧ unixS now - m.contact > 2 ∧ o.req.isNone
   then ["c09.no-request-when-due"] else []) ++
  (match ans, o.req with
   | some a, some hits =>
     exactSetLimit m (tickReply a hits now) o
   | _, _ => [])

/-- **tokens ARE requested when there is demand and room**: a round of a token-bucket count wrapper with a pending
    event (demand), whose reserve is not full once the tokens of the requests still unanswered are counted
    (`room = reserve − tokens − owed > 0`), must ask for more than zero tokens — unless the room is below one batch
    and the last answer is less than `batchAcquireMaxDuration` old. A wrapper whose `tokenInflight` has leaked (tokens
    of FAILED requests never given back) stops asking for ever: the granted quota never takes effect again. -/
def exactDemand (m : Mon) (now : Int) (o : Obs) : List String :=
  let p := m.prev
  let room := i32sub (i32sub p.wreserve p.tokens) m.owed
  if p.wkind = 3 ∧ m.mustEvent = true ∧ room > 0 ∧ p.tokenBatch ≥ 1 ∧
     (room ≥ p.tokenBatch ∨ now - p.lastAcq ≥ batchAcquireMaxDuration) ∧
     reqPositive o.req = false
  then ["c09.no-tokens-requested-on-demand"] else []

/-- clauses about the transition made by `op` from the monitor `m` (before) to the observation `o` (after) -/
def exactTrans (m : Mon) (op : Op) (o : Obs) : List String :=
  match op with
  | .tick now ans => exactTick m now ans o ++ exactDemand m now o
  | .acquire id => judgeAcquire m id o
  | .answer true item =>
    if effective m op && decide (o.wkind = 1) then
      match m.schema with
      | some s => if o.rlim = some (limOfItem (boundByGlobalLimit s item)) then [] else ["c09.quota-not-applied"]
      | none => []
    else []
  | .setLimit r => exactSetLimit m r o
  | _ => []

/-- the clauses broken by observation `o` made after `op` -/
def exactStep (cfg : Cfg) (m : Mon) (op : Op) (o : Obs) : List String :=
  exactPost cfg (m.next op o) o ++ exactTrans m op o


theorem nil_of_ite_pos {c : Prop} [Decidable c] {x : String} (h : (if c then ([] : List String) else [x]) = []) : c := by
  by_cases hc : c
  · exact hc
  · rw [if_neg hc] at h; cases h

theorem nil_of_ite_neg {c : Prop} [Decidable c] {x : String} (h : (if c then [x] else ([] : List String)) = []) : ¬ c := by
  intro hc; rw [if_pos hc] at h; cases h

theorem everUp_of_ready : ∀ h, specReady h = true → everUp h = true
  | [] => by simp [specReady]
  | (true, t) :: rest => by simp [everUp]
  | (false, t) :: rest => by
    intro h
    simp only [specReady, Bool.and_eq_true] at h
    have := everUp_of_ready rest h.1
    simp only [everUp, List.any_cons] at this ⊢
    simp [this]

theorem mustDown_not_ready {h : List (Bool × Int)} (hd : specMustDown h = true) : specReady h = false := by
  cases hr : specReady h with
  | false => rfl
  | true =>
    exfalso
    have hu := everUp_of_ready h hr
    simp only [specMustDown, hu, Bool.not_true, Bool.false_or] at hd
    cases h with
    | nil => simp at hd
    | cons x rest =>
      obtain ⟨ok, now⟩ := x
      cases ok with
      | true => simp at hd
      | false =>
        simp only [specReady, Bool.and_eq_true, Bool.not_eq_true', decide_eq_false_iff_not] at hr
        simp only [decide_eq_true_eq] at hd
        exact hr.2 hd

theorem mustUp_ready {h : List (Bool × Int)} (hu : specMustUp h = true) : specReady h = true := by
  cases h with
  | nil => simp [specMustUp] at hu
  | cons x rest =>
    obtain ⟨ok, t⟩ := x
    cases ok <;> simp [specMustUp, specReady] at hu ⊢

theorem judgeMISet_of_exact {lastAcq wreserve wmax : Int} {punavail : Bool} {prlim : Option Lim} {localMi : Option Int}
    {obsMax : Int} {r : Reply} {orlim : Option Lim} {ounavail : Bool}
    (h : exactMISet lastAcq wreserve wmax punavail prlim localMi obsMax r orlim ounavail = []) :
    judgeMISet lastAcq wmax punavail prlim localMi r orlim = [] := by
  unfold exactMISet at h
  unfold judgeMISet
  simp only [] at h ⊢
  by_cases c1 : ((!(decide (r.rt > 0) && decide (r.rt ≤ lastAcq))) && r.err == .none && r.accept) = true
  · rw [if_pos c1] at h ⊢
    have hh := nil_of_ite_pos h
    rw [hh.2]
    simp only []
    rw [if_pos]
    unfold clampAccept
    simp only []
    split <;> split <;> (try split) <;> omega
  · rw [if_neg c1] at h ⊢
    by_cases c2 : ((!(decide (r.rt > 0) && decide (r.rt ≤ lastAcq))) && r.err == .other && !punavail) = true
    · rw [if_pos c2] at h ⊢
      cases localMi with
      | none => rfl
      | some l =>
        simp only [] at h ⊢
        have hh := nil_of_ite_pos h
        rw [hh.2]; rfl
    · rw [if_neg c2] at h ⊢
      by_cases c3 : ((!(!(decide (r.rt > 0) && decide (r.rt ≤ lastAcq)))) || r.err == .tooOld) = true
      · rw [if_pos c3]
        have c3' : ((!(!(decide (r.rt > 0) && decide (r.rt ≤ lastAcq)))) || r.err == .tooOld || (r.err == .other && punavail)) = true := by
          rw [c3]; rfl
        rw [if_pos c3'] at h
        have hh := nil_of_ite_pos h
        rw [if_pos hh.1]
      · rw [if_neg c3]

theorem judgeTBSet_of_exact {wqps wburst : Int} {punavail : Bool} {prlim : Option Lim} {localTb : Option TB} {mt : Meter}
    {r : Reply} {orlim : Option Lim} {ounavail : Bool}
    (h : exactTBSet wqps wburst punavail prlim localTb mt r orlim ounavail = []) :
    judgeTBSet wqps wburst punavail prlim localTb r orlim = [] := by
  unfold exactTBSet at h
  unfold judgeTBSet
  by_cases c1 : (r.err == .other && !punavail) = true
  · rw [if_pos c1] at h ⊢
    cases localTb with
    | none => rfl
    | some lt =>
      simp only [] at h ⊢
      have hh := nil_of_ite_pos h
      rw [hh.2]; rfl
  · rw [if_neg c1] at h ⊢
    by_cases c2 : (r.err == .none && r.accept && punavail) = true
    · rw [if_pos c2] at h ⊢
      have hh := nil_of_ite_pos h
      rw [hh.2]
      simp
    · rw [if_neg c2] at h ⊢
      have hh := nil_of_ite_pos h
      by_cases c3 : (r.err == .tooOld) = true
      · rw [if_pos c3, if_pos hh]
      · rw [if_neg c3]

theorem judgeSetLimit_of_exact {m : Mon} {r : Reply} {o : Obs} (h : exactSetLimit m r o = []) :
    judgeSetLimit m r o = [] := by
  unfold exactSetLimit at h
  unfold judgeSetLimit
  simp only [] at h ⊢
  by_cases c1 : m.prev.wkind = 2
  · rw [if_pos c1] at h ⊢; exact judgeMISet_of_exact h
  · rw [if_neg c1] at h ⊢
    by_cases c2 : m.prev.wkind = 3
    · rw [if_pos c2] at h ⊢; exact judgeTBSet_of_exact h
    · rw [if_neg c2]

theorem judgePost_of_exact {cfg : Cfg} {m' : Mon} {o : Obs} (h : exactPost cfg m' o = []) : judgePost cfg m' o = [] := by
  unfold exactPost at h
  simp only [List.append_eq_nil_iff] at h
  obtain ⟨⟨h1, h2⟩, h3⟩ := h
  have hready := nil_of_ite_pos h1
  have hchoice := nil_of_ite_pos h2
  unfold judgePost
  have e1 : (if (m'.shards = 0 ∨ specMustDown m'.hist = true) ∧ o.ready = true then ["c09.ready-hysteresis"] else []) = [] := by
    rw [if_neg]
    intro ⟨hd, hr⟩
    rw [hready] at hr
    rcases hd with hd | hd
    · simp [hd] at hr
    · simp [mustDown_not_ready hd] at hr
  have e2 : (if m'.shards ≠ 0 ∧ specMustUp m'.hist = true ∧ o.ready = false then ["c09.ready-hysteresis"] else []) = [] := by
    rw [if_neg]
    intro ⟨hs, hu, hr⟩
    rw [hready] at hr
    simp [hs, mustUp_ready hu] at hr
  rw [e1, e2]
  simp only [List.nil_append]
  cases hsch : m'.schema with
  | none =>
    simp only []
    rw [if_pos]
    rw [hchoice]; simp [expectedChoice, hsch]
  | some s =>
    rw [hsch] at h3
    simp only [] at h3 ⊢
    simp only [List.append_eq_nil_iff] at h3
    obtain ⟨⟨h4, h5⟩, h6⟩ := h3
    have hexp : expectedChoice cfg m' = if cfg.rateLimiter = .remote ∧ s.strategy ≠ .empty ∧ s.strategy ≠ .loc ∧ cfg.hasCS = true
        ∧ (m'.shards ≠ 0 ∧ specReady m'.hist = true) ∧ m'.synced = true then .remote else .loc := by
      simp [expectedChoice, hsch]
    have hmiss : o.rlim = none → m'.synced = false := by
      intro hn
      rw [hn] at h6
      simp only [] at h6
      cases hs : m'.synced with
      | false => rfl
      | true => rw [hs] at h6; simp at h6
    have a1 : (if o.choice = .dflt then ["c09.fallback-choice"] else []) = [] := by
      rw [if_neg]; rw [hchoice, hexp]; split <;> simp
    have a2 : (if mustLocal cfg m' s o = true ∧ o.choice ≠ .loc then ["c09.fallback-choice"] else []) = [] := by
      rw [if_neg]
      intro ⟨hl, hc⟩
      apply hc
      rw [hchoice, hexp, if_neg]
      intro ⟨c1, c2, c3, c4, ⟨c5, c6⟩, c7⟩
      simp only [mustLocal, Bool.or_eq_true, decide_eq_true_eq, Bool.not_eq_true', Option.isNone_iff_eq_none] at hl
      rcases hl with ((((((hl | hl) | hl) | hl) | hl) | hl) | hl) | hl
      · exact hl c1
      · exact c2 hl
      · exact c3 hl
      · rw [c4] at hl; cases hl
      · exact c5 hl
      · rw [mustDown_not_ready hl] at c6; cases c6
      · rw [hready] at hl; simp [c5, c6] at hl
      · rw [hmiss hl] at c7; cases c7
    have a3 : (if mustRemote cfg m' s o = true ∧ o.choice ≠ .remote then ["c09.fallback-choice"] else []) = [] := by
      rw [if_neg]
      intro ⟨hr, hc⟩
      apply hc
      simp only [mustRemote, Bool.and_eq_true, decide_eq_true_eq, Bool.not_eq_true'] at hr
      obtain ⟨⟨⟨⟨⟨⟨⟨⟨r1, r2⟩, r3⟩, r4⟩, r5⟩, r6⟩, r7⟩, _⟩, _⟩ := hr
      rw [hchoice, hexp, if_pos ⟨r1, r2, r3, r4, ⟨r5, mustUp_ready r6⟩, r7⟩]
    rw [a1, a2, a3, h4, h5]
    simp only [List.nil_append]
    cases hrl : o.rlim with
    | none => rfl
    | some l => rw [hrl] at h6; exact h6

theorem i32sub_zero {x : Int} (h0 : 0 ≤ x) (h1 : x ≤ 2147483647) : i32sub x 0 = x := by
  unfold i32sub toI32; omega

theorem judgeDemand_of_exact {m : Mon} {now : Int} {o : Obs} (h : exactDemand m now o = []) : judgeDemand m o = [] := by
  unfold exactDemand at h
  unfold judgeDemand
  simp only [] at h ⊢
  have hn := nil_of_ite_neg h
  rw [if_neg]
  intro ⟨p1, p2, _, p4, p5, p6, p7, p8, p9⟩
  apply hn
  have hr : i32sub (i32sub m.prev.wreserve m.prev.tokens) m.owed = m.prev.wreserve := by
    rw [p4, p5, i32sub_zero (by omega) p8, i32sub_zero (by omega) p8]
  rw [hr]
  exact ⟨p1, p2, by omega, p6, Or.inl p7, p9⟩

theorem judgeTick_of_exact {m : Mon} {now : Int} {ans : Option TickAnswer} {o : Obs} (h : exactTick m now ans o = []) :
    judgeTick m now ans o = [] := by
  unfold exactTick at h
  unfold judgeTick
  simp only [List.append_eq_nil_iff] at h ⊢
  obtain ⟨h1, h2⟩ := h
  have hn := nil_of_ite_neg h1
  refine ⟨?_, ?_⟩
  · rw [if_neg]
    intro ⟨a, b, c⟩
    exact hn ⟨a, by unfold resyncBound at b; omega, c⟩
  · cases ans with
    | none => rfl
    | some a =>
      cases hreq : o.req with
      | none => rfl
      | some hits =>
        rw [hreq] at h2
        exact judgeSetLimit_of_exact h2

theorem judgeTrans_of_exact {m : Mon} {op : Op} {o : Obs} (h : exactTrans m op o = []) : judgeTrans m op o = [] := by
  cases op with
  | tick now ans =>
    simp only [exactTrans, judgeTrans, List.append_eq_nil_iff] at h ⊢
    exact ⟨judgeTick_of_exact h.1, judgeDemand_of_exact h.2⟩
  | acquire id => exact h
  | setLimit r => exact judgeSetLimit_of_exact h
  | answer named item =>
    cases named with
    | false => rfl
    | true =>
      simp only [exactTrans, judgeTrans] at h ⊢
      split
      · rename_i c
        rw [if_pos c] at h
        cases hs : m.schema with
        | none => rfl
        | some s =>
          rw [hs] at h
          simp only [] at h ⊢
          have hh := nil_of_ite_pos h
          split
          · rename_i e; rw [e] at hh; rw [if_pos hh]
          · rfl
      · rfl
  | schema _ => rfl
  | shards _ => rfl
  | sync _ _ _ _ => rfl
  | hb _ _ _ => rfl
  | reconcileCount => rfl
  | restart => rfl
  | meter _ => rfl
  | event => rfl
  | release _ => rfl

/-- whatever satisfies the exact clauses of the current code satisfies the judge -/
theorem judgeStep_of_exact {cfg : Cfg} {m : Mon} {op : Op} {o : Obs} (h : exactStep cfg m op o = []) :
    judgeStep cfg m op o = [] := by
  simp only [exactStep, judgeStep, List.append_eq_nil_iff] at h ⊢
  exact ⟨judgePost_of_exact h.1, judgeTrans_of_exact h.2⟩

/-! ## arithmetic -/

theorem toU32_id {x : Int} (h0 : 0 ≤ x) (h1 : x ≤ maxInt32) : toU32 x = x := by
  unfold toU32; unfold maxInt32 at h1; omega

theorem toI32_id {x : Int} (h0 : 0 ≤ x) (h1 : x ≤ maxInt32) : toI32 x = x := by
  unfold toI32; unfold maxInt32 at h1; omega

theorem bound_range (v g : Int) (hg : 0 ≤ g) : 0 ≤ bound v g ∧ bound v g ≤ g := by
  simp only [bound]
  constructor <;> (split <;> split <;> omega)

theorem miReserve_range {m : Int} (h0 : 0 ≤ m) : 0 ≤ miReserve m ∧ miReserve m ≤ m := by
  simp only [miReserve, globalMaxInflightBurstMinInflight]
  generalize i32div (i32mul m globalMaxInflightBurstPercent) 100 = r
  by_cases h : r < 1
  · simp only [h, if_true]; constructor <;> (split <;> omega)
  · simp only [h, if_false]; constructor <;> (split <;> omega)

theorem tdiv_between {num den lo hi : Int} (hd : 0 < den) (hl : 0 ≤ lo)
    (h1 : ¬ num < lo * den) (h2 : ¬ num > hi * den) : lo ≤ Int.tdiv num den ∧ Int.tdiv num den ≤ hi := by
  have hn : 0 ≤ num := by
    have : 0 ≤ lo * den := Int.mul_nonneg hl (by omega)
    omega
  rw [Int.tdiv_eq_ediv_of_nonneg hn]
  exact ⟨Int.le_ediv_of_mul_le hd (by omega), Int.ediv_le_of_le_mul hd (by omega)⟩

theorem clampAccept_range {limit reserve wmax : Int} (h0 : 0 ≤ reserve) (h1 : reserve ≤ wmax) :
    0 ≤ clampAccept limit reserve wmax ∧ clampAccept limit reserve wmax ≤ wmax := by
  simp only [clampAccept]
  by_cases h : limit < reserve
  · simp only [h, if_true]; constructor <;> (split <;> omega)
  · simp only [h, if_false]; constructor <;> (split <;> omega)

theorem miFallback_range {obs l wmax : Int} (h0 : 0 ≤ l) (h1 : 0 ≤ wmax) :
    0 ≤ miFallback obs l wmax ∧ miFallback obs l wmax ≤ wmax := by
  simp only [miFallback]
  by_cases h : obs < l
  · simp only [h, if_true]; constructor <;> (split <;> omega)
  · simp only [h, if_false]; constructor <;> (split <;> omega)

/-! ## limiters -/

@[simp] theorem resize_mi (s n b : Int) : ((Lim.mi s).resize n b).1 = .mi n := by
  simp only [Lim.resize]; split
  · rfl
  · rename_i h; simp only [ne_eq, Decidable.not_not] at h; rw [h]

@[simp] theorem resize_tb (q u n b : Int) : ((Lim.tb q u).resize n b).1 = .tb n b := by
  simp only [Lim.resize]; split
  · rfl
  · rename_i h
    have h1 : q = n := by false_or_by_contra; exact h (Or.inl ‹_›)
    have h2 : u = b := by false_or_by_contra; exact h (Or.inr ‹_›)
    rw [h1, h2]

/-! ## valid schemas -/

/-- a schema accepted by validation that carries a global limit, by type -/
inductive VS : Kind → Schema → Prop
  | mi (st : Strategy) (l g : Int) (h0 : 0 ≤ l) (h1 : l ≤ g) (h2 : g ≤ maxInt32) :
      VS .mi { strategy := st, exempt := false, mi := some l, tb := none, gmi := some g, gtb := none }
  | tb (st : Strategy) (q b gq gb : Int) (h0 : 0 < q) (h1 : q ≤ b) (h2 : q ≤ gq) (h3 : b ≤ gb)
      (h4 : gq ≤ maxInt32) (h5 : gb ≤ maxInt32) :
      VS .tb { strategy := st, exempt := false, mi := none, tb := some ⟨q, b⟩, gmi := none, gtb := some ⟨gq, gb⟩ }

theorem VS_of_valid {s : Schema} (h : validSchema s = true) : VS (guessType s) s := by
  obtain ⟨st, ex, mi, tb, gmi, gtb⟩ := s
  cases ex <;> cases mi <;> cases gmi <;> cases tb <;> cases gtb <;>
    simp [validSchema, guessType] at h ⊢
  · rename_i t gt
    obtain ⟨q, b⟩ := t; obtain ⟨gq, gb⟩ := gt
    simp at h
    exact VS.tb st q b gq gb (by omega) (by omega) (by omega) (by omega) (by omega) (by omega)
  · rename_i l g
    exact VS.mi st l g (by omega) (by omega) (by omega)

theorem valid_of_VS {K : Kind} {s : Schema} (h : VS K s) : validSchema s = true ∧ guessType s = K := by
  cases h <;> simp [validSchema, guessType] <;> omega

theorem VS_guess {K : Kind} {s : Schema} (h : VS K s) : guessType s = K := (valid_of_VS h).2

theorem VS_limOf_kind {K : Kind} {s : Schema} (h : VS K s) : (limOf s).kind = K := by
  cases h <;> rfl

theorem VS_newLim {K : Kind} {s : Schema} (h : VS K s) : newLim s = .ok (limOf s) := by
  cases h with
  | mi st l g h0 h1 h2 =>
    simp [newLim, guessType, limOf, toU32_id h0 (by omega : l ≤ maxInt32)]
  | tb st q b gq gb h0 h1 h2 h3 h4 h5 =>
    simp [newLim, guessType, limOf, toU32_id (by omega : 0 ≤ q) (by omega : q ≤ maxInt32),
      toU32_id (by omega : 0 ≤ b) (by omega : b ≤ maxInt32)]

theorem VS_enable {K : Kind} {s : Schema} (h : VS K s) :
    enableGlobal s = (decide (s.strategy = .alloc) || decide (s.strategy = .count)) := by
  cases h with
  | mi st l g h0 h1 h2 => cases st <;> simp [enableGlobal]
  | tb st q b gq gb h0 h1 h2 h3 h4 h5 => cases st <;> simp [enableGlobal]

/-- the global bound of a valid schema is a pair of int32 naturals -/
structure BoundOK (b : Bound) : Prop where
  mi0 : 0 ≤ b.mi
  mi1 : b.mi ≤ maxInt32
  q0 : 0 ≤ b.qps
  q1 : b.qps ≤ maxInt32
  b0 : 0 ≤ b.burst
  b1 : b.burst ≤ maxInt32

theorem VS_globalOK {K : Kind} {s : Schema} (h : VS K s) : BoundOK (globalOf s) := by
  cases h with
  | mi st l g h0 h1 h2 =>
    refine ⟨?_, ?_, ?_, ?_, ?_, ?_⟩ <;>
      simp only [globalOf, Schema.globalMax, Schema.globalQps, Schema.globalBurst, maxInt32] at * <;> omega
  | tb st q b gq gb h0 h1 h2 h3 h4 h5 =>
    refine ⟨?_, ?_, ?_, ?_, ?_, ?_⟩ <;>
      simp only [globalOf, Schema.globalMax, Schema.globalQps, Schema.globalBurst, maxInt32] at * <;> omega

/-! ## bounds -/

def BLe (a b : Bound) : Prop := a.mi ≤ b.mi ∧ a.qps ≤ b.qps ∧ a.burst ≤ b.burst

theorem BLe.refl (a : Bound) : BLe a a := ⟨Int.le_refl _, Int.le_refl _, Int.le_refl _⟩

theorem BLe.sup_left (a b : Bound) : BLe a (a.sup b) := by
  simp only [BLe, Bound.sup]; refine ⟨?_, ?_, ?_⟩ <;> (split <;> omega)

theorem BLe.sup_right (a b : Bound) : BLe b (a.sup b) := by
  simp only [BLe, Bound.sup]; refine ⟨?_, ?_, ?_⟩ <;> (split <;> omega)

theorem sup_eq_left {a b : Bound} (h : BLe b a) : a.sup b = a := by
  obtain ⟨h1, h2, h3⟩ := h
  cases a; cases b
  simp only [Bound.sup, Bound.mk.injEq] at *
  refine ⟨?_, ?_, ?_⟩ <;> (split <;> omega)

/-- an item whose quotas are within a bound -/
structure ItemLe (a : Item) (b : Bound) : Prop where
  mi : ∀ m, a.mi = some m → 0 ≤ m ∧ m ≤ b.mi
  tb : ∀ t, a.tb = some t → 0 ≤ t.qps ∧ t.qps ≤ b.qps ∧ 0 ≤ t.burst ∧ t.burst ≤ b.burst

theorem bound_itemLe (s : Schema) (i : Item) (h : BoundOK (globalOf s)) :
    ItemLe (boundByGlobalLimit s i) (globalOf s) := by
  constructor
  · intro m hm
    simp only [boundByGlobalLimit, Option.map_eq_some_iff] at hm
    obtain ⟨v, _, rfl⟩ := hm
    exact bound_range _ _ h.mi0
  · intro t ht
    simp only [boundByGlobalLimit, Option.map_eq_some_iff] at ht
    obtain ⟨v, _, rfl⟩ := ht
    exact ⟨(bound_range _ _ h.q0).1, (bound_range _ _ h.q0).2, (bound_range _ _ h.b0).1, (bound_range _ _ h.b0).2⟩

theorem bound_itemType (s : Schema) (i : Item) : itemType (boundByGlobalLimit s i) = itemType i := by
  simp only [itemType, boundByGlobalLimit, Option.isSome_map]

theorem bound_strategy (s : Schema) (i : Item) : (boundByGlobalLimit s i).strategy = i.strategy := rfl

/-! ## the wrappers -/

theorem MIW_resize_avail (w : MIW) (n s : Int) (h : w.unavail = false) (hin : w.inner = .mi s)
    (hn0 : 0 ≤ n) (hn1 : n ≤ maxInt32) :
    (w.resize n).1 = { w with reserve := miReserve n, max := n, inner := .mi (miReserve n) } := by
  have hr := miReserve_range hn0
  simp only [MIW.resize, toI32_id hn0 hn1, h, Bool.not_false, if_true, hin, resize_mi,
    toU32_id hr.1 (by omega : miReserve n ≤ maxInt32)]

theorem MIW_resize_unavail (w : MIW) (n : Int) (h : w.unavail = true) (hn0 : 0 ≤ n) (hn1 : n ≤ maxInt32) :
    (w.resize n).1 = { w with reserve := miReserve n, max := n } := by
  simp [MIW.resize, toI32_id hn0 hn1, h]

theorem TBW_resize_avail (w : TBW) (q b q0 u0 : Int) (h : w.unavail = false) (hin : w.inner = .tb q0 u0) :
    ∃ w', (w.resize q b).1 = w' ∧ w'.inner = .tb q b ∧ w'.qps = q ∧ w'.burst = b ∧ w'.unavail = false := by
  refine ⟨_, rfl, ?_, ?_, ?_, ?_⟩ <;> simp [TBW.resize, h, hin]

theorem TBW_resize_unavail (w : TBW) (q b : Int) (h : w.unavail = true) :
    ∃ w', (w.resize q b).1 = w' ∧ w'.inner = w.inner ∧ w'.qps = q ∧ w'.burst = b ∧ w'.unavail = true := by
  refine ⟨_, rfl, ?_, ?_, ?_, ?_⟩ <;> simp [TBW.resize, h]

/-- wrapper invariant relative to the applied item `ap` and the outage bound `ob` -/
def GInv (g : GFC) (ap : Item) (ob : Bound) : Prop :=
  match g with
  | .empty l => l = limOfItem ap
  | .miw w => ∃ A sz, ap.mi = some A ∧ w.max = A ∧ 0 ≤ w.reserve ∧ w.reserve ≤ A ∧ w.inner = .mi sz ∧ 0 ≤ sz ∧
      (w.unavail = false → sz ≤ A) ∧ (w.unavail = true → sz ≤ ob.mi)
  | .tbw w => ∃ t q u, ap.mi = none ∧ ap.tb = some t ∧ w.qps = t.qps ∧ w.burst = t.burst ∧ w.inner = .tb q u ∧
      0 ≤ q ∧ 0 ≤ u ∧ (w.unavail = false → q ≤ t.qps ∧ u ≤ t.burst) ∧ (w.unavail = true → q ≤ ob.qps ∧ u ≤ ob.burst)

theorem GInv_mono {g : GFC} {ap : Item} {ob ob' : Bound} (h : GInv g ap ob) (hle : BLe ob ob') : GInv g ap ob' := by
  obtain ⟨h1, h2, h3⟩ := hle
  cases g with
  | empty l => exact h
  | miw w =>
    obtain ⟨A, sz, a1, a2, a3, a4, a5, a6, a7, a8⟩ := h
    exact ⟨A, sz, a1, a2, a3, a4, a5, a6, a7, fun hu => by have := a8 hu; omega⟩
  | tbw w =>
    obtain ⟨t, q, u, a1, a2, a3, a4, a5, a6, a7, a8, a9⟩ := h
    exact ⟨t, q, u, a1, a2, a3, a4, a5, a6, a7, a8, fun hu => by have := a9 hu; omega⟩

/-- a freshly built wrapper (`remoteWrapper.newFlowControl`) from a bounded item of type `K` -/
theorem newGFC_inv {K : Kind} {ap : Item} {gs : Bound} (ob : Bound) (hK : K = .mi ∨ K = .tb) (hT : itemType ap = K)
    (hle : ItemLe ap gs) (hgs : BoundOK gs) :
    ∃ g, newGFC ap = .ok g ∧ GInv g ap ob ∧ g.unavail = false ∧ g.inner.kind = K := by
  obtain ⟨st, mi, tb⟩ := ap
  cases mi with
  | some A =>
    have hA := hle.mi A rfl
    have hA1 : A ≤ maxInt32 := by have := hgs.mi1; omega
    have hT' : K = .mi := by simp [itemType] at hT; exact hT.symm
    subst hT'
    by_cases hs : st = .count
    · subst hs
      refine ⟨.miw { inner := .mi (miReserve A), max := A, reserve := miReserve A }, ?_, ?_, rfl, rfl⟩
      · have hres := MIW_resize_avail ({ inner := .mi A, max := A } : MIW) A A rfl rfl hA.1 hA1
        simp only [newGFC, toSchema, newLim, guessType, Option.isSome_some, Bool.true_or, Bool.false_eq_true, if_false,
          if_true, toU32_id hA.1 hA1, bind, Except.bind, newCounter, ne_eq, not_true_eq_false, Lim.kind, hres]
      · have hr := miReserve_range hA.1
        exact ⟨A, miReserve A, rfl, rfl, hr.1, hr.2, rfl, hr.1, fun _ => hr.2, fun h => by simp at h⟩
    · refine ⟨.empty (.mi A), ?_, rfl, rfl, rfl⟩
      simp [newGFC, toSchema, newLim, guessType, toU32_id hA.1 hA1, bind, Except.bind, newCounter, hs]
  | none =>
    cases tb with
    | none => simp [itemType] at hT; rcases hK with h | h <;> simp [← hT] at h
    | some t =>
      have ht := hle.tb t rfl
      have hq1 : t.qps ≤ maxInt32 := by have := hgs.q1; omega
      have hb1 : t.burst ≤ maxInt32 := by have := hgs.b1; omega
      have hT' : K = .tb := by simp [itemType] at hT; exact hT.symm
      subst hT'
      by_cases hs : st = .count
      · subst hs
        obtain ⟨w', hw, h1, h2, h3, h4⟩ :=
          TBW_resize_avail ({ inner := .tb t.qps t.burst } : TBW) t.qps t.burst t.qps t.burst rfl rfl
        refine ⟨.tbw w', ?_, ?_, h4, ?_⟩
        · simp only [newGFC, toSchema, newLim, guessType, Option.isSome_some, Option.isSome_none, Bool.or_self,
            Bool.true_or, Bool.false_eq_true, if_false, if_true, toU32_id ht.1 hq1, toU32_id ht.2.2.1 hb1, bind,
            Except.bind, newCounter, ne_eq, not_true_eq_false, Lim.kind, hw]
        · exact ⟨t, t.qps, t.burst, rfl, rfl, h2, h3, h1, ht.1, ht.2.2.1, fun _ => ⟨Int.le_refl _, Int.le_refl _⟩,
            fun h => by rw [h4] at h; cases h⟩
        · simp [GFC.inner, h1, Lim.kind]
      · refine ⟨.empty (.tb t.qps t.burst), ?_, rfl, rfl, rfl⟩
        simp [newGFC, toSchema, newLim, guessType, toU32_id ht.1 hq1, toU32_id ht.2.2.1 hb1, bind, Except.bind,
          newCounter, hs]

theorem GInv_avail {g : GFC} {ap : Item} {ob : Bound} (ob' : Bound) (h : GInv g ap ob) (hu : g.unavail = false) :
    GInv g ap ob' := by
  cases g with
  | empty l => exact h
  | miw w =>
    obtain ⟨A, sz, a1, a2, a3, a4, a5, a6, a7, a8⟩ := h
    exact ⟨A, sz, a1, a2, a3, a4, a5, a6, a7, fun h' => by simp [GFC.unavail] at hu; rw [hu] at h'; cases h'⟩
  | tbw w =>
    obtain ⟨t, q, u, a1, a2, a3, a4, a5, a6, a7, a8, a9⟩ := h
    exact ⟨t, q, u, a1, a2, a3, a4, a5, a6, a7, a8, fun h' => by simp [GFC.unavail] at hu; rw [hu] at h'; cases h'⟩

/-- the bound the remote limiter must respect after a step: see `Mon.next` -/
def obAfter (ob gs : Bound) (unavail : Bool) : Bound := if unavail then ob.sup gs else gs

theorem GInv_obAfter {g : GFC} {ap : Item} {ob : Bound} (gs : Bound) (h : GInv g ap ob) :
    GInv g ap (obAfter ob gs g.unavail) := by
  cases hu : g.unavail with
  | false => exact GInv_avail _ h hu
  | true => exact GInv_mono h (by simp only [obAfter, if_true]; exact BLe.sup_left ob gs)

/-- the remote wrapper holds a limiter of the schema's type, built from an applied item within `gs` -/
def RInv (K : Kind) (r : Remote) (gs ob : Bound) : Prop :=
  ∃ i ap g, r.remoteConfig = some i ∧ r.appliedConfig = some ap ∧ r.fc = some g ∧ itemType ap = K ∧
    ItemLe ap gs ∧ GInv g ap ob ∧ g.inner.kind = K

theorem GInv_kind_mi {g : GFC} {ap : Item} {ob : Bound} (h : GInv g ap ob) (hk : g.inner.kind = .mi)
    (_hap : itemType ap = .mi) :
    (∃ x, g = .empty (.mi x)) ∨ (∃ w, g = .miw w) := by
  cases g with
  | empty l =>
    cases l with
    | mi x => exact Or.inl ⟨x, rfl⟩
    | exempt _ => simp [GFC.inner, Lim.kind] at hk
    | tb _ _ => simp [GFC.inner, Lim.kind] at hk
  | miw w => exact Or.inr ⟨w, rfl⟩
  | tbw w =>
    obtain ⟨t, q, u, a1, a2, a3, a4, a5, _⟩ := h
    simp [GFC.inner, a5, Lim.kind] at hk

theorem GInv_kind_tb {g : GFC} {ap : Item} {ob : Bound} (h : GInv g ap ob) (hk : g.inner.kind = .tb) :
    (∃ q u, g = .empty (.tb q u)) ∨ (∃ w, g = .tbw w) := by
  cases g with
  | empty l =>
    cases l with
    | tb q u => exact Or.inl ⟨q, u, rfl⟩
    | exempt _ => simp [GFC.inner, Lim.kind] at hk
    | mi _ => simp [GFC.inner, Lim.kind] at hk
  | tbw w => exact Or.inr ⟨w, rfl⟩
  | miw w =>
    obtain ⟨A, sz, a1, a2, a3, a4, a5, _⟩ := h
    simp [GFC.inner, a5, Lim.kind] at hk

/-- `remoteWrapper.Sync` with an item of the schema's type (max-in-flight) -/
theorem remoteSync_mi {r : Remote} {s : Schema} {i : Item} {gs ob : Bound} (hs : VS .mi s)
    (hi : itemType i = .mi) (hr : r = {} ∨ RInv .mi r gs ob) :
    ∃ r' g', remoteSync r s i = .ok r' ∧ r'.fc = some g' ∧ r'.appliedConfig = some (boundByGlobalLimit s i) ∧
      RInv .mi r' (globalOf s) (obAfter ob (globalOf s) g'.unavail) := by
  have hgs := VS_globalOK hs
  have hap := bound_itemLe s i hgs
  have hapT : itemType (boundByGlobalLimit s i) = .mi := by rw [bound_itemType]; exact hi
  -- a freshly built wrapper
  have fresh : ∀ ob0, ∃ g', newGFC (boundByGlobalLimit s i) = .ok g' ∧
      RInv .mi { remoteConfig := some i, appliedConfig := some (boundByGlobalLimit s i), fc := some g' } (globalOf s)
        (obAfter ob0 (globalOf s) g'.unavail) := by
    intro ob0
    obtain ⟨g', h1, h2, h3, h4⟩ := newGFC_inv (obAfter ob0 (globalOf s) false) (Or.inl rfl) hapT hap hgs
    exact ⟨g', h1, i, _, g', rfl, rfl, rfl, hapT, hap, by rw [h3]; exact h2, h4⟩
  unfold remoteSync
  simp only []
  by_cases hearly : some i = r.remoteConfig ∧ some (boundByGlobalLimit s i) = r.appliedConfig
  · rw [if_pos hearly]
    rcases hr with rfl | ⟨i0, ap0, g, h1, h2, h3, h4, h5, h6, h7⟩
    · simp at hearly
    · have e2 : ap0 = boundByGlobalLimit s i := by have := hearly.2; rw [h2] at this; exact (Option.some.inj this).symm
      subst e2
      exact ⟨r, g, rfl, h3, h2, i0, _, g, h1, h2, h3, h4, hap, GInv_obAfter _ h6, h7⟩
  · rw [if_neg hearly]
    rcases hr with rfl | ⟨i0, ap0, g, h1, h2, h3, h4, h5, h6, h7⟩
    · obtain ⟨g', hg, hR⟩ := fresh ob
      refine ⟨_, g', ?_, rfl, rfl, hR⟩
      simp [hg, bind, Except.bind, pure, Except.pure]
    · rw [h3]
      simp only []
      by_cases hmis : g.inner.kind ≠ itemType i ∨ r.strategy ≠ i.strategy
      · rw [if_pos hmis]
        obtain ⟨g', hg, hR⟩ := fresh ob
        refine ⟨_, g', ?_, rfl, rfl, hR⟩
        simp [hg, bind, Except.bind, pure, Except.pure]
      · rw [if_neg hmis]
        -- resize path: the item and the wrapper are max-in-flight
        obtain ⟨ist, imi, itb⟩ := i
        cases imi with
        | none => simp [itemType] at hi; cases itb <;> simp at hi
        | some v =>
          have hb := bound_range v (globalOf s).mi hgs.mi0
          have hb1 : bound v (globalOf s).mi ≤ maxInt32 := by have := hgs.mi1; omega
          have hbm : (boundByGlobalLimit s { strategy := ist, mi := some v, tb := itb }).mi
              = some (bound v (globalOf s).mi) := by
            simp [boundByGlobalLimit, globalOf]
          rw [hbm, h7]
          simp only [toU32_id hb.1 hb1]
          rcases GInv_kind_mi h6 h7 h4 with ⟨x, rfl⟩ | ⟨w, rfl⟩
          · refine ⟨_, _, rfl, rfl, rfl, _, _, _, rfl, rfl, rfl, hapT, hap, ?_, ?_⟩
            · simp only [GFC.resize, resize_mi, GInv, limOfItem, hbm]
            · simp [GFC.resize, GFC.inner, Lim.kind]
          · obtain ⟨A, sz, a1, a2, a3, a4, a5, a6, a7, a8⟩ := h6
            have hr' := miReserve_range hb.1
            cases hu : w.unavail with
            | false =>
              have hres := MIW_resize_avail w _ sz hu a5 hb.1 hb1
              refine ⟨_, _, rfl, rfl, rfl, _, _, _, rfl, rfl, rfl, hapT, hap, ?_, ?_⟩
              · simp only [GFC.resize, hres, GInv]
                exact ⟨_, miReserve (bound v (globalOf s).mi), hbm, rfl, hr'.1, hr'.2, rfl, hr'.1, fun _ => hr'.2,
                  fun h => by rw [hu] at h; cases h⟩
              · simp [GFC.resize, hres, GFC.inner, Lim.kind]
            | true =>
              have hres := MIW_resize_unavail w _ hu hb.1 hb1
              have hob : obAfter ob (globalOf s) (GFC.miw (w.resize (bound v (globalOf s).mi)).1).unavail
                  = ob.sup (globalOf s) := by simp [hres, GFC.unavail, hu, obAfter]
              refine ⟨_, _, rfl, rfl, rfl, _, _, _, rfl, rfl, rfl, hapT, hap, ?_, ?_⟩
              · simp only [GFC.resize]
                rw [hob]
                simp only [hres, GInv]
                refine ⟨_, sz, hbm, rfl, hr'.1, hr'.2, a5, a6, fun h => (by rw [hu] at h; cases h), fun _ => ?_⟩
                have := a8 hu
                have := (BLe.sup_left ob (globalOf s)).1
                omega
              · simp [GFC.resize, hres, GFC.inner, a5, Lim.kind]

/-- `remoteWrapper.Sync` with an item of the schema's type (token bucket) -/
theorem remoteSync_tb {r : Remote} {s : Schema} {i : Item} {gs ob : Bound} (hs : VS .tb s)
    (hi : itemType i = .tb) (hr : r = {} ∨ RInv .tb r gs ob) :
    ∃ r' g', remoteSync r s i = .ok r' ∧ r'.fc = some g' ∧ r'.appliedConfig = some (boundByGlobalLimit s i) ∧
      RInv .tb r' (globalOf s) (obAfter ob (globalOf s) g'.unavail) := by
  have hgs := VS_globalOK hs
  have hap := bound_itemLe s i hgs
  have hapT : itemType (boundByGlobalLimit s i) = .tb := by rw [bound_itemType]; exact hi
  have fresh : ∀ ob0, ∃ g', newGFC (boundByGlobalLimit s i) = .ok g' ∧
      RInv .tb { remoteConfig := some i, appliedConfig := some (boundByGlobalLimit s i), fc := some g' } (globalOf s)
        (obAfter ob0 (globalOf s) g'.unavail) := by
    intro ob0
    obtain ⟨g', h1, h2, h3, h4⟩ := newGFC_inv (obAfter ob0 (globalOf s) false) (Or.inr rfl) hapT hap hgs
    exact ⟨g', h1, i, _, g', rfl, rfl, rfl, hapT, hap, by rw [h3]; exact h2, h4⟩
  unfold remoteSync
  simp only []
  by_cases hearly : some i = r.remoteConfig ∧ some (boundByGlobalLimit s i) = r.appliedConfig
  · rw [if_pos hearly]
    rcases hr with rfl | ⟨i0, ap0, g, h1, h2, h3, h4, h5, h6, h7⟩
    · simp at hearly
    · have e2 : ap0 = boundByGlobalLimit s i := by have := hearly.2; rw [h2] at this; exact (Option.some.inj this).symm
      subst e2
      exact ⟨r, g, rfl, h3, h2, i0, _, g, h1, h2, h3, h4, hap, GInv_obAfter _ h6, h7⟩
  · rw [if_neg hearly]
    rcases hr with rfl | ⟨i0, ap0, g, h1, h2, h3, h4, h5, h6, h7⟩
    · obtain ⟨g', hg, hR⟩ := fresh ob
      refine ⟨_, g', ?_, rfl, rfl, hR⟩
      simp [hg, bind, Except.bind, pure, Except.pure]
    · rw [h3]
      simp only []
      by_cases hmis : g.inner.kind ≠ itemType i ∨ r.strategy ≠ i.strategy
      · rw [if_pos hmis]
        obtain ⟨g', hg, hR⟩ := fresh ob
        refine ⟨_, g', ?_, rfl, rfl, hR⟩
        simp [hg, bind, Except.bind, pure, Except.pure]
      · rw [if_neg hmis]
        obtain ⟨ist, imi, itb⟩ := i
        cases imi with
        | some v => simp [itemType] at hi
        | none =>
        cases itb with
        | none => simp [itemType] at hi
        | some t =>
          have hq := bound_range t.qps (globalOf s).qps hgs.q0
          have hq1 : bound t.qps (globalOf s).qps ≤ maxInt32 := by have := hgs.q1; omega
          have hb := bound_range t.burst (globalOf s).burst hgs.b0
          have hb1 : bound t.burst (globalOf s).burst ≤ maxInt32 := by have := hgs.b1; omega
          have hbt : (boundByGlobalLimit s { strategy := ist, mi := none, tb := some t }).tb
              = some ⟨bound t.qps (globalOf s).qps, bound t.burst (globalOf s).burst⟩ := by
            simp [boundByGlobalLimit, globalOf]
          have hbm : (boundByGlobalLimit s { strategy := ist, mi := none, tb := some t }).mi = none := by
            simp [boundByGlobalLimit]
          rw [hbt, hbm, h7]
          simp only [toU32_id hq.1 hq1, toU32_id hb.1 hb1]
          rcases GInv_kind_tb h6 h7 with ⟨q0, u0, rfl⟩ | ⟨w, rfl⟩
          · refine ⟨_, _, rfl, rfl, rfl, _, _, _, rfl, rfl, rfl, hapT, hap, ?_, ?_⟩
            · simp only [GFC.resize, resize_tb, GInv, limOfItem, hbm, hbt]
            · simp [GFC.resize, GFC.inner, Lim.kind]
          · obtain ⟨t0, q0, u0, a1, a2, a3, a4, a5, a6, a7, a8, a9⟩ := h6
            cases hu : w.unavail with
            | false =>
              obtain ⟨w', hw, e1, e2, e3, e4⟩ := TBW_resize_avail w (bound t.qps (globalOf s).qps)
                (bound t.burst (globalOf s).burst) q0 u0 hu a5
              refine ⟨_, _, rfl, rfl, rfl, _, _, _, rfl, rfl, rfl, hapT, hap, ?_, ?_⟩
              · simp only [GFC.resize, hw, GInv]
                exact ⟨_, _, _, hbm, hbt, e2, e3, e1, hq.1, hb.1, fun _ => ⟨Int.le_refl _, Int.le_refl _⟩,
                  fun h => (by rw [e4] at h; cases h)⟩
              · simp [GFC.resize, hw, GFC.inner, e1, Lim.kind]
            | true =>
              obtain ⟨w', hw, e1, e2, e3, e4⟩ := TBW_resize_unavail w (bound t.qps (globalOf s).qps)
                (bound t.burst (globalOf s).burst) hu
              have hob : obAfter ob (globalOf s) (GFC.tbw w').unavail = ob.sup (globalOf s) := by
                simp [GFC.unavail, e4, obAfter]
              refine ⟨_, _, rfl, rfl, rfl, _, _, _, rfl, rfl, rfl, hapT, hap, ?_, ?_⟩
              · simp only [GFC.resize, hw]
                rw [hob]
                simp only [GInv]
                refine ⟨_, q0, u0, hbm, hbt, e2, e3, (by rw [e1, a5]), a6, a7,
                  fun h => (by rw [e4] at h; cases h), fun _ => ?_⟩
                have := a9 hu
                have h1 := (BLe.sup_left ob (globalOf s)).2.1
                have h2 := (BLe.sup_left ob (globalOf s)).2.2
                omega
              · simp [GFC.resize, hw, GFC.inner, e1, a5, Lim.kind]

theorem remoteSync_inv {K : Kind} {r : Remote} {s : Schema} {i : Item} {gs ob : Bound} (hs : VS K s)
    (hi : itemType i = K) (hr : r = {} ∨ RInv K r gs ob) :
    ∃ r' g', remoteSync r s i = .ok r' ∧ r'.fc = some g' ∧ r'.appliedConfig = some (boundByGlobalLimit s i) ∧
      RInv K r' (globalOf s) (obAfter ob (globalOf s) g'.unavail) := by
  cases hs with
  | mi st l g h0 h1 h2 => exact remoteSync_mi (VS.mi st l g h0 h1 h2) hi hr
  | tb st q b gq gb h0 h1 h2 h3 h4 h5 => exact remoteSync_tb (VS.tb st q b gq gb h0 h1 h2 h3 h4 h5) hi hr

/-! ## which syncs rebuild the limiter -/

/-- a sync that does not rebuild keeps the limiter object: it returns early or resizes in place -/
theorem remoteSync_norecreate {r r' : Remote} {s : Schema} {i : Item} (hn : remoteRecreates r s i = false)
    (hs : remoteSync r s i = .ok r') (hr : r = {} ∨ ∃ g, r.fc = some g) :
    ∃ g, r.fc = some g ∧ (r'.fc = some g ∨ ∃ n b, r'.fc = some (g.resize n b)) := by
  unfold remoteRecreates at hn
  unfold remoteSync at hs
  simp only [] at hn hs
  by_cases hearly : some i = r.remoteConfig ∧ some (boundByGlobalLimit s i) = r.appliedConfig
  · rw [if_pos hearly] at hs
    have : r' = r := (Except.ok.inj hs).symm
    subst this
    rcases hr with rfl | ⟨g, hg⟩
    · simp at hearly
    · exact ⟨g, hg, Or.inl hg⟩
  · rw [if_neg hearly] at hn hs
    cases hfc : r.fc with
    | none => rw [hfc] at hn; simp at hn
    | some g =>
      rw [hfc] at hn hs
      simp only [] at hn hs
      by_cases hmis : g.inner.kind ≠ itemType i ∨ r.strategy ≠ i.strategy
      · rw [if_pos hmis] at hn; cases hn
      · rw [if_neg hmis] at hn hs
        refine ⟨g, rfl, Or.inr ?_⟩
        obtain ⟨ist, imi, itb⟩ := i
        cases imi with
        | some v =>
          cases hk : g.inner.kind with
          | mi =>
            simp only [boundByGlobalLimit, Option.map_some, hk] at hs
            have := Except.ok.inj hs
            exact ⟨_, _, by rw [← this]⟩
          | tb =>
            cases itb with
            | some t =>
              simp only [boundByGlobalLimit, Option.map_some, hk] at hs
              have := Except.ok.inj hs
              exact ⟨_, _, by rw [← this]⟩
            | none => simp [hk] at hn
          | exempt => cases itb <;> simp [hk] at hn
          | unknown => cases itb <;> simp [hk] at hn
        | none =>
          cases itb with
          | none => simp at hn
          | some t =>
            cases hk : g.inner.kind with
            | tb =>
              simp only [boundByGlobalLimit, Option.map_some, Option.map_none, hk] at hs
              have := Except.ok.inj hs
              exact ⟨_, _, by rw [← this]⟩
            | mi => simp [hk] at hn
            | exempt => simp [hk] at hn
            | unknown => simp [hk] at hn

/-- a sync that rebuilds installs the limiter `newFlowControl` builds from the bounded item -/
theorem remoteSync_recreate {r r' : Remote} {s : Schema} {i : Item} (hn : remoteRecreates r s i = true)
    (hs : remoteSync r s i = .ok r') :
    ∃ g', newGFC (boundByGlobalLimit s i) = .ok g' ∧ r'.fc = some g' := by
  unfold remoteRecreates at hn
  unfold remoteSync at hs
  simp only [] at hn hs
  have fresh : ∀ {x : Except String Remote},
      x = (do let g' ← newGFC (boundByGlobalLimit s i)
              pure { remoteConfig := some i, appliedConfig := some (boundByGlobalLimit s i), fc := some g' }) →
      x = .ok r' → ∃ g', newGFC (boundByGlobalLimit s i) = .ok g' ∧ r'.fc = some g' := by
    intro x hx hok
    rw [hx] at hok
    cases hg : newGFC (boundByGlobalLimit s i) with
    | error e => simp [hg, bind, Except.bind] at hok
    | ok g' =>
      simp only [hg, bind, Except.bind, pure, Except.pure, Except.ok.injEq] at hok
      exact ⟨g', rfl, by rw [← hok]⟩
  by_cases hearly : some i = r.remoteConfig ∧ some (boundByGlobalLimit s i) = r.appliedConfig
  · rw [if_pos hearly] at hn; cases hn
  · rw [if_neg hearly] at hn hs
    cases hfc : r.fc with
    | none => rw [hfc] at hs; exact fresh rfl hs
    | some g =>
      rw [hfc] at hn hs
      simp only [] at hn hs
      by_cases hmis : g.inner.kind ≠ itemType i ∨ r.strategy ≠ i.strategy
      · rw [if_pos hmis] at hs; exact fresh rfl hs
      · rw [if_neg hmis] at hn hs
        obtain ⟨ist, imi, itb⟩ := i
        cases imi with
        | some v =>
          cases hk : g.inner.kind with
          | mi => simp [hk] at hn
          | tb =>
            cases itb with
            | some t => simp [hk] at hn
            | none =>
              simp only [boundByGlobalLimit, Option.map_some, Option.map_none, hk] at hs
              exact fresh rfl hs
          | exempt =>
            cases itb <;> simp only [boundByGlobalLimit, Option.map_some, Option.map_none, hk] at hs <;> exact fresh rfl hs
          | unknown =>
            cases itb <;> simp only [boundByGlobalLimit, Option.map_some, Option.map_none, hk] at hs <;> exact fresh rfl hs
        | none =>
          cases itb with
          | none =>
            cases hk : g.inner.kind <;>
              simp only [boundByGlobalLimit, Option.map_none, hk] at hs <;> exact fresh rfl hs
          | some t =>
            cases hk : g.inner.kind with
            | tb => simp [hk] at hn
            | mi => simp only [boundByGlobalLimit, Option.map_some, Option.map_none, hk] at hs; exact fresh rfl hs
            | exempt => simp only [boundByGlobalLimit, Option.map_some, Option.map_none, hk] at hs; exact fresh rfl hs
            | unknown => simp only [boundByGlobalLimit, Option.map_some, Option.map_none, hk] at hs; exact fresh rfl hs

/-- a freshly built token-bucket count wrapper has no tokens being acquired -/
theorem newGFC_tbw_fresh {ap : Item} {w : TBW} (h : newGFC ap = .ok (.tbw w)) : w.tokenInflight = 0 := by
  unfold newGFC at h
  cases hl : newLim (toSchema ap) with
  | error e => simp [hl, bind, Except.bind] at h
  | ok fc =>
    simp only [hl, bind, Except.bind, newCounter] at h
    split at h
    · cases h
    · split at h
      · split at h <;> cases h
      · split at h
        · have := Except.ok.inj h
          injection this with hw
          rw [← hw]
          simp only [TBW.resize]
          split <;> rfl
        · cases h

theorem resize_wkind (g : GFC) (n b : Int) : (match g.resize n b with | .empty _ => 1 | .miw _ => 2 | .tbw _ => 3)
    = (match g with | .empty _ => 1 | .miw _ => 2 | .tbw _ => (3 : Nat)) := by
  cases g <;> rfl

theorem resize_tokenInflight (w : TBW) (n b : Int) : ∃ w', GFC.resize (.tbw w) n b = .tbw w' ∧
    w'.tokenInflight = w.tokenInflight := by
  refine ⟨(w.resize n b).1, rfl, ?_⟩
  simp only [TBW.resize]
  split <;> rfl

/-! ## acquire results -/

theorem nonAccept_range {limit wmax : Int} (h : 0 ≤ wmax) :
    0 ≤ (if (if limit > wmax then wmax else limit) < 0 then 0 else (if limit > wmax then wmax else limit)) ∧
    (if (if limit > wmax then wmax else limit) < 0 then 0 else (if limit > wmax then wmax else limit)) ≤ wmax := by
  by_cases h1 : limit > wmax
  · simp only [h1, if_true]; constructor <;> (split <;> omega)
  · simp only [h1, if_false]; constructor <;> (split <;> omega)

/-- `maxInflightWrapper.SetLimit` keeps the wrapper within the bound, and the judge accepts the transition -/
theorem miw_setLimit_inv {w : MIW} {ap : Item} {gs ob : Bound} {s : Schema} (hs : VS .mi s)
    (hg : GInv (.miw w) ap ob) (hle : ItemLe ap gs) (hgs : BoundOK gs) (obs : Int) (r : Reply) :
    ∃ w', w.setLimit s obs r = .ok w' ∧ GInv (.miw w') ap (obAfter ob gs w'.unavail) ∧ w'.inner.kind = .mi ∧
      exactMISet w.lastAcquireTime w.reserve w.max w.unavail (some w.inner) s.mi obs r (some w'.inner) w'.unavail = [] := by
  have hg0 := hg
  obtain ⟨A, sz, a1, a2, a3, a4, a5, a6, a7, a8⟩ := hg
  have hA := hle.mi A a1
  have hA1 : A ≤ maxInt32 := by have := hgs.mi1; omega
  have hsup := (BLe.sup_right ob gs).1
  have hkind : w.inner.kind = .mi := by rw [a5]; rfl
  have same : GInv (.miw w) ap (obAfter ob gs w.unavail) := GInv_obAfter gs hg0
  cases hs with
  | mi st l g h0 h1 h2 =>
  unfold MIW.setLimit
  by_cases hst : r.rt > 0 ∧ r.rt ≤ w.lastAcquireTime
  · rw [if_pos hst]
    refine ⟨w, rfl, same, hkind, ?_⟩
    simp [exactMISet, hst.1, hst.2]
  · rw [if_neg hst]
    have hfresh : (!(decide (r.rt > 0) && decide (r.rt ≤ w.lastAcquireTime))) = true := by
      simp only [Bool.not_eq_true', Bool.and_eq_false_iff, decide_eq_false_iff_not]
      by_cases h : r.rt > 0
      · exact Or.inr (fun h' => hst ⟨h, h'⟩)
      · exact Or.inl h
    cases he : r.err with
    | tooOld =>
      refine ⟨w, rfl, same, hkind, ?_⟩
      simp [exactMISet, he]
    | other =>
      cases hu : w.unavail with
      | true =>
        refine ⟨w, by simp, same, hkind, ?_⟩
        simp [exactMISet, he, hu]
      | false =>
        have hf := miFallback_range (obs := obs) h0 (by omega : 0 ≤ w.max)
        have hf1 : miFallback obs l w.max ≤ maxInt32 := by omega
        refine ⟨{ w with inner := .mi (miFallback obs l w.max), unavail := true }, ?_, ?_, rfl, ?_⟩
        · simp only [Bool.not_false, if_true, a5, resize_mi]
          have : (if (if obs < l then l else obs) > w.max then w.max else if obs < l then l else obs)
              = miFallback obs l w.max := rfl
          rw [this, toU32_id hf.1 hf1]
        · simp only [GInv, obAfter, if_true]
          exact ⟨A, _, a1, a2, a3, a4, rfl, hf.1, fun h => (by cases h), fun _ => by omega⟩
        · simp [exactMISet, he, hfresh]
    | none =>
      cases ha : r.accept with
      | true =>
        have hc := clampAccept_range (limit := r.limit) a3 (by omega : w.reserve ≤ w.max)
        have hc1 : clampAccept r.limit w.reserve w.max ≤ maxInt32 := by omega
        refine ⟨{ w with unavail := false, overLimited := 0, acquired := clampAccept r.limit w.reserve w.max,
                         inner := .mi (clampAccept r.limit w.reserve w.max), lastAcquireTime := r.rt }, ?_, ?_, rfl, ?_⟩
        · simp only [if_true, a5, resize_mi]
          have : (if (if r.limit < w.reserve then w.reserve else r.limit) > w.max then w.max
              else if r.limit < w.reserve then w.reserve else r.limit) = clampAccept r.limit w.reserve w.max := rfl
          rw [this, toU32_id hc.1 hc1]
        · simp only [GInv, obAfter]
          exact ⟨A, _, a1, a2, a3, a4, rfl, hc.1, fun _ => by omega, fun h => (by cases h)⟩
        · simp [exactMISet, he, ha, hfresh]
      | false =>
        have hn := nonAccept_range (limit := r.limit) (by omega : 0 ≤ w.max)
        refine ⟨{ w with overLimited := 1,
                         acquired := (if (if r.limit > w.max then w.max else r.limit) < 0 then 0 else (if r.limit > w.max then w.max else r.limit)),
                         inner := .mi (if (if r.limit > w.max then w.max else r.limit) < 0 then 0 else (if r.limit > w.max then w.max else r.limit)),
                         lastAcquireTime := r.rt }, ?_, ?_, rfl, ?_⟩
        · simp only [Bool.false_eq_true, if_false, a5, resize_mi]
          rw [toU32_id hn.1 (by omega)]
        · simp only [GInv]
          refine ⟨A, _, a1, a2, a3, a4, rfl, hn.1, fun _ => by omega, fun hu => ?_⟩
          simp only [obAfter, hu, if_true]
          omega
        · simp [exactMISet, he, ha, hfresh]

/-- the degraded qps `tokenBucketWrapper.SetLimit` computes is the spec's and lies in `[0, m.qps]` -/
theorem tbFallback_eq {mt : Meter} {ql wq : Int} (hd : 0 < mt.rateDen) (hq0 : 0 < ql) (hq1 : ql ≤ maxInt32)
    (hw0 : 0 ≤ wq) (hw1 : wq ≤ maxInt32) :
    tbDegradedQps mt ql wq = tbFallbackQps mt ql wq ∧
    0 ≤ tbFallbackQps mt ql wq ∧ tbFallbackQps mt ql wq ≤ wq := by
  simp only [tbDegradedQps, tbFallbackQps, rateToU32, toU32_id (by omega : 0 ≤ ql) hq1]
  by_cases h1 : mt.rateNum < ql * mt.rateDen
  · simp only [h1, if_true]
    refine ⟨trivial, ?_, ?_⟩ <;> (split <;> omega)
  · simp only [h1, if_false]
    by_cases h2 : mt.rateNum > wq * mt.rateDen
    · simp only [h2, if_true]; exact ⟨trivial, hw0, Int.le_refl _⟩
    · simp only [h2, if_false]
      have hb := tdiv_between hd (by omega : 0 ≤ ql) h1 h2
      rw [toU32_id (by omega) (by omega)]
      exact ⟨rfl, by omega, hb.2⟩

@[simp] theorem noteRequest_inner (w : TBW) (r : Reply) : (w.noteRequest r).inner = w.inner := by
  simp only [TBW.noteRequest]; split <;> rfl
@[simp] theorem noteRequest_unavail (w : TBW) (r : Reply) : (w.noteRequest r).unavail = w.unavail := by
  simp only [TBW.noteRequest]; split <;> rfl
@[simp] theorem noteRequest_qps (w : TBW) (r : Reply) : (w.noteRequest r).qps = w.qps := by
  simp only [TBW.noteRequest]; split <;> rfl
@[simp] theorem noteRequest_burst (w : TBW) (r : Reply) : (w.noteRequest r).burst = w.burst := by
  simp only [TBW.noteRequest]; split <;> rfl

/-- `tokenBucketWrapper.SetLimit` keeps the wrapper within the bound, and the judge accepts the transition -/
theorem tbw_setLimit_inv {w : TBW} {ap : Item} {gs ob : Bound} {s : Schema} (hs : VS .tb s)
    (hg : GInv (.tbw w) ap ob) (hle : ItemLe ap gs) (hgs : BoundOK gs) (mt : Meter) (hd : 0 < mt.rateDen) (r : Reply) :
    ∃ w' b, w.setLimit s mt r = .ok (w', b) ∧ GInv (.tbw w') ap (obAfter ob gs w'.unavail) ∧ w'.inner.kind = .tb ∧
      exactTBSet w.qps w.burst w.unavail (some w.inner) s.tb mt r (some w'.inner) w'.unavail = [] := by
  obtain ⟨t, q, u, a1, a2, a3, a4, a5, a6, a7, a8, a9⟩ := hg
  have ht := hle.tb t a2
  have hq1 : t.qps ≤ maxInt32 := by have := hgs.q1; omega
  have hb1 : t.burst ≤ maxInt32 := by have := hgs.b1; omega
  have hsq := (BLe.sup_right ob gs).2.1
  have hsb := (BLe.sup_right ob gs).2.2
  cases hs with
  | tb st ql bl gq gb h0 h1 h2 h3 h4 h5 =>
  -- any wrapper with the same limiter, flags and (qps, burst) satisfies the invariant again
  have keep : ∀ w1 : TBW, w1.inner = w.inner → w1.unavail = w.unavail → w1.qps = w.qps → w1.burst = w.burst →
      GInv (.tbw w1) ap (obAfter ob gs w1.unavail) ∧ w1.inner.kind = .tb := by
    intro w1 e1 e2 e3 e4
    refine ⟨⟨t, q, u, a1, a2, by rw [e3]; exact a3, by rw [e4]; exact a4, by rw [e1]; exact a5, a6, a7,
      by rw [e2]; exact a8, ?_⟩, by rw [e1, a5]; rfl⟩
    rw [e2]
    intro hu
    have := a9 hu
    have := (BLe.sup_left ob gs).2.1
    have := (BLe.sup_left ob gs).2.2
    simp only [obAfter, hu, if_true]
    omega
  unfold TBW.setLimit
  simp only []
  cases he : r.err with
  | tooOld =>
    obtain ⟨k1, k2⟩ := keep (w.noteRequest r) (by simp) (by simp) (by simp) (by simp)
    refine ⟨_, _, rfl, k1, k2, ?_⟩
    simp [exactTBSet, he]
  | other =>
    cases hu : w.unavail with
    | true =>
      obtain ⟨k1, k2⟩ := keep (w.noteRequest r) (by simp) (by simp) (by simp) (by simp)
      refine ⟨_, _, (by simp only [noteRequest_unavail, hu, Bool.not_true, Bool.not_false, Bool.false_eq_true, if_true, if_false]; rfl), k1, k2, ?_⟩
      simp [exactTBSet, he, hu]
    | false =>
      obtain ⟨hq, hq0', hq1'⟩ := tbFallback_eq (mt := mt) (ql := ql) (wq := w.qps) hd h0 (by omega)
        (by rw [a3]; exact ht.1) (by rw [a3]; exact hq1)
      refine ⟨_, _, (by simp only [noteRequest_unavail, hu, Bool.not_true, Bool.not_false, Bool.false_eq_true, if_true, if_false]; rfl), ?_, ?_, ?_⟩
      · simp only [TBW.degrade, noteRequest_inner, noteRequest_qps, noteRequest_burst, a5, resize_tb, hq, GInv, obAfter,
          if_true]
        refine ⟨t, _, _, a1, a2, a3, a4, rfl, hq0', ?_, fun h => (by cases h), fun _ => ?_⟩
        · split <;> omega
        · constructor
          · omega
          · split <;> omega
      · simp [TBW.degrade, a5, Lim.kind]
      · simp [exactTBSet, he, TBW.degrade, a5, hq]
  | none =>
    cases ha : r.accept with
    | false =>
      obtain ⟨k1, k2⟩ := keep { w.noteRequest r with lastAcquireTime := r.rt } (by simp) (by simp) (by simp) (by simp)
      refine ⟨_, _, (by simp only [Bool.false_eq_true, if_false]; rfl), k1, k2, ?_⟩
      simp [exactTBSet, he, ha]
    | true =>
      cases hu : w.unavail with
      | false =>
        obtain ⟨k1, k2⟩ := keep { (w.noteRequest r).recover.addTokens r.limit with lastAcquireTime := r.rt }
          (by simp [TBW.addTokens, TBW.recover, hu]) (by simp [TBW.addTokens, TBW.recover, hu])
          (by simp [TBW.addTokens, TBW.recover, hu]) (by simp [TBW.addTokens, TBW.recover, hu])
        refine ⟨_, _, (by simp only [if_true]; rfl), k1, k2, ?_⟩
        simp [exactTBSet, he, ha, hu, TBW.addTokens, TBW.recover]
      | true =>
        refine ⟨_, _, (by simp only [if_true]; rfl), ?_, ?_, ?_⟩
        · simp only [TBW.addTokens, TBW.recover, noteRequest_unavail, hu, if_true, noteRequest_inner, noteRequest_qps,
            noteRequest_burst, a5, resize_tb, GInv, obAfter]
          exact ⟨t, _, _, a1, a2, a3, a4, rfl, by rw [a3]; exact ht.1, by rw [a4]; exact ht.2.2.1,
            fun _ => ⟨by rw [a3]; exact Int.le_refl _, by rw [a4]; exact Int.le_refl _⟩, fun h => (by cases h)⟩
        · simp [TBW.addTokens, TBW.recover, hu, a5, Lim.kind]
        · simp [exactTBSet, he, ha, hu, TBW.addTokens, TBW.recover, a5]

/-- `tokenBucketWrapper.SetLimit` touches `tokenInflight` only by giving the answered request's tokens back — on every
    path, the error path included (a failed request is no longer being acquired) -/
theorem tbw_setLimit_tokenInflight {w w' : TBW} {loc : Schema} {mt : Meter} {r : Reply} {b : Bool}
    (h : w.setLimit loc mt r = .ok (w', b)) : w'.tokenInflight = (w.noteRequest r).tokenInflight := by
  unfold TBW.setLimit at h
  simp only [] at h
  cases he : r.err with
  | tooOld => simp only [he, Except.ok.injEq, Prod.mk.injEq] at h; rw [← h.1]
  | other =>
    simp only [he] at h
    split at h
    · split at h <;> (simp only [Except.ok.injEq, Prod.mk.injEq] at h; rw [← h.1]; rfl)
    · simp only [Except.ok.injEq, Prod.mk.injEq] at h; rw [← h.1]
  | none =>
    simp only [he, Except.ok.injEq, Prod.mk.injEq] at h
    rw [← h.1]
    split
    · simp only [TBW.addTokens, TBW.recover]; split <;> rfl
    · rfl

/-! ## readiness -/

theorem failRunStart_false (t : Int) (rest : List (Bool × Int)) :
    failRunStart ((false, t) :: rest) = some ((failRunStart rest).getD t) := by
  simp only [failRunStart]; cases failRunStart rest <;> rfl

theorem failRunStart_true (t : Int) (rest : List (Bool × Int)) : failRunStart ((true, t) :: rest) = none := rfl

theorem specReady_true (t : Int) (rest : List (Bool × Int)) : specReady ((true, t) :: rest) = true := rfl

theorem specReady_false (now : Int) (rest : List (Bool × Int)) :
    specReady ((false, now) :: rest) =
      (specReady rest && !decide (now > (failRunStart rest).getD now + serverHeartBeatTimeout)) := rfl

theorem hbAfter_now (now : Int) : hbAfter (some now) now = false := by
  simp [hbAfter, serverHeartBeatTimeout]; omega

/-- a successful heartbeat: ready at once -/
theorem hbStep_ok (h : HB) (now : Int) :
    hbStep h true now = { lastState := true, ready := true, lastChange := if h.lastState then h.lastChange else some now } := by
  obtain ⟨lc, ls, rd⟩ := h
  cases ls <;> cases rd <;> simp [hbStep]

/-- the first failed heartbeat after a success starts the run: nothing changes yet -/
theorem hbStep_fail_first (h : HB) (now : Int) (hl : h.lastState = true) :
    hbStep h false now = { lastState := false, ready := h.ready, lastChange := some now } := by
  obtain ⟨lc, ls, rd⟩ := h
  simp only at hl; subst hl
  cases rd <;> simp [hbStep, hbAfter_now]

/-- a further failed heartbeat: down iff the run started more than the time-out ago -/
theorem hbStep_fail_next (h : HB) (now : Int) (hl : h.lastState = false) :
    hbStep h false now = { h with ready := h.ready && !hbAfter h.lastChange now } := by
  obtain ⟨lc, ls, rd⟩ := h
  simp only at hl; subst hl
  cases rd <;> simp [hbStep]
  cases hbAfter lc now <;> simp

/-- the heartbeat status mirrors the declarative readiness of the history -/
def HBInv (hb : Option HB) (hist : List (Bool × Int)) : Prop :=
  match hb with
  | none => hist = []
  | some h => (∃ x rest, hist = x :: rest ∧ h.lastState = x.1) ∧ h.ready = specReady hist ∧
              (h.ready = true → h.lastState = false → h.lastChange = failRunStart hist)

theorem hbStep_inv {hb : Option HB} {hist : List (Bool × Int)} (h : HBInv hb hist) (ok : Bool) (now : Int) :
    HBInv (some (hbStep (hb.getD {}) ok now)) ((ok, now) :: hist) := by
  cases ok with
  | true =>
    rw [hbStep_ok]
    exact ⟨⟨_, _, rfl, rfl⟩, rfl, fun _ h => by cases h⟩
  | false =>
    cases hb with
    | none =>
      simp only [HBInv] at h
      subst h
      rw [Option.getD_none, hbStep_fail_next _ _ rfl]
      exact ⟨⟨_, _, rfl, rfl⟩, rfl, fun h => by cases h⟩
    | some hb =>
      obtain ⟨⟨x, rest, rfl, hls⟩, hr, hc⟩ := h
      obtain ⟨xs, xt⟩ := x
      simp only at hls
      simp only [Option.getD_some]
      cases xs with
      | true =>
        rw [hbStep_fail_first _ _ hls]
        have hrd : hb.ready = true := by rw [hr]; rfl
        refine ⟨⟨_, _, rfl, rfl⟩, ?_, fun _ _ => ?_⟩
        · rw [specReady_false, specReady_true, failRunStart_true]
          simp [hrd, serverHeartBeatTimeout]; omega
        · rw [failRunStart_false, failRunStart_true]; rfl
      | false =>
        rw [hbStep_fail_next _ _ hls]
        refine ⟨⟨_, _, rfl, hls⟩, ?_, ?_⟩
        · rw [specReady_false, ← hr]
          cases hrd : hb.ready with
          | false => simp
          | true =>
            have hc1 := hc hrd hls
            rw [failRunStart_false] at hc1
            simp [hc1, hbAfter, failRunStart_false]
        · intro h1 _
          simp only [Bool.and_eq_true] at h1
          have hc1 := hc h1.1 hls
          rw [failRunStart_false] at hc1 ⊢
          rw [failRunStart_false]
          simpa using hc1

/-! ## the invariant -/

theorem VS_kind {K : Kind} {s : Schema} (h : VS K s) : K = .mi ∨ K = .tb := by
  cases h
  · exact Or.inl rfl
  · exact Or.inr rfl

/-- the global-count wrapper of a state, if any -/
def gfcOf (st : State) : Option GFC := st.cache.bind (fun c => c.remote.bind (·.fc))

theorem observe_rlim (cfg : Cfg) (st : State) : (observe cfg st).rlim = (gfcOf st).map (·.inner) := by
  simp only [observe, gfcOf]
  cases h : (st.cache.bind fun c => c.remote.bind (·.fc)) with
  | none => rfl
  | some g => cases g <;> rfl

theorem observe_unavail (cfg : Cfg) (st : State) : (observe cfg st).unavail = ((gfcOf st).map (·.unavail)).getD false := by
  simp only [observe, gfcOf]
  cases h : (st.cache.bind fun c => c.remote.bind (·.fc)) with
  | none => rfl
  | some g => cases g <;> rfl

theorem observe_choice (cfg : Cfg) (st : State) : (observe cfg st).choice = load cfg st := by
  simp only [observe]
  cases h : (st.cache.bind fun c => c.remote.bind (·.fc)) with
  | none => rfl
  | some g => cases g <;> rfl

theorem observe_ready (cfg : Cfg) (st : State) : (observe cfg st).ready = isReady st := by
  simp only [observe]
  cases h : (st.cache.bind fun c => c.remote.bind (·.fc)) with
  | none => rfl
  | some g => cases g <;> rfl

theorem observe_lim (cfg : Cfg) (st : State) :
    (observe cfg st).lim = (match load cfg st with
      | .dflt => none
      | .loc => st.cache.bind (·.loc.fc)
      | .remote => (gfcOf st).map (·.inner)) := by
  simp only [observe, gfcOf]
  cases h : (st.cache.bind fun c => c.remote.bind (·.fc)) with
  | none => rfl
  | some g => cases g <;> rfl

/-- the cache part of the invariant -/
def CInv (K : Kind) (c : Option Cache) (m : Mon) : Prop :=
  match c, m.schema with
  | none, none => m.synced = false
  | some c, some s => c.loc.config = s ∧ VS K s ∧ c.loc.fc = some (limOf s) ∧ m.synced = c.remote.isSome ∧
      ∀ r, c.remote = some r → RInv K r m.gs m.ob
  | _, _ => False

/-- the request side: the monitor's clock is the state's; its `contact` bounds the counter's `lastSyncTime` from above;
    a pending event is one the monitor knows may be pending -/
structure CntInv (st : State) (m : Mon) : Prop where
  clock : m.clock = st.clock
  contact0 : 0 ≤ m.contact
  contact : ∀ c, st.cache = some c → c.cnt.lastSync ≤ m.contact
  may : ∀ c, st.cache = some c → c.cnt.event = true → m.mayEvent = true

theorem cntInv_frame {st st' : State} {m m' : Mon} (h : CntInv st m) (hc : st'.cache = st.cache)
    (e1 : m'.clock = st'.clock) (e2 : m'.contact = m.contact) (e3 : m'.mayEvent = m.mayEvent) : CntInv st' m' := by
  refine ⟨e1, by rw [e2]; exact h.contact0, ?_, ?_⟩
  · intro c hc'; rw [e2]; exact h.contact c (by rw [← hc]; exact hc')
  · intro c hc' he; rw [e3]; exact h.may c (by rw [← hc]; exact hc') he

/-- the cache changes but its counter does not -/
theorem cntInv_cache {st st' : State} {m m' : Mon} {c c' : Cache} (h : CntInv st m) (hc : st.cache = some c)
    (hc' : st'.cache = some c') (hcnt : c'.cnt = c.cnt)
    (e1 : m'.clock = st'.clock) (e2 : m'.contact = m.contact) (e3 : m'.mayEvent = m.mayEvent) : CntInv st' m' := by
  refine ⟨e1, by rw [e2]; exact h.contact0, ?_, ?_⟩
  · intro x hx
    have : x = c' := by rw [hc'] at hx; exact (Option.some.inj hx).symm
    subst this; rw [e2, hcnt]; exact h.contact c hc
  · intro x hx he
    have : x = c' := by rw [hc'] at hx; exact (Option.some.inj hx).symm
    subst this; rw [e3]; rw [hcnt] at he; exact h.may c hc he

/-- the counter is (possibly) re-created now: its `lastSyncTime` is the current second -/
theorem cntInv_sync {st st' : State} {m m' : Mon} {c c' : Cache} (b : Bool) (h : CntInv st m) (hc : st.cache = some c)
    (hc' : st'.cache = some c') (hcnt : c'.cnt = if b then { event := false, lastSync := unixS st.clock } else c.cnt)
    (e1 : m'.clock = st'.clock)
    (e2 : m'.contact = if m.contact < unixS m.clock then unixS m.clock else m.contact)
    (e3 : m'.mayEvent = m.mayEvent) : CntInv st' m' := by
  have hck := h.clock
  have h0 := h.contact0
  have hl := h.contact c hc
  refine ⟨e1, ?_, ?_, ?_⟩
  · rw [e2]; split <;> omega
  · intro x hx
    have : x = c' := by rw [hc'] at hx; exact (Option.some.inj hx).symm
    subst this; rw [e2, hcnt, hck]
    cases b <;> simp <;> split <;> omega
  · intro x hx he
    have : x = c' := by rw [hc'] at hx; exact (Option.some.inj hx).symm
    subst this; rw [e3]; rw [hcnt] at he
    cases b
    · exact h.may c hc (by simpa using he)
    · simp at he

/-! ### requests in flight, token accounting, rebuilds -/

def GFC.wkind : GFC → Nat
  | .empty _ => 1
  | .miw _ => 2
  | .tbw _ => 3


/-- does this request count against the limiter inside the remote wrapper now? -/
def flagOf (c : Cache) (h : Handle) : Bool :=
  decide (h.side = .rem) && decide (h.gen = c.fl.remOuter) && decide (h.inner = c.fl.remInner) && c.remote.isSome

/-- what the monitor's `held` list must be -/
def heldOf (co : Option Cache) (hs : List Handle) : List (Nat × Bool) :=
  match co with
  | some c => hs.map fun h => (h.id, flagOf c h)
  | none => hs.map fun h => (h.id, false)

theorem heldOf_any (co : Option Cache) (hs : List Handle) (id : Nat) :
    (heldOf co hs).any (·.1 == id) = hs.any (·.id == id) := by
  cases co <;> simp [heldOf, List.any_map, Function.comp_def]

theorem heldOf_filter (co : Option Cache) (hs : List Handle) (id : Nat) :
    (heldOf co hs).filter (fun h => !(h.1 == id)) = heldOf co (hs.filter fun x => !(x.id == id)) := by
  cases co <;> simp [heldOf, List.filter_map, Function.comp_def]

theorem heldOf_countP (c : Cache) (hs : List Handle) : (heldOf (some c) hs).countP (·.2) = hs.countP (flagOf c) := by
  simp [heldOf, List.countP_map, Function.comp_def]

structure FlInv (cfg : Cfg) (st : State) (m : Mon) : Prop where
  cfgv : st.cfgv = cfg
  applied : ∀ c r, st.cache = some c → c.remote = some r → m.applied = r.appliedConfig
  owed : ∀ w, gfcOf st = some (.tbw w) → w.tokenInflight = m.owed
  must : m.mustEvent = true → ∃ c g, st.cache = some c ∧ gfcOf st = some g ∧ GFC.wkind g ≠ 1 ∧ c.cnt.event = true
  held : m.held = heldOf st.cache st.handles
  nodup : (st.handles.map (·.id)).Nodup
  gens : ∀ c, st.cache = some c → ∀ h ∈ st.handles, h.side = .rem → h.gen ≤ c.fl.remOuter ∧ h.inner ≤ c.fl.remInner
  nocache : st.cache = none → ∀ h ∈ st.handles, h.side = .dflt
  cur : ∀ c, st.cache = some c →
    (c.remote.isSome = true → c.fl.remCount = (st.handles.countP (flagOf c) : Int)) ∧
    ∀ h ∈ st.handles, h.side = .rem → h.gen = c.fl.remOuter → c.remote.isSome = true → h.inner = c.fl.remInner

/-- nothing that `FlInv` talks about changes -/
theorem flInv_frame {cfg : Cfg} {st st' : State} {m m' : Mon} (h : FlInv cfg st m) (hc : st'.cache = st.cache)
    (hh : st'.handles = st.handles) (hv : st'.cfgv = st.cfgv)
    (e1 : m'.applied = m.applied) (e2 : m'.owed = m.owed) (e3 : m'.mustEvent = m.mustEvent)
    (e4 : m'.held = m.held) : FlInv cfg st' m' := by
  have hg : gfcOf st' = gfcOf st := by simp only [gfcOf, hc]
  refine ⟨by rw [hv]; exact h.cfgv, ?_, ?_, ?_, by rw [e4, hc, hh]; exact h.held, by rw [hh]; exact h.nodup, ?_, ?_, ?_⟩
  · intro c r a b; rw [e1]; exact h.applied c r (by rw [← hc]; exact a) b
  · intro w a; rw [e2]; exact h.owed w (by rw [← hg]; exact a)
  · intro a; rw [e3] at a; rw [hc, hg]; exact h.must a
  · intro c a; rw [hh]; exact h.gens c (by rw [← hc]; exact a)
  · intro a; rw [hh]; exact h.nocache (by rw [← hc]; exact a)
  · intro c b; rw [hh]; exact h.cur c (by rw [← hc]; exact b)

structure Inv (K : Kind) (cfg : Cfg) (st : State) (m : Mon) : Prop where
  meter : m.meter = st.meter
  meterOK : 0 < st.meter.rateDen
  shards : m.shards = st.shardCount
  hb : HBInv st.hb m.hist
  prev : m.prev = observe cfg st
  gsOK : BoundOK m.gs
  gsob : BLe m.gs m.ob
  obgs : (observe cfg st).unavail = false → m.ob = m.gs
  cache : CInv K st.cache m
  leader : m.leader = st.leader
  cnt : CntInv st m
  fl : FlInv cfg st m

theorem inv_init (K : Kind) (cfg : Cfg) : Inv K cfg (initState cfg) {} := by
  refine ⟨rfl, (by simp [initState] : (0:Int) < _), rfl, rfl, ?_, ?_, BLe.refl _, fun _ => rfl, rfl, rfl,
    ⟨rfl, Int.le_refl _, fun c hc => (by cases hc), fun c hc _ => (by cases hc)⟩,
    ⟨rfl, fun c r hc => (by cases hc), fun w hw => (by simp [gfcOf, initState] at hw), fun h => (by cases h), rfl,
      List.nodup_nil, fun c hc => (by cases hc), fun _ h hh => (by cases hh), fun c hc => (by cases hc)⟩⟩
  · cases cfg with | mk rl cs => cases rl <;> rfl
  · constructor <;> simp [maxInt32] <;> decide

theorem isReady_spec {st : State} {m : Mon} (hs : m.shards = st.shardCount) (hb : HBInv st.hb m.hist) :
    isReady st = (decide (m.shards ≠ 0) && specReady m.hist) := by
  simp only [isReady, hs]
  by_cases h0 : st.shardCount = 0
  · simp [h0]
  · simp only [h0, if_false, ne_eq, not_false_eq_true, decide_true, Bool.true_and]
    cases h : st.hb with
    | none => rw [h] at hb; simp only [HBInv] at hb; rw [hb]; rfl
    | some x => rw [h] at hb; exact hb.2.1

theorem GInv_leb {K : Kind} {g : GFC} {ap : Item} {gs ob : Bound} (hg : GInv g ap ob) (hle : ItemLe ap gs)
    (hT : itemType ap = K) (hK : K = .mi ∨ K = .tb) (hob : g.unavail = false → ob = gs) :
    Lim.leb g.inner ob = true := by
  cases g with
  | empty l =>
    have : ob = gs := hob rfl
    subst this
    simp only [GInv] at hg
    subst hg
    obtain ⟨st, mi, tb⟩ := ap
    cases mi with
    | some A =>
      have := hle.mi A rfl
      simp [GFC.inner, limOfItem, Lim.leb, this.1, this.2]
    | none =>
      cases tb with
      | none => simp [itemType] at hT; rcases hK with h | h <;> simp [← hT] at h
      | some t =>
        have := hle.tb t rfl
        simp [GFC.inner, limOfItem, Lim.leb, this.1, this.2.1, this.2.2.1, this.2.2.2]
  | miw w =>
    obtain ⟨A, sz, a1, a2, a3, a4, a5, a6, a7, a8⟩ := hg
    have hA := hle.mi A a1
    simp only [GFC.inner, a5, Lim.leb, a6, decide_true, Bool.true_and, decide_eq_true_eq]
    cases hu : w.unavail with
    | false =>
      have : ob = gs := hob hu
      subst this
      have := a7 hu
      omega
    | true => exact a8 hu
  | tbw w =>
    obtain ⟨t, q, u, a1, a2, a3, a4, a5, a6, a7, a8, a9⟩ := hg
    have ht := hle.tb t a2
    simp only [GFC.inner, a5, Lim.leb, a6, a7, decide_true, Bool.true_and, Bool.and_true, Bool.and_eq_true,
      decide_eq_true_eq]
    cases hu : w.unavail with
    | false =>
      have : ob = gs := hob hu
      subst this
      have := a8 hu
      omega
    | true => exact a9 hu


theorem load_spec {K : Kind} {cfg : Cfg} {st : State} {m : Mon} (hi : Inv K cfg st m) :
    load cfg st = expectedChoice cfg m := by
  have hrd := isReady_spec hi.shards hi.hb
  have hc := hi.cache
  unfold CInv at hc
  cases hcache : st.cache with
  | none =>
    cases hsch : m.schema with
    | none => simp [load, expectedChoice, hcache, hsch]
    | some s => rw [hcache, hsch] at hc; exact hc.elim
  | some c =>
    cases hsch : m.schema with
    | none => rw [hcache, hsch] at hc; exact hc.elim
    | some s =>
      rw [hcache, hsch] at hc
      obtain ⟨h1, h2, h3, h4, h5⟩ := hc
      have hRp : (m.shards ≠ 0 ∧ specReady m.hist = true) ↔ (isReady st = true) := by rw [hrd]; simp
      simp only [load, expectedChoice, hcache, hsch, h1, hRp, ← h4]
      cases cfg.rateLimiter <;> cases s.strategy <;> cases cfg.hasCS <;> cases m.synced <;>
        cases isReady st <;> simp

theorem judgePost_ok {K : Kind} {cfg : Cfg} {st : State} {m : Mon} (hi : Inv K cfg st m) :
    exactPost cfg m (observe cfg st) = [] := by
  have hrd := isReady_spec hi.shards hi.hb
  have hld := load_spec hi
  have hc := hi.cache
  unfold CInv at hc
  unfold exactPost
  rw [observe_ready, hrd, observe_choice, hld]
  simp only [if_true, List.nil_append]
  cases hsch : m.schema with
  | none => rfl
  | some s =>
    cases hcache : st.cache with
    | none => rw [hcache, hsch] at hc; exact hc.elim
    | some c =>
      rw [hcache, hsch] at hc
      obtain ⟨h1, h2, h3, h4, h5⟩ := hc
      have hK := VS_kind h2
      simp only []
      rw [observe_lim, observe_rlim, hld]
      generalize expectedChoice cfg m = ch
      cases hr : c.remote with
      | none =>
        have : gfcOf st = none := by simp [gfcOf, hcache, hr]
        cases ch <;> simp [this, h4, hr, hcache, h3]
      | some r =>
        obtain ⟨i, ap, g, r1, r2, r3, r4, r5, r6, r7⟩ := h5 r hr
        have hg : gfcOf st = some g := by simp [gfcOf, hcache, hr, r3]
        have hob : g.unavail = false → m.ob = m.gs := by
          intro hu
          apply hi.obgs
          rw [observe_unavail, hg]; simpa using hu
        have hleb := GInv_leb r6 r5 r4 hK hob
        cases ch <;> simp [hg, r7, VS_guess h2, hleb, hcache, h3]

/-! ## every operation preserves the invariant -/

/-- what the theorems require of an operation: schemas are valid and of the one type `K`; the meter's rate is a
    fraction with a positive denominator. Everything else (answers, replies, heartbeats) is arbitrary. -/
def OpOK (K : Kind) : Op → Prop
  | .schema s => VS K s
  | .meter m => 0 < m.rateDen
  | _ => True

theorem localSync_VS {K : Kind} {l : Local} {old s : Schema} (ho : VS K old) (hs : VS K s)
    (hc : l.config = old) (hf : l.fc = some (limOf old)) :
    localSync l s = .ok ({ config := s, fc := some (limOf s) }, decide (s ≠ old) && !enableGlobal s) := by
  obtain ⟨cfg0, fc0⟩ := l
  simp only at hc hf
  subst hc hf
  unfold localSync
  by_cases heq : s = cfg0
  · subst heq; simp
  · simp only [heq, if_false, ne_eq, not_false_eq_true, decide_true, Bool.true_and]
    cases ho with
    | mi st0 l0 g0 a0 a1 a2 =>
      cases hs with
      | mi st l g h0 h1 h2 =>
        simp [limOf, Lim.kind, guessType, toU32_id h0 (by omega : l ≤ maxInt32)]
    | tb st0 q0 b0 gq0 gb0 a0 a1 a2 a3 a4 a5 =>
      cases hs with
      | tb st q b gq gb h0 h1 h2 h3 h4 h5 =>
        simp [limOf, Lim.kind, guessType, toU32_id (by omega : 0 ≤ q) (by omega : q ≤ maxInt32),
          toU32_id (by omega : 0 ≤ b) (by omega : b ≤ maxInt32)]

theorem gfcOf_cache {st st' : State} (h : st'.cache = st.cache) : gfcOf st' = gfcOf st := by
  simp only [gfcOf, h]

theorem CInv_congr {K : Kind} {c : Option Cache} {m m' : Mon} (h : CInv K c m) (e1 : m'.schema = m.schema)
    (e2 : m'.synced = m.synced) (e3 : m'.gs = m.gs) (e4 : m'.ob = m.ob) : CInv K c m' := by
  unfold CInv at *
  rw [e1, e2, e3, e4]
  exact h

/-- operations that leave the cache alone and do not resize the remote limiter from the configuration -/
theorem inv_of_frame {K : Kind} {cfg : Cfg} {st st' : State} {m m' : Mon} (hi : Inv K cfg st m)
    (hc : st'.cache = st.cache) (e_schema : m'.schema = m.schema) (e_synced : m'.synced = m.synced)
    (e_gs : m'.gs = m.gs) (e_ob : m'.ob = if (observe cfg st').unavail then m.ob.sup m.gs else m.gs)
    (e_prev : m'.prev = observe cfg st') (e_meter : m'.meter = st'.meter) (hmok : 0 < st'.meter.rateDen)
    (e_sh : m'.shards = st'.shardCount) (e_hb : HBInv st'.hb m'.hist) (e_leader : m'.leader = st'.leader)
    (e_cnt : CntInv st' m') (e_fl : FlInv cfg st' m') : Inv K cfg st' m' := by
  have hun : (observe cfg st').unavail = (observe cfg st).unavail := by
    rw [observe_unavail, observe_unavail, gfcOf_cache hc]
  have hob : m'.ob = m.ob := by
    rw [e_ob, hun]
    cases hu : (observe cfg st).unavail with
    | true => simp only [if_true]; exact sup_eq_left hi.gsob
    | false => simp only [Bool.false_eq_true, if_false]; exact (hi.obgs hu).symm
  refine ⟨e_meter, hmok, e_sh, e_hb, e_prev, by rw [e_gs]; exact hi.gsOK, by rw [e_gs, hob]; exact hi.gsob, ?_, ?_, e_leader, e_cnt, e_fl⟩
  · intro hu
    rw [hob, e_gs]
    exact hi.obgs (by rw [← hun]; exact hu)
  · rw [hc]
    exact CInv_congr hi.cache e_schema e_synced e_gs hob

/-- the conclusion of every per-operation lemma -/
def StepOK (K : Kind) (cfg : Cfg) (st : State) (m : Mon) (op : Op) : Prop :=
  ∃ st', step st op = .ok st' ∧ Inv K cfg st' (m.next op (observe cfg st')) ∧
    exactTrans m op (observe cfg st') = []

theorem step_shards {K : Kind} {cfg : Cfg} {st : State} {m : Mon} (hi : Inv K cfg st m) (n : Nat) :
    StepOK K cfg st m (.shards n) := by
  refine ⟨{ st with shardCount := n }, rfl, ?_, rfl⟩
  apply inv_of_frame hi (st' := { st with shardCount := n })
  · rfl
  · simp [Mon.next]
  · simp [Mon.next, effective]
  · simp [Mon.next, effective]
  · simp [Mon.next, effective]
  · rfl
  · simp [Mon.next]; exact hi.meter
  · exact hi.meterOK
  · simp [Mon.next]
  · simp [Mon.next, leaderChange]; exact hi.hb
  · simp [Mon.next, leaderChange]; exact hi.leader
  · exact cntInv_frame hi.cnt rfl (by first | (simp [Mon.next]; done) | (simp [Mon.next]; exact hi.cnt.clock)) (by simp [Mon.next, effective]) (by simp [Mon.next])
  · exact flInv_frame hi.fl rfl rfl rfl (by simp [Mon.next, effective]) (by simp [Mon.next, rebuilds, newBucket, effective, stopsRemote]) (by simp [Mon.next, rebuilds, newBucket, effective, stopsRemote]) (by simp [Mon.next, rebuilds, newBucket, effective, stopsRemote])

theorem step_meter {K : Kind} {cfg : Cfg} {st : State} {m : Mon} (hi : Inv K cfg st m) (x : Meter)
    (hx : 0 < x.rateDen) : StepOK K cfg st m (.meter x) := by
  refine ⟨{ st with meter := x }, rfl, ?_, rfl⟩
  apply inv_of_frame hi (st' := { st with meter := x })
  · rfl
  · simp [Mon.next]
  · simp [Mon.next, effective]
  · simp [Mon.next, effective]
  · simp [Mon.next, effective]
  · rfl
  · simp [Mon.next]
  · exact hx
  · simp [Mon.next]; exact hi.shards
  · simp [Mon.next, leaderChange]; exact hi.hb
  · simp [Mon.next, leaderChange]; exact hi.leader
  · exact cntInv_frame hi.cnt rfl (by first | (simp [Mon.next]; done) | (simp [Mon.next]; exact hi.cnt.clock)) (by simp [Mon.next, effective]) (by simp [Mon.next])
  · exact flInv_frame hi.fl rfl rfl rfl (by simp [Mon.next, effective]) (by simp [Mon.next, rebuilds, newBucket, effective, stopsRemote]) (by simp [Mon.next, rebuilds, newBucket, effective, stopsRemote]) (by simp [Mon.next, rebuilds, newBucket, effective, stopsRemote])

theorem step_hb {K : Kind} {cfg : Cfg} {st : State} {m : Mon} (hi : Inv K cfg st m) (ok : Bool) (now : Int)
    (other : Bool) : StepOK K cfg st m (.hb ok now other) := by
  cases other with
  | true =>
    refine ⟨st, rfl, ?_, rfl⟩
    apply inv_of_frame hi (st' := st)
    · rfl
    · simp [Mon.next]
    · simp [Mon.next, effective]
    · simp [Mon.next, effective]
    · simp [Mon.next, effective]
    · rfl
    · simp [Mon.next]; exact hi.meter
    · exact hi.meterOK
    · simp [Mon.next]; exact hi.shards
    · simp [Mon.next, leaderChange]; exact hi.hb
    · simp [Mon.next, leaderChange]; exact hi.leader
    · exact cntInv_frame hi.cnt rfl (by first | (simp [Mon.next]; done) | (simp [Mon.next]; exact hi.cnt.clock)) (by simp [Mon.next, effective]) (by simp [Mon.next])
    · exact flInv_frame hi.fl rfl rfl rfl (by simp [Mon.next, effective]) (by simp [Mon.next, rebuilds, newBucket, effective, stopsRemote]) (by simp [Mon.next, rebuilds, newBucket, effective, stopsRemote]) (by simp [Mon.next, rebuilds, newBucket, effective, stopsRemote])
  | false =>
    refine ⟨{ st with hb := some (hbStep (st.hb.getD {}) ok now), clock := now }, rfl, ?_, rfl⟩
    apply inv_of_frame hi (st' := { st with hb := some (hbStep (st.hb.getD {}) ok now), clock := now })
    · rfl
    · simp [Mon.next]
    · simp [Mon.next, effective]
    · simp [Mon.next, effective]
    · simp [Mon.next, effective]
    · rfl
    · simp [Mon.next]; exact hi.meter
    · exact hi.meterOK
    · simp [Mon.next]; exact hi.shards
    · simp [Mon.next]; exact hbStep_inv hi.hb ok now
    · simp [Mon.next, leaderChange]; exact hi.leader
    · exact cntInv_frame hi.cnt rfl (by first | (simp [Mon.next]; done) | (simp [Mon.next]; exact hi.cnt.clock)) (by simp [Mon.next, effective]) (by simp [Mon.next])
    · exact flInv_frame hi.fl rfl rfl rfl (by simp [Mon.next, effective]) (by simp [Mon.next, rebuilds, newBucket, effective, stopsRemote]) (by simp [Mon.next, rebuilds, newBucket, effective, stopsRemote]) (by simp [Mon.next, rebuilds, newBucket, effective, stopsRemote])

theorem observe_unavail_noremote {cfg : Cfg} {st : State} {c : Cache} (hc : st.cache = some c) (hr : c.remote = none) :
    (observe cfg st).unavail = false := by
  rw [observe_unavail]; simp [gfcOf, hc, hr]

theorem flagOf_noremote {c : Cache} (h : Handle) (hr : c.remote = none) : flagOf c h = false := by
  simp [flagOf, hr]

theorem heldOf_noremote {c : Cache} (hs : List Handle) (hr : c.remote = none) :
    heldOf (some c) hs = hs.map fun h => (h.id, false) := by
  simp [heldOf, flagOf_noremote _ hr]

theorem flagOf_congr {c c' : Cache} (h : Handle) (hf : c'.fl = c.fl) (hr : c'.remote.isSome = c.remote.isSome) :
    flagOf c' h = flagOf c h := by
  simp [flagOf, hf, hr]

theorem heldOf_congr {c c' : Cache} (hs : List Handle) (hf : c'.fl = c.fl) (hr : c'.remote.isSome = c.remote.isSome) :
    heldOf (some c') hs = heldOf (some c) hs := by
  simp only [heldOf]
  apply List.map_congr_left
  intro h _
  rw [flagOf_congr h hf hr]

theorem countP_flagOf_congr {c c' : Cache} (hs : List Handle) (hf : c'.fl = c.fl)
    (hr : c'.remote.isSome = c.remote.isSome) : hs.countP (flagOf c') = hs.countP (flagOf c) := by
  apply List.countP_congr
  intro h _
  rw [flagOf_congr h hf hr]

theorem localRecreates_VS {K : Kind} {l : Local} {old s : Schema} (ho : VS K old) (hs : VS K s)
    (hc : l.config = old) (hf : l.fc = some (limOf old)) : localRecreates l s = false := by
  simp only [localRecreates, hf, VS_limOf_kind ho, VS_guess hs]
  simp

/-- the parts of `FlInv` that do not depend on the cache's limiters -/
theorem flInv_cache {cfg : Cfg} {st st' : State} {m m' : Mon} {c c' : Cache} (h : FlInv cfg st m)
    (hc : st.cache = some c) (hc' : st'.cache = some c') (hh : st'.handles = st.handles) (hv : st'.cfgv = st.cfgv)
    (hfl : c'.fl = c.fl) (hrs : c'.remote.isSome = c.remote.isSome)
    (happ : ∀ r, c'.remote = some r → m'.applied = r.appliedConfig)
    (howed : ∀ w, gfcOf st' = some (.tbw w) → w.tokenInflight = m'.owed)
    (hmust : m'.mustEvent = true → ∃ g, gfcOf st' = some g ∧ GFC.wkind g ≠ 1 ∧ c'.cnt.event = true)
    (e4 : m'.held = m.held) : FlInv cfg st' m' := by
  refine ⟨by rw [hv]; exact h.cfgv, ?_, howed, ?_, ?_, by rw [hh]; exact h.nodup, ?_, ?_, ?_⟩
  · intro x r a b
    have : x = c' := by rw [hc'] at a; exact (Option.some.inj a).symm
    subst this; exact happ r b
  · intro a
    obtain ⟨g, g1, g2, g3⟩ := hmust a
    exact ⟨c', g, hc', g1, g2, g3⟩
  · rw [e4, h.held, hc, hc', hh, heldOf_congr _ hfl hrs]
  · intro x a
    have : x = c' := by rw [hc'] at a; exact (Option.some.inj a).symm
    subst this; rw [hh, hfl]; exact h.gens c hc
  · intro a; rw [hc'] at a; cases a
  · intro x b
    have : x = c' := by rw [hc'] at b; exact (Option.some.inj b).symm
    subst this
    obtain ⟨k1, k2⟩ := h.cur c hc
    rw [hh, hfl, countP_flagOf_congr _ hfl hrs, hrs]
    exact ⟨k1, k2⟩

theorem step_schema {K : Kind} {cfg : Cfg} {st : State} {m : Mon} (hi : Inv K cfg st m) (s : Schema) (hs : VS K s) :
    StepOK K cfg st m (.schema s) := by
  have hc := hi.cache
  unfold CInv at hc
  cases hcache : st.cache with
  | none =>
    cases hsch : m.schema with
    | some s0 => rw [hcache, hsch] at hc; exact hc.elim
    | none =>
      rw [hcache, hsch] at hc
      refine ⟨{ st with cache := some { loc := { config := s, fc := some (limOf s) }, remote := none } }, ?_, ?_, rfl⟩
      · simp [step, hcache, VS_newLim hs]
      · have hun := observe_unavail_noremote (cfg := cfg)
          (st := { st with cache := some { loc := { config := s, fc := some (limOf s) }, remote := none } }) rfl rfl
        refine ⟨?_, hi.meterOK, ?_, ?_, rfl, ?_, ?_, ?_, ?_, ?_, ?_, ?_⟩
        · simp [Mon.next]; exact hi.meter
        · simp [Mon.next]; exact hi.shards
        · simp [Mon.next, leaderChange]; exact hi.hb
        · simp [Mon.next, effective]; exact hi.gsOK
        · simp [Mon.next, effective, hun]; exact BLe.refl _
        · intro _; simp [Mon.next, effective, hun]
        · simp [CInv, Mon.next, hsch, hs, hc]
        · simp [Mon.next, leaderChange]; exact hi.leader
        · refine ⟨by simp [Mon.next]; exact hi.cnt.clock, by simp [Mon.next, effective]; exact hi.cnt.contact0, ?_, ?_⟩
          · intro x hx
            have : x = { loc := { config := s, fc := some (limOf s) }, remote := none } := by simpa using hx.symm
            subst this
            simp [Mon.next, effective]; exact hi.cnt.contact0
          · intro x hx he
            have : x = { loc := { config := s, fc := some (limOf s) }, remote := none } := by simpa using hx.symm
            subst this
            simp at he
        · -- requests in flight: all of them hold the system default limiter
          have hnone : st.cache = none := hcache
          have hst : stopsRemote m (.schema s) = false := by simp [stopsRemote, hsch]
          have hrb : rebuilds m (.schema s) = false := by simp [rebuilds, effective]
          have hnb : newBucket m (.schema s) = false := by simp [newBucket, hrb]
          refine ⟨hi.fl.cfgv, ?_, ?_, ?_, ?_, hi.fl.nodup, ?_, fun h => (by cases h), ?_⟩
          · intro x r hx hr
            have : x = { loc := { config := s, fc := some (limOf s) }, remote := none } := by simpa using hx.symm
            subst this; cases hr
          · intro w hw; simp [gfcOf] at hw
          · intro hm
            simp only [Mon.next, hrb, hnb, hst] at hm
            obtain ⟨c, g, k1, _⟩ := hi.fl.must (by simpa using hm)
            rw [hnone] at k1; cases k1
          · simp only [Mon.next, hrb, hnb, hst, Bool.or_self, Bool.false_eq_true, if_false]
            rw [hi.fl.held, hnone, heldOf_noremote _ rfl]; rfl
          · intro x hx h hh hside
            have := hi.fl.nocache hnone h hh
            rw [this] at hside; cases hside
          · intro x hx
            have : x = { loc := { config := s, fc := some (limOf s) }, remote := none } := by simpa using hx.symm
            subst this
            exact ⟨fun h => (by simp at h), fun h _ _ _ hr => (by cases hr)⟩
  | some c =>
    cases hsch : m.schema with
    | none => rw [hcache, hsch] at hc; exact hc.elim
    | some old =>
      rw [hcache, hsch] at hc
      obtain ⟨h1, h2, h3, h4, h5⟩ := hc
      have hls := localSync_VS h2 hs h1 h3
      have hlr := localRecreates_VS h2 hs h1 h3
      by_cases hstop : (decide (s ≠ old) && !enableGlobal s) = true
      · -- the remote wrapper is stopped
        refine ⟨{ st with cache := some { c with loc := { config := s, fc := some (limOf s) }, remote := none } }, ?_, ?_, rfl⟩
        · simp only [step, hcache, hls, hstop, hlr]; rfl
        · have hun := observe_unavail_noremote (cfg := cfg)
            (st := { st with cache := some { c with loc := { config := s, fc := some (limOf s) }, remote := none } }) rfl rfl
          simp only [Bool.and_eq_true, decide_eq_true_eq, Bool.not_eq_true'] at hstop
          refine ⟨?_, hi.meterOK, ?_, ?_, rfl, ?_, ?_, ?_, ?_, ?_, ?_, ?_⟩
          · simp [Mon.next]; exact hi.meter
          · simp [Mon.next]; exact hi.shards
          · simp [Mon.next, leaderChange]; exact hi.hb
          · simp [Mon.next, effective]; exact hi.gsOK
          · simp [Mon.next, effective, hun]; exact BLe.refl _
          · intro _; simp [Mon.next, effective, hun]
          · simp [CInv, Mon.next, hsch, hs, hstop.1, hstop.2, VS_guess hs, VS_guess h2]
          · simp [Mon.next, leaderChange]; exact hi.leader
          · exact cntInv_cache hi.cnt hcache rfl rfl (by simp [Mon.next]; exact hi.cnt.clock) (by simp [Mon.next, effective])
              (by simp [Mon.next])
          · -- the remote wrapper is gone: no request counts against it any more
            have hst : stopsRemote m (.schema s) = true := by
              simp [stopsRemote, hsch, hstop.1, hstop.2, VS_guess hs, VS_guess h2]
            refine ⟨hi.fl.cfgv, ?_, ?_, ?_, ?_, hi.fl.nodup, ?_, fun h => (by cases h), ?_⟩
            · intro x r hx hr
              have : x = { c with loc := { config := s, fc := some (limOf s) }, remote := none } := by simpa using hx.symm
              subst this; cases hr
            · intro w hw; simp [gfcOf] at hw
            · intro hm; simp [Mon.next, hst] at hm
            · simp only [Mon.next, hst, Bool.or_true, if_true]
              rw [hi.fl.held, hcache, heldOf_noremote (c := { c with loc := { config := s, fc := some (limOf s) }, remote := none }) _ rfl]
              simp [heldOf]
            · intro x hx
              have : x = { c with loc := { config := s, fc := some (limOf s) }, remote := none } := by simpa using hx.symm
              subst this; exact hi.fl.gens c hcache
            · intro x hx
              have : x = { c with loc := { config := s, fc := some (limOf s) }, remote := none } := by simpa using hx.symm
              subst this
              exact ⟨fun h => (by simp at h), fun h _ _ _ hr => (by cases hr)⟩
      · -- nothing else changes
        have hstop' : (decide (s ≠ old) && !enableGlobal s) = false := by simpa using hstop
        refine ⟨{ st with cache := some { c with loc := { config := s, fc := some (limOf s) }, remote := c.remote } }, ?_, ?_, rfl⟩
        · simp only [step, hcache, hls, hstop', hlr]; rfl
        · have hg : gfcOf { st with cache := some { c with loc := { config := s, fc := some (limOf s) }, remote := c.remote } }
              = gfcOf st := by simp [gfcOf, hcache]
          have hun : (observe cfg { st with cache := some { c with loc := { config := s, fc := some (limOf s) }, remote := c.remote } }).unavail
              = (observe cfg st).unavail := by rw [observe_unavail, observe_unavail, hg]
          have hob : (if (observe cfg st).unavail = true then m.ob.sup m.gs else m.gs) = m.ob := by
            cases hu : (observe cfg st).unavail with
            | true => simp only [if_true]; exact sup_eq_left hi.gsob
            | false => simp only [Bool.false_eq_true, if_false]; exact (hi.obgs hu).symm
          have hsy : (if s ≠ old ∧ (guessType s ≠ guessType old ∨ enableGlobal s = false) then false else m.synced) = m.synced := by
            simp only [Bool.and_eq_false_iff, decide_eq_false_iff_not, Bool.not_eq_false'] at hstop'
            rcases hstop' with h | h
            · simp [h]
            · simp [h, VS_guess hs, VS_guess h2]
          refine ⟨?_, hi.meterOK, ?_, ?_, rfl, ?_, ?_, ?_, ?_, ?_, ?_, ?_⟩
          · simp [Mon.next]; exact hi.meter
          · simp [Mon.next]; exact hi.shards
          · simp [Mon.next, leaderChange]; exact hi.hb
          · simp [Mon.next, effective]; exact hi.gsOK
          · simp only [Mon.next, effective, Bool.false_eq_true, if_false, hun, hob]; exact hi.gsob
          · intro hu
            simp only [Mon.next, effective, Bool.false_eq_true, if_false, hun, hob]
            rw [hun] at hu
            exact hi.obgs hu
          · simp only [CInv, Mon.next, hsch, effective, Bool.false_eq_true, if_false, hun, hob, hsy]
            exact ⟨trivial, hs, trivial, h4, h5⟩
          · simp [Mon.next, leaderChange]; exact hi.leader
          · exact cntInv_cache hi.cnt hcache rfl rfl (by simp [Mon.next]; exact hi.cnt.clock) (by simp [Mon.next, effective])
              (by simp [Mon.next])
          · have hst : stopsRemote m (.schema s) = false := by
              simp only [stopsRemote, hsch]
              simp only [Bool.and_eq_false_iff, decide_eq_false_iff_not, Bool.not_eq_false'] at hstop'
              rcases hstop' with h | h
              · simp [h]
              · simp [h, VS_guess hs, VS_guess h2]
            have hrb : rebuilds m (.schema s) = false := by simp [rebuilds, effective]
            have hnb : newBucket m (.schema s) = false := by simp [newBucket, hrb]
            refine flInv_cache (c' := { c with loc := { config := s, fc := some (limOf s) }, remote := c.remote })
              (st' := { st with cache := some { c with loc := { config := s, fc := some (limOf s) }, remote := c.remote } })
              hi.fl hcache rfl rfl rfl rfl rfl ?_ ?_ ?_ ?_
            · intro r hr; simp only [Mon.next, effective, Bool.false_eq_true, if_false]; exact hi.fl.applied c r hcache hr
            · intro w hw
              simp only [Mon.next, hrb, hnb, hst, Bool.or_self, Bool.false_eq_true, if_false]
              have := hi.fl.owed w (by rw [← hg]; exact hw)
              split <;> exact this
            · intro hm
              simp only [Mon.next, hrb, hnb, hst] at hm
              obtain ⟨c0, g, k1, k2, k3, k4⟩ := hi.fl.must (by simpa using hm)
              have : c0 = c := by rw [hcache] at k1; exact (Option.some.inj k1).symm
              subst this
              exact ⟨g, by rw [hg]; exact k2, k3, k4⟩
            · simp [Mon.next, hrb, hnb, hst]

/-- an effective sync of the remote limiter (reconcile of a global-count schema, or an answer of the schema's type) -/
theorem inv_of_sync {K : Kind} {cfg : Cfg} {st : State} {m : Mon} {c : Cache} {s : Schema} (hi : Inv K cfg st m)
    (hcache : st.cache = some c) (hsch : m.schema = some s) (i : Item) (hT : itemType i = K) (cnt' : Counter) (fl' : Flight) :
    ∃ r' g', remoteSync (c.remote.getD {}) c.loc.config i = .ok r' ∧ r'.fc = some g' ∧
      r'.appliedConfig = some (boundByGlobalLimit s i) ∧ GInv g' (boundByGlobalLimit s i) (obAfter m.ob (globalOf s) g'.unavail) ∧
      ∀ m' : Mon, m'.schema = some s → m'.synced = true → m'.gs = globalOf s →
        m'.ob = (if (observe cfg { st with cache := some { c with remote := some r', cnt := cnt', fl := fl' } }).unavail
                  then m.ob.sup (globalOf s) else globalOf s) →
        m'.prev = observe cfg { st with cache := some { c with remote := some r', cnt := cnt', fl := fl' } } →
        m'.meter = st.meter → m'.shards = st.shardCount → m'.hist = m.hist → m'.leader = st.leader →
        CntInv { st with cache := some { c with remote := some r', cnt := cnt', fl := fl' } } m' →
        FlInv cfg { st with cache := some { c with remote := some r', cnt := cnt', fl := fl' } } m' →
        Inv K cfg { st with cache := some { c with remote := some r', cnt := cnt', fl := fl' } } m' := by
  have hc := hi.cache
  unfold CInv at hc
  rw [hcache, hsch] at hc
  obtain ⟨h1, h2, h3, h4, h5⟩ := hc
  have hr : c.remote.getD {} = {} ∨ RInv K (c.remote.getD {}) m.gs m.ob := by
    cases hrm : c.remote with
    | none => exact Or.inl rfl
    | some r => exact Or.inr (h5 r hrm)
  obtain ⟨r', g', e1, e2, e3, e4⟩ := remoteSync_inv (s := s) (i := i) h2 hT hr
  rw [h1]
  obtain ⟨i0, ap0, g0, q1, q2, q3, q4, q5, q6, q7⟩ := e4
  have eg : g0 = g' := by rw [e2] at q3; exact (Option.some.inj q3).symm
  have ea : ap0 = boundByGlobalLimit s i := by rw [e3] at q2; exact (Option.some.inj q2).symm
  subst eg ea
  refine ⟨r', g0, e1, e2, e3, q6, ?_⟩
  intro m' m1 m2 m3 m4 m5 m6 m7 m8 m9 m10 m11
  have hg : gfcOf { st with cache := some { c with remote := some r', cnt := cnt', fl := fl' } } = some g0 := by simp [gfcOf, e2]
  have hun : (observe cfg { st with cache := some { c with remote := some r', cnt := cnt', fl := fl' } }).unavail = g0.unavail := by
    rw [observe_unavail, hg]; rfl
  rw [hun] at m4
  have hob : m'.ob = obAfter m.ob (globalOf s) g0.unavail := by rw [m4]; rfl
  refine ⟨m6, hi.meterOK, m7, by rw [m8]; exact hi.hb, m5, by rw [m3]; exact VS_globalOK h2, ?_, ?_, ?_, m9, m10, m11⟩
  · rw [m3, hob]
    cases g0.unavail with
    | true => exact BLe.sup_right _ _
    | false => exact BLe.refl _
  · intro hu
    rw [hun] at hu
    rw [hob, m3, hu]; rfl
  · simp only [CInv, m1]
    refine ⟨h1, h2, h3, by rw [m2]; rfl, ?_⟩
    intro r hr'
    have : r = r' := by simpa using hr'.symm
    subst this
    rw [m3, hob]
    exact ⟨i0, _, g0, q1, q2, q3, q4, q5, q6, q7⟩

theorem observe_wkind (cfg : Cfg) (st : State) : (observe cfg st).wkind = ((gfcOf st).map GFC.wkind).getD 0 := by
  simp only [observe, gfcOf]
  cases h : (st.cache.bind fun c => c.remote.bind (·.fc)) with
  | none => rfl
  | some g => cases g <;> rfl

/-- operations that touch neither the clock nor the counter's event flag -/
def quietOp : Op → Bool
  | .tick _ _ => false
  | .hb _ _ false => false
  | .sync _ _ _ _ => false
  | .event => false
  | .acquire _ => false
  | .release _ => false
  | _ => true

/-- an operation that changes nothing at all -/
theorem step_noop {K : Kind} {cfg : Cfg} {st : State} {m : Mon} (hi : Inv K cfg st m) (op : Op)
    (hstep : step st op = .ok st) (heff : effective m op = false)
    (e_schema : (m.next op (observe cfg st)).schema = m.schema)
    (e_rest : (m.next op (observe cfg st)).meter = m.meter ∧ (m.next op (observe cfg st)).shards = m.shards ∧
      (m.next op (observe cfg st)).hist = m.hist ∧
      (m.next op (observe cfg st)).synced = (m.synced || effective m op) ∧
      (m.next op (observe cfg st)).leader = m.leader)
    (hj : exactTrans m op (observe cfg st) = [])
    (hq : quietOp op = true := by rfl)
    (hsl : ∀ r, op = .setLimit r → (observe cfg st).wkind = 0 := by intro r h; cases h) : StepOK K cfg st m op := by
  have hrb : rebuilds m op = false := by simp [rebuilds, heff]
  have hnb : newBucket m op = false := by simp [newBucket, hrb]
  have hst : stopsRemote m op = false := by
    cases op with
    | schema s0 =>
      -- a schema sync that changes nothing is the same schema again
      cases hs : m.schema with
      | none => simp [stopsRemote, hs]
      | some old =>
        have h1 := e_schema
        simp only [Mon.next, hs] at h1
        have : s0 = old := Option.some.inj h1
        simp [stopsRemote, hs, this]
    | tick _ _ => rfl
    | acquire _ => rfl
    | release _ => rfl
    | event => rfl
    | setLimit _ => rfl
    | hb _ _ _ => rfl
    | sync _ _ _ _ => rfl
    | shards _ => rfl
    | reconcileCount => rfl
    | restart => rfl
    | answer _ _ => rfl
    | meter _ => rfl
  have hfl : FlInv cfg st (m.next op (observe cfg st)) := by
    apply flInv_frame hi.fl rfl rfl rfl
    · simp [Mon.next, heff]
    · cases op with
      | tick _ _ => simp [quietOp] at hq
      | acquire _ => simp [quietOp] at hq
      | release _ => simp [quietOp] at hq
      | event => simp [quietOp] at hq
      | setLimit r =>
        have := hsl r rfl
        simp [Mon.next, hrb, hnb, hst, hi.prev, this]
      | schema _ => simp [Mon.next, hrb, hnb, hst]
      | hb _ _ _ => simp [Mon.next, hrb, hnb, hst]
      | sync _ _ _ _ => simp [Mon.next, hrb, hnb, hst]
      | shards _ => simp [Mon.next, hrb, hnb, hst]
      | reconcileCount => simp [Mon.next, hrb, hnb, hst]
      | restart => simp [Mon.next, hrb, hnb, hst]
      | answer _ _ => simp [Mon.next, hrb, hnb, hst]
      | meter _ => simp [Mon.next, hrb, hnb, hst]
    · cases op with
      | tick _ _ => simp [quietOp] at hq
      | event => simp [quietOp] at hq
      | acquire _ => simp [quietOp] at hq
      | release _ => simp [quietOp] at hq
      | setLimit _ => simp [Mon.next, hrb, hnb, hst]
      | schema _ => simp [Mon.next, hrb, hnb, hst]
      | hb _ _ _ => simp [Mon.next, hrb, hnb, hst]
      | sync _ _ _ _ => simp [Mon.next, hrb, hnb, hst]
      | shards _ => simp [Mon.next, hrb, hnb, hst]
      | reconcileCount => simp [Mon.next, hrb, hnb, hst]
      | restart => simp [Mon.next, hrb, hnb, hst]
      | answer _ _ => simp [Mon.next, hrb, hnb, hst]
      | meter _ => simp [Mon.next, hrb, hnb, hst]
    · cases op with
      | acquire _ => simp [quietOp] at hq
      | release _ => simp [quietOp] at hq
      | tick _ _ => simp [Mon.next, hrb, hnb, hst]
      | event => simp [Mon.next, hrb, hnb, hst]
      | setLimit _ => simp [Mon.next, hrb, hnb, hst]
      | schema _ => simp [Mon.next, hrb, hnb, hst]
      | hb _ _ _ => simp [Mon.next, hrb, hnb, hst]
      | sync _ _ _ _ => simp [Mon.next, hrb, hnb, hst]
      | shards _ => simp [Mon.next, hrb, hnb, hst]
      | reconcileCount => simp [Mon.next, hrb, hnb, hst]
      | restart => simp [Mon.next, hrb, hnb, hst]
      | answer _ _ => simp [Mon.next, hrb, hnb, hst]
      | meter _ => simp [Mon.next, hrb, hnb, hst]
  have hcnt : CntInv st (m.next op (observe cfg st)) := by
    apply cntInv_frame hi.cnt rfl
    · cases op with
      | hb ok now other => cases other <;> simp [quietOp] at hq; exact hi.cnt.clock
      | sync _ _ _ _ => simp [quietOp] at hq
      | tick _ _ => simp [quietOp] at hq
      | event => simp [quietOp] at hq
      | acquire _ => simp [quietOp] at hq
      | release _ => simp [quietOp] at hq
      | schema _ => exact hi.cnt.clock
      | shards _ => exact hi.cnt.clock
      | reconcileCount => exact hi.cnt.clock
      | restart => exact hi.cnt.clock
      | answer _ _ => exact hi.cnt.clock
      | meter _ => exact hi.cnt.clock
      | setLimit _ => exact hi.cnt.clock
    · cases op with
      | tick _ _ => simp [quietOp] at hq
      | acquire _ => simp [quietOp] at hq
      | release _ => simp [quietOp] at hq
      | hb _ _ _ => simp [Mon.next, heff]
      | sync _ _ _ _ => simp [Mon.next, heff]
      | event => simp [Mon.next, heff]
      | schema _ => simp [Mon.next, heff]
      | shards _ => simp [Mon.next, heff]
      | reconcileCount => simp [Mon.next, heff]
      | restart => simp [Mon.next, heff]
      | answer _ _ => simp [Mon.next, heff]
      | meter _ => simp [Mon.next, heff]
      | setLimit _ => simp [Mon.next, heff]
    · cases op with
      | tick _ _ => simp [quietOp] at hq
      | event => simp [quietOp] at hq
      | acquire _ => simp [quietOp] at hq
      | release _ => simp [quietOp] at hq
      | hb _ _ _ => rfl
      | sync _ _ _ _ => rfl
      | schema _ => rfl
      | shards _ => rfl
      | reconcileCount => rfl
      | restart => rfl
      | answer _ _ => rfl
      | meter _ => rfl
      | setLimit _ => rfl
  refine ⟨st, hstep, ?_, hj⟩
  apply inv_of_frame hi (st' := st)
  · rfl
  · exact e_schema
  · rw [e_rest.2.2.2.1, heff]; simp
  · simp [Mon.next, heff]
  · simp [Mon.next, heff]
  · rfl
  · rw [e_rest.1]; exact hi.meter
  · exact hi.meterOK
  · rw [e_rest.2.1]; exact hi.shards
  · rw [e_rest.2.2.1]; exact hi.hb
  · rw [e_rest.2.2.2.2]; exact hi.leader
  · exact hcnt
  · exact hfl

theorem VS_globalItem {K : Kind} {s : Schema} (h : VS K s) :
    itemType { strategy := s.strategy, mi := s.gmi, tb := s.gtb } = K := by
  cases h <;> rfl

theorem observe_remoteConfig (cfg : Cfg) (st : State) :
    (observe cfg st).remoteConfig = st.cache.bind (fun c => c.remote.bind (·.remoteConfig)) := by
  simp only [observe]
  cases h : (st.cache.bind fun c => c.remote.bind (·.fc)) with
  | none => rfl
  | some g => cases g <;> rfl

/-- **the spec of "which syncs rebuild" is what the model does**: for an effective sync with item `i`, the monitor's
    `rebuilds` (no limiter yet, another type, another strategy — and not a repetition) is exactly `remoteRecreates` -/
theorem rebuilds_eq {K : Kind} {cfg : Cfg} {st : State} {m : Mon} {c : Cache} {s : Schema} {op : Op} {i : Item}
    (hi : Inv K cfg st m) (hcache : st.cache = some c) (hsch : m.schema = some s) (heff : effective m op = true)
    (hitem : syncItem m op = some i) (hT : itemType i = K) :
    rebuilds m op = remoteRecreates (c.remote.getD {}) s i := by
  have hc := hi.cache
  unfold CInv at hc
  rw [hcache, hsch] at hc
  obtain ⟨h1, h2, h3, h4, h5⟩ := hc
  have hK := VS_kind h2
  simp only [rebuilds, heff, hitem, hsch, Bool.true_and, hi.prev, observe_remoteConfig, observe_wkind, observe_rlim]
  cases hrm : c.remote with
  | none =>
    have hg : gfcOf st = none := by simp [gfcOf, hcache, hrm]
    simp [hcache, hrm, hg, remoteRecreates]
  | some r =>
    obtain ⟨i0, ap0, g, q1, q2, q3, q4, q5, q6, q7⟩ := h5 r hrm
    have hg : gfcOf st = some g := by simp [gfcOf, hcache, hrm, q3]
    have happ := hi.fl.applied c r hcache hrm
    have hwk : GFC.wkind g ≠ 0 := by cases g <;> simp [GFC.wkind]
    simp only [hcache, hrm, hg, Option.bind_some, Option.getD_some, q1, happ, q2, Option.map_some, Option.getD_some,
      remoteRecreates, q3, Remote.strategy]
    by_cases hearly : some i = some i0 ∧ some (boundByGlobalLimit s i) = some ap0
    · have e1 : i0 = i := by have := hearly.1; simpa using this.symm
      have e2 : ap0 = boundByGlobalLimit s i := by have := hearly.2; simpa using this.symm
      subst e1 e2
      simp
    · rw [if_neg hearly]
      have hne : ¬ (some i0 = some i ∧ some ap0 = some (boundByGlobalLimit s i)) := by
        intro h; exact hearly ⟨h.1.symm, h.2.symm⟩
      by_cases hmis : g.inner.kind ≠ itemType i ∨ i0.strategy ≠ i.strategy
      · rw [if_pos hmis]
        rcases hmis with h | h
        · simp [hne, hwk, h, q1]
          by_cases a : i0 = i
          · right; intro b; exact hne ⟨congrArg some a, congrArg some b⟩
          · left; exact a
        · simp [hne, hwk, h, q1]
          by_cases a : i0 = i
          · right; intro b; exact hne ⟨congrArg some a, congrArg some b⟩
          · left; exact a
      · rw [if_neg hmis]
        have hk : g.inner.kind = itemType i := by false_or_by_contra; exact hmis (Or.inl ‹_›)
        have hst : i0.strategy = i.strategy := by false_or_by_contra; exact hmis (Or.inr ‹_›)
        have hres : (if i.mi.isSome = true ∧ g.inner.kind = Kind.mi then false
            else if i.tb.isSome = true ∧ g.inner.kind = Kind.tb then false else true) = false := by
          rw [hk]
          obtain ⟨ist, imi, itb⟩ := i
          rcases hK with rfl | rfl
          · cases imi <;> simp [itemType] at hT ⊢
            cases itb <;> simp at hT
          · cases imi with
            | some v => simp [itemType] at hT
            | none => cases itb <;> simp [itemType] at hT ⊢
        rw [hres]
        simp [hwk, hk, hst, q1]

theorem wkind_resize (g : GFC) (n b : Int) : GFC.wkind (g.resize n b) = GFC.wkind g := by
  cases g <;> rfl

/-- the judge's "a NEW limiter object" is the model's: in a reachable state exactly when there was no remote limiter -/
theorem newBucket_eq {K : Kind} {cfg : Cfg} {st : State} {m : Mon} {c : Cache} {s : Schema} {op : Op} {i : Item}
    (hi : Inv K cfg st m) (hcache : st.cache = some c) (hsch : m.schema = some s) (heff : effective m op = true)
    (hitem : syncItem m op = some i) (hT : itemType i = K) :
    newBucket m op = remoteNewBucket (c.remote.getD {}) s i ∧
    (remoteNewBucket (c.remote.getD {}) s i = true → c.remote = none) := by
  have hrb := rebuilds_eq hi hcache hsch heff hitem hT
  have hc := hi.cache
  unfold CInv at hc
  rw [hcache, hsch] at hc
  obtain ⟨h1, h2, h3, h4, h5⟩ := hc
  simp only [newBucket, remoteNewBucket, hrb, hitem, hi.prev, observe_wkind, observe_rlim]
  cases hrm : c.remote with
  | none =>
    have hg : gfcOf st = none := by simp [gfcOf, hcache, hrm]
    simp [hg]
  | some r =>
    obtain ⟨i0, ap0, g, q1, q2, q3, q4, q5, q6, q7⟩ := h5 r hrm
    have hg : gfcOf st = some g := by simp [gfcOf, hcache, hrm, q3]
    have hwk : GFC.wkind g ≠ 0 := by cases g <;> simp [GFC.wkind]
    have hk : g.inner.kind = itemType i := by rw [q7, hT]
    simp [hg, q3, hwk, hk]

/-- `FlInv` after an effective sync: a rebuild resets the token accounting and the counter but KEEPS the limiter and the
    requests it counts; only a remote wrapper that did not exist starts with an empty bucket, and no request in flight
    holds it; a resize keeps everything -/
theorem flInv_sync {K : Kind} {cfg : Cfg} {st : State} {m : Mon} {c : Cache} {s : Schema} {op : Op} {i : Item}
    {r' : Remote} {cnt' : Counter} (o : Obs) (hi : Inv K cfg st m) (hcache : st.cache = some c)
    (hsch : m.schema = some s) (heff : effective m op = true) (hitem : syncItem m op = some i) (hT : itemType i = K)
    (hop : op = .reconcileCount ∨ ∃ item, op = .answer true item)
    (hrs : remoteSync (c.remote.getD {}) s i = .ok r') (happ : r'.appliedConfig = some (boundByGlobalLimit s i))
    (hcnt : cnt' = if remoteRecreates (c.remote.getD {}) s i then { event := false, lastSync := unixS st.clock } else c.cnt)
    (fl' : Flight) (hfl' : fl' = flightAfterSync c.fl c.remote.isNone (remoteNewBucket (c.remote.getD {}) s i)) :
    FlInv cfg { st with cache := some { c with remote := some r', cnt := cnt', fl := fl' } } (m.next op o) := by
  have hrb := rebuilds_eq hi hcache hsch heff hitem hT
  obtain ⟨hnb, hnone⟩ := newBucket_eq hi hcache hsch heff hitem hT
  have hst : stopsRemote m op = false := by rcases hop with rfl | ⟨item, rfl⟩ <;> rfl
  have hc := hi.cache
  unfold CInv at hc
  rw [hcache, hsch] at hc
  obtain ⟨h1, h2, h3, h4, h5⟩ := hc
  have hrr : c.remote.getD {} = {} ∨ ∃ g, (c.remote.getD {}).fc = some g := by
    cases hrm : c.remote with
    | none => exact Or.inl rfl
    | some r =>
      obtain ⟨_, _, g, _, _, q3, _⟩ := h5 r hrm
      exact Or.inr ⟨g, q3⟩
  -- the monitor's fields after the operation
  have mapp : (m.next op o).applied = some (boundByGlobalLimit s i) := by
    rcases hop with rfl | ⟨item, rfl⟩ <;> simp [Mon.next, heff, hitem, hsch]
  have mowed : (m.next op o).owed = if remoteRecreates (c.remote.getD {}) s i then 0 else m.owed := by
    rcases hop with rfl | ⟨item, rfl⟩ <;> simp [Mon.next, hrb, hst] <;> (intro _; split <;> rfl)
  have mmust : (m.next op o).mustEvent = (m.mustEvent && !remoteRecreates (c.remote.getD {}) s i) := by
    rcases hop with rfl | ⟨item, rfl⟩ <;> simp [Mon.next, hrb, hst]
  have mheld : (m.next op o).held = if remoteNewBucket (c.remote.getD {}) s i then m.held.map (fun h => (h.1, false))
      else m.held := by
    rcases hop with rfl | ⟨item, rfl⟩ <;> simp [Mon.next, hnb, hst]
  cases hnw : remoteNewBucket (c.remote.getD {}) s i with
  | false =>
    -- the remote wrapper existed: the limiter object, its count and the wrapper's identity stay
    have hsome : c.remote.isSome = true := by
      cases hrm : c.remote with
      | some r => rfl
      | none =>
        exfalso
        have : remoteRecreates ({} : Remote) s i = true := by simp [remoteRecreates]
        simp [remoteNewBucket, hrm, this] at hnw
    have hfl : flightAfterSync c.fl c.remote.isNone false = c.fl := by
      have : c.remote.isNone = false := by cases hr : c.remote <;> simp [hr] at hsome ⊢
      simp [flightAfterSync, this]
    rw [hnw] at mheld hfl'
    simp only [Bool.false_eq_true, if_false] at mheld
    rw [hfl] at hfl'
    subst hfl'
    obtain ⟨r, hrm⟩ : ∃ r, c.remote = some r := by
      cases hr : c.remote with
      | none => rw [hr] at hsome; cases hsome
      | some r => exact ⟨r, rfl⟩
    obtain ⟨_, _, g, _, _, q3, _⟩ := h5 r hrm
    have hgf : gfcOf st = some g := by simp [gfcOf, hcache, hrm, q3]
    refine flInv_cache (c' := { c with remote := some r', cnt := cnt', fl := c.fl }) hi.fl hcache rfl rfl rfl rfl
      (by simp [hsome]) ?_ ?_ ?_ mheld
    · intro r0 hr
      have : r0 = r' := by simpa using hr.symm
      subst this; rw [mapp, happ]
    · intro w hw
      rw [mowed]
      have hw' : r'.fc = some (.tbw w) := by simpa [gfcOf] using hw
      cases hrc : remoteRecreates (c.remote.getD {}) s i with
      | true =>
        obtain ⟨g', hg1, hg2⟩ := remoteSync_recreate hrc hrs
        rw [hg2] at hw'
        have : g' = .tbw w := Option.some.inj hw'
        subst this
        simp only [if_true]
        exact newGFC_tbw_fresh hg1
      | false =>
        obtain ⟨g0, hg1, hg2⟩ := remoteSync_norecreate hrc hrs hrr
        have : g0 = g := by rw [hrm] at hg1; simp only [Option.getD_some] at hg1; rw [q3] at hg1; exact (Option.some.inj hg1).symm
        subst this
        simp only [Bool.false_eq_true, if_false]
        rcases hg2 with h | ⟨n, b, h⟩
        · rw [h] at hw'
          have : g0 = .tbw w := Option.some.inj hw'
          subst this; exact hi.fl.owed w hgf
        · rw [h] at hw'
          cases g0 with
          | tbw w0 =>
            obtain ⟨w1, e1, e2⟩ := resize_tokenInflight w0 n b
            rw [e1] at hw'
            have : w1 = w := by simpa using hw'
            subst this; rw [e2]; exact hi.fl.owed w0 hgf
          | empty l => simp [GFC.resize] at hw'
          | miw w0 => simp [GFC.resize] at hw'
    · intro hm
      rw [mmust] at hm
      simp only [Bool.and_eq_true, Bool.not_eq_true'] at hm
      obtain ⟨hm1, hrc⟩ := hm
      rw [hrc] at hcnt
      simp only [Bool.false_eq_true, if_false] at hcnt
      obtain ⟨g0, hg1, hg2⟩ := remoteSync_norecreate hrc hrs hrr
      have : g0 = g := by rw [hrm] at hg1; simp only [Option.getD_some] at hg1; rw [q3] at hg1; exact (Option.some.inj hg1).symm
      subst this
      obtain ⟨c0, g1, k1, k2, k3, k4⟩ := hi.fl.must hm1
      have : c0 = c := by rw [hcache] at k1; exact (Option.some.inj k1).symm
      subst this
      have : g1 = g0 := by rw [hgf] at k2; exact (Option.some.inj k2).symm
      subst this
      rcases hg2 with h | ⟨n, b, h⟩
      · exact ⟨g1, by simp [gfcOf, h], k3, by rw [hcnt]; exact k4⟩
      · exact ⟨g1.resize n b, by simp [gfcOf, h], by rw [wkind_resize]; exact k3, by rw [hcnt]; exact k4⟩
  | true =>
    -- there was no remote wrapper: a new one with a new limiter, an empty bucket and a new counter
    have hrm : c.remote = none := hnone hnw
    have hrc : remoteRecreates (c.remote.getD {}) s i = true := by
      simp only [remoteNewBucket, Bool.and_eq_true] at hnw; exact hnw.1
    obtain ⟨g', hg1, hg2⟩ := remoteSync_recreate hrc hrs
    rw [hrc] at mowed mmust hcnt
    rw [hnw] at mheld hfl'
    simp only [if_true, Bool.not_true, Bool.and_false] at mowed mmust mheld hcnt
    have hfl2 : fl' = { c.fl with remOuter := c.fl.remOuter + 1, remInner := c.fl.remInner + 1, remCount := 0 } := by
      rw [hfl', hrm]; simp [flightAfterSync]
    have hgens := hi.fl.gens c hcache
    have hflag : ∀ h ∈ st.handles, flagOf { c with remote := some r', cnt := cnt', fl := fl' } h = false := by
      intro h hh
      by_cases hside : h.side = .rem
      · have := hgens h hh hside
        simp only [flagOf, hfl2]
        simp; omega
      · simp [flagOf, hside]
    refine ⟨hi.fl.cfgv, ?_, ?_, ?_, ?_, hi.fl.nodup, ?_, fun h => (by cases h), ?_⟩
    · intro x r hx hr
      have : x = { c with remote := some r', cnt := cnt', fl := fl' } := by simpa using hx.symm
      subst this
      have : r = r' := by simpa using hr.symm
      subst this; rw [mapp, happ]
    · intro w hw
      rw [mowed]
      have hw' : r'.fc = some (.tbw w) := by simpa [gfcOf] using hw
      rw [hg2] at hw'
      have : g' = .tbw w := Option.some.inj hw'
      subst this
      exact newGFC_tbw_fresh hg1
    · intro hm; rw [mmust] at hm; cases hm
    · rw [mheld, hi.fl.held, hcache]
      simp only [heldOf, List.map_map]
      apply List.map_congr_left
      intro h hh
      simp [hflag h hh]
    · intro x hx h hh hside
      have : x = { c with remote := some r', cnt := cnt', fl := fl' } := by simpa using hx.symm
      subst this
      have := hgens h hh hside
      simp only [hfl2]
      omega
    · intro x hx
      have : x = { c with remote := some r', cnt := cnt', fl := fl' } := by simpa using hx.symm
      subst this
      refine ⟨?_, ?_⟩
      · intro _
        have hz : st.handles.countP (flagOf { c with remote := some r', cnt := cnt', fl := fl' }) = 0 := by
          rw [List.countP_eq_zero]; intro h hh; simp [hflag h hh]
        rw [hz]
        simp [hfl2]
      · intro h hh hside hgen _
        exfalso
        have hle := hgens h hh hside
        simp only [hfl2] at hgen
        omega

theorem step_reconcile {K : Kind} {cfg : Cfg} {st : State} {m : Mon} (hi : Inv K cfg st m) :
    StepOK K cfg st m .reconcileCount := by
  have hc := hi.cache
  unfold CInv at hc
  cases hcache : st.cache with
  | none =>
    cases hsch : m.schema with
    | some s0 => rw [hcache, hsch] at hc; exact hc.elim
    | none =>
      exact step_noop hi _ (by simp [step, hcache]) (by simp [effective, hsch]) rfl ⟨rfl, rfl, rfl, rfl, rfl⟩ rfl
  | some c =>
    cases hsch : m.schema with
    | none => rw [hcache, hsch] at hc; exact hc.elim
    | some s =>
      have hc' := hc
      rw [hcache, hsch] at hc'
      obtain ⟨h1, h2, h3, h4, h5⟩ := hc'
      by_cases hcount : s.strategy = .count
      · by_cases hen : enableGlobal s = true
        · -- effective
          have heff : effective m .reconcileCount = true := by simp [effective, hsch, hcount, hen]
          obtain ⟨cnt', hcnt'⟩ : ∃ x : Counter, x = (if remoteRecreates (c.remote.getD {}) s
              { strategy := Strategy.count, mi := s.gmi, tb := s.gtb }
              then { event := false, lastSync := unixS st.clock } else c.cnt) := ⟨_, rfl⟩
          obtain ⟨fl', hfl'⟩ : ∃ x : Flight, x = flightAfterSync c.fl c.remote.isNone (remoteNewBucket (c.remote.getD {}) s
              { strategy := Strategy.count, mi := s.gmi, tb := s.gtb }) := ⟨_, rfl⟩
          obtain ⟨r', g', e1, e2, e3, e4, e5⟩ := inv_of_sync hi hcache hsch
            { strategy := s.strategy, mi := s.gmi, tb := s.gtb } (VS_globalItem h2) cnt' fl'
          have hitem : syncItem m .reconcileCount = some { strategy := s.strategy, mi := s.gmi, tb := s.gtb } := by
            simp [syncItem, hsch]
          refine ⟨{ st with cache := some { c with remote := some r', cnt := cnt', fl := fl' } }, ?_, ?_, rfl⟩
          · simp only [step, hcache, h1, hcount, ne_eq, not_true_eq_false, if_false, hen, Bool.not_true,
              Bool.false_eq_true, cacheRemoteSync, bind, Except.bind]
            rw [h1, hcount] at e1
            rw [e1, hcnt', hfl']; rfl
          · apply e5
            · simp [Mon.next, hsch]
            · simp [Mon.next, heff]
            · simp [Mon.next, heff, hsch]
            · simp [Mon.next, heff, hsch]
            · rfl
            · simp [Mon.next]; exact hi.meter
            · simp [Mon.next]; exact hi.shards
            · simp [Mon.next, leaderChange]
            · simp [Mon.next, leaderChange]; exact hi.leader
            · exact cntInv_sync _ hi.cnt hcache rfl hcnt' (by simp [Mon.next]; exact hi.cnt.clock)
                (by simp [Mon.next, heff]) (by simp [Mon.next])
            · rw [h1] at e1
              refine flInv_sync _ hi hcache hsch heff hitem (VS_globalItem h2) (Or.inl rfl) e1 e3 ?_ fl' ?_
              · rw [hcnt', hcount]
              · rw [hfl', hcount]
        · have hen' : enableGlobal s = false := by simpa using hen
          exact step_noop hi _ (by simp [step, hcache, h1, hcount, hen']) (by simp [effective, hsch, hen'])
            rfl ⟨rfl, rfl, rfl, rfl, rfl⟩ rfl
      · exact step_noop hi _ (by simp [step, hcache, h1, hcount]) (by simp [effective, hsch, hcount])
          rfl ⟨rfl, rfl, rfl, rfl, rfl⟩ rfl

theorem step_answer {K : Kind} {cfg : Cfg} {st : State} {m : Mon} (hi : Inv K cfg st m) (named : Bool) (item : Item) :
    StepOK K cfg st m (.answer named item) := by
  have hc := hi.cache
  unfold CInv at hc
  cases named with
  | false =>
    refine step_noop hi _ ?_ rfl rfl ⟨rfl, rfl, rfl, rfl, rfl⟩ rfl
    simp only [step]; cases st.cache <;> rfl
  | true =>
  cases hcache : st.cache with
  | none =>
    cases hsch : m.schema with
    | some s0 => rw [hcache, hsch] at hc; exact hc.elim
    | none =>
      have heff : effective m (.answer true item) = false := by simp [effective, hsch]
      exact step_noop hi _ (by simp [step, hcache]) heff rfl ⟨rfl, rfl, rfl, rfl, rfl⟩ (by simp [exactTrans, heff])
  | some c =>
    cases hsch : m.schema with
    | none => rw [hcache, hsch] at hc; exact hc.elim
    | some s =>
      have hc' := hc
      rw [hcache, hsch] at hc'
      obtain ⟨h1, h2, h3, h4, h5⟩ := hc'
      by_cases hen : enableGlobal s = true
      · by_cases hty : itemType item = guessType s
        · have heff : effective m (.answer true item) = true := by simp [effective, hsch, hen, hty]
          obtain ⟨cnt', hcnt'⟩ : ∃ x : Counter, x = (if remoteRecreates (c.remote.getD {}) s item
              then { event := false, lastSync := unixS st.clock } else c.cnt) := ⟨_, rfl⟩
          obtain ⟨fl', hfl'⟩ : ∃ x : Flight, x = flightAfterSync c.fl c.remote.isNone
              (remoteNewBucket (c.remote.getD {}) s item) := ⟨_, rfl⟩
          obtain ⟨r', g', e1, e2, e3, e4, e5⟩ := inv_of_sync hi hcache hsch item (by rw [hty]; exact VS_guess h2) cnt' fl'
          have hg : gfcOf { st with cache := some { c with remote := some r', cnt := cnt', fl := fl' } } = some g' := by
            simp [gfcOf, e2]
          refine ⟨{ st with cache := some { c with remote := some r', cnt := cnt', fl := fl' } }, ?_, ?_, ?_⟩
          · simp only [step, hcache, h1, hen, Bool.not_true, Bool.false_eq_true, if_false, hty, ne_eq,
              not_true_eq_false, cacheRemoteSync, bind, Except.bind]
            rw [h1] at e1
            rw [e1, hcnt', hfl']; rfl
          · apply e5
            · simp [Mon.next, hsch]
            · simp [Mon.next, heff]
            · simp [Mon.next, heff, hsch]
            · simp [Mon.next, heff, hsch]
            · rfl
            · simp [Mon.next]; exact hi.meter
            · simp [Mon.next]; exact hi.shards
            · simp [Mon.next, leaderChange]
            · simp [Mon.next, leaderChange]; exact hi.leader
            · exact cntInv_sync _ hi.cnt hcache rfl hcnt' (by simp [Mon.next]; exact hi.cnt.clock)
                (by simp [Mon.next, heff]) (by simp [Mon.next])
            · rw [h1] at e1
              exact flInv_sync _ hi hcache hsch heff rfl (by rw [hty]; exact VS_guess h2) (Or.inr ⟨item, rfl⟩) e1 e3 hcnt'
                fl' hfl'
          · simp only [exactTrans, heff, Bool.true_and, hsch, observe_wkind, observe_rlim, hg, Option.map_some,
              Option.getD_some]
            cases g' with
            | empty l => simp only [GInv] at e4; simp [GFC.wkind, GFC.inner, e4]
            | miw w => simp [GFC.wkind]
            | tbw w => simp [GFC.wkind]
        · have heff : effective m (.answer true item) = false := by simp [effective, hsch, hty]
          exact step_noop hi _ (by simp [step, hcache, h1, hen, hty]) heff rfl ⟨rfl, rfl, rfl, rfl, rfl⟩
            (by simp [exactTrans, heff])
      · have hen' : enableGlobal s = false := by simpa using hen
        have heff : effective m (.answer true item) = false := by simp [effective, hsch, hen']
        exact step_noop hi _ (by simp [step, hcache, h1, hen']) heff rfl ⟨rfl, rfl, rfl, rfl, rfl⟩
          (by simp [exactTrans, heff])

theorem observe_miw {cfg : Cfg} {st : State} {w : MIW} (h : gfcOf st = some (.miw w)) :
    (observe cfg st).wkind = 2 ∧ (observe cfg st).lastAcq = w.lastAcquireTime ∧ (observe cfg st).wreserve = w.reserve ∧
    (observe cfg st).wmax = w.max ∧ (observe cfg st).unavail = w.unavail ∧ (observe cfg st).rlim = some w.inner := by
  simp only [gfcOf] at h
  simp only [observe, h]
  exact ⟨trivial, trivial, trivial, trivial, trivial, rfl⟩

theorem observe_tbw {cfg : Cfg} {st : State} {w : TBW} (h : gfcOf st = some (.tbw w)) :
    (observe cfg st).wkind = 3 ∧ (observe cfg st).wqps = w.qps ∧ (observe cfg st).wburst = w.burst ∧
    (observe cfg st).unavail = w.unavail ∧ (observe cfg st).rlim = some w.inner := by
  simp only [gfcOf] at h
  simp only [observe, h]
  exact ⟨trivial, trivial, trivial, trivial, rfl⟩

/-- the wrapper is replaced by one that satisfies the wrapper invariant for the same applied item -/
theorem inv_of_setLimit {K : Kind} {cfg : Cfg} {st : State} {m : Mon} {c : Cache} {s : Schema} {rm : Remote}
    {i ap : Item} {g g' : GFC} {b : Bool} (r : Reply) (hi : Inv K cfg st m) (hcache : st.cache = some c)
    (hsch : m.schema = some s) (hrm : c.remote = some rm) (q1 : rm.remoteConfig = some i)
    (q2 : rm.appliedConfig = some ap) (q4 : itemType ap = K) (q5 : ItemLe ap m.gs)
    (hg : GInv g' ap (obAfter m.ob m.gs g'.unavail)) (hk : g'.inner.kind = K)
    (q3 : rm.fc = some g) (hwk : GFC.wkind g' = GFC.wkind g)
    (htok : ∀ w', g' = .tbw w' → ∃ w, g = .tbw w ∧ w'.tokenInflight = (w.noteRequest r).tokenInflight) :
    Inv K cfg { st with cache := some { c with remote := some { rm with fc := some g' } }, lastRet := b }
      (m.next (.setLimit r)
        (observe cfg { st with cache := some { c with remote := some { rm with fc := some g' } }, lastRet := b })) := by
  have hc := hi.cache
  unfold CInv at hc
  rw [hcache, hsch] at hc
  obtain ⟨h1, h2, h3, h4, h5⟩ := hc
  have hgf : gfcOf { st with cache := some { c with remote := some { rm with fc := some g' } }, lastRet := b } = some g' := by
    simp [gfcOf]
  have hun : (observe cfg { st with cache := some { c with remote := some { rm with fc := some g' } }, lastRet := b }).unavail
      = g'.unavail := by rw [observe_unavail, hgf]; rfl
  have hob : (m.next (.setLimit r)
      (observe cfg { st with cache := some { c with remote := some { rm with fc := some g' } }, lastRet := b })).ob
      = obAfter m.ob m.gs g'.unavail := by
    simp only [Mon.next, effective, Bool.false_eq_true, if_false, hun]; rfl
  have hgf0 : gfcOf st = some g := by simp [gfcOf, hcache, hrm, q3]
  have hpw : m.prev.wkind = GFC.wkind g := by rw [hi.prev, observe_wkind, hgf0]; rfl
  have hflinv : FlInv cfg { st with cache := some { c with remote := some { rm with fc := some g' } }, lastRet := b }
      (m.next (.setLimit r)
        (observe cfg { st with cache := some { c with remote := some { rm with fc := some g' } }, lastRet := b })) := by
    have hrb : rebuilds m (.setLimit r) = false := by simp [rebuilds, effective]
    have hnb : newBucket m (.setLimit r) = false := by simp [newBucket, hrb]
    refine flInv_cache (c' := { c with remote := some { rm with fc := some g' } }) hi.fl hcache rfl rfl rfl rfl
      (by simp [hrm]) ?_ ?_ ?_ (by simp [Mon.next, hrb, hnb, stopsRemote])
    · intro r0 hr0
      have : r0 = { rm with fc := some g' } := by simpa using hr0.symm
      subst this
      simp only [Mon.next, effective, Bool.false_eq_true, if_false]
      exact hi.fl.applied c rm hcache hrm
    · intro w' hw'
      rw [hgf] at hw'
      have hg' : g' = .tbw w' := Option.some.inj hw'
      obtain ⟨w, hw, htk⟩ := htok w' hg'
      subst hw
      have ho := hi.fl.owed w hgf0
      simp only [Mon.next, hrb, hnb, stopsRemote, Bool.or_self, Bool.false_eq_true, if_false, hpw, GFC.wkind, if_true]
      rw [htk, TBW.noteRequest]
      split <;> simp [ho]
    · intro hm
      simp only [Mon.next, hrb, hnb, stopsRemote] at hm
      obtain ⟨c0, g0, k1, k2, k3, k4⟩ := hi.fl.must (by simpa using hm)
      have : c0 = c := by rw [hcache] at k1; exact (Option.some.inj k1).symm
      subst this
      have : g0 = g := by rw [hgf0] at k2; exact (Option.some.inj k2).symm
      subst this
      exact ⟨g', hgf, by rw [hwk]; exact k3, k4⟩
  refine ⟨?_, hi.meterOK, ?_, ?_, rfl, ?_, ?_, ?_, ?_, (by simp [Mon.next, leaderChange]; exact hi.leader),
    cntInv_cache hi.cnt hcache rfl rfl (by simp [Mon.next]; exact hi.cnt.clock) (by simp [Mon.next, effective])
      (by simp [Mon.next]), hflinv⟩
  · simp [Mon.next]; exact hi.meter
  · simp [Mon.next]; exact hi.shards
  · simp [Mon.next, leaderChange]; exact hi.hb
  · simp [Mon.next, effective]; exact hi.gsOK
  · rw [hob]
    simp only [Mon.next, effective, Bool.false_eq_true, if_false]
    cases g'.unavail with
    | true => exact BLe.sup_right _ _
    | false => exact BLe.refl _
  · intro hu
    rw [hun] at hu
    rw [hob, hu]
    simp [Mon.next, effective, obAfter]
  · simp only [CInv]
    have e1 : (m.next (.setLimit r)
        (observe cfg { st with cache := some { c with remote := some { rm with fc := some g' } }, lastRet := b })).schema
        = some s := by simp [Mon.next, hsch]
    rw [e1]
    refine ⟨h1, h2, h3, ?_, ?_⟩
    · simp [Mon.next, effective, h4, hrm]
    · intro r0 hr0
      have : r0 = { rm with fc := some g' } := by simpa using hr0.symm
      subst this
      rw [hob]
      have e2 : (m.next (.setLimit r)
          (observe cfg { st with cache := some { c with remote := some { rm with fc := some g' } }, lastRet := b })).gs
          = m.gs := by simp [Mon.next, effective]
      rw [e2]
      exact ⟨i, ap, g', q1, q2, rfl, q4, q5, hg, hk⟩

theorem observe_wkind0 {cfg : Cfg} {st : State} (h : gfcOf st = none) : (observe cfg st).wkind = 0 := by
  rw [observe_wkind, h]; rfl

theorem step_setLimit {K : Kind} {cfg : Cfg} {st : State} {m : Mon} (hi : Inv K cfg st m) (r : Reply) :
    StepOK K cfg st m (.setLimit r) := by
  have hc := hi.cache
  unfold CInv at hc
  have noop : gfcOf st = none → step st (.setLimit r) = .ok st → StepOK K cfg st m (.setLimit r) := by
    intro hg hs
    refine step_noop hi _ hs rfl rfl ⟨rfl, rfl, rfl, rfl, rfl⟩ ?_ rfl (fun _ _ => observe_wkind0 hg)
    simp [exactTrans, exactSetLimit, hi.prev, observe_wkind0 hg]
  cases hcache : st.cache with
  | none => exact noop (by simp [gfcOf, hcache]) (by simp [step, hcache])
  | some c =>
    cases hsch : m.schema with
    | none => rw [hcache, hsch] at hc; exact hc.elim
    | some s =>
      rw [hcache, hsch] at hc
      obtain ⟨h1, h2, h3, h4, h5⟩ := hc
      cases hrm : c.remote with
      | none => exact noop (by simp [gfcOf, hcache, hrm]) (by simp [step, hcache, hrm])
      | some rm =>
        obtain ⟨i, ap, g, q1, q2, q3, q4, q5, q6, q7⟩ := h5 rm hrm
        have hgf : gfcOf st = some g := by simp [gfcOf, hcache, hrm, q3]
        cases g with
        | empty l =>
          refine ⟨_, ?_, inv_of_setLimit (g' := .empty l) (b := false) r hi hcache hsch hrm q1 q2 q4 q5
            (GInv_obAfter _ q6) q7 q3 rfl (fun w' h => (by cases h)), ?_⟩
          · simp [step, hcache, hrm, q3, gfcSetLimit]
          · have : (observe cfg st).wkind = 1 := by rw [observe_wkind, hgf]; rfl
            simp [exactTrans, exactSetLimit, hi.prev, this]
        | miw w =>
          have hKm : K = .mi := by
            obtain ⟨A, sz, a1, a2, a3, a4, a5, _⟩ := q6
            rw [← q7]; simp [GFC.inner, a5, Lim.kind]
          subst hKm
          obtain ⟨w', e1, e2, e3, e4⟩ := miw_setLimit_inv h2 q6 q5 hi.gsOK st.meter.maxInflight r
          obtain ⟨p1, p2, p3, p4, p5, p6⟩ := observe_miw (cfg := cfg) hgf
          refine ⟨_, ?_, inv_of_setLimit (g' := .miw w') (b := false) r hi hcache hsch hrm q1 q2 q4 q5 e2 e3 q3 rfl
            (fun w' h => (by cases h)), ?_⟩
          · simp [step, hcache, hrm, q3, gfcSetLimit, h1, e1, bind, Except.bind, pure, Except.pure]
          · have hg' : gfcOf { st with cache := some { c with remote := some { rm with fc := some (.miw w') } }, lastRet := false }
                = some (.miw w') := by simp [gfcOf]
            obtain ⟨o1, o2, o3, o4, o5, o6⟩ := observe_miw (cfg := cfg) hg'
            simp only [exactTrans, exactSetLimit, hi.prev, p1, if_true, p2, p3, p4, p5, p6, hsch, Option.bind_some,
              hi.meter, o5, o6]
            exact e4
        | tbw w =>
          have hKt : K = .tb := by
            obtain ⟨t, q, u, a1, a2, a3, a4, a5, _⟩ := q6
            rw [← q7]; simp [GFC.inner, a5, Lim.kind]
          subst hKt
          obtain ⟨w', b, e1, e2, e3, e4⟩ := tbw_setLimit_inv h2 q6 q5 hi.gsOK st.meter hi.meterOK r
          obtain ⟨p1, p2, p3, p4, p5⟩ := observe_tbw (cfg := cfg) hgf
          refine ⟨_, ?_, inv_of_setLimit (g' := .tbw w') (b := b) r hi hcache hsch hrm q1 q2 q4 q5 e2 e3 q3 rfl
            (fun w0 h => ⟨w, rfl, by cases h; exact tbw_setLimit_tokenInflight e1⟩), ?_⟩
          · simp [step, hcache, hrm, q3, gfcSetLimit, h1, e1, bind, Except.bind, pure, Except.pure]
          · have hg' : gfcOf { st with cache := some { c with remote := some { rm with fc := some (.tbw w') } }, lastRet := b }
                = some (.tbw w') := by simp [gfcOf]
            obtain ⟨o1, o2, o3, o4, o5⟩ := observe_tbw (cfg := cfg) hg'
            simp only [exactTrans, exactSetLimit, hi.prev, p1, p2, p3, p4, p5, hsch, Option.bind_some,
              hi.meter, o4, o5]
            exact e4


/-- a server-info sync: only a CHANGED leader for the cluster's shard counts as a success in the heartbeat history -/
theorem step_sync {K : Kind} {cfg : Cfg} {st : State} {m : Mon} (hi : Inv K cfg st m) (fail : Bool) (n : Nat)
    (leader : Option Nat) (now : Int) : StepOK K cfg st m (.sync fail n leader now) := by
  have hl := hi.leader
  -- all four outcomes leave the cache alone and set the clock
  have frame : ∀ st' : State, step st (.sync fail n leader now) = .ok st' → st'.cache = st.cache →
      st'.meter = st.meter → st'.clock = now → st'.handles = st.handles → st'.cfgv = st.cfgv →
      (m.next (.sync fail n leader now) (observe cfg st')).shards = st'.shardCount →
      HBInv st'.hb (m.next (.sync fail n leader now) (observe cfg st')).hist →
      (m.next (.sync fail n leader now) (observe cfg st')).leader = st'.leader →
      StepOK K cfg st m (.sync fail n leader now) := by
    intro st' hstep hc hm hck hhn hcv hsh hhb hld
    refine ⟨st', hstep, ?_, rfl⟩
    apply inv_of_frame hi (st' := st')
    · exact hc
    · simp [Mon.next]
    · simp [Mon.next, effective]
    · simp [Mon.next, effective]
    · simp [Mon.next, effective]
    · rfl
    · simp [Mon.next]; rw [hm]; exact hi.meter
    · rw [hm]; exact hi.meterOK
    · exact hsh
    · exact hhb
    · exact hld
    · exact cntInv_frame hi.cnt hc (by simp [Mon.next]; exact hck.symm) (by simp [Mon.next, effective])
        (by simp [Mon.next])
    · exact flInv_frame hi.fl hc hhn hcv (by simp [Mon.next, effective]) (by simp [Mon.next, rebuilds, effective, stopsRemote])
        (by simp [Mon.next, rebuilds, effective, stopsRemote]) (by simp [Mon.next, rebuilds, newBucket, effective, stopsRemote])
  cases fail with
  | true =>
    apply frame { st with clock := now } rfl rfl rfl rfl rfl rfl
    · simp [Mon.next]; exact hi.shards
    · simp [Mon.next, leaderChange]; exact hi.hb
    · simp [Mon.next, leaderChange]; exact hi.leader
  | false =>
    cases leader with
    | none =>
      apply frame { st with shardCount := n, clock := now } rfl rfl rfl rfl rfl rfl
      · simp [Mon.next]
      · simp [Mon.next, leaderChange]; exact hi.hb
      · simp [Mon.next, leaderChange]; exact hi.leader
    | some l =>
      by_cases hne : st.leader = l
      · apply frame { st with shardCount := n, clock := now } (by simp [step, hne]) rfl rfl rfl rfl rfl
        · simp [Mon.next]
        · simp [Mon.next, leaderChange, hl, hne]; exact hi.hb
        · simp [Mon.next, leaderChange, hl, hne]
      · apply frame { st with shardCount := n, leader := l, hb := some (hbStep (st.hb.getD {}) true now), clock := now }
          (by simp [step, hne]) rfl rfl rfl rfl rfl
        · simp [Mon.next]
        · simp [Mon.next, leaderChange, hl, hne]; exact hbStep_inv hi.hb true now
        · simp [Mon.next, leaderChange, hl, hne]

@[simp] theorem tickQuiet_clock (st : State) (c : Cache) (now : Int) : (tickQuiet st c now).clock = now := rfl
@[simp] theorem tickQuiet_lastReq (st : State) (c : Cache) (now : Int) : (tickQuiet st c now).lastReq = none := rfl
@[simp] theorem tickQuiet_cache (st : State) (c : Cache) (now : Int) :
    (tickQuiet st c now).cache = some { c with cnt := { c.cnt with event := false } } := rfl
@[simp] theorem tickQuiet_meter (st : State) (c : Cache) (now : Int) : (tickQuiet st c now).meter = st.meter := rfl
@[simp] theorem tickQuiet_shards (st : State) (c : Cache) (now : Int) : (tickQuiet st c now).shardCount = st.shardCount := rfl
@[simp] theorem tickQuiet_hb (st : State) (c : Cache) (now : Int) : (tickQuiet st c now).hb = st.hb := rfl
@[simp] theorem tickQuiet_leader (st : State) (c : Cache) (now : Int) : (tickQuiet st c now).leader = st.leader := rfl
@[simp] theorem tickSent_clock (st : State) (c : Cache) (rm : Remote) (g : GFC) (k : Counter) (now hits : Int) :
    (tickSent st c rm g k now hits).clock = now := rfl
@[simp] theorem tickSent_lastReq (st : State) (c : Cache) (rm : Remote) (g : GFC) (k : Counter) (now hits : Int) :
    (tickSent st c rm g k now hits).lastReq = some hits := rfl
@[simp] theorem tickSent_cache (st : State) (c : Cache) (rm : Remote) (g : GFC) (k : Counter) (now hits : Int) :
    (tickSent st c rm g k now hits).cache = some { c with remote := some { rm with fc := some g }, cnt := k } := rfl
@[simp] theorem tickSent_meter (st : State) (c : Cache) (rm : Remote) (g : GFC) (k : Counter) (now hits : Int) :
    (tickSent st c rm g k now hits).meter = st.meter := rfl
@[simp] theorem tickSent_shards (st : State) (c : Cache) (rm : Remote) (g : GFC) (k : Counter) (now hits : Int) :
    (tickSent st c rm g k now hits).shardCount = st.shardCount := rfl
@[simp] theorem tickSent_hb (st : State) (c : Cache) (rm : Remote) (g : GFC) (k : Counter) (now hits : Int) :
    (tickSent st c rm g k now hits).hb = st.hb := rfl
@[simp] theorem tickSent_leader (st : State) (c : Cache) (rm : Remote) (g : GFC) (k : Counter) (now hits : Int) :
    (tickSent st c rm g k now hits).leader = st.leader := rfl

theorem observe_req (cfg : Cfg) (st : State) : (observe cfg st).req = st.lastReq := by
  simp only [observe]
  cases h : (st.cache.bind fun c => c.remote.bind (·.fc)) with
  | none => rfl
  | some g => cases g <;> rfl

/-- the cache changes in its counter only -/
theorem inv_of_cnt {K : Kind} {cfg : Cfg} {st st' : State} {m m' : Mon} {c : Cache} {cnt' : Counter}
    (hi : Inv K cfg st m) (hcache : st.cache = some c) (hc : st'.cache = some { c with cnt := cnt' })
    (e_schema : m'.schema = m.schema) (e_synced : m'.synced = m.synced)
    (e_gs : m'.gs = m.gs) (e_ob : m'.ob = if (observe cfg st').unavail then m.ob.sup m.gs else m.gs)
    (e_prev : m'.prev = observe cfg st') (e_meter : m'.meter = st'.meter) (hmok : 0 < st'.meter.rateDen)
    (e_sh : m'.shards = st'.shardCount) (e_hb : HBInv st'.hb m'.hist) (e_leader : m'.leader = st'.leader)
    (e_cnt : CntInv st' m') (e_fl : FlInv cfg st' m') : Inv K cfg st' m' := by
  have hg : gfcOf st' = gfcOf st := by simp [gfcOf, hc, hcache]
  have hun : (observe cfg st').unavail = (observe cfg st).unavail := by
    rw [observe_unavail, observe_unavail, hg]
  have hob : m'.ob = m.ob := by
    rw [e_ob, hun]
    cases hu : (observe cfg st).unavail with
    | true => simp only [if_true]; exact sup_eq_left hi.gsob
    | false => simp only [Bool.false_eq_true, if_false]; exact (hi.obgs hu).symm
  refine ⟨e_meter, hmok, e_sh, e_hb, e_prev, by rw [e_gs]; exact hi.gsOK, by rw [e_gs, hob]; exact hi.gsob, ?_, ?_,
    e_leader, e_cnt, e_fl⟩
  · intro hu
    rw [hob, e_gs]
    exact hi.obgs (by rw [← hun]; exact hu)
  · have h := hi.cache
    rw [hcache] at h
    rw [hc]
    unfold CInv at *
    rw [e_schema, e_synced, e_gs, hob]
    cases hs : m.schema with
    | none => rw [hs] at h; exact h.elim
    | some s => rw [hs] at h; exact h

theorem step_event {K : Kind} {cfg : Cfg} {st : State} {m : Mon} (hi : Inv K cfg st m) : StepOK K cfg st m .event := by
  -- either nothing changes, or the counter's event flag is raised
  have hrb : rebuilds m .event = false := by simp [rebuilds, effective]
  have hnb : newBucket m .event = false := by simp [newBucket, hrb]
  have quiet : step st .event = .ok st → ((observe cfg st).wkind ≠ 2 ∧ (observe cfg st).wkind ≠ 3) →
      StepOK K cfg st m .event := by
    intro hs hw
    have hmf : m.mustEvent = false := by
      cases hm : m.mustEvent with
      | false => rfl
      | true =>
        obtain ⟨c0, g, _, k2, k3, _⟩ := hi.fl.must hm
        have : (observe cfg st).wkind = GFC.wkind g := by rw [observe_wkind, k2]; rfl
        rw [this] at hw
        cases g <;> simp [GFC.wkind] at hw k3
    refine ⟨st, hs, ?_, rfl⟩
    apply inv_of_frame hi (st' := st)
    · rfl
    · simp [Mon.next]
    · simp [Mon.next, effective]
    · simp [Mon.next, effective]
    · simp [Mon.next, effective]
    · rfl
    · simp [Mon.next]; exact hi.meter
    · exact hi.meterOK
    · simp [Mon.next]; exact hi.shards
    · simp [Mon.next, leaderChange]; exact hi.hb
    · simp [Mon.next, leaderChange]; exact hi.leader
    · refine ⟨by simp [Mon.next]; exact hi.cnt.clock, by simp [Mon.next, effective]; exact hi.cnt.contact0, ?_, ?_⟩
      · intro c hc; simp [Mon.next, effective]; exact hi.cnt.contact c hc
      · intro c hc _; simp [Mon.next]
    · apply flInv_frame hi.fl rfl rfl rfl
      · simp [Mon.next, effective]
      · simp [Mon.next, hrb, hnb, stopsRemote]
      · simp [Mon.next, hi.prev, hw.1, hw.2, hmf]
      · simp [Mon.next, hrb, hnb, stopsRemote]
  have raised : ∀ c, st.cache = some c →
      step st .event = .ok { st with cache := some { c with cnt := { c.cnt with event := true } } } →
      StepOK K cfg st m .event := by
    intro c hcache hs
    refine ⟨_, hs, ?_, rfl⟩
    apply inv_of_cnt hi hcache rfl
    · simp [Mon.next]
    · simp [Mon.next, effective]
    · simp [Mon.next, effective]
    · simp [Mon.next, effective]
    · rfl
    · simp [Mon.next]; exact hi.meter
    · exact hi.meterOK
    · simp [Mon.next]; exact hi.shards
    · simp [Mon.next, leaderChange]; exact hi.hb
    · simp [Mon.next, leaderChange]; exact hi.leader
    · refine ⟨by simp [Mon.next]; exact hi.cnt.clock, by simp [Mon.next, effective]; exact hi.cnt.contact0, ?_, ?_⟩
      · intro x hx
        have : x = { c with cnt := { c.cnt with event := true } } := by simpa using hx.symm
        subst this
        simp [Mon.next, effective]; exact hi.cnt.contact c hcache
      · intro x hx _; simp [Mon.next]
    · refine flInv_cache (c' := { c with cnt := { c.cnt with event := true } }) hi.fl hcache rfl rfl rfl rfl rfl ?_ ?_ ?_
        (by simp [Mon.next, hrb, hnb, stopsRemote])
      · intro r hr; simp only [Mon.next, effective, Bool.false_eq_true, if_false]; exact hi.fl.applied c r hcache hr
      · intro w hw
        have hw' : gfcOf st = some (.tbw w) := by simpa [gfcOf, hcache] using hw
        simp only [Mon.next, hrb, hnb, stopsRemote, Bool.or_self, Bool.false_eq_true, if_false]
        have := hi.fl.owed w hw'
        split <;> exact this
      · intro hm
        simp only [Mon.next, decide_eq_true_eq, hi.prev] at hm
        cases hg : gfcOf st with
        | none => rw [observe_wkind, hg] at hm; simp at hm
        | some g =>
          refine ⟨g, by simpa [gfcOf, hcache] using hg, ?_, rfl⟩
          rw [observe_wkind, hg] at hm
          intro h1; simp [h1] at hm
  cases hcache : st.cache with
  | none =>
    have hg0 : gfcOf st = none := by simp [gfcOf, hcache]
    exact quiet (by simp [step, hcache]) (by rw [observe_wkind0 hg0]; simp)
  | some c =>
    cases hrm : c.remote with
    | none =>
      have hg0 : gfcOf st = none := by simp [gfcOf, hcache, hrm]
      exact quiet (by simp [step, hcache, hrm]) (by rw [observe_wkind0 hg0]; simp)
    | some rm =>
      cases hfc : rm.fc with
      | none =>
        have hg0 : gfcOf st = none := by simp [gfcOf, hcache, hrm, hfc]
        exact quiet (by simp [step, hcache, hrm, hfc]) (by rw [observe_wkind0 hg0]; simp)
      | some g =>
        cases g with
        | empty l =>
          have hg1 : gfcOf st = some (.empty l) := by simp [gfcOf, hcache, hrm, hfc]
          exact quiet (by simp [step, hcache, hrm, hfc]) (by rw [observe_wkind, hg1]; simp [GFC.wkind])
        | miw w => exact raised c hcache (by simp [step, hcache, hrm, hfc])
        | tbw w => exact raised c hcache (by simp [step, hcache, hrm, hfc])

/-- the wrapper is replaced by one that satisfies the wrapper invariant for the same applied item (general form) -/
theorem inv_of_wrapper {K : Kind} {cfg : Cfg} {st st' : State} {m m' : Mon} {c : Cache} {s : Schema} {rm : Remote}
    {i ap : Item} {g' : GFC} {cnt' : Counter} (hi : Inv K cfg st m) (hcache : st.cache = some c)
    (hsch : m.schema = some s) (hrm : c.remote = some rm) (q1 : rm.remoteConfig = some i)
    (q2 : rm.appliedConfig = some ap) (q4 : itemType ap = K) (q5 : ItemLe ap m.gs)
    (hg : GInv g' ap (obAfter m.ob m.gs g'.unavail)) (hk : g'.inner.kind = K)
    (hst : st'.cache = some { c with remote := some { rm with fc := some g' }, cnt := cnt' })
    (s1 : st'.meter = st.meter) (s2 : st'.shardCount = st.shardCount) (s3 : st'.hb = st.hb) (s4 : st'.leader = st.leader)
    (m1 : m'.schema = some s) (m2 : m'.synced = m.synced) (m3 : m'.gs = m.gs)
    (m4 : m'.ob = if (observe cfg st').unavail then m.ob.sup m.gs else m.gs) (m5 : m'.prev = observe cfg st')
    (m6 : m'.meter = m.meter) (m7 : m'.shards = m.shards) (m8 : m'.hist = m.hist) (m9 : m'.leader = m.leader)
    (m10 : CntInv st' m') (m11 : FlInv cfg st' m') : Inv K cfg st' m' := by
  have hc := hi.cache
  unfold CInv at hc
  rw [hcache, hsch] at hc
  obtain ⟨h1, h2, h3, h4, h5⟩ := hc
  have hgf : gfcOf st' = some g' := by simp [gfcOf, hst]
  have hun : (observe cfg st').unavail = g'.unavail := by rw [observe_unavail, hgf]; rfl
  have hob : m'.ob = obAfter m.ob m.gs g'.unavail := by rw [m4, hun]; rfl
  refine ⟨by rw [m6, s1]; exact hi.meter, by rw [s1]; exact hi.meterOK, by rw [m7, s2]; exact hi.shards,
    by rw [m8, s3]; exact hi.hb, m5, by rw [m3]; exact hi.gsOK, ?_, ?_, ?_, by rw [m9, s4]; exact hi.leader, m10, m11⟩
  · rw [hob, m3]
    cases g'.unavail with
    | true => exact BLe.sup_right _ _
    | false => exact BLe.refl _
  · intro hu
    rw [hun] at hu
    rw [hob, hu, m3]; rfl
  · rw [hst]
    simp only [CInv, m1]
    refine ⟨h1, h2, h3, ?_, ?_⟩
    · rw [m2, h4, hrm]; rfl
    · intro r0 hr0
      have : r0 = { rm with fc := some g' } := by simpa using hr0.symm
      subst this
      rw [hob, m3]
      exact ⟨i, ap, g', q1, q2, rfl, q4, q5, hg, hk⟩

theorem GInv_addAcquiring {g : GFC} {ap : Item} {ob : Bound} (h : GInv g ap ob) (hits : Int) :
    GInv (g.addAcquiring hits) ap ob ∧ (g.addAcquiring hits).unavail = g.unavail ∧
      (g.addAcquiring hits).inner = g.inner := by
  cases g with
  | empty l => exact ⟨h, rfl, rfl⟩
  | miw w => exact ⟨h, rfl, rfl⟩
  | tbw w => exact ⟨h, rfl, rfl⟩

theorem observe_tbw2 {cfg : Cfg} {st : State} {w : TBW} (h : gfcOf st = some (.tbw w)) :
    (observe cfg st).wreserve = w.reserve ∧ (observe cfg st).tokens = w.tokens ∧
    (observe cfg st).tokenBatch = w.tokenBatch ∧ (observe cfg st).lastAcq = w.lastAcquireTime := by
  simp only [gfcOf] at h
  simp only [observe, h]
  exact ⟨trivial, trivial, trivial, trivial⟩

/-- when a resync is due (by the monitor's upper bound of `lastSyncTime`) and no event can be pending, a count wrapper's
    counter sends a request -/
theorem requestOf_due {g : GFC} {cnt : Counter} {mt : Meter} {infl now contact : Int} (hle : cnt.lastSync ≤ contact)
    (hdue : unixS now - contact > 2) (hnone : requestOf g cnt mt infl now = none) :
    (∃ l, g = .empty l) ∨ ((∃ w, g = .tbw w) ∧ cnt.event = true) := by
  have hd : unixS now - cnt.lastSync > 2 := by omega
  cases g with
  | empty l => exact Or.inl ⟨l, rfl⟩
  | miw w => simp [requestOf, hd] at hnone
  | tbw w =>
    refine Or.inr ⟨⟨w, rfl⟩, ?_⟩
    cases he : cnt.event with
    | true => rfl
    | false => simp [requestOf, hd, he] at hnone

/-- **tokens are requested when there is demand and room**: a token-bucket count wrapper with a pending event whose
    reserve has room for at least one batch (or whose last answer is old enough) asks for more than zero tokens -/
theorem demand_hits {w : TBW} {cnt : Counter} {mt : Meter} {infl now : Int} (hev : cnt.event = true)
    (hroom : i32sub (i32sub w.reserve w.tokens) w.tokenInflight > 0) (hb : w.tokenBatch ≥ 1)
    (hor : i32sub (i32sub w.reserve w.tokens) w.tokenInflight ≥ w.tokenBatch ∨
      now - w.lastAcquireTime ≥ batchAcquireMaxDuration) :
    requestOf (.tbw w) cnt mt infl now = some (w.expectToken mt now) ∧ w.expectToken mt now > 0 := by
  have hpos : w.expectToken mt now > 0 := by
    simp only [TBW.expectToken, globalTokenBucketBatchAcquireMin]
    generalize i32sub (i32sub w.reserve w.tokens) w.tokenInflight = room at hroom hor
    have h0 : ¬ room < 0 := by omega
    simp only [h0, if_false]
    by_cases h1 : room < w.tokenBatch
    · simp only [h1, if_true]
      have : ¬ (now - w.lastAcquireTime < batchAcquireMaxDuration) := by
        rcases hor with h | h
        · omega
        · omega
      simp only [this, if_false]; exact hroom
    · simp only [h1, if_false]
      have hbatch : ∀ b : Int, (if b < 1 then 1 else b) > 0 := by intro b; split <;> omega
      have key : ∀ batch : Int, batch > 0 → (if room > batch then batch else room) > 0 := by
        intro batch hb; split <;> omega
      apply key
      split
      · exact hbatch _
      · omega
  refine ⟨?_, hpos⟩
  simp only [requestOf, hev, Bool.true_or, Bool.not_true, Bool.false_eq_true, if_false, Bool.false_and]
  have : ¬ (w.expectToken mt now ≤ 0 ∧ True) := by intro h; omega
  simp [this]

theorem step_tick {K : Kind} {cfg : Cfg} {st : State} {m : Mon} (hi : Inv K cfg st m) (now : Int)
    (ans : Option TickAnswer) : StepOK K cfg st m (.tick now ans) := by
  have hprev := hi.prev
  have hrb : rebuilds m (.tick now ans) = false := by simp [rebuilds, effective]
  have hnb : newBucket m (.tick now ans) = false := by simp [newBucket, hrb]
  cases hcache : st.cache with
  | none =>
    have hg0 : gfcOf st = none := by simp [gfcOf, hcache]
    have hmf : m.mustEvent = false := by
      cases hm : m.mustEvent with
      | false => rfl
      | true => obtain ⟨c0, _, k1, _⟩ := hi.fl.must hm; rw [hcache] at k1; cases k1
    refine ⟨{ st with clock := now, lastReq := none }, by simp [step, hcache], ?_, ?_⟩
    · apply inv_of_frame hi (st' := { st with clock := now, lastReq := none })
      · rfl
      · simp [Mon.next]
      · simp [Mon.next, effective]
      · simp [Mon.next, effective]
      · simp [Mon.next, effective]
      · rfl
      · simp [Mon.next]; exact hi.meter
      · exact hi.meterOK
      · simp [Mon.next]; exact hi.shards
      · simp [Mon.next, leaderChange]; exact hi.hb
      · simp [Mon.next, leaderChange]; exact hi.leader
      · refine ⟨by simp [Mon.next], ?_, fun c hc => by simp [hcache] at hc, fun c hc => by simp [hcache] at hc⟩
        cases ans <;> simp [Mon.next, effective, observe_req] <;> exact hi.cnt.contact0
      · apply flInv_frame hi.fl
        · rfl
        · rfl
        · rfl
        · simp [Mon.next, effective]
        · simp [Mon.next, hrb, hnb, stopsRemote, hprev, observe_wkind0 hg0]
        · simp [Mon.next, hmf]
        · simp [Mon.next, hrb, hnb, stopsRemote]
    · simp [exactTrans, exactTick, exactDemand, hprev, observe_wkind0 hg0, observe_req]
  | some c =>
    have hc := hi.cache
    unfold CInv at hc
    cases hsch : m.schema with
    | none => rw [hcache, hsch] at hc; exact hc.elim
    | some s =>
    rw [hcache, hsch] at hc
    obtain ⟨h1, h2, h3, h4, h5⟩ := hc
    -- the demand clause: when its premise holds the round does ask for tokens
    have demand : ∀ o : Obs, (∀ w, gfcOf st = some (.tbw w) → c.cnt.event = true →
          i32sub (i32sub w.reserve w.tokens) w.tokenInflight > 0 → w.tokenBatch ≥ 1 →
          (i32sub (i32sub w.reserve w.tokens) w.tokenInflight ≥ w.tokenBatch ∨
            now - w.lastAcquireTime ≥ batchAcquireMaxDuration) → reqPositive o.req = true) →
        exactDemand m now o = [] := by
      intro o ho
      simp only [exactDemand]
      split
      · rename_i hp
        exfalso
        obtain ⟨p1, p2, p3, p4, p5, p6⟩ := hp
        obtain ⟨c0, g, k1, k2, k3, k4⟩ := hi.fl.must p2
        have : c0 = c := by rw [hcache] at k1; exact (Option.some.inj k1).symm
        subst this
        rw [hprev, observe_wkind, k2] at p1
        cases g with
        | empty l => simp [GFC.wkind] at p1
        | miw w => simp [GFC.wkind] at p1
        | tbw w =>
          obtain ⟨o1, o2, o3, o4⟩ := observe_tbw2 (cfg := cfg) k2
          have hw := hi.fl.owed w k2
          rw [hprev, o1, o2, ← hw] at p3
          rw [hprev, o3] at p4
          rw [hprev, o1, o2, o3, o4, ← hw] at p5
          have := ho w k2 k4 p3 p4 p5
          rw [this] at p6; cases p6
      · rfl
    -- the outcomes without a request: only the event flag is cleared
    have quiet : step st (.tick now ans) = .ok (tickQuiet st c now) →
        (((observe cfg st).wkind = 2 ∨ ((observe cfg st).wkind = 3 ∧ m.mayEvent = false)) →
          ¬ unixS now - m.contact > 2) →
        (∀ w, gfcOf st = some (.tbw w) → c.cnt.event = true →
          i32sub (i32sub w.reserve w.tokens) w.tokenInflight > 0 → w.tokenBatch ≥ 1 →
          (i32sub (i32sub w.reserve w.tokens) w.tokenInflight ≥ w.tokenBatch ∨
            now - w.lastAcquireTime ≥ batchAcquireMaxDuration) → False) →
        StepOK K cfg st m (.tick now ans) := by
      intro hs hA hD
      refine ⟨_, hs, ?_, ?_⟩
      · apply inv_of_cnt hi hcache rfl
        · simp [Mon.next]
        · simp [Mon.next, effective]
        · simp [Mon.next, effective]
        · simp [Mon.next, effective]
        · rfl
        · simp [Mon.next]; exact hi.meter
        · exact hi.meterOK
        · simp [Mon.next]; exact hi.shards
        · simp [Mon.next, leaderChange]; exact hi.hb
        · simp [Mon.next, leaderChange]; exact hi.leader
        · refine ⟨by simp [Mon.next], ?_, ?_, ?_⟩
          · cases ans <;> simp [Mon.next, effective, observe_req] <;> exact hi.cnt.contact0
          · intro x hx
            have : x = { c with cnt := { c.cnt with event := false } } := by simpa [tickQuiet] using hx.symm
            subst this
            cases ans <;> simp [Mon.next, effective, observe_req] <;> exact hi.cnt.contact c hcache
          · intro x hx he
            have : x = { c with cnt := { c.cnt with event := false } } := by simpa [tickQuiet] using hx.symm
            subst this
            simp at he
        · refine flInv_cache (c' := { c with cnt := { c.cnt with event := false } }) hi.fl hcache rfl rfl rfl rfl rfl
            ?_ ?_ ?_ (by simp [Mon.next, hrb, hnb, stopsRemote])
          · intro r hr; simp only [Mon.next, effective, Bool.false_eq_true, if_false]; exact hi.fl.applied c r hcache hr
          · intro w hw
            have hw' : gfcOf st = some (.tbw w) := by simpa [gfcOf, hcache, tickQuiet] using hw
            have := hi.fl.owed w hw'
            simp only [Mon.next, hrb, hnb, stopsRemote, Bool.or_self, Bool.false_eq_true, if_false, observe_req,
              tickQuiet_lastReq]
            split <;> exact this
          · intro hm; simp [Mon.next] at hm
      · simp only [exactTrans, exactTick, hprev, observe_req]
        have : ¬ (((observe cfg st).wkind = 2 ∨ ((observe cfg st).wkind = 3 ∧ m.mayEvent = false)) ∧
            unixS now - m.contact > 2 ∧ (tickQuiet st c now).lastReq.isNone = true) := fun h => hA h.1 h.2.1
        rw [if_neg this]
        rw [demand _ (fun w a b c1 d e => (hD w a b c1 d e).elim)]
        cases ans <;> simp
    cases hrm : c.remote with
    | none =>
      have hg0 : gfcOf st = none := by simp [gfcOf, hcache, hrm]
      exact quiet (by simp [step, hcache, hrm]) (by rw [observe_wkind0 hg0]; simp)
        (fun w hw => by rw [hg0] at hw; cases hw)
    | some rm =>
      obtain ⟨i, ap, g, q1, q2, q3, q4, q5, q6, q7⟩ := h5 rm hrm
      have hgf : gfcOf st = some g := by simp [gfcOf, hcache, hrm, q3]
      have hwk : (observe cfg st).wkind = GFC.wkind g := by rw [observe_wkind, hgf]; rfl
      have hpw : m.prev.wkind = GFC.wkind g := by rw [hprev]; exact hwk
      cases hreq : requestOf g c.cnt st.meter st.inflight now with
      | none =>
        refine quiet (by simp [step, hcache, hrm, q3, hreq]) ?_ ?_
        · intro hk hdue
          rcases requestOf_due (hi.cnt.contact c hcache) hdue hreq with ⟨l, rfl⟩ | ⟨⟨w, rfl⟩, he⟩
          · rw [hwk] at hk; simp [GFC.wkind] at hk
          · rw [hwk] at hk
            have := hi.cnt.may c hcache he
            simp [GFC.wkind, this] at hk
        · intro w hw hev hr1 hr2 hr3
          have : g = .tbw w := by rw [hgf] at hw; exact Option.some.inj hw
          subst this
          have := (demand_hits (mt := st.meter) (infl := st.inflight) hev hr1 hr2 hr3).1
          rw [hreq] at this; cases this
      | some hits =>
        obtain ⟨a1, a2, a3⟩ := GInv_addAcquiring q6 hits
        -- when the demand clause applies, this request asks for more than zero tokens
        have hpos : ∀ w, gfcOf st = some (.tbw w) → c.cnt.event = true →
            i32sub (i32sub w.reserve w.tokens) w.tokenInflight > 0 → w.tokenBatch ≥ 1 →
            (i32sub (i32sub w.reserve w.tokens) w.tokenInflight ≥ w.tokenBatch ∨
              now - w.lastAcquireTime ≥ batchAcquireMaxDuration) → reqPositive (some hits) = true := by
          intro w hw hev hr1 hr2 hr3
          have : g = .tbw w := by rw [hgf] at hw; exact Option.some.inj hw
          subst this
          obtain ⟨e1, e2⟩ := demand_hits (mt := st.meter) (infl := st.inflight) hev hr1 hr2 hr3
          rw [hreq] at e1
          have : hits = w.expectToken st.meter now := Option.some.inj e1
          simp [reqPositive, this, e2]
        cases ans with
        | none =>
          refine ⟨tickSent st c rm (g.addAcquiring hits) { c.cnt with event := false } now hits,
            by simp [step, hcache, hrm, q3, hreq], ?_, ?_⟩
          · apply inv_of_wrapper hi hcache hsch hrm q1 q2 q4 q5 (g' := g.addAcquiring hits)
              (cnt' := { c.cnt with event := false })
            · exact GInv_obAfter _ a1
            · rw [a3]; exact q7
            · rfl
            · rfl
            · rfl
            · rfl
            · rfl
            · simp [Mon.next, hsch]
            · simp [Mon.next, effective]
            · simp [Mon.next, effective]
            · simp [Mon.next, effective]
            · rfl
            · simp [Mon.next]
            · simp [Mon.next]
            · simp [Mon.next, leaderChange]
            · simp [Mon.next, leaderChange]
            · refine ⟨by simp [Mon.next], by simp [Mon.next, effective]; exact hi.cnt.contact0, ?_, ?_⟩
              · intro x hx
                have : x = { c with remote := some { rm with fc := some (g.addAcquiring hits) }, cnt := { c.cnt with event := false } } := by
                  simpa [tickSent] using hx.symm
                subst this
                simp [Mon.next, effective]; exact hi.cnt.contact c hcache
              · intro x hx he
                have : x = { c with remote := some { rm with fc := some (g.addAcquiring hits) }, cnt := { c.cnt with event := false } } := by
                  simpa [tickSent] using hx.symm
                subst this
                simp at he
            · refine flInv_cache (c' := { c with remote := some { rm with fc := some (g.addAcquiring hits) }, cnt := { c.cnt with event := false } })
                hi.fl hcache rfl rfl rfl rfl (by simp [hrm]) ?_ ?_ ?_ (by simp [Mon.next, hrb, hnb, stopsRemote])
              · intro r0 hr0
                have : r0 = { rm with fc := some (g.addAcquiring hits) } := by simpa using hr0.symm
                subst this
                simp only [Mon.next, effective, Bool.false_eq_true, if_false]
                exact hi.fl.applied c rm hcache hrm
              · intro w' hw'
                have hg' : g.addAcquiring hits = .tbw w' := by simpa [gfcOf, tickSent] using hw'
                cases g with
                | empty l => simp [GFC.addAcquiring] at hg'
                | miw w => simp [GFC.addAcquiring] at hg'
                | tbw w =>
                  have ho := hi.fl.owed w hgf
                  simp only [GFC.addAcquiring, GFC.tbw.injEq] at hg'
                  simp only [Mon.next, hrb, hnb, stopsRemote, Bool.or_self, Bool.false_eq_true, if_false, hpw, GFC.wkind,
                    if_true, observe_req, tickSent_lastReq, Option.isSome_none]
                  rw [← hg', ← ho]
              · intro hm; simp [Mon.next] at hm
          · simp only [exactTrans, exactTick, observe_req, tickSent_lastReq]
            rw [demand _ (by simpa [observe_req] using hpos)]
            simp
        | some a =>
          -- the answer goes through SetLimit
          have fin : ∀ (g' : GFC) (b : Bool),
              gfcSetLimit (g.addAcquiring hits) c.loc.config st.meter (tickReply a hits now) = .ok (g', b) →
              GInv g' ap (obAfter m.ob m.gs g'.unavail) → g'.inner.kind = K →
              (∀ w', g' = .tbw w' → ∃ w, g = .tbw w ∧
                w'.tokenInflight = i32add (i32add w.tokenInflight hits) (toI32 (-hits))) →
              (∀ o : Obs, o.rlim = some g'.inner → o.unavail = g'.unavail → o.req = some hits →
                exactSetLimit m (tickReply a hits now) o = []) →
              StepOK K cfg st m (.tick now (some a)) := by
            intro g' b hset hg' hk' htk hj
            have hgf' : gfcOf (tickSent st c rm g' { event := false, lastSync := unixS now } now hits) = some g' := by
              simp [gfcOf, tickSent]
            refine ⟨tickSent st c rm g' { event := false, lastSync := unixS now } now hits,
              by simp [step, hcache, hrm, q3, hreq, hset], ?_, ?_⟩
            · apply inv_of_wrapper hi hcache hsch hrm q1 q2 q4 q5 (g' := g')
                (cnt' := { event := false, lastSync := unixS now }) hg' hk'
              · rfl
              · rfl
              · rfl
              · rfl
              · rfl
              · simp [Mon.next, hsch]
              · simp [Mon.next, effective]
              · simp [Mon.next, effective]
              · simp [Mon.next, effective]
              · rfl
              · simp [Mon.next]
              · simp [Mon.next]
              · simp [Mon.next, leaderChange]
              · simp [Mon.next, leaderChange]
              · have h0 := hi.cnt.contact0
                refine ⟨by simp [Mon.next], ?_, ?_, ?_⟩
                · simp [Mon.next, effective, observe_req]; split <;> omega
                · intro x hx
                  have : x = { c with remote := some { rm with fc := some g' }, cnt := { event := false, lastSync := unixS now } } := by
                    simpa [tickSent] using hx.symm
                  subst this
                  simp [Mon.next, effective, observe_req]; split <;> omega
                · intro x hx he
                  have : x = { c with remote := some { rm with fc := some g' }, cnt := { event := false, lastSync := unixS now } } := by
                    simpa [tickSent] using hx.symm
                  subst this
                  simp at he
              · refine flInv_cache (c' := { c with remote := some { rm with fc := some g' }, cnt := { event := false, lastSync := unixS now } })
                  hi.fl hcache rfl rfl rfl rfl (by simp [hrm]) ?_ ?_ ?_ (by simp [Mon.next, hrb, hnb, stopsRemote])
                · intro r0 hr0
                  have : r0 = { rm with fc := some g' } := by simpa using hr0.symm
                  subst this
                  simp only [Mon.next, effective, Bool.false_eq_true, if_false]
                  exact hi.fl.applied c rm hcache hrm
                · intro w' hw'
                  rw [hgf'] at hw'
                  obtain ⟨w, hw, htk'⟩ := htk w' (Option.some.inj hw')
                  subst hw
                  have ho := hi.fl.owed w hgf
                  simp only [Mon.next, hrb, hnb, stopsRemote, Bool.or_self, Bool.false_eq_true, if_false, hpw, GFC.wkind,
                    if_true, observe_req, tickSent_lastReq, Option.isSome_some]
                  rw [htk', ho]
                · intro hm; simp [Mon.next] at hm
            · simp only [exactTrans, exactTick, observe_req, tickSent_lastReq, Option.isNone_some, Bool.false_eq_true,
                and_false, if_false, List.nil_append]
              rw [demand _ (by simpa [observe_req] using hpos)]
              simp only [List.append_nil]
              apply hj
              · rw [observe_rlim, hgf']; rfl
              · rw [observe_unavail, hgf']; rfl
              · rw [observe_req]; rfl
          cases g with
          | empty l => simp [requestOf] at hreq
          | miw w =>
            have hKm : K = .mi := by
              obtain ⟨A, sz, b1, b2, b3, b4, b5, _⟩ := q6
              rw [← q7]; simp [GFC.inner, b5, Lim.kind]
            subst hKm
            obtain ⟨w', e1, e2, e3, e4⟩ := miw_setLimit_inv h2 q6 q5 hi.gsOK st.meter.maxInflight (tickReply a hits now)
            obtain ⟨p1, p2, p3, p4, p5, p6⟩ := observe_miw (cfg := cfg) hgf
            apply fin (.miw w') false
            · simp [GFC.addAcquiring, gfcSetLimit, h1, e1, bind, Except.bind, pure, Except.pure]
            · exact e2
            · exact e3
            · intro w0 h; cases h
            · intro o o1 o2 _
              simp only [exactSetLimit, hprev, p1, if_true, p2, p3, p4, p5, p6, hsch, Option.bind_some, hi.meter, o1, o2]
              exact e4
          | tbw w =>
            have hKt : K = .tb := by
              obtain ⟨t, q, u, b1, b2, b3, b4, b5, _⟩ := q6
              rw [← q7]; simp [GFC.inner, b5, Lim.kind]
            subst hKt
            obtain ⟨w', b, e1, e2, e3, e4⟩ := tbw_setLimit_inv h2 a1 q5 hi.gsOK st.meter hi.meterOK (tickReply a hits now)
            obtain ⟨p1, p2, p3, p4, p5⟩ := observe_tbw (cfg := cfg) hgf
            apply fin (.tbw w') b
            · simp only [GFC.addAcquiring] at e1 ⊢
              simp [gfcSetLimit, h1, e1, bind, Except.bind, pure, Except.pure]
            · exact e2
            · exact e3
            · intro w0 h
              have : w0 = w' := by cases h; rfl
              subst this
              refine ⟨w, rfl, ?_⟩
              rw [tbw_setLimit_tokenInflight e1]
              simp [TBW.noteRequest, tickReply]
            · intro o o1 o2 _
              simp only [exactSetLimit, hprev, p1, p2, p3, p4, p5, hsch, Option.bind_some, hi.meter, o1, o2]
              exact e4

/-! ## requests: acquire and release -/

theorem observe_admitted (cfg : Cfg) (st : State) : (observe cfg st).admitted = st.lastAdmit := by
  simp only [observe]
  cases h : (st.cache.bind fun c => c.remote.bind (·.fc)) with
  | none => rfl
  | some g => cases g <;> rfl

theorem flagOf_congr' {c c' : Cache} (h : Handle) (h1 : c'.fl.remOuter = c.fl.remOuter)
    (h2 : c'.fl.remInner = c.fl.remInner) (hr : c'.remote.isSome = c.remote.isSome) : flagOf c' h = flagOf c h := by
  simp [flagOf, h1, h2, hr]

theorem heldOf_congr' {c c' : Cache} (hs : List Handle) (h1 : c'.fl.remOuter = c.fl.remOuter)
    (h2 : c'.fl.remInner = c.fl.remInner) (hr : c'.remote.isSome = c.remote.isSome) :
    heldOf (some c') hs = heldOf (some c) hs := by
  simp only [heldOf]
  apply List.map_congr_left
  intro h _
  rw [flagOf_congr' h h1 h2 hr]

theorem countP_flagOf_congr' {c c' : Cache} (hs : List Handle) (h1 : c'.fl.remOuter = c.fl.remOuter)
    (h2 : c'.fl.remInner = c.fl.remInner) (hr : c'.remote.isSome = c.remote.isSome) :
    hs.countP (flagOf c') = hs.countP (flagOf c) := by
  apply List.countP_congr
  intro h _
  rw [flagOf_congr' h h1 h2 hr]

theorem filter_id_self {hs : List Handle} {id : Nat} (h : id ∉ hs.map (·.id)) :
    hs.filter (fun x => !(x.id == id)) = hs := by
  apply List.filter_eq_self.2
  intro a ha
  have : a.id ≠ id := fun e => h (e ▸ List.mem_map.2 ⟨a, ha, rfl⟩)
  simp [this]

theorem find_none_notin {hs : List Handle} {id : Nat} (h : hs.find? (·.id == id) = none) : id ∉ hs.map (·.id) := by
  intro hm
  obtain ⟨a, ha, e⟩ := List.mem_map.1 hm
  have := List.find?_eq_none.1 h a ha
  simp [e] at this

theorem any_false_notin {hs : List Handle} {id : Nat} (h : hs.any (·.id == id) = false) : id ∉ hs.map (·.id) := by
  intro hm
  obtain ⟨a, ha, e⟩ := List.mem_map.1 hm
  have : hs.any (·.id == id) = true := List.any_eq_true.2 ⟨a, ha, by simp [e]⟩
  rw [h] at this; cases this

/-- finishing the request `id` removes exactly its handle: the flagged ones drop by one iff it was flagged -/
theorem countP_filter_id {p : Handle → Bool} {hs : List Handle} {h : Handle} {id : Nat}
    (hn : (hs.map (·.id)).Nodup) (hfind : hs.find? (·.id == id) = some h) :
    ((hs.filter fun x => !(x.id == id)).countP p : Int) = (hs.countP p : Int) - (if p h then 1 else 0) := by
  induction hs with
  | nil => simp at hfind
  | cons a t ih =>
    simp only [List.map_cons, List.nodup_cons] at hn
    by_cases ha : a.id = id
    · have hah : a = h := by simpa [List.find?_cons, ha] using hfind
      subst hah
      have hni : id ∉ t.map (·.id) := ha ▸ hn.1
      rw [List.filter_cons]
      simp only [ha, beq_self_eq_true, Bool.not_true, Bool.false_eq_true, if_false]
      rw [filter_id_self hni, List.countP_cons]
      cases p a <;> simp <;> omega
    · have hne : (a.id == id) = false := by simp [ha]
      have hf' : t.find? (·.id == id) = some h := by simpa [List.find?_cons, hne] using hfind
      rw [List.filter_cons]
      simp only [hne, Bool.not_false, if_true]
      rw [List.countP_cons, List.countP_cons, Int.natCast_add, Int.natCast_add, ih hn.2 hf']
      omega

theorem find_mem {hs : List Handle} {h : Handle} {id : Nat} (hfind : hs.find? (·.id == id) = some h) :
    h ∈ hs ∧ h.id = id := by
  refine ⟨List.mem_of_find?_eq_some hfind, ?_⟩
  have := List.find?_some hfind
  simpa using this

/-- an operation that leaves the limiters alone and changes at most the counter's event flag and the in-flight side -/
theorem inv_of_side {K : Kind} {cfg : Cfg} {st st' : State} {m m' : Mon}
    (hi : Inv K cfg st m)
    (hcase : st'.cache = st.cache ∨ ∃ c c', st.cache = some c ∧ st'.cache = some c' ∧ c'.loc = c.loc ∧
      c'.remote = c.remote ∧ c'.cnt.lastSync = c.cnt.lastSync)
    (e_schema : m'.schema = m.schema) (e_synced : m'.synced = m.synced)
    (e_gs : m'.gs = m.gs) (e_ob : m'.ob = if (observe cfg st').unavail then m.ob.sup m.gs else m.gs)
    (e_prev : m'.prev = observe cfg st') (e_meter : m'.meter = st'.meter) (hmok : 0 < st'.meter.rateDen)
    (e_sh : m'.shards = st'.shardCount) (e_hb : HBInv st'.hb m'.hist) (e_leader : m'.leader = st'.leader)
    (e_clock : m'.clock = st'.clock) (e_contact : m'.contact = m.contact) (e_may : m'.mayEvent = true)
    (e_fl : FlInv cfg st' m') : Inv K cfg st' m' := by
  have hg : gfcOf st' = gfcOf st := by
    rcases hcase with h | ⟨c, c', h1, h2, _, h4, _⟩
    · exact gfcOf_cache h
    · simp [gfcOf, h1, h2, h4]
  have hun : (observe cfg st').unavail = (observe cfg st).unavail := by
    rw [observe_unavail, observe_unavail, hg]
  have hob : m'.ob = m.ob := by
    rw [e_ob, hun]
    cases hu : (observe cfg st).unavail with
    | true => simp only [if_true]; exact sup_eq_left hi.gsob
    | false => simp only [Bool.false_eq_true, if_false]; exact (hi.obgs hu).symm
  refine ⟨e_meter, hmok, e_sh, e_hb, e_prev, by rw [e_gs]; exact hi.gsOK, by rw [e_gs, hob]; exact hi.gsob, ?_, ?_,
    e_leader, ?_, e_fl⟩
  · intro hu
    rw [hob, e_gs]
    exact hi.obgs (by rw [← hun]; exact hu)
  · rcases hcase with h | ⟨c, c', h1, h2, h3, h4, _⟩
    · rw [h]; exact CInv_congr hi.cache e_schema e_synced e_gs hob
    · have h := hi.cache
      rw [h1] at h
      rw [h2]
      unfold CInv at *
      rw [e_schema, e_synced, e_gs, hob]
      cases hs : m.schema with
      | none => rw [hs] at h; exact h.elim
      | some s =>
        rw [hs] at h
        show c'.loc.config = s ∧ VS K s ∧ c'.loc.fc = some (limOf s) ∧ m.synced = c'.remote.isSome ∧
          ∀ r, c'.remote = some r → RInv K r m.gs m.ob
        rw [h3, h4]; exact h
  · refine ⟨e_clock, by rw [e_contact]; exact hi.cnt.contact0, ?_, fun _ _ _ => e_may⟩
    intro x hx
    rw [e_contact]
    rcases hcase with h | ⟨c, c', h1, h2, _, _, h5⟩
    · exact hi.cnt.contact x (by rw [← h]; exact hx)
    · have : x = c' := by rw [h2] at hx; exact (Option.some.inj hx).symm
      subst this
      rw [h5]; exact hi.cnt.contact c h1

/-- the shared part of the two request operations -/
theorem stepOK_request {K : Kind} {cfg : Cfg} {st : State} {m : Mon} {op : Op}
    (hop : (∃ id, op = .acquire id) ∨ (∃ id, op = .release id)) (hi : Inv K cfg st m) (st' : State)
    (hs : step st op = .ok st')
    (hm : st'.meter = st.meter) (hsh : st'.shardCount = st.shardCount) (hhb : st'.hb = st.hb)
    (hl : st'.leader = st.leader) (hck : st'.clock = st.clock)
    (hcase : st'.cache = st.cache ∨ ∃ c c', st.cache = some c ∧ st'.cache = some c' ∧ c'.loc = c.loc ∧
      c'.remote = c.remote ∧ c'.cnt.lastSync = c.cnt.lastSync)
    (hfl : FlInv cfg st' (m.next op (observe cfg st')))
    (hj : exactTrans m op (observe cfg st') = []) : StepOK K cfg st m op := by
  refine ⟨st', hs, ?_, hj⟩
  apply inv_of_side hi hcase
  · rcases hop with ⟨id, rfl⟩ | ⟨id, rfl⟩ <;> simp [Mon.next]
  · rcases hop with ⟨id, rfl⟩ | ⟨id, rfl⟩ <;> simp [Mon.next, effective]
  · rcases hop with ⟨id, rfl⟩ | ⟨id, rfl⟩ <;> simp [Mon.next, effective]
  · rcases hop with ⟨id, rfl⟩ | ⟨id, rfl⟩ <;> simp [Mon.next, effective]
  · rfl
  · rcases hop with ⟨id, rfl⟩ | ⟨id, rfl⟩ <;> simp [Mon.next, hm] <;> exact hi.meter
  · rw [hm]; exact hi.meterOK
  · rcases hop with ⟨id, rfl⟩ | ⟨id, rfl⟩ <;> simp [Mon.next, hsh] <;> exact hi.shards
  · rcases hop with ⟨id, rfl⟩ | ⟨id, rfl⟩ <;> simp [Mon.next, leaderChange, hhb] <;> exact hi.hb
  · rcases hop with ⟨id, rfl⟩ | ⟨id, rfl⟩ <;> simp [Mon.next, leaderChange, hl] <;> exact hi.leader
  · rcases hop with ⟨id, rfl⟩ | ⟨id, rfl⟩ <;> simp [Mon.next, hck] <;> exact hi.cnt.clock
  · rcases hop with ⟨id, rfl⟩ | ⟨id, rfl⟩ <;> simp [Mon.next, effective]
  · rcases hop with ⟨id, rfl⟩ | ⟨id, rfl⟩ <;> simp [Mon.next]
  · exact hfl

/-- a new handle while a schema is cached -/
theorem flInv_push {cfg : Cfg} {st st' : State} {m m' : Mon} {c c' : Cache} {h : Handle} (hf : FlInv cfg st m)
    (hc : st.cache = some c) (hc' : st'.cache = some c') (hh : st'.handles = h :: st.handles)
    (hid : st.handles.any (·.id == h.id) = false) (hv : st'.cfgv = st.cfgv)
    (hrem : c'.remote = c.remote) (ho : c'.fl.remOuter = c.fl.remOuter) (hn : c'.fl.remInner = c.fl.remInner)
    (hcount : c'.fl.remCount = c.fl.remCount + (if flagOf c h then 1 else 0))
    (hgen : h.side = .rem → h.gen = c.fl.remOuter ∧ h.inner = c.fl.remInner)
    (hev : c.cnt.event = true → c'.cnt.event = true)
    (e1 : m'.applied = m.applied) (e2 : m'.owed = m.owed) (e3 : m'.mustEvent = m.mustEvent)
    (e4 : m'.held = (h.id, flagOf c h) :: m.held) : FlInv cfg st' m' := by
  have hrs : c'.remote.isSome = c.remote.isSome := by rw [hrem]
  have hg : gfcOf st' = gfcOf st := by simp [gfcOf, hc, hc', hrem]
  refine ⟨by rw [hv]; exact hf.cfgv, ?_, ?_, ?_, ?_, ?_, ?_, ?_, ?_⟩
  · intro x r a b
    have : x = c' := by rw [hc'] at a; exact (Option.some.inj a).symm
    subst this
    rw [e1]; exact hf.applied c r hc (by rw [← hrem]; exact b)
  · intro w a; rw [e2]; exact hf.owed w (by rw [← hg]; exact a)
  · intro a
    rw [e3] at a
    obtain ⟨c0, g, k1, k2, k3, k4⟩ := hf.must a
    have : c0 = c := by rw [hc] at k1; exact (Option.some.inj k1).symm
    subst this
    exact ⟨c', g, hc', by rw [hg]; exact k2, k3, hev k4⟩
  · rw [e4, hf.held, hc, hc', hh]
    show _ = (h.id, flagOf c' h) :: heldOf (some c') st.handles
    rw [flagOf_congr' h ho hn hrs, heldOf_congr' _ ho hn hrs]
  · rw [hh, List.map_cons, List.nodup_cons]
    exact ⟨any_false_notin hid, hf.nodup⟩
  · intro x a
    have : x = c' := by rw [hc'] at a; exact (Option.some.inj a).symm
    subst this
    rw [hh, ho, hn]
    intro h0 hm hs
    rcases List.mem_cons.1 hm with e | hm
    · subst e
      obtain ⟨g1, g2⟩ := hgen hs
      exact ⟨Nat.le_of_eq g1, Nat.le_of_eq g2⟩
    · exact hf.gens c hc h0 hm hs
  · intro a; rw [hc'] at a; cases a
  · intro x b
    have : x = c' := by rw [hc'] at b; exact (Option.some.inj b).symm
    subst this
    obtain ⟨k1, k2⟩ := hf.cur c hc
    refine ⟨?_, ?_⟩
    · intro hsome
      rw [hh, List.countP_cons, countP_flagOf_congr' _ ho hn hrs, flagOf_congr' h ho hn hrs, hcount, k1 (by rw [← hrs]; exact hsome)]
      cases flagOf c h <;> simp
    · rw [hh, ho, hn, hrs]
      intro h0 hm hs hgn hsm
      rcases List.mem_cons.1 hm with e | hm
      · subst e; exact (hgen hs).2
      · exact k2 h0 hm hs hgn hsm

/-- a new handle on the system default limiter: nothing is cached -/
theorem flInv_push_none {cfg : Cfg} {st st' : State} {m m' : Mon} {h : Handle} (hf : FlInv cfg st m)
    (hc : st.cache = none) (hc' : st'.cache = none) (hh : st'.handles = h :: st.handles)
    (hid : st.handles.any (·.id == h.id) = false) (hv : st'.cfgv = st.cfgv) (hside : h.side = .dflt)
    (e3 : m'.mustEvent = m.mustEvent)
    (e4 : m'.held = (h.id, false) :: m.held) : FlInv cfg st' m' := by
  have hg : gfcOf st' = none := by simp [gfcOf, hc']
  refine ⟨by rw [hv]; exact hf.cfgv, ?_, ?_, ?_, ?_, ?_, ?_, ?_, ?_⟩
  · intro x r a; rw [hc'] at a; cases a
  · intro w a; rw [hg] at a; cases a
  · intro a
    rw [e3] at a
    obtain ⟨c0, g, k1, _⟩ := hf.must a
    rw [hc] at k1; cases k1
  · rw [e4, hf.held, hc, hc', hh]; rfl
  · rw [hh, List.map_cons, List.nodup_cons]
    exact ⟨any_false_notin hid, hf.nodup⟩
  · intro x a; rw [hc'] at a; cases a
  · intro _ h0 hm
    rw [hh] at hm
    rcases List.mem_cons.1 hm with e | hm
    · subst e; exact hside
    · exact hf.nocache hc h0 hm
  · intro x b; rw [hc'] at b; cases b

theorem load_none {cfg : Cfg} {st : State} (h : st.cache = none) : load cfg st = .dflt := by simp [load, h]

theorem load_some {cfg : Cfg} {st : State} {c : Cache} (h : st.cache = some c) : load cfg st ≠ .dflt := by
  simp only [load, h]
  cases cfg.rateLimiter <;> simp
  repeat' split
  all_goals simp

theorem load_remote {cfg : Cfg} {st : State} {c : Cache} (h : st.cache = some c) (hl : load cfg st = .remote) :
    c.remote.isSome = true := by
  cases hs : c.remote.isSome with
  | true => rfl
  | false =>
    exfalso
    revert hl
    simp only [load, h, hs]
    cases cfg.rateLimiter <;> simp

theorem step_acquire {K : Kind} {cfg : Cfg} {st : State} {m : Mon} (hi : Inv K cfg st m) (id : Nat) :
    StepOK K cfg st m (.acquire id) := by
  have hprev := hi.prev
  have hrb : rebuilds m (.acquire id) = false := by simp [rebuilds, effective]
  have hnb : newBucket m (.acquire id) = false := by simp [newBucket, hrb]
  have hsr : stopsRemote m (.acquire id) = false := rfl
  have hany : m.held.any (·.1 == id) = st.handles.any (·.id == id) := by rw [hi.fl.held, heldOf_any]
  have hch : m.prev.choice = load cfg st := by rw [hprev, observe_choice]
  have hcv := hi.fl.cfgv
  have hop : (∃ i, Op.acquire id = .acquire i) ∨ (∃ i, Op.acquire id = .release i) := Or.inl ⟨id, rfl⟩
  -- nothing but the reported result changes, and a new admission is not reported
  have frame : ∀ la : Option Bool, (la = some true → st.handles.any (·.id == id) = true) →
      acquireStep st id = { st with lastAdmit := la } → StepOK K cfg st m (.acquire id) := by
    intro la hla hs
    have hnot : ¬ (la = some true ∧ (!(m.held.any (·.1 == id))) = true) := by
      intro ⟨a, b⟩; rw [hany, hla a] at b; cases b
    apply stepOK_request hop hi { st with lastAdmit := la } (by simp [step, hs]) rfl rfl rfl rfl rfl (Or.inl rfl)
    · apply flInv_frame hi.fl
      · rfl
      · rfl
      · rfl
      · simp [Mon.next, effective]
      · simp [Mon.next, hrb, hnb, hsr]
      · simp [Mon.next, hrb, hnb, hsr]
      · simp only [Mon.next, hrb, hnb, hsr, Bool.or_self, Bool.false_eq_true, if_false, observe_admitted]
        rw [if_neg hnot]
    · simp only [exactTrans, judgeAcquire, observe_admitted]
      rw [if_neg]
      intro h; exact hnot ⟨h.1, h.2.1⟩
  cases hheld : st.handles.any (·.id == id) with
  | true => exact frame st.lastAdmit (fun _ => hheld) (by simp [acquireStep, hheld])
  | false =>
  have hnh : (!(m.held.any (·.1 == id))) = true := by rw [hany, hheld]; rfl
  cases hcache : st.cache with
  | none =>
    have hld : load cfg st = .dflt := load_none hcache
    apply stepOK_request hop hi
      { st with lastAdmit := some true, handles := { id := id, side := .dflt, gen := 0 } :: st.handles }
      (by simp [step, acquireStep, hheld, hcv, hld, hcache]) rfl rfl rfl rfl rfl (Or.inl rfl)
    · apply flInv_push_none (h := { id := id, side := .dflt, gen := 0 }) hi.fl hcache
      · exact hcache
      · rfl
      · exact hheld
      · rfl
      · rfl
      · simp [Mon.next, hrb, hnb, hsr]
      · simp only [Mon.next, hrb, hnb, hsr, Bool.or_self, Bool.false_eq_true, if_false, observe_admitted, hnh, and_self,
          if_true, hch, hld]
        rfl
    · simp only [exactTrans, judgeAcquire, hch, hld]
      rw [if_neg]
      intro h; exact absurd h.2.2.1 (by decide)
  | some c =>
  have hcc := hi.cache
  unfold CInv at hcc
  cases hsch : m.schema with
  | none => rw [hcache, hsch] at hcc; exact hcc.elim
  | some s =>
  rw [hcache, hsch] at hcc
  obtain ⟨h1, h2, h3, h4, h5⟩ := hcc
  have hnd := load_some (cfg := cfg) hcache
  cases hld : load cfg st with
  | dflt => exact absurd hld hnd
  | loc =>
    cases hadm : (limOf s).admits c.fl.locCount with
    | false =>
      exact frame (some false) (fun h => by cases h) (by simp [acquireStep, hheld, hcv, hld, hcache, h3, hadm])
    | true =>
      apply stepOK_request hop hi
        { st with lastAdmit := some true, inflight := st.inflight + 1,
                  handles := { id := id, side := .loc, gen := c.fl.locGen } :: st.handles,
                  cache := some { c with fl := { c.fl with locCount := c.fl.locCount + 1 } } }
        (by simp [step, acquireStep, hheld, hcv, hld, hcache, h3, hadm]) rfl rfl rfl rfl rfl
        (Or.inr ⟨c, _, hcache, rfl, rfl, rfl, rfl⟩)
      · have hflag : flagOf c { id := id, side := .loc, gen := c.fl.locGen } = false := by simp [flagOf]
        apply flInv_push (h := { id := id, side := .loc, gen := c.fl.locGen }) hi.fl hcache
        · rfl
        · rfl
        · exact hheld
        · rfl
        · rfl
        · rfl
        · rfl
        · rw [hflag]; simp
        · intro h; cases h
        · exact fun h => h
        · simp [Mon.next, effective]
        · simp [Mon.next, hrb, hnb, hsr]
        · simp [Mon.next, hrb, hnb, hsr]
        · simp only [Mon.next, hrb, hnb, hsr, Bool.or_self, Bool.false_eq_true, if_false, observe_admitted, hnh, and_self,
            if_true, hch, hld, hflag]
          rfl
      · simp only [exactTrans, judgeAcquire, hch, hld]
        rw [if_neg]
        intro h; exact absurd h.2.2.1 (by decide)
  | remote =>
    have hsome := load_remote hcache hld
    cases hrm : c.remote with
    | none => rw [hrm] at hsome; cases hsome
    | some rm =>
    obtain ⟨i, ap, g, q1, q2, q3, q4, q5, q6, q7⟩ := h5 rm hrm
    have hgf : gfcOf st = some g := by simp [gfcOf, hcache, hrm, q3]
    have hbind : c.remote.bind (·.fc) = some g := by simp [hrm, q3]
    obtain ⟨ev, hev⟩ : ∃ ev : Bool, ev = g.acquireEvent st.inflight := ⟨_, rfl⟩
    obtain ⟨cnt', hcnt'⟩ : ∃ cnt' : Counter, cnt' = if ev then { c.cnt with event := true } else c.cnt := ⟨_, rfl⟩
    have hcl : cnt'.lastSync = c.cnt.lastSync := by rw [hcnt']; split <;> rfl
    have hce : c.cnt.event = true → cnt'.event = true := by rw [hcnt']; intro h; split <;> simp [h]
    cases hadm : g.inner.admits c.fl.remCount with
    | false =>
      apply stepOK_request hop hi { st with lastAdmit := some false, cache := some { c with cnt := cnt' } }
        (by
          subst hcnt' hev
          simp only [step, acquireStep, hheld, Bool.false_eq_true, if_false, hcv, hld, hcache, hbind, hadm, if_true]) rfl rfl rfl rfl rfl
        (Or.inr ⟨c, _, hcache, rfl, rfl, rfl, hcl⟩)
      · refine flInv_cache (c' := { c with cnt := cnt' }) hi.fl hcache rfl rfl rfl rfl rfl ?_ ?_ ?_ ?_
        · intro r hr; simp only [Mon.next, effective, Bool.false_eq_true, if_false]; exact hi.fl.applied c r hcache hr
        · intro w hw
          have hw' : gfcOf st = some (.tbw w) := by simpa [gfcOf, hcache] using hw
          have := hi.fl.owed w hw'
          simp only [Mon.next, hrb, hnb, hsr, Bool.or_self, Bool.false_eq_true, if_false]
          split <;> exact this
        · intro hm
          have hm' : m.mustEvent = true := by simpa [Mon.next, hrb, hnb, hsr] using hm
          obtain ⟨c0, g0, k1, k2, k3, k4⟩ := hi.fl.must hm'
          have : c0 = c := by rw [hcache] at k1; exact (Option.some.inj k1).symm
          subst this
          exact ⟨g0, by simpa [gfcOf, hcache] using k2, k3, hce k4⟩
        · simp only [Mon.next, hrb, hnb, hsr, Bool.or_self, Bool.false_eq_true, if_false, observe_admitted]
          rw [if_neg]; intro h; cases h.1
      · simp only [exactTrans, judgeAcquire, observe_admitted]
        rw [if_neg]; intro h; cases h.1
    | true =>
      have hflag : flagOf c { id := id, side := .rem, gen := c.fl.remOuter, inner := c.fl.remInner } = true := by
        simp [flagOf, hrm]
      apply stepOK_request hop hi
        { st with lastAdmit := some true, inflight := st.inflight + 1,
                  handles := { id := id, side := .rem, gen := c.fl.remOuter, inner := c.fl.remInner } :: st.handles,
                  cache := some { c with cnt := cnt', fl := { c.fl with remCount := c.fl.remCount + 1 } } }
        (by
          subst hcnt' hev
          simp only [step, acquireStep, hheld, Bool.false_eq_true, if_false, hcv, hld, hcache, hbind, hadm, if_true]) rfl rfl rfl rfl rfl
        (Or.inr ⟨c, _, hcache, rfl, rfl, rfl, hcl⟩)
      · apply flInv_push (h := { id := id, side := .rem, gen := c.fl.remOuter, inner := c.fl.remInner }) hi.fl hcache
        · rfl
        · rfl
        · exact hheld
        · rfl
        · rfl
        · rfl
        · rfl
        · rw [hflag]; simp
        · intro _; exact ⟨rfl, rfl⟩
        · exact hce
        · simp [Mon.next, effective]
        · simp [Mon.next, hrb, hnb, hsr]
        · simp [Mon.next, hrb, hnb, hsr]
        · simp only [Mon.next, hrb, hnb, hsr, Bool.or_self, Bool.false_eq_true, if_false, observe_admitted, hnh, and_self,
            if_true, hch, hld, hflag]
          rfl
      · -- the in-flight clause: the bucket's count is the number of flagged handles, its size within the bound
        simp only [exactTrans, judgeAcquire]
        rw [if_neg]
        intro ⟨_, _, _, hmi, hbad⟩
        apply hbad
        have hob : g.unavail = false → m.ob = m.gs := by
          intro hu
          apply hi.obgs
          rw [observe_unavail, hgf]; simpa using hu
        have hleb := GInv_leb q6 q5 q4 (VS_kind h2) hob
        have hrl : m.prev.rlim = some g.inner := by rw [hprev, observe_rlim, hgf]; rfl
        rw [hrl] at hmi
        obtain ⟨k1, _⟩ := hi.fl.cur c hcache
        rw [hi.fl.held, hcache, heldOf_countP, ← k1 (by simp [hrm])]
        cases hin : g.inner with
        | exempt x => rw [hin] at hmi; simp [isMI] at hmi
        | tb q u => rw [hin] at hmi; simp [isMI] at hmi
        | mi size =>
          rw [hin] at hleb hadm
          simp [Lim.leb] at hleb
          simp [Lim.admits] at hadm
          omega

/-- a handle goes away while a schema is cached -/
theorem flInv_pop {cfg : Cfg} {st st' : State} {m m' : Mon} {c c' : Cache} {h : Handle} {id : Nat}
    (hf : FlInv cfg st m) (hc : st.cache = some c) (hc' : st'.cache = some c')
    (hfind : st.handles.find? (·.id == id) = some h)
    (hh : st'.handles = st.handles.filter (fun x => !(x.id == id))) (hv : st'.cfgv = st.cfgv)
    (hrem : c'.remote = c.remote) (ho : c'.fl.remOuter = c.fl.remOuter) (hn : c'.fl.remInner = c.fl.remInner)
    (hcount : c'.fl.remCount = c.fl.remCount - (if flagOf c h then 1 else 0))
    (hev : c.cnt.event = true → c'.cnt.event = true)
    (e1 : m'.applied = m.applied) (e2 : m'.owed = m.owed) (e3 : m'.mustEvent = m.mustEvent)
    (e4 : m'.held = m.held.filter (fun x => !(x.1 == id))) : FlInv cfg st' m' := by
  have hrs : c'.remote.isSome = c.remote.isSome := by rw [hrem]
  have hg : gfcOf st' = gfcOf st := by simp [gfcOf, hc, hc', hrem]
  have hsub : ∀ x, x ∈ st'.handles → x ∈ st.handles := by
    intro x hx; rw [hh] at hx; exact (List.mem_filter.1 hx).1
  refine ⟨by rw [hv]; exact hf.cfgv, ?_, ?_, ?_, ?_, ?_, ?_, ?_, ?_⟩
  · intro x r a b
    have : x = c' := by rw [hc'] at a; exact (Option.some.inj a).symm
    subst this
    rw [e1]; exact hf.applied c r hc (by rw [← hrem]; exact b)
  · intro w a; rw [e2]; exact hf.owed w (by rw [← hg]; exact a)
  · intro a
    rw [e3] at a
    obtain ⟨c0, g, k1, k2, k3, k4⟩ := hf.must a
    have : c0 = c := by rw [hc] at k1; exact (Option.some.inj k1).symm
    subst this
    exact ⟨c', g, hc', by rw [hg]; exact k2, k3, hev k4⟩
  · rw [e4, hf.held, hc, heldOf_filter, hc', hh, heldOf_congr' _ ho hn hrs]
  · rw [hh]
    exact ((List.filter_sublist).map _).nodup hf.nodup
  · intro x a
    have : x = c' := by rw [hc'] at a; exact (Option.some.inj a).symm
    subst this
    rw [ho, hn]
    intro h0 hm hs
    exact hf.gens c hc h0 (hsub h0 hm) hs
  · intro a; rw [hc'] at a; cases a
  · intro x b
    have : x = c' := by rw [hc'] at b; exact (Option.some.inj b).symm
    subst this
    obtain ⟨k1, k2⟩ := hf.cur c hc
    refine ⟨?_, ?_⟩
    · intro hsome
      rw [hh, countP_flagOf_congr' _ ho hn hrs, countP_filter_id hf.nodup hfind, hcount, k1 (by rw [← hrs]; exact hsome)]
    · rw [ho, hn, hrs]
      intro h0 hm hs hgn hsm
      exact k2 h0 (hsub h0 hm) hs hgn hsm

/-- a handle goes away while nothing is cached -/
theorem flInv_pop_none {cfg : Cfg} {st st' : State} {m m' : Mon} {id : Nat}
    (hf : FlInv cfg st m) (hc : st.cache = none) (hc' : st'.cache = none)
    (hh : st'.handles = st.handles.filter (fun x => !(x.id == id))) (hv : st'.cfgv = st.cfgv)
    (e3 : m'.mustEvent = m.mustEvent)
    (e4 : m'.held = m.held.filter (fun x => !(x.1 == id))) : FlInv cfg st' m' := by
  have hg : gfcOf st' = none := by simp [gfcOf, hc']
  refine ⟨by rw [hv]; exact hf.cfgv, ?_, ?_, ?_, ?_, ?_, ?_, ?_, ?_⟩
  · intro x r a; rw [hc'] at a; cases a
  · intro w a; rw [hg] at a; cases a
  · intro a
    rw [e3] at a
    obtain ⟨c0, g, k1, _⟩ := hf.must a
    rw [hc] at k1; cases k1
  · rw [e4, hf.held, hc, heldOf_filter, hc', hh]
  · rw [hh]
    exact ((List.filter_sublist).map _).nodup hf.nodup
  · intro x a; rw [hc'] at a; cases a
  · intro _ h0 hm
    rw [hh] at hm
    exact hf.nocache hc h0 (List.mem_filter.1 hm).1
  · intro x b; rw [hc'] at b; cases b

theorem step_release {K : Kind} {cfg : Cfg} {st : State} {m : Mon} (hi : Inv K cfg st m) (id : Nat) :
    StepOK K cfg st m (.release id) := by
  have hrb : rebuilds m (.release id) = false := by simp [rebuilds, effective]
  have hnb : newBucket m (.release id) = false := by simp [newBucket, hrb]
  have hsr : stopsRemote m (.release id) = false := rfl
  have hop : (∃ i, Op.release id = .acquire i) ∨ (∃ i, Op.release id = .release i) := Or.inr ⟨id, rfl⟩
  cases hfind : st.handles.find? (·.id == id) with
  | none =>
    -- no such request: nothing happens
    apply stepOK_request hop hi st (by simp [step, releaseStep, hfind]) rfl rfl rfl rfl rfl (Or.inl rfl)
    · apply flInv_frame hi.fl
      · rfl
      · rfl
      · rfl
      · simp [Mon.next, effective]
      · simp [Mon.next, hrb, hnb, hsr]
      · simp [Mon.next, hrb, hnb, hsr]
      · simp only [Mon.next, hrb, hnb, hsr, Bool.or_self, Bool.false_eq_true, if_false]
        rw [hi.fl.held, heldOf_filter, filter_id_self (find_none_notin hfind)]
    · rfl
  | some h =>
  obtain ⟨hmem, _⟩ := find_mem hfind
  cases hcache : st.cache with
  | none =>
    have fin0 : ∀ infl : Int,
        releaseStep st id = { st with handles := st.handles.filter (fun x => !(x.id == id)), inflight := infl } →
        StepOK K cfg st m (.release id) := by
      intro infl hs
      apply stepOK_request hop hi { st with handles := st.handles.filter (fun x => !(x.id == id)), inflight := infl }
        (by simp only [step, hs]) rfl rfl rfl rfl rfl (Or.inl rfl)
      · apply flInv_pop_none (id := id) hi.fl hcache
        · exact hcache
        · rfl
        · rfl
        · simp [Mon.next, hrb, hnb, hsr]
        · simp only [Mon.next, hrb, hnb, hsr, Bool.or_self, Bool.false_eq_true, if_false]
      · rfl
    cases hside : h.side with
    | dflt => exact fin0 st.inflight (by simp [releaseStep, hfind, hside])
    | loc => exact fin0 (st.inflight - 1) (by simp [releaseStep, hfind, hside, hcache])
    | rem => exact fin0 (st.inflight - 1) (by simp [releaseStep, hfind, hside, hcache])
  | some c =>
    have fin1 : ∀ (c' : Cache) (infl : Int),
        releaseStep st id = { st with handles := st.handles.filter (fun x => !(x.id == id)), inflight := infl,
                                      cache := some c' } →
        c'.loc = c.loc → c'.remote = c.remote → c'.cnt.lastSync = c.cnt.lastSync →
        (c.cnt.event = true → c'.cnt.event = true) →
        c'.fl.remOuter = c.fl.remOuter → c'.fl.remInner = c.fl.remInner →
        (c'.fl.remCount = c.fl.remCount - (if flagOf c h then 1 else 0)) →
        StepOK K cfg st m (.release id) := by
      intro c' infl hs hloc hrem hls hev ho hn hcount
      apply stepOK_request hop hi
        { st with handles := st.handles.filter (fun x => !(x.id == id)), inflight := infl, cache := some c' }
        (by simp only [step, hs]) rfl rfl rfl rfl rfl (Or.inr ⟨c, c', hcache, rfl, hloc, hrem, hls⟩)
      · apply flInv_pop (id := id) (h := h) hi.fl hcache
        · rfl
        · exact hfind
        · rfl
        · rfl
        · exact hrem
        · exact ho
        · exact hn
        · exact hcount
        · exact hev
        · simp [Mon.next, effective]
        · simp [Mon.next, hrb, hnb, hsr]
        · simp [Mon.next, hrb, hnb, hsr]
        · simp only [Mon.next, hrb, hnb, hsr, Bool.or_self, Bool.false_eq_true, if_false]
      · rfl
    cases hside : h.side with
    | dflt =>
      have hflag : flagOf c h = false := by simp [flagOf, hside]
      exact fin1 c st.inflight (by simp [releaseStep, hfind, hside, hcache]) rfl rfl rfl (fun x => x) rfl rfl
        (by rw [hflag]; simp)
    | loc =>
      have hflag : flagOf c h = false := by simp [flagOf, hside]
      by_cases hg : h.gen = c.fl.locGen
      · exact fin1 { c with fl := { c.fl with locCount := decCount c.fl.locCount } } (st.inflight - 1)
          (by simp [releaseStep, hfind, hside, hcache, hg]) rfl rfl rfl (fun x => x) rfl rfl
          (by rw [hflag]; simp)
      · exact fin1 c (st.inflight - 1) (by simp [releaseStep, hfind, hside, hcache, hg]) rfl rfl rfl (fun x => x) rfl rfl
          (by rw [hflag]; simp)
    | rem =>
      by_cases hg : h.gen = c.fl.remOuter ∧ c.remote.isSome = true
      · refine fin1 { c with fl := { c.fl with remCount := decCount c.fl.remCount },
                             cnt := if c.releaseEvent then { c.cnt with event := true } else c.cnt } (st.inflight - 1)
          (by simp [releaseStep, hfind, hside, hcache, hg]) rfl rfl (by simp only []; split <;> rfl)
          (fun x => by simp only []; split <;> simp [x]) rfl rfl ?_
        obtain ⟨k1, k2⟩ := hi.fl.cur c hcache
        have hin := k2 h hmem hside hg.1 hg.2
        have hflag : flagOf c h = true := by simp [flagOf, hside, hg.1, hg.2, hin]
        have hpos : 0 < st.handles.countP (flagOf c) := List.countP_pos_iff.2 ⟨h, hmem, hflag⟩
        simp only [hflag, if_true, decCount]
        rw [k1 hg.2]
        split <;> omega
      · have hflag : flagOf c h = false := by
          simp only [flagOf, hside]
          by_cases h1 : h.gen = c.fl.remOuter
          · have : c.remote.isSome = false := by
              cases hs : c.remote.isSome with
              | false => rfl
              | true => exact absurd ⟨h1, hs⟩ hg
            simp [this]
          · simp [h1]
        exact fin1 c (st.inflight - 1) (by simp [releaseStep, hfind, hside, hcache, hg]) rfl rfl rfl (fun x => x) rfl rfl
          (by rw [hflag]; simp)

/-- every operation allowed by `OpOK` runs without panic, preserves the invariant, and the judge accepts it -/
theorem step_inv {K : Kind} {cfg : Cfg} {st : State} {m : Mon} {op : Op} (hi : Inv K cfg st m) (hop : OpOK K op) :
    ∃ st', step st op = .ok st' ∧ Inv K cfg st' (m.next op (observe cfg st')) ∧
      exactStep cfg m op (observe cfg st') = [] := by
  have h : StepOK K cfg st m op := by
    cases op with
    | schema s => exact step_schema hi s hop
    | shards n => exact step_shards hi n
    | restart =>
      exact step_noop hi _ (by simp [step]) (by simp [effective]) rfl ⟨rfl, rfl, rfl, rfl, rfl⟩ rfl
    | sync fail n leader now => exact step_sync hi fail n leader now
    | hb ok now other => exact step_hb hi ok now other
    | reconcileCount => exact step_reconcile hi
    | answer named item => exact step_answer hi named item
    | meter x => exact step_meter hi x hop
    | setLimit r => exact step_setLimit hi r
    | event => exact step_event hi
    | acquire id => exact step_acquire hi id
    | release id => exact step_release hi id
    | tick now ans => exact step_tick hi now ans
  obtain ⟨st', h1, h2, h3⟩ := h
  refine ⟨st', h1, h2, ?_⟩
  simp only [exactStep, judgePost_ok h2, h3, List.append_nil]

/-- along every allowed operation list: no panic, one observation per operation, and the judge accepts them all -/
theorem run_inv {K : Kind} {cfg : Cfg} : ∀ (ops : List Op) (st : State) (m : Mon), Inv K cfg st m →
    (∀ op ∈ ops, OpOK K op) →
    (runFrom cfg st ops).2 = none ∧ (runFrom cfg st ops).1.length = ops.length ∧
      allGood (judgeFrom cfg m ops (runFrom cfg st ops).1) = true := by
  intro ops
  induction ops with
  | nil => intro st m _ _; exact ⟨rfl, rfl, rfl⟩
  | cons op ops ih =>
    intro st m hi hops
    obtain ⟨st', h1, h2, h3⟩ := step_inv hi (hops op (List.mem_cons_self ..))
    obtain ⟨i1, i2, i3⟩ := ih st' _ h2 (fun o ho => hops o (List.mem_cons_of_mem _ ho))
    simp only [runFrom, h1]
    refine ⟨i1, by simp [i2], ?_⟩
    simp only [judgeFrom, allGood, List.all_cons, judgeStep_of_exact h3, List.isEmpty_nil, Bool.true_and]
    exact i3

/-- the remote limiter of a reachable state is of the schema's type and within the monitor's bound -/
theorem inv_rlim {K : Kind} {cfg : Cfg} {st : State} {m : Mon} (hi : Inv K cfg st m) {l : Lim}
    (hl : (observe cfg st).rlim = some l) : Lim.leb l m.ob = true ∧ l.kind = K ∧ (K = .mi ∨ K = .tb) := by
  have hc := hi.cache
  unfold CInv at hc
  rw [observe_rlim] at hl
  cases hcache : st.cache with
  | none => simp [gfcOf, hcache] at hl
  | some c =>
    cases hsch : m.schema with
    | none => rw [hcache, hsch] at hc; exact hc.elim
    | some s =>
      rw [hcache, hsch] at hc
      obtain ⟨h1, h2, h3, h4, h5⟩ := hc
      cases hr : c.remote with
      | none => simp [gfcOf, hcache, hr] at hl
      | some r =>
        obtain ⟨i, ap, g, r1, r2, r3, r4, r5, r6, r7⟩ := h5 r hr
        have hg : gfcOf st = some g := by simp [gfcOf, hcache, hr, r3]
        rw [hg] at hl
        have : l = g.inner := by simpa using hl.symm
        subst this
        have hob : g.unavail = false → m.ob = m.gs := by
          intro hu
          apply hi.obgs
          rw [observe_unavail, hg]; simpa using hu
        exact ⟨GInv_leb r6 r5 r4 (VS_kind h2) hob, r7, VS_kind h2⟩

theorem leb_mono {l : Lim} {a b : Bound} (h : Lim.leb l a = true) (hab : BLe a b) : Lim.leb l b = true := by
  obtain ⟨h1, h2, h3⟩ := hab
  cases l with
  | exempt _ => simp [Lim.leb] at h
  | mi s => simp only [Lim.leb, Bool.and_eq_true, decide_eq_true_eq] at h ⊢; omega
  | tb q u => simp only [Lim.leb, Bool.and_eq_true, decide_eq_true_eq] at h ⊢; omega

theorem BLe.sup_le {a b G : Bound} (ha : BLe a G) (hb : BLe b G) : BLe (a.sup b) G := by
  obtain ⟨a1, a2, a3⟩ := ha
  obtain ⟨b1, b2, b3⟩ := hb
  simp only [BLe, Bound.sup]
  refine ⟨?_, ?_, ?_⟩ <;> (split <;> omega)

/-- the monitor's bounds never exceed an upper bound `G` of every configured global limit -/
structure MonLe (m : Mon) (G : Bound) : Prop where
  gs : BLe m.gs G
  ob : BLe m.ob G
  sch : ∀ s, m.schema = some s → BLe (globalOf s) G

theorem monLe_next {m : Mon} {G : Bound} (h : MonLe m G) (op : Op) (o : Obs)
    (hop : ∀ s, op = .schema s → BLe (globalOf s) G) : MonLe (m.next op o) G := by
  have hgs : BLe (m.next op o).gs G := by
    simp only [Mon.next]
    split
    · cases hs : m.schema with
      | none => exact h.gs
      | some s => exact h.sch s hs
    · exact h.gs
  refine ⟨hgs, ?_, ?_⟩
  · have : (m.next op o).ob = if o.unavail then m.ob.sup (m.next op o).gs else (m.next op o).gs := rfl
    rw [this]
    split
    · exact BLe.sup_le h.ob hgs
    · exact hgs
  · intro s hs
    cases op with
    | schema s' =>
      have : s = s' := by simpa [Mon.next] using hs.symm
      subst this
      exact hop s rfl
    | shards _ => exact h.sch s hs
    | sync _ _ _ _ => exact h.sch s hs
    | hb _ _ _ => exact h.sch s hs
    | reconcileCount => exact h.sch s hs
    | restart => exact h.sch s hs
    | answer _ _ => exact h.sch s hs
    | meter _ => exact h.sch s hs
    | setLimit _ => exact h.sch s hs
    | event => exact h.sch s hs
    | acquire _ => exact h.sch s hs
    | release _ => exact h.sch s hs
    | tick _ _ => exact h.sch s hs

/-- along every allowed operation list whose schemas' global limits are all within `G`, every remote limiter ever
    observed (handed out or not) has the schema's type and is within `G` -/
theorem run_cap {K : Kind} {cfg : Cfg} {G : Bound} : ∀ (ops : List Op) (st : State) (m : Mon), Inv K cfg st m →
    MonLe m G → (∀ op ∈ ops, OpOK K op ∧ ∀ s, op = .schema s → BLe (globalOf s) G) →
    ∀ o ∈ (runFrom cfg st ops).1, ∀ l, o.rlim = some l → Lim.leb l G = true ∧ l.kind = K := by
  intro ops
  induction ops with
  | nil => intro st m _ _ _ o ho; simp [runFrom] at ho
  | cons op ops ih =>
    intro st m hi hm hops o ho l hl
    obtain ⟨st', h1, h2, _⟩ := step_inv hi (hops op (List.mem_cons_self ..)).1
    have hm' := monLe_next hm op (observe cfg st') (hops op (List.mem_cons_self ..)).2
    simp only [runFrom, h1, List.mem_cons] at ho
    rcases ho with rfl | ho
    · obtain ⟨a1, a2, _⟩ := inv_rlim h2 hl
      exact ⟨leb_mono a1 hm'.ob, a2⟩
    · exact ih st' _ h2 hm' (fun x hx => hops x (List.mem_cons_of_mem _ hx)) o ho l hl


/-- every allowed operation list runs to a state that satisfies the invariant (for some monitor) -/
theorem exec_inv {K : Kind} {cfg : Cfg} {G : Bound} : ∀ (ops : List Op) (st : State) (m : Mon), Inv K cfg st m →
    MonLe m G → (∀ op ∈ ops, OpOK K op ∧ ∀ s, op = .schema s → BLe (globalOf s) G) →
    ∃ st' m', exec st ops = some st' ∧ Inv K cfg st' m' ∧ MonLe m' G := by
  intro ops
  induction ops with
  | nil => intro st m hi hm _; exact ⟨st, m, rfl, hi, hm⟩
  | cons op ops ih =>
    intro st m hi hm hops
    obtain ⟨st', h1, h2, _⟩ := step_inv hi (hops op (List.mem_cons_self ..)).1
    have hm' := monLe_next hm op (observe cfg st') (hops op (List.mem_cons_self ..)).2
    obtain ⟨st'', m'', e1, e2, e3⟩ := ih st' _ h2 hm' (fun x hx => hops x (List.mem_cons_of_mem _ hx))
    exact ⟨st'', m'', by simp only [exec, h1]; exact e1, e2, e3⟩

/-- in a reachable state the local limiter enforces exactly the local limit of the schema in force -/
theorem inv_local {K : Kind} {cfg : Cfg} {st : State} {m : Mon} (hi : Inv K cfg st m) {c : Cache}
    (hc : st.cache = some c) : VS K c.loc.config ∧ c.loc.fc = some (limOf c.loc.config) := by
  have h := hi.cache
  unfold CInv at h
  rw [hc] at h
  cases hsch : m.schema with
  | none => rw [hsch] at h; exact h.elim
  | some s =>
    rw [hsch] at h
    obtain ⟨h1, h2, h3, _⟩ := h
    rw [h1]; exact ⟨h2, h3⟩

/-! ## the schema's TYPE may change: an ordinary reconfiguration (the remote wrapper is stopped) -/

theorem localSync_kind {K K' : Kind} {l : Local} {old s : Schema} (ho : VS K old) (hs : VS K' s) (hne : K ≠ K')
    (hc : l.config = old) (hf : l.fc = some (limOf old)) :
    localSync l s = .ok ({ config := s, fc := some (limOf s) }, true) ∧ localRecreates l s = true := by
  obtain ⟨cfg0, fc0⟩ := l
  simp only at hc hf
  subst hc hf
  have hsne : s ≠ cfg0 := by
    intro e; subst e; exact hne ((VS_guess ho).symm.trans (VS_guess hs))
  constructor
  · unfold localSync
    simp only [if_neg hsne, VS_limOf_kind ho, VS_guess hs]
    rw [if_pos hne]
    simp [VS_newLim hs, bind, Except.bind, pure, Except.pure]
  · simp [localRecreates, hsne, VS_limOf_kind ho, VS_guess hs, hne]

/-- with nothing cached the invariant does not depend on the type -/
theorem inv_kind_none {K K' : Kind} {cfg : Cfg} {st : State} {m : Mon} (hi : Inv K cfg st m) (hn : st.cache = none) :
    Inv K' cfg st m := by
  refine ⟨hi.meter, hi.meterOK, hi.shards, hi.hb, hi.prev, hi.gsOK, hi.gsob, hi.obgs, ?_, hi.leader, hi.cnt, hi.fl⟩
  have h := hi.cache
  rw [hn] at h ⊢
  unfold CInv at *
  cases hs : m.schema with
  | none => rw [hs] at h; exact h
  | some s => rw [hs] at h; exact h.elim

/-- a schema of ANOTHER type: new local limiter, the remote wrapper is stopped (no limiter of the old type is ever
    handed out again), no request counts against a remote limiter any more -/
theorem step_schema_kind {K K' : Kind} {cfg : Cfg} {st : State} {m : Mon} (hi : Inv K cfg st m) (s : Schema)
    (hs : VS K' s) (hne : K ≠ K') (c : Cache) (hcache : st.cache = some c) :
    ∃ st', step st (.schema s) = .ok st' ∧ Inv K' cfg st' (m.next (.schema s) (observe cfg st')) ∧
      exactTrans m (.schema s) (observe cfg st') = [] := by
  have hc := hi.cache
  unfold CInv at hc
  cases hsch : m.schema with
  | none => rw [hcache, hsch] at hc; exact hc.elim
  | some old =>
    rw [hcache, hsch] at hc
    obtain ⟨h1, h2, h3, h4, h5⟩ := hc
    obtain ⟨hls, hlr⟩ := localSync_kind h2 hs hne h1 h3
    have hgne : guessType s ≠ guessType old := by
      rw [VS_guess hs, VS_guess h2]; exact fun e => hne e.symm
    have hsne : s ≠ old := fun e => hgne (by rw [e])
    obtain ⟨c', hc'⟩ : ∃ c' : Cache, c' = { c with loc := { config := s, fc := some (limOf s) }, remote := none, fl := { c.fl with locGen := c.fl.locGen + 1, locCount := 0 } } := ⟨_, rfl⟩
    have hrn : c'.remote = none := by rw [hc']
    refine ⟨{ st with cache := some c' }, ?_, ?_, rfl⟩
    · simp only [step, hcache, hls, hlr, hc']; rfl
    · have hun := observe_unavail_noremote (cfg := cfg) (st := { st with cache := some c' }) rfl hrn
      have hst : stopsRemote m (.schema s) = true := by simp [stopsRemote, hsch, hsne, hgne]
      refine ⟨?_, hi.meterOK, ?_, ?_, rfl, ?_, ?_, ?_, ?_, ?_, ?_, ?_⟩
      · simp [Mon.next]; exact hi.meter
      · simp [Mon.next]; exact hi.shards
      · simp [Mon.next, leaderChange]; exact hi.hb
      · simp [Mon.next, effective]; exact hi.gsOK
      · simp [Mon.next, effective, hun]; exact BLe.refl _
      · intro _; simp [Mon.next, effective, hun]
      · simp [CInv, Mon.next, hsch, hs, hsne, hgne, hc']
      · simp [Mon.next, leaderChange]; exact hi.leader
      · refine ⟨by simp [Mon.next]; exact hi.cnt.clock, by simp [Mon.next, effective]; exact hi.cnt.contact0, ?_, ?_⟩
        · intro x hx
          have : x = c' := by simpa using hx.symm
          subst this
          simp only [Mon.next, effective, Bool.false_eq_true, if_false]
          rw [hc']; exact hi.cnt.contact c hcache
        · intro x hx he
          have : x = c' := by simpa using hx.symm
          subst this
          simp only [Mon.next, mayEventNext]
          rw [hc'] at he; exact hi.cnt.may c hcache he
      · refine ⟨hi.fl.cfgv, ?_, ?_, ?_, ?_, hi.fl.nodup, ?_, fun h => (by cases h), ?_⟩
        · intro x r hx hr
          have : x = c' := by simpa using hx.symm
          subst this; rw [hrn] at hr; cases hr
        · intro w hw; simp [gfcOf, hrn] at hw
        · intro hm; simp [Mon.next, hst] at hm
        · simp only [Mon.next, hst, Bool.or_true, if_true]
          rw [hi.fl.held, hcache, heldOf_noremote (c := c') _ hrn]
          simp [heldOf]
        · intro x hx
          have : x = c' := by simpa using hx.symm
          subst this; rw [hc']; exact hi.fl.gens c hcache
        · intro x hx
          have : x = c' := by simpa using hx.symm
          subst this
          exact ⟨fun h => (by rw [hrn] at h; simp at h), fun h _ _ _ hr => (by rw [hrn] at hr; simp at hr)⟩

/-- what the theorems require of an operation when the schema in force may be of ANY valid type -/
def OpOK' : Op → Prop
  | .schema s => ∃ K, VS K s
  | .meter x => 0 < x.rateDen
  | _ => True

theorem opOK_of' {K : Kind} {op : Op} (h : OpOK' op) (hn : ∀ s, op ≠ .schema s) : OpOK K op := by
  cases op with
  | schema s => exact absurd rfl (hn s)
  | meter x => exact h
  | shards _ => trivial
  | sync _ _ _ _ => trivial
  | hb _ _ _ => trivial
  | reconcileCount => trivial
  | restart => trivial
  | answer _ _ => trivial
  | setLimit _ => trivial
  | event => trivial
  | acquire _ => trivial
  | release _ => trivial
  | tick _ _ => trivial

/-- every operation — a schema of another type included — runs without panic, preserves the invariant (for the type of
    the schema then in force), and the judge accepts it -/
theorem step_inv' {K : Kind} {cfg : Cfg} {st : State} {m : Mon} {op : Op} (hi : Inv K cfg st m) (hop : OpOK' op) :
    ∃ st' K', step st op = .ok st' ∧ Inv K' cfg st' (m.next op (observe cfg st')) ∧
      exactStep cfg m op (observe cfg st') = [] := by
  by_cases hsc : ∃ s, op = .schema s
  · obtain ⟨s, rfl⟩ := hsc
    obtain ⟨K', hs⟩ := hop
    by_cases hk : K = K'
    · subst hk
      obtain ⟨st', a, b, d⟩ := step_inv hi (op := .schema s) hs
      exact ⟨st', K, a, b, d⟩
    · cases hcache : st.cache with
      | none =>
        obtain ⟨st', a, b, d⟩ := step_inv (inv_kind_none (K' := K') hi hcache) (op := .schema s) hs
        exact ⟨st', K', a, b, d⟩
      | some c =>
        obtain ⟨st', a, b, d⟩ := step_schema_kind hi s hs hk c hcache
        exact ⟨st', K', a, b, by simp only [exactStep, judgePost_ok b, d, List.append_nil]⟩
  · obtain ⟨st', a, b, d⟩ := step_inv hi (opOK_of' (K := K) hop (fun s e => hsc ⟨s, e⟩))
    exact ⟨st', K, a, b, d⟩

theorem run_inv' {cfg : Cfg} : ∀ (ops : List Op) (K : Kind) (st : State) (m : Mon), Inv K cfg st m →
    (∀ op ∈ ops, OpOK' op) →
    (runFrom cfg st ops).2 = none ∧ (runFrom cfg st ops).1.length = ops.length ∧
      allGood (judgeFrom cfg m ops (runFrom cfg st ops).1) = true := by
  intro ops
  induction ops with
  | nil => intro K st m _ _; exact ⟨rfl, rfl, rfl⟩
  | cons op ops ih =>
    intro K st m hi hops
    obtain ⟨st', K', h1, h2, h3⟩ := step_inv' hi (hops op (List.mem_cons_self ..))
    obtain ⟨i1, i2, i3⟩ := ih K' st' _ h2 (fun o ho => hops o (List.mem_cons_of_mem _ ho))
    simp only [runFrom, h1]
    refine ⟨i1, by simp [i2], ?_⟩
    simp only [judgeFrom, allGood, List.all_cons, judgeStep_of_exact h3, List.isEmpty_nil, Bool.true_and]
    exact i3

/-- … and every remote limiter ever observed is within any bound `G` of all the schemas' global limits -/
theorem run_cap' {cfg : Cfg} {G : Bound} : ∀ (ops : List Op) (K : Kind) (st : State) (m : Mon), Inv K cfg st m →
    MonLe m G → (∀ op ∈ ops, OpOK' op ∧ ∀ s, op = .schema s → BLe (globalOf s) G) →
    ∀ o ∈ (runFrom cfg st ops).1, ∀ l, o.rlim = some l → Lim.leb l G = true := by
  intro ops
  induction ops with
  | nil => intro K st m _ _ _ o ho; simp [runFrom] at ho
  | cons op ops ih =>
    intro K st m hi hm hops o ho l hl
    obtain ⟨st', K', h1, h2, _⟩ := step_inv' hi (hops op (List.mem_cons_self ..)).1
    have hm' := monLe_next hm op (observe cfg st') (hops op (List.mem_cons_self ..)).2
    simp only [runFrom, h1, List.mem_cons] at ho
    rcases ho with rfl | ho
    · obtain ⟨a1, _, _⟩ := inv_rlim h2 hl
      exact leb_mono a1 hm'.ob
    · exact ih K' st' _ h2 hm' (fun x hx => hops x (List.mem_cons_of_mem _ hx)) o ho l hl

theorem exec_inv' {cfg : Cfg} : ∀ (ops : List Op) (K : Kind) (st : State) (m : Mon), Inv K cfg st m →
    (∀ op ∈ ops, OpOK' op) → ∃ st' m' K', exec st ops = some st' ∧ Inv K' cfg st' m' := by
  intro ops
  induction ops with
  | nil => intro K st m hi _; exact ⟨st, m, K, rfl, hi⟩
  | cons op ops ih =>
    intro K st m hi hops
    obtain ⟨st', K', h1, h2, _⟩ := step_inv' hi (hops op (List.mem_cons_self ..))
    obtain ⟨st'', m'', K'', e1, e2⟩ := ih K' st' _ h2 (fun x hx => hops x (List.mem_cons_of_mem _ hx))
    exact ⟨st'', m'', K'', by simp only [exec, h1]; exact e1, e2⟩

end KG.Lemmas.RemoteLimiter
