import KG.Spec.K8sStore
set_option linter.unusedSimpArgs false
/-!
# Lemmas for C19 (API-backed limiter store)

1. the API stand-in (`get` after `write`/`remove`), well-formedness;
2. what one API call can do to the API (`Step`), and sequences of calls (`Path`);
3. the footprint of `createOrUpdate` / the delete loop / the flush loop / `DeleteUpstream`'s loop;
4. claims (`Ghost`) along a path: `path_judge`, frame lemmas;
5. every operation keeps the invariant `Inv` and honours the judge at each of its crash points.
-/
namespace KG.Lemmas.K8sStore
open KG KG.Model.K8sStore KG.Spec.K8sStore

/-! ## 1. The API stand-in -/

theorem find_filter_of_imp {α : Type} (p q : α → Bool) (h : ∀ x, p x = true → q x = true) (l : List α) :
    (l.filter q).find? p = l.find? p := by
  induction l with
  | nil => rfl
  | cons x xs ih =>
    cases hq : q x <;> cases hp : p x
    · simp [List.filter_cons, List.find?_cons, hq, hp, ih]
    · rw [h x hp] at hq; cases hq
    · simp [List.filter_cons, List.find?_cons, hq, hp, ih]
    · simp [List.filter_cons, List.find?_cons, hq, hp]

theorem find_filter_none {α : Type} (p q : α → Bool) (h : ∀ x, q x = true → p x = false) (l : List α) :
    (l.filter q).find? p = none := by
  induction l with
  | nil => rfl
  | cons x xs ih =>
    cases hq : q x
    · simp [List.filter_cons, hq, ih]
    · simp [List.filter_cons, List.find?_cons, hq, h x hq, ih]

theorem find_filter_ne (l : List Cond) (n m : Str) (h : ¬ m = n) :
    (l.filter (fun d => ¬ d.name = n)).find? (fun c => c.name = m) = l.find? (fun c => c.name = m) := by
  apply find_filter_of_imp
  intro x hx
  have hx' : x.name = m := by simpa using hx
  have : ¬ x.name = n := fun e => h (hx' ▸ e)
  simp [this]

theorem find_filter_same (l : List Cond) (n : Str) :
    (l.filter (fun d => ¬ d.name = n)).find? (fun c => c.name = n) = none := by
  apply find_filter_none
  intro x hx
  have : ¬ x.name = n := by simpa using hx
  simp [this]

theorem get_write_same (a : Api) (c : Cond) : (a.write c).get c.name = some (a.stamped c) := by
  simp [Api.get, Api.write, Api.stamped, List.find?]

theorem get_write_ne (a : Api) (c : Cond) (n : Str) (h : ¬ n = c.name) : (a.write c).get n = a.get n := by
  have h' : ¬ c.name = n := fun e => h e.symm
  simp only [Api.get, Api.write, List.find?, h', decide_false]
  exact find_filter_ne a.objs c.name n h

theorem get_remove_same (a : Api) (n : Str) : (a.remove n).get n = none := by
  simp only [Api.get, Api.remove]
  exact find_filter_same a.objs n

theorem get_remove_ne (a : Api) (n m : Str) (h : ¬ m = n) : (a.remove n).get m = a.get m := by
  simp only [Api.get, Api.remove]
  exact find_filter_ne a.objs n m h

theorem get_name {a : Api} {n : Str} {c : Cond} (h : a.get n = some c) : c.name = n := by
  have := List.find?_some h
  simpa using this

theorem get_mem {a : Api} {n : Str} {c : Cond} (h : a.get n = some c) : c ∈ a.objs :=
  List.mem_of_find?_eq_some h

/-- names determine the upstream (`up`), and a name occurs once -/
def ApiWf (up : Str → Str) (a : Api) : Prop :=
  (∀ c ∈ a.objs, c.upstream = up c.name) ∧ (∀ c ∈ a.objs, a.get c.name = some c)

theorem apiWf_write {up : Str → Str} {a : Api} {c : Cond} (h : ApiWf up a) (hc : c.upstream = up c.name) :
    ApiWf up (a.write c) := by
  constructor
  · intro d hd
    simp only [Api.write, List.mem_cons, List.mem_filter] at hd
    rcases hd with rfl | ⟨hd, _⟩
    · exact hc
    · exact h.1 d hd
  · intro d hd
    have hd' := hd
    simp only [Api.write, List.mem_cons, List.mem_filter] at hd
    rcases hd with rfl | ⟨hd, hne⟩
    · exact get_write_same a c
    · have hne' : ¬ d.name = c.name := by simpa using hne
      rw [get_write_ne a c d.name hne']
      exact h.2 d hd

theorem apiWf_remove {up : Str → Str} {a : Api} {n : Str} (h : ApiWf up a) : ApiWf up (a.remove n) := by
  constructor
  · intro d hd
    simp only [Api.remove, List.mem_filter] at hd
    exact h.1 d hd.1
  · intro d hd
    simp only [Api.remove, List.mem_filter] at hd
    have hne : ¬ d.name = n := by simpa using hd.2
    rw [get_remove_ne a n d.name hne]
    exact h.2 d hd.1

/-! ## 2. One call, and sequences of calls -/

/-- What one API call may do to the API `a`, leading to the crash point `p`: nothing, write an object of `W`,
    remove an object of `D`, or find an object of `V` removed by somebody else. -/
inductive Step (W : Cond → Prop) (D V : Str → Prop) (a : Api) (p : Pt) : Prop
  | same (hv : p.voided = none) (ha : p.api = a)
  | wr (it : Cond) (hw : W it) (hv : p.voided = none) (ha : p.api = a.write it)
  | rm (n : Str) (hd : D n) (hv : p.voided = none) (ha : p.api = a.remove n)
  | ext (n : Str) (hx : V n) (hv : p.voided = some n) (ha : p.api = a.remove n)

theorem Step.mono {W W' : Cond → Prop} {D D' V V' : Str → Prop} {a : Api} {p : Pt}
    (hW : ∀ c, W c → W' c) (hD : ∀ n, D n → D' n) (hV : ∀ n, V n → V' n) (h : Step W D V a p) : Step W' D' V' a p := by
  cases h with
  | same hv ha => exact .same hv ha
  | wr it hw hv ha => exact .wr it (hW it hw) hv ha
  | rm n hd hv ha => exact .rm n (hD n hd) hv ha
  | ext n hx hv ha => exact .ext n (hV n hx) hv ha

/-- `Path W D V a pts a'`: from `a`, the crash points `pts` (oldest first) are reached by such calls, ending in `a'`. -/
inductive Path (W : Cond → Prop) (D V : Str → Prop) : Api → List Pt → Api → Prop
  | nil (a : Api) : Path W D V a [] a
  | cons {a : Api} {p : Pt} {ps : List Pt} {a' : Api} : Step W D V a p → Path W D V p.api ps a' → Path W D V a (p :: ps) a'

theorem Path.mono {W W' : Cond → Prop} {D D' V V' : Str → Prop} {a a' : Api} {pts : List Pt}
    (hW : ∀ c, W c → W' c) (hD : ∀ n, D n → D' n) (hV : ∀ n, V n → V' n) (h : Path W D V a pts a') : Path W' D' V' a pts a' := by
  induction h with
  | nil a => exact .nil a
  | cons hs _ ih => exact .cons (hs.mono hW hD hV) ih

theorem Path.append {W : Cond → Prop} {D V : Str → Prop} {a b c : Api} {p1 p2 : List Pt}
    (h1 : Path W D V a p1 b) (h2 : Path W D V b p2 c) : Path W D V a (p1 ++ p2) c := by
  induction h1 with
  | nil a => simpa using h2
  | cons hs _ ih => exact .cons hs (ih h2)

/-- `Run W D V w pts w'`: the world went from `w` to `w'` by the calls `pts`. -/
def Run (W : Cond → Prop) (D V : Str → Prop) (w : World) (pts : List Pt) (w' : World) : Prop :=
  w'.trace = pts.reverse ++ w.trace ∧ Path W D V w.api pts w'.api

theorem Run.refl (W : Cond → Prop) (D V : Str → Prop) (w : World) : Run W D V w [] w := ⟨by simp, .nil _⟩

theorem Run.trans {W : Cond → Prop} {D V : Str → Prop} {w1 w2 w3 : World} {p1 p2 : List Pt}
    (h1 : Run W D V w1 p1 w2) (h2 : Run W D V w2 p2 w3) : Run W D V w1 (p1 ++ p2) w3 :=
  ⟨by rw [h2.1, h1.1]; simp, h1.2.append h2.2⟩

theorem Run.mono {W W' : Cond → Prop} {D D' V V' : Str → Prop} {w w' : World} {pts : List Pt}
    (hW : ∀ c, W c → W' c) (hD : ∀ n, D n → D' n) (hV : ∀ n, V n → V' n) (h : Run W D V w pts w') : Run W' D' V' w pts w' :=
  ⟨h.1, h.2.mono hW hD hV⟩

theorem Run.one {W : Cond → Prop} {D V : Str → Prop} {w w' : World} {p : Pt}
    (ht : w'.trace = p :: w.trace) (ha : p.api = w'.api) (hs : Step W D V w.api p) : Run W D V w [p] w' :=
  ⟨by simp [ht], .cons hs (ha ▸ .nil _)⟩

theorem newPts_of_run {W : Cond → Prop} {D V : Str → Prop} {w w' : World} {pts : List Pt}
    (h : Run W D V w pts w') : newPts w w' = pts := by
  unfold newPts
  rw [h.1]
  simp

/-- the shape of every `call` -/
theorem call_eq {α : Type} (tgt : Option Str) (nat : Api → Api × Except Err α) (w : World) :
    call tgt nat w =
      ({ api := (applyFault (w.script.headD .ok) tgt nat w.api).1.1, script := w.script.tail,
         trace := ⟨(applyFault (w.script.headD .ok) tgt nat w.api).1.1, (applyFault (w.script.headD .ok) tgt nat w.api).2⟩ :: w.trace },
       (applyFault (w.script.headD .ok) tgt nat w.api).1.2) := rfl

def holds (a : Api) (n : Str) (d : Data) : Prop := ∃ c, a.get n = some c ∧ c.data = d

theorem holdsData_iff (a : Api) (n : Str) (d : Data) : holdsData a n d = true ↔ holds a n d := by
  unfold holdsData holds
  cases h : a.get n with
  | none => simp
  | some c => simp

theorem holds_write (a : Api) (c : Cond) : holds (a.write c) c.name c.data :=
  ⟨a.stamped c, get_write_same a c, rfl⟩

/-- `Delete(name)` -/
theorem apiDelete_spec (n : Str) (w w' : World) (r : Except Err Unit) (h : apiDelete n w = (w', r)) :
    (w' = w ∧ r = .error .other) ∨
    (∃ p, Run (fun _ => False) (· = n) (· = n) w [p] w' ∧ ((r = .ok () ∨ r = .error .notFound) → w'.api.get n = none)) := by
  unfold apiDelete at h
  split at h
  · left; cases h; exact ⟨rfl, rfl⟩
  · right
    rw [call_eq] at h
    cases h
    refine ⟨_, Run.one rfl rfl ?_, ?_⟩
    · cases hf : w.script.headD .ok <;> simp only [applyFault, faultErr, natDelete]
      · cases hg : w.api.get n <;> simp only []
        · exact .same rfl rfl
        · exact .rm n rfl rfl rfl
      · rw [get_remove_same]; exact .ext n rfl rfl rfl
      · exact .same rfl rfl
      · exact .same rfl rfl
      · exact .same rfl rfl
      · cases hg : w.api.get n <;> simp only []
        · exact .same rfl rfl
        · exact .rm n rfl rfl rfl
    · cases hf : w.script.headD .ok <;> simp only [applyFault, faultErr, natDelete]
      · cases hg : w.api.get n <;> simp [hg, get_remove_same]
      · rw [get_remove_same]; simp [get_remove_same]
      · simp
      · simp
      · simp
      · cases hg : w.api.get n <;> simp [hg, get_remove_same]

/-- `Update(item)` -/
theorem apiUpdate_spec (c : Cond) (w w' : World) (r : Except Err Cond) (h : apiUpdate c w = (w', r)) :
    (w' = w ∧ r = .error .other) ∨
    (∃ p, Run (· = c) (fun _ => False) (· = c.name) w [p] w' ∧ (∀ x, r = .ok x → holds w'.api c.name c.data)) := by
  unfold apiUpdate at h
  split at h
  · left; cases h; exact ⟨rfl, rfl⟩
  · right
    rw [call_eq] at h
    cases h
    refine ⟨_, Run.one rfl rfl ?_, ?_⟩
    · cases hf : w.script.headD .ok <;> simp only [applyFault, faultErr, natUpdate]
      · cases hg : w.api.get c.name <;> simp only []
        · exact .same rfl rfl
        · split
          · exact .same rfl rfl
          · exact .wr c rfl rfl rfl
      · rw [get_remove_same]; exact .ext c.name rfl rfl rfl
      · exact .same rfl rfl
      · exact .same rfl rfl
      · exact .same rfl rfl
      · cases hg : w.api.get c.name <;> simp only []
        · exact .same rfl rfl
        · split
          · exact .same rfl rfl
          · exact .wr c rfl rfl rfl
    · intro x
      cases hf : w.script.headD .ok <;> simp only [applyFault, faultErr, natUpdate]
      · cases hg : w.api.get c.name <;> simp only []
        · intro hx; cases hx
        · split
          · intro hx; cases hx
          · intro _; exact holds_write _ _
      · rw [get_remove_same]; intro hx; cases hx
      · intro hx; cases hx
      · intro hx; cases hx
      · intro hx; cases hx
      · intro hx; cases hx

/-- `Create(item)` -/
theorem apiCreate_spec (c : Cond) (w w' : World) (r : Except Err Cond) (h : apiCreate c w = (w', r)) :
    ∃ p, Run (· = c) (fun _ => False) (fun _ => False) w [p] w' ∧
      (∀ x, r = .ok x → holds w'.api c.name c.data ∧ x.name = c.name ∧ x.data = c.data) := by
  unfold apiCreate at h
  rw [call_eq] at h
  cases h
  refine ⟨_, Run.one rfl rfl ?_, ?_⟩
  · cases hf : w.script.headD .ok <;> simp only [applyFault, faultErr, natCreate]
    · split
      · exact .same rfl rfl
      · cases hg : w.api.get c.name <;> simp only []
        · exact .wr c rfl rfl rfl
        · exact .same rfl rfl
    · exact .same rfl rfl
    · exact .same rfl rfl
    · exact .same rfl rfl
    · exact .same rfl rfl
    · split
      · exact .same rfl rfl
      · cases hg : w.api.get c.name <;> simp only []
        · exact .wr c rfl rfl rfl
        · exact .same rfl rfl
  · intro x
    cases hf : w.script.headD .ok <;> simp only [applyFault, faultErr, natCreate]
    · split
      · intro hx; cases hx
      · cases hg : w.api.get c.name <;> simp only []
        · intro hx; cases hx; exact ⟨holds_write _ _, rfl, rfl⟩
        · intro hx; cases hx
    · intro hx; cases hx
    · intro hx; cases hx
    · intro hx; cases hx
    · intro hx; cases hx
    · intro hx; cases hx

/-- `Get(name)` -/
theorem apiGet_spec (n : Str) (w w' : World) (r : Except Err Cond) (h : apiGet n w = (w', r)) :
    (w' = w ∧ r = .error .other) ∨
    (∃ p, Run (fun _ => False) (fun _ => False) (· = n) w [p] w' ∧ (∀ x, r = .ok x → x.name = n)) := by
  unfold apiGet at h
  split at h
  · left; cases h; exact ⟨rfl, rfl⟩
  · right
    rw [call_eq] at h
    cases h
    refine ⟨_, Run.one rfl rfl ?_, ?_⟩
    · cases hf : w.script.headD .ok <;> simp only [applyFault, faultErr, natGet]
      · cases hg : w.api.get n <;> exact .same rfl rfl
      · rw [get_remove_same]; exact .ext n rfl rfl rfl
      · exact .same rfl rfl
      · exact .same rfl rfl
      · exact .same rfl rfl
      · cases hg : w.api.get n <;> exact .same rfl rfl
    · intro x
      cases hf : w.script.headD .ok <;> simp only [applyFault, faultErr, natGet]
      · cases hg : w.api.get n <;> simp only []
        · intro hx; cases hx
        · intro hx; cases hx; exact get_name hg
      · rw [get_remove_same]; intro hx; cases hx
      · intro hx; cases hx
      · intro hx; cases hx
      · intro hx; cases hx
      · cases hg : w.api.get n <;> (intro hx; cases hx)

/-- `List()` -/
theorem apiList_spec (w w' : World) (r : Except Err (List Cond)) (h : apiList w = (w', r)) :
    ∃ p, Run (fun _ => False) (fun _ => False) (fun _ => False) w [p] w' ∧ w'.api = w.api ∧
      (∀ items, r = .ok items → items = w.api.objs) := by
  unfold apiList at h
  rw [call_eq] at h
  cases h
  refine ⟨_, Run.one rfl rfl ?_, ?_, ?_⟩
  · cases hf : w.script.headD .ok <;> simp only [applyFault, faultErr, natList] <;> exact .same rfl rfl
  · cases hf : w.script.headD .ok <;> simp only [applyFault, faultErr, natList]
  · intro items
    cases hf : w.script.headD .ok <;> simp only [applyFault, faultErr, natList] <;> intro hx <;> cases hx
    rfl

/-! ## 3. Footprints -/

/-- what `createOrUpdate(cond)` writes: objects named like `cond` with its spec and status -/
def Wc (cond : Cond) (it : Cond) : Prop := it.name = cond.name ∧ it.data = cond.data

theorem run_upd_mono {cond item : Cond} (hi : Wc cond item) {w w' : World} {pts : List Pt}
    (h : Run (· = item) (fun _ => False) (· = item.name) w pts w') :
    Run (Wc cond) (fun _ => False) (· = cond.name) w pts w' :=
  h.mono (fun c (hc : c = item) => by rw [hc]; exact hi) (fun _ hn => hn) (fun n (hn : n = item.name) => by rw [hn, hi.1])

theorem couLoop_spec (cond : Cond) : ∀ (n : Nat) (item : Option Cond) (w w' : World) (r : Except Err Cond),
    couLoop cond n item w = (w', r) → (∀ it, item = some it → Wc cond it) →
    ∃ pts, Run (Wc cond) (fun _ => False) (· = cond.name) w pts w' ∧
      (∀ x, r = .ok x → holds w'.api cond.name cond.data ∧ Wc cond x) := by
  intro n
  induction n with
  | zero =>
    intro item w w' r h _
    simp only [couLoop] at h
    cases h
    exact ⟨[], Run.refl _ _ _ _, fun x hx => by cases hx⟩
  | succ n ih =>
    intro item w w' r h hitem
    cases item with
    | none =>
      simp only [couLoop] at h
      cases h
      exact ⟨[], Run.refl _ _ _ _, fun x hx => by cases hx⟩
    | some item =>
      have hi : Wc cond item := hitem item rfl
      simp only [couLoop] at h
      cases hU : apiUpdate item w with
      | mk w1 r1 =>
      rw [hU] at h
      -- the calls of the update
      have hrun1 : ∃ p1, Run (Wc cond) (fun _ => False) (· = cond.name) w p1 w1 ∧ (∀ x, r1 = .ok x → holds w1.api item.name item.data) := by
        rcases apiUpdate_spec item w w1 r1 hU with ⟨rfl, hr⟩ | ⟨p, hr, hok⟩
        · exact ⟨[], Run.refl _ _ _ _, fun x hx => by rw [hr] at hx; cases hx⟩
        · exact ⟨[p], run_upd_mono hi hr, hok⟩
      obtain ⟨p1, hr1, hok1⟩ := hrun1
      cases r1 with
      | ok x =>
        simp only [] at h
        cases h
        refine ⟨p1, hr1, ?_⟩
        intro y hy
        cases hy
        have := hok1 x rfl
        rw [hi.1, hi.2] at this
        exact ⟨this, hi⟩
      | error e =>
        cases e with
        | notFound =>
          simp only [] at h
          cases hC : apiCreate item w1 with
          | mk w2 r2 =>
          rw [hC] at h
          obtain ⟨p2, hr2, hok2⟩ := apiCreate_spec item w1 w2 r2 hC
          have hr2' : Run (Wc cond) (fun _ => False) (· = cond.name) w1 [p2] w2 :=
            hr2.mono (fun c (hc : c = item) => by rw [hc]; exact hi) (fun _ hn => hn) (fun _ hn => hn.elim)
          cases r2 with
          | ok created =>
            simp only [] at h
            cases h
            refine ⟨p1 ++ [p2], hr1.trans hr2', ?_⟩
            intro y hy
            cases hy
            obtain ⟨hh, hn, hd⟩ := hok2 created rfl
            rw [hi.1, hi.2] at hh
            exact ⟨hh, by rw [hn, hi.1], by rw [hd, hi.2]⟩
          | error e2 =>
            simp only [] at h
            obtain ⟨p3, hr3, hok3⟩ := ih none w2 w' r h (fun it hit => by cases hit)
            exact ⟨p1 ++ [p2] ++ p3, (hr1.trans hr2').trans hr3, hok3⟩
        | conflict =>
          simp only [] at h
          cases hG : apiGet cond.name w1 with
          | mk w2 r3 =>
          rw [hG] at h
          have hrun2 : ∃ p2, Run (Wc cond) (fun _ => False) (· = cond.name) w1 p2 w2 ∧ (∀ x, r3 = .ok x → x.name = cond.name) := by
            rcases apiGet_spec cond.name w1 w2 r3 hG with ⟨rfl, hr⟩ | ⟨p, hr, hok⟩
            · exact ⟨[], Run.refl _ _ _ _, fun x hx => by rw [hr] at hx; cases hx⟩
            · exact ⟨[p], hr.mono (fun _ hc => hc.elim) (fun _ hn => hn) (fun _ hn => hn), hok⟩
          obtain ⟨p2, hr2, hok2⟩ := hrun2
          cases r3 with
          | ok latest =>
            simp only [] at h
            obtain ⟨p3, hr3, hok3⟩ := ih _ w2 w' r h (fun it hit => by
              cases hit
              exact ⟨hok2 latest rfl, rfl⟩)
            exact ⟨p1 ++ p2 ++ p3, (hr1.trans hr2).trans hr3, hok3⟩
          | error e3 =>
            simp only [] at h
            obtain ⟨p3, hr3, hok3⟩ := ih _ w2 w' r h (fun it hit => by cases hit; exact hi)
            exact ⟨p1 ++ p2 ++ p3, (hr1.trans hr2).trans hr3, hok3⟩
        | alreadyExists =>
          simp only [] at h
          cases h
          exact ⟨p1, hr1, fun x hx => by cases hx⟩
        | other =>
          simp only [] at h
          cases h
          exact ⟨p1, hr1, fun x hx => by cases hx⟩
        | timeout =>
          simp only [] at h
          cases h
          exact ⟨p1, hr1, fun x hx => by cases hx⟩

theorem createOrUpdate_spec (steps : Nat) (cond : Cond) (w w' : World) (r : Except Err Cond)
    (h : createOrUpdate steps cond w = (w', r)) :
    ∃ pts, Run (Wc cond) (fun _ => False) (· = cond.name) w pts w' ∧
      (∀ x, r = .ok x → holds w'.api cond.name cond.data ∧ Wc cond x) :=
  couLoop_spec cond steps _ w w' r h (fun it hit => by cases hit; exact ⟨rfl, rfl⟩)

/-- the delete loop removes nothing but `name`; when it answers nil, `name` is not in the API -/
theorem delLoop_spec (name : Str) : ∀ (n : Nat) (w w' : World) (r : Except Err Unit),
    delLoop name n w = (w', r) →
    ∃ pts, Run (fun _ => False) (· = name) (· = name) w pts w' ∧ (r = .ok () → 0 < n ∧ w'.api.get name = none) := by
  intro n
  induction n with
  | zero =>
    intro w w' r h
    simp only [delLoop] at h
    cases h
    exact ⟨[], Run.refl _ _ _ _, fun hx => by cases hx⟩
  | succ n ih =>
    intro w w' r h
    simp only [delLoop] at h
    cases hD : apiDelete name w with
    | mk w1 r1 =>
    rw [hD] at h
    have hrun1 : ∃ p1, Run (fun _ => False) (· = name) (· = name) w p1 w1 ∧
        ((r1 = .ok () ∨ r1 = .error .notFound) → w1.api.get name = none) := by
      rcases apiDelete_spec name w w1 r1 hD with ⟨rfl, hr⟩ | ⟨p, hr, hok⟩
      · exact ⟨[], Run.refl _ _ _ _, fun hx => by rw [hr] at hx; rcases hx with hx | hx <;> cases hx⟩
      · exact ⟨[p], hr, hok⟩
    obtain ⟨p1, hr1, hok1⟩ := hrun1
    cases r1 with
    | ok u =>
      simp only [] at h
      cases h
      exact ⟨p1, hr1, fun _ => ⟨Nat.succ_pos _, hok1 (.inl rfl)⟩⟩
    | error e =>
      cases e with
      | notFound =>
        simp only [] at h
        cases h
        exact ⟨p1, hr1, fun _ => ⟨Nat.succ_pos _, hok1 (.inr rfl)⟩⟩
      | conflict =>
        simp only [] at h
        obtain ⟨p2, hr2, hok2⟩ := ih w1 w' r h
        exact ⟨p1 ++ p2, hr1.trans hr2, fun hx => ⟨Nat.succ_pos _, (hok2 hx).2⟩⟩
      | alreadyExists =>
        simp only [] at h
        cases h
        exact ⟨p1, hr1, fun hx => by cases hx⟩
      | other =>
        simp only [] at h
        cases h
        exact ⟨p1, hr1, fun hx => by cases hx⟩
      | timeout =>
        simp only [] at h
        cases h
        exact ⟨p1, hr1, fun hx => by cases hx⟩

/-! ## 4. Claims along a path -/

/-- the judge as a proposition -/
def Jp (g : Ghost) (a : Api) : Prop := (∀ h ∈ g.held, holds a h.1 h.2.1) ∧ (∀ n ∈ g.gone, a.get n = none)

theorem judge_iff (g : Ghost) (a : Api) : judge g a = true ↔ Jp g a := by
  unfold judge judgeHeld judgeGone Jp
  simp only [Bool.and_eq_true, List.all_eq_true, holdsData_iff, Option.isNone_iff_eq_none]

/-- fewer claims -/
def Le (g' g : Ghost) : Prop := (∀ h ∈ g'.held, h ∈ g.held) ∧ (∀ n ∈ g'.gone, n ∈ g.gone)

theorem Le.refl (g : Ghost) : Le g g := ⟨fun _ h => h, fun _ h => h⟩
theorem Le.trans {a b c : Ghost} (h1 : Le a b) (h2 : Le b c) : Le a c :=
  ⟨fun h hh => h2.1 h (h1.1 h hh), fun n hn => h2.2 n (h1.2 n hn)⟩

theorem Jp.le {g g' : Ghost} {a : Api} (h : Jp g a) (hle : Le g' g) : Jp g' a :=
  ⟨fun x hx => h.1 x (hle.1 x hx), fun n hn => h.2 n (hle.2 n hn)⟩

theorem mem_forget_held {g : Ghost} {n : Str} {h : Str × Data × Why} :
    h ∈ (g.forget n).held ↔ h ∈ g.held ∧ ¬ h.1 = n := by simp [Ghost.forget, List.mem_filter]
theorem mem_forget_gone {g : Ghost} {n m : Str} : m ∈ (g.forget n).gone ↔ m ∈ g.gone ∧ ¬ m = n := by
  simp [Ghost.forget, List.mem_filter]
theorem mem_unhold_held {g : Ghost} {n : Str} {h : Str × Data × Why} :
    h ∈ (g.unhold n).held ↔ h ∈ g.held ∧ ¬ h.1 = n := by simp [Ghost.unhold, List.mem_filter]
theorem mem_unhold_gone {g : Ghost} {n m : Str} : m ∈ (g.unhold n).gone ↔ m ∈ g.gone := by simp [Ghost.unhold]
theorem mem_hold_held {g : Ghost} {n : Str} {d : Data} {why : Why} {h : Str × Data × Why} :
    h ∈ (g.hold n d why).held ↔ h = (n, d, why) ∨ (h ∈ g.held ∧ ¬ h.1 = n) := by
  simp [Ghost.hold, List.mem_filter]
theorem mem_hold_gone {g : Ghost} {n m : Str} {d : Data} {why : Why} :
    m ∈ (g.hold n d why).gone ↔ m ∈ g.gone ∧ ¬ m = n := by simp [Ghost.hold, List.mem_filter]
theorem mem_absent_held {g : Ghost} {n : Str} {h : Str × Data × Why} :
    h ∈ (g.absent n).held ↔ h ∈ g.held ∧ ¬ h.1 = n := by simp [Ghost.absent, List.mem_filter]
theorem mem_absent_gone {g : Ghost} {n m : Str} : m ∈ (g.absent n).gone ↔ m = n ∨ m ∈ g.gone := by
  simp only [Ghost.absent, List.mem_cons, List.mem_filter]
  constructor
  · rintro (h | ⟨h, _⟩)
    · exact .inl h
    · exact .inr h
  · rintro (h | h)
    · exact .inl h
    · by_cases hm : m = n
      · exact .inl hm
      · exact .inr ⟨h, by simpa using hm⟩

theorem forget_le (g : Ghost) (n : Str) : Le (g.forget n) g :=
  ⟨fun _ h => (mem_forget_held.1 h).1, fun _ h => (mem_forget_gone.1 h).1⟩
theorem unhold_le (g : Ghost) (n : Str) : Le (g.unhold n) g :=
  ⟨fun _ h => (mem_unhold_held.1 h).1, fun _ h => mem_unhold_gone.1 h⟩

/-- the claims in force at a crash point -/
def voidP (g : Ghost) (p : Pt) : Ghost :=
  match p.voided with
  | some n => g.unhold n
  | none => g

theorem voidP_le (g : Ghost) (p : Pt) : Le (voidP g p) g := by
  unfold voidP
  split
  · exact unhold_le _ _
  · exact Le.refl _

theorem annotate_cons (g : Ghost) (p : Pt) (ps : List Pt) :
    annotate g (p :: ps) = ((voidP g p, p.api) :: (annotate (voidP g p) ps).1, (annotate (voidP g p) ps).2) := by
  rfl

theorem annotate_le (g : Ghost) (pts : List Pt) : Le (annotate g pts).2 g := by
  induction pts generalizing g with
  | nil => exact Le.refl _
  | cons p ps ih =>
    rw [annotate_cons]
    exact (ih _).trans (voidP_le g p)

/-- the claims `g` are compatible with what an operation may write (`W`) and remove (`D`) -/
def Compat (W : Cond → Prop) (D : Str → Prop) (g : Ghost) : Prop :=
  (∀ it, W it → (∀ h ∈ g.held, h.1 = it.name → h.2.1 = it.data) ∧ ¬ it.name ∈ g.gone) ∧
  (∀ n, D n → ∀ h ∈ g.held, ¬ h.1 = n)

theorem Compat.le {W : Cond → Prop} {D : Str → Prop} {g g' : Ghost} (h : Compat W D g) (hle : Le g' g) : Compat W D g' :=
  ⟨fun it hit => ⟨fun x hx => (h.1 it hit).1 x (hle.1 x hx), fun hn => (h.1 it hit).2 (hle.2 _ hn)⟩,
   fun n hn x hx => h.2 n hn x (hle.1 x hx)⟩

theorem step_judge {W : Cond → Prop} {D V : Str → Prop} {g : Ghost} {a : Api} {p : Pt}
    (hc : Compat W D g) (hs : Step W D V a p) (hj : Jp g a) : Jp (voidP g p) p.api := by
  cases hs with
  | same hv ha =>
    simp only [voidP, hv, ha]; exact hj
  | wr it hw hv ha =>
    simp only [voidP, hv, ha]
    constructor
    · intro h hh
      by_cases hn : h.1 = it.name
      · rw [hn, (hc.1 it hw).1 h hh hn]; exact holds_write a it
      · obtain ⟨c, hg, hd⟩ := hj.1 h hh
        exact ⟨c, by rw [get_write_ne a it h.1 hn]; exact hg, hd⟩
    · intro n hn
      have hne : ¬ n = it.name := fun e => (hc.1 it hw).2 (e ▸ hn)
      rw [get_write_ne a it n hne]; exact hj.2 n hn
  | rm n hd hv ha =>
    simp only [voidP, hv, ha]
    constructor
    · intro h hh
      obtain ⟨c, hg, hdat⟩ := hj.1 h hh
      exact ⟨c, by rw [get_remove_ne a n h.1 (hc.2 n hd h hh)]; exact hg, hdat⟩
    · intro m hm
      by_cases hmn : m = n
      · rw [hmn]; exact get_remove_same a n
      · rw [get_remove_ne a n m hmn]; exact hj.2 m hm
  | ext n hx hv ha =>
    simp only [voidP, hv, ha]
    constructor
    · intro h hh
      obtain ⟨hh', hne⟩ := mem_unhold_held.1 hh
      obtain ⟨c, hg, hdat⟩ := hj.1 h hh'
      exact ⟨c, by rw [get_remove_ne a n h.1 hne]; exact hg, hdat⟩
    · intro m hm
      have hm' := mem_unhold_gone.1 hm
      by_cases hmn : m = n
      · rw [hmn]; exact get_remove_same a n
      · rw [get_remove_ne a n m hmn]; exact hj.2 m hm'

/-- along a path whose writes and removals are compatible with the claims, the judge holds at every crash point -/
theorem path_judge {W : Cond → Prop} {D V : Str → Prop} {a a' : Api} {pts : List Pt} (hp : Path W D V a pts a') :
    ∀ g, Compat W D g → Jp g a → (∀ q ∈ (annotate g pts).1, Jp q.1 q.2) ∧ Jp (annotate g pts).2 a' := by
  induction hp with
  | nil a =>
    intro g _ hj
    refine ⟨?_, hj⟩
    intro q hq
    simp [annotate] at hq
  | cons hs _ ih =>
    intro g hc hj
    rw [annotate_cons]
    have hj' := step_judge hc hs hj
    obtain ⟨h1, h2⟩ := ih _ (hc.le (voidP_le _ _)) hj'
    refine ⟨?_, h2⟩
    intro q hq
    rcases List.mem_cons.1 hq with rfl | hq
    · exact hj'
    · exact h1 q hq

theorem path_apiWf {up : Str → Str} {W : Cond → Prop} {D V : Str → Prop} {a a' : Api} {pts : List Pt}
    (hp : Path W D V a pts a') (hW : ∀ it, W it → it.upstream = up it.name) (h : ApiWf up a) : ApiWf up a' := by
  induction hp with
  | nil a => exact h
  | cons hs _ ih =>
    apply ih
    cases hs with
    | same hv ha => rw [ha]; exact h
    | wr it hw hv ha => rw [ha]; exact apiWf_write h (hW it hw)
    | rm n hd hv ha => rw [ha]; exact apiWf_remove h
    | ext n hx hv ha => rw [ha]; exact apiWf_remove h

/-- a persisted condition stays persisted along a path that only writes the same data under its name -/
theorem path_holds {W : Cond → Prop} {D V : Str → Prop} {a a' : Api} {pts : List Pt} {n : Str} {d : Data}
    (hp : Path W D V a pts a') (hW : ∀ it, W it → it.name = n → it.data = d) (hD : ¬ D n) (hV : ¬ V n)
    (h : holds a n d) : holds a' n d := by
  induction hp with
  | nil a => exact h
  | cons hs _ ih =>
    apply ih
    cases hs with
    | same hv ha => rw [ha]; exact h
    | wr it hw hv ha =>
      rw [ha]
      by_cases hn : n = it.name
      · rw [hn, ← hW it hw hn.symm]; exact holds_write _ it
      · obtain ⟨c, hg, hd⟩ := h
        exact ⟨c, by rw [get_write_ne _ it n hn]; exact hg, hd⟩
    | rm m hd hv ha =>
      rw [ha]
      have : ¬ n = m := fun e => hD (e ▸ hd)
      obtain ⟨c, hg, hdat⟩ := h
      exact ⟨c, by rw [get_remove_ne _ m n this]; exact hg, hdat⟩
    | ext m hx hv ha =>
      rw [ha]
      have : ¬ n = m := fun e => hV (e ▸ hx)
      obtain ⟨c, hg, hdat⟩ := h
      exact ⟨c, by rw [get_remove_ne _ m n this]; exact hg, hdat⟩

/-- an absent condition stays absent along a path that does not write under its name -/
theorem path_absent {W : Cond → Prop} {D V : Str → Prop} {a a' : Api} {pts : List Pt} {n : Str}
    (hp : Path W D V a pts a') (hW : ∀ it, W it → ¬ it.name = n) (h : a.get n = none) : a'.get n = none := by
  induction hp with
  | nil a => exact h
  | cons hs _ ih =>
    apply ih
    cases hs with
    | same hv ha => rw [ha]; exact h
    | wr it hw hv ha =>
      rw [ha, get_write_ne _ it n (fun e => hW it hw e.symm)]; exact h
    | rm m hd hv ha =>
      rw [ha]
      by_cases hnm : n = m
      · rw [hnm]; exact get_remove_same _ _
      · rw [get_remove_ne _ m n hnm]; exact h
    | ext m hx hv ha =>
      rw [ha]
      by_cases hnm : n = m
      · rw [hnm]; exact get_remove_same _ _
      · rw [get_remove_ne _ m n hnm]; exact h

/-! ## 5. The cache, the invariant -/

theorem mem_lput {k : Str} {c : Cond} {l : Loc} {e : Str × Cond} :
    e ∈ lput k c l ↔ e = (k, c) ∨ (e ∈ l ∧ ¬ (e.1 = k ∧ e.2.name = c.name)) := by
  simp only [lput, sameKey, List.mem_cons, List.mem_filter, Bool.not_eq_true', decide_eq_false_iff_not]
theorem mem_ldel {k n : Str} {l : Loc} {e : Str × Cond} :
    e ∈ ldel k n l ↔ e ∈ l ∧ ¬ (e.1 = k ∧ e.2.name = n) := by
  simp only [ldel, sameKey, List.mem_filter, Bool.not_eq_true', decide_eq_false_iff_not]
theorem mem_ldelUp {k : Str} {l : Loc} {e : Str × Cond} : e ∈ ldelUp k l ↔ e ∈ l ∧ ¬ e.1 = k := by
  simp [ldelUp, List.mem_filter]
theorem mem_llistUp {k : Str} {l : Loc} {e : Str × Cond} : e ∈ llistUp k l ↔ e ∈ l ∧ e.1 = k := by
  simp [llistUp, List.mem_filter]

theorem arrange_perm : ∀ (ord : List (Str × Str)) (l : Loc), (arrange ord l).Perm l := by
  intro ord
  induction ord with
  | nil => intro l; exact List.Perm.refl _
  | cons kn rest ih =>
    intro l
    obtain ⟨k, n⟩ := kn
    simp only [arrange]
    cases hf : l.find? (sameKey k n) with
    | none => exact ih l
    | some e =>
      simp only []
      have hmem : e ∈ l := List.mem_of_find?_eq_some hf
      exact ((ih (l.erase e)).cons e).trans (List.perm_cons_erase hmem).symm

theorem mem_arrange {ord : List (Str × Str)} {l : Loc} {e : Str × Cond} : e ∈ arrange ord l ↔ e ∈ l :=
  (arrange_perm ord l).mem_iff

/-- cache keys and upstreams are determined by the condition's name -/
def LocWf (up : Str → Str) (l : Loc) : Prop := ∀ e ∈ l, e.1 = up e.2.name ∧ e.2.upstream = up e.2.name
/-- two cached conditions with one name carry the same spec and status -/
def Coherent (l : Loc) : Prop := ∀ e ∈ l, ∀ e' ∈ l, e.2.name = e'.2.name → e.2.data = e'.2.data
/-- the claims agree with the cache: what is claimed persisted is what is cached under that name (so a flush
    re-writes the same), what is claimed absent is not cached (so a flush does not re-create it) -/
def GL (g : Ghost) (l : Loc) : Prop :=
  (∀ h ∈ g.held, ∀ e ∈ l, e.2.name = h.1 → e.2.data = h.2.1) ∧ (∀ n ∈ g.gone, ∀ e ∈ l, ¬ e.2.name = n)

theorem GL.le {g g' : Ghost} {l : Loc} (h : GL g l) (hle : Le g' g) : GL g' l :=
  ⟨fun x hx => h.1 x (hle.1 x hx), fun n hn => h.2 n (hle.2 n hn)⟩
theorem GL.sub {g : Ghost} {l l' : Loc} (h : GL g l) (hs : ∀ e ∈ l', e ∈ l) : GL g l' :=
  ⟨fun x hx e he => h.1 x hx e (hs e he), fun n hn e he => h.2 n hn e (hs e he)⟩

structure Inv (up : Str → Str) (g : Ghost) (st : Store) (a : Api) : Prop where
  jp : Jp g a
  gl : GL g st.loc
  lwf : LocWf up st.loc
  coh : Coherent st.loc
  awf : ApiWf up a

/-- the operations the limiter issues: the cache key is the condition's upstream, and a name belongs to one upstream -/
def OpWf (up : Str → Str) : Op → Prop
  | .save k c => k = c.upstream ∧ c.upstream = up c.name
  | .saveStored k n _ _ _ => k = up n
  | .delete k n => k = up n
  | _ => True

theorem newPts_self (w : World) : newPts w w = [] := by simp [newPts]

theorem run_judge {W : Cond → Prop} {D V : Str → Prop} {w w' : World} {pts : List Pt} {g : Ghost}
    (hr : Run W D V w pts w') (hc : Compat W D g) (hj : Jp g w.api) :
    (∀ q ∈ (annotate g (newPts w w')).1, Jp q.1 q.2) ∧ Jp (annotate g (newPts w w')).2 w'.api := by
  rw [newPts_of_run hr]
  exact path_judge hr.2 g hc hj

theorem lput_wf {up : Str → Str} {l : Loc} {k : Str} {c : Cond} (h : LocWf up l) (hk : k = up c.name)
    (hu : c.upstream = up c.name) : LocWf up (lput k c l) := by
  intro e he
  rcases mem_lput.1 he with rfl | ⟨he, _⟩
  · exact ⟨hk, hu⟩
  · exact h e he

theorem lput_coherent {up : Str → Str} {l : Loc} {k : Str} {c : Cond} (h : Coherent l) (hw : LocWf up l) (hk : k = up c.name) :
    Coherent (lput k c l) := by
  have key : ∀ e ∈ l, ¬ (e.1 = k ∧ e.2.name = c.name) → ¬ e.2.name = c.name := by
    intro e he hn hname
    exact hn ⟨by rw [(hw e he).1, hname, hk], hname⟩
  intro e he e' he' hn
  rcases mem_lput.1 he with rfl | ⟨he, hne⟩ <;> rcases mem_lput.1 he' with rfl | ⟨he', hne'⟩
  · rfl
  · exact absurd hn.symm (key e' he' hne')
  · exact absurd hn (key e he hne)
  · exact h e he e' he' hn

/-- after `lput k c` the only cached conditions named `c.name` are `c` itself -/
theorem lput_named {up : Str → Str} {l : Loc} {k : Str} {c : Cond} (hw : LocWf up l) (hk : k = up c.name)
    {e : Str × Cond} (he : e ∈ lput k c l) (hn : e.2.name = c.name) : e = (k, c) := by
  rcases mem_lput.1 he with rfl | ⟨he, hne⟩
  · rfl
  · exact absurd ⟨by rw [(hw e he).1, hn, hk], hn⟩ hne

theorem LocWf.sub {up : Str → Str} {l l' : Loc} (h : LocWf up l) (hs : ∀ e ∈ l', e ∈ l) : LocWf up l' :=
  fun e he => h e (hs e he)
theorem Coherent.sub {l l' : Loc} (h : Coherent l) (hs : ∀ e ∈ l', e ∈ l) : Coherent l' :=
  fun e he e' he' hn => h e (hs e he) e' (hs e' he') hn

theorem foldUnhold_held {l : Loc} {g : Ghost} {h : Str × Data × Why} :
    h ∈ (l.foldl (fun g e => g.unhold e.2.name) g).held ↔ h ∈ g.held ∧ ∀ e ∈ l, ¬ h.1 = e.2.name := by
  induction l generalizing g with
  | nil => simp
  | cons x xs ih =>
    rw [List.foldl_cons, ih, mem_unhold_held]
    constructor
    · rintro ⟨⟨h1, h2⟩, h3⟩
      exact ⟨h1, fun e he => by rcases List.mem_cons.1 he with rfl | he; exact h2; exact h3 e he⟩
    · rintro ⟨h1, h2⟩
      exact ⟨⟨h1, h2 x (List.mem_cons_self ..)⟩, fun e he => h2 e (List.mem_cons_of_mem _ he)⟩

theorem foldUnhold_gone {l : Loc} {g : Ghost} : (l.foldl (fun g e => g.unhold e.2.name) g).gone = g.gone := by
  induction l generalizing g with
  | nil => rfl
  | cons x xs ih => rw [List.foldl_cons, ih]; rfl

theorem foldUnhold_le (l : Loc) (g : Ghost) : Le (l.foldl (fun g e => g.unhold e.2.name) g) g :=
  ⟨fun _ h => (foldUnhold_held.1 h).1, fun n hn => by rw [foldUnhold_gone] at hn; exact hn⟩

theorem foldAbsent_held {l : Loc} {g : Ghost} {h : Str × Data × Why}
    (hh : h ∈ (l.foldl (fun g e => g.absent e.2.name) g).held) : h ∈ g.held := by
  induction l generalizing g with
  | nil => exact hh
  | cons x xs ih =>
    rw [List.foldl_cons] at hh
    exact (mem_absent_held.1 (ih hh)).1

theorem foldAbsent_gone {l : Loc} {g : Ghost} {m : Str}
    (hm : m ∈ (l.foldl (fun g e => g.absent e.2.name) g).gone) : (∃ e ∈ l, m = e.2.name) ∨ m ∈ g.gone := by
  induction l generalizing g with
  | nil => exact .inr hm
  | cons x xs ih =>
    rw [List.foldl_cons] at hm
    rcases ih hm with ⟨e, he, hme⟩ | hm
    · exact .inl ⟨e, List.mem_cons_of_mem _ he, hme⟩
    · rcases mem_absent_gone.1 hm with hm | hm
      · exact .inl ⟨x, List.mem_cons_self .., hm⟩
      · exact .inr hm

theorem holdFlushed_held {l : Loc} {g : Ghost} {h : Str × Data × Why} (hh : h ∈ (holdFlushed l g).held) :
    (∃ e ∈ l, h = (e.2.name, e.2.data, Why.flushed)) ∨ h ∈ g.held := by
  unfold holdFlushed at hh
  induction l generalizing g with
  | nil => exact .inr hh
  | cons x xs ih =>
    rw [List.foldl_cons] at hh
    rcases ih hh with ⟨e, he, hhe⟩ | hh
    · exact .inl ⟨e, List.mem_cons_of_mem _ he, hhe⟩
    · rcases mem_hold_held.1 hh with hh | ⟨hh, _⟩
      · exact .inl ⟨x, List.mem_cons_self .., hh⟩
      · exact .inr hh

theorem holdFlushed_gone {l : Loc} {g : Ghost} {m : Str} (hm : m ∈ (holdFlushed l g).gone) : m ∈ g.gone := by
  unfold holdFlushed at hm
  induction l generalizing g with
  | nil => exact hm
  | cons x xs ih =>
    rw [List.foldl_cons] at hm
    exact (mem_hold_gone.1 (ih hm)).1

/-! ## 6. Every operation honours the judge and keeps the invariant -/

theorem data_upstream {c c' : Cond} (h : c'.data = c.data) : c'.upstream = c.upstream := congrArg Data.upstream h

theorem compat_forget (c : Cond) (g : Ghost) : Compat (Wc c) (fun _ => False) (g.forget c.name) := by
  refine ⟨fun it hit => ⟨fun h hh hn => ?_, fun hn => ?_⟩, fun _ hn => hn.elim⟩
  · exact absurd (hn.trans hit.1) (mem_forget_held.1 hh).2
  · exact (mem_forget_gone.1 hn).2 hit.1

theorem wc_wf {up : Str → Str} {c : Cond} (hu : c.upstream = up c.name) : ∀ it, Wc c it → it.upstream = up it.name := by
  intro it hit
  rw [data_upstream hit.2, hit.1, hu]

section
variable (sh : Str → Nat) (up : Str → Str)

/-- the shape of every per-operation statement: the judge holds at every crash point of the operation (with the
    claims suspended by `ghostPre`), and the invariant holds afterwards with the claims of `ghostPost` -/
def OpOk (g : Ghost) (st : Store) (w : World) (op : Op) (st' : Store) (w' : World) (res : Res) : Prop :=
  (∀ q ∈ (annotate (ghostPre sh st op g) (newPts w w')).1, Jp q.1 q.2) ∧
  Inv up (ghostPost sh st op res (annotate (ghostPre sh st op g) (newPts w w')).2) st' w'.api

theorem save_ok {g : Ghost} {st st' : Store} {w w' : World} {k : Str} {c : Cond} {res : Res}
    (hinv : Inv up g st w.api) (hwf : OpWf up (.save k c)) (h : save sh st k c w = (st', w', res)) :
    OpOk sh up g st w (.save k c) st' w' res := by
  obtain ⟨hk, hu⟩ := hwf
  unfold OpOk
  unfold save at h
  split at h
  · -- another shard's condition: refused before anything happens
    rename_i hsh
    cases h
    simp only [ghostPre, newPts_self, annotate, ghostPost]
    rw [if_pos hsh]
    exact ⟨fun q hq => (by cases hq), hinv⟩
  · rename_i hsh
    simp only [ghostPre]
    rw [if_neg hsh]
    split at h
    · -- write-through
      rename_i hwt
      cases hC : createOrUpdate st.cfg.steps c w with
      | mk w1 r =>
      rw [hC] at h
      obtain ⟨pts, hrun, hok⟩ := createOrUpdate_spec _ c w w1 r hC
      have hj := run_judge hrun (compat_forget c g) (hinv.jp.le (forget_le g c.name))
      have hle : Le (annotate (g.forget c.name) (newPts w w1)).2 g := (annotate_le _ _).trans (forget_le g c.name)
      have hawf : ApiWf up w1.api := path_apiWf hrun.2 (wc_wf hu) hinv.awf
      cases r with
      | error e =>
        simp only [] at h
        cases h
        simp only [ghostPost]
        exact ⟨hj.1, ⟨hj.2, hinv.gl.le hle, hinv.lwf, hinv.coh, hawf⟩⟩
      | ok c' =>
        simp only [] at h
        cases h
        obtain ⟨hholds, hc'⟩ := hok c' rfl
        have hk' : k = up c'.name := by rw [hc'.1, hk, hu]
        have hu' : c'.upstream = up c'.name := by rw [data_upstream hc'.2, hc'.1, hu]
        simp only [ghostPost, hwt, if_true]
        refine ⟨hj.1, ⟨⟨?_, ?_⟩, ⟨?_, ?_⟩, lput_wf hinv.lwf hk' hu', lput_coherent hinv.coh hinv.lwf hk', hawf⟩⟩
        · intro h hh
          rcases mem_hold_held.1 hh with rfl | ⟨hh, _⟩
          · exact hholds
          · exact hj.2.1 h hh
        · intro n hn
          exact hj.2.2 n (mem_hold_gone.1 hn).1
        · intro h hh e he hn
          rcases mem_hold_held.1 hh with rfl | ⟨hh, hne⟩
          · have := lput_named hinv.lwf hk' he (hn.trans hc'.1.symm)
            rw [this]; exact hc'.2
          · rcases mem_lput.1 he with rfl | ⟨he, _⟩
            · exact absurd (hn.symm.trans hc'.1) hne
            · exact hinv.gl.1 h (hle.1 h hh) e he hn
        · intro n hn e he hen
          obtain ⟨hn1, hne⟩ := mem_hold_gone.1 hn
          rcases mem_lput.1 he with rfl | ⟨he, _⟩
          · exact hne (hen.symm.trans hc'.1)
          · exact hinv.gl.2 n (hle.2 n hn1) e he hen
    · -- periodic: the cache only
      rename_i hwt
      cases h
      have hk' : k = up c.name := by rw [hk, hu]
      simp only [newPts_self, annotate, ghostPost, hwt, if_false]
      refine ⟨fun q hq => (by cases hq), ⟨hinv.jp.le (forget_le g c.name), ⟨?_, ?_⟩, lput_wf hinv.lwf hk' hu,
        lput_coherent hinv.coh hinv.lwf hk', hinv.awf⟩⟩
      · intro h hh e he hn
        obtain ⟨hh', hne⟩ := mem_forget_held.1 hh
        rcases mem_lput.1 he with rfl | ⟨he, _⟩
        · exact absurd hn.symm hne
        · exact hinv.gl.1 h hh' e he hn
      · intro n hn e he hen
        obtain ⟨hn', hne⟩ := mem_forget_gone.1 hn
        rcases mem_lput.1 he with rfl | ⟨he, _⟩
        · exact hne hen.symm
        · exact hinv.gl.2 n hn' e he hen

theorem wfalse_wf : ∀ it : Cond, (fun _ : Cond => False) it → it.upstream = up it.name := fun _ h => h.elim

theorem delete_ok {g : Ghost} {st st' : Store} {w w' : World} {k n : Str} {res : Res}
    (hinv : Inv up g st w.api) (hwf : OpWf up (.delete k n)) (h : delete st k n w = (st', w', res)) :
    OpOk sh up g st w (.delete k n) st' w' res := by
  have hk : k = up n := hwf
  unfold OpOk
  unfold delete at h
  simp only [ghostPre]
  cases hD : delLoop n st.cfg.steps w with
  | mk w1 r =>
  rw [hD] at h
  obtain ⟨pts, hrun, hok⟩ := delLoop_spec n _ w w1 r hD
  have hcompat : Compat (fun _ => False) (· = n) (g.unhold n) :=
    ⟨fun _ hit => hit.elim, fun m hm h hh => by rw [hm]; exact (mem_unhold_held.1 hh).2⟩
  have hj := run_judge hrun hcompat (hinv.jp.le (unhold_le g n))
  have hle : Le (annotate (g.unhold n) (newPts w w1)).2 g := (annotate_le _ _).trans (unhold_le g n)
  have hawf : ApiWf up w1.api := path_apiWf hrun.2 (wfalse_wf up) hinv.awf
  cases r with
  | error e =>
    simp only [] at h
    cases h
    simp only [ghostPost]
    exact ⟨hj.1, ⟨hj.2, hinv.gl.le hle, hinv.lwf, hinv.coh, hawf⟩⟩
  | ok u =>
    simp only [] at h
    cases h
    have hgone := (hok rfl).2
    have hsub : ∀ e ∈ ldel k n st.loc, e ∈ st.loc := fun e he => (mem_ldel.1 he).1
    simp only [ghostPost]
    refine ⟨hj.1, ⟨⟨?_, ?_⟩, ⟨?_, ?_⟩, hinv.lwf.sub hsub, hinv.coh.sub hsub, hawf⟩⟩
    · intro h hh
      exact hj.2.1 h (mem_absent_held.1 hh).1
    · intro m hm
      rcases mem_absent_gone.1 hm with rfl | hm
      · exact hgone
      · exact hj.2.2 m hm
    · intro h hh e he hn
      exact hinv.gl.1 h (hle.1 h (mem_absent_held.1 hh).1) e (hsub e he) hn
    · intro m hm e he hen
      rcases mem_absent_gone.1 hm with rfl | hm
      · obtain ⟨hel, hne⟩ := mem_ldel.1 he
        exact hne ⟨by rw [(hinv.lwf e hel).1, hen, hk], hen⟩
      · exact hinv.gl.2 m (hle.2 m hm) e (hsub e he) hen

/-- names of a list of cache entries -/
def Named (l : Loc) (n : Str) : Prop := ∃ e ∈ l, e.2.name = n

theorem delAll_spec (steps : Nat) : ∀ (l : Loc) (w w' : World) (r : Except Err Unit),
    delAll steps l w = (w', r) →
    ∃ pts, Run (fun _ => False) (Named l) (Named l) w pts w' ∧ (r = .ok () → ∀ e ∈ l, w'.api.get e.2.name = none) := by
  intro l
  induction l with
  | nil =>
    intro w w' r h
    simp only [delAll] at h
    cases h
    exact ⟨[], Run.refl _ _ _ _, fun _ e he => by cases he⟩
  | cons x xs ih =>
    intro w w' r h
    simp only [delAll] at h
    cases hD : delLoop x.2.name steps w with
    | mk w1 r1 =>
    rw [hD] at h
    obtain ⟨p1, hr1, hok1⟩ := delLoop_spec x.2.name _ w w1 r1 hD
    have hx : ∀ n, n = x.2.name → Named (x :: xs) n := fun n hn => ⟨x, List.mem_cons_self .., hn.symm⟩
    have hr1' : Run (fun _ => False) (Named (x :: xs)) (Named (x :: xs)) w p1 w1 := hr1.mono (fun _ h => h) hx hx
    cases r1 with
    | error e =>
      simp only [] at h
      cases h
      exact ⟨p1, hr1', fun hx => by cases hx⟩
    | ok u =>
      simp only [] at h
      obtain ⟨p2, hr2, hok2⟩ := ih w1 w' r h
      have hxs : ∀ n, Named xs n → Named (x :: xs) n := fun n ⟨e, he, hn⟩ => ⟨e, List.mem_cons_of_mem _ he, hn⟩
      refine ⟨p1 ++ p2, hr1'.trans (hr2.mono (fun _ h => h) hxs hxs), ?_⟩
      intro hr e he
      rcases List.mem_cons.1 he with rfl | he
      · exact path_absent hr2.2 (fun _ hit => hit.elim) (hok1 rfl).2
      · exact hok2 hr e he

theorem deleteUpstream_ok {g : Ghost} {st st' : Store} {w w' : World} {k : Str} {ord : List (Str × Str)} {res : Res}
    (hinv : Inv up g st w.api) (h : deleteUpstream st k ord w = (st', w', res)) :
    OpOk sh up g st w (.deleteUpstream k ord) st' w' res := by
  unfold OpOk
  unfold deleteUpstream at h
  simp only [ghostPre]
  cases hD : delAll st.cfg.steps (arrange ord (llistUp k st.loc)) w with
  | mk w1 r =>
  rw [hD] at h
  obtain ⟨pts, hrun, hok⟩ := delAll_spec _ _ w w1 r hD
  have hcompat : Compat (fun _ => False) (Named (arrange ord (llistUp k st.loc)))
      ((llistUp k st.loc).foldl (fun g e => g.unhold e.2.name) g) := by
    refine ⟨fun _ hit => hit.elim, ?_⟩
    rintro m ⟨e, he, hm⟩ h hh
    rw [← hm]
    exact (foldUnhold_held.1 hh).2 e (mem_arrange.1 he)
  have hj := run_judge hrun hcompat (hinv.jp.le (foldUnhold_le _ g))
  have hle : Le (annotate ((llistUp k st.loc).foldl (fun g e => g.unhold e.2.name) g) (newPts w w1)).2 g :=
    (annotate_le _ _).trans (foldUnhold_le _ g)
  have hawf : ApiWf up w1.api := path_apiWf hrun.2 (wfalse_wf up) hinv.awf
  cases r with
  | error e =>
    simp only [] at h
    cases h
    simp only [ghostPost]
    exact ⟨hj.1, ⟨hj.2, hinv.gl.le hle, hinv.lwf, hinv.coh, hawf⟩⟩
  | ok u =>
    simp only [] at h
    cases h
    have hsub : ∀ e ∈ ldelUp k st.loc, e ∈ st.loc := fun e he => (mem_ldelUp.1 he).1
    simp only [ghostPost]
    refine ⟨hj.1, ⟨⟨?_, ?_⟩, ⟨?_, ?_⟩, hinv.lwf.sub hsub, hinv.coh.sub hsub, hawf⟩⟩
    · intro h hh
      exact hj.2.1 h (foldAbsent_held hh)
    · intro m hm
      rcases foldAbsent_gone hm with ⟨e, he, rfl⟩ | hm
      · exact hok rfl e (mem_arrange.2 he)
      · exact hj.2.2 m hm
    · intro h hh e he hn
      exact hinv.gl.1 h (hle.1 h (foldAbsent_held hh)) e (hsub e he) hn
    · intro m hm e he hen
      rcases foldAbsent_gone hm with ⟨e0, he0, rfl⟩ | hm
      · obtain ⟨hel, hne⟩ := mem_ldelUp.1 he
        obtain ⟨he0l, he0k⟩ := mem_llistUp.1 he0
        exact hne (by rw [(hinv.lwf e hel).1, hen, ← (hinv.lwf e0 he0l).1, he0k])
      · exact hinv.gl.2 m (hle.2 m hm) e (hsub e he) hen

/-- what a flush of the snapshot `l` writes -/
def Wl (l : Loc) (it : Cond) : Prop := ∃ e ∈ l, Wc e.2 it

theorem syncAll_spec (shard steps : Nat) : ∀ (l : Loc) (w w' : World) (r : Except Err Unit),
    syncAll sh shard steps l w = (w', r) →
    ∃ pts, Run (Wl l) (fun _ => False) (Named l) w pts w' ∧
      (r = .ok () → Coherent l → ∀ e ∈ l, sh e.2.upstream = shard → holds w'.api e.2.name e.2.data) := by
  intro l
  induction l with
  | nil =>
    intro w w' r h
    simp only [syncAll] at h
    cases h
    exact ⟨[], Run.refl _ _ _ _, fun _ _ e he => by cases he⟩
  | cons x xs ih =>
    intro w w' r h
    have hW : ∀ it, Wl xs it → Wl (x :: xs) it := fun it ⟨e, he, hit⟩ => ⟨e, List.mem_cons_of_mem _ he, hit⟩
    have hN : ∀ n, Named xs n → Named (x :: xs) n := fun n ⟨e, he, hn⟩ => ⟨e, List.mem_cons_of_mem _ he, hn⟩
    simp only [syncAll] at h
    split at h
    · -- another shard's entry: skipped
      rename_i hsh
      obtain ⟨pts, hrun, hok⟩ := ih w w' r h
      refine ⟨pts, hrun.mono hW (fun _ h => h) hN, ?_⟩
      intro hr hcoh e he hown
      rcases List.mem_cons.1 he with rfl | he
      · exact absurd hown hsh
      · exact hok hr (hcoh.sub (fun e he => List.mem_cons_of_mem _ he)) e he hown
    · cases hC : createOrUpdate steps x.2 w with
      | mk w1 r1 =>
      rw [hC] at h
      obtain ⟨p1, hr1, hok1⟩ := createOrUpdate_spec _ x.2 w w1 r1 hC
      have hr1' : Run (Wl (x :: xs)) (fun _ => False) (Named (x :: xs)) w p1 w1 :=
        hr1.mono (fun it hit => ⟨x, List.mem_cons_self .., hit⟩) (fun _ h => h) (fun n hn => ⟨x, List.mem_cons_self .., hn.symm⟩)
      cases r1 with
      | error e =>
        simp only [] at h
        cases h
        exact ⟨p1, hr1', fun hx => by cases hx⟩
      | ok c' =>
        simp only [] at h
        obtain ⟨p2, hr2, hok2⟩ := ih w1 w' r h
        refine ⟨p1 ++ p2, hr1'.trans (hr2.mono hW (fun _ h => h) hN), ?_⟩
        intro hr hcoh e he hown
        have hcohxs : Coherent xs := hcoh.sub (fun e he => List.mem_cons_of_mem _ he)
        rcases List.mem_cons.1 he with rfl | he
        · by_cases hex : ∃ e' ∈ xs, e'.2.name = e.2.name
          · obtain ⟨e', he', hn⟩ := hex
            have hd : e'.2.data = e.2.data := hcoh e' (List.mem_cons_of_mem _ he') e (List.mem_cons_self ..) hn
            have hown' : sh e'.2.upstream = shard := by rw [data_upstream hd]; exact hown
            have := hok2 hr hcohxs e' he' hown'
            rw [hn, hd] at this
            exact this
          · apply path_holds hr2.2 _ (fun h => h) _ (hok1 c' rfl).1
            · rintro it ⟨e', he', hit⟩ hn
              exact absurd ⟨e', he', hit.1.symm.trans hn⟩ hex
            · rintro ⟨e', he', hn⟩
              exact hex ⟨e', he', hn⟩
        · exact hok2 hr hcohxs e he hown

theorem compat_of_gl {g : Ghost} {l l' : Loc} (hgl : GL g l) (hs : ∀ e ∈ l', e ∈ l) : Compat (Wl l') (fun _ => False) g := by
  refine ⟨?_, fun _ hn => hn.elim⟩
  rintro it ⟨e, he, hit⟩
  refine ⟨fun h hh hn => ?_, fun hn => ?_⟩
  · rw [hit.2]
    exact (hgl.1 h hh e (hs e he) (hit.1.symm.trans hn.symm)).symm
  · exact hgl.2 _ hn e (hs e he) hit.1.symm

theorem wl_wf {l l' : Loc} (hw : LocWf up l) (hs : ∀ e ∈ l', e ∈ l) : ∀ it, Wl l' it → it.upstream = up it.name := by
  rintro it ⟨e, he, hit⟩
  rw [data_upstream hit.2, hit.1]
  exact (hw e (hs e he)).2

/-- the claims after a flush that answered nil -/
theorem inv_holdFlushed {g g' : Ghost} {st : Store} {a : Api} (hle : Le g' g) (hj : Jp g' a) (hgl : GL g st.loc)
    (hlwf : LocWf up st.loc) (hcoh : Coherent st.loc) (hawf : ApiWf up a) {own : Loc}
    (hown : ∀ e ∈ own, e ∈ st.loc ∧ holds a e.2.name e.2.data) : Inv up (holdFlushed own g') st a := by
  refine ⟨⟨?_, ?_⟩, ⟨?_, ?_⟩, hlwf, hcoh, hawf⟩
  · intro h hh
    rcases holdFlushed_held hh with ⟨e, he, rfl⟩ | hh
    · exact (hown e he).2
    · exact hj.1 h hh
  · intro m hm
    exact hj.2 m (holdFlushed_gone hm)
  · intro h hh e he hn
    rcases holdFlushed_held hh with ⟨e0, he0, rfl⟩ | hh
    · exact hcoh e he e0 (hown e0 he0).1 hn
    · exact hgl.1 h (hle.1 h hh) e he hn
  · intro m hm e he hen
    exact hgl.2 m (hle.2 m (holdFlushed_gone hm)) e he hen

theorem flush_ok {g : Ghost} {st st' : Store} {w w' : World} {ord : List (Str × Str)} {res : Res}
    (hinv : Inv up g st w.api) (h : flush sh st ord w = (st', w', res)) :
    OpOk sh up g st w (.flush ord) st' w' res := by
  unfold OpOk
  unfold flush at h
  simp only [ghostPre]
  cases hS : syncAll sh st.cfg.shard st.cfg.steps (arrange ord st.loc) w with
  | mk w1 r =>
  rw [hS] at h
  obtain ⟨pts, hrun, hok⟩ := syncAll_spec sh _ _ _ w w1 r hS
  have hsub : ∀ e ∈ arrange ord st.loc, e ∈ st.loc := fun e he => mem_arrange.1 he
  have hj := run_judge hrun (compat_of_gl hinv.gl hsub) hinv.jp
  have hle : Le (annotate g (newPts w w1)).2 g := annotate_le _ _
  have hawf : ApiWf up w1.api := path_apiWf hrun.2 (wl_wf up hinv.lwf hsub) hinv.awf
  cases r with
  | error e =>
    simp only [] at h
    cases h
    simp only [ghostPost]
    exact ⟨hj.1, ⟨hj.2, hinv.gl.le hle, hinv.lwf, hinv.coh, hawf⟩⟩
  | ok u =>
    simp only [] at h
    cases h
    simp only [ghostPost]
    refine ⟨hj.1, inv_holdFlushed up hle hj.2 hinv.gl hinv.lwf hinv.coh hawf ?_⟩
    intro e he
    obtain ⟨hel, hown⟩ := List.mem_filter.1 he
    exact ⟨hel, hok rfl (hinv.coh.sub hsub) e (mem_arrange.2 hel) (by simpa using hown)⟩

theorem stop_ok {g : Ghost} {st st' : Store} {w w' : World} {ord : List (Str × Str)} {res : Res}
    (hinv : Inv up g st w.api) (h : stop sh st ord w = (st', w', res)) :
    OpOk sh up g st w (.stop ord) st' w' res := by
  unfold OpOk
  unfold stop at h
  simp only [ghostPre]
  split at h
  · rename_i hst
    cases h
    simp only [newPts_self, annotate, ghostPost, hst, if_true]
    exact ⟨fun q hq => (by cases hq), hinv⟩
  · rename_i hst
    cases hS : syncAll sh st.cfg.shard st.cfg.steps (arrange ord st.loc) w with
    | mk w1 r =>
    rw [hS] at h
    obtain ⟨pts, hrun, hok⟩ := syncAll_spec sh _ _ _ w w1 r hS
    have hsub : ∀ e ∈ arrange ord st.loc, e ∈ st.loc := fun e he => mem_arrange.1 he
    have hj := run_judge hrun (compat_of_gl hinv.gl hsub) hinv.jp
    have hle : Le (annotate g (newPts w w1)).2 g := annotate_le _ _
    have hawf : ApiWf up w1.api := path_apiWf hrun.2 (wl_wf up hinv.lwf hsub) hinv.awf
    cases r with
    | error e =>
      simp only [] at h
      cases h
      simp only [ghostPost]
      exact ⟨hj.1, ⟨hj.2, hinv.gl.le hle, hinv.lwf, hinv.coh, hawf⟩⟩
    | ok u =>
      simp only [] at h
      cases h
      simp only [ghostPost, hst]
      refine ⟨hj.1, ?_⟩
      have := inv_holdFlushed up (st := st) (own := ownEntries sh st) hle hj.2 hinv.gl hinv.lwf hinv.coh hawf (by
        intro e he
        obtain ⟨hel, hown⟩ := List.mem_filter.1 he
        exact ⟨hel, hok rfl (hinv.coh.sub hsub) e (mem_arrange.2 hel) (by simpa using hown)⟩)
      exact ⟨this.jp, this.gl, this.lwf, this.coh, this.awf⟩

theorem loadAll_inv {g : Ghost} {a : Api} (shard : Nat) (hj : Jp g a) (hawf : ApiWf up a) :
    ∀ (items : List Cond) (l : Loc), (∀ c ∈ items, c ∈ a.objs) → GL g l → LocWf up l → Coherent l →
      GL g (loadAll sh shard items l) ∧ LocWf up (loadAll sh shard items l) ∧ Coherent (loadAll sh shard items l) := by
  intro items
  induction items with
  | nil => intro l _ h1 h2 h3; exact ⟨h1, h2, h3⟩
  | cons c rest ih =>
    intro l hitems h1 h2 h3
    have hrest : ∀ c ∈ rest, c ∈ a.objs := fun c hc => hitems c (List.mem_cons_of_mem _ hc)
    simp only [loadAll]
    split
    · exact ih l hrest h1 h2 h3
    · have hc : c ∈ a.objs := hitems c (List.mem_cons_self ..)
      have hk : c.upstream = up c.name := hawf.1 c hc
      apply ih _ hrest _ (lput_wf h2 hk hk) (lput_coherent h3 h2 hk)
      constructor
      · intro h hh e he hn
        rcases mem_lput.1 he with rfl | ⟨he, _⟩
        · obtain ⟨c0, hg, hd⟩ := hj.1 h hh
          have hn' : c.name = h.1 := hn
          rw [← hn', hawf.2 c hc] at hg
          cases hg
          exact hd
        · exact h1.1 h hh e he hn
      · intro n hn e he hen
        rcases mem_lput.1 he with rfl | ⟨he, _⟩
        · have := hj.2 n hn
          have hen' : c.name = n := hen
          rw [← hen', hawf.2 c hc] at this
          cases this
        · exact h1.2 n hn e he hen

theorem load_ok {g : Ghost} {st st' : Store} {w w' : World} {res : Res}
    (hinv : Inv up g st w.api) (h : load sh st w = (st', w', res)) :
    OpOk sh up g st w .load st' w' res := by
  unfold OpOk
  unfold load at h
  simp only [ghostPre]
  cases hL : apiList w with
  | mk w1 r =>
  rw [hL] at h
  obtain ⟨p, hrun, hsame, hitems⟩ := apiList_spec w w1 r hL
  have hcompat : Compat (fun _ => False) (fun _ => False) g := ⟨fun _ hit => hit.elim, fun _ hn => hn.elim⟩
  have hj := run_judge hrun hcompat hinv.jp
  have hle : Le (annotate g (newPts w w1)).2 g := annotate_le _ _
  have hawf : ApiWf up w1.api := hsame ▸ hinv.awf
  cases r with
  | error e =>
    simp only [] at h
    cases h
    simp only [ghostPost]
    exact ⟨hj.1, ⟨hj.2, hinv.gl.le hle, hinv.lwf, hinv.coh, hawf⟩⟩
  | ok items =>
    have hi : ∀ c ∈ items, c ∈ w1.api.objs := by
      intro c hc
      rw [hitems items rfl] at hc
      rw [hsame]; exact hc
    simp only [] at h
    cases h
    simp only [ghostPost]
    obtain ⟨h1, h2, h3⟩ := loadAll_inv sh up st.cfg.shard hj.2 hawf items st.loc hi (hinv.gl.le hle) hinv.lwf hinv.coh
    exact ⟨hj.1, ⟨hj.2, h1, h2, h3, hawf⟩⟩

theorem step_ok0 {g : Ghost} {st st' : Store} {w w' : World} {op : Op} {res : Res}
    (hinv : Inv up g st w.api) (hwf : OpWf up op) (hnss : ∀ k n a b c, op ≠ .saveStored k n a b c) (h : step sh st op w = (st', w', res)) :
    OpOk sh up g st w op st' w' res := by
  cases op with
  | saveStored k n a b c => exact absurd rfl (hnss k n a b c)
  | save k c => exact save_ok sh up hinv hwf h
  | delete k n => exact delete_ok sh up hinv hwf h
  | deleteUpstream k ord => exact deleteUpstream_ok sh up hinv h
  | flush ord => exact flush_ok sh up hinv h
  | stop ord => exact stop_ok sh up hinv h
  | load => exact load_ok sh up hinv h
  | restart s wt =>
    simp only [step] at h
    cases h
    unfold OpOk
    simp only [ghostPre, ghostPost, newPts_self, annotate]
    refine ⟨fun q hq => (by cases hq), ⟨hinv.jp, ⟨?_, ?_⟩, ?_, ?_, hinv.awf⟩⟩
    · intro h _ e he; cases he
    · intro n _ e he; cases he
    · intro e he; cases he
    · intro e he; cases he

theorem lget_some {k n : Str} {l : Loc} {c : Cond} (h : lget k n l = some c) : (k, c) ∈ l ∧ c.name = n := by
  unfold lget at h
  cases hf : l.find? (sameKey k n) with
  | none => rw [hf] at h; cases h
  | some e =>
    rw [hf] at h
    cases h
    have hm := List.mem_of_find?_eq_some hf
    have hp := List.find?_some hf
    simp only [sameKey, decide_eq_true_eq] at hp
    obtain ⟨e1, e2⟩ := e
    simp only at hp
    exact ⟨hp.1 ▸ hm, hp.2⟩

theorem edited_some {st st1 : Store} {k n : Str} {a b c : Nat} {c' : Cond} (h : edited st k n a b c = some (st1, c')) :
    ∃ c0, (k, c0) ∈ st.loc ∧ c0.name = n ∧ c'.name = n ∧ c'.upstream = c0.upstream ∧
      st1.cfg = st.cfg ∧ st1.stopped = st.stopped ∧ st1.loc = lput k c' st.loc := by
  unfold edited at h
  cases hg : lget k n st.loc with
  | none => rw [hg] at h; cases h
  | some c0 =>
    rw [hg] at h
    simp only [Option.some.injEq, Prod.mk.injEq] at h
    obtain ⟨rfl, rfl⟩ := h
    obtain ⟨hm, hn⟩ := lget_some hg
    exact ⟨c0, hm, hn, hn, rfl, rfl, rfl, rfl⟩

/-- the in-place change of a cached condition followed by the save of that pointer: nothing is claimed about the
    condition from the change on, so the invariant carries over to the cache as changed, and the rest is `Save` -/
theorem step_ok {g : Ghost} {st st' : Store} {w w' : World} {op : Op} {res : Res}
    (hinv : Inv up g st w.api) (hwf : OpWf up op) (h : step sh st op w = (st', w', res)) :
    OpOk sh up g st w op st' w' res := by
  cases op with
  | saveStored k  n  a  b  c =>
    have hk : k = up n := hwf
    simp only [step] at h
    cases hE : edited st k n a b c with
    | none =>
      rw [hE] at h
      cases h
      unfold OpOk
      simp only [ghostPre, ghostPost, hE, newPts_self, annotate]
      exact ⟨fun q hq => (by cases hq), hinv⟩
    | some p =>
      obtain ⟨st1, c'⟩ := p
      rw [hE] at h
      simp only [] at h
      obtain ⟨c0, hm, hn0, hn', hu', hcfg, _, hloc⟩ := edited_some hE
      have hu0 : c0.upstream = up n := by rw [← hn0]; exact (hinv.lwf _ hm).2
      have hk' : k = up c'.name := by rw [hn', hk]
      have hup' : c'.upstream = up c'.name := by rw [hu', hu0, hn']
      have hinv1 : Inv up (g.forget n) st1 w.api := by
        refine ⟨hinv.jp.le (forget_le g n), ⟨?_, ?_⟩, ?_, ?_, hinv.awf⟩
        · intro h hh e he hn
          obtain ⟨hh', hne⟩ := mem_forget_held.1 hh
          rw [hloc] at he
          rcases mem_lput.1 he with rfl | ⟨he, _⟩
          · exact absurd (hn.symm.trans hn') hne
          · exact hinv.gl.1 h hh' e he hn
        · intro m hm' e he hen
          obtain ⟨hm'', hne⟩ := mem_forget_gone.1 hm'
          rw [hloc] at he
          rcases mem_lput.1 he with rfl | ⟨he, _⟩
          · exact hne (hen.symm.trans hn')
          · exact hinv.gl.2 m hm'' e he hen
        · rw [hloc]; exact lput_wf hinv.lwf hk' hup'
        · rw [hloc]; exact lput_coherent hinv.coh hinv.lwf hk'
      have hok := save_ok sh up hinv1 (show OpWf up (.save k c') from ⟨by rw [hk', hup'], hup'⟩) h
      unfold OpOk at hok ⊢
      have hpre : ghostPre sh st (.saveStored k n a b c) g = ghostPre sh st1 (.save k c') (g.forget n) := by
        simp only [ghostPre, hE, hcfg]
      have hpost : ∀ x, ghostPost sh st (.saveStored k n a b c) res x = ghostPost sh st1 (.save k c') res x := by
        intro x
        cases res <;> simp only [ghostPost, hE, hcfg]
      rw [hpre, hpost]
      exact hok
  | _ => exact step_ok0 sh up hinv hwf (fun _ _ _ _ _ hh => by cases hh) h

/-! ## 7. A call of another goroutine inside a running flush -/

theorem syncAll_append (shard steps : Nat) : ∀ (l1 l2 : Loc) (w : World),
    syncAll sh shard steps (l1 ++ l2) w =
      match syncAll sh shard steps l1 w with
      | (w1, .error e) => (w1, .error e)
      | (w1, .ok _) => syncAll sh shard steps l2 w1 := by
  intro l1
  induction l1 with
  | nil => intro l2 w; simp [syncAll]
  | cons x xs ih =>
    intro l2 w
    simp only [List.cons_append, syncAll]
    split
    · exact ih l2 w
    · cases hC : createOrUpdate steps x.2 w with
      | mk w1 r1 =>
      cases r1 with
      | error e => simp
      | ok c' => simp only []; exact ih l2 w1

theorem inv_holdFlushed' {g g' : Ghost} {st : Store} {a : Api} (hle : Le g' g) (hj : Jp g' a) (hgl : GL g st.loc)
    (hlwf : LocWf up st.loc) (hcoh : Coherent st.loc) (hawf : ApiWf up a) {own : Loc}
    (hown : ∀ e ∈ own, holds a e.2.name e.2.data ∧ ∀ e' ∈ st.loc, e'.2.name = e.2.name → e'.2.data = e.2.data) :
    Inv up (holdFlushed own g') st a := by
  refine ⟨⟨?_, ?_⟩, ⟨?_, ?_⟩, hlwf, hcoh, hawf⟩
  · intro h hh
    rcases holdFlushed_held hh with ⟨e, he, rfl⟩ | hh
    · exact (hown e he).1
    · exact hj.1 h hh
  · intro m hm
    exact hj.2 m (holdFlushed_gone hm)
  · intro h hh e he hn
    rcases holdFlushed_held hh with ⟨e0, he0, rfl⟩ | hh
    · exact (hown e0 he0).2 e he hn
    · exact hgl.1 h (hle.1 h hh) e he hn
  · intro m hm e he hen
    exact hgl.2 m (hle.2 m (holdFlushed_gone hm)) e he hen

/-- the outcomes of the flush loop with a window -/
theorem syncWindow_cases {st st2 : Store} {snap : Loc} {at_ : Nat} {intr : Op} {w w3 : World} {r : Except Err Unit}
    {ir : Option (Res × World × World)} (h : syncWindow sh st snap at_ intr w = (st2, w3, r, ir)) :
    (ir = none ∧ st2 = st ∧ syncAll sh st.cfg.shard st.cfg.steps snap w = (w3, r)) ∨
    (∃ ires w1 w2 u, ir = some (ires, w1, w2) ∧ syncAll sh st.cfg.shard st.cfg.steps (snap.take at_) w = (w1, .ok u) ∧
      step sh st intr w1 = (st2, w2, ires) ∧ syncAll sh st.cfg.shard st.cfg.steps (snap.drop at_) w2 = (w3, r)) := by
  unfold syncWindow at h
  split at h
  · left
    cases hS : syncAll sh st.cfg.shard st.cfg.steps snap w with
    | mk w1 r1 =>
    rw [hS] at h
    cases h
    exact ⟨rfl, rfl, rfl⟩
  · cases hS : syncAll sh st.cfg.shard st.cfg.steps (snap.take at_) w with
    | mk w1 r1 =>
    rw [hS] at h
    cases r1 with
    | error e =>
      left
      simp only [] at h
      cases h
      refine ⟨rfl, rfl, ?_⟩
      have := syncAll_append sh st.cfg.shard st.cfg.steps (snap.take at_) (snap.drop at_) w
      rw [List.take_append_drop, hS] at this
      exact this
    | ok u =>
      right
      simp only [] at h
      cases hI : step sh st intr w1 with
      | mk st' rest =>
      obtain ⟨w2, ires⟩ := rest
      rw [hI] at h
      simp only [] at h
      cases hS2 : syncAll sh st.cfg.shard st.cfg.steps (snap.drop at_) w2 with
      | mk w3' r3 =>
      rw [hS2] at h
      cases h
      exact ⟨ires, w1, w2, u, rfl, rfl, hI, hS2⟩

theorem ghostPost_flush (st : Store) (ord : List (Str × Str)) (res : Res) (x : Ghost) :
    ghostPost sh st (.flush ord) res x = if res = .ok then holdFlushed (ownEntries sh st) x else x := by
  cases res <;> simp [ghostPost]

theorem ghostPost_stop (st : Store) (ord : List (Str × Str)) (res : Res) (x : Ghost) (hst : st.stopped = false) :
    ghostPost sh st (.stop ord) res x = if res = .ok then holdFlushed (ownEntries sh st) x else x := by
  cases res <;> simp [ghostPost, hst]

/-- a periodic `Save` touches nothing but the cache -/
theorem save_periodic {st st2 : Store} {k : Str} {c : Cond} {w w2 : World} {ires : Res} (hper : st.cfg.writeThrough = false)
    (h : step sh st (.save k c) w = (st2, w2, ires)) :
    w2 = w ∧ st2.cfg = st.cfg ∧ st2.stopped = st.stopped ∧ (∀ e ∈ st2.loc, e = (k, c) ∨ e ∈ st.loc) := by
  simp only [step, save, hper] at h
  split at h
  · cases h; exact ⟨rfl, rfl, rfl, fun e he => .inr he⟩
  · simp only [Bool.false_eq_true, if_false] at h
    cases h
    refine ⟨rfl, rfl, rfl, fun e he => ?_⟩
    rcases mem_lput.1 he with rfl | ⟨he, _⟩
    · exact .inl rfl
    · exact .inr he

theorem ghostPost_save_periodic (st : Store) (k : Str) (c : Cond) (res : Res) (x : Ghost) (hper : st.cfg.writeThrough = false) :
    ghostPost sh st (.save k c) res x = x := by
  cases res <;> simp [ghostPost, hper]

theorem ghostPre_save_le (st : Store) (k : Str) (c : Cond) (x : Ghost) : Le (ghostPre sh st (.save k c) x) x := by
  simp only [ghostPre]
  split
  · exact Le.refl _
  · exact forget_le _ _

/-- The core of `checkObs` for a flush in whose window a periodic `Save` ran: every point honours the judge, and the
    invariant holds afterwards. -/
theorem window_ok {g : Ghost} {st st2 : Store} {w w1 w2 w3 : World} {ord : List (Str × Str)} {at_ : Nat} {k : Str} {c : Cond}
    {ires : Res} {r : Except Err Unit} {u : Unit}
    (hinv : Inv up g st w.api) (hwf : OpWf up (.save k c)) (hper : st.cfg.writeThrough = false)
    (h1 : syncAll sh st.cfg.shard st.cfg.steps ((arrange ord st.loc).take at_) w = (w1, .ok u))
    (hI : step sh st (.save k c) w1 = (st2, w2, ires))
    (h3 : syncAll sh st.cfg.shard st.cfg.steps ((arrange ord st.loc).drop at_) w2 = (w3, r)) :
    let a1 := annotate g (newPts w w1)
    let a2 := annotate (ghostPre sh st (.save k c) a1.2) (newPts w1 w2)
    let gc := ghostPost sh st (.save k c) ires a2.2
    let a3 := annotate gc (newPts w2 w3)
    let own := (ownEntries sh st).filter (fun e => ! (raced (.save k c)).contains e.2.name)
    let ge := if (match r with | .ok _ => Res.ok | .error _ => Res.err .other) = Res.ok then holdFlushed own a3.2 else a3.2
    (∀ q ∈ a1.1 ++ a2.1 ++ a3.1, Jp q.1 q.2) ∧ Inv up ge st2 w3.api := by
  intro a1 a2 gc a3 own ge
  have hsub : ∀ e ∈ arrange ord st.loc, e ∈ st.loc := fun e he => mem_arrange.1 he
  have hsub1 : ∀ e ∈ (arrange ord st.loc).take at_, e ∈ st.loc := fun e he => hsub e (List.mem_of_mem_take he)
  have hsub3 : ∀ e ∈ (arrange ord st.loc).drop at_, e ∈ st.loc := fun e he => hsub e (List.mem_of_mem_drop he)
  -- before the window
  obtain ⟨p1, hrun1, _⟩ := syncAll_spec sh _ _ _ w w1 _ h1
  have hj1 := run_judge hrun1 (compat_of_gl hinv.gl hsub1) hinv.jp
  have hle1 : Le a1.2 g := annotate_le _ _
  have hawf1 : ApiWf up w1.api := path_apiWf hrun1.2 (wl_wf up hinv.lwf hsub1) hinv.awf
  have hinv1 : Inv up a1.2 st w1.api := ⟨hj1.2, hinv.gl.le hle1, hinv.lwf, hinv.coh, hawf1⟩
  -- the intruder
  have hI' := step_ok sh up hinv1 hwf hI
  obtain ⟨hw2, _, _, hloc2⟩ := save_periodic sh hper hI
  have hinv2 : Inv up gc st2 w2.api := hI'.2
  have hgc : gc = a2.2 := ghostPost_save_periodic sh st k c ires a2.2 hper
  have hlec : Le gc g := by
    rw [hgc]
    exact ((annotate_le _ _).trans (ghostPre_save_le sh st k c a1.2)).trans hle1
  -- after the window
  obtain ⟨p3, hrun3, hok3⟩ := syncAll_spec sh _ _ _ w2 w3 r h3
  have hj3 := run_judge hrun3 ((compat_of_gl hinv.gl hsub3).le hlec) hinv2.jp
  have hle3 : Le a3.2 gc := annotate_le _ _
  have hawf3 : ApiWf up w3.api := path_apiWf hrun3.2 (wl_wf up hinv.lwf hsub3) hinv2.awf
  refine ⟨?_, ?_⟩
  · intro q hq
    rcases List.mem_append.1 hq with hq | hq
    · rcases List.mem_append.1 hq with hq | hq
      · exact hj1.1 q hq
      · exact hI'.1 q hq
    · exact hj3.1 q hq
  · show Inv up ge st2 w3.api
    cases r with
    | error e =>
      have : ge = a3.2 := by simp [ge]
      rw [this]
      exact ⟨hj3.2, hinv2.gl.le hle3, hinv2.lwf, hinv2.coh, hawf3⟩
    | ok u3 =>
      have : ge = holdFlushed own a3.2 := by simp [ge]
      rw [this]
      apply inv_holdFlushed' up hle3 hj3.2 hinv2.gl hinv2.lwf hinv2.coh hawf3
      intro e he
      obtain ⟨heo, hraced⟩ := List.mem_filter.1 he
      obtain ⟨hel, hown⟩ := List.mem_filter.1 heo
      have hne : ¬ e.2.name = c.name := by
        intro hn
        simp [raced, hn] at hraced
      constructor
      · -- the whole snapshot was written: the two halves are one flush (the periodic Save made no call)
        have hall := syncAll_append sh st.cfg.shard st.cfg.steps ((arrange ord st.loc).take at_) ((arrange ord st.loc).drop at_) w
        rw [List.take_append_drop, h1] at hall
        simp only [] at hall
        rw [← hw2, h3] at hall
        obtain ⟨_, _, hokall⟩ := syncAll_spec sh _ _ _ w w3 _ hall
        exact hokall rfl (hinv.coh.sub hsub) e (mem_arrange.2 hel) (by simpa using hown)
      · intro e' he' hn
        rcases hloc2 e' he' with rfl | he'
        · exact absurd hn.symm hne
        · exact hinv.coh e' he' e hel hn

/-! ## 7b. Every call sequence is a path; names stay unique; absent stays absent at every point -/

theorem path_absent_pts {W : Cond → Prop} {D V : Str → Prop} {a a' : Api} {pts : List Pt} {n : Str}
    (hp : Path W D V a pts a') (hW : ∀ it, W it → ¬ it.name = n) (h : a.get n = none) :
    ∀ p ∈ pts, p.api.get n = none := by
  induction hp with
  | nil a => intro p hp; cases hp
  | cons hs hrest ih =>
    rename_i a0 p0 ps0 a1
    have h0 : p0.api.get n = none := path_absent (.cons hs (.nil _)) hW h
    intro p hp
    rcases List.mem_cons.1 hp with rfl | hp
    · exact h0
    · exact ih h0 p hp

/-- no two objects of the API carry the same name -/
def ApiNodup (a : Api) : Prop := a.objs.Pairwise (fun c d => ¬ c.name = d.name)

theorem nodup_write {a : Api} (c : Cond) (h : ApiNodup a) : ApiNodup (a.write c) := by
  unfold ApiNodup Api.write
  simp only [List.pairwise_cons]
  refine ⟨?_, h.sublist List.filter_sublist⟩
  intro d hd
  have := (List.mem_filter.1 hd).2
  intro e
  simp [e] at this

theorem nodup_remove {a : Api} (n : Str) (h : ApiNodup a) : ApiNodup (a.remove n) := by
  unfold ApiNodup Api.remove
  exact h.sublist List.filter_sublist

theorem path_nodup {W : Cond → Prop} {D V : Str → Prop} {a a' : Api} {pts : List Pt}
    (hp : Path W D V a pts a') (h : ApiNodup a) : (∀ p ∈ pts, ApiNodup p.api) ∧ ApiNodup a' := by
  induction hp with
  | nil a => exact ⟨fun p hp => (by cases hp), h⟩
  | cons hs hrest ih =>
    rename_i a0 p0 ps0 a1
    have h0 : ApiNodup p0.api := by
      cases hs with
      | same hv ha => rw [ha]; exact h
      | wr it hw hv ha => rw [ha]; exact nodup_write it h
      | rm n hd hv ha => rw [ha]; exact nodup_remove n h
      | ext n hx hv ha => rw [ha]; exact nodup_remove n h
    obtain ⟨h1, h2⟩ := ih h0
    refine ⟨?_, h2⟩
    intro p hp
    rcases List.mem_cons.1 hp with rfl | hp
    · exact h0
    · exact h1 p hp

/-- `AnyRun w pts w'`: the world went from `w` to `w'` by some calls -/
abbrev AnyRun (w : World) (pts : List Pt) (w' : World) : Prop := Run (fun _ => True) (fun _ => True) (fun _ => True) w pts w'

theorem Run.any {W : Cond → Prop} {D V : Str → Prop} {w w' : World} {pts : List Pt} (h : Run W D V w pts w') : AnyRun w pts w' :=
  h.mono (fun _ _ => trivial) (fun _ _ => trivial) (fun _ _ => trivial)

theorem step_run0 {st st' : Store} {op : Op} {w w' : World} {res : Res} (hnss : ∀ k n a b c, op ≠ .saveStored k n a b c) (h : step sh st op w = (st', w', res)) :
    ∃ pts, AnyRun w pts w' := by
  cases op with
  | saveStored k n a b c => exact absurd rfl (hnss k n a b c)
  | save k c =>
    simp only [step, save] at h
    split at h
    · cases h; exact ⟨[], Run.refl _ _ _ _⟩
    · split at h
      · cases hC : createOrUpdate st.cfg.steps c w with
        | mk w1 r =>
        rw [hC] at h
        obtain ⟨pts, hr, _⟩ := createOrUpdate_spec _ c w w1 r hC
        cases r <;> (simp only [] at h; cases h; exact ⟨pts, hr.any⟩)
      · cases h; exact ⟨[], Run.refl _ _ _ _⟩
  | delete k n =>
    simp only [step, delete] at h
    cases hD : delLoop n st.cfg.steps w with
    | mk w1 r =>
    rw [hD] at h
    obtain ⟨pts, hr, _⟩ := delLoop_spec n _ w w1 r hD
    cases r <;> (simp only [] at h; cases h; exact ⟨pts, hr.any⟩)
  | deleteUpstream k ord =>
    simp only [step, deleteUpstream] at h
    cases hD : delAll st.cfg.steps (arrange ord (llistUp k st.loc)) w with
    | mk w1 r =>
    rw [hD] at h
    obtain ⟨pts, hr, _⟩ := delAll_spec _ _ w w1 r hD
    cases r <;> (simp only [] at h; cases h; exact ⟨pts, hr.any⟩)
  | flush ord =>
    simp only [step, flush] at h
    cases hS : syncAll sh st.cfg.shard st.cfg.steps (arrange ord st.loc) w with
    | mk w1 r =>
    rw [hS] at h
    obtain ⟨pts, hr, _⟩ := syncAll_spec sh _ _ _ w w1 r hS
    cases r <;> (simp only [] at h; cases h; exact ⟨pts, hr.any⟩)
  | stop ord =>
    simp only [step, stop] at h
    split at h
    · cases h; exact ⟨[], Run.refl _ _ _ _⟩
    · cases hS : syncAll sh st.cfg.shard st.cfg.steps (arrange ord st.loc) w with
      | mk w1 r =>
      rw [hS] at h
      obtain ⟨pts, hr, _⟩ := syncAll_spec sh _ _ _ w w1 r hS
      cases r <;> (simp only [] at h; cases h; exact ⟨pts, hr.any⟩)
  | load =>
    simp only [step, load] at h
    cases hL : apiList w with
    | mk w1 r =>
    rw [hL] at h
    obtain ⟨p, hr, _, _⟩ := apiList_spec w w1 r hL
    cases r <;> (simp only [] at h; cases h; exact ⟨[p], hr.any⟩)
  | restart s wt =>
    simp only [step] at h
    cases h; exact ⟨[], Run.refl _ _ _ _⟩

theorem step_run {st st' : Store} {op : Op} {w w' : World} {res : Res} (h : step sh st op w = (st', w', res)) :
    ∃ pts, AnyRun w pts w' := by
  cases op with
  | saveStored k  n  a  b  c =>
    simp only [step] at h
    cases hE : edited st k n a b c with
    | none => rw [hE] at h; cases h; exact ⟨[], Run.refl _ _ _ _⟩
    | some p =>
      obtain ⟨st1, c'⟩ := p
      rw [hE] at h
      exact step_run0 sh (op := .save k c') (fun _ _ _ _ _ hh => by cases hh) h
  | _ => exact step_run0 sh (fun _ _ _ _ _ hh => by cases hh) h

theorem stepI_run {st st' : Store} {op : OpI} {w w' : World} {res : Res} {ir : Option (Res × World × World)}
    (h : stepI sh st op w = (st', w', res, ir)) : ∃ pts, AnyRun w pts w' := by
  have hwin : ∀ {st st2 : Store} {snap : Loc} {at_ : Nat} {intr : Op} {w w3 : World} {r : Except Err Unit}
      {ir : Option (Res × World × World)}, syncWindow sh st snap at_ intr w = (st2, w3, r, ir) → ∃ pts, AnyRun w pts w3 := by
    intro st st2 snap at_ intr w w3 r ir hS
    rcases syncWindow_cases sh hS with ⟨_, _, hall⟩ | ⟨ires, w1, w2, u, _, h1, hI, h3⟩
    · obtain ⟨pts, hr, _⟩ := syncAll_spec sh _ _ _ w w3 r hall
      exact ⟨pts, hr.any⟩
    · obtain ⟨p1, hr1, _⟩ := syncAll_spec sh _ _ _ w w1 _ h1
      obtain ⟨p2, hr2⟩ := step_run sh hI
      obtain ⟨p3, hr3, _⟩ := syncAll_spec sh _ _ _ w2 w3 r h3
      exact ⟨p1 ++ p2 ++ p3, (hr1.any.trans hr2).trans hr3.any⟩
  cases op with
  | plain op =>
    cases hS : step sh st op w with
    | mk st1 rest =>
    obtain ⟨w1, r⟩ := rest
    simp only [stepI, hS] at h
    cases h
    exact step_run sh hS
  | flushI ord at_ intr =>
    cases hS : syncWindow sh st (arrange ord st.loc) at_ intr w with
    | mk st2 rest =>
    obtain ⟨w3, r, ir'⟩ := rest
    simp only [stepI, hS] at h
    obtain ⟨pts, hr⟩ := hwin hS
    cases r <;> (simp only [] at h; cases h; exact ⟨pts, hr⟩)
  | stopI ord at_ intr =>
    simp only [stepI] at h
    split at h
    · cases h; exact ⟨[], Run.refl _ _ _ _⟩
    · cases hS : syncWindow sh st (arrange ord st.loc) at_ intr w with
      | mk st2 rest =>
      obtain ⟨w3, r, ir'⟩ := rest
      rw [hS] at h
      obtain ⟨pts, hr⟩ := hwin hS
      cases r <;> (simp only [] at h; cases h; exact ⟨pts, hr⟩)

/-! ## 7c. A condition that is neither in the API nor in the cache stays so until it is saved again -/

/-- `n` is neither persisted nor cached -/
def Abs (n : Str) (st : Store) (a : Api) : Prop := a.get n = none ∧ ∀ e ∈ st.loc, ¬ e.2.name = n

def savesName (n : Str) : Op → Prop
  | .save _ c => c.name = n
  | .saveStored _ m _ _ _ => m = n
  | _ => False

def savesNameI (n : Str) : OpI → Prop
  | .plain op => savesName n op
  | .flushI _ _ i => savesName n i
  | .stopI _ _ i => savesName n i

theorem run_abs {W : Cond → Prop} {D V : Str → Prop} {w w' : World} {pts : List Pt} {n : Str}
    (hr : Run W D V w pts w') (hW : ∀ it, W it → ¬ it.name = n) (h : w.api.get n = none) :
    (∀ p ∈ pts, p.api.get n = none) ∧ w'.api.get n = none :=
  ⟨path_absent_pts hr.2 hW h, path_absent hr.2 hW h⟩

theorem wl_abs {l l' : Loc} {n : Str} (hl : ∀ e ∈ l, ¬ e.2.name = n) (hs : ∀ e ∈ l', e ∈ l) :
    ∀ it, Wl l' it → ¬ it.name = n := by
  rintro it ⟨e, he, hit⟩ hn
  exact hl e (hs e he) (hit.1.symm.trans hn)

theorem step_abs0 {n : Str} {st st' : Store} {op : Op} {w w' : World} {res : Res}
    (habs : Abs n st w.api) (hns : ¬ savesName n op) (hnss : ∀ k n a b c, op ≠ .saveStored k n a b c) (h : step sh st op w = (st', w', res)) :
    ∃ pts, AnyRun w pts w' ∧ (∀ p ∈ pts, p.api.get n = none) ∧ Abs n st' w'.api := by
  obtain ⟨ha, hl⟩ := habs
  cases op with
  | saveStored k n a b c => exact absurd rfl (hnss k n a b c)
  | save k c =>
    have hne : ¬ c.name = n := hns
    simp only [step, save] at h
    split at h
    · cases h; exact ⟨[], Run.refl _ _ _ _, fun p hp => (by cases hp), ha, hl⟩
    · split at h
      · cases hC : createOrUpdate st.cfg.steps c w with
        | mk w1 r =>
        rw [hC] at h
        obtain ⟨pts, hr, hok⟩ := createOrUpdate_spec _ c w w1 r hC
        obtain ⟨h1, h2⟩ := run_abs hr (fun it hit hn => hne (hit.1.symm.trans hn)) ha
        cases r with
        | error e => simp only [] at h; cases h; exact ⟨pts, hr.any, h1, h2, hl⟩
        | ok c' =>
          simp only [] at h
          cases h
          refine ⟨pts, hr.any, h1, h2, ?_⟩
          intro e he
          rcases mem_lput.1 he with rfl | ⟨he, _⟩
          · exact fun hn => hne ((hok c' rfl).2.1.symm.trans hn)
          · exact hl e he
      · cases h
        refine ⟨[], Run.refl _ _ _ _, fun p hp => (by cases hp), ha, ?_⟩
        intro e he
        rcases mem_lput.1 he with rfl | ⟨he, _⟩
        · exact hne
        · exact hl e he
  | delete k m =>
    simp only [step, delete] at h
    cases hD : delLoop m st.cfg.steps w with
    | mk w1 r =>
    rw [hD] at h
    obtain ⟨pts, hr, _⟩ := delLoop_spec m _ w w1 r hD
    obtain ⟨h1, h2⟩ := run_abs hr (fun _ hit => hit.elim) ha
    cases r with
    | error e => simp only [] at h; cases h; exact ⟨pts, hr.any, h1, h2, hl⟩
    | ok u => simp only [] at h; cases h; exact ⟨pts, hr.any, h1, h2, fun e he => hl e (mem_ldel.1 he).1⟩
  | deleteUpstream k ord =>
    simp only [step, deleteUpstream] at h
    cases hD : delAll st.cfg.steps (arrange ord (llistUp k st.loc)) w with
    | mk w1 r =>
    rw [hD] at h
    obtain ⟨pts, hr, _⟩ := delAll_spec _ _ w w1 r hD
    obtain ⟨h1, h2⟩ := run_abs hr (fun _ hit => hit.elim) ha
    cases r with
    | error e => simp only [] at h; cases h; exact ⟨pts, hr.any, h1, h2, hl⟩
    | ok u => simp only [] at h; cases h; exact ⟨pts, hr.any, h1, h2, fun e he => hl e (mem_ldelUp.1 he).1⟩
  | flush ord =>
    simp only [step, flush] at h
    cases hS : syncAll sh st.cfg.shard st.cfg.steps (arrange ord st.loc) w with
    | mk w1 r =>
    rw [hS] at h
    obtain ⟨pts, hr, _⟩ := syncAll_spec sh _ _ _ w w1 r hS
    obtain ⟨h1, h2⟩ := run_abs hr (wl_abs hl (fun e he => mem_arrange.1 he)) ha
    cases r <;> (simp only [] at h; cases h; exact ⟨pts, hr.any, h1, h2, hl⟩)
  | stop ord =>
    simp only [step, stop] at h
    split at h
    · cases h; exact ⟨[], Run.refl _ _ _ _, fun p hp => (by cases hp), ha, hl⟩
    · cases hS : syncAll sh st.cfg.shard st.cfg.steps (arrange ord st.loc) w with
      | mk w1 r =>
      rw [hS] at h
      obtain ⟨pts, hr, _⟩ := syncAll_spec sh _ _ _ w w1 r hS
      obtain ⟨h1, h2⟩ := run_abs hr (wl_abs hl (fun e he => mem_arrange.1 he)) ha
      cases r <;> (simp only [] at h; cases h; exact ⟨pts, hr.any, h1, h2, hl⟩)
  | load =>
    simp only [step, load] at h
    cases hL : apiList w with
    | mk w1 r =>
    rw [hL] at h
    obtain ⟨p, hr, hsame, hitems⟩ := apiList_spec w w1 r hL
    obtain ⟨h1, h2⟩ := run_abs hr (fun _ hit => hit.elim) ha
    cases r with
    | error e => simp only [] at h; cases h; exact ⟨[p], hr.any, h1, h2, hl⟩
    | ok items =>
      have hi := hitems items rfl
      simp only [] at h
      cases h
      refine ⟨[p], hr.any, h1, h2, ?_⟩
      -- what is loaded comes from the API, which has no object named `n`
      have hnone : ∀ c ∈ items, ¬ c.name = n := by
        intro c hc hn
        rw [hi] at hc
        have := List.find?_eq_none.1 ha c hc
        simp [hn] at this
      clear hi hitems
      suffices ∀ (items : List Cond) (l : Loc), (∀ c ∈ items, ¬ c.name = n) → (∀ e ∈ l, ¬ e.2.name = n) →
          ∀ e ∈ loadAll sh st.cfg.shard items l, ¬ e.2.name = n from this items st.loc hnone hl
      intro items
      induction items with
      | nil => intro l _ hl; exact hl
      | cons c rest ih =>
        intro l hc hl
        simp only [loadAll]
        split
        · exact ih l (fun c' h' => hc c' (List.mem_cons_of_mem _ h')) hl
        · apply ih _ (fun c' h' => hc c' (List.mem_cons_of_mem _ h'))
          intro e he
          rcases mem_lput.1 he with rfl | ⟨he, _⟩
          · exact hc c (List.mem_cons_self ..)
          · exact hl e he
  | restart s wt =>
    simp only [step] at h
    cases h
    exact ⟨[], Run.refl _ _ _ _, fun p hp => (by cases hp), ha, fun e he => (by cases he)⟩

theorem step_abs {n : Str} {st st' : Store} {op : Op} {w w' : World} {res : Res}
    (habs : Abs n st w.api) (hns : ¬ savesName n op) (h : step sh st op w = (st', w', res)) :
    ∃ pts, AnyRun w pts w' ∧ (∀ p ∈ pts, p.api.get n = none) ∧ Abs n st' w'.api := by
  cases op with
  | saveStored k  m  a  b  c =>
    have hne : ¬ m = n := hns
    simp only [step] at h
    cases hE : edited st k m a b c with
    | none => rw [hE] at h; cases h; exact ⟨[], Run.refl _ _ _ _, fun p hp => (by cases hp), habs⟩
    | some p =>
      obtain ⟨st1, c'⟩ := p
      rw [hE] at h
      obtain ⟨c0, _, _, hn', _, _, _, hloc⟩ := edited_some hE
      have habs1 : Abs n st1 w.api := by
        refine ⟨habs.1, ?_⟩
        intro e he
        rw [hloc] at he
        rcases mem_lput.1 he with rfl | ⟨he, _⟩
        · exact fun hh => hne (hn'.symm.trans hh)
        · exact habs.2 e he
      exact step_abs0 sh (op := .save k c') habs1 (fun hh => hne (hn'.symm.trans hh)) (fun _ _ _ _ _ hh => by cases hh) h
  | _ => exact step_abs0 sh habs hns (fun _ _ _ _ _ hh => by cases hh) h

theorem stepI_abs {n : Str} {st st' : Store} {op : OpI} {w w' : World} {res : Res} {ir : Option (Res × World × World)}
    (habs : Abs n st w.api) (hns : ¬ savesNameI n op) (h : stepI sh st op w = (st', w', res, ir)) :
    ∃ pts, AnyRun w pts w' ∧ (∀ p ∈ pts, p.api.get n = none) ∧ Abs n st' w'.api := by
  have hwin : ∀ {st2 : Store} {ord : List (Str × Str)} {at_ : Nat} {intr : Op} {w3 : World} {r : Except Err Unit}
      {ir : Option (Res × World × World)}, ¬ savesName n intr →
      syncWindow sh st (arrange ord st.loc) at_ intr w = (st2, w3, r, ir) →
      ∃ pts, AnyRun w pts w3 ∧ (∀ p ∈ pts, p.api.get n = none) ∧ Abs n st2 w3.api := by
    intro st2 ord at_ intr w3 r ir hni hS
    have hsub : ∀ e ∈ arrange ord st.loc, e ∈ st.loc := fun e he => mem_arrange.1 he
    rcases syncWindow_cases sh hS with ⟨_, rfl, hall⟩ | ⟨ires, w1, w2, u, _, h1, hI, h3⟩
    · obtain ⟨pts, hr, _⟩ := syncAll_spec sh _ _ _ w w3 r hall
      obtain ⟨ha1, ha2⟩ := run_abs hr (wl_abs habs.2 hsub) habs.1
      exact ⟨pts, hr.any, ha1, ha2, habs.2⟩
    · obtain ⟨p1, hr1, _⟩ := syncAll_spec sh _ _ _ w w1 _ h1
      obtain ⟨ha1, ha2⟩ := run_abs hr1 (wl_abs habs.2 (fun e he => hsub e (List.mem_of_mem_take he))) habs.1
      obtain ⟨p2, hr2, hb1, hb2⟩ := step_abs sh (n := n) ⟨ha2, habs.2⟩ hni hI
      obtain ⟨p3, hr3, _⟩ := syncAll_spec sh _ _ _ w2 w3 r h3
      -- the flush goes on with its snapshot, which has no entry named `n`
      obtain ⟨hc1, hc2⟩ := run_abs hr3 (wl_abs habs.2 (fun e he => hsub e (List.mem_of_mem_drop he))) hb2.1
      refine ⟨p1 ++ p2 ++ p3, (hr1.any.trans hr2).trans hr3.any, ?_, hc2, hb2.2⟩
      intro p hp
      rcases List.mem_append.1 hp with hp | hp
      · rcases List.mem_append.1 hp with hp | hp
        · exact ha1 p hp
        · exact hb1 p hp
      · exact hc1 p hp
  cases op with
  | plain op =>
    cases hS : step sh st op w with
    | mk st1 rest =>
    obtain ⟨w1, r⟩ := rest
    simp only [stepI, hS] at h
    cases h
    exact step_abs sh habs hns hS
  | flushI ord at_ intr =>
    cases hS : syncWindow sh st (arrange ord st.loc) at_ intr w with
    | mk st2 rest =>
    obtain ⟨w3, r, ir'⟩ := rest
    simp only [stepI, hS] at h
    obtain ⟨pts, hr, h1, h2⟩ := hwin hns hS
    cases r <;> (simp only [] at h; cases h; exact ⟨pts, hr, h1, h2⟩)
  | stopI ord at_ intr =>
    simp only [stepI] at h
    split at h
    · cases h; exact ⟨[], Run.refl _ _ _ _, fun p hp => (by cases hp), habs⟩
    · cases hS : syncWindow sh st (arrange ord st.loc) at_ intr w with
      | mk st2 rest =>
      obtain ⟨w3, r, ir'⟩ := rest
      rw [hS] at h
      obtain ⟨pts, hr, h1, h2⟩ := hwin hns hS
      cases r with
      | error e => simp only [] at h; cases h; exact ⟨pts, hr, h1, h2⟩
      | ok u => simp only [] at h; cases h; exact ⟨pts, hr, h1, h2.1, h2.2⟩

theorem runAll_abs {n : Str} : ∀ (ops : List OpI) (st : Store) (w : World),
    Abs n st w.api → (∀ op ∈ ops, ¬ savesNameI n op) →
    ∃ pts, AnyRun w pts (runAll sh st w ops).2 ∧ (∀ p ∈ pts, p.api.get n = none) ∧
      Abs n (runAll sh st w ops).1 (runAll sh st w ops).2.api := by
  intro ops
  induction ops with
  | nil => intro st w habs _; exact ⟨[], Run.refl _ _ _ _, fun p hp => (by cases hp), habs⟩
  | cons op ops ih =>
    intro st w habs hns
    cases hS : stepI sh st op w with
    | mk st' rest =>
    obtain ⟨w', res, ir⟩ := rest
    simp only [runAll, hS]
    obtain ⟨p1, hr1, ha1, habs'⟩ := stepI_abs sh habs (hns op (List.mem_cons_self ..)) hS
    obtain ⟨p2, hr2, ha2, habs''⟩ := ih st' w' habs' (fun op' h' => hns op' (List.mem_cons_of_mem _ h'))
    refine ⟨p1 ++ p2, hr1.trans hr2, ?_, habs''⟩
    intro p hp
    rcases List.mem_append.1 hp with hp | hp
    · exact ha1 p hp
    · exact ha2 p hp

/-! ## 8. Whole histories -/

def OpIWf : OpI → Prop
  | .plain op => OpWf up op
  | .flushI _ _ i => OpWf up i
  | .stopI _ _ i => OpWf up i

theorem allowed_save {L : Locks} (hL : GoodLocks L) {wt : Bool} {intr : Op} (h : allowedIntr L wt intr = true) :
    ∃ k c, intr = .save k c ∧ wt = false := by
  obtain ⟨h1, h2, h3, h4⟩ := hL
  cases intr <;> simp [allowedIntr, mayRunInside, isLoad, h1, h2, h3, h4] at h
  exact ⟨_, _, rfl, h⟩

/-- the mode of the store after an operation -/
def modeAfter (wt : Bool) : OpI → Bool
  | .plain (.restart _ wt') => wt'
  | _ => wt

theorem step_mode0 {st st' : Store} {op : Op} {w w' : World} {res : Res} (hnss : ∀ k n a b c, op ≠ .saveStored k n a b c) (h : step sh st op w = (st', w', res)) :
    st'.cfg.writeThrough = modeAfter st.cfg.writeThrough (.plain op) := by
  cases op with
  | saveStored k n a b c => exact absurd rfl (hnss k n a b c)
  | save k c =>
    simp only [step, save] at h
    split at h
    · cases h; rfl
    · split at h
      · split at h <;> (cases h; rfl)
      · cases h; rfl
  | delete k n =>
    simp only [step, delete] at h
    split at h <;> (cases h; rfl)
  | deleteUpstream k ord =>
    simp only [step, deleteUpstream] at h
    split at h <;> (cases h; rfl)
  | flush ord =>
    simp only [step, flush] at h
    split at h <;> (cases h; rfl)
  | stop ord =>
    simp only [step, stop] at h
    split at h
    · cases h; rfl
    · split at h <;> (cases h; rfl)
  | load =>
    simp only [step, load] at h
    split at h <;> (cases h; rfl)
  | restart s wt =>
    simp only [step] at h
    cases h; rfl

theorem step_mode {st st' : Store} {op : Op} {w w' : World} {res : Res} (h : step sh st op w = (st', w', res)) :
    st'.cfg.writeThrough = modeAfter st.cfg.writeThrough (.plain op) := by
  cases op with
  | saveStored k  n  a  b  c =>
    simp only [step] at h
    cases hE : edited st k n a b c with
    | none => rw [hE] at h; cases h; rfl
    | some p =>
      obtain ⟨st1, c'⟩ := p
      rw [hE] at h
      obtain ⟨_, _, _, _, _, hcfg, _, _⟩ := edited_some hE
      have := step_mode0 sh (op := .save k c') (fun _ _ _ _ _ hh => by cases hh) h
      rw [this]; show st1.cfg.writeThrough = st.cfg.writeThrough; rw [hcfg]
  | _ => exact step_mode0 sh (fun _ _ _ _ _ hh => by cases hh) h

theorem opI_ok {g : Ghost} {st st' : Store} {w w' : World} {op : OpI} {o : Obs}
    (hinv : Inv up g st w.api) (hwf : OpIWf up op)
    (hal : ∀ ord at_ intr, (op = .flushI ord at_ intr ∨ op = .stopI ord at_ intr) →
      ∃ k c, intr = .save k c ∧ st.cfg.writeThrough = false)
    (h : observe sh st op w = (o, st', w')) :
    (∀ q ∈ (checkObs sh g o).1, Jp q.1 q.2) ∧ Inv up (checkObs sh g o).2 st' w'.api ∧
      st'.cfg.writeThrough = modeAfter st.cfg.writeThrough op := by
  cases op with
  | plain op =>
    cases hS : step sh st op w with
    | mk st1 rest =>
    obtain ⟨w1, r⟩ := rest
    simp only [observe, stepI, hS] at h
    cases h
    have hok := step_ok sh up hinv hwf hS
    unfold OpOk at hok
    simp only [checkObs]
    refine ⟨?_, hok.2, step_mode sh hS⟩
    intro q hq
    rcases List.mem_append.1 hq with hq | hq
    · exact hok.1 q hq
    · rw [List.mem_singleton.1 hq]; exact hok.2.jp
  | flushI ord at_ intr =>
    obtain ⟨k, c, rfl, hper⟩ := hal ord at_ intr (.inl rfl)
    cases hS : syncWindow sh st (arrange ord st.loc) at_ (.save k c) w with
    | mk st2 rest =>
    obtain ⟨w3, r, ir⟩ := rest
    rcases syncWindow_cases sh hS with ⟨rfl, rfl, hall⟩ | ⟨ires, w1, w2, u, rfl, h1, hI, h3⟩
    · -- the window did not open: a plain flush
      simp only [observe, stepI, hS] at h
      cases r with
      | error e =>
        have hf : flush sh st2 ord w = (st2, w3, Res.err .other) := by unfold flush; rw [hall]
        have hok := flush_ok sh up hinv hf
        unfold OpOk at hok
        simp only [ghostPre, ghostPost_flush] at hok
        simp only [] at h
        cases h
        simp only [checkObs, Bool.false_eq_true, if_false, reduceCtorEq, ↓reduceIte]
        simp only [reduceCtorEq, ↓reduceIte] at hok
        refine ⟨?_, hok.2, rfl⟩
        intro q hq
        rcases List.mem_append.1 hq with hq | hq
        · exact hok.1 q hq
        · rw [List.mem_singleton.1 hq]; exact hok.2.jp
      | ok u =>
        have hf : flush sh st2 ord w = (st2, w3, Res.ok) := by unfold flush; rw [hall]
        have hok := flush_ok sh up hinv hf
        unfold OpOk at hok
        simp only [ghostPre, ghostPost_flush] at hok
        simp only [] at h
        cases h
        simp only [checkObs, Bool.false_eq_true, if_false, reduceCtorEq, ↓reduceIte]
        simp only [reduceCtorEq, ↓reduceIte] at hok
        refine ⟨?_, hok.2, rfl⟩
        intro q hq
        rcases List.mem_append.1 hq with hq | hq
        · exact hok.1 q hq
        · rw [List.mem_singleton.1 hq]; exact hok.2.jp
    · -- a periodic Save ran inside the window
      have hwin := window_ok sh up hinv hwf hper h1 hI h3
      obtain ⟨_, hcfg, _, _⟩ := save_periodic sh hper hI
      simp only [observe, stepI, hS] at h
      cases r with
      | error e =>
        simp only [] at h
        cases h
        simp only [checkObs, Bool.false_eq_true, if_false, if_true, reduceCtorEq, ↓reduceIte]
        simp only [reduceCtorEq, ↓reduceIte] at hwin
        refine ⟨?_, hwin.2, (by show _ = st.cfg.writeThrough; rw [hcfg])⟩
        intro q hq
        rcases List.mem_append.1 hq with hq | hq
        · exact hwin.1 q hq
        · rw [List.mem_singleton.1 hq]; exact hwin.2.jp
      | ok u3 =>
        simp only [] at h
        cases h
        simp only [checkObs, Bool.false_eq_true, if_false, if_true, reduceCtorEq, ↓reduceIte]
        simp only [reduceCtorEq, ↓reduceIte] at hwin
        refine ⟨?_, hwin.2, (by show _ = st.cfg.writeThrough; rw [hcfg])⟩
        intro q hq
        rcases List.mem_append.1 hq with hq | hq
        · exact hwin.1 q hq
        · rw [List.mem_singleton.1 hq]; exact hwin.2.jp
  | stopI ord at_ intr =>
    obtain ⟨k, c, rfl, hper⟩ := hal ord at_ intr (.inr rfl)
    by_cases hst : st.stopped = true
    · simp only [observe, stepI, hst, if_true] at h
      cases h
      simp only [checkObs, hst, if_true]
      refine ⟨?_, hinv, rfl⟩
      intro q hq
      rw [List.mem_singleton.1 hq]; exact hinv.jp
    · have hst' : st.stopped = false := by simpa using hst
      cases hS : syncWindow sh st (arrange ord st.loc) at_ (.save k c) w with
      | mk st2 rest =>
      obtain ⟨w3, r, ir⟩ := rest
      rcases syncWindow_cases sh hS with ⟨rfl, rfl, hall⟩ | ⟨ires, w1, w2, u, rfl, h1, hI, h3⟩
      · simp only [observe, stepI, hst', Bool.false_eq_true, if_false, hS] at h
        cases r with
        | error e =>
          have hf : flush sh st2 ord w = (st2, w3, Res.err .other) := by unfold flush; rw [hall]
          have hok := flush_ok sh up hinv hf
          unfold OpOk at hok
          simp only [ghostPre, ghostPost_flush] at hok
          simp only [] at h
          cases h
          simp only [checkObs, hst', Bool.false_eq_true, if_false, reduceCtorEq, ↓reduceIte]
          simp only [reduceCtorEq, ↓reduceIte] at hok
          refine ⟨?_, hok.2, rfl⟩
          intro q hq
          rcases List.mem_append.1 hq with hq | hq
          · exact hok.1 q hq
          · rw [List.mem_singleton.1 hq]; exact hok.2.jp
        | ok u =>
          have hf : flush sh st2 ord w = (st2, w3, Res.ok) := by unfold flush; rw [hall]
          have hok := flush_ok sh up hinv hf
          unfold OpOk at hok
          simp only [ghostPre, ghostPost_flush] at hok
          simp only [] at h
          cases h
          simp only [checkObs, hst', Bool.false_eq_true, if_false, reduceCtorEq, ↓reduceIte]
          simp only [reduceCtorEq, ↓reduceIte] at hok
          refine ⟨?_, ⟨hok.2.jp, hok.2.gl, hok.2.lwf, hok.2.coh, hok.2.awf⟩, rfl⟩
          intro q hq
          rcases List.mem_append.1 hq with hq | hq
          · exact hok.1 q hq
          · rw [List.mem_singleton.1 hq]; exact hok.2.jp
      · have hwin := window_ok sh up hinv hwf hper h1 hI h3
        obtain ⟨_, hcfg, _, _⟩ := save_periodic sh hper hI
        simp only [observe, stepI, hst', Bool.false_eq_true, if_false, hS] at h
        cases r with
        | error e =>
          simp only [] at h
          cases h
          simp only [checkObs, hst', Bool.false_eq_true, if_false, if_true, reduceCtorEq, ↓reduceIte]
          simp only [reduceCtorEq, ↓reduceIte] at hwin
          refine ⟨?_, hwin.2, (by show _ = st.cfg.writeThrough; rw [hcfg])⟩
          intro q hq
          rcases List.mem_append.1 hq with hq | hq
          · exact hwin.1 q hq
          · rw [List.mem_singleton.1 hq]; exact hwin.2.jp
        | ok u3 =>
          simp only [] at h
          cases h
          simp only [checkObs, hst', Bool.false_eq_true, if_false, if_true, reduceCtorEq, ↓reduceIte]
          simp only [reduceCtorEq, ↓reduceIte] at hwin
          refine ⟨?_, ⟨hwin.2.jp, hwin.2.gl, hwin.2.lwf, hwin.2.coh, hwin.2.awf⟩, (by show _ = st.cfg.writeThrough; rw [hcfg])⟩
          intro q hq
          rcases List.mem_append.1 hq with hq | hq
          · exact hwin.1 q hq
          · rw [List.mem_singleton.1 hq]; exact hwin.2.jp

theorem allowedHist_cons {L : Locks} {wt : Bool} {op : OpI} {ops : List OpI} (h : allowedHist L wt (op :: ops) = true) :
    allowedHist L (modeAfter wt op) ops = true ∧
    (∀ ord at_ intr, (op = .flushI ord at_ intr ∨ op = .stopI ord at_ intr) → allowedIntr L wt intr = true) := by
  cases op with
  | plain o =>
    cases o <;> simp only [allowedHist, modeAfter] at h ⊢ <;>
      exact ⟨h, fun _ _ _ hh => by rcases hh with hh | hh <;> cases hh⟩
  | flushI ord at_ intr =>
    simp only [allowedHist, Bool.and_eq_true] at h
    refine ⟨h.2, fun _ _ _ hh => ?_⟩
    rcases hh with hh | hh <;> cases hh
    exact h.1
  | stopI ord at_ intr =>
    simp only [allowedHist, Bool.and_eq_true] at h
    refine ⟨h.2, fun _ _ _ hh => ?_⟩
    rcases hh with hh | hh <;> cases hh
    exact h.1

/-- every (claims, API) pair of an allowed history honours the judge -/
theorem checkAll_ok {L : Locks} (hL : GoodLocks L) : ∀ (ops : List OpI) (st : Store) (g : Ghost) (w : World),
    Inv up g st w.api → (∀ op ∈ ops, OpIWf up op) → allowedHist L st.cfg.writeThrough ops = true →
    ∀ p ∈ checkAll sh st g w ops, Jp p.1 p.2 := by
  intro ops
  induction ops with
  | nil => intro st g w _ _ _ p hp; simp [checkAll] at hp
  | cons op ops ih =>
    intro st g w hinv hwf hal p hp
    obtain ⟨hal2, hal1⟩ := allowedHist_cons hal
    cases hO : observe sh st op w with
    | mk o rest =>
    obtain ⟨st', w'⟩ := rest
    simp only [checkAll, hO] at hp
    have hok := opI_ok sh up hinv (hwf op (List.mem_cons_self ..))
      (fun ord at_ intr hh => allowed_save hL (hal1 ord at_ intr hh)) hO
    rcases List.mem_append.1 hp with hp | hp
    · exact hok.1 p hp
    · exact ih st' _ w' hok.2.1 (fun op' h' => hwf op' (List.mem_cons_of_mem _ h')) (hok.2.2 ▸ hal2) p hp

end

end KG.Lemmas.K8sStore
