import KG.Spec.ClusterSync
/-! Lemmas for C11: association lists, and the invariant every sub-sync of `ClusterInfo.Sync` keeps
    (whether it succeeds or fails half-way). -/
namespace KG.Lemmas.ClusterSync
open KG KG.Model.ClusterSync KG.Spec.ClusterSync

/-! ## association lists -/

theorem alookup_astore {β : Type} (k j : Str) (v : β) (m : List (Str × β)) :
    alookup j (astore k v m) = if k = j then some v else alookup j m := by
  induction m with
  | nil => simp [astore, alookup]
  | cons kv r ih =>
    obtain ⟨k', v'⟩ := kv
    unfold astore
    by_cases h : k' = k
    · subst h
      by_cases hj : k' = j <;> simp [alookup, hj]
    · simp only [h, if_false]
      by_cases hj : k' = j
      · subst hj
        simp [alookup, Ne.symm h]
      · simp [alookup, hj, ih]

theorem alookup_aerase {β : Type} (k j : Str) (m : List (Str × β)) :
    alookup j (aerase k m) = if k = j then none else alookup j m := by
  induction m with
  | nil => simp [aerase, alookup]
  | cons kv r ih =>
    obtain ⟨k', v'⟩ := kv
    unfold aerase
    by_cases h : k' = k
    · subst h
      simp only [if_true, ih]
      by_cases hj : k' = j <;> simp [alookup, hj]
    · simp only [h, if_false]
      by_cases hj : k' = j
      · subst hj
        simp [alookup, Ne.symm h]
      · simp [alookup, hj, ih]

theorem memb_iff (a : Str) (l : List Str) : memb a l = true ↔ a ∈ l := by
  induction l with
  | nil => simp [memb]
  | cons b r ih =>
    unfold memb
    by_cases h : b = a
    · simp [h]
    · simp only [h, if_false, ih, List.mem_cons]
      constructor
      · intro x; exact Or.inr x
      · intro x
        cases x with
        | inl e => exact absurd e.symm h
        | inr m => exact m

theorem memb_false_iff (a : Str) (l : List Str) : memb a l = false ↔ a ∉ l := by
  rw [← memb_iff]; cases memb a l <;> simp

theorem mem_dedup (a : Str) (l : List Str) : a ∈ dedup l ↔ a ∈ l := by
  induction l with
  | nil => simp [dedup]
  | cons b r ih =>
    unfold dedup
    by_cases h : memb b r = true
    · simp only [h, if_true, ih, List.mem_cons]
      constructor
      · intro x; exact Or.inr x
      · intro x
        cases x with
        | inl e => subst e; exact (memb_iff _ _).1 h
        | inr m => exact m
    · simp only [h, if_false, List.mem_cons, ih, Bool.false_eq_true]

theorem mem_rangeOrder (ord wanted : List Str) (e : Str) : e ∈ rangeOrder ord wanted ↔ e ∈ wanted := by
  unfold rangeOrder
  simp only [List.mem_append, List.mem_filter, mem_dedup, memb_iff, Bool.not_eq_true', memb_false_iff]
  constructor
  · intro h
    cases h with
    | inl h => exact h.2
    | inr h => exact h.1
  · intro h
    by_cases ho : e ∈ ord
    · exact Or.inl ⟨ho, h⟩
    · exact Or.inr ⟨h, ho⟩

theorem alookup_filter_keys (p : Str → Bool) (j : Str) (m : List (Str × Bool)) :
    alookup j (m.filter fun e => p e.1) = if p j then alookup j m else none := by
  induction m with
  | nil => simp [alookup]
  | cons kv r ih =>
    obtain ⟨k', v'⟩ := kv
    by_cases hp : p k' = true
    · simp only [List.filter_cons, hp, if_true, alookup]
      by_cases hj : k' = j
      · subst hj; simp [hp]
      · simp [hj, ih]
    · have hp' : p k' = false := by simpa using hp
      simp only [List.filter_cons, hp', Bool.false_eq_true, if_false, ih, alookup]
      by_cases hj : k' = j
      · subst hj; simp [hp']
      · simp [hj]

end KG.Lemmas.ClusterSync
