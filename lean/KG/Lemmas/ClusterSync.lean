import KG.Spec.ClusterSync
/-! Lemmas for C11: association lists, and the invariant every sub-sync of `ClusterInfo.Sync` keeps
    (whether it succeeds or fails half-way). -/
namespace KG.Lemmas.ClusterSync
open KG KG.Model.ClusterSync KG.Spec.ClusterSync

/-! ## association lists -/

theorem alookup_astore {β : Type} (k j : Str) (v : β) (m : List (Str × β)) :
    alookup j (astore k v m) = if k = j then some v else alookup j m := by
  induction m with
  | nil => simp [astore, alookup]
  | cons kv r ih =>
    obtain ⟨k', v'⟩ := kv
    unfold astore
    by_cases h : k' = k
    · subst h
      by_cases hj : k' = j <;> simp [alookup, hj]
    · simp only [h, if_false]
      by_cases hj : k' = j
      · subst hj
        simp [alookup, Ne.symm h]
      · simp [alookup, hj, ih]

theorem alookup_aerase {β : Type} (k j : Str) (m : List (Str × β)) :
    alookup j (aerase k m) = if k = j then none else alookup j m := by
  induction m with
  | nil => simp [aerase, alookup]
  | cons kv r ih =>
    obtain ⟨k', v'⟩ := kv
    unfold aerase
    by_cases h : k' = k
    · subst h
      simp only [if_true, ih]
      by_cases hj : k' = j <;> simp [alookup, hj]
    · simp only [h, if_false]
      by_cases hj : k' = j
      · subst hj
        simp [alookup, Ne.symm h]
      · simp [alookup, hj, ih]

theorem memb_iff (a : Str) (l : List Str) : memb a l = true ↔ a ∈ l := by
  induction l with
  | nil => simp [memb]
  | cons b r ih =>
    unfold memb
    by_cases h : b = a
    · simp [h]
    · simp only [h, if_false, ih, List.mem_cons]
      constructor
      · intro x; exact Or.inr x
      · intro x
        cases x with
        | inl e => exact absurd e.symm h
        | inr m => exact m

theorem memb_false_iff (a : Str) (l : List Str) : memb a l = false ↔ a ∉ l := by
  rw [← memb_iff]; cases memb a l <;> simp

theorem mem_dedup (a : Str) (l : List Str) : a ∈ dedup l ↔ a ∈ l := by
  induction l with
  | nil => simp [dedup]
  | cons b r ih =>
    unfold dedup
    by_cases h : memb b r = true
    · simp only [h, if_true, ih, List.mem_cons]
      constructor
      · intro x; exact Or.inr x
      · intro x
        cases x with
        | inl e => subst e; exact (memb_iff _ _).1 h
        | inr m => exact m
    · simp only [h, if_false, List.mem_cons, ih, Bool.false_eq_true]

theorem mem_rangeOrder (ord wanted : List Str) (e : Str) : e ∈ rangeOrder ord wanted ↔ e ∈ wanted := by
  unfold rangeOrder
  simp only [List.mem_append, List.mem_filter, mem_dedup, memb_iff, Bool.not_eq_true', memb_false_iff]
  constructor
  · intro h
    cases h with
    | inl h => exact h.2
    | inr h => exact h.1
  · intro h
    by_cases ho : e ∈ ord
    · exact Or.inl ⟨ho, h⟩
    · exact Or.inr ⟨h, ho⟩

theorem alookup_filter_keys (p : Str → Bool) (j : Str) (m : List (Str × Bool)) :
    alookup j (m.filter fun e => p e.1) = if p j then alookup j m else none := by
  induction m with
  | nil => simp [alookup]
  | cons kv r ih =>
    obtain ⟨k', v'⟩ := kv
    by_cases hp : p k' = true
    · simp only [List.filter_cons, hp, if_true, alookup]
      by_cases hj : k' = j
      · subst hj; simp [hp]
      · simp [hj, ih]
    · have hp' : p k' = false := by simpa using hp
      simp only [List.filter_cons, hp', Bool.false_eq_true, if_false, ih, alookup]
      by_cases hj : k' = j
      · subst hj; simp [hp']
      · simp [hj]

/-! ## flow control -/

/-- the schema can be given a limiter (no nil dereference) -/
def safe (s : Schema) : Prop := (newFlowControl s).isSome = true

/-- a wrapper stored under name `n` is either untouched (`NewFlowControlCache`, only possible when it was synced with
    the zero schema) or its limiter is exactly what `NewFlowControl` builds from its stored schema -/
def WOK (n : Str) (w : Wrapper) : Prop :=
  (w.fc = none ∧ w.localConfig = Schema.zero) ∨
  (w.localConfig.name = n ∧ ∃ v, w.fc = some v ∧ newFlowControl w.localConfig = some v)

theorem nfc_zero : newFlowControl Schema.zero = some ⟨[], .exempt, 0, 0⟩ := by decide

theorem nfc_shape {s : Schema} {v : FCView} (h : newFlowControl s = some v) :
    v.name = s.name ∧ v.typ = guessType s ∧ (v.typ = .maxInflight → v.b = 0) ∧ (v.typ = .exempt → v.a = 0 ∧ v.b = 0) := by
  unfold newFlowControl at h
  split at h
  · rename_i hg
    split at h
    · injection h with h; subst h; simp [hg]
    · cases h
  · rename_i hg
    split at h
    · injection h with h; subst h; simp [hg]
    · cases h
  · rename_i hg
    injection h with h; subst h; simp [hg]

theorem WOK_fresh (n : Str) : WOK n Wrapper.fresh := Or.inl ⟨rfl, rfl⟩

theorem WOK_safe {n : Str} {w : Wrapper} (h : WOK n w) : safe w.localConfig := by
  cases h with
  | inl h => rw [h.2]; unfold safe; rw [nfc_zero]; rfl
  | inr h => obtain ⟨_, v, _, hv⟩ := h; unfold safe; rw [hv]; rfl

/-- `localWrapper.Sync`: whatever path it takes (unchanged / create / type change / resize in place), the wrapper ends
    up holding the schema and the limiter `NewFlowControl` would build for it; it only runs without panic on a
    schema that has the member its guessed type needs -/
theorem localSync_spec {n : Str} {w w' : Wrapper} {s : Schema} (hw : WOK n w) (hn : s.name = n)
    (h : localSync w s = some w') : w'.localConfig = s ∧ WOK n w' ∧ safe s := by
  unfold localSync at h
  by_cases he : s = w.localConfig
  · simp only [he, if_true] at h
    injection h with h; subst h
    exact ⟨he.symm, hw, he ▸ WOK_safe hw⟩
  · simp only [he, if_false] at h
    have mk : ∀ v, newFlowControl s = some v → (⟨s, some v⟩ : Wrapper).localConfig = s ∧ WOK n ⟨s, some v⟩ ∧ safe s := by
      intro v hv
      refine ⟨rfl, Or.inr ⟨hn, v, rfl, hv⟩, ?_⟩
      unfold safe; rw [hv]; rfl
    cases hfc : w.fc with
    | none =>
      simp only [hfc] at h
      cases hs : newFlowControl s with
      | none => simp [hs] at h
      | some v =>
        simp only [hs, Option.map] at h
        injection h with h; subst h
        exact mk v hs
    | some v =>
      simp only [hfc] at h
      by_cases ht : v.typ ≠ guessType s
      · rw [if_pos ht] at h
        cases hs : newFlowControl s with
        | none => simp [hs] at h
        | some v' =>
          simp only [hs, Option.map] at h
          injection h with h; subst h
          exact mk v' hs
      · have ht' : v.typ = guessType s := by simpa using ht
        rw [if_neg ht] at h
        -- the limiter in force was built from the stored schema
        have hold : w.localConfig.name = n ∧ newFlowControl w.localConfig = some v := by
          cases hw with
          | inl hz => rw [hfc] at hz; cases hz.1
          | inr hr =>
            obtain ⟨hname, v0, hv0, hnf⟩ := hr
            rw [hfc] at hv0; injection hv0 with hv0; subst hv0
            exact ⟨hname, hnf⟩
        obtain ⟨hvn, _, hvb, hve⟩ := nfc_shape hold.2
        cases hg : guessType s with
        | maxInflight =>
          simp only [hg] at h
          cases hm : s.maxInflight with
          | none => simp [hm] at h
          | some m =>
            simp only [hm] at h
            injection h with h; subst h
            apply mk
            unfold newFlowControl
            simp only [hg, hm]
            have hb : v.b = 0 := hvb (by rw [ht', hg])
            have : v.typ = .maxInflight := by rw [ht', hg]
            cases v
            simp_all
        | tokenBucket =>
          simp only [hg] at h
          cases hm : s.tokenBucket with
          | none => simp [hm] at h
          | some t =>
            simp only [hm] at h
            injection h with h; subst h
            apply mk
            unfold newFlowControl
            simp only [hg, hm]
            have : v.typ = .tokenBucket := by rw [ht', hg]
            cases v
            simp_all
        | exempt =>
          simp only [hg] at h
          injection h with h; subst h
          apply mk
          unfold newFlowControl
          simp only [hg]
          have ht2 : v.typ = .exempt := by rw [ht', hg]
          have := hve ht2
          cases v
          simp_all

/-- progress: on a schema that has the member its type needs, `localWrapper.Sync` does not panic -/
theorem localSync_progress {n : Str} {w : Wrapper} {s : Schema} (hw : WOK n w) (hs : safe s) :
    ∃ w', localSync w s = some w' := by
  unfold localSync
  by_cases he : s = w.localConfig
  · simp [he]
  · simp only [he, if_false]
    unfold safe at hs
    obtain ⟨v0, hv0⟩ := Option.isSome_iff_exists.1 hs
    cases hfc : w.fc with
    | none => simp [hv0]
    | some v =>
      simp only
      by_cases ht : v.typ ≠ guessType s
      · rw [if_pos ht]; simp [hv0]
      · rw [if_neg ht]
        unfold newFlowControl at hv0
        cases hg : guessType s with
        | maxInflight =>
          simp only [hg] at hv0 ⊢
          cases hm : s.maxInflight with
          | none => simp [hm] at hv0
          | some m => simp
        | tokenBucket =>
          simp only [hg] at hv0 ⊢
          cases hm : s.tokenBucket with
          | none => simp [hm] at hv0
          | some m => simp
        | exempt => simp

theorem lastSchema_name {l : List Schema} {n : Str} {s : Schema} (h : lastSchema l n = some s) : s.name = n := by
  induction l with
  | nil => cases h
  | cons x r ih =>
    unfold lastSchema at h
    cases hr : lastSchema r n with
    | some y => simp only [hr] at h; injection h with h; subst h; exact ih hr
    | none =>
      simp only [hr] at h
      by_cases hx : x.name = n
      · simp only [hx, if_true] at h; injection h with h; subst h; exact hx
      · simp [hx] at h

theorem lastSchema_mem {l : List Schema} {n : Str} {s : Schema} (h : lastSchema l n = some s) : s ∈ l := by
  induction l with
  | nil => cases h
  | cons x r ih =>
    unfold lastSchema at h
    cases hr : lastSchema r n with
    | some y => simp only [hr] at h; injection h with h; subst h; exact List.mem_cons_of_mem _ (ih hr)
    | none =>
      simp only [hr] at h
      by_cases hx : x.name = n
      · simp only [hx, if_true] at h; injection h with h; subst h; exact List.mem_cons_self
      · simp [hx] at h

theorem lastSchema_none_iff (l : List Schema) (n : Str) : lastSchema l n = none ↔ n ∉ schemaNames l := by
  induction l with
  | nil => simp [lastSchema, schemaNames]
  | cons x r ih =>
    unfold lastSchema
    cases hr : lastSchema r n with
    | some y =>
      have : n ∈ schemaNames r := by
        apply Classical.byContradiction; intro hc
        rw [ih.2 hc] at hr; cases hr
      simp only [schemaNames, List.map_cons, List.mem_cons] at this ⊢
      simp [this]
    | none =>
      have hnr : n ∉ schemaNames r := ih.1 hr
      simp only [schemaNames, List.map_cons, List.mem_cons] at hnr ⊢
      by_cases hx : x.name = n
      · simp [hx]
      · simp only [hx, if_false, true_iff, not_or]
        exact ⟨fun e => hx e.symm, hnr⟩

/-- all wrappers of a map are consistent -/
def MapOK (m : List (Str × Wrapper)) : Prop := ∀ n w, alookup n m = some w → WOK n w

/-- the loop of `syncLocalFlowControls` -/
theorem fcLoop_spec (new : List Schema) : ∀ (m m' : List (Str × Wrapper)), MapOK m → fcLoop new m = some m' →
    (∀ s ∈ new, safe s) ∧ MapOK m' ∧
    ∀ n, (lastSchema new n = none → alookup n m' = alookup n m) ∧
         (∀ s, lastSchema new n = some s → ∃ w, alookup n m' = some w ∧ w.localConfig = s) := by
  induction new with
  | nil =>
    intro m m' hm h
    simp only [fcLoop] at h; injection h with h; subst h
    refine ⟨by simp, hm, fun n => ⟨fun _ => rfl, fun s hs => by simp [lastSchema] at hs⟩⟩
  | cons s r ih =>
    intro m m' hm h
    unfold fcLoop at h
    simp only at h
    have hw : WOK s.name ((alookup s.name m).getD Wrapper.fresh) := by
      cases hl : alookup s.name m with
      | none => exact WOK_fresh _
      | some w => exact hm _ _ hl
    cases hls : localSync ((alookup s.name m).getD Wrapper.fresh) s with
    | none => simp [hls] at h
    | some w' =>
      simp only [hls] at h
      obtain ⟨hcfg, hok', hsafe⟩ := localSync_spec hw rfl hls
      have hm1 : MapOK (astore s.name w' m) := by
        intro n w hl
        rw [alookup_astore] at hl
        by_cases hn : s.name = n
        · simp only [hn, if_true] at hl; injection hl with hl; subst hl; exact hn ▸ hok'
        · simp only [hn, if_false] at hl; exact hm _ _ hl
      obtain ⟨hs1, hm2, hl2⟩ := ih _ _ hm1 h
      refine ⟨?_, hm2, ?_⟩
      · intro x hx
        cases hx with
        | head => exact hsafe
        | tail _ hx => exact hs1 x hx
      · intro n
        obtain ⟨hnone, hsome⟩ := hl2 n
        unfold lastSchema
        cases hr : lastSchema r n with
        | some y =>
          refine ⟨fun hc => by simp at hc, fun x hx => ?_⟩
          simp only at hx; injection hx with hx; subst hx
          exact hsome _ hr
        | none =>
          simp only
          have h1 := hnone hr
          rw [alookup_astore] at h1
          by_cases hn : s.name = n
          · simp only [hn, if_true] at h1 ⊢
            refine ⟨fun hc => by simp at hc, fun x hx => ?_⟩
            injection hx with hx; subst hx
            exact ⟨w', h1, hcfg⟩
          · simp only [hn, if_false] at h1 ⊢
            exact ⟨fun _ => h1, fun x hx => by simp at hx⟩

/-- progress of the loop on safe schemas -/
theorem fcLoop_progress (new : List Schema) : ∀ (m : List (Str × Wrapper)), MapOK m → (∀ s ∈ new, safe s) →
    ∃ m', fcLoop new m = some m' := by
  induction new with
  | nil => intro m _ _; exact ⟨m, rfl⟩
  | cons s r ih =>
    intro m hm hs
    unfold fcLoop
    simp only
    have hw : WOK s.name ((alookup s.name m).getD Wrapper.fresh) := by
      cases hl : alookup s.name m with
      | none => exact WOK_fresh _
      | some w => exact hm _ _ hl
    obtain ⟨w', hw'⟩ := localSync_progress hw (hs s List.mem_cons_self)
    simp only [hw']
    obtain ⟨_, hok', _⟩ := localSync_spec hw rfl hw'
    apply ih
    · intro n w hl
      rw [alookup_astore] at hl
      by_cases hn : s.name = n
      · simp only [hn, if_true] at hl; injection hl with hl; subst hl; exact hn ▸ hok'
      · simp only [hn, if_false] at hl; exact hm _ _ hl
    · intro x hx; exact hs x (List.mem_cons_of_mem _ hx)

theorem alookup_fcDelete (old new : List Str) : ∀ (m : List (Str × Wrapper)) (n : Str),
    alookup n (fcDelete old new m) = if n ∈ old ∧ n ∉ new then none else alookup n m := by
  induction old with
  | nil => intro m n; simp [fcDelete]
  | cons o r ih =>
    intro m n
    unfold fcDelete
    by_cases hb : memb o new = true
    · rw [if_pos hb, ih]
      have ho : o ∈ new := (memb_iff _ _).1 hb
      by_cases hn : n ∈ r ∧ n ∉ new
      · have : n ∈ o :: r ∧ n ∉ new := ⟨List.mem_cons_of_mem _ hn.1, hn.2⟩
        rw [if_pos hn, if_pos this]
      · have : ¬ (n ∈ o :: r ∧ n ∉ new) := by
          intro hc
          cases hc.1 with
          | head => exact hc.2 ho
          | tail _ h => exact hn ⟨h, hc.2⟩
        rw [if_neg hn, if_neg this]
    · have ho : o ∉ new := fun h => hb ((memb_iff _ _).2 h)
      rw [if_neg hb, ih, alookup_aerase]
      by_cases hn : n ∈ r ∧ n ∉ new
      · have : n ∈ o :: r ∧ n ∉ new := ⟨List.mem_cons_of_mem _ hn.1, hn.2⟩
        rw [if_pos hn, if_pos this]
      · rw [if_neg hn]
        by_cases hon : o = n
        · subst hon
          have : o ∈ o :: r ∧ o ∉ new := ⟨List.mem_cons_self, ho⟩
          rw [if_pos rfl, if_pos this]
        · have : ¬ (n ∈ o :: r ∧ n ∉ new) := by
            intro hc
            cases hc.1 with
            | head => exact hon rfl
            | tail _ h => exact hn ⟨h, hc.2⟩
          rw [if_neg hon, if_neg this]

/-- the flow-control part of the invariant: the stored spec only has schemas that can be given a limiter, and the
    map holds, for every name, exactly the wrapper of the last schema of that name -/
def FRel (spec : List Schema) (fcs : List (Str × Wrapper)) : Prop :=
  (∀ s ∈ spec, safe s) ∧ MapOK fcs ∧
  ∀ n, (lastSchema spec n = none → alookup n fcs = none) ∧
       (∀ s, lastSchema spec n = some s → ∃ w, alookup n fcs = some w ∧ w.localConfig = s)

def FInv (c : CI) : Prop := FRel (c.fcSpec.getD []) c.fcs

theorem syncLocalFlowControls_spec {c c' : CI} {new : List Schema} (hc : FInv c)
    (h : syncLocalFlowControls c new = some c') :
    FInv c' ∧ c'.fcSpec.getD [] = new ∧
    c' = { c with fcSpec := c'.fcSpec, fcs := c'.fcs } := by
  unfold syncLocalFlowControls at h
  simp only at h
  by_cases he : c.fcSpec.getD [] = new
  · simp only [he, if_true] at h; injection h with h; subst h
    exact ⟨hc, he, rfl⟩
  · simp only [he, if_false] at h
    cases hl : fcLoop new c.fcs with
    | none => simp [hl] at h
    | some m =>
      simp only [hl] at h; injection h with h; subst h
      obtain ⟨hsafe, hmap, hlook⟩ := hc
      obtain ⟨hs', hm', hl'⟩ := fcLoop_spec new _ _ hmap hl
      refine ⟨⟨?_, ?_, ?_⟩, rfl, rfl⟩
      · simpa using hs'
      · intro n w hw
        simp only [alookup_fcDelete] at hw
        by_cases hd : n ∈ schemaNames (c.fcSpec.getD []) ∧ n ∉ schemaNames new
        · simp [hd] at hw
        · simp only [hd, if_false] at hw; exact hm' _ _ hw
      · intro n
        simp only [Option.getD_some, alookup_fcDelete]
        constructor
        · intro hn
          have hnn : n ∉ schemaNames new := (lastSchema_none_iff _ _).1 hn
          by_cases ho : n ∈ schemaNames (c.fcSpec.getD [])
          · simp [ho, hnn]
          · have : ¬ (n ∈ schemaNames (c.fcSpec.getD []) ∧ n ∉ schemaNames new) := fun x => ho x.1
            simp only [this, if_false]
            rw [(hl' n).1 hn]
            exact (hlook n).1 ((lastSchema_none_iff _ _).2 ho)
        · intro s hs
          have hnn : n ∈ schemaNames new := by
            apply Classical.byContradiction; intro hc'
            rw [(lastSchema_none_iff _ _).2 hc'] at hs; cases hs
          have : ¬ (n ∈ schemaNames (c.fcSpec.getD []) ∧ n ∉ schemaNames new) := fun x => x.2 hnn
          simp only [this, if_false]
          exact (hl' n).2 s hs

theorem syncLocalFlowControls_safe {c c' : CI} {new : List Schema} (hc : FInv c)
    (h : syncLocalFlowControls c new = some c') : ∀ s ∈ new, safe s := by
  obtain ⟨h1, h2, _⟩ := syncLocalFlowControls_spec hc h
  rw [← h2]; exact h1.1

theorem syncLocalFlowControls_progress {c : CI} {new : List Schema} (hc : FInv c) (hs : ∀ s ∈ new, safe s) :
    ∃ c', syncLocalFlowControls c new = some c' := by
  unfold syncLocalFlowControls
  simp only
  by_cases he : c.fcSpec.getD [] = new
  · simp [he]
  · simp only [he, if_false]
    obtain ⟨m, hm⟩ := fcLoop_progress new c.fcs hc.2.1 hs
    simp [hm]

/-! ## secure serving -/

/-- the derived material of a stored secure-serving configuration is what the parsers make of the stored data
    (the two are always written together), and the stored data was accepted by the parsers -/
def SOK (env : Env) (cfg : SSCfg) : Prop :=
  cfg.clientCA = expCA env cfg.secureServing.clientCAData ∧
  cfg.verifyOptions = expCA env cfg.secureServing.clientCAData ∧
  cfg.certs = expCerts env cfg.secureServing.certData cfg.secureServing.keyData ∧
  (cfg.secureServing.clientCAData.length ≠ 0 → (env.parseCA cfg.secureServing.clientCAData).isSome = true) ∧
  (cfg.secureServing.keyData.length ≠ 0 → cfg.secureServing.certData.length ≠ 0 →
      (env.parsePair cfg.secureServing.certData cfg.secureServing.keyData).isSome = true)

def SInv (env : Env) (c : CI) : Prop := SOK env (loadSS c).1

theorem SOK_empty (env : Env) : SOK env ⟨SecureServing.empty, none, none, none⟩ := by
  simp [SOK, expCA, expCerts, SecureServing.empty]

theorem length_zero_iff (l : Str) : l.length = 0 ↔ l = [] := List.length_eq_zero_iff

theorem ssClientCA_spec {env : Env} {old : SSCfg} {new : SecureServing} {ca vo : Option Str}
    (h1 : old.clientCA = expCA env old.secureServing.clientCAData)
    (h2 : old.verifyOptions = expCA env old.secureServing.clientCAData)
    (h4 : old.secureServing.clientCAData.length ≠ 0 → (env.parseCA old.secureServing.clientCAData).isSome = true)
    (h : ssClientCA env old new = .ok (ca, vo)) :
    ca = expCA env new.clientCAData ∧ vo = expCA env new.clientCAData ∧
    (new.clientCAData.length ≠ 0 → (env.parseCA new.clientCAData).isSome = true) := by
  unfold ssClientCA at h
  by_cases hca : old.secureServing.clientCAData ≠ new.clientCAData
  · rw [if_pos hca] at h
    by_cases hz : new.clientCAData.length = 0
    · rw [if_pos hz] at h
      injection h with h; injection h with ha hb; subst ha; subst hb
      refine ⟨by unfold expCA; rw [if_pos hz], by unfold expCA; rw [if_pos hz], fun x => absurd hz x⟩
    · rw [if_neg hz] at h
      cases hp : env.parseCA new.clientCAData with
      | none => rw [hp] at h; cases h
      | some id =>
        rw [hp] at h
        injection h with h; injection h with ha hb; subst ha; subst hb
        refine ⟨by unfold expCA; rw [if_neg hz, hp], by unfold expCA; rw [if_neg hz, hp], fun _ => rfl⟩
  · rw [if_neg hca] at h
    have hca' : old.secureServing.clientCAData = new.clientCAData := by
      apply Classical.byContradiction; intro x; exact hca x
    injection h with h; injection h with ha hb; subst ha; subst hb
    rw [← hca']; exact ⟨h1, h2, h4⟩

theorem ssCerts_spec {env : Env} {old : SSCfg} {new : SecureServing} {certs : Option Str}
    (h3 : old.certs = expCerts env old.secureServing.certData old.secureServing.keyData)
    (h5 : old.secureServing.keyData.length ≠ 0 → old.secureServing.certData.length ≠ 0 →
      (env.parsePair old.secureServing.certData old.secureServing.keyData).isSome = true)
    (h : ssCerts env old new = .ok certs) :
    certs = expCerts env new.certData new.keyData ∧
    (new.keyData.length ≠ 0 → new.certData.length ≠ 0 → (env.parsePair new.certData new.keyData).isSome = true) := by
  unfold ssCerts at h
  by_cases hk : old.secureServing.keyData ≠ new.keyData ∨ old.secureServing.certData ≠ new.certData
  · rw [if_pos hk] at h
    by_cases hkz : new.keyData.length = 0 ∨ new.certData.length = 0
    · rw [if_pos hkz] at h
      injection h with h; subst h
      refine ⟨by unfold expCerts; rw [if_pos hkz], ?_⟩
      intro a b; cases hkz with
      | inl x => exact absurd x a
      | inr x => exact absurd x b
    · rw [if_neg hkz] at h
      cases hp : env.parsePair new.certData new.keyData with
      | none => rw [hp] at h; cases h
      | some id =>
        rw [hp] at h
        injection h with h; subst h
        refine ⟨by unfold expCerts; rw [if_neg hkz, hp], fun _ _ => rfl⟩
  · rw [if_neg hk] at h
    have hk' : old.secureServing.keyData = new.keyData ∧ old.secureServing.certData = new.certData := by
      constructor
      · apply Classical.byContradiction; intro x; exact hk (Or.inl x)
      · apply Classical.byContradiction; intro x; exact hk (Or.inr x)
    injection h with h; subst h
    rw [← hk'.1, ← hk'.2]; exact ⟨h3, h5⟩

theorem syncSecureServing_spec {env : Env} {c c' : CI} {new : SecureServing} (hc : SInv env c)
    (h : syncSecureServing env c new = .ok c') :
    SInv env c' ∧ (loadSS c').1.secureServing = new ∧ (loadSS c').2 = true ∧
    c' = { c with ss := c'.ss } := by
  unfold syncSecureServing at h
  obtain ⟨h1, h2, h3, h4, h5⟩ := hc
  simp only at h
  cases hA : ssClientCA env (loadSS c).1 new with
  | error e => rw [hA] at h; cases h
  | ok p =>
    obtain ⟨ca, vo⟩ := p
    rw [hA] at h
    simp only at h
    cases hB : ssCerts env (loadSS c).1 new with
    | error e => rw [hB] at h; cases h
    | ok certs =>
      rw [hB] at h
      simp only at h
      injection h with h; subst h
      obtain ⟨a1, a2, a3⟩ := ssClientCA_spec h1 h2 h4 hA
      obtain ⟨b1, b2⟩ := ssCerts_spec h3 h5 hB
      exact ⟨⟨a1, a2, b1, a3, b2⟩, rfl, rfl, rfl⟩

/-- progress: when the parsers accept the new data, `syncSecureServingConfigLocked` succeeds -/
theorem syncSecureServing_progress {env : Env} {c : CI} {new : SecureServing}
    (hca : new.clientCAData.length ≠ 0 → (env.parseCA new.clientCAData).isSome = true)
    (hkp : new.keyData.length ≠ 0 → new.certData.length ≠ 0 → (env.parsePair new.certData new.keyData).isSome = true) :
    ∃ c', syncSecureServing env c new = .ok c' := by
  have hA : ∃ p, ssClientCA env (loadSS c).1 new = .ok p := by
    unfold ssClientCA
    by_cases h1 : (loadSS c).1.secureServing.clientCAData ≠ new.clientCAData
    · rw [if_pos h1]
      by_cases hz : new.clientCAData.length = 0
      · rw [if_pos hz]; exact ⟨_, rfl⟩
      · rw [if_neg hz]
        obtain ⟨cid, hcid⟩ := Option.isSome_iff_exists.1 (hca hz)
        rw [hcid]; exact ⟨_, rfl⟩
    · rw [if_neg h1]; exact ⟨_, rfl⟩
  have hB : ∃ p, ssCerts env (loadSS c).1 new = .ok p := by
    unfold ssCerts
    by_cases hk : (loadSS c).1.secureServing.keyData ≠ new.keyData ∨ (loadSS c).1.secureServing.certData ≠ new.certData
    · rw [if_pos hk]
      by_cases hkz : new.keyData.length = 0 ∨ new.certData.length = 0
      · rw [if_pos hkz]; exact ⟨_, rfl⟩
      · rw [if_neg hkz]
        have : (env.parsePair new.certData new.keyData).isSome = true :=
          hkp (fun x => hkz (Or.inl x)) (fun x => hkz (Or.inr x))
        obtain ⟨id, hid⟩ := Option.isSome_iff_exists.1 this
        rw [hid]; exact ⟨_, rfl⟩
    · rw [if_neg hk]; exact ⟨_, rfl⟩
  obtain ⟨⟨ca, vo⟩, hA⟩ := hA
  obtain ⟨certs, hB⟩ := hB
  unfold syncSecureServing
  simp only [hA, hB]
  exact ⟨_, rfl⟩

/-! ## endpoints -/

def EpsOK (env : Env) (eps : List (Str × Bool)) : Prop := ∀ ep b, alookup ep eps = some b → env.addOK ep = true

/-- every endpoint present could be given a transport; nothing is ever added when endpoints are not synced -/
def EInv (env : Env) (c : CI) : Prop :=
  EpsOK env c.eps ∧ (c.conn.skipSyncEndpoints = true → c.eps = [])

theorem epLoop_spec (env : Env) (servers : List Server) : ∀ (l : List Str) (eps eps' : List (Str × Bool)) (err : Option Err),
    EpsOK env eps → epLoop env servers l eps = (eps', err) →
    EpsOK env eps' ∧
    (err = none → (∀ j, alookup j eps' = if j ∈ l then some (isDisabled servers j) else alookup j eps) ∧
                  ∀ ep ∈ l, env.addOK ep = true) := by
  intro l
  induction l with
  | nil =>
    intro eps eps' err hok h
    simp only [epLoop] at h
    injection h with h1 h2; subst h1; subst h2
    exact ⟨hok, fun _ => ⟨fun j => by simp, fun ep hep => by cases hep⟩⟩
  | cons ep r ih =>
    intro eps eps' err hok h
    unfold epLoop at h
    have hstep : ∀ eps1, addOrUpdateEndpoint env eps ep (isDisabled servers ep) = .ok eps1 →
        eps1 = astore ep (isDisabled servers ep) eps ∧ env.addOK ep = true := by
      intro eps1 h1
      unfold addOrUpdateEndpoint at h1
      cases hl : alookup ep eps with
      | some b =>
        rw [hl] at h1; simp only at h1
        injection h1 with h1
        exact ⟨h1.symm, hok _ _ hl⟩
      | none =>
        rw [hl] at h1; simp only at h1
        by_cases ha : env.addOK ep = true
        · rw [if_pos ha] at h1; injection h1 with h1; exact ⟨h1.symm, ha⟩
        · rw [if_neg ha] at h1; cases h1
    cases hA : addOrUpdateEndpoint env eps ep (isDisabled servers ep) with
    | error e =>
      rw [hA] at h; simp only at h
      injection h with h1 h2; subst h1; subst h2
      exact ⟨hok, fun hc => by cases hc⟩
    | ok eps1 =>
      rw [hA] at h; simp only at h
      obtain ⟨he1, hadd⟩ := hstep eps1 hA
      have hok1 : EpsOK env eps1 := by
        intro j b hj
        rw [he1, alookup_astore] at hj
        by_cases hej : ep = j
        · subst hej; exact hadd
        · rw [if_neg hej] at hj; exact hok _ _ hj
      obtain ⟨hok', hrest⟩ := ih eps1 eps' err hok1 h
      refine ⟨hok', fun hn => ?_⟩
      obtain ⟨hl, ha⟩ := hrest hn
      refine ⟨fun j => ?_, fun x hx => ?_⟩
      · rw [hl j, he1, alookup_astore]
        by_cases hjr : j ∈ r
        · have : j ∈ ep :: r := List.mem_cons_of_mem _ hjr
          rw [if_pos hjr, if_pos this]
        · rw [if_neg hjr]
          by_cases hej : ep = j
          · subst hej
            rw [if_pos rfl, if_pos List.mem_cons_self]
          · have : j ∉ ep :: r := by
              intro hc
              cases hc with
              | head => exact hej rfl
              | tail _ h' => exact hjr h'
            rw [if_neg hej, if_neg this]
      · cases hx with
        | head => exact hadd
        | tail _ h' => exact ha x h'

theorem epLoop_progress (env : Env) (servers : List Server) : ∀ (l : List Str) (eps : List (Str × Bool)),
    (∀ ep ∈ l, env.addOK ep = true) → ∃ eps', epLoop env servers l eps = (eps', none) := by
  intro l
  induction l with
  | nil => intro eps _; exact ⟨eps, rfl⟩
  | cons ep r ih =>
    intro eps ha
    unfold epLoop
    have : ∃ eps1, addOrUpdateEndpoint env eps ep (isDisabled servers ep) = .ok eps1 := by
      unfold addOrUpdateEndpoint
      cases hl : alookup ep eps with
      | some b => exact ⟨_, rfl⟩
      | none =>
        simp only
        rw [if_pos (ha ep List.mem_cons_self)]
        exact ⟨_, rfl⟩
    obtain ⟨eps1, h1⟩ := this
    rw [h1]
    exact ih eps1 (fun x hx => ha x (List.mem_cons_of_mem _ hx))

/-- the endpoint map the server list prescribes -/
def expEps (skip : Bool) (servers : List Server) (ep : Str) : Option Bool :=
  if skip then none
  else if memb ep (wantedEndpoints servers) then some (isDisabled servers ep) else none

theorem syncEndpoints_spec {env : Env} {c c' : CI} {servers : List Server} {ord : List Str} {err : Option Err}
    (hc : EInv env c) (h : syncEndpoints env c servers ord = (c', err)) :
    EInv env c' ∧ c' = { c with eps := c'.eps } ∧
    (err = none → (∀ j, alookup j c'.eps = expEps c.conn.skipSyncEndpoints servers j) ∧
                  (c.conn.skipSyncEndpoints = false → ∀ s ∈ servers, env.addOK s.endpoint = true)) := by
  unfold syncEndpoints at h
  by_cases hs : c.conn.skipSyncEndpoints = true
  · rw [if_pos hs] at h
    injection h with h1 h2; subst h1; subst h2
    refine ⟨hc, rfl, fun _ => ⟨fun j => ?_, fun hf => by rw [hs] at hf; cases hf⟩⟩
    rw [hc.2 hs]; simp [expEps, hs, alookup]
  · rw [if_neg hs] at h
    have hs' : c.conn.skipSyncEndpoints = false := by simpa using hs
    simp only at h
    generalize hL : epLoop env servers (rangeOrder ord (wantedEndpoints servers))
      (c.eps.filter fun e => memb e.1 (wantedEndpoints servers)) = res at h
    obtain ⟨eps2, err2⟩ := res
    simp only at h
    injection h with h1 h2; subst h1; subst h2
    have hok1 : EpsOK env (c.eps.filter fun e => memb e.1 (wantedEndpoints servers)) := by
      intro j b hj
      rw [alookup_filter_keys (fun k => memb k (wantedEndpoints servers))] at hj
      by_cases hm : memb j (wantedEndpoints servers) = true
      · rw [if_pos hm] at hj; exact hc.1 _ _ hj
      · rw [if_neg hm] at hj; cases hj
    obtain ⟨hok2, hrest⟩ := epLoop_spec env servers _ _ _ _ hok1 hL
    refine ⟨⟨hok2, fun hx => by simp only at hx; rw [hs'] at hx; cases hx⟩, rfl, fun hn => ?_⟩
    obtain ⟨hl, ha⟩ := hrest hn
    refine ⟨fun j => ?_, fun _ s hsrv => ?_⟩
    · simp only
      rw [hl j, alookup_filter_keys (fun k => memb k (wantedEndpoints servers))]
      unfold expEps
      rw [hs']
      simp only [Bool.false_eq_true, if_false]
      by_cases hm : memb j (wantedEndpoints servers) = true
      · have : j ∈ rangeOrder ord (wantedEndpoints servers) := (mem_rangeOrder _ _ _).2 ((memb_iff _ _).1 hm)
        rw [if_pos this, if_pos hm]
      · have : j ∉ rangeOrder ord (wantedEndpoints servers) := fun x => hm ((memb_iff _ _).2 ((mem_rangeOrder _ _ _).1 x))
        rw [if_neg this, if_neg hm, if_neg hm]
    · apply ha
      apply (mem_rangeOrder _ _ _).2
      unfold wantedEndpoints
      exact List.mem_map_of_mem hsrv

theorem syncEndpoints_progress {env : Env} {c : CI} {servers : List Server} {ord : List Str}
    (ha : c.conn.skipSyncEndpoints = false → ∀ s ∈ servers, env.addOK s.endpoint = true) :
    ∃ c', syncEndpoints env c servers ord = (c', none) := by
  unfold syncEndpoints
  by_cases hs : c.conn.skipSyncEndpoints = true
  · rw [if_pos hs]; exact ⟨_, rfl⟩
  · rw [if_neg hs]
    have hs' : c.conn.skipSyncEndpoints = false := by simpa using hs
    have : ∀ ep ∈ rangeOrder ord (wantedEndpoints servers), env.addOK ep = true := by
      intro ep hep
      have := (mem_rangeOrder _ _ _).1 hep
      unfold wantedEndpoints at this
      obtain ⟨s, hs1, hs2⟩ := List.mem_map.1 this
      rw [← hs2]; exact ha hs' s hs1
    obtain ⟨eps', he⟩ := epLoop_progress env servers _ (c.eps.filter fun e => memb e.1 (wantedEndpoints servers)) this
    simp only [he]
    exact ⟨_, rfl⟩

/-! ## `ClusterInfo.Sync` -/

/-- the invariant of a `ClusterInfo`: kept by every `Sync`, successful or failed half-way -/
def Inv (env : Env) (c : CI) : Prop := FInv c ∧ SInv env c ∧ EInv env c

theorem empty_inv (env : Env) (conn : Conn) (name : Str) : Inv env (empty env conn name) := by
  refine ⟨⟨by simp [empty], ?_, ?_⟩, ?_, ?_, ?_⟩
  · intro n w h; simp [empty, alookup] at h
  · intro n; simp [empty, lastSchema, alookup]
  · exact SOK_empty env
  · intro ep b h; simp [empty, alookup] at h
  · intro _; rfl

theorem syncFeatureGate_spec {env : Env} {c c1 : CI} {o : Obj} (h : syncFeatureGate env c o.annotations = .ok c1) :
    c1 = { c with gates := c1.gates } ∧ c1.gates = expGates env o ∧
    ((gateAnnotation o.annotations).length ≠ 0 → (env.setGates (gateAnnotation o.annotations)).isSome = true) := by
  unfold syncFeatureGate at h
  simp only at h
  by_cases hv : (gateAnnotation o.annotations).length = 0
  · rw [if_pos hv] at h
    by_cases hd : (!isDefault env c.gates) = true
    · rw [if_pos hd] at h; injection h with h; subst h
      exact ⟨rfl, by simp [expGates, hv], fun x => absurd hv x⟩
    · rw [if_neg hd] at h; injection h with h; subst h
      have : c.gates = env.defaultGates := by
        simp only [isDefault, Bool.not_eq_true', decide_eq_false_iff_not, Classical.not_not] at hd
        exact hd
      exact ⟨rfl, by simp [expGates, hv, this], fun x => absurd hv x⟩
  · rw [if_neg hv] at h
    cases hs : env.setGates (gateAnnotation o.annotations) with
    | none => rw [hs] at h; cases h
    | some g =>
      rw [hs] at h; injection h with h; subst h
      exact ⟨rfl, by simp [expGates, hv, hs], fun _ => rfl⟩

theorem syncFeatureGate_progress {env : Env} {c : CI} {o : Obj}
    (h : (gateAnnotation o.annotations).length ≠ 0 → (env.setGates (gateAnnotation o.annotations)).isSome = true) :
    ∃ c1, syncFeatureGate env c o.annotations = .ok c1 := by
  unfold syncFeatureGate
  simp only
  by_cases hv : (gateAnnotation o.annotations).length = 0
  · rw [if_pos hv]
    by_cases hd : (!isDefault env c.gates) = true
    · rw [if_pos hd]; exact ⟨_, rfl⟩
    · rw [if_neg hd]; exact ⟨_, rfl⟩
  · rw [if_neg hv]
    obtain ⟨g, hg⟩ := Option.isSome_iff_exists.1 (h hv)
    rw [hg]; exact ⟨_, rfl⟩

theorem resetLimiter_spec (c : CI) (t : Str) :
    resetLimiter c t = { c with limiterMode := t } := by
  unfold resetLimiter
  by_cases h : t ≠ c.limiterMode
  · rw [if_pos h]
  · rw [if_neg h]
    have : t = c.limiterMode := by
      apply Classical.byContradiction; intro x; exact h x
    rw [this]

theorem getFlowControlType_spec {env : Env} {conn : Conn} {o : Obj} {t : Str}
    (h : getFlowControlType conn.globalRateLimiter (expGates env o) = some t) : t = expMode env conn o := by
  unfold getFlowControlType at h
  unfold expMode
  by_cases hg : conn.globalRateLimiter = strRemote
  · rw [if_pos hg] at h
    cases hl : alookup strGlobalRateLimiter (expGates env o) with
    | none => rw [hl] at h; cases h
    | some b =>
      rw [hl] at h
      cases b with
      | true => simp only at h; injection h with h; subst h; simp [hg]
      | false => simp only at h; injection h with h; subst h; simp [hg]
  · rw [if_neg hg] at h
    injection h with h; subst h
    simp [hg]

/-- the successful path of `Sync`, stage by stage -/
theorem sync_ok_cases {env : Env} {c c' : CI} {o : Obj} {ord : List Str} (h : sync env c o ord = .ok c') :
    (c.cluster ≠ env.lower o.name ∧ c' = c) ∨
    (c.cluster = env.lower o.name ∧ ∃ c1 t c3 c4 c5,
      syncFeatureGate env c o.annotations = .ok c1 ∧
      getFlowControlType c1.conn.globalRateLimiter c1.gates = some t ∧
      syncLocalFlowControls (resetLimiter c1 t) o.schemas = some c3 ∧
      syncEndpoints env c3 o.servers ord = (c4, none) ∧
      syncSecureServing env c4 o.secureServing = .ok c5 ∧
      c' = { c5 with policies := some o.policies, logging := some o.logging }) := by
  unfold sync at h
  by_cases hn : c.cluster ≠ env.lower o.name
  · rw [if_pos hn] at h; injection h with h; exact Or.inl ⟨hn, h.symm⟩
  · rw [if_neg hn] at h
    have hn' : c.cluster = env.lower o.name := by
      apply Classical.byContradiction; intro x; exact hn x
    refine Or.inr ⟨hn', ?_⟩
    cases h1 : syncFeatureGate env c o.annotations with
    | error e => rw [h1] at h; cases h
    | ok c1 =>
      rw [h1] at h; simp only at h
      cases h2 : getFlowControlType c1.conn.globalRateLimiter c1.gates with
      | none => rw [h2] at h; cases h
      | some t =>
        rw [h2] at h; simp only at h
        cases h3 : syncLocalFlowControls (resetLimiter c1 t) o.schemas with
        | none => rw [h3] at h; cases h
        | some c3 =>
          rw [h3] at h; simp only at h
          cases h4 : syncEndpoints env c3 o.servers ord with
          | mk c4 err =>
            rw [h4] at h
            cases err with
            | some e => simp only at h; cases h
            | none =>
              simp only at h
              cases h5 : syncSecureServing env c4 o.secureServing with
              | error e => rw [h5] at h; cases h
              | ok c5 =>
                rw [h5] at h; simp only at h
                injection h with h
                exact ⟨c1, t, c3, c4, c5, rfl, h2, h3, h4, h5, h.symm⟩

/-- the failing paths of `Sync`: what state is left behind -/
theorem sync_fail_cases {env : Env} {c c' : CI} {o : Obj} {ord : List Str} {e : Err} (h : sync env c o ord = .fail e c') :
    c' = c ∨
    (∃ c1 t c3, syncFeatureGate env c o.annotations = .ok c1 ∧
      syncLocalFlowControls (resetLimiter c1 t) o.schemas = some c3 ∧
      ((∃ err, syncEndpoints env c3 o.servers ord = (c', err))) ) := by
  unfold sync at h
  by_cases hn : c.cluster ≠ env.lower o.name
  · rw [if_pos hn] at h; cases h
  · rw [if_neg hn] at h
    cases h1 : syncFeatureGate env c o.annotations with
    | error e1 => rw [h1] at h; simp only at h; injection h with _ h; exact Or.inl h.symm
    | ok c1 =>
      rw [h1] at h; simp only at h
      cases h2 : getFlowControlType c1.conn.globalRateLimiter c1.gates with
      | none => rw [h2] at h; cases h
      | some t =>
        rw [h2] at h; simp only at h
        cases h3 : syncLocalFlowControls (resetLimiter c1 t) o.schemas with
        | none => rw [h3] at h; cases h
        | some c3 =>
          rw [h3] at h; simp only at h
          refine Or.inr ⟨c1, t, c3, rfl, h3, ?_⟩
          cases h4 : syncEndpoints env c3 o.servers ord with
          | mk c4 err =>
            rw [h4] at h
            cases err with
            | some e4 => simp only at h; injection h with _ h; subst h; exact ⟨_, rfl⟩
            | none =>
              simp only at h
              cases h5 : syncSecureServing env c4 o.secureServing with
              | error e5 => rw [h5] at h; simp only at h; injection h with _ h; subst h; exact ⟨_, rfl⟩
              | ok c5 => rw [h5] at h; cases h

theorem Obs.ext' {a b : Obs} (h1 : a.policies = b.policies) (h2 : a.logging = b.logging)
    (h3 : a.endpoints = b.endpoints) (h4 : a.schemas = b.schemas) (h5 : a.hasSchema = b.hasSchema)
    (h6 : a.limiterMode = b.limiterMode) (h7 : a.gates = b.gates) (h8 : a.tls = b.tls) (h9 : a.verify = b.verify)
    (h10 : a.serverNames = b.serverNames) : a = b := by
  cases a; cases b; simp_all

/-- what a consistent flow-control map shows for a name is what the spec prescribes -/
theorem getFlowSchema_of_FRel {c : CI} {spec : List Schema} {m : List (Str × Wrapper)} (hm : c.fcs = m)
    (h : FRel spec m) (n : Str) :
    getFlowSchema c n = (if n.length = 0 then some defaultFlowControl
      else match lastSchema spec n with
        | none => some defaultFlowControl
        | some s => newFlowControl s) ∧
    hasFlowSchema c n = (lastSchema spec n).isSome := by
  subst hm
  obtain ⟨_, hmap, hl⟩ := h
  unfold getFlowSchema hasFlowSchema
  cases hs : lastSchema spec n with
  | none =>
    rw [(hl n).1 hs]
    by_cases hz : n.length = 0 <;> simp [hz]
  | some s =>
    obtain ⟨w, hw, hcfg⟩ := (hl n).2 s hs
    rw [hw]
    refine ⟨?_, rfl⟩
    by_cases hz : n.length = 0
    · simp [hz]
    · simp only [hz, if_false]
      have hname : s.name = n := lastSchema_name hs
      cases hmap n w hw with
      | inl hzero =>
        -- an untouched wrapper only sits under the empty name
        exfalso
        rw [hcfg] at hzero
        have : s.name = [] := by rw [hzero.2]; rfl
        rw [hname] at this
        exact hz (by rw [this]; rfl)
      | inr hr =>
        obtain ⟨_, v, hv, hnf⟩ := hr
        rw [hv, ← hcfg, hnf]

theorem sync_ok_spec {env : Env} {c c' : CI} {o : Obj} {ord : List Str} (hI : Inv env c)
    (h : sync env c o ord = .ok c') (hn : c.cluster = env.lower o.name) :
    Inv env c' ∧ c'.cluster = c.cluster ∧ c'.conn = c.conn ∧
    observe env c' = expected env c.conn o ∧ applicable env c.conn o ∧ (∀ s ∈ o.schemas, safe s) ∧
    (getFlowControlType c.conn.globalRateLimiter (expGates env o)).isSome = true := by
  obtain ⟨hF, hS, hE⟩ := hI
  cases sync_ok_cases h with
  | inl hl => exact absurd hn hl.1
  | inr hr =>
    obtain ⟨_, c1, t, c3, c4, c5, h1, h2, h3, h4, h5, hc'⟩ := hr
    obtain ⟨hc1, hg, hgapp⟩ := syncFeatureGate_spec h1
    generalize c1.gates = g at hc1 hg
    subst hc1
    simp only at h2
    rw [hg] at h2
    have ht := getFlowControlType_spec (conn := c.conn) h2
    rw [resetLimiter_spec] at h3
    have hF2 : FInv { c with gates := g, limiterMode := t } := hF
    obtain ⟨hF3, hspec3, hc3⟩ := syncLocalFlowControls_spec hF2 h3
    have hsafe := syncLocalFlowControls_safe hF2 h3
    generalize c3.fcSpec = sp at hc3 hspec3
    generalize hm : c3.fcs = m at hc3
    subst hc3
    simp only at hm hF3
    have hE3 : EInv env { c with gates := g, limiterMode := t, fcSpec := sp, fcs := m } := hE
    obtain ⟨hE4, hc4, hep⟩ := syncEndpoints_spec hE3 h4
    obtain ⟨hepl, hepa⟩ := hep rfl
    generalize he : c4.eps = eps at hc4
    subst hc4
    simp only at he hepl hepa hE4
    have hS4 : SInv env { c with gates := g, limiterMode := t, fcSpec := sp, fcs := m, eps := eps } := hS
    obtain ⟨hS5, hss5, hld5, hc5⟩ := syncSecureServing_spec hS4 h5
    generalize hssv : c5.ss = ssv at hc5
    subst hc5
    subst hc'
    simp only at hssv
    refine ⟨⟨hF3, hS5, hE4⟩, rfl, rfl, ?_, ?_, hsafe, ?_⟩
    · -- the observation is the one the object prescribes
      have hFR : FRel o.schemas m := by
        have := hF3; unfold FInv at this; simp only at this; rw [hspec3] at this; exact this
      apply Obs.ext'
      · rfl
      · rfl
      · funext ep
        simp only [observe, expected, loadEndpoint]
        rw [hepl ep]; rfl
      · funext n
        simp only [observe, expected, expSchema]
        exact (getFlowSchema_of_FRel rfl hFR n).1
      · funext n
        simp only [observe, expected]
        exact (getFlowSchema_of_FRel rfl hFR n).2
      · simp only [observe, expected]; exact ht
      · simp only [observe, expected]; exact hg
      · -- TLS
        simp only [observe, expected, loadTLSConfig, expTLS]
        obtain ⟨s1, s2, s3, _, _⟩ := hS5
        cases hssv' : ssv with
        | none => subst hssv'; simp [loadSS] at hld5
        | some cfg =>
          subst hssv'
          simp only [loadSS] at hss5 s1 s3 ⊢
          rw [s1, s3, hss5]
      · simp only [observe, expected, loadVerifyOptions]
        obtain ⟨_, s2, _, _, _⟩ := hS5
        cases hssv' : ssv with
        | none => subst hssv'; simp [loadSS] at hld5
        | some cfg =>
          subst hssv'
          simp only [loadSS] at hss5 s2 ⊢
          rw [s2, hss5]
      · simp only [observe, expected, loadServerNames]
        cases hssv' : ssv with
        | none => subst hssv'; simp [loadSS] at hld5
        | some cfg =>
          subst hssv'
          simp only [loadSS] at hss5 ⊢
          rw [hss5, hn]
    · -- the object can be applied from scratch
      obtain ⟨_, _, _, s4, s5⟩ := hS5
      rw [hss5] at s4 s5
      exact ⟨hgapp, s4, s5, hepa⟩
    · rw [h2]; rfl

/-- a failed `Sync` (whatever sub-sync refused, however far the endpoint loop got) leaves a consistent `ClusterInfo`
    whose secure-serving configuration (TLS material, server names) is untouched -/
theorem sync_fail_spec {env : Env} {c c' : CI} {o : Obj} {ord : List Str} {e : Err} (hI : Inv env c)
    (h : sync env c o ord = .fail e c') :
    Inv env c' ∧ c'.cluster = c.cluster ∧ c'.conn = c.conn ∧ c'.ss = c.ss := by
  obtain ⟨hF, hS, hE⟩ := hI
  cases sync_fail_cases h with
  | inl hl => subst hl; exact ⟨⟨hF, hS, hE⟩, rfl, rfl, rfl⟩
  | inr hr =>
    obtain ⟨c1, t, c3, h1, h3, err, h4⟩ := hr
    obtain ⟨hc1, _, _⟩ := syncFeatureGate_spec h1
    generalize c1.gates = g at hc1
    subst hc1
    rw [resetLimiter_spec] at h3
    have hF2 : FInv { c with gates := g, limiterMode := t } := hF
    obtain ⟨hF3, _, hc3⟩ := syncLocalFlowControls_spec hF2 h3
    generalize c3.fcSpec = sp at hc3
    generalize hm : c3.fcs = m at hc3
    subst hc3
    simp only at hm hF3
    have hE3 : EInv env { c with gates := g, limiterMode := t, fcSpec := sp, fcs := m } := hE
    obtain ⟨hE4, hc4, _⟩ := syncEndpoints_spec hE3 h4
    generalize he : c'.eps = eps at hc4
    subst hc4
    exact ⟨⟨hF3, hS, hE4⟩, rfl, rfl, rfl⟩

theorem FInv_of_eq {a b : CI} (h1 : b.fcSpec = a.fcSpec) (h2 : b.fcs = a.fcs) (h : FInv a) : FInv b := by
  unfold FInv at *; rw [h1, h2]; exact h

theorem EInv_of_eq {env : Env} {a b : CI} (h1 : b.eps = a.eps) (h2 : b.conn = a.conn) (h : EInv env a) : EInv env b := by
  unfold EInv at *; rw [h1, h2]; exact h

/-- progress of `Sync` on a consistent `ClusterInfo`: an object every external parser accepts, whose schemas can be
    given limiters and whose endpoints can be given transports, is applied -/
theorem sync_progress {env : Env} {c : CI} {o : Obj} (ord : List Str) (hI : Inv env c)
    (hn : c.cluster = env.lower o.name) (ha : applicable env c.conn o) (hs : ∀ s ∈ o.schemas, safe s)
    (hg : (getFlowControlType c.conn.globalRateLimiter (expGates env o)).isSome = true) :
    ∃ c', sync env c o ord = .ok c' := by
  obtain ⟨a1, a2, a3, a4⟩ := ha
  obtain ⟨hF, hS, hE⟩ := hI
  unfold sync
  have hnn : ¬ c.cluster ≠ env.lower o.name := fun x => x hn
  rw [if_neg hnn]
  obtain ⟨c1, h1⟩ := syncFeatureGate_progress (c := c) a1
  rw [h1]
  obtain ⟨hc1, hg1, _⟩ := syncFeatureGate_spec h1
  simp only
  have hconn1 : c1.conn = c.conn := by rw [hc1]
  rw [hconn1, hg1]
  obtain ⟨t, ht⟩ := Option.isSome_iff_exists.1 hg
  rw [ht]
  simp only
  have hF2 : FInv (resetLimiter c1 t) := by
    rw [resetLimiter_spec]
    exact FInv_of_eq (a := c) (by simp only; rw [hc1]) (by simp only; rw [hc1]) hF
  obtain ⟨c3, h3⟩ := syncLocalFlowControls_progress hF2 hs
  rw [h3]
  simp only
  obtain ⟨_, _, hc3⟩ := syncLocalFlowControls_spec hF2 h3
  have hconn3 : c3.conn = c.conn := by rw [hc3, resetLimiter_spec]; simp only; exact hconn1
  obtain ⟨c4, h4⟩ := syncEndpoints_progress (env := env) (c := c3) (servers := o.servers) (ord := ord)
    (by rw [hconn3]; exact a4)
  rw [h4]
  simp only
  obtain ⟨c5, h5⟩ := syncSecureServing_progress (env := env) (c := c4) a2 a3
  rw [h5]
  exact ⟨_, rfl⟩

theorem fresh_progress {env : Env} {conn : Conn} {o : Obj} (ord : List Str) (ha : applicable env conn o)
    (hs : ∀ s ∈ o.schemas, safe s)
    (hg : (getFlowControlType conn.globalRateLimiter (expGates env o)).isSome = true) :
    ∃ f, fresh env conn o ord = .ok f :=
  sync_progress (c := empty env conn o.name) ord (empty_inv env conn o.name) rfl ha hs hg

end KG.Lemmas.ClusterSync
