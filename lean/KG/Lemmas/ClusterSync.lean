import KG.Spec.ClusterSync
/-! Lemmas for C11: association lists, and the invariant every sub-sync of `ClusterInfo.Sync` keeps
    (whether it succeeds or fails half-way). -/
namespace KG.Lemmas.ClusterSync
open KG KG.Model.ClusterSync KG.Spec.ClusterSync

/-! ## association lists -/

theorem alookup_astore {β : Type} (k j : Str) (v : β) (m : List (Str × β)) :
    alookup j (astore k v m) = if k = j then some v else alookup j m := by
  induction m with
  | nil => simp [astore, alookup]
  | cons kv r ih =>
    obtain ⟨k', v'⟩ := kv
    unfold astore
    by_cases h : k' = k
    · subst h
      by_cases hj : k' = j <;> simp [alookup, hj]
    · simp only [h, if_false]
      by_cases hj : k' = j
      · subst hj
        simp [alookup, Ne.symm h]
      · simp [alookup, hj, ih]

theorem alookup_aerase {β : Type} (k j : Str) (m : List (Str × β)) :
    alookup j (aerase k m) = if k = j then none else alookup j m := by
  induction m with
  | nil => simp [aerase, alookup]
  | cons kv r ih =>
    obtain ⟨k', v'⟩ := kv
    unfold aerase
    by_cases h : k' = k
    · subst h
      simp only [if_true, ih]
      by_cases hj : k' = j <;> simp [alookup, hj]
    · simp only [h, if_false]
      by_cases hj : k' = j
      · subst hj
        simp [alookup, Ne.symm h]
      · simp [alookup, hj, ih]

theorem memb_iff (a : Str) (l : List Str) : memb a l = true ↔ a ∈ l := by
  induction l with
  | nil => simp [memb]
  | cons b r ih =>
    unfold memb
    by_cases h : b = a
    · simp [h]
    · simp only [h, if_false, ih, List.mem_cons]
      constructor
      · intro x; exact Or.inr x
      · intro x
        cases x with
        | inl e => exact absurd e.symm h
        | inr m => exact m

theorem memb_false_iff (a : Str) (l : List Str) : memb a l = false ↔ a ∉ l := by
  rw [← memb_iff]; cases memb a l <;> simp

theorem mem_dedup (a : Str) (l : List Str) : a ∈ dedup l ↔ a ∈ l := by
  induction l with
  | nil => simp [dedup]
  | cons b r ih =>
    unfold dedup
    by_cases h : memb b r = true
    · simp only [h, if_true, ih, List.mem_cons]
      constructor
      · intro x; exact Or.inr x
      · intro x
        cases x with
        | inl e => subst e; exact (memb_iff _ _).1 h
        | inr m => exact m
    · simp only [h, if_false, List.mem_cons, ih, Bool.false_eq_true]

theorem mem_rangeOrder (ord wanted : List Str) (e : Str) : e ∈ rangeOrder ord wanted ↔ e ∈ wanted := by
  unfold rangeOrder
  simp only [List.mem_append, List.mem_filter, mem_dedup, memb_iff, Bool.not_eq_true', memb_false_iff]
  constructor
  · intro h
    cases h with
    | inl h => exact h.2
    | inr h => exact h.1
  · intro h
    by_cases ho : e ∈ ord
    · exact Or.inl ⟨ho, h⟩
    · exact Or.inr ⟨h, ho⟩

theorem alookup_filter_keys (p : Str → Bool) (j : Str) (m : List (Str × Bool)) :
    alookup j (m.filter fun e => p e.1) = if p j then alookup j m else none := by
  induction m with
  | nil => simp [alookup]
  | cons kv r ih =>
    obtain ⟨k', v'⟩ := kv
    by_cases hp : p k' = true
    · simp only [List.filter_cons, hp, if_true, alookup]
      by_cases hj : k' = j
      · subst hj; simp [hp]
      · simp [hj, ih]
    · have hp' : p k' = false := by simpa using hp
      simp only [List.filter_cons, hp', Bool.false_eq_true, if_false, ih, alookup]
      by_cases hj : k' = j
      · subst hj; simp [hp']
      · simp [hj]

/-! ## flow control -/

/-- the schema can be given a limiter (no nil dereference) -/
def safe (s : Schema) : Prop := (newFlowControl s).isSome = true

/-- a wrapper stored under name `n` is either untouched (`NewFlowControlCache`, only possible when it was synced with
    the zero schema) or its limiter is exactly what `NewFlowControl` builds from its stored schema -/
def WOK (n : Str) (w : Wrapper) : Prop :=
  (w.fc = none ∧ w.localConfig = Schema.zero) ∨
  (w.localConfig.name = n ∧ ∃ v, w.fc = some v ∧ newFlowControl w.localConfig = some v)

theorem nfc_zero : newFlowControl Schema.zero = some ⟨[], .exempt, 0, 0⟩ := by decide

theorem nfc_shape {s : Schema} {v : FCView} (h : newFlowControl s = some v) :
    v.name = s.name ∧ v.typ = guessType s ∧ (v.typ = .maxInflight → v.b = 0) ∧ (v.typ = .exempt → v.a = 0 ∧ v.b = 0) := by
  unfold newFlowControl at h
  split at h
  · rename_i hg
    split at h
    · injection h with h; subst h; simp [hg]
    · cases h
  · rename_i hg
    split at h
    · injection h with h; subst h; simp [hg]
    · cases h
  · rename_i hg
    injection h with h; subst h; simp [hg]

theorem WOK_fresh (n : Str) : WOK n Wrapper.fresh := Or.inl ⟨rfl, rfl⟩

theorem WOK_safe {n : Str} {w : Wrapper} (h : WOK n w) : safe w.localConfig := by
  cases h with
  | inl h => rw [h.2]; unfold safe; rw [nfc_zero]; rfl
  | inr h => obtain ⟨_, v, _, hv⟩ := h; unfold safe; rw [hv]; rfl

/-- `localWrapper.Sync`: whatever path it takes (unchanged / create / type change / resize in place), the wrapper ends
    up holding the schema and the limiter `NewFlowControl` would build for it; it only runs without panic on a
    schema that has the member its guessed type needs -/
theorem localSync_spec {n : Str} {w w' : Wrapper} {s : Schema} (hw : WOK n w) (hn : s.name = n)
    (h : localSync w s = some w') : w'.localConfig = s ∧ WOK n w' ∧ safe s := by
  unfold localSync at h
  by_cases he : s = w.localConfig
  · simp only [he, if_true] at h
    injection h with h; subst h
    exact ⟨he.symm, hw, he ▸ WOK_safe hw⟩
  · simp only [he, if_false] at h
    have mk : ∀ v, newFlowControl s = some v → (⟨s, some v⟩ : Wrapper).localConfig = s ∧ WOK n ⟨s, some v⟩ ∧ safe s := by
      intro v hv
      refine ⟨rfl, Or.inr ⟨hn, v, rfl, hv⟩, ?_⟩
      unfold safe; rw [hv]; rfl
    cases hfc : w.fc with
    | none =>
      simp only [hfc] at h
      cases hs : newFlowControl s with
      | none => simp [hs] at h
      | some v =>
        simp only [hs, Option.map] at h
        injection h with h; subst h
        exact mk v hs
    | some v =>
      simp only [hfc] at h
      by_cases ht : v.typ ≠ guessType s
      · rw [if_pos ht] at h
        cases hs : newFlowControl s with
        | none => simp [hs] at h
        | some v' =>
          simp only [hs, Option.map] at h
          injection h with h; subst h
          exact mk v' hs
      · have ht' : v.typ = guessType s := by simpa using ht
        rw [if_neg ht] at h
        -- the limiter in force was built from the stored schema
        have hold : w.localConfig.name = n ∧ newFlowControl w.localConfig = some v := by
          cases hw with
          | inl hz => rw [hfc] at hz; cases hz.1
          | inr hr =>
            obtain ⟨hname, v0, hv0, hnf⟩ := hr
            rw [hfc] at hv0; injection hv0 with hv0; subst hv0
            exact ⟨hname, hnf⟩
        obtain ⟨hvn, _, hvb, hve⟩ := nfc_shape hold.2
        cases hg : guessType s with
        | maxInflight =>
          simp only [hg] at h
          cases hm : s.maxInflight with
          | none => simp [hm] at h
          | some m =>
            simp only [hm] at h
            injection h with h; subst h
            apply mk
            unfold newFlowControl
            simp only [hg, hm]
            have hb : v.b = 0 := hvb (by rw [ht', hg])
            have : v.typ = .maxInflight := by rw [ht', hg]
            cases v
            simp_all
        | tokenBucket =>
          simp only [hg] at h
          cases hm : s.tokenBucket with
          | none => simp [hm] at h
          | some t =>
            simp only [hm] at h
            injection h with h; subst h
            apply mk
            unfold newFlowControl
            simp only [hg, hm]
            have : v.typ = .tokenBucket := by rw [ht', hg]
            cases v
            simp_all
        | exempt =>
          simp only [hg] at h
          injection h with h; subst h
          apply mk
          unfold newFlowControl
          simp only [hg]
          have ht2 : v.typ = .exempt := by rw [ht', hg]
          have := hve ht2
          cases v
          simp_all

/-- progress: on a schema that has the member its type needs, `localWrapper.Sync` does not panic -/
theorem localSync_progress {n : Str} {w : Wrapper} {s : Schema} (hw : WOK n w) (hs : safe s) :
    ∃ w', localSync w s = some w' := by
  unfold localSync
  by_cases he : s = w.localConfig
  · simp [he]
  · simp only [he, if_false]
    unfold safe at hs
    obtain ⟨v0, hv0⟩ := Option.isSome_iff_exists.1 hs
    cases hfc : w.fc with
    | none => simp [hv0]
    | some v =>
      simp only
      by_cases ht : v.typ ≠ guessType s
      · rw [if_pos ht]; simp [hv0]
      · rw [if_neg ht]
        unfold newFlowControl at hv0
        cases hg : guessType s with
        | maxInflight =>
          simp only [hg] at hv0 ⊢
          cases hm : s.maxInflight with
          | none => simp [hm] at hv0
          | some m => simp
        | tokenBucket =>
          simp only [hg] at hv0 ⊢
          cases hm : s.tokenBucket with
          | none => simp [hm] at hv0
          | some m => simp
        | exempt => simp

theorem lastSchema_name {l : List Schema} {n : Str} {s : Schema} (h : lastSchema l n = some s) : s.name = n := by
  induction l with
  | nil => cases h
  | cons x r ih =>
    unfold lastSchema at h
    cases hr : lastSchema r n with
    | some y => simp only [hr] at h; injection h with h; subst h; exact ih hr
    | none =>
      simp only [hr] at h
      by_cases hx : x.name = n
      · simp only [hx, if_true] at h; injection h with h; subst h; exact hx
      · simp [hx] at h

theorem lastSchema_mem {l : List Schema} {n : Str} {s : Schema} (h : lastSchema l n = some s) : s ∈ l := by
  induction l with
  | nil => cases h
  | cons x r ih =>
    unfold lastSchema at h
    cases hr : lastSchema r n with
    | some y => simp only [hr] at h; injection h with h; subst h; exact List.mem_cons_of_mem _ (ih hr)
    | none =>
      simp only [hr] at h
      by_cases hx : x.name = n
      · simp only [hx, if_true] at h; injection h with h; subst h; exact List.mem_cons_self
      · simp [hx] at h

theorem lastSchema_none_iff (l : List Schema) (n : Str) : lastSchema l n = none ↔ n ∉ schemaNames l := by
  induction l with
  | nil => simp [lastSchema, schemaNames]
  | cons x r ih =>
    unfold lastSchema
    cases hr : lastSchema r n with
    | some y =>
      have : n ∈ schemaNames r := by
        apply Classical.byContradiction; intro hc
        rw [ih.2 hc] at hr; cases hr
      simp only [schemaNames, List.map_cons, List.mem_cons] at this ⊢
      simp [this]
    | none =>
      have hnr : n ∉ schemaNames r := ih.1 hr
      simp only [schemaNames, List.map_cons, List.mem_cons] at hnr ⊢
      by_cases hx : x.name = n
      · simp [hx]
      · simp only [hx, if_false, true_iff, not_or]
        exact ⟨fun e => hx e.symm, hnr⟩

/-- all wrappers of a map are consistent -/
def MapOK (m : List (Str × Wrapper)) : Prop := ∀ n w, alookup n m = some w → WOK n w

/-- the loop of `syncLocalFlowControls` -/
theorem fcLoop_spec (new : List Schema) : ∀ (m m' : List (Str × Wrapper)), MapOK m → fcLoop new m = some m' →
    (∀ s ∈ new, safe s) ∧ MapOK m' ∧
    ∀ n, (lastSchema new n = none → alookup n m' = alookup n m) ∧
         (∀ s, lastSchema new n = some s → ∃ w, alookup n m' = some w ∧ w.localConfig = s) := by
  induction new with
  | nil =>
    intro m m' hm h
    simp only [fcLoop] at h; injection h with h; subst h
    refine ⟨by simp, hm, fun n => ⟨fun _ => rfl, fun s hs => by simp [lastSchema] at hs⟩⟩
  | cons s r ih =>
    intro m m' hm h
    unfold fcLoop at h
    simp only at h
    have hw : WOK s.name ((alookup s.name m).getD Wrapper.fresh) := by
      cases hl : alookup s.name m with
      | none => exact WOK_fresh _
      | some w => exact hm _ _ hl
    cases hls : localSync ((alookup s.name m).getD Wrapper.fresh) s with
    | none => simp [hls] at h
    | some w' =>
      simp only [hls] at h
      obtain ⟨hcfg, hok', hsafe⟩ := localSync_spec hw rfl hls
      have hm1 : MapOK (astore s.name w' m) := by
        intro n w hl
        rw [alookup_astore] at hl
        by_cases hn : s.name = n
        · simp only [hn, if_true] at hl; injection hl with hl; subst hl; exact hn ▸ hok'
        · simp only [hn, if_false] at hl; exact hm _ _ hl
      obtain ⟨hs1, hm2, hl2⟩ := ih _ _ hm1 h
      refine ⟨?_, hm2, ?_⟩
      · intro x hx
        cases hx with
        | head => exact hsafe
        | tail _ hx => exact hs1 x hx
      · intro n
        obtain ⟨hnone, hsome⟩ := hl2 n
        unfold lastSchema
        cases hr : lastSchema r n with
        | some y =>
          refine ⟨fun hc => by simp at hc, fun x hx => ?_⟩
          simp only at hx; injection hx with hx; subst hx
          exact hsome _ hr
        | none =>
          simp only
          have h1 := hnone hr
          rw [alookup_astore] at h1
          by_cases hn : s.name = n
          · simp only [hn, if_true] at h1 ⊢
            refine ⟨fun hc => by simp at hc, fun x hx => ?_⟩
            injection hx with hx; subst hx
            exact ⟨w', h1, hcfg⟩
          · simp only [hn, if_false] at h1 ⊢
            exact ⟨fun _ => h1, fun x hx => by simp at hx⟩

/-- progress of the loop on safe schemas -/
theorem fcLoop_progress (new : List Schema) : ∀ (m : List (Str × Wrapper)), MapOK m → (∀ s ∈ new, safe s) →
    ∃ m', fcLoop new m = some m' := by
  induction new with
  | nil => intro m _ _; exact ⟨m, rfl⟩
  | cons s r ih =>
    intro m hm hs
    unfold fcLoop
    simp only
    have hw : WOK s.name ((alookup s.name m).getD Wrapper.fresh) := by
      cases hl : alookup s.name m with
      | none => exact WOK_fresh _
      | some w => exact hm _ _ hl
    obtain ⟨w', hw'⟩ := localSync_progress hw (hs s List.mem_cons_self)
    simp only [hw']
    obtain ⟨_, hok', _⟩ := localSync_spec hw rfl hw'
    apply ih
    · intro n w hl
      rw [alookup_astore] at hl
      by_cases hn : s.name = n
      · simp only [hn, if_true] at hl; injection hl with hl; subst hl; exact hn ▸ hok'
      · simp only [hn, if_false] at hl; exact hm _ _ hl
    · intro x hx; exact hs x (List.mem_cons_of_mem _ hx)

theorem alookup_fcDelete (old new : List Str) : ∀ (m : List (Str × Wrapper)) (n : Str),
    alookup n (fcDelete old new m) = if n ∈ old ∧ n ∉ new then none else alookup n m := by
  induction old with
  | nil => intro m n; simp [fcDelete]
  | cons o r ih =>
    intro m n
    unfold fcDelete
    by_cases hb : memb o new = true
    · rw [if_pos hb, ih]
      have ho : o ∈ new := (memb_iff _ _).1 hb
      by_cases hn : n ∈ r ∧ n ∉ new
      · have : n ∈ o :: r ∧ n ∉ new := ⟨List.mem_cons_of_mem _ hn.1, hn.2⟩
        rw [if_pos hn, if_pos this]
      · have : ¬ (n ∈ o :: r ∧ n ∉ new) := by
          intro hc
          cases hc.1 with
          | head => exact hc.2 ho
          | tail _ h => exact hn ⟨h, hc.2⟩
        rw [if_neg hn, if_neg this]
    · have ho : o ∉ new := fun h => hb ((memb_iff _ _).2 h)
      rw [if_neg hb, ih, alookup_aerase]
      by_cases hn : n ∈ r ∧ n ∉ new
      · have : n ∈ o :: r ∧ n ∉ new := ⟨List.mem_cons_of_mem _ hn.1, hn.2⟩
        rw [if_pos hn, if_pos this]
      · rw [if_neg hn]
        by_cases hon : o = n
        · subst hon
          have : o ∈ o :: r ∧ o ∉ new := ⟨List.mem_cons_self, ho⟩
          rw [if_pos rfl, if_pos this]
        · have : ¬ (n ∈ o :: r ∧ n ∉ new) := by
            intro hc
            cases hc.1 with
            | head => exact hon rfl
            | tail _ h => exact hn ⟨h, hc.2⟩
          rw [if_neg hon, if_neg this]

/-- the flow-control part of the invariant: the stored spec only has schemas that can be given a limiter, and the
    map holds, for every name, exactly the wrapper of the last schema of that name -/
def FRel (spec : List Schema) (fcs : List (Str × Wrapper)) : Prop :=
  (∀ s ∈ spec, safe s) ∧ MapOK fcs ∧
  ∀ n, (lastSchema spec n = none → alookup n fcs = none) ∧
       (∀ s, lastSchema spec n = some s → ∃ w, alookup n fcs = some w ∧ w.localConfig = s)

def FInv (c : CI) : Prop := FRel (c.fcSpec.getD []) c.fcs

theorem syncLocalFlowControls_spec {c c' : CI} {new : List Schema} (hc : FInv c)
    (h : syncLocalFlowControls c new = some c') :
    FInv c' ∧ c'.fcSpec.getD [] = new ∧
    c' = { c with fcSpec := c'.fcSpec, fcs := c'.fcs } := by
  unfold syncLocalFlowControls at h
  simp only at h
  by_cases he : c.fcSpec.getD [] = new
  · simp only [he, if_true] at h; injection h with h; subst h
    exact ⟨hc, he, rfl⟩
  · simp only [he, if_false] at h
    cases hl : fcLoop new c.fcs with
    | none => simp [hl] at h
    | some m =>
      simp only [hl] at h; injection h with h; subst h
      obtain ⟨hsafe, hmap, hlook⟩ := hc
      obtain ⟨hs', hm', hl'⟩ := fcLoop_spec new _ _ hmap hl
      refine ⟨⟨?_, ?_, ?_⟩, rfl, rfl⟩
      · simpa using hs'
      · intro n w hw
        simp only [alookup_fcDelete] at hw
        by_cases hd : n ∈ schemaNames (c.fcSpec.getD []) ∧ n ∉ schemaNames new
        · simp [hd] at hw
        · simp only [hd, if_false] at hw; exact hm' _ _ hw
      · intro n
        simp only [Option.getD_some, alookup_fcDelete]
        constructor
        · intro hn
          have hnn : n ∉ schemaNames new := (lastSchema_none_iff _ _).1 hn
          by_cases ho : n ∈ schemaNames (c.fcSpec.getD [])
          · simp [ho, hnn]
          · have : ¬ (n ∈ schemaNames (c.fcSpec.getD []) ∧ n ∉ schemaNames new) := fun x => ho x.1
            simp only [this, if_false]
            rw [(hl' n).1 hn]
            exact (hlook n).1 ((lastSchema_none_iff _ _).2 ho)
        · intro s hs
          have hnn : n ∈ schemaNames new := by
            apply Classical.byContradiction; intro hc'
            rw [(lastSchema_none_iff _ _).2 hc'] at hs; cases hs
          have : ¬ (n ∈ schemaNames (c.fcSpec.getD []) ∧ n ∉ schemaNames new) := fun x => x.2 hnn
          simp only [this, if_false]
          exact (hl' n).2 s hs

theorem syncLocalFlowControls_safe {c c' : CI} {new : List Schema} (hc : FInv c)
    (h : syncLocalFlowControls c new = some c') : ∀ s ∈ new, safe s := by
  obtain ⟨h1, h2, _⟩ := syncLocalFlowControls_spec hc h
  rw [← h2]; exact h1.1

theorem syncLocalFlowControls_progress {c : CI} {new : List Schema} (hc : FInv c) (hs : ∀ s ∈ new, safe s) :
    ∃ c', syncLocalFlowControls c new = some c' := by
  unfold syncLocalFlowControls
  simp only
  by_cases he : c.fcSpec.getD [] = new
  · simp [he]
  · simp only [he, if_false]
    obtain ⟨m, hm⟩ := fcLoop_progress new c.fcs hc.2.1 hs
    simp [hm]

/-! ## secure serving -/

/-- the derived material of a stored secure-serving configuration is what the parsers make of the stored data
    (the two are always written together), and the stored data was accepted by the parsers -/
def SOK (env : Env) (cfg : SSCfg) : Prop :=
  cfg.clientCA = expCA env cfg.secureServing.clientCAData ∧
  cfg.verifyOptions = expCA env cfg.secureServing.clientCAData ∧
  cfg.certs = expCerts env cfg.secureServing.certData cfg.secureServing.keyData ∧
  (cfg.secureServing.clientCAData.length ≠ 0 → (env.parseCA cfg.secureServing.clientCAData).isSome = true) ∧
  (cfg.secureServing.keyData.length ≠ 0 → cfg.secureServing.certData.length ≠ 0 →
      (env.parsePair cfg.secureServing.certData cfg.secureServing.keyData).isSome = true)

def SInv (env : Env) (c : CI) : Prop := SOK env (loadSS c).1

theorem SOK_empty (env : Env) : SOK env ⟨SecureServing.empty, none, none, none⟩ := by
  simp [SOK, expCA, expCerts, SecureServing.empty]

theorem length_zero_iff (l : Str) : l.length = 0 ↔ l = [] := List.length_eq_zero_iff

theorem ssClientCA_spec {env : Env} {old : SSCfg} {new : SecureServing} {ca vo : Option Str}
    (h1 : old.clientCA = expCA env old.secureServing.clientCAData)
    (h2 : old.verifyOptions = expCA env old.secureServing.clientCAData)
    (h4 : old.secureServing.clientCAData.length ≠ 0 → (env.parseCA old.secureServing.clientCAData).isSome = true)
    (h : ssClientCA env old new = .ok (ca, vo)) :
    ca = expCA env new.clientCAData ∧ vo = expCA env new.clientCAData ∧
    (new.clientCAData.length ≠ 0 → (env.parseCA new.clientCAData).isSome = true) := by
  unfold ssClientCA at h
  by_cases hca : old.secureServing.clientCAData ≠ new.clientCAData
  · rw [if_pos hca] at h
    by_cases hz : new.clientCAData.length = 0
    · rw [if_pos hz] at h
      injection h with h; injection h with ha hb; subst ha; subst hb
      refine ⟨by unfold expCA; rw [if_pos hz], by unfold expCA; rw [if_pos hz], fun x => absurd hz x⟩
    · rw [if_neg hz] at h
      cases hp : env.parseCA new.clientCAData with
      | none => rw [hp] at h; cases h
      | some id =>
        rw [hp] at h
        injection h with h; injection h with ha hb; subst ha; subst hb
        refine ⟨by unfold expCA; rw [if_neg hz, hp], by unfold expCA; rw [if_neg hz, hp], fun _ => rfl⟩
  · rw [if_neg hca] at h
    have hca' : old.secureServing.clientCAData = new.clientCAData := by
      apply Classical.byContradiction; intro x; exact hca x
    injection h with h; injection h with ha hb; subst ha; subst hb
    rw [← hca']; exact ⟨h1, h2, h4⟩

theorem ssCerts_spec {env : Env} {old : SSCfg} {new : SecureServing} {certs : Option Str}
    (h3 : old.certs = expCerts env old.secureServing.certData old.secureServing.keyData)
    (h5 : old.secureServing.keyData.length ≠ 0 → old.secureServing.certData.length ≠ 0 →
      (env.parsePair old.secureServing.certData old.secureServing.keyData).isSome = true)
    (h : ssCerts env old new = .ok certs) :
    certs = expCerts env new.certData new.keyData ∧
    (new.keyData.length ≠ 0 → new.certData.length ≠ 0 → (env.parsePair new.certData new.keyData).isSome = true) := by
  unfold ssCerts at h
  by_cases hk : old.secureServing.keyData ≠ new.keyData ∨ old.secureServing.certData ≠ new.certData
  · rw [if_pos hk] at h
    by_cases hkz : new.keyData.length = 0 ∨ new.certData.length = 0
    · rw [if_pos hkz] at h
      injection h with h; subst h
      refine ⟨by unfold expCerts; rw [if_pos hkz], ?_⟩
      intro a b; cases hkz with
      | inl x => exact absurd x a
      | inr x => exact absurd x b
    · rw [if_neg hkz] at h
      cases hp : env.parsePair new.certData new.keyData with
      | none => rw [hp] at h; cases h
      | some id =>
        rw [hp] at h
        injection h with h; subst h
        refine ⟨by unfold expCerts; rw [if_neg hkz, hp], fun _ _ => rfl⟩
  · rw [if_neg hk] at h
    have hk' : old.secureServing.keyData = new.keyData ∧ old.secureServing.certData = new.certData := by
      constructor
      · apply Classical.byContradiction; intro x; exact hk (Or.inl x)
      · apply Classical.byContradiction; intro x; exact hk (Or.inr x)
    injection h with h; subst h
    rw [← hk'.1, ← hk'.2]; exact ⟨h3, h5⟩

theorem syncSecureServing_spec {env : Env} {c c' : CI} {new : SecureServing} (hc : SInv env c)
    (h : syncSecureServing env c new = .ok c') :
    SInv env c' ∧ (loadSS c').1.secureServing = new ∧ (loadSS c').2 = true ∧
    c' = { c with ss := c'.ss } := by
  unfold syncSecureServing at h
  obtain ⟨h1, h2, h3, h4, h5⟩ := hc
  simp only at h
  cases hA : ssClientCA env (loadSS c).1 new with
  | error e => rw [hA] at h; cases h
  | ok p =>
    obtain ⟨ca, vo⟩ := p
    rw [hA] at h
    simp only at h
    cases hB : ssCerts env (loadSS c).1 new with
    | error e => rw [hB] at h; cases h
    | ok certs =>
      rw [hB] at h
      simp only at h
      injection h with h; subst h
      obtain ⟨a1, a2, a3⟩ := ssClientCA_spec h1 h2 h4 hA
      obtain ⟨b1, b2⟩ := ssCerts_spec h3 h5 hB
      exact ⟨⟨a1, a2, b1, a3, b2⟩, rfl, rfl, rfl⟩

/-- progress: when the parsers accept the new data, `syncSecureServingConfigLocked` succeeds -/
theorem syncSecureServing_progress {env : Env} {c : CI} {new : SecureServing}
    (hca : new.clientCAData.length ≠ 0 → (env.parseCA new.clientCAData).isSome = true)
    (hkp : new.keyData.length ≠ 0 → new.certData.length ≠ 0 → (env.parsePair new.certData new.keyData).isSome = true) :
    ∃ c', syncSecureServing env c new = .ok c' := by
  have hA : ∃ p, ssClientCA env (loadSS c).1 new = .ok p := by
    unfold ssClientCA
    by_cases h1 : (loadSS c).1.secureServing.clientCAData ≠ new.clientCAData
    · rw [if_pos h1]
      by_cases hz : new.clientCAData.length = 0
      · rw [if_pos hz]; exact ⟨_, rfl⟩
      · rw [if_neg hz]
        obtain ⟨cid, hcid⟩ := Option.isSome_iff_exists.1 (hca hz)
        rw [hcid]; exact ⟨_, rfl⟩
    · rw [if_neg h1]; exact ⟨_, rfl⟩
  have hB : ∃ p, ssCerts env (loadSS c).1 new = .ok p := by
    unfold ssCerts
    by_cases hk : (loadSS c).1.secureServing.keyData ≠ new.keyData ∨ (loadSS c).1.secureServing.certData ≠ new.certData
    · rw [if_pos hk]
      by_cases hkz : new.keyData.length = 0 ∨ new.certData.length = 0
      · rw [if_pos hkz]; exact ⟨_, rfl⟩
      · rw [if_neg hkz]
        have : (env.parsePair new.certData new.keyData).isSome = true :=
          hkp (fun x => hkz (Or.inl x)) (fun x => hkz (Or.inr x))
        obtain ⟨id, hid⟩ := Option.isSome_iff_exists.1 this
        rw [hid]; exact ⟨_, rfl⟩
    · rw [if_neg hk]; exact ⟨_, rfl⟩
  obtain ⟨⟨ca, vo⟩, hA⟩ := hA
  obtain ⟨certs, hB⟩ := hB
  unfold syncSecureServing
  simp only [hA, hB]
  exact ⟨_, rfl⟩

/-! ## endpoints -/

def EpsOK (env : Env) (eps : List (Str × Bool)) : Prop := ∀ ep b, alookup ep eps = some b → env.addOK ep = true

/-- every endpoint present could be given a transport; nothing is ever added when endpoints are not synced -/
def EInv (env : Env) (c : CI) : Prop :=
  EpsOK env c.eps ∧ (c.conn.skipSyncEndpoints = true → c.eps = [])

theorem epLoop_spec (env : Env) (servers : List Server) : ∀ (l : List Str) (eps eps' : List (Str × Bool)) (err : Option Err),
    EpsOK env eps → epLoop env servers l eps = (eps', err) →
    EpsOK env eps' ∧
    (err = none → (∀ j, alookup j eps' = if j ∈ l then some (isDisabled servers j) else alookup j eps) ∧
                  ∀ ep ∈ l, env.addOK ep = true) := by
  intro l
  induction l with
  | nil =>
    intro eps eps' err hok h
    simp only [epLoop] at h
    injection h with h1 h2; subst h1; subst h2
    exact ⟨hok, fun _ => ⟨fun j => by simp, fun ep hep => by cases hep⟩⟩
  | cons ep r ih =>
    intro eps eps' err hok h
    unfold epLoop at h
    have hstep : ∀ eps1, addOrUpdateEndpoint env eps ep (isDisabled servers ep) = .ok eps1 →
        eps1 = astore ep (isDisabled servers ep) eps ∧ env.addOK ep = true := by
      intro eps1 h1
      unfold addOrUpdateEndpoint at h1
      cases hl : alookup ep eps with
      | some b =>
        rw [hl] at h1; simp only at h1
        injection h1 with h1
        exact ⟨h1.symm, hok _ _ hl⟩
      | none =>
        rw [hl] at h1; simp only at h1
        by_cases ha : env.addOK ep = true
        · rw [if_pos ha] at h1; injection h1 with h1; exact ⟨h1.symm, ha⟩
        · rw [if_neg ha] at h1; cases h1
    cases hA : addOrUpdateEndpoint env eps ep (isDisabled servers ep) with
    | error e =>
      rw [hA] at h; simp only at h
      injection h with h1 h2; subst h1; subst h2
      exact ⟨hok, fun hc => by cases hc⟩
    | ok eps1 =>
      rw [hA] at h; simp only at h
      obtain ⟨he1, hadd⟩ := hstep eps1 hA
      have hok1 : EpsOK env eps1 := by
        intro j b hj
        rw [he1, alookup_astore] at hj
        by_cases hej : ep = j
        · subst hej; exact hadd
        · rw [if_neg hej] at hj; exact hok _ _ hj
      obtain ⟨hok', hrest⟩ := ih eps1 eps' err hok1 h
      refine ⟨hok', fun hn => ?_⟩
      obtain ⟨hl, ha⟩ := hrest hn
      refine ⟨fun j => ?_, fun x hx => ?_⟩
      · rw [hl j, he1, alookup_astore]
        by_cases hjr : j ∈ r
        · have : j ∈ ep :: r := List.mem_cons_of_mem _ hjr
          rw [if_pos hjr, if_pos this]
        · rw [if_neg hjr]
          by_cases hej : ep = j
          · subst hej
            rw [if_pos rfl, if_pos List.mem_cons_self]
          · have : j ∉ ep :: r := by
              intro hc
              cases hc with
              | head => exact hej rfl
              | tail _ h' => exact hjr h'
            rw [if_neg hej, if_neg this]
      · cases hx with
        | head => exact hadd
        | tail _ h' => exact ha x h'

theorem epLoop_progress (env : Env) (servers : List Server) : ∀ (l : List Str) (eps : List (Str × Bool)),
    (∀ ep ∈ l, env.addOK ep = true) → ∃ eps', epLoop env servers l eps = (eps', none) := by
  intro l
  induction l with
  | nil => intro eps _; exact ⟨eps, rfl⟩
  | cons ep r ih =>
    intro eps ha
    unfold epLoop
    have : ∃ eps1, addOrUpdateEndpoint env eps ep (isDisabled servers ep) = .ok eps1 := by
      unfold addOrUpdateEndpoint
      cases hl : alookup ep eps with
      | some b => exact ⟨_, rfl⟩
      | none =>
        simp only
        rw [if_pos (ha ep List.mem_cons_self)]
        exact ⟨_, rfl⟩
    obtain ⟨eps1, h1⟩ := this
    rw [h1]
    exact ih eps1 (fun x hx => ha x (List.mem_cons_of_mem _ hx))

/-- the endpoint map the server list prescribes -/
def expEps (skip : Bool) (servers : List Server) (ep : Str) : Option Bool :=
  if skip then none
  else if memb ep (wantedEndpoints servers) then some (isDisabled servers ep) else none

theorem syncEndpoints_spec {env : Env} {c c' : CI} {servers : List Server} {ord : List Str} {err : Option Err}
    (hc : EInv env c) (h : syncEndpoints env c servers ord = (c', err)) :
    EInv env c' ∧ c' = { c with eps := c'.eps } ∧
    (err = none → (∀ j, alookup j c'.eps = expEps c.conn.skipSyncEndpoints servers j) ∧
                  (c.conn.skipSyncEndpoints = false → ∀ s ∈ servers, env.addOK s.endpoint = true)) := by
  unfold syncEndpoints at h
  by_cases hs : c.conn.skipSyncEndpoints = true
  · rw [if_pos hs] at h
    injection h with h1 h2; subst h1; subst h2
    refine ⟨hc, rfl, fun _ => ⟨fun j => ?_, fun hf => by rw [hs] at hf; cases hf⟩⟩
    rw [hc.2 hs]; simp [expEps, hs, alookup]
  · rw [if_neg hs] at h
    have hs' : c.conn.skipSyncEndpoints = false := by simpa using hs
    simp only at h
    generalize hL : epLoop env servers (rangeOrder ord (wantedEndpoints servers))
      (c.eps.filter fun e => memb e.1 (wantedEndpoints servers)) = res at h
    obtain ⟨eps2, err2⟩ := res
    simp only at h
    injection h with h1 h2; subst h1; subst h2
    have hok1 : EpsOK env (c.eps.filter fun e => memb e.1 (wantedEndpoints servers)) := by
      intro j b hj
      rw [alookup_filter_keys (fun k => memb k (wantedEndpoints servers))] at hj
      by_cases hm : memb j (wantedEndpoints servers) = true
      · rw [if_pos hm] at hj; exact hc.1 _ _ hj
      · rw [if_neg hm] at hj; cases hj
    obtain ⟨hok2, hrest⟩ := epLoop_spec env servers _ _ _ _ hok1 hL
    refine ⟨⟨hok2, fun hx => by simp only at hx; rw [hs'] at hx; cases hx⟩, rfl, fun hn => ?_⟩
    obtain ⟨hl, ha⟩ := hrest hn
    refine ⟨fun j => ?_, fun _ s hsrv => ?_⟩
    · simp only
      rw [hl j, alookup_filter_keys (fun k => memb k (wantedEndpoints servers))]
      unfold expEps
      rw [hs']
      simp only [Bool.false_eq_true, if_false]
      by_cases hm : memb j (wantedEndpoints servers) = true
      · have : j ∈ rangeOrder ord (wantedEndpoints servers) := (mem_rangeOrder _ _ _).2 ((memb_iff _ _).1 hm)
        rw [if_pos this, if_pos hm]
      · have : j ∉ rangeOrder ord (wantedEndpoints servers) := fun x => hm ((memb_iff _ _).2 ((mem_rangeOrder _ _ _).1 x))
        rw [if_neg this, if_neg hm, if_neg hm]
    · apply ha
      apply (mem_rangeOrder _ _ _).2
      unfold wantedEndpoints
      exact List.mem_map_of_mem hsrv

theorem syncEndpoints_progress {env : Env} {c : CI} {servers : List Server} {ord : List Str}
    (ha : c.conn.skipSyncEndpoints = false → ∀ s ∈ servers, env.addOK s.endpoint = true) :
    ∃ c', syncEndpoints env c servers ord = (c', none) := by
  unfold syncEndpoints
  by_cases hs : c.conn.skipSyncEndpoints = true
  · rw [if_pos hs]; exact ⟨_, rfl⟩
  · rw [if_neg hs]
    have hs' : c.conn.skipSyncEndpoints = false := by simpa using hs
    have : ∀ ep ∈ rangeOrder ord (wantedEndpoints servers), env.addOK ep = true := by
      intro ep hep
      have := (mem_rangeOrder _ _ _).1 hep
      unfold wantedEndpoints at this
      obtain ⟨s, hs1, hs2⟩ := List.mem_map.1 this
      rw [← hs2]; exact ha hs' s hs1
    obtain ⟨eps', he⟩ := epLoop_progress env servers _ (c.eps.filter fun e => memb e.1 (wantedEndpoints servers)) this
    simp only [he]
    exact ⟨_, rfl⟩

/-! ## `ClusterInfo.Sync` -/

/-- the invariant of a `ClusterInfo`: kept by every `Sync`, successful or failed half-way -/
def Inv (env : Env) (c : CI) : Prop := FInv c ∧ SInv env c ∧ EInv env c

theorem empty_inv (env : Env) (conn : Conn) (name : Str) : Inv env (empty env conn name) := by
  refine ⟨⟨by simp [empty], ?_, ?_⟩, ?_, ?_, ?_⟩
  · intro n w h; simp [empty, alookup] at h
  · intro n; simp [empty, lastSchema, alookup]
  · exact SOK_empty env
  · intro ep b h; simp [empty, alookup] at h
  · intro _; rfl

theorem syncFeatureGate_spec {env : Env} {c c1 : CI} {o : Obj} (h : syncFeatureGate env c o.annotations = .ok c1) :
    c1 = { c with gates := c1.gates } ∧ c1.gates = expGates env o ∧
    ((gateAnnotation o.annotations).length ≠ 0 → (env.setGates (gateAnnotation o.annotations)).isSome = true) := by
  unfold syncFeatureGate at h
  simp only at h
  by_cases hv : (gateAnnotation o.annotations).length = 0
  · rw [if_pos hv] at h
    by_cases hd : (!isDefault env c.gates) = true
    · rw [if_pos hd] at h; injection h with h; subst h
      exact ⟨rfl, by simp [expGates, hv], fun x => absurd hv x⟩
    · rw [if_neg hd] at h; injection h with h; subst h
      have : c.gates = env.defaultGates := by
        simp only [isDefault, Bool.not_eq_true', decide_eq_false_iff_not, Classical.not_not] at hd
        exact hd
      exact ⟨rfl, by simp [expGates, hv, this], fun x => absurd hv x⟩
  · rw [if_neg hv] at h
    cases hs : env.setGates (gateAnnotation o.annotations) with
    | none => rw [hs] at h; cases h
    | some g =>
      rw [hs] at h; injection h with h; subst h
      exact ⟨rfl, by simp [expGates, hv, hs], fun _ => rfl⟩

theorem syncFeatureGate_progress {env : Env} {c : CI} {o : Obj}
    (h : (gateAnnotation o.annotations).length ≠ 0 → (env.setGates (gateAnnotation o.annotations)).isSome = true) :
    ∃ c1, syncFeatureGate env c o.annotations = .ok c1 := by
  unfold syncFeatureGate
  simp only
  by_cases hv : (gateAnnotation o.annotations).length = 0
  · rw [if_pos hv]
    by_cases hd : (!isDefault env c.gates) = true
    · rw [if_pos hd]; exact ⟨_, rfl⟩
    · rw [if_neg hd]; exact ⟨_, rfl⟩
  · rw [if_neg hv]
    obtain ⟨g, hg⟩ := Option.isSome_iff_exists.1 (h hv)
    rw [hg]; exact ⟨_, rfl⟩

theorem resetLimiter_spec (c : CI) (t : Str) :
    resetLimiter c t = { c with limiterMode := t } := by
  unfold resetLimiter
  by_cases h : t ≠ c.limiterMode
  · rw [if_pos h]
  · rw [if_neg h]
    have : t = c.limiterMode := by
      apply Classical.byContradiction; intro x; exact h x
    rw [this]

theorem getFlowControlType_spec {env : Env} {conn : Conn} {o : Obj} {t : Str}
    (h : getFlowControlType conn.globalRateLimiter (expGates env o) = some t) : t = expMode env conn o := by
  unfold getFlowControlType at h
  unfold expMode
  by_cases hg : conn.globalRateLimiter = strRemote
  · rw [if_pos hg] at h
    cases hl : alookup strGlobalRateLimiter (expGates env o) with
    | none => rw [hl] at h; cases h
    | some b =>
      rw [hl] at h
      cases b with
      | true => simp only at h; injection h with h; subst h; simp [hg]
      | false => simp only at h; injection h with h; subst h; simp [hg]
  · rw [if_neg hg] at h
    injection h with h; subst h
    simp [hg]

/-- the successful path of `Sync`, stage by stage -/
theorem sync_ok_cases {env : Env} {c c' : CI} {o : Obj} {ord : List Str} (h : sync env c o ord = .ok c') :
    (c.cluster ≠ env.lower o.name ∧ c' = c) ∨
    (c.cluster = env.lower o.name ∧ ∃ c1 t c3 c4 c5,
      syncFeatureGate env c o.annotations = .ok c1 ∧
      getFlowControlType c1.conn.globalRateLimiter c1.gates = some t ∧
      syncLocalFlowControls (resetLimiter c1 t) o.schemas = some c3 ∧
      syncEndpoints env c3 o.servers ord = (c4, none) ∧
      syncSecureServing env c4 o.secureServing = .ok c5 ∧
      c' = { c5 with policies := some o.policies, logging := some o.logging }) := by
  unfold sync at h
  by_cases hn : c.cluster ≠ env.lower o.name
  · rw [if_pos hn] at h; injection h with h; exact Or.inl ⟨hn, h.symm⟩
  · rw [if_neg hn] at h
    have hn' : c.cluster = env.lower o.name := by
      apply Classical.byContradiction; intro x; exact hn x
    refine Or.inr ⟨hn', ?_⟩
    cases h1 : syncFeatureGate env c o.annotations with
    | error e => rw [h1] at h; cases h
    | ok c1 =>
      rw [h1] at h; simp only at h
      cases h2 : getFlowControlType c1.conn.globalRateLimiter c1.gates with
      | none => rw [h2] at h; cases h
      | some t =>
        rw [h2] at h; simp only at h
        cases h3 : syncLocalFlowControls (resetLimiter c1 t) o.schemas with
        | none => rw [h3] at h; cases h
        | some c3 =>
          rw [h3] at h; simp only at h
          cases h4 : syncEndpoints env c3 o.servers ord with
          | mk c4 err =>
            rw [h4] at h
            cases err with
            | some e => simp only at h; cases h
            | none =>
              simp only at h
              cases h5 : syncSecureServing env c4 o.secureServing with
              | error e => rw [h5] at h; cases h
              | ok c5 =>
                rw [h5] at h; simp only at h
                injection h with h
                exact ⟨c1, t, c3, c4, c5, rfl, h2, h3, h4, h5, h.symm⟩

/-- the failing paths of `Sync`: what state is left behind -/
theorem sync_fail_cases {env : Env} {c c' : CI} {o : Obj} {ord : List Str} {e : Err} (h : sync env c o ord = .fail e c') :
    c' = c ∨
    (∃ c1 t c3, syncFeatureGate env c o.annotations = .ok c1 ∧
      syncLocalFlowControls (resetLimiter c1 t) o.schemas = some c3 ∧
      ((∃ err, syncEndpoints env c3 o.servers ord = (c', err))) ) := by
  unfold sync at h
  by_cases hn : c.cluster ≠ env.lower o.name
  · rw [if_pos hn] at h; cases h
  · rw [if_neg hn] at h
    cases h1 : syncFeatureGate env c o.annotations with
    | error e1 => rw [h1] at h; simp only at h; injection h with _ h; exact Or.inl h.symm
    | ok c1 =>
      rw [h1] at h; simp only at h
      cases h2 : getFlowControlType c1.conn.globalRateLimiter c1.gates with
      | none => rw [h2] at h; cases h
      | some t =>
        rw [h2] at h; simp only at h
        cases h3 : syncLocalFlowControls (resetLimiter c1 t) o.schemas with
        | none => rw [h3] at h; cases h
        | some c3 =>
          rw [h3] at h; simp only at h
          refine Or.inr ⟨c1, t, c3, rfl, h3, ?_⟩
          cases h4 : syncEndpoints env c3 o.servers ord with
          | mk c4 err =>
            rw [h4] at h
            cases err with
            | some e4 => simp only at h; injection h with _ h; subst h; exact ⟨_, rfl⟩
            | none =>
              simp only at h
              cases h5 : syncSecureServing env c4 o.secureServing with
              | error e5 => rw [h5] at h; simp only at h; injection h with _ h; subst h; exact ⟨_, rfl⟩
              | ok c5 => rw [h5] at h; cases h

theorem Obs.ext' {a b : Obs} (h1 : a.policies = b.policies) (h2 : a.logging = b.logging)
    (h3 : a.endpoints = b.endpoints) (h4 : a.schemas = b.schemas) (h5 : a.hasSchema = b.hasSchema)
    (h6 : a.limiterMode = b.limiterMode) (h7 : a.gates = b.gates) (h8 : a.tls = b.tls) (h9 : a.verify = b.verify)
    (h10 : a.serverNames = b.serverNames) : a = b := by
  cases a; cases b; simp_all

/-- what a consistent flow-control map shows for a name is what the spec prescribes -/
theorem getFlowSchema_of_FRel {c : CI} {spec : List Schema} {m : List (Str × Wrapper)} (hm : c.fcs = m)
    (h : FRel spec m) (n : Str) :
    getFlowSchema c n = (if n.length = 0 then some defaultFlowControl
      else match lastSchema spec n with
        | none => some defaultFlowControl
        | some s => newFlowControl s) ∧
    hasFlowSchema c n = (lastSchema spec n).isSome := by
  subst hm
  obtain ⟨_, hmap, hl⟩ := h
  unfold getFlowSchema hasFlowSchema
  cases hs : lastSchema spec n with
  | none =>
    rw [(hl n).1 hs]
    by_cases hz : n.length = 0 <;> simp [hz]
  | some s =>
    obtain ⟨w, hw, hcfg⟩ := (hl n).2 s hs
    rw [hw]
    refine ⟨?_, rfl⟩
    by_cases hz : n.length = 0
    · simp [hz]
    · simp only [hz, if_false]
      have hname : s.name = n := lastSchema_name hs
      cases hmap n w hw with
      | inl hzero =>
        -- an untouched wrapper only sits under the empty name
        exfalso
        rw [hcfg] at hzero
        have : s.name = [] := by rw [hzero.2]; rfl
        rw [hname] at this
        exact hz (by rw [this]; rfl)
      | inr hr =>
        obtain ⟨_, v, hv, hnf⟩ := hr
        rw [hv, ← hcfg, hnf]

theorem sync_ok_spec {env : Env} {c c' : CI} {o : Obj} {ord : List Str} (hI : Inv env c)
    (h : sync env c o ord = .ok c') (hn : c.cluster = env.lower o.name) :
    Inv env c' ∧ c'.cluster = c.cluster ∧ c'.conn = c.conn ∧
    observe env c' = expected env c.conn o ∧ applicable env c.conn o ∧ (∀ s ∈ o.schemas, safe s) ∧
    (getFlowControlType c.conn.globalRateLimiter (expGates env o)).isSome = true := by
  obtain ⟨hF, hS, hE⟩ := hI
  cases sync_ok_cases h with
  | inl hl => exact absurd hn hl.1
  | inr hr =>
    obtain ⟨_, c1, t, c3, c4, c5, h1, h2, h3, h4, h5, hc'⟩ := hr
    obtain ⟨hc1, hg, hgapp⟩ := syncFeatureGate_spec h1
    generalize c1.gates = g at hc1 hg
    subst hc1
    simp only at h2
    rw [hg] at h2
    have ht := getFlowControlType_spec (conn := c.conn) h2
    rw [resetLimiter_spec] at h3
    have hF2 : FInv { c with gates := g, limiterMode := t } := hF
    obtain ⟨hF3, hspec3, hc3⟩ := syncLocalFlowControls_spec hF2 h3
    have hsafe := syncLocalFlowControls_safe hF2 h3
    generalize c3.fcSpec = sp at hc3 hspec3
    generalize hm : c3.fcs = m at hc3
    subst hc3
    simp only at hm hF3
    have hE3 : EInv env { c with gates := g, limiterMode := t, fcSpec := sp, fcs := m } := hE
    obtain ⟨hE4, hc4, hep⟩ := syncEndpoints_spec hE3 h4
    obtain ⟨hepl, hepa⟩ := hep rfl
    generalize he : c4.eps = eps at hc4
    subst hc4
    simp only at he hepl hepa hE4
    have hS4 : SInv env { c with gates := g, limiterMode := t, fcSpec := sp, fcs := m, eps := eps } := hS
    obtain ⟨hS5, hss5, hld5, hc5⟩ := syncSecureServing_spec hS4 h5
    generalize hssv : c5.ss = ssv at hc5
    subst hc5
    subst hc'
    simp only at hssv
    refine ⟨⟨hF3, hS5, hE4⟩, rfl, rfl, ?_, ?_, hsafe, ?_⟩
    · -- the observation is the one the object prescribes
      have hFR : FRel o.schemas m := by
        have := hF3; unfold FInv at this; simp only at this; rw [hspec3] at this; exact this
      apply Obs.ext'
      · rfl
      · rfl
      · funext ep
        simp only [observe, expected, loadEndpoint]
        rw [hepl ep]; rfl
      · funext n
        simp only [observe, expected, expSchema]
        exact (getFlowSchema_of_FRel rfl hFR n).1
      · funext n
        simp only [observe, expected]
        exact (getFlowSchema_of_FRel rfl hFR n).2
      · simp only [observe, expected]; exact ht
      · simp only [observe, expected]; exact hg
      · -- TLS
        simp only [observe, expected, loadTLSConfig, expTLS]
        obtain ⟨s1, s2, s3, _, _⟩ := hS5
        cases hssv' : ssv with
        | none => subst hssv'; simp [loadSS] at hld5
        | some cfg =>
          subst hssv'
          simp only [loadSS] at hss5 s1 s3 ⊢
          rw [s1, s3, hss5]
      · simp only [observe, expected, loadVerifyOptions]
        obtain ⟨_, s2, _, _, _⟩ := hS5
        cases hssv' : ssv with
        | none => subst hssv'; simp [loadSS] at hld5
        | some cfg =>
          subst hssv'
          simp only [loadSS] at hss5 s2 ⊢
          rw [s2, hss5]
      · simp only [observe, expected, loadServerNames]
        cases hssv' : ssv with
        | none => subst hssv'; simp [loadSS] at hld5
        | some cfg =>
          subst hssv'
          simp only [loadSS] at hss5 ⊢
          rw [hss5, hn]
    · -- the object can be applied from scratch
      obtain ⟨_, _, _, s4, s5⟩ := hS5
      rw [hss5] at s4 s5
      exact ⟨hgapp, s4, s5, hepa⟩
    · rw [h2]; rfl

/-- a failed `Sync` (whatever sub-sync refused, however far the endpoint loop got) leaves a consistent `ClusterInfo`
    whose secure-serving configuration (TLS material, server names) is untouched -/
theorem sync_fail_spec {env : Env} {c c' : CI} {o : Obj} {ord : List Str} {e : Err} (hI : Inv env c)
    (h : sync env c o ord = .fail e c') :
    Inv env c' ∧ c'.cluster = c.cluster ∧ c'.conn = c.conn ∧ c'.ss = c.ss := by
  obtain ⟨hF, hS, hE⟩ := hI
  cases sync_fail_cases h with
  | inl hl => subst hl; exact ⟨⟨hF, hS, hE⟩, rfl, rfl, rfl⟩
  | inr hr =>
    obtain ⟨c1, t, c3, h1, h3, err, h4⟩ := hr
    obtain ⟨hc1, _, _⟩ := syncFeatureGate_spec h1
    generalize c1.gates = g at hc1
    subst hc1
    rw [resetLimiter_spec] at h3
    have hF2 : FInv { c with gates := g, limiterMode := t } := hF
    obtain ⟨hF3, _, hc3⟩ := syncLocalFlowControls_spec hF2 h3
    generalize c3.fcSpec = sp at hc3
    generalize hm : c3.fcs = m at hc3
    subst hc3
    simp only at hm hF3
    have hE3 : EInv env { c with gates := g, limiterMode := t, fcSpec := sp, fcs := m } := hE
    obtain ⟨hE4, hc4, _⟩ := syncEndpoints_spec hE3 h4
    generalize he : c'.eps = eps at hc4
    subst hc4
    exact ⟨⟨hF3, hS, hE4⟩, rfl, rfl, rfl⟩

theorem FInv_of_eq {a b : CI} (h1 : b.fcSpec = a.fcSpec) (h2 : b.fcs = a.fcs) (h : FInv a) : FInv b := by
  unfold FInv at *; rw [h1, h2]; exact h

theorem EInv_of_eq {env : Env} {a b : CI} (h1 : b.eps = a.eps) (h2 : b.conn = a.conn) (h : EInv env a) : EInv env b := by
  unfold EInv at *; rw [h1, h2]; exact h

/-- progress of `Sync` on a consistent `ClusterInfo`: an object every external parser accepts, whose schemas can be
    given limiters and whose endpoints can be given transports, is applied -/
theorem sync_progress {env : Env} {c : CI} {o : Obj} (ord : List Str) (hI : Inv env c)
    (hn : c.cluster = env.lower o.name) (ha : applicable env c.conn o) (hs : ∀ s ∈ o.schemas, safe s)
    (hg : (getFlowControlType c.conn.globalRateLimiter (expGates env o)).isSome = true) :
    ∃ c', sync env c o ord = .ok c' := by
  obtain ⟨a1, a2, a3, a4⟩ := ha
  obtain ⟨hF, hS, hE⟩ := hI
  unfold sync
  have hnn : ¬ c.cluster ≠ env.lower o.name := fun x => x hn
  rw [if_neg hnn]
  obtain ⟨c1, h1⟩ := syncFeatureGate_progress (c := c) a1
  rw [h1]
  obtain ⟨hc1, hg1, _⟩ := syncFeatureGate_spec h1
  simp only
  have hconn1 : c1.conn = c.conn := by rw [hc1]
  rw [hconn1, hg1]
  obtain ⟨t, ht⟩ := Option.isSome_iff_exists.1 hg
  rw [ht]
  simp only
  have hF2 : FInv (resetLimiter c1 t) := by
    rw [resetLimiter_spec]
    exact FInv_of_eq (a := c) (by simp only; rw [hc1]) (by simp only; rw [hc1]) hF
  obtain ⟨c3, h3⟩ := syncLocalFlowControls_progress hF2 hs
  rw [h3]
  simp only
  obtain ⟨_, _, hc3⟩ := syncLocalFlowControls_spec hF2 h3
  have hconn3 : c3.conn = c.conn := by rw [hc3, resetLimiter_spec]; simp only; exact hconn1
  obtain ⟨c4, h4⟩ := syncEndpoints_progress (env := env) (c := c3) (servers := o.servers) (ord := ord)
    (by rw [hconn3]; exact a4)
  rw [h4]
  simp only
  obtain ⟨c5, h5⟩ := syncSecureServing_progress (env := env) (c := c4) a2 a3
  rw [h5]
  exact ⟨_, rfl⟩

theorem fresh_progress {env : Env} {conn : Conn} {o : Obj} (ord : List Str) (ha : applicable env conn o)
    (hs : ∀ s ∈ o.schemas, safe s)
    (hg : (getFlowControlType conn.globalRateLimiter (expGates env o)).isSome = true) :
    ∃ f, fresh env conn o ord = .ok f :=
  sync_progress (c := empty env conn o.name) ord (empty_inv env conn o.name) rfl ha hs hg

/-- whatever state a successful `Sync` started from, a fresh `ClusterInfo` given only that object is created
    successfully (whatever the map iteration order) and observes the same -/
theorem fresh_of_sync_ok {env : Env} {c c' : CI} {o : Obj} {ord : List Str} (hI : Inv env c)
    (h : sync env c o ord = .ok c') (hn : c.cluster = env.lower o.name) :
    ∀ ord', ∃ f, fresh env c.conn o ord' = .ok f ∧ observe env f = observe env c' := by
  obtain ⟨_, _, _, hobs, happ, hsafe, hg⟩ := sync_ok_spec hI h hn
  intro ord'
  obtain ⟨f, hf⟩ := fresh_progress ord' happ hsafe hg
  refine ⟨f, hf, ?_⟩
  obtain ⟨_, _, _, hobs', _⟩ := sync_ok_spec (empty_inv env c.conn o.name) hf rfl
  rw [hobs, hobs']; rfl

/-! ## the controller: manager keys -/

/-- key `k` of the manager map points to `ClusterInfo` number `id`, which is `ci` -/
def resolves (st : Ctl) (k : Str) : Option (Nat × CI) :=
  match alookup k st.mgr with
  | none => none
  | some id =>
    match st.heap[id]? with
    | none => none
    | some ci => some (id, ci)

theorem get_eq (env : Env) (st : Ctl) (name : Str) : st.get env name = resolves st (env.lower name) := rfl

theorem resolves_some {st : Ctl} {k : Str} {id : Nat} {ci : CI} :
    resolves st k = some (id, ci) ↔ alookup k st.mgr = some id ∧ st.heap[id]? = some ci := by
  unfold resolves
  constructor
  · intro h
    split at h
    · cases h
    · rename_i id' h1
      split at h
      · cases h
      · rename_i ci' h2
        injection h with h; injection h with ha hb; subst ha; subst hb
        exact ⟨h1, h2⟩
  · intro h
    obtain ⟨h1, h2⟩ := h
    rw [h1]; simp only; rw [h2]

/-- key `k` points to a `ClusterInfo` of cluster `X` -/
def Owned (st : Ctl) (X : Str) (k : Str) : Prop := ∃ id c, resolves st k = some (id, c) ∧ c.cluster = X

theorem delOwned_frame (env : Env) (X : Str) (s : Ctl) (o : Str) :
    (delOwned env X s o).heap = s.heap ∧ (delOwned env X s o).lister = s.lister ∧
    (delOwned env X s o).queue = s.queue := by
  unfold delOwned
  cases h : s.get env o with
  | none => exact ⟨rfl, rfl, rfl⟩
  | some p =>
    obtain ⟨id, c⟩ := p
    simp only
    by_cases hc : c.cluster = X
    · rw [if_pos hc]; exact ⟨rfl, rfl, rfl⟩
    · rw [if_neg hc]; exact ⟨rfl, rfl, rfl⟩

theorem delOwned_mgr (env : Env) (X : Str) (s : Ctl) (o : Str) (j : Str) :
    (env.lower o = j ∧ Owned s X j → alookup j (delOwned env X s o).mgr = none) ∧
    (¬ (env.lower o = j ∧ Owned s X j) → alookup j (delOwned env X s o).mgr = alookup j s.mgr) := by
  unfold delOwned
  rw [get_eq]
  cases h : resolves s (env.lower o) with
  | none =>
    refine ⟨fun hx => ?_, fun _ => rfl⟩
    obtain ⟨hj, id, c, hr, _⟩ := hx
    rw [hj] at h; rw [h] at hr; cases hr
  | some p =>
    obtain ⟨id, c⟩ := p
    simp only
    by_cases hc : c.cluster = X
    · rw [if_pos hc]
      simp only [Ctl.delete, alookup_aerase]
      constructor
      · intro hx; rw [if_pos hx.1]
      · intro hx
        by_cases hj : env.lower o = j
        · exfalso; apply hx; refine ⟨hj, id, c, ?_, hc⟩; rw [← hj]; exact h
        · rw [if_neg hj]
    · rw [if_neg hc]
      refine ⟨fun hx => ?_, fun _ => rfl⟩
      obtain ⟨hj, id', c', hr, hc'⟩ := hx
      rw [hj] at h; rw [h] at hr; injection hr with hr; injection hr with _ hr; subst hr
      exact absurd hc' hc

theorem Owned_congr {s s' : Ctl} {X j : Str} (hh : s'.heap = s.heap) (hm : alookup j s'.mgr = alookup j s.mgr) :
    Owned s' X j ↔ Owned s X j := by
  unfold Owned resolves
  rw [hh, hm]

/-- `names.foldl (delOwned …)`: exactly the keys of the listed names that point to a `ClusterInfo` of cluster `X`
    are removed -/
theorem delFold_spec (env : Env) (X : Str) : ∀ (L : List Str) (s : Ctl),
    (L.foldl (delOwned env X) s).heap = s.heap ∧ (L.foldl (delOwned env X) s).lister = s.lister ∧
    (L.foldl (delOwned env X) s).queue = s.queue ∧
    ∀ j, (((∃ o ∈ L, env.lower o = j) ∧ Owned s X j) → alookup j (L.foldl (delOwned env X) s).mgr = none) ∧
         (¬ ((∃ o ∈ L, env.lower o = j) ∧ Owned s X j) → alookup j (L.foldl (delOwned env X) s).mgr = alookup j s.mgr) := by
  intro L
  induction L with
  | nil =>
    intro s
    refine ⟨rfl, rfl, rfl, fun j => ⟨fun h => ?_, fun _ => rfl⟩⟩
    obtain ⟨⟨o, ho, _⟩, _⟩ := h; cases ho
  | cons o r ih =>
    intro s
    simp only [List.foldl]
    obtain ⟨f1, f2, f3⟩ := delOwned_frame env X s o
    obtain ⟨i1, i2, i3, i4⟩ := ih (delOwned env X s o)
    refine ⟨i1.trans f1, i2.trans f2, i3.trans f3, fun j => ?_⟩
    obtain ⟨d1, d2⟩ := delOwned_mgr env X s o j
    obtain ⟨e1, e2⟩ := i4 j
    constructor
    · intro hx
      obtain ⟨⟨o', ho', hlo'⟩, hown⟩ := hx
      by_cases hj : env.lower o = j
      · -- removed at this step, stays removed
        have hnone := d1 ⟨hj, hown⟩
        have hnot : ¬ ((∃ o ∈ r, env.lower o = j) ∧ Owned (delOwned env X s o) X j) := by
          intro hc
          obtain ⟨_, id, c, hr, _⟩ := hc
          rw [resolves_some] at hr
          rw [hnone] at hr; cases hr.1
        rw [e2 hnot]; exact hnone
      · have hsame := d2 (fun hc => hj hc.1)
        have hor : o' ∈ r := by
          cases ho' with
          | head => exact absurd hlo' hj
          | tail _ h' => exact h'
        exact e1 ⟨⟨o', hor, hlo'⟩, (Owned_congr f1 hsame).2 hown⟩
    · intro hx
      by_cases hown : Owned s X j
      · have hno : ¬ ∃ o' ∈ o :: r, env.lower o' = j := fun hc => hx ⟨hc, hown⟩
        have hj : ¬ env.lower o = j := fun hc => hno ⟨o, List.mem_cons_self, hc⟩
        have hsame := d2 (fun hc => hj hc.1)
        have hnot : ¬ ((∃ o ∈ r, env.lower o = j) ∧ Owned (delOwned env X s o) X j) := by
          intro hc
          obtain ⟨⟨o', ho', hlo'⟩, _⟩ := hc
          exact hno ⟨o', List.mem_cons_of_mem _ ho', hlo'⟩
        rw [e2 hnot]; exact hsame
      · have hsame := d2 (fun hc => hown hc.2)
        have hnot : ¬ ((∃ o ∈ r, env.lower o = j) ∧ Owned (delOwned env X s o) X j) := by
          intro hc
          exact hown ((Owned_congr f1 hsame).1 hc.2)
        rw [e2 hnot]; exact hsame

theorem condDel_eq_filter (env : Env) (X : Str) (new : List Str) : ∀ (old : List Str) (s : Ctl),
    old.foldl (fun s o => if memb o new then s else delOwned env X s o) s =
    (old.filter fun o => !memb o new).foldl (delOwned env X) s := by
  intro old
  induction old with
  | nil => intro s; rfl
  | cons o r ih =>
    intro s
    simp only [List.foldl, List.filter_cons]
    by_cases hm : memb o new = true
    · simp only [hm, if_true, Bool.not_true, Bool.false_eq_true, if_false]; exact ih s
    · have hm' : memb o new = false := by simpa using hm
      simp only [hm', Bool.false_eq_true, if_false, Bool.not_false, if_true, List.foldl]; exact ih _

/-- the adding loop of `AddOrUpdateForServerNames` -/
theorem addFold_spec (env : Env) (old : List Str) (id : Nat) : ∀ (L : List Str) (s : Ctl),
    let s' := L.foldl (fun s n => if memb n old then s else s.addWithKey env n id) s
    s'.heap = s.heap ∧ s'.lister = s.lister ∧ s'.queue = s.queue ∧
    ∀ j, ((∃ n ∈ L, memb n old = false ∧ env.lower n = j) → alookup j s'.mgr = some id) ∧
         (¬ (∃ n ∈ L, memb n old = false ∧ env.lower n = j) → alookup j s'.mgr = alookup j s.mgr) := by
  intro L
  induction L with
  | nil =>
    intro s
    refine ⟨rfl, rfl, rfl, fun j => ⟨fun h => ?_, fun _ => rfl⟩⟩
    obtain ⟨o, ho, _⟩ := h; cases ho
  | cons n r ih =>
    intro s
    simp only [List.foldl]
    by_cases hm : memb n old = true
    · rw [if_pos hm]
      obtain ⟨i1, i2, i3, i4⟩ := ih s
      refine ⟨i1, i2, i3, fun j => ?_⟩
      obtain ⟨e1, e2⟩ := i4 j
      constructor
      · intro hx
        obtain ⟨n', hn', hmo, hl⟩ := hx
        cases hn' with
        | head => rw [hm] at hmo; cases hmo
        | tail _ h' => exact e1 ⟨n', h', hmo, hl⟩
      · intro hx
        exact e2 (fun hc => by obtain ⟨n', hn', hmo, hl⟩ := hc; exact hx ⟨n', List.mem_cons_of_mem _ hn', hmo, hl⟩)
    · have hm' : memb n old = false := by simpa using hm
      rw [if_neg hm]
      obtain ⟨i1, i2, i3, i4⟩ := ih (s.addWithKey env n id)
      refine ⟨i1, i2, i3, fun j => ?_⟩
      obtain ⟨e1, e2⟩ := i4 j
      constructor
      · intro hx
        by_cases hr : ∃ n' ∈ r, memb n' old = false ∧ env.lower n' = j
        · exact e1 hr
        · rw [e2 hr]
          obtain ⟨n', hn', hmo, hl⟩ := hx
          cases hn' with
          | head => simp only [Ctl.addWithKey, alookup_astore, hl, if_true]
          | tail _ h' => exact absurd ⟨n', h', hmo, hl⟩ hr
      · intro hx
        have hr : ¬ ∃ n' ∈ r, memb n' old = false ∧ env.lower n' = j :=
          fun hc => by obtain ⟨n', hn', hmo, hl⟩ := hc; exact hx ⟨n', List.mem_cons_of_mem _ hn', hmo, hl⟩
        rw [e2 hr]
        have hj : ¬ env.lower n = j := fun hc => hx ⟨n, List.mem_cons_self, hm', hc⟩
        simp only [Ctl.addWithKey, alookup_astore, hj, if_false]

/-! ## the controller: invariant -/

/-- `strings.ToLower` is idempotent -/
def LowerIdem (env : Env) : Prop := ∀ s, env.lower (env.lower s) = env.lower s

theorem names_fixed {env : Env} (hl : LowerIdem env) {ci : CI} (hc : env.lower ci.cluster = ci.cluster) :
    ∀ s ∈ loadServerNames env ci, env.lower s = s := by
  intro s hs
  unfold loadServerNames at hs
  cases hs with
  | head => exact hc
  | tail _ h =>
    obtain ⟨a, _, ha⟩ := List.mem_map.1 h
    rw [← ha]; exact hl a

theorem cluster_mem_names (env : Env) (ci : CI) : ci.cluster ∈ loadServerNames env ci := List.mem_cons_self

/-- the controller's invariant: every `ClusterInfo` is consistent; every key of the manager map is one of the server
    names of the `ClusterInfo` it points to; and when any key points to a `ClusterInfo`, all of its server names do -/
structure CInv (env : Env) (conn : Conn) (st : Ctl) : Prop where
  heapOK : ∀ (id : Nat) (ci : CI), st.heap[id]? = some ci → Inv env ci ∧ env.lower ci.cluster = ci.cluster ∧ ci.conn = conn
  keysSub : ∀ (k : Str) (id : Nat), alookup k st.mgr = some id → ∃ ci, st.heap[id]? = some ci ∧ k ∈ loadServerNames env ci
  namesKeys : ∀ (k : Str) (id : Nat) (ci : CI), alookup k st.mgr = some id → st.heap[id]? = some ci →
    ∀ s ∈ loadServerNames env ci, alookup s st.mgr = some id
  listerOK : ∀ n o, alookup n st.lister = some o → o.name = n

theorem CInv_init (env : Env) (conn : Conn) : CInv env conn Ctl.init := by
  refine ⟨?_, ?_, ?_, ?_⟩
  · intro id ci h; simp [Ctl.init] at h
  · intro k id h; simp [Ctl.init, alookup] at h
  · intro k id ci h; simp [Ctl.init, alookup] at h
  · intro n o h; simp [Ctl.init, alookup] at h

/-- two keys that point to `ClusterInfo`s of the same cluster point to the same `ClusterInfo` -/
theorem CInv.unique {env : Env} {conn : Conn} {st : Ctl} (hI : CInv env conn st) {k1 k2 : Str} {id1 id2 : Nat} {c1 c2 : CI}
    (h1 : resolves st k1 = some (id1, c1)) (h2 : resolves st k2 = some (id2, c2)) (hc : c1.cluster = c2.cluster) :
    id1 = id2 := by
  rw [resolves_some] at h1 h2
  have a := hI.namesKeys k1 id1 c1 h1.1 h1.2 c1.cluster (cluster_mem_names env c1)
  have b := hI.namesKeys k2 id2 c2 h2.1 h2.2 c2.cluster (cluster_mem_names env c2)
  rw [hc] at a; rw [a] at b; injection b

/-- what passing `checkServerNameConflict` means (when the name lists differ) -/
theorem conflict_false {env : Env} {st : Ctl} {X : Str} {old new : List Str} (hne : old ≠ new)
    (h : checkServerNameConflict env st X old new = false) :
    ∀ n ∈ new, ∀ id c, resolves st (env.lower n) = some (id, c) → c.cluster = X := by
  unfold checkServerNameConflict at h
  rw [if_neg hne] at h
  intro n hn id c hr
  by_cases ha : (new.any fun n => st.ownedByOther env X n) = true
  · rw [if_pos ha] at h; cases h
  · have ha' : (new.any fun n => st.ownedByOther env X n) = false := by simpa using ha
    rw [List.any_eq_false] at ha'
    have := ha' n hn
    unfold Ctl.ownedByOther at this
    rw [get_eq, hr] at this
    simpa using this

/-- a key that survives / is created by a loop keeps resolving as long as map entry and heap cell agree -/
theorem resolves_congr {s s' : Ctl} {j : Str} (hm : alookup j s'.mgr = alookup j s.mgr)
    (hh : ∀ id, alookup j s.mgr = some id → s'.heap[id]? = s.heap[id]?) : resolves s' j = resolves s j := by
  unfold resolves
  rw [hm]
  cases h : alookup j s.mgr with
  | none => rfl
  | some id => simp only; rw [hh id h]

/-- keys that point to other clusters' `ClusterInfo`s are untouched by an event of cluster `X` … -/
def F1 (st st' : Ctl) (X : Str) : Prop :=
  ∀ (k : Str) (id : Nat) (ci : CI), resolves st k = some (id, ci) → ci.cluster ≠ X → resolves st' k = some (id, ci)

/-- … and no key starts pointing to another cluster's `ClusterInfo` -/
def F2 (st st' : Ctl) (X : Str) : Prop :=
  ∀ (k : Str) (id : Nat) (ci : CI), resolves st' k = some (id, ci) → ci.cluster ≠ X → resolves st k = some (id, ci)

/-- `AddOrUpdateForServerNames` after `ClusterInfo` number `id` (of cluster `X`) was created or synced to `info'`:
    its keys become exactly its new server names, nothing else moves -/
theorem rekey_spec {env : Env} {conn : Conn} (hl : LowerIdem env) {st0 st1 st' : Ctl} {id : Nat} {info' : CI} {X : Str}
    {old : List Str} (hI : CInv env conn st0)
    (hmgr : st1.mgr = st0.mgr) (hlis : st1.lister = st0.lister) (hq : st1.queue = st0.queue)
    (hheap_id : st1.heap[id]? = some info')
    (hheap_other : ∀ id', id' ≠ id → st1.heap[id']? = st0.heap[id']?)
    (hX : env.lower X = X) (hcl : info'.cluster = X) (hinv : Inv env info') (hconn : info'.conn = conn)
    (hold : ∀ k, alookup k st0.mgr = some id ↔ k ∈ old)
    (hV : ∀ ci, st0.heap[id]? = some ci → ci.cluster = X)
    (hU : ∀ k id' c, resolves st0 k = some (id', c) → c.cluster = X → id' = id)
    (hne : old ≠ loadServerNames env info')
    (h : addOrUpdateForServerNames env st1 old id info' = some st') :
    CInv env conn st' ∧ st'.lister = st0.lister ∧ st'.queue = st0.queue ∧ F1 st0 st' X ∧ F2 st0 st' X ∧
    resolves st' X = some (id, info') := by
  unfold addOrUpdateForServerNames at h
  simp only at h
  rw [if_neg hne] at h
  by_cases hcf : checkServerNameConflict env st1 info'.cluster old (loadServerNames env info') = true
  · rw [if_pos hcf] at h; cases h
  · have hcf' : checkServerNameConflict env st1 info'.cluster old (loadServerNames env info') = false := by simpa using hcf
    rw [if_neg hcf] at h
    injection h with h
    rw [condDel_eq_filter, hcl] at h
    rw [hcl] at hcf'
    generalize hnew : loadServerNames env info' = new at h hcf' hne
    -- the two loops
    obtain ⟨dh, dl, dq, dm⟩ := delFold_spec env X (old.filter fun o => !memb o new) st1
    generalize hsD : (old.filter fun o => !memb o new).foldl (delOwned env X) st1 = sD at h dh dl dq dm
    have af := addFold_spec env old id new sD
    simp only at af
    rw [h] at af
    obtain ⟨ah, al, aq, am⟩ := af
    have hheap' : st'.heap = st1.heap := ah.trans dh
    -- names are lower-case fixed points
    have hfixC : env.lower info'.cluster = info'.cluster := by rw [hcl]; exact hX
    have hfn : ∀ s ∈ new, env.lower s = s := by rw [← hnew]; exact names_fixed hl hfixC
    have hfo : ∀ k ∈ old, env.lower k = k := by
      intro k hk
      have hk' := (hold k).2 hk
      obtain ⟨ci, hci, hmem⟩ := hI.keysSub k id hk'
      exact names_fixed hl (hI.heapOK id ci hci).2.1 k hmem
    have hXnew : X ∈ new := by rw [← hnew, ← hcl]; exact cluster_mem_names env info'
    -- the old keys of `id` all point to a ClusterInfo of cluster X
    have hown : ∀ k ∈ old, Owned st1 X k := by
      intro k hk
      refine ⟨id, info', ?_, hcl⟩
      rw [resolves_some, hmgr]
      exact ⟨(hold k).2 hk, hheap_id⟩
    -- nothing of another cluster sits on a new name
    have hnc : ∀ n ∈ new, ∀ id' c, resolves st1 n = some (id', c) → c.cluster = X := by
      intro n hn id' c hr
      have := conflict_false hne hcf' n hn id' c
      rw [hfn n hn] at this
      exact this hr
    -- the new key map
    have KC : ∀ j, (j ∈ new → alookup j st'.mgr = some id) ∧
        (j ∉ new → j ∈ old → alookup j st'.mgr = none) ∧
        (j ∉ new → j ∉ old → alookup j st'.mgr = alookup j st0.mgr) := by
      intro j
      obtain ⟨a1, a2⟩ := am j
      obtain ⟨d1, d2⟩ := dm j
      refine ⟨fun hjn => ?_, fun hjn hjo => ?_, fun hjn hjo => ?_⟩
      · by_cases hjo : j ∈ old
        · have hnA : ¬ ∃ n ∈ new, memb n old = false ∧ env.lower n = j := by
            intro hc
            obtain ⟨n, hn, hmo, hln⟩ := hc
            rw [hfn n hn] at hln; subst hln
            exact (memb_false_iff _ _).1 hmo hjo
          have hnD : ¬ ((∃ o ∈ old.filter fun o => !memb o new, env.lower o = j) ∧ Owned st1 X j) := by
            intro hc
            obtain ⟨⟨o, ho, hlo⟩, _⟩ := hc
            rw [List.mem_filter] at ho
            rw [hfo o ho.1] at hlo; subst hlo
            have : memb o new = false := by simpa using ho.2
            exact (memb_false_iff _ _).1 this hjn
          rw [a2 hnA, d2 hnD, hmgr]
          exact (hold j).2 hjo
        · exact a1 ⟨j, hjn, (memb_false_iff _ _).2 hjo, hfn j hjn⟩
      · have hnA : ¬ ∃ n ∈ new, memb n old = false ∧ env.lower n = j := by
          intro hc
          obtain ⟨n, hn, _, hln⟩ := hc
          rw [hfn n hn] at hln; subst hln
          exact hjn hn
        rw [a2 hnA]
        apply d1
        refine ⟨⟨j, ?_, hfo j hjo⟩, hown j hjo⟩
        rw [List.mem_filter]
        exact ⟨hjo, by simp [(memb_false_iff _ _).2 hjn]⟩
      · have hnA : ¬ ∃ n ∈ new, memb n old = false ∧ env.lower n = j := by
          intro hc
          obtain ⟨n, hn, _, hln⟩ := hc
          rw [hfn n hn] at hln; subst hln
          exact hjn hn
        have hnD : ¬ ((∃ o ∈ old.filter fun o => !memb o new, env.lower o = j) ∧ Owned st1 X j) := by
          intro hc
          obtain ⟨⟨o, ho, hlo⟩, _⟩ := hc
          rw [List.mem_filter] at ho
          rw [hfo o ho.1] at hlo; subst hlo
          exact hjo ho.1
        rw [a2 hnA, d2 hnD, hmgr]
    -- a key of the new map that does not point to `id` is an untouched key of the old map
    have hother : ∀ k id', alookup k st'.mgr = some id' → id' ≠ id →
        k ∉ new ∧ k ∉ old ∧ alookup k st0.mgr = some id' ∧ st'.heap[id']? = st0.heap[id']? := by
      intro k id' hk hid
      obtain ⟨k1, k2, k3⟩ := KC k
      have hkn : k ∉ new := fun hc => by rw [k1 hc] at hk; injection hk with hk; exact hid hk.symm
      have hko : k ∉ old := fun hc => by rw [k2 hkn hc] at hk; cases hk
      rw [k3 hkn hko] at hk
      exact ⟨hkn, hko, hk, by rw [hheap', hheap_other id' hid]⟩
    have hheapid : st'.heap[id]? = some info' := by rw [hheap']; exact hheap_id
    refine ⟨⟨?_, ?_, ?_, ?_⟩, al.trans (dl.trans hlis), aq.trans (dq.trans hq), ?_, ?_, ?_⟩
    · -- heapOK
      intro id' ci hci
      by_cases hid : id' = id
      · subst hid
        rw [hheapid] at hci; injection hci with hci; subst hci
        exact ⟨hinv, hfixC, hconn⟩
      · rw [hheap', hheap_other id' hid] at hci
        exact hI.heapOK id' ci hci
    · -- keysSub
      intro k id' hk
      by_cases hid : id' = id
      · subst hid
        refine ⟨info', hheapid, ?_⟩
        rw [hnew]
        apply Classical.byContradiction
        intro hkn
        obtain ⟨_, k2, k3⟩ := KC k
        by_cases hko : k ∈ old
        · rw [k2 hkn hko] at hk; cases hk
        · rw [k3 hkn hko] at hk
          exact hko ((hold k).1 hk)
      · obtain ⟨_, _, hk0, hh⟩ := hother k id' hk hid
        obtain ⟨ci, hci, hmem⟩ := hI.keysSub k id' hk0
        exact ⟨ci, by rw [hh]; exact hci, hmem⟩
    · -- namesKeys
      intro k id' ci hk hci s hs
      by_cases hid : id' = id
      · subst hid
        rw [hheapid] at hci; injection hci with hci; subst hci
        rw [hnew] at hs
        exact (KC s).1 hs
      · obtain ⟨_, _, hk0, hh⟩ := hother k id' hk hid
        rw [hh] at hci
        have hs0 := hI.namesKeys k id' ci hk0 hci s hs
        obtain ⟨_, _, k3⟩ := KC s
        have hso : s ∉ old := fun hc => by
          have := (hold s).2 hc
          rw [this] at hs0; injection hs0 with hs0; exact hid hs0.symm
        have hsn : s ∉ new := fun hc => by
          have hr : resolves st1 s = some (id', ci) := by
            rw [resolves_some, hmgr, hheap_other id' hid]; exact ⟨hs0, hci⟩
          have hcX := hnc s hc id' ci hr
          have hr0 : resolves st0 s = some (id', ci) := by rw [resolves_some]; exact ⟨hs0, hci⟩
          exact hid (hU s id' ci hr0 hcX)
        rw [k3 hsn hso]; exact hs0
    · -- listerOK
      intro n o hn
      rw [al.trans (dl.trans hlis)] at hn
      exact hI.listerOK n o hn
    · -- F1
      intro k id' ci hr hcX
      rw [resolves_some] at hr
      have hid : id' ≠ id := fun hc => by subst hc; exact hcX (hV ci hr.2)
      obtain ⟨_, _, k3⟩ := KC k
      have hko : k ∉ old := fun hc => by
        have := (hold k).2 hc
        rw [this] at hr; injection hr.1 with hr1; exact hid hr1.symm
      have hkn : k ∉ new := fun hc => by
        have hr1 : resolves st1 k = some (id', ci) := by
          rw [resolves_some, hmgr, hheap_other id' hid]; exact hr
        exact hcX (hnc k hc id' ci hr1)
      rw [resolves_some, k3 hkn hko, hheap', hheap_other id' hid]
      exact hr
    · -- F2
      intro k id' ci hr hcX
      rw [resolves_some] at hr
      have hid : id' ≠ id := fun hc => by
        subst hc
        rw [hheapid] at hr; injection hr.2 with hr2; subst hr2
        exact hcX hcl
      obtain ⟨_, _, hk0, hh⟩ := hother k id' hr.1 hid
      rw [resolves_some]
      exact ⟨hk0, by rw [← hh]; exact hr.2⟩
    · rw [resolves_some]
      exact ⟨(KC X).1 hXnew, hheapid⟩

theorem heap_set_get {heap : List CI} {id : Nat} {info info' : CI} (h : heap[id]? = some info) (id' : Nat) :
    (heap.set id info')[id']? = if id' = id then some info' else heap[id']? := by
  have hlt : id < heap.length := by
    obtain ⟨hlt, _⟩ := List.getElem?_eq_some_iff.1 h
    exact hlt
  rw [List.getElem?_set]
  by_cases hi : id = id'
  · subst hi; simp [hlt]
  · have : ¬ id' = id := fun x => hi x.symm
    rw [if_neg hi, if_neg this]

theorem heap_append_get (heap : List CI) (info : CI) (id' : Nat) :
    (heap ++ [info])[id']? = if id' = heap.length then some info else heap[id']? := by
  rw [List.getElem?_append]
  by_cases hlt : id' < heap.length
  · have : ¬ id' = heap.length := by omega
    rw [if_pos hlt, if_neg this]
  · rw [if_neg hlt]
    by_cases he : id' = heap.length
    · subst he; simp
    · rw [if_neg he]
      have h1 : heap.length ≤ id' := by omega
      rw [List.getElem?_eq_none h1]
      have : 1 ≤ id' - heap.length := by omega
      exact List.getElem?_eq_none (by simpa using this)

/-- replacing `ClusterInfo` number `id` by a state of the same cluster that reports the same server names
    (a failed `Sync`, or a successful one that did not change the names) keeps the invariant -/
theorem heapset_spec {env : Env} {conn : Conn} {st : Ctl} {id : Nat} {info info' : CI} (hI : CInv env conn st)
    (hid : st.heap[id]? = some info) (hcl : info'.cluster = info.cluster)
    (hnames : loadServerNames env info' = loadServerNames env info) (hinv : Inv env info') (hconn : info'.conn = conn) :
    CInv env conn { st with heap := st.heap.set id info' } ∧
    F1 st { st with heap := st.heap.set id info' } info.cluster ∧
    F2 st { st with heap := st.heap.set id info' } info.cluster ∧
    ∀ k, resolves st k = some (id, info) → resolves { st with heap := st.heap.set id info' } k = some (id, info') := by
  have hget := heap_set_get (info' := info') hid
  refine ⟨⟨?_, ?_, ?_, hI.listerOK⟩, ?_, ?_, ?_⟩
  · intro id' ci hci
    simp only [hget] at hci
    by_cases he : id' = id
    · rw [if_pos he] at hci; injection hci with hci; subst hci
      exact ⟨hinv, by rw [hcl]; exact (hI.heapOK id info hid).2.1, hconn⟩
    · rw [if_neg he] at hci; exact hI.heapOK id' ci hci
  · intro k id' hk
    obtain ⟨ci, hci, hmem⟩ := hI.keysSub k id' hk
    simp only [hget]
    by_cases he : id' = id
    · subst he
      rw [hid] at hci; injection hci with hci; subst hci
      exact ⟨info', by rw [if_pos rfl], by rw [hnames]; exact hmem⟩
    · exact ⟨ci, by rw [if_neg he]; exact hci, hmem⟩
  · intro k id' ci hk hci s hs
    simp only [hget] at hci
    by_cases he : id' = id
    · subst he
      rw [if_pos rfl] at hci; injection hci with hci; subst hci
      rw [hnames] at hs
      exact hI.namesKeys k id' info hk hid s hs
    · rw [if_neg he] at hci
      exact hI.namesKeys k id' ci hk hci s hs
  · intro k id' ci hr hcX
    rw [resolves_some] at hr ⊢
    have he : id' ≠ id := fun hc => by subst hc; rw [hid] at hr; injection hr.2 with h2; subst h2; exact hcX rfl
    simp only [hget, if_neg he]
    exact hr
  · intro k id' ci hr hcX
    rw [resolves_some] at hr ⊢
    simp only [hget] at hr
    have he : id' ≠ id := fun hc => by
      subst hc; rw [if_pos rfl] at hr; injection hr.2 with h2; subst h2; exact hcX hcl
    rw [if_neg he] at hr
    exact hr
  · intro k hr
    rw [resolves_some] at hr ⊢
    refine ⟨hr.1, ?_⟩
    show (st.heap.set id info')[id]? = some info'
    rw [hget, if_pos rfl]

/-- `DeleteForServerNames` -/
theorem deleteForServerNames_spec {env : Env} {conn : Conn} (hl : LowerIdem env) {st : Ctl} {X : Str}
    (hI : CInv env conn st) (hX : env.lower X = X) :
    CInv env conn (deleteForServerNames env st X) ∧ (deleteForServerNames env st X).lister = st.lister ∧
    (deleteForServerNames env st X).queue = st.queue ∧
    F1 st (deleteForServerNames env st X) X ∧ F2 st (deleteForServerNames env st X) X ∧
    ∀ (id : Nat) (ci : CI), resolves (deleteForServerNames env st X) X = some (id, ci) → ci.cluster ≠ X := by
  have hD : deleteForServerNames env st X = (match resolves st X with
      | none => st
      | some (_, info) => (loadServerNames env info).foldl (delOwned env X) st) := by
    unfold deleteForServerNames; rw [get_eq, hX]
    cases resolves st X with
    | none => rfl
    | some p => rfl
  rw [hD]
  cases hr : resolves st X with
  | none =>
    dsimp only
    refine ⟨hI, rfl, rfl, fun k id ci h _ => h, fun k id ci h _ => h, fun id ci h => ?_⟩
    rw [hr] at h; cases h
  | some p =>
    obtain ⟨id0, info⟩ := p
    dsimp only
    obtain ⟨dh, dl, dq, dm⟩ := delFold_spec env X (loadServerNames env info) st
    generalize (loadServerNames env info).foldl (delOwned env X) st = st' at dh dl dq dm
    have hr0 := resolves_some.1 hr
    -- a key is either untouched, or it pointed to a ClusterInfo of cluster X and is gone
    have hkey : ∀ j, alookup j st'.mgr = alookup j st.mgr ∨ (alookup j st'.mgr = none ∧ Owned st X j) := by
      intro j
      obtain ⟨d1, d2⟩ := dm j
      by_cases hc : (∃ o ∈ loadServerNames env info, env.lower o = j) ∧ Owned st X j
      · exact Or.inr ⟨d1 hc, hc.2⟩
      · exact Or.inl (d2 hc)
    have hsub : ∀ j id, alookup j st'.mgr = some id → alookup j st.mgr = some id := by
      intro j id hj
      cases hkey j with
      | inl h => rw [← h]; exact hj
      | inr h => rw [h.1] at hj; cases hj
    refine ⟨⟨?_, ?_, ?_, ?_⟩, dl, dq, ?_, ?_, ?_⟩
    · intro id ci hci; rw [dh] at hci; exact hI.heapOK id ci hci
    · intro k id hk
      obtain ⟨ci, hci, hmem⟩ := hI.keysSub k id (hsub k id hk)
      exact ⟨ci, by rw [dh]; exact hci, hmem⟩
    · intro k id ci hk hci s hs
      rw [dh] at hci
      have hk0 := hsub k id hk
      have hs0 := hI.namesKeys k id ci hk0 hci s hs
      cases hkey s with
      | inl h => rw [h]; exact hs0
      | inr h =>
        -- `s` was removed: then `id` is the ClusterInfo of cluster X whose names were walked, and `k` is gone too
        exfalso
        obtain ⟨_, id2, c2, hr2, hc2⟩ := h
        have hr2' := resolves_some.1 hr2
        rw [hs0] at hr2'; injection hr2'.1 with hid2; subst hid2
        rw [hci] at hr2'; injection hr2'.2 with hci2; subst hci2
        -- the walked ClusterInfo is this one
        have hXk : alookup X st.mgr = some id := by
          have := hI.namesKeys k id ci hk0 hci ci.cluster (cluster_mem_names env ci)
          rw [hc2] at this; exact this
        rw [hXk] at hr0; injection hr0.1 with hid0; subst hid0
        rw [hci] at hr0; injection hr0.2 with hinfo; subst hinfo
        obtain ⟨ci'', hci'', hkmem'⟩ := hI.keysSub k id hk0
        rw [hci] at hci''; injection hci'' with hci''; subst hci''
        have hfixk : env.lower k = k := names_fixed hl (hI.heapOK id ci hci).2.1 k hkmem'
        obtain ⟨d1, _⟩ := dm k
        have : alookup k st'.mgr = none := d1 ⟨⟨k, hkmem', hfixk⟩, id, ci, resolves_some.2 ⟨hk0, hci⟩, hc2⟩
        rw [this] at hk; cases hk
    · intro n o hn; rw [dl] at hn; exact hI.listerOK n o hn
    · intro k id ci hrk hcX
      rw [resolves_some] at hrk ⊢
      rw [dh]
      cases hkey k with
      | inl h => rw [h]; exact hrk
      | inr h =>
        exfalso
        obtain ⟨_, id2, c2, hr2, hc2⟩ := h
        rw [resolves_some] at hr2
        rw [hrk.1] at hr2; injection hr2.1 with e; subst e
        rw [hrk.2] at hr2; injection hr2.2 with e; subst e
        exact hcX hc2
    · intro k id ci hrk _
      rw [resolves_some] at hrk ⊢
      rw [dh] at hrk
      exact ⟨hsub k id hrk.1, hrk.2⟩
    · intro id ci hrk hcX
      rw [resolves_some] at hrk
      rw [dh] at hrk
      have hk0 := hsub X id hrk.1
      rw [hk0] at hr0; injection hr0.1 with e; subst e
      rw [hrk.2] at hr0; injection hr0.2 with e; subst e
      obtain ⟨d1, _⟩ := dm X
      have : alookup X st'.mgr = none := by
        apply d1
        refine ⟨⟨X, ?_, hX⟩, id, ci, resolves_some.2 ⟨hk0, hrk.2⟩, hcX⟩
        rw [← hcX]; exact cluster_mem_names env ci
      rw [this] at hrk; cases hrk.1

/-! ## the controller: the sync handler -/

/-- cluster `n` is settled: what is served under its name is exactly what the lister's current object prescribes,
    or nothing of this cluster is served when the object is gone -/
def SettledAt (env : Env) (conn : Conn) (st : Ctl) (n : Str) : Prop :=
  match alookup n st.lister with
  | none => ∀ (id : Nat) (ci : CI), resolves st n = some (id, ci) → ci.cluster ≠ n
  | some o => ∃ id ci, resolves st n = some (id, ci) ∧ ci.cluster = n ∧ observe env ci = expected env conn o ∧
      ∀ ord', ∃ f, fresh env conn o ord' = .ok f ∧ observe env f = observe env ci

def Post (env : Env) (conn : Conn) (st st' : Ctl) (X : Str) : Prop :=
  CInv env conn st' ∧ st'.lister = st.lister ∧ st'.queue = st.queue ∧ F1 st st' X ∧ F2 st st' X

theorem Post_refl {env : Env} {conn : Conn} {st : Ctl} (hI : CInv env conn st) (X : Str) : Post env conn st st X :=
  ⟨hI, rfl, rfl, fun _ _ _ h _ => h, fun _ _ _ h _ => h⟩

theorem loadServerNames_congr (env : Env) {a b : CI} (h1 : a.cluster = b.cluster) (h2 : a.ss = b.ss) :
    loadServerNames env a = loadServerNames env b := by
  unfold loadServerNames loadSS; rw [h1, h2]

/-- passing the conflict pre-check means that what is served under the cluster's own name is this cluster -/
theorem conflict_own {env : Env} {st : Ctl} {cluster : Obj} {id : Nat} {info : CI}
    (hc : checkUpstreamServerNameConflict env st cluster = false)
    (hg : st.get env (env.lower cluster.name) = some (id, info)) : info.cluster = env.lower cluster.name := by
  unfold checkUpstreamServerNameConflict at hc
  simp only [hg] at hc
  unfold checkServerNameConflict at hc
  by_cases he : loadServerNames env info = env.lower cluster.name :: cluster.secureServing.serverNames.map env.lower
  · unfold loadServerNames at he
    injection he
  · rw [if_neg he] at hc
    by_cases ha : ((env.lower cluster.name :: cluster.secureServing.serverNames.map env.lower).any
        fun n => st.ownedByOther env (env.lower cluster.name) n) = true
    · rw [if_pos ha] at hc; cases hc
    · have ha' : ((env.lower cluster.name :: cluster.secureServing.serverNames.map env.lower).any
          fun n => st.ownedByOther env (env.lower cluster.name) n) = false := by simpa using ha
      rw [List.any_eq_false] at ha'
      have := ha' (env.lower cluster.name) List.mem_cons_self
      unfold Ctl.ownedByOther at this
      rw [hg] at this
      simpa using this

theorem ownedByOther_set {env : Env} {st : Ctl} {id : Nat} {info info' : CI} (hid : st.heap[id]? = some info)
    (hcl : info'.cluster = info.cluster) (X n : Str) :
    Ctl.ownedByOther env { st with heap := st.heap.set id info' } X n = Ctl.ownedByOther env st X n := by
  unfold Ctl.ownedByOther
  rw [get_eq, get_eq]
  unfold resolves
  simp only
  cases hk : alookup (env.lower n) st.mgr with
  | none => rfl
  | some id' =>
    simp only
    rw [heap_set_get hid]
    by_cases he : id' = id
    · subst he
      rw [if_pos rfl, hid]
      simp only [hcl]
    · rw [if_neg he]

theorem check_set {env : Env} {st : Ctl} {id : Nat} {info info' : CI} (hid : st.heap[id]? = some info)
    (hcl : info'.cluster = info.cluster) (X : Str) (old new : List Str) :
    checkServerNameConflict env { st with heap := st.heap.set id info' } X old new =
    checkServerNameConflict env st X old new := by
  unfold checkServerNameConflict
  have : (fun n => Ctl.ownedByOther env { st with heap := st.heap.set id info' } X n) =
      (fun n => Ctl.ownedByOther env st X n) := funext (ownedByOther_set hid hcl X)
  rw [this]
  have h2 : (fun o => !memb o new && Ctl.ownedByOther env { st with heap := st.heap.set id info' } X o) =
      (fun o => !memb o new && Ctl.ownedByOther env st X o) := by
    funext o; rw [ownedByOther_set hid hcl X o]
  rw [h2]

/-- **the sync handler** (`syncUpstreamCluster` for a queue item naming cluster `X`): unless the process panics,
    it keeps the controller's invariant, does not touch what other clusters' keys point to, and — when it does not ask
    for a requeue — leaves cluster `X` settled on the lister's CURRENT object -/
theorem handler_spec {env : Env} {conn : Conn} (hl : LowerIdem env) {st : Ctl} {X : Str} (ord : List Str)
    (hI : CInv env conn st) (hX : env.lower X = X) :
    match syncUpstreamCluster env conn st X ord with
    | .crash => True
    | .requeue st' => Post env conn st st' X
    | .done st' => Post env conn st st' X ∧ SettledAt env conn st' X := by
  unfold syncUpstreamCluster
  simp only
  rw [hX]
  cases hlis : alookup X st.lister with
  | none =>
    dsimp only
    obtain ⟨d1, d2, d3, d4, d5, d6⟩ := deleteForServerNames_spec hl hI hX
    refine ⟨⟨d1, d2, d3, d4, d5⟩, ?_⟩
    unfold SettledAt
    rw [d2, hlis]
    exact d6
  | some cluster =>
    dsimp only
    have hname : cluster.name = X := hI.listerOK X cluster hlis
    by_cases hcf : checkUpstreamServerNameConflict env st cluster = true
    · rw [if_pos hcf]; exact Post_refl hI X
    · have hcf' : checkUpstreamServerNameConflict env st cluster = false := by simpa using hcf
      rw [if_neg hcf]
      cases hg : st.get env X with
      | none =>
        dsimp only
        have hg' : resolves st X = none := by rw [get_eq, hX] at hg; exact hg
        cases hf : fresh env conn cluster ord with
        | crash => trivial
        | fail e c => exact Post_refl hI X
        | ok info =>
          dsimp only
          have hfr : sync env (empty env conn cluster.name) cluster ord = .ok info := hf
          obtain ⟨hinv, hcl, hconn, hobs, _, _, _⟩ := sync_ok_spec (empty_inv env conn cluster.name) hfr rfl
          have hfre : ∀ ord', ∃ f, fresh env conn cluster ord' = .ok f ∧ observe env f = observe env info :=
            fresh_of_sync_ok (empty_inv env conn cluster.name) hfr rfl
          have hcl' : info.cluster = X := by rw [hcl]; show env.lower cluster.name = X; rw [hname, hX]
          have hconn' : info.conn = conn := hconn
          have hobs' : observe env info = expected env conn cluster := hobs
          cases ha : addOrUpdateForServerNames env { st with heap := st.heap ++ [info] } [] st.heap.length info with
          | none => exact Post_refl hI X
          | some st2 =>
            dsimp only
            have hnone : ∀ ci, st.heap[st.heap.length]? = some ci → False := by
              intro ci h; rw [List.getElem?_eq_none (Nat.le_refl _)] at h; cases h
            have hnoX : ∀ k id' c, resolves st k = some (id', c) → c.cluster = X → False := by
              intro k id' c hr hc
              rw [resolves_some] at hr
              have := hI.namesKeys k id' c hr.1 hr.2 c.cluster (cluster_mem_names env c)
              rw [hc] at this
              have hr' : resolves st X = some (id', c) := resolves_some.2 ⟨this, hr.2⟩
              rw [hg'] at hr'; cases hr'
            obtain ⟨r1, r2, r3, r4, r5, r6⟩ := rekey_spec (conn := conn) hl (st0 := st)
              (st1 := { st with heap := st.heap ++ [info] }) (id := st.heap.length) (info' := info) (X := X) (old := [])
              hI rfl rfl rfl
              (by show (st.heap ++ [info])[st.heap.length]? = some info; rw [heap_append_get, if_pos rfl])
              (by intro id' hne; show (st.heap ++ [info])[id']? = st.heap[id']?; rw [heap_append_get, if_neg hne])
              hX hcl' hinv hconn'
              (by
                intro k
                constructor
                · intro hk
                  obtain ⟨ci, hci, _⟩ := hI.keysSub k _ hk
                  exact (hnone ci hci).elim
                · intro hk; cases hk)
              (fun ci h => (hnone ci h).elim)
              (fun k id' c hr hc => (hnoX k id' c hr hc).elim)
              (by unfold loadServerNames; intro hc; cases hc)
              ha
            refine ⟨⟨r1, r2, r3, r4, r5⟩, ?_⟩
            unfold SettledAt
            rw [r2, hlis]
            exact ⟨_, _, r6, hcl', hobs', hfre⟩
      | some p =>
        obtain ⟨id, info⟩ := p
        dsimp only
        have hg' : resolves st X = some (id, info) := by rw [get_eq, hX] at hg; exact hg
        have hgr := resolves_some.1 hg'
        have hown : info.cluster = X := by
          have := conflict_own (id := id) (info := info) hcf' (by rw [hname, hX]; exact hg)
          rw [this, hname, hX]
        obtain ⟨hinv0, hfix0, hconn0⟩ := hI.heapOK id info hgr.2
        have hn : info.cluster = env.lower cluster.name := by rw [hown, hname, hX]
        cases hs : sync env info cluster ord with
        | crash => trivial
        | fail e info' =>
          dsimp only
          obtain ⟨hinv', hcl', hconn', hss'⟩ := sync_fail_spec hinv0 hs
          obtain ⟨c1, c2, c3, _⟩ := heapset_spec (env := env) (conn := conn) hI hgr.2 hcl'
            (loadServerNames_congr env hcl' hss') hinv' (hconn'.trans hconn0)
          rw [hown] at c2 c3
          exact ⟨c1, rfl, rfl, c2, c3⟩
        | ok info' =>
          dsimp only
          obtain ⟨hinv', hcl', hconn', hobs', _, _, _⟩ := sync_ok_spec hinv0 hs hn
          have hfre := fresh_of_sync_ok hinv0 hs hn
          rw [hconn0] at hobs' hfre
          have hconn'' : info'.conn = conn := hconn'.trans hconn0
          have hclX : info'.cluster = X := hcl'.trans hown
          by_cases heq : loadServerNames env info = loadServerNames env info'
          · -- the server names did not change
            have ha : addOrUpdateForServerNames env { st with heap := st.heap.set id info' } (loadServerNames env info) id info' =
                some { st with heap := st.heap.set id info' } := by
              unfold addOrUpdateForServerNames
              simp only
              rw [if_pos heq]
            rw [ha]
            dsimp only
            obtain ⟨c1, c2, c3, c4⟩ := heapset_spec (env := env) (conn := conn) hI hgr.2 hcl' heq.symm hinv' hconn''
            rw [hown] at c2 c3
            refine ⟨⟨c1, rfl, rfl, c2, c3⟩, ?_⟩
            unfold SettledAt
            show (match alookup X st.lister with
              | none => _
              | some o => _)
            rw [hlis]
            exact ⟨id, info', c4 X hg', hclX, hobs', hfre⟩
          · -- the server names changed: the pre-check already passed for exactly these names
            have hnew : loadServerNames env info' = X :: cluster.secureServing.serverNames.map env.lower := by
              have := congrArg Obs.serverNames hobs'
              simp only [observe, expected] at this
              rw [this, hname, hX]
            have hpre : checkServerNameConflict env st X (loadServerNames env info) (loadServerNames env info') = false := by
              have := hcf'
              unfold checkUpstreamServerNameConflict at this
              rw [hname, hX] at this
              simp only [hg] at this
              rw [hnew]; exact this
            cases ha : addOrUpdateForServerNames env { st with heap := st.heap.set id info' } (loadServerNames env info) id info' with
            | none =>
              exfalso
              unfold addOrUpdateForServerNames at ha
              simp only at ha
              rw [if_neg heq, hclX, check_set hgr.2 hcl', hpre] at ha
              simp at ha
            | some st2 =>
              dsimp only
              obtain ⟨r1, r2, r3, r4, r5, r6⟩ := rekey_spec (conn := conn) hl (st0 := st)
                (st1 := { st with heap := st.heap.set id info' }) (id := id) (info' := info') (X := X)
                (old := loadServerNames env info) hI rfl rfl rfl
                (by show (st.heap.set id info')[id]? = some info'; rw [heap_set_get hgr.2, if_pos rfl])
                (by intro id' hne; show (st.heap.set id info')[id']? = st.heap[id']?; rw [heap_set_get hgr.2, if_neg hne])
                hX hclX hinv' hconn''
                (by
                  intro k
                  constructor
                  · intro hk
                    obtain ⟨ci, hci, hmem⟩ := hI.keysSub k id hk
                    rw [hgr.2] at hci; injection hci with hci; subst hci
                    exact hmem
                  · intro hk
                    exact hI.namesKeys X id info hgr.1 hgr.2 k hk)
                (by intro ci hci; rw [hgr.2] at hci; injection hci with hci; subst hci; exact hown)
                (by
                  intro k id' c hr hc
                  exact hI.unique hr hg' (hc.trans hown.symm))
                heq ha
              refine ⟨⟨r1, r2, r3, r4, r5⟩, ?_⟩
              unfold SettledAt
              rw [r2, hlis]
              exact ⟨_, _, r6, hclX, hobs', hfre⟩

/-- when nothing is served under the cluster's name (never created, or deleted), a delivery that is not requeued
    installs exactly the `ClusterInfo` that `CreateClusterInfo` builds from the lister's current object -/
theorem create_is_fresh {env : Env} {conn : Conn} (hl : LowerIdem env) {st st' : Ctl} {X : Str} {o : Obj} (ord : List Str)
    (hI : CInv env conn st) (hX : env.lower X = X) (hlis : alookup X st.lister = some o)
    (hg : st.get env X = none) (h : syncUpstreamCluster env conn st X ord = .done st') :
    ∃ f, fresh env conn o ord = .ok f ∧ st'.get env X = some (st.heap.length, f) := by
  unfold syncUpstreamCluster at h
  simp only at h
  rw [hX, hlis] at h
  dsimp only at h
  have hname : o.name = X := hI.listerOK X o hlis
  by_cases hcf : checkUpstreamServerNameConflict env st o = true
  · rw [if_pos hcf] at h; cases h
  · rw [if_neg hcf, hg] at h
    dsimp only at h
    have hg' : resolves st X = none := by rw [get_eq, hX] at hg; exact hg
    cases hf : fresh env conn o ord with
    | crash => rw [hf] at h; cases h
    | fail e c => rw [hf] at h; cases h
    | ok info =>
      rw [hf] at h
      dsimp only at h
      have hfr : sync env (empty env conn o.name) o ord = .ok info := hf
      obtain ⟨hinv, hcl, hconn, _, _, _, _⟩ := sync_ok_spec (empty_inv env conn o.name) hfr rfl
      have hcl' : info.cluster = X := by rw [hcl]; show env.lower o.name = X; rw [hname, hX]
      cases ha : addOrUpdateForServerNames env { st with heap := st.heap ++ [info] } [] st.heap.length info with
      | none => rw [ha] at h; cases h
      | some st2 =>
        rw [ha] at h
        dsimp only at h
        injection h with h; subst h
        have hnone : ∀ ci, st.heap[st.heap.length]? = some ci → False := by
          intro ci h; rw [List.getElem?_eq_none (Nat.le_refl _)] at h; cases h
        have hnoX : ∀ k id' c, resolves st k = some (id', c) → c.cluster = X → False := by
          intro k id' c hr hc
          rw [resolves_some] at hr
          have := hI.namesKeys k id' c hr.1 hr.2 c.cluster (cluster_mem_names env c)
          rw [hc] at this
          have hr' : resolves st X = some (id', c) := resolves_some.2 ⟨this, hr.2⟩
          rw [hg'] at hr'; cases hr'
        obtain ⟨_, _, _, _, _, r6⟩ := rekey_spec (conn := conn) hl (st0 := st)
          (st1 := { st with heap := st.heap ++ [info] }) (id := st.heap.length) (info' := info) (X := X) (old := [])
          hI rfl rfl rfl
          (by show (st.heap ++ [info])[st.heap.length]? = some info; rw [heap_append_get, if_pos rfl])
          (by intro id' hne; show (st.heap ++ [info])[id']? = st.heap[id']?; rw [heap_append_get, if_neg hne])
          hX hcl' hinv hconn
          (by
            intro k
            constructor
            · intro hk
              obtain ⟨ci, hci, _⟩ := hI.keysSub k _ hk
              exact (hnone ci hci).elim
            · intro hk; cases hk)
          (fun ci h => (hnone ci h).elim)
          (fun k id' c hr hc => (hnoX k id' c hr hc).elim)
          (by unfold loadServerNames; intro hc; cases hc)
          ha
        refine ⟨info, rfl, ?_⟩
        rw [get_eq, hX]; exact r6

/-! ## the controller: every sequence of writes, deletes and deliveries -/

/-- object names are DNS subdomains (`ValidateObjectMeta`): lower case -/
def ValidOp (env : Env) : COp → Prop
  | .write o => env.lower o.name = o.name
  | .delete n => env.lower n = n
  | .deliver _ _ => True

/-- what holds after every sequence of ops: the controller's invariant, and every cluster either has a queue item
    pending or is settled on the lister's current object -/
structure AllInv (env : Env) (conn : Conn) (st : Ctl) : Prop where
  cinv : CInv env conn st
  qfix : ∀ n ∈ st.queue, env.lower n = n
  settled : ∀ n, env.lower n = n → n ∈ st.queue ∨ SettledAt env conn st n

theorem AllInv_init (env : Env) (conn : Conn) : AllInv env conn Ctl.init := by
  refine ⟨CInv_init env conn, fun n h => (by cases h), fun n _ => Or.inr ?_⟩
  unfold SettledAt
  simp only [Ctl.init, alookup]
  intro id ci h
  simp [resolves, alookup] at h

theorem SettledAt_frame {env : Env} {conn : Conn} {st st' : Ctl} {X m : Str} (hm : m ≠ X)
    (hlis : alookup m st'.lister = alookup m st.lister) (h1 : F1 st st' X) (h2 : F2 st st' X)
    (h : SettledAt env conn st m) : SettledAt env conn st' m := by
  unfold SettledAt at h ⊢
  rw [hlis]
  cases hl : alookup m st.lister with
  | none =>
    rw [hl] at h
    intro id ci hr hc
    exact h id ci (h2 m id ci hr (by rw [hc]; exact hm)) hc
  | some o =>
    rw [hl] at h
    obtain ⟨id, ci, hr, hc, hrest⟩ := h
    exact ⟨id, ci, h1 m id ci hr (by rw [hc]; exact hm), hc, hrest⟩

theorem mem_removeAt {l : List Str} {i : Nat} {x m : Str} (hi : l[i]? = some x) (hx : m ≠ x) (hm : m ∈ l) :
    m ∈ removeAt l i := by
  unfold removeAt
  obtain ⟨j, hj⟩ := List.mem_iff_getElem?.1 hm
  rw [List.mem_append]
  by_cases hlt : j < i
  · left
    apply List.mem_iff_getElem?.2
    exact ⟨j, by rw [List.getElem?_take]; simp [hlt, hj]⟩
  · have hne : j ≠ i := fun hc => by subst hc; rw [hi] at hj; injection hj with hj; exact hx hj.symm
    right
    apply List.mem_iff_getElem?.2
    refine ⟨j - (i + 1), ?_⟩
    rw [List.getElem?_drop]
    have : i + 1 + (j - (i + 1)) = j := by omega
    rw [this]; exact hj

theorem mem_of_mem_removeAt {l : List Str} {i : Nat} {m : Str} (hm : m ∈ removeAt l i) : m ∈ l := by
  unfold removeAt at hm
  rw [List.mem_append] at hm
  cases hm with
  | inl h => exact List.mem_of_mem_take h
  | inr h => exact List.mem_of_mem_drop h

theorem step_inv {env : Env} {conn : Conn} (hl : LowerIdem env) {st st' : Ctl} {op : COp}
    (h : AllInv env conn st) (hv : ValidOp env op) (hs : st.step env conn op = some st') : AllInv env conn st' := by
  obtain ⟨hc, hq, hset⟩ := h
  cases op with
  | write o =>
    simp only [Ctl.step] at hs
    injection hs with hs; subst hs
    have hvo : env.lower o.name = o.name := hv
    refine ⟨⟨hc.heapOK, hc.keysSub, hc.namesKeys, ?_⟩, ?_, ?_⟩
    · intro n o' hn
      simp only [alookup_astore] at hn
      by_cases he : o.name = n
      · rw [if_pos he] at hn; injection hn with hn; subst hn; exact he
      · rw [if_neg he] at hn; exact hc.listerOK n o' hn
    · intro n hn
      simp only [List.mem_append, List.mem_singleton] at hn
      cases hn with
      | inl h' => exact hq n h'
      | inr h' => rw [h']; exact hvo
    · intro n hn
      by_cases he : o.name = n
      · left; simp [he]
      · cases hset n hn with
        | inl h' => left; simp [h']
        | inr h' =>
          right
          unfold SettledAt at h' ⊢
          simp only [alookup_astore, if_neg he]
          exact h'
  | delete name =>
    simp only [Ctl.step] at hs
    injection hs with hs; subst hs
    have hvo : env.lower name = name := hv
    refine ⟨⟨hc.heapOK, hc.keysSub, hc.namesKeys, ?_⟩, ?_, ?_⟩
    · intro n o' hn
      simp only [alookup_aerase] at hn
      by_cases he : name = n
      · rw [if_pos he] at hn; cases hn
      · rw [if_neg he] at hn; exact hc.listerOK n o' hn
    · intro n hn
      simp only [List.mem_append, List.mem_singleton] at hn
      cases hn with
      | inl h' => exact hq n h'
      | inr h' => rw [h']; exact hvo
    · intro n hn
      by_cases he : name = n
      · left; simp [he]
      · cases hset n hn with
        | inl h' => left; simp [h']
        | inr h' =>
          right
          unfold SettledAt at h' ⊢
          simp only [alookup_aerase, if_neg he]
          exact h'
  | deliver i ord =>
    simp only [Ctl.step] at hs
    cases hqi : st.queue[i]? with
    | none => rw [hqi] at hs; injection hs with hs; subst hs; exact ⟨hc, hq, hset⟩
    | some X =>
      rw [hqi] at hs
      simp only at hs
      have hXq : X ∈ st.queue := List.mem_iff_getElem?.2 ⟨i, hqi⟩
      have hX : env.lower X = X := hq X hXq
      have hh := handler_spec (conn := conn) hl ord hc hX
      cases hr : syncUpstreamCluster env conn st X ord with
      | crash => rw [hr] at hs; cases hs
      | requeue st1 =>
        rw [hr] at hs hh
        simp only at hs hh
        injection hs with hs; subst hs
        obtain ⟨p1, p2, p3, p4, p5⟩ := hh
        refine ⟨p1, by rw [p3]; exact hq, ?_⟩
        intro n hn
        by_cases he : n = X
        · left; rw [p3, he]; exact hXq
        · cases hset n hn with
          | inl h' => left; rw [p3]; exact h'
          | inr h' => right; exact SettledAt_frame he (by rw [p2]) p4 p5 h'
      | done st1 =>
        rw [hr] at hs hh
        simp only at hs hh
        injection hs with hs; subst hs
        obtain ⟨⟨p1, p2, p3, p4, p5⟩, p6⟩ := hh
        have hqi1 : st1.queue[i]? = some X := by rw [p3]; exact hqi
        refine ⟨⟨p1.heapOK, p1.keysSub, p1.namesKeys, p1.listerOK⟩, ?_, ?_⟩
        · intro n hn
          have := mem_of_mem_removeAt hn
          rw [p3] at this; exact hq n this
        · intro n hn
          by_cases he : n = X
          · right
            subst he
            exact p6
          · cases hset n hn with
            | inl h' =>
              left
              exact mem_removeAt hqi1 he (by rw [p3]; exact h')
            | inr h' =>
              right
              exact SettledAt_frame (st' := { st1 with queue := removeAt st1.queue i }) he (by show alookup n st1.lister = _; rw [p2])
                (fun k id ci hr hc => p4 k id ci hr hc) (fun k id ci hr hc => p5 k id ci hr hc) h'

theorem run_inv {env : Env} {conn : Conn} (hl : LowerIdem env) (ops : List COp) : ∀ (st st' : Ctl),
    AllInv env conn st → (∀ op ∈ ops, ValidOp env op) → Ctl.run env conn (some st) ops = some st' →
    AllInv env conn st' := by
  induction ops with
  | nil =>
    intro st st' h _ hr
    simp only [Ctl.run] at hr; injection hr with hr; subst hr; exact h
  | cons op r ih =>
    intro st st' h hv hr
    simp only [Ctl.run] at hr
    cases hs : st.step env conn op with
    | none =>
      rw [hs] at hr
      cases r <;> simp [Ctl.run] at hr
    | some st1 =>
      rw [hs] at hr
      exact ih st1 st' (step_inv hl h (hv op List.mem_cons_self) hs) (fun o ho => hv o (List.mem_cons_of_mem _ ho)) hr

/-- the hosts that resolve to a settled cluster are exactly the server names of its latest object -/
theorem names_of_settled {env : Env} {conn : Conn} {st : Ctl} {n : Str} {o : Obj} (hI : CInv env conn st)
    (hn : env.lower n = n) (hlis : alookup n st.lister = some o) (hs : SettledAt env conn st n) (h : Str) :
    (∃ id ci, st.get env h = some (id, ci) ∧ ci.cluster = n) ↔
    env.lower h ∈ n :: o.secureServing.serverNames.map env.lower := by
  unfold SettledAt at hs
  rw [hlis] at hs
  obtain ⟨id, ci, hr, hc, hobs, _⟩ := hs
  have hnames : loadServerNames env ci = n :: o.secureServing.serverNames.map env.lower := by
    have := congrArg Obs.serverNames hobs
    simp only [observe, expected] at this
    rw [this, hI.listerOK n o hlis, hn]
  have hr' := resolves_some.1 hr
  rw [get_eq]
  constructor
  · intro hx
    obtain ⟨id', ci', hr2, hc2⟩ := hx
    have hid : id' = id := hI.unique hr2 hr (hc2.trans hc.symm)
    subst hid
    have hr2' := resolves_some.1 hr2
    rw [hr'.2] at hr2'; injection hr2'.2 with e; subst e
    obtain ⟨ci2, hci2, hmem⟩ := hI.keysSub _ _ hr2'.1
    rw [hr'.2] at hci2; injection hci2 with e; subst e
    rw [← hnames]; exact hmem
  · intro hx
    rw [← hnames] at hx
    have := hI.namesKeys n id ci hr'.1 hr'.2 _ hx
    exact ⟨id, ci, resolves_some.2 ⟨this, hr'.2⟩, hc⟩

theorem mem_allEndpoints (c : CI) (ep : Str) : ep ∈ allEndpoints c ↔ (loadEndpoint c ep).isSome = true := by
  unfold allEndpoints loadEndpoint akeys
  induction c.eps with
  | nil => simp [alookup]
  | cons kv r ih =>
    obtain ⟨k, v⟩ := kv
    simp only [List.map_cons, List.mem_cons, alookup]
    by_cases h : k = ep
    · simp [h]
    · simp only [h, if_false, ← ih]
      constructor
      · intro x
        cases x with
        | inl e => exact absurd e.symm h
        | inr m => exact m
      · intro m; exact Or.inr m

end KG.Lemmas.ClusterSync
