import KG.Spec.LimiterLoop
import KG.Spec.RemoteLimiter
import KG.Props.C07
import KG.Props.C18
/-!
# Lemmas for the closed loop (`KG.Model.LimiterLoop`)

* association lists;
* the recorded-quota invariant `SInv` of one upstream's store (C07's history invariant relative to the largest limit
  in force since the record began) and its preservation by every change of the store (`Alloc.step`s and drops);
* the invariant of the limiter server (`SrvInv`) through hand-overs, reloads, clean-ups, reports;
* the gateway side: what C09's `step` does on the three ops of the loop (`GwOK`), and the projection of a loop
  history onto C09 op lists (`GwReach`) by which every C09 theorem lifts to the loop;
* the loop invariant `LInv`, preserved by every `step`.
-/
namespace KG.Lemmas.LimiterLoop
open KG KG.Model KG.Model.LimiterLoop KG.Spec.LimiterLoop
open KG.Model.Alloc (sumQ onesQ lookupD setQuota)

/-! ## association lists -/

theorem aget_mem {α : Type} {l : List (Nat × α)} {k : Nat} {v : α} (h : aget l k = some v) : (k, v) ∈ l := by
  induction l with
  | nil => simp [aget] at h
  | cons p rest ih =>
    obtain ⟨j, w⟩ := p
    unfold aget at h
    by_cases hj : j = k
    · simp only [hj, if_true, Option.some.injEq] at h
      subst hj; subst h; exact List.mem_cons_self
    · simp only [hj, if_false] at h
      exact List.mem_cons_of_mem _ (ih h)

theorem mem_adel {α : Type} {l : List (Nat × α)} {k : Nat} {p : Nat × α} (h : p ∈ adel l k) : p ∈ l ∧ p.1 ≠ k := by
  unfold adel at h
  have := List.mem_filter.1 h
  exact ⟨this.1, by simpa using this.2⟩

theorem mem_aset {α : Type} {l : List (Nat × α)} {k : Nat} {v : α} {p : Nat × α} (h : p ∈ aset l k v) :
    p = (k, v) ∨ (p ∈ l ∧ p.1 ≠ k) := by
  unfold aset at h
  rcases List.mem_cons.1 h with e | e
  · exact Or.inl e
  · exact Or.inr (mem_adel e)

theorem aget_adel_ne {α : Type} (l : List (Nat × α)) (k j : Nat) (h : j ≠ k) : aget (adel l k) j = aget l j := by
  induction l with
  | nil => rfl
  | cons p rest ih =>
    obtain ⟨i, w⟩ := p
    unfold adel at ih ⊢
    by_cases hi : i = k
    · subst hi
      have : i ≠ j := fun e => h e.symm
      simp only [List.filter_cons, bne_self_eq_false, Bool.false_eq_true, if_false, ih]
      simp [aget, this]
    · have hb : ((i, w).1 != k) = true := by simpa using hi
      simp only [List.filter_cons, hb, if_true]
      unfold aget
      by_cases hij : i = j
      · simp [hij]
      · simp only [hij, if_false]; exact ih

theorem aget_adel_self {α : Type} (l : List (Nat × α)) (k : Nat) : aget (adel l k) k = none := by
  induction l with
  | nil => rfl
  | cons p rest ih =>
    obtain ⟨i, w⟩ := p
    unfold adel at ih ⊢
    by_cases hi : i = k
    · subst hi
      simp only [List.filter_cons, bne_self_eq_false, Bool.false_eq_true, if_false, ih]
    · have hb : ((i, w).1 != k) = true := by simpa using hi
      simp only [List.filter_cons, hb, if_true]
      unfold aget
      simp only [hi, if_false]; exact ih

theorem aget_aset_self {α : Type} (l : List (Nat × α)) (k : Nat) (v : α) : aget (aset l k v) k = some v := by
  simp [aset, aget]

theorem aget_aset_ne {α : Type} (l : List (Nat × α)) (k j : Nat) (v : α) (h : j ≠ k) :
    aget (aset l k v) j = aget l j := by
  have : k ≠ j := fun e => h e.symm
  simp only [aset, aget, this, if_false]
  exact aget_adel_ne l k j h

theorem aget_map {α : Type} (l : List (Nat × α)) (f : Nat → α → α) (k : Nat) :
    aget (l.map fun p => (p.1, f p.1 p.2)) k = (aget l k).map (f k) := by
  induction l with
  | nil => rfl
  | cons p rest ih =>
    obtain ⟨i, w⟩ := p
    simp only [List.map_cons, aget]
    by_cases hi : i = k
    · subst hi; simp
    · simp only [hi, if_false]; exact ih

/-! ## the recorded-quota invariant of one upstream's store -/

/-- C07's history invariant relative to `hi`, the largest limit in force since the record began: every recorded quota
    is at least 1, their sum is within the recorded sum, and exceeds `hi` by at most the number of quotas equal to 1.
    With `hi = total` (the limit was never lowered) this is `KG.Props.C07.Inv`. -/
structure SInv (e : UpStore) : Prop where
  limit : 1 ≤ e.srv.total
  hi : e.srv.total ≤ e.hi
  ge_one : ∀ p ∈ e.srv.quotas, 1 ≤ p.2
  recorded : sumQ e.srv.quotas ≤ e.srv.recSum
  slack : sumQ e.srv.quotas - onesQ e.srv.quotas ≤ e.hi

theorem sinv_c07 {e : UpStore} (h : SInv e) (hh : e.hi = e.srv.total) : KG.Props.C07.Inv e.srv :=
  ⟨h.limit, h.ge_one, by have := h.slack; omega, h.recorded⟩

theorem c07_sinv {e : UpStore} (h : KG.Props.C07.Inv e.srv) (hh : e.hi = e.srv.total) : SInv e :=
  ⟨h.limit, by omega, h.ge_one, h.recorded, by have := h.bound; omega⟩

theorem sinv_fresh {t : Int} (ht : 1 ≤ t) : SInv (UpStore.fresh t) :=
  ⟨ht, Int.le_refl _, by simp [UpStore.fresh], by simp [UpStore.fresh, sumQ], by simp [UpStore.fresh, sumQ, onesQ]; omega⟩

theorem sinv_setLimit {e : UpStore} (h : SInv e) {t : Int} (ht : 1 ≤ t) : SInv (e.setLimit t) := by
  have h2 := h.slack
  refine ⟨ht, ?_, h.ge_one, h.recorded, ?_⟩
  · simp only [UpStore.setLimit, Alloc.step]; split <;> omega
  · simp only [UpStore.setLimit, Alloc.step]; split <;> omega

theorem sinv_report {e : UpStore} (h : SInv e) (i : Nat) (x m : Rat) (used lvl : Int) :
    SInv (e.report i x m used lvl) := by
  have hq1 := KG.Props.C07.c07_min_one x m (lookupD e.srv.quotas i) (e.srv.total - e.srv.recSum) e.srv.total
  have ht := KG.Props.C07.c07_tail x m (lookupD e.srv.quotas i) (e.srv.total - e.srv.recSum) e.srv.total
  have hc := KG.Props.C07.lookupD_nonneg e.srv.quotas i h.ge_one
  have hle := KG.Props.C07.one?_le_ones e.srv.quotas i
  have hon := KG.Props.C07.onesQ_nonneg e.srv.quotas
  have hs := h.slack
  have hr := h.recorded
  have hh := h.hi
  refine ⟨h.limit, h.hi, ?_, ?_, ?_⟩
  · simp only [UpStore.report, Alloc.step, KG.Props.C07.answer_eq]
    exact KG.Props.C07.setQuota_ge_one _ _ _ h.ge_one hq1
  · simp only [UpStore.report, Alloc.step]; omega
  · simp only [UpStore.report, Alloc.step, KG.Props.C07.answer_eq, KG.Props.C07.setQuota_sum,
      KG.Props.C07.setQuota_ones]
    generalize KG.Props.C07.next x m (lookupD e.srv.quotas i) (e.srv.total - e.srv.recSum) e.srv.total = n at *
    rcases KG.Props.C07.one?_spec e.srv.quotas i with ⟨ho, hl1⟩ | ho
    · rcases ht with hn | ⟨hn, _⟩
      · simp only [KG.Props.C07.isOne, hn, if_true, ho, hl1]; omega
      · unfold KG.Props.C07.isOne; split <;> omega
    · rcases ht with hn | ⟨hn, _⟩
      · simp only [KG.Props.C07.isOne, hn, if_true, ho]; omega
      · unfold KG.Props.C07.isOne; split <;> omega

theorem sinv_drop {e : UpStore} (h : SInv e) (p : Nat → Bool) : SInv (e.drop p) := by
  have h1 := KG.Props.C07.filter_slack e.srv.quotas (fun q => !p q.1) h.ge_one
  have h2 := KG.Props.C07.filter_sum_le e.srv.quotas (fun q => !p q.1) h.ge_one
  have hs := h.slack
  have hr := h.recorded
  refine ⟨h.limit, h.hi, ?_, ?_, ?_⟩
  · intro q hq; exact h.ge_one q (List.mem_filter.1 hq).1
  · simp only [UpStore.drop]; omega
  · simp only [UpStore.drop]; omega

/-! ## the limiter server -/

structure SrvInv (s : Server) : Prop where
  ups : ∀ p ∈ s.ups, SInv p.2
  api : ∀ p ∈ s.api, SInv p.2
  listed : ∀ p ∈ s.listed, 1 ≤ p.2

theorem foldl_inv {σ β : Type} (P : σ → Prop) (f : σ → β → σ) (hf : ∀ s b, P s → P (f s b)) :
    ∀ (l : List β) (s : σ), P s → P (l.foldl f s)
  | [], _, h => h
  | b :: rest, s, h => foldl_inv P f hf rest (f s b) (hf s b h)

theorem srvInv_persist {s : Server} (h : SrvInv s) : SrvInv s.persist := by
  unfold Server.persist
  split
  · refine ⟨h.ups, ?_, h.listed⟩
    intro p hp
    rcases List.mem_append.1 hp with e | e
    · exact h.ups p e
    · exact h.api p (List.mem_filter.1 e).1
  · exact h

section
variable (shardOf : Nat → Nat)

theorem srvInv_handle {s : Server} (h : SrvInv s) (u : Nat) : SrvInv (s.handle shardOf u) := by
  unfold Server.handle
  simp only
  split
  · exact h
  · split
    · exact h
    · split
      · exact h
      · rename_i t ht
        have ht1 : 1 ≤ t := h.listed _ (aget_mem ht)
        apply srvInv_persist
        refine ⟨?_, h.api, h.listed⟩
        intro p hp
        rcases mem_aset hp with e | e
        · subst e
          simp only
          split
          · rename_i e0 he0
            exact sinv_setLimit (h.ups _ (aget_mem he0)) ht1
          · exact sinv_fresh ht1
        · exact h.ups p e.1

theorem srvInv_startLeading {s : Server} (h : SrvInv s) (k : Nat) : SrvInv (s.startLeading shardOf k) := by
  unfold Server.startLeading
  split
  · exact h
  · simp only
    apply foldl_inv SrvInv _ (fun st p hst => srvInv_handle shardOf hst p.1)
    refine ⟨?_, h.api, h.listed⟩
    intro p hp
    rcases List.mem_append.1 hp with e | e
    · split at e
      · exact h.api p (List.mem_filter.1 e).1
      · simp at e
    · exact h.ups p (List.mem_filter.1 e).1

theorem srvInv_stopLeading {s : Server} (h : SrvInv s) (k : Nat) : SrvInv (s.stopLeading shardOf k) :=
  ⟨fun p hp => h.ups p (List.mem_filter.1 hp).1, h.api, h.listed⟩

theorem srvInv_leaderCheck {s : Server} (h : SrvInv s) : SrvInv (s.leaderCheck shardOf) := by
  unfold Server.leaderCheck
  simp only
  apply foldl_inv SrvInv _ (fun st k hst => srvInv_stopLeading shardOf hst k)
  exact foldl_inv SrvInv _ (fun st k hst => srvInv_startLeading shardOf hst k) _ _ h

theorem srvInv_elect {s : Server} (h : SrvInv s) (k : Nat) (b : Bool) : SrvInv (s.elect k b) :=
  ⟨h.ups, h.api, h.listed⟩

theorem srvInv_heartbeat {s : Server} (h : SrvInv s) (i t : Nat) : SrvInv (s.heartbeat i t) :=
  ⟨h.ups, h.api, h.listed⟩

theorem srvInv_mapUps {s : Server} (h : SrvInv s) (hb : List (Nat × Nat)) (f : Nat × UpStore → UpStore)
    (hf : ∀ p, SInv p.2 → SInv (f p)) :
    SrvInv ({ s with hb := hb, ups := s.ups.map (fun p => (p.1, f p)) } : Server) := by
  refine ⟨?_, h.api, h.listed⟩
  intro p hp
  obtain ⟨q, hq, rfl⟩ := List.mem_map.1 hp
  exact hf q (h.ups q hq)

theorem srvInv_cleanupTimeout {s : Server} (h : SrvInv s) (now : Nat) : SrvInv (s.cleanupTimeout shardOf now) := by
  unfold Server.cleanupTimeout
  apply srvInv_persist
  apply srvInv_mapUps h
  intro p hp
  split
  · exact sinv_drop hp _
  · exact hp

theorem srvInv_cleanupUnknown {s : Server} (h : SrvInv s) : SrvInv (s.cleanupUnknown shardOf) := by
  unfold Server.cleanupUnknown
  apply srvInv_persist
  have := srvInv_mapUps h s.hb (fun p => if s.isLeader (shardOf p.1) then p.2.drop (fun i => !s.hbHas i) else p.2)
    (by intro p hp; show SInv (if _ then _ else _); split
        · exact sinv_drop hp _
        · exact hp)
  exact this

theorem serving_mem {s : Server} {u : Nat} {e : UpStore} (h : s.serving shardOf u = some e) : (u, e) ∈ s.ups := by
  unfold Server.serving at h
  split at h
  · exact aget_mem h
  · cases h

theorem srvInv_report {s : Server} (h : SrvInv s) (u i : Nat) (x m : Rat) (used lvl : Int) :
    SrvInv (s.report shardOf u i x m used lvl).1 := by
  unfold Server.report
  split
  · exact h
  · rename_i e he
    simp only
    apply srvInv_persist
    refine ⟨?_, h.api, h.listed⟩
    intro p hp
    rcases mem_aset hp with e1 | e1
    · subst e1; exact sinv_report (h.ups _ (serving_mem shardOf he)) _ _ _ _ _
    · exact h.ups p e1.1

end

/-! ## the gateway side: C09's `step` on the three ops of the loop -/

open RemoteLimiter (maxInt32 bound toU32)

theorem toU32_id' {x : Int} (h0 : 0 ≤ x) (h1 : x ≤ maxInt32) : toU32 x = x := by
  unfold toU32; unfold maxInt32 at h1; omega

theorem bound_range' (v g : Int) (hg : 0 ≤ g) : 0 ≤ bound v g ∧ bound v g ≤ g := by
  simp only [bound]; split <;> split <;> omega

theorem bound_le_self (v g : Int) (hv : 0 ≤ v) : bound v g ≤ v := by
  simp only [bound]; split <;> split <;> omega

/-- the remote wrapper of an allocate schema: the answered item, the bounded item, the limiter built from it -/
def remShape (q b : Int) : RemoteLimiter.Remote :=
  ⟨some (mkItem q), some (mkItem b), some (.empty (.mi b))⟩

/-- what the `flowControlCache` of a loop gateway looks like: the valid schema, the local limiter enforcing exactly the
    local limit, and — once an answer was applied — a remote limiter that is the answer bounded to `[0, tv]` for a view
    `tv` of the global limit the gateway had when it applied it -/
def CacheOK (c : RemoteLimiter.Cache) : Prop :=
  ∃ l t, 0 ≤ l ∧ l ≤ t ∧ t ≤ maxInt32 ∧ c.loc = ⟨mkSchema l t, some (.mi l)⟩ ∧
    (c.remote = none ∨ ∃ q tv, 0 ≤ tv ∧ tv ≤ maxInt32 ∧ c.remote = some (remShape q (bound q tv)))

def GwOK (st : RemoteLimiter.State) : Prop := ∀ c, st.cache = some c → CacheOK c

/-- the remote limiter is the held quota bounded by the CURRENT view ("the gateway applied the last answer") -/
def FreshOK (st : RemoteLimiter.State) : Prop :=
  ∀ c, st.cache = some c → ∃ l t q, c.loc.config = mkSchema l t ∧ c.remote = some (remShape q (bound q t))

theorem gwOK_init (n : Nat) : GwOK (gwInit n) := by
  intro c hc; simp [gwInit] at hc

theorem newLim_mk {l t : Int} (h0 : 0 ≤ l) (h1 : l ≤ maxInt32) :
    RemoteLimiter.newLim (mkSchema l t) = .ok (.mi l) := by
  simp [RemoteLimiter.newLim, RemoteLimiter.guessType, mkSchema, toU32_id' h0 h1]

theorem mkSchema_inj {l t l' t' : Int} (h : mkSchema l t = mkSchema l' t') : l = l' ∧ t = t' := by
  simp [mkSchema] at h; exact h

theorem mkItem_inj {a b : Int} (h : mkItem a = mkItem b) : a = b := by
  simp [mkItem] at h; exact h

theorem resize_mi' (a b : Int) : ((RemoteLimiter.Lim.mi a).resize b 0).1 = .mi b := by
  simp only [RemoteLimiter.Lim.resize]; split
  · rfl
  · rename_i h; simp only [ne_eq, Decidable.not_not] at h; rw [h]

theorem localSync_mk {l0 t0 l t : Int} (hs : mkSchema l t ≠ mkSchema l0 t0) (h0 : 0 ≤ l) (hl : l ≤ maxInt32) :
    RemoteLimiter.localSync ⟨mkSchema l0 t0, some (.mi l0)⟩ (mkSchema l t)
      = .ok (⟨mkSchema l t, some (.mi l)⟩, false) := by
  simp only [RemoteLimiter.localSync, hs, if_false]
  simp only [RemoteLimiter.Lim.kind, RemoteLimiter.guessType, mkSchema, RemoteLimiter.enableGlobal]
  simp [toU32_id' h0 hl, resize_mi']

theorem localSync_same (loc : RemoteLimiter.Local) : RemoteLimiter.localSync loc loc.config = .ok (loc, false) := by
  simp [RemoteLimiter.localSync]

theorem bound_mk (l t n : Int) : RemoteLimiter.boundByGlobalLimit (mkSchema l t) (mkItem n) = mkItem (bound n t) := by
  simp [RemoteLimiter.boundByGlobalLimit, mkItem, mkSchema, RemoteLimiter.Schema.globalMax]

theorem newGFC_mk {b : Int} (h0 : 0 ≤ b) (h1 : b ≤ maxInt32) :
    RemoteLimiter.newGFC (mkItem b) = .ok (.empty (.mi b)) := by
  simp [RemoteLimiter.newGFC, RemoteLimiter.toSchema, mkItem, RemoteLimiter.newLim, RemoteLimiter.guessType,
    RemoteLimiter.newCounter, toU32_id' h0 h1, bind, Except.bind]

/-- `remoteWrapper.Sync` of the first answer: the limiter is built from the answer bounded to `[0, t]` -/
theorem remoteSync_init (l t n : Int) (h0 : 0 ≤ t) (h1 : t ≤ maxInt32) :
    RemoteLimiter.remoteSync {} (mkSchema l t) (mkItem n) = .ok (remShape n (bound n t)) := by
  have hb := bound_range' n t h0
  simp only [RemoteLimiter.remoteSync, bound_mk]
  simp [newGFC_mk hb.1 (by omega : bound n t ≤ maxInt32), remShape, bind, Except.bind]
  rfl

/-- `remoteWrapper.Sync` of a later answer: whatever it held, it now holds the answer bounded to `[0, t]` -/
theorem remoteSync_shape (l t n q b : Int) (h0 : 0 ≤ t) (h1 : t ≤ maxInt32) :
    RemoteLimiter.remoteSync (remShape q b) (mkSchema l t) (mkItem n) = .ok (remShape n (bound n t)) := by
  have hb := bound_range' n t h0
  have hb1 : bound n t ≤ maxInt32 := by omega
  simp only [RemoteLimiter.remoteSync, bound_mk]
  by_cases hc : some (mkItem n) = (remShape q b).remoteConfig ∧ some (mkItem (bound n t)) = (remShape q b).appliedConfig
  · rw [if_pos hc]
    obtain ⟨c1, c2⟩ := hc
    simp only [remShape, Option.some.injEq] at c1 c2
    have e1 := mkItem_inj c1
    have e2 := mkItem_inj c2
    subst e1; subst e2; rfl
  · rw [if_neg hc]
    simp [remShape, RemoteLimiter.GFC.inner, RemoteLimiter.Lim.kind, RemoteLimiter.itemType, mkItem,
      RemoteLimiter.Remote.strategy, RemoteLimiter.GFC.resize, toU32_id' hb.1 hb1]
    try exact resize_mi' _ _

/-- `upstreamLimiter.Sync` with a valid allocate schema: never panics, the local limiter enforces exactly the new local
    limit, the remote wrapper is kept as it is; readiness and shard count are untouched -/
theorem step_schema {st : RemoteLimiter.State} (h : GwOK st) {l t : Int} (h0 : 0 ≤ l) (h1 : l ≤ t) (h2 : t ≤ maxInt32) :
    ∃ st' c', RemoteLimiter.step st (.schema (mkSchema l t)) = .ok st' ∧ st'.cache = some c' ∧
      c'.loc = ⟨mkSchema l t, some (.mi l)⟩ ∧ c'.remote = (st.cache.bind (·.remote)) := by
  have hl : l ≤ maxInt32 := by omega
  cases hc : st.cache with
  | none =>
    simp only [RemoteLimiter.step, hc, newLim_mk h0 hl]
    refine ⟨_, _, rfl, rfl, ?_, ?_⟩ <;> rfl
  | some c =>
    obtain ⟨l0, t0, a0, a1, a2, hloc, hrem⟩ := h c hc
    by_cases hs : mkSchema l t = mkSchema l0 t0
    · obtain ⟨e1, e2⟩ := mkSchema_inj hs
      subst e1; subst e2
      have := localSync_same c.loc
      rw [hloc] at this
      simp only at this
      simp only [RemoteLimiter.step, hc, hloc, this]
      refine ⟨_, _, rfl, rfl, ?_, ?_⟩
      · simp
      · simp
    · simp only [RemoteLimiter.step, hc, hloc, localSync_mk hs h0 hl]
      refine ⟨_, _, rfl, rfl, ?_, ?_⟩
      · simp
      · simp

theorem gwOK_schema {st st' : RemoteLimiter.State} (h : GwOK st) {l t : Int} (h0 : 0 ≤ l) (h1 : l ≤ t) (h2 : t ≤ maxInt32)
    {c' : RemoteLimiter.Cache} (hst : st'.cache = some c') (hloc : c'.loc = ⟨mkSchema l t, some (.mi l)⟩)
    (hrem : c'.remote = (st.cache.bind (·.remote))) : GwOK st' := by
  intro c hc
  rw [hst] at hc
  simp only [Option.some.injEq] at hc
  subst hc
  refine ⟨l, t, h0, h1, h2, hloc, ?_⟩
  rw [hrem]
  cases hs : st.cache with
  | none => exact Or.inl rfl
  | some c0 =>
    obtain ⟨_, _, _, _, _, _, hr⟩ := h c0 hs
    exact hr

/-- `reconcile.updateFlowControls` with the answered quota `n`: never panics; a gateway with a schema now holds `n`
    and enforces `n` bounded to `[0, its view]` through the remote limiter -/
theorem step_answer {st : RemoteLimiter.State} (h : GwOK st) (n : Int) :
    (st.cache = none ∧ RemoteLimiter.step st (.answer true (mkItem n)) = .ok st) ∨
    (∃ c l t st' c', st.cache = some c ∧ c.loc = ⟨mkSchema l t, some (.mi l)⟩ ∧ 0 ≤ t ∧ t ≤ maxInt32 ∧
      RemoteLimiter.step st (.answer true (mkItem n)) = .ok st' ∧ st'.cache = some c' ∧ c'.loc = c.loc ∧
      c'.remote = some (remShape n (bound n t))) := by
  cases hc : st.cache with
  | none => left; exact ⟨rfl, by simp only [RemoteLimiter.step, hc]⟩
  | some c =>
    right
    obtain ⟨l, t, a0, a1, a2, hloc, hrem⟩ := h c hc
    have hcfg : c.loc.config = mkSchema l t := by rw [hloc]
    have he : RemoteLimiter.enableGlobal (mkSchema l t) = true := by simp [RemoteLimiter.enableGlobal, mkSchema]
    have hty : RemoteLimiter.itemType (mkItem n) = RemoteLimiter.guessType (mkSchema l t) := by
      simp [RemoteLimiter.itemType, mkItem, RemoteLimiter.guessType, mkSchema]
    have hsync : RemoteLimiter.remoteSync (c.remote.getD {}) (mkSchema l t) (mkItem n)
        = .ok (remShape n (bound n t)) := by
      rcases hrem with hr | ⟨q, tv, _, _, hr⟩
      · rw [hr]; exact remoteSync_init l t n (by omega) a2
      · rw [hr]; exact remoteSync_shape l t n q _ (by omega) a2
    have hstep : ∃ st' c', RemoteLimiter.step st (.answer true (mkItem n)) = .ok st' ∧ st'.cache = some c' ∧
        c'.loc = c.loc ∧ c'.remote = some (remShape n (bound n t)) := by
      simp only [RemoteLimiter.step, hc, hcfg, he, hty, RemoteLimiter.cacheRemoteSync, hsync]
      simp only [bind, Except.bind, pure, Except.pure, Bool.not_true, Bool.false_eq_true, if_false, ne_eq,
        not_true_eq_false]
      refine ⟨_, _, rfl, rfl, ?_, ?_⟩ <;> rfl
    obtain ⟨st', c', e1, e2, e3, e4⟩ := hstep
    exact ⟨c, l, t, st', c', rfl, hloc, by omega, a2, e1, e2, e3, e4⟩

theorem gwOK_answer {st st' : RemoteLimiter.State} (h : GwOK st) {c c' : RemoteLimiter.Cache} {l t n : Int}
    (hc : st.cache = some c) (hloc : c.loc = ⟨mkSchema l t, some (.mi l)⟩) (h0 : 0 ≤ t) (h1 : t ≤ maxInt32)
    (hst : st'.cache = some c') (hloc' : c'.loc = c.loc) (hrem : c'.remote = some (remShape n (bound n t))) :
    GwOK st' ∧ FreshOK st' := by
  obtain ⟨l0, t0, a0, a1, a2, hloc0, _⟩ := h c hc
  constructor
  · intro c1 hc1
    rw [hst] at hc1
    simp only [Option.some.injEq] at hc1
    subst hc1
    exact ⟨l0, t0, a0, a1, a2, by rw [hloc', hloc0], Or.inr ⟨n, t, h0, h1, hrem⟩⟩
  · intro c1 hc1
    rw [hst] at hc1
    simp only [Option.some.injEq] at hc1
    subst hc1
    exact ⟨l, t, n, by rw [hloc', hloc], hrem⟩

/-- one heartbeat outcome: never panics, the cache (schema, limiters) is untouched -/
theorem step_hb (st : RemoteLimiter.State) (ok : Bool) (now : Int) :
    ∃ st', RemoteLimiter.step st (.hb ok now false) = .ok st' ∧ st'.cache = st.cache := by
  simp only [RemoteLimiter.step, Bool.false_eq_true, if_false]
  exact ⟨_, rfl, rfl⟩

/-! ## what such a gateway hands out -/

theorem obs_noremote {st : RemoteLimiter.State} {c : RemoteLimiter.Cache} (hc : st.cache = some c) {l t : Int}
    (hloc : c.loc = ⟨mkSchema l t, some (.mi l)⟩) (hr : c.remote = none) :
    view st = some t ∧ localLimit st = some l ∧ raw st = none ∧ applied st = none ∧ usesRemote st = false ∧
      enforced st = some l := by
  obtain ⟨loc, rem⟩ := c
  simp only at hloc hr
  subst hloc; subst hr
  refine ⟨?_, ?_, ?_, ?_, ?_, ?_⟩
  · simp [view, hc, mkSchema]
  · simp [localLimit, hc, mkSchema]
  · simp [raw, hc]
  · simp [applied, RemoteLimiter.observe, hc]
  · simp [usesRemote, RemoteLimiter.load, hc, gwCfg, mkSchema]
  · simp [enforced, RemoteLimiter.observe, RemoteLimiter.load, hc, gwCfg, mkSchema, limSize]

theorem obs_remote {st : RemoteLimiter.State} {c : RemoteLimiter.Cache} (hc : st.cache = some c) {l t q b : Int}
    (hloc : c.loc = ⟨mkSchema l t, some (.mi l)⟩) (hr : c.remote = some (remShape q b)) :
    view st = some t ∧ localLimit st = some l ∧ raw st = some q ∧ applied st = some b ∧
      usesRemote st = RemoteLimiter.isReady st ∧
      enforced st = (if RemoteLimiter.isReady st then some b else some l) := by
  obtain ⟨loc, rem⟩ := c
  simp only at hloc hr
  subst hloc; subst hr
  refine ⟨?_, ?_, ?_, ?_, ?_, ?_⟩
  · simp [view, hc, mkSchema]
  · simp [localLimit, hc, mkSchema]
  · simp [raw, hc, remShape, mkItem]
  · simp [applied, RemoteLimiter.observe, hc, remShape, RemoteLimiter.GFC.inner, limSize]
  · cases hrd : RemoteLimiter.isReady st <;> simp [usesRemote, RemoteLimiter.load, hc, gwCfg, mkSchema, hrd, remShape]
  · cases hrd : RemoteLimiter.isReady st <;>
      simp [enforced, RemoteLimiter.observe, RemoteLimiter.load, hc, gwCfg, mkSchema, hrd, remShape,
        RemoteLimiter.GFC.inner, limSize]

/-- the per-gateway clauses of the judge hold for every gateway state of the loop's shape -/
theorem judgeG_ok {st : RemoteLimiter.State} (h : GwOK st) {c : RemoteLimiter.Cache} (hc : st.cache = some c)
    (id : Nat) (fresh : Bool) (hf : fresh = true → FreshOK st) :
    judgeG { id := id, remote := usesRemote st, enforced := (enforced st).getD 0, raw := raw st, applied := applied st,
             view := (view st).getD 0, loc := (localLimit st).getD 0, ready := RemoteLimiter.isReady st,
             fresh := fresh } = [] := by
  obtain ⟨l, t, a0, a1, a2, hloc, hrem⟩ := h c hc
  rcases hrem with hr | ⟨q, tv, b0, b1, hr⟩
  · obtain ⟨o1, o2, o3, o4, o5, o6⟩ := obs_noremote hc hloc hr
    simp [judgeG, o2, o5, o6]
  · obtain ⟨o1, o2, o3, o4, o5, o6⟩ := obs_remote hc hloc hr
    have hb := bound_range' q tv b0
    cases hrd : RemoteLimiter.isReady st with
    | false => simp [judgeG, o2, o5, o6, hrd]
    | true =>
      have hle : 0 ≤ q → bound q tv ≤ q := bound_le_self q tv
      have hfr : fresh = true → bound q tv = bound q t := by
        intro hfr
        obtain ⟨l', t', q', e1, e2⟩ := hf hfr c hc
        rw [hloc] at e1
        obtain ⟨_, e3⟩ := mkSchema_inj e1
        rw [hr] at e2
        simp only [remShape, Option.some.injEq, RemoteLimiter.Remote.mk.injEq] at e2
        have e4 := mkItem_inj e2.1
        have e5 := mkItem_inj e2.2.1
        rw [e5, ← e4, ← e3]
      have hbt := bound_range' q t
      simp only [judgeG, o1, o2, o3, o4, o5, o6, hrd, if_true, Option.getD_some]
      have c3 : fresh = true → bound q tv = bound q t ∧ (0 ≤ t → bound q tv ≤ t) := by
        intro hf'
        have e := hfr hf'
        exact ⟨e, fun ht => by rw [e]; exact (hbt ht).2⟩
      rw [if_pos ⟨trivial, hb.1⟩, if_pos hle, if_pos c3]
      rfl

/-! ## the gateways of the loop -/

structure GwInv (n : Nat) (g : Gw) : Prop where
  ok : ∀ u, GwOK (g.st n u)
  fresh : ∀ u, g.fresh.contains u = true → FreshOK (g.st n u)

/-- a gateway whose `upstreamLimiter` for `u` was replaced by `st'`, everything else about its limiters kept -/
theorem st_of_aset (n : Nat) (g g' : Gw) (u : Nat) (st' : RemoteLimiter.State) (hu : g'.ups = aset g.ups u st') :
    g'.st n u = st' ∧ ∀ v, v ≠ u → g'.st n v = g.st n v := by
  constructor
  · simp [Gw.st, hu, aget_aset_self]
  · intro v hv; simp [Gw.st, hu, aget_aset_ne _ _ _ _ hv]

theorem aget_freshUps (n nUp u : Nat) : (aget (freshUps n nUp) u).getD (gwInit n) = gwInit n := by
  cases h : aget (freshUps n nUp) u with
  | none => rfl
  | some st =>
    have := aget_mem h
    simp only [freshUps, List.mem_map, List.mem_range, Prod.mk.injEq] at this
    obtain ⟨_, _, _, e⟩ := this
    simp [e]

/-- a process that has just started: every limiter is fresh -/
theorem gwInv_started (n nUp : Nat) (g : Gw) (h1 : g.ups = freshUps n nUp) (h2 : g.fresh = []) : GwInv n g := by
  have hst : ∀ u, g.st n u = gwInit n := by intro u; simp only [Gw.st, h1]; exact aget_freshUps n nUp u
  refine ⟨fun u => by rw [hst]; exact gwOK_init n, fun u h => by rw [h2] at h; simp at h⟩

/-- a gateway that differs in identity / liveness / reachability only -/
theorem gwInv_congr {n : Nat} {g g' : Gw} (h : GwInv n g) (h1 : g'.ups = g.ups) (h3 : g'.fresh = g.fresh) :
    GwInv n g' := by
  have hst : ∀ u, g'.st n u = g.st n u := by intro u; simp [Gw.st, h1]
  exact ⟨fun u => by rw [hst]; exact h.ok u, fun u hu => by rw [hst]; exact h.fresh u (h3 ▸ hu)⟩

/-- gateway `g` has synced a valid schema for `u` (abstract form: `g'` is the gateway afterwards, `st'` the state of
    its limiter for `u`) -/
theorem gwInv_schema_abs {n : Nat} {g g' : Gw} (h : GwInv n g) (u : Nat) {l t : Int} (h0 : 0 ≤ l) (h1 : l ≤ t)
    (h2 : t ≤ maxInt32) {st' : RemoteLimiter.State} {c' : RemoteLimiter.Cache} (hst : st'.cache = some c')
    (hloc : c'.loc = ⟨mkSchema l t, some (.mi l)⟩) (hrem : c'.remote = ((g.st n u).cache.bind (·.remote)))
    (hups : g'.ups = aset g.ups u st')
    (hfresh : g'.fresh = if view (g.st n u) = some t then g.fresh else g.fresh.filter (· != u)) : GwInv n g' := by
  have hok' := gwOK_schema (h.ok u) h0 h1 h2 hst hloc hrem
  obtain ⟨hsu, hsv⟩ := st_of_aset n g g' u _ hups
  refine ⟨?_, ?_⟩
  · intro v
    by_cases hv : v = u
    · subst hv; rw [hsu]; exact hok'
    · rw [hsv v hv]; exact h.ok v
  · intro v hvf
    rw [hfresh] at hvf
    by_cases hv : v = u
    · subst hv
      rw [hsu]
      split at hvf
      · rename_i hview
        -- the view is unchanged: the remote limiter is still the held quota bounded by it
        have hfo := h.fresh v hvf
        intro c hc
        rw [hst] at hc
        simp only [Option.some.injEq] at hc
        subst hc
        cases hcache : (g.st n v).cache with
        | none => simp [view, hcache] at hview
        | some c0 =>
          obtain ⟨l0, t0, q0, e1, e2⟩ := hfo c0 hcache
          have : t0 = t := by
            simp [view, hcache, e1, mkSchema] at hview; exact hview
          subst this
          refine ⟨l, t0, q0, by rw [hloc], ?_⟩
          rw [hrem, hcache]; simpa using e2
      · simp at hvf
    · rw [hsv v hv]
      apply h.fresh v
      split at hvf
      · exact hvf
      · simp only [List.contains_eq_mem, List.mem_filter, decide_eq_true_eq] at hvf ⊢
        exact hvf.1

/-- removing upstreams from the monitor keeps the invariant -/
theorem gwInv_fresh_sub {n : Nat} {g g' : Gw} (h : GwInv n g) (h1 : g'.ups = g.ups)
    (h3 : ∀ u, g'.fresh.contains u = true → g.fresh.contains u = true) : GwInv n g' := by
  have hst : ∀ u, g'.st n u = g.st n u := by intro u; simp [Gw.st, h1]
  exact ⟨fun u => by rw [hst]; exact h.ok u, fun u hu => by rw [hst]; exact h.fresh u (h3 u hu)⟩

theorem gwInv_schema {n : Nat} {g : Gw} (h : GwInv n g) (u : Nat) {l t : Int} (h0 : 0 ≤ l) (h1 : l ≤ t)
    (h2 : t ≤ maxInt32) :
    GwInv n { g.apply n u (.schema (mkSchema l t)) with
              fresh := if view (g.st n u) = some t then g.fresh else g.fresh.filter (· != u) } := by
  cases hu : aget g.ups u with
  | none =>
    -- an upstream outside the loop: nothing is synced
    apply gwInv_fresh_sub h
    · simp [Gw.apply, hu]
    · intro v hv
      simp only at hv
      split at hv
      · exact hv
      · simp only [List.contains_eq_mem, List.mem_filter, decide_eq_true_eq] at hv ⊢
        exact hv.1
  | some st0 =>
    have hst0 : g.st n u = st0 := by simp [Gw.st, hu]
    obtain ⟨st', c', hstep, hst, hloc, hrem⟩ := step_schema (h.ok u) h0 h1 h2
    rw [hst0] at hstep
    apply gwInv_schema_abs h u h0 h1 h2 hst hloc hrem
    · simp [Gw.apply, hu, stepOr, hstep]
    · rfl

/-- gateway `g` has applied the answered quota `q` for `u` (abstract form) -/
theorem gwInv_answer_abs {n : Nat} {g g' : Gw} (h : GwInv n g) (u : Nat) (q : Int) {c c' : RemoteLimiter.Cache}
    {st' : RemoteLimiter.State} {l t : Int} (hc : (g.st n u).cache = some c)
    (hloc : c.loc = ⟨mkSchema l t, some (.mi l)⟩) (t0 : 0 ≤ t) (t1 : t ≤ maxInt32)
    (hst : st'.cache = some c') (hloc' : c'.loc = c.loc) (hrem : c'.remote = some (remShape q (bound q t)))
    (hups : g'.ups = aset g.ups u st')
    (hfresh : g'.fresh = if g.fresh.contains u then g.fresh else u :: g.fresh) :
    GwInv n g' := by
  obtain ⟨hok', hfresh'⟩ := gwOK_answer (n := q) (h.ok u) hc hloc t0 t1 hst hloc' hrem
  obtain ⟨hsu, hsv⟩ := st_of_aset n g g' u _ hups
  refine ⟨?_, ?_⟩
  · intro v
    by_cases hv : v = u
    · subst hv; rw [hsu]; exact hok'
    · rw [hsv v hv]; exact h.ok v
  · intro v hvf
    rw [hfresh] at hvf
    by_cases hv : v = u
    · subst hv; rw [hsu]; exact hfresh'
    · rw [hsv v hv]
      apply h.fresh v
      split at hvf
      · exact hvf
      · simp only [List.contains_eq_mem, List.mem_cons, decide_eq_true_eq] at hvf ⊢
        rcases hvf with e | e
        · exact absurd e hv
        · exact e

/-- a limiter with a schema belongs to an upstream of the loop (it has an entry) -/
theorem entry_of_cache {n : Nat} {g : Gw} {u : Nat} (hs : ((g.st n u).cache).isSome = true) :
    ∃ st0, aget g.ups u = some st0 ∧ g.st n u = st0 := by
  cases hu : aget g.ups u with
  | none => simp [Gw.st, hu, gwInit] at hs
  | some st0 => exact ⟨st0, rfl, by simp [Gw.st, hu]⟩

theorem gwInv_answer {n : Nat} {g : Gw} (h : GwInv n g) (u : Nat) (q : Int)
    (hs : ((g.st n u).cache).isSome = true) :
    GwInv n { g.apply n u (.answer true (mkItem q)) with
              fresh := if g.fresh.contains u then g.fresh else u :: g.fresh } := by
  obtain ⟨st0, hu, hst0⟩ := entry_of_cache hs
  rcases step_answer (h.ok u) q with ⟨hnone, _⟩ | ⟨c, l, t, st', c', hc, hloc, t0, t1, hstep, hst, hloc', hrem⟩
  · rw [hnone] at hs; cases hs
  · rw [hst0] at hstep
    apply gwInv_answer_abs h u q hc hloc t0 t1 hst hloc' hrem
    · simp [Gw.apply, hu, stepOr, hstep]
    · rfl

/-- the state of every `upstreamLimiter` after a heartbeat round: C09's `.hb` step of the state before (an upstream
    outside the loop has no limiter: nothing happens) -/
theorem st_heartbeat (n : Nat) (g : Gw) (ok : Bool) (now : Int) (u : Nat) :
    (g.heartbeat ok now).st n u
      = (match aget g.ups u with
         | some st => stepOr st (.hb ok now false)
         | none => gwInit n) := by
  have hm := aget_map g.ups (fun _ st => stepOr st (.hb ok now false)) u
  simp only [Gw.st, Gw.heartbeat]
  rw [hm]
  cases aget g.ups u <;> rfl

theorem cache_heartbeat (n : Nat) (g : Gw) (ok : Bool) (now : Int) (u : Nat) :
    ((g.heartbeat ok now).st n u).cache = (g.st n u).cache := by
  rw [st_heartbeat]
  cases hu : aget g.ups u with
  | none => simp [Gw.st, hu]
  | some st =>
    obtain ⟨st', h1, h2⟩ := step_hb st ok now
    simp [Gw.st, hu, stepOr, h1, h2]

theorem gwInv_heartbeat {n : Nat} {g : Gw} (h : GwInv n g) (ok : Bool) (now : Int) : GwInv n (g.heartbeat ok now) := by
  refine ⟨?_, ?_⟩
  · intro u c hc
    rw [cache_heartbeat] at hc
    exact h.ok u c hc
  · intro u hu c hc
    rw [cache_heartbeat] at hc
    exact h.fresh u hu c hc

/-! ## the loop invariant -/

/-- what the loop's environment guarantees about its inputs: configured global limits are at least 1 (server side)
    and schemas synced by gateways are the ones validation accepts (`0 ≤ local ≤ global ≤ 2^31 − 1`, C16) -/
def OpOK : Op → Prop
  | .list _ t => 1 ≤ t
  | .gwSchema _ _ l t => 0 ≤ l ∧ l ≤ t ∧ t ≤ maxInt32
  | _ => True

instance (op : Op) : Decidable (OpOK op) := by
  cases op <;> simp only [OpOK] <;> infer_instance

structure LInv (s : State) : Prop where
  srv : SrvInv s.srv
  gws : ∀ g ∈ s.gws, GwInv s.nShards g

theorem linv_init (nShards nGw nUp : Nat) (k8s : Bool) : LInv (init nShards nGw nUp k8s) := by
  refine ⟨⟨by simp [init], by simp [init], by simp [init]⟩, ?_⟩
  intro g hg
  simp only [init, List.mem_map, List.mem_range] at hg
  obtain ⟨i, _, rfl⟩ := hg
  exact gwInv_started nShards nUp _ rfl rfl

theorem gw_mem {s : State} {g : Nat} {x : Gw} (h : s.gw g = some x) : x ∈ s.gws :=
  List.mem_of_getElem? h

theorem linv_setGw {s : State} (h : LInv s) (g : Nat) (x : Gw) (hx : GwInv s.nShards x) : LInv (s.setGw g x) := by
  refine ⟨h.srv, ?_⟩
  intro y hy
  rcases List.mem_or_eq_of_mem_set hy with e | e
  · exact h.gws y e
  · subst e; exact hx

theorem linv_srv {s : State} (h : LInv s) (srv' : Server) (hs : SrvInv srv') : LInv { s with srv := srv' } :=
  ⟨hs, h.gws⟩

theorem step_nShards (shardOf : Nat → Nat) (s : State) (op : Op) : (step shardOf s op).nShards = s.nShards := by
  cases op <;> simp only [step, State.setGw] <;> (repeat' split) <;> rfl

theorem linv_step (shardOf : Nat → Nat) {s : State} (h : LInv s) (op : Op) (hop : OpOK op) :
    LInv (step shardOf s op) := by
  cases op with
  | list u t =>
    simp only [step]
    refine ⟨⟨h.srv.ups, h.srv.api, ?_⟩, h.gws⟩
    intro p hp
    rcases mem_aset hp with e | e
    · subst e; exact hop
    · exact h.srv.listed p e.1
  | handle u => exact linv_srv h _ (srvInv_handle shardOf h.srv u)
  | gwSchema g u l t =>
    simp only [step]
    split
    · exact h
    · rename_i x hx
      split
      · exact linv_setGw h g _ (gwInv_schema (h.gws x (gw_mem hx)) u hop.1 hop.2.1 hop.2.2)
      · exact h
  | hb g now =>
    simp only [step]
    split
    · exact h
    · rename_i x hx
      have hxi := h.gws x (gw_mem hx)
      split
      · exact h
      · split
        · exact linv_srv (linv_setGw h g _ (gwInv_heartbeat hxi true _)) _ (srvInv_heartbeat h.srv _ _)
        · exact linv_setGw h g _ (gwInv_heartbeat hxi false _)
  | report g u x m used lvl =>
    simp only [step]
    split
    · exact h
    · rename_i gw hgw
      split
      · exact h
      · rename_i hrep
        split
        · exact h
        · rename_i srv' n hsr
          have hsrv : SrvInv srv' := by
            have := srvInv_report shardOf h.srv u gw.id x m used lvl
            rw [hsr] at this; exact this
          have hcache : ((gw.st s.nShards u).cache).isSome = true := by
            simp [reports] at hrep
            cases hcc : (gw.st s.nShards u).cache with
            | none => exact absurd hcc hrep.1.2
            | some _ => rfl
          exact linv_srv (linv_setGw h g _ (gwInv_answer (h.gws gw (gw_mem hgw)) u n hcache)) _ hsrv
  | tick now =>
    exact linv_srv h _ (srvInv_leaderCheck shardOf (srvInv_cleanupTimeout shardOf h.srv now))
  | unknownPass => exact linv_srv h _ (srvInv_cleanupUnknown shardOf h.srv)
  | elect k b => exact linv_srv h _ (srvInv_elect h.srv k b)
  | gain k => exact linv_srv h _ (srvInv_startLeading shardOf (srvInv_elect h.srv k true) k)
  | lose k => exact linv_srv h _ (srvInv_stopLeading shardOf (srvInv_elect h.srv k false) k)
  | net g b =>
    simp only [step]
    split
    · exact h
    · rename_i x hx
      exact linv_setGw h g _ (gwInv_congr (h.gws x (gw_mem hx)) rfl rfl)
  | crash g =>
    simp only [step]
    split
    · exact h
    · rename_i x hx
      exact linv_setGw h g _ (gwInv_congr (h.gws x (gw_mem hx)) rfl rfl)
  | ret g id =>
    simp only [step]
    split
    · exact h
    · rename_i x hx
      exact linv_setGw h g _ (gwInv_started s.nShards s.nUp _ rfl rfl)

theorem linv_run (shardOf : Nat → Nat) : ∀ (ops : List Op) (s : State), LInv s → (∀ op ∈ ops, OpOK op) →
    LInv (run shardOf s ops)
  | [], s, h, _ => h
  | op :: rest, s, h, hops => by
    simp only [run, List.foldl_cons]
    exact linv_run shardOf rest _ (linv_step shardOf h op (hops op List.mem_cons_self))
      (fun o ho => hops o (List.mem_cons_of_mem _ ho))

/-! ## the system-level clause follows from the per-gateway clauses and the recorded-quota invariant -/

theorem sum_map_le {α : Type} (l : List α) (f g : α → Int) (h : ∀ x ∈ l, f x ≤ g x) : (l.map f).sum ≤ (l.map g).sum := by
  induction l with
  | nil => simp
  | cons a rest ih =>
    simp only [List.map_cons, List.sum_cons]
    have := h a List.mem_cons_self
    have := ih (fun x hx => h x (List.mem_cons_of_mem _ hx))
    omega

theorem lookupD_cons (j : Nat) (v : Int) (rest : List (Nat × Int)) (i : Nat) :
    lookupD ((j, v) :: rest) i = if i = j then v else lookupD rest i := by
  unfold lookupD
  by_cases h : i = j
  · subst h; simp [List.lookup]
  · have : (i == j) = false := by simpa using h
    simp [List.lookup, this, h]

theorem lookupD_filter_ne (q : List (Nat × Int)) (a i : Nat) (h : i ≠ a) :
    lookupD (q.filter (fun p => p.1 != a)) i = lookupD q i := by
  induction q with
  | nil => rfl
  | cons p rest ih =>
    obtain ⟨j, v⟩ := p
    by_cases hj : j = a
    · subst hj
      have : ((j, v).1 != j) = false := by simp
      simp only [List.filter_cons, this, Bool.false_eq_true, if_false, ih, lookupD_cons, h]
    · have : ((j, v).1 != a) = true := by simpa using hj
      simp only [List.filter_cons, this, if_true, lookupD_cons, ih]

theorem mem_of_lookup {q : List (Nat × Int)} {a : Nat} {c : Int} (h : q.lookup a = some c) : (a, c) ∈ q := by
  induction q with
  | nil => simp [List.lookup] at h
  | cons p rest ih =>
    obtain ⟨j, v⟩ := p
    by_cases hj : a = j
    · subst hj; simp [List.lookup] at h; subst h; exact List.mem_cons_self
    · have : (a == j) = false := by simpa using hj
      simp [List.lookup, this] at h
      exact List.mem_cons_of_mem _ (ih h)

theorem sumQ_split (q : List (Nat × Int)) (a : Nat) (hq : ∀ p ∈ q, 0 ≤ p.2) :
    lookupD q a + sumQ (q.filter (fun p => p.1 != a)) ≤ sumQ q := by
  induction q with
  | nil => simp [lookupD, sumQ]
  | cons p rest ih =>
    obtain ⟨j, v⟩ := p
    have hv := hq (j, v) List.mem_cons_self
    have ih' := ih (fun p hp => hq p (List.mem_cons_of_mem _ hp))
    have hnn : 0 ≤ lookupD rest a := by
      unfold lookupD
      cases hl : rest.lookup a with
      | none => simp
      | some c =>
        have : (a, c) ∈ rest := mem_of_lookup hl
        exact hq _ (List.mem_cons_of_mem _ this)
    by_cases hj : j = a
    · subst hj
      have : ((j, v).1 != j) = false := by simp
      simp only [List.filter_cons, this, Bool.false_eq_true, if_false, lookupD_cons, if_true,
        KG.Props.C07.sumQ_cons]
      omega
    · have : ((j, v).1 != a) = true := by simpa using hj
      have hne : a ≠ j := fun e => hj e.symm
      simp only [List.filter_cons, this, if_true, lookupD_cons, hne, if_false, KG.Props.C07.sumQ_cons]
      omega

/-- distinct instances hold, together, at most the recorded sum -/
theorem sum_lookup_le : ∀ (ids : List Nat) (q : List (Nat × Int)), ids.Nodup → (∀ p ∈ q, 0 ≤ p.2) →
    (ids.map (lookupD q)).sum ≤ sumQ q
  | [], q, _, hq => by
    simp only [List.map_nil, List.sum_nil]
    induction q with
    | nil => simp [sumQ]
    | cons p rest ih =>
      have := hq p List.mem_cons_self
      have := ih (fun p hp => hq p (List.mem_cons_of_mem _ hp))
      rw [KG.Props.C07.sumQ_cons]; omega
  | a :: rest, q, hn, hq => by
    have hn' := List.nodup_cons.1 hn
    have ih := sum_lookup_le rest (q.filter (fun p => p.1 != a)) hn'.2
      (fun p hp => hq p (List.mem_filter.1 hp).1)
    have hs := sumQ_split q a hq
    have he : (rest.map (lookupD (q.filter (fun p => p.1 != a)))).sum = (rest.map (lookupD q)).sum := by
      congr 1
      apply List.map_congr_left
      intro i hi
      exact lookupD_filter_ne q a i (fun e => hn'.1 (e ▸ hi))
    simp only [List.map_cons, List.sum_cons]
    omega

theorem slack_nonneg (q : List (Nat × Int)) (hq : ∀ p ∈ q, 1 ≤ p.2) : 0 ≤ sumQ q - onesQ q := by
  induction q with
  | nil => simp [sumQ, onesQ]
  | cons p rest ih =>
    have hp := hq p List.mem_cons_self
    have := ih (fun p hp => hq p (List.mem_cons_of_mem _ hp))
    rw [KG.Props.C07.sumQ_cons, KG.Props.C07.onesQ_cons]
    unfold KG.Props.C07.isOne; split <;> omega

/-- a recorded quota other than the minimum 1 is within `sum − #ones` -/
theorem quota_le_slack (q : List (Nat × Int)) (hq : ∀ p ∈ q, 1 ≤ p.2) (a : Nat) (c : Int)
    (h : q.lookup a = some c) : c - KG.Props.C07.isOne c ≤ sumQ q - onesQ q := by
  induction q with
  | nil => simp [List.lookup] at h
  | cons p rest ih =>
    obtain ⟨j, v⟩ := p
    have hv := hq (j, v) List.mem_cons_self
    have hrest := slack_nonneg rest (fun p hp => hq p (List.mem_cons_of_mem _ hp))
    rw [KG.Props.C07.sumQ_cons, KG.Props.C07.onesQ_cons]
    by_cases hj : a = j
    · subst hj
      simp [List.lookup] at h
      subst h
      simp only; omega
    · have : (a == j) = false := by simpa using hj
      simp [List.lookup, this] at h
      have := ih (fun p hp => hq p (List.mem_cons_of_mem _ hp)) h
      have : 0 ≤ v - KG.Props.C07.isOne v := by unfold KG.Props.C07.isOne; split <;> omega
      simp only; omega

theorem judgeG_remote {g : GObs} (h : judgeG g = []) (hr : g.remote = true) :
    ∃ r, g.raw = some r ∧ (0 ≤ r → g.enforced ≤ r) := by
  unfold judgeG at h
  rw [if_pos hr] at h
  cases hraw : g.raw with
  | none => rw [hraw] at h; simp at h
  | some r =>
    rw [hraw] at h
    refine ⟨r, rfl, ?_⟩
    by_cases hc : 0 ≤ r → g.enforced ≤ r
    · exact hc
    · simp [hc] at h

/-- **system-level no over-commit, at the level of observations**: gateways with distinct identities that hold
    exactly what the server has on record for them enforce, together, at most the largest limit in force since the
    record began plus the number of instances held at the minimum 1 -/
theorem system_of_parts (s : SObs) (gs : List GObs) (hg : ∀ g ∈ gs, judgeG g = []) (hs : recordedOK s = true) :
    systemOK s gs = true := by
  unfold systemOK
  simp only [Bool.or_eq_true, Bool.not_eq_true', Bool.and_eq_false_iff, decide_eq_false_iff_not, decide_eq_true_eq]
  by_cases hpre : ((gs.filter (·.remote)).map (·.id)).Nodup ∧ (gs.filter (·.remote)).all (holdsRecord s.quotas) = true
  · right
    obtain ⟨hnd, hall⟩ := hpre
    simp only [recordedOK, Bool.and_eq_true, List.all_eq_true, decide_eq_true_eq] at hs
    obtain ⟨⟨hge, _⟩, hslack⟩ := hs
    have hnn : ∀ p ∈ s.quotas, 0 ≤ p.2 := fun p hp => by have := hge p hp; omega
    have h1 : ((gs.filter (·.remote)).map (·.enforced)).sum
        ≤ ((gs.filter (·.remote)).map (fun g => lookupD s.quotas g.id)).sum := by
      apply sum_map_le
      intro g hgm
      have hgm' := List.mem_filter.1 hgm
      obtain ⟨r, hraw, hle⟩ := judgeG_remote (hg g hgm'.1) hgm'.2
      have hh := List.all_eq_true.1 hall g hgm
      unfold holdsRecord at hh
      rw [hraw] at hh
      cases hl : s.quotas.lookup g.id with
      | none => rw [hl] at hh; cases hh
      | some c =>
        rw [hl] at hh
        have hrc : r = c := by simpa using hh
        have hc1 := hge _ (mem_of_lookup hl)
        simp only [lookupD, hl, Option.getD_some]
        subst hrc
        exact hle (by omega)
    have h2 := sum_lookup_le ((gs.filter (·.remote)).map (·.id)) s.quotas hnd hnn
    rw [List.map_map] at h2
    have : sumRemote gs = ((gs.filter (·.remote)).map (·.enforced)).sum := rfl
    rw [this]
    have h3 : ((gs.filter (·.remote)).map (lookupD s.quotas ∘ fun g => g.id)).sum
        = ((gs.filter (·.remote)).map (fun g => lookupD s.quotas g.id)).sum := rfl
    omega
  · left
    by_cases hnd : ((gs.filter (·.remote)).map (·.id)).Nodup
    · right
      cases hall : (gs.filter (·.remote)).all (holdsRecord s.quotas) with
      | false => rfl
      | true => exact absurd ⟨hnd, hall⟩ hpre
    · left; exact hnd

theorem recordedOK_of_sinv {e : UpStore} (h : SInv e) : recordedOK (obsS e) = true := by
  simp only [recordedOK, obsS, Bool.and_eq_true, List.all_eq_true, decide_eq_true_eq]
  exact ⟨⟨h.ge_one, decide_eq_true h.recorded⟩, decide_eq_true h.slack⟩

/-- the judge accepts the observation of every state that satisfies the loop invariant -/
theorem judgeU_of_linv {s : State} (h : LInv s) (u : Nat) : judgeU (obsU s u) = [] := by
  have hgs : ∀ g ∈ (obsU s u).gws, judgeG g = [] := by
    intro o ho
    simp only [obsU, List.mem_map, List.mem_filter] at ho
    obtain ⟨g, ⟨hg, hrep⟩, rfl⟩ := ho
    have hgi := h.gws g hg
    simp only [reports, Bool.and_eq_true] at hrep
    cases hc : (g.st s.nShards u).cache with
    | none => rw [hc] at hrep; simp at hrep
    | some c => exact judgeG_ok (hgi.ok u) hc g.id _ (hgi.fresh u)
  unfold judgeU
  have h1 : ((obsU s u).gws.map judgeG).flatten = [] := by
    rw [List.flatten_eq_nil_iff]
    intro l hl
    obtain ⟨o, ho, rfl⟩ := List.mem_map.1 hl
    exact hgs o ho
  rw [h1]
  cases hsrv : (obsU s u).srv with
  | none => rfl
  | some so =>
    simp only [obsU, Option.map_eq_some_iff] at hsrv
    obtain ⟨e, he, rfl⟩ := hsrv
    have hrec := recordedOK_of_sinv (h.srv.ups _ (aget_mem he))
    have hsys := system_of_parts (obsS e) (obsU s u).gws hgs hrec
    simp [hrec, hsys]

/-! ## records under drops and reports -/

theorem lookup_filter_drop (q : List (Nat × Int)) (p : Nat → Bool) (d : Nat) (hd : p d = true) :
    (q.filter (fun x => !p x.1)).lookup d = none := by
  induction q with
  | nil => rfl
  | cons a rest ih =>
    obtain ⟨j, v⟩ := a
    by_cases hj : p j = true
    · simp only [List.filter_cons, hj, Bool.not_true, Bool.false_eq_true, if_false]; exact ih
    · have hjf : p j = false := by simpa using hj
      have hne : (d == j) = false := by
        simp only [beq_eq_false_iff_ne, ne_eq]; intro e; rw [e] at hd; rw [hd] at hjf; cases hjf
      simp only [List.filter_cons, hjf, Bool.not_false, if_true, List.lookup, hne]; exact ih

theorem lookup_filter_keep (q : List (Nat × Int)) (p : Nat → Bool) (j : Nat) (hj : p j = false) :
    (q.filter (fun x => !p x.1)).lookup j = q.lookup j := by
  induction q with
  | nil => rfl
  | cons a rest ih =>
    obtain ⟨i, v⟩ := a
    by_cases hi : p i = true
    · have hne : (j == i) = false := by
        simp only [beq_eq_false_iff_ne, ne_eq]; intro e; rw [e] at hj; rw [hj] at hi; cases hi
      simp only [List.filter_cons, hi, Bool.not_true, Bool.false_eq_true, if_false, List.lookup, hne]; exact ih
    · have hif : p i = false := by simpa using hi
      simp only [List.filter_cons, hif, Bool.not_false, if_true, List.lookup]
      cases (j == i) <;> simp [ih]

theorem lookupD_setQuota_self (q : List (Nat × Int)) (i : Nat) (v : Int) : lookupD (setQuota q i v) i = v := by
  induction q with
  | nil => simp [setQuota, lookupD, List.lookup]
  | cons a rest ih =>
    obtain ⟨j, w⟩ := a
    unfold setQuota
    by_cases hj : j = i
    · subst hj; simp [lookupD, List.lookup]
    · have : (i == j) = false := by simp; exact fun e => hj e.symm
      simp only [hj, if_false]
      simp only [lookupD, List.lookup, this] at ih ⊢
      exact ih

theorem lookupD_setQuota_ne (q : List (Nat × Int)) (i j : Nat) (v : Int) (h : j ≠ i) :
    lookupD (setQuota q i v) j = lookupD q j := by
  induction q with
  | nil =>
    have : (j == i) = false := by simpa using h
    simp [setQuota, lookupD, List.lookup, this]
  | cons a rest ih =>
    obtain ⟨k, w⟩ := a
    unfold setQuota
    by_cases hk : k = i
    · subst hk
      have : (j == k) = false := by simpa using h
      simp [lookupD, List.lookup, this]
    · simp only [hk, if_false]
      simp only [lookupD, List.lookup] at ih ⊢
      cases (j == k) <;> simp [ih]

/-- a survivor that asks for at least everything that is left gets exactly everything that is left -/
theorem answer_takes_all (s : Alloc.Srv) (i : Nat) (x m : Rat) (hm : m ≤ x)
    (hx : ((lookupD s.quotas i + (s.total - s.recSum) : Int) : Rat) ≤ x)
    (h1 : 1 ≤ lookupD s.quotas i + (s.total - s.recSum)) (h2 : lookupD s.quotas i + (s.total - s.recSum) ≤ s.total) :
    Alloc.answer s i x m = lookupD s.quotas i + (s.total - s.recSum) := by
  unfold Alloc.answer
  have hcast : ((lookupD s.quotas i + (s.total - s.recSum) : Int) : Rat)
      = (lookupD s.quotas i : Rat) + ((s.total : Rat) - (s.recSum : Rat)) := by
    simp [Rat.intCast_add, Rat.intCast_sub]
  have h1' : (1 : Rat) ≤ (lookupD s.quotas i : Rat) + ((s.total : Rat) - (s.recSum : Rat)) := by
    rw [← hcast]; exact_mod_cast h1
  have h2' : (lookupD s.quotas i : Rat) + ((s.total : Rat) - (s.recSum : Rat)) ≤ (s.total : Rat) := by
    rw [← hcast]; exact_mod_cast h2
  rw [hcast] at hx
  have : Alloc.tailPre (F := Rat) x m (lookupD s.quotas i) ((s.total : Rat) - (s.recSum : Rat)) (s.total : Rat)
      = (lookupD s.quotas i : Rat) + ((s.total : Rat) - (s.recSum : Rat)) := by
    simp only [Alloc.tailPre, Alloc.QArith.lt, Alloc.QArith.sub, Alloc.QArith.add, Alloc.QArith.ofInt]
    split <;> split <;> split <;> split <;> simp_all <;> grind
  rw [this, ← hcast]
  exact Rat.ceil_intCast _

/-! ## helpers of `KG.Props.C07Loop`: the passes on one record, the projection onto C09, histories without lowering -/

theorem persist_ups (s : Server) : s.persist.ups = s.ups := by
  unfold Server.persist; split <;> rfl

theorem persist_hb (s : Server) : s.persist.hb = s.hb := by
  unfold Server.persist; split <;> rfl

theorem drop_dropped (e : UpStore) (p : Nat → Bool) (d : Nat) (hd : p d = true) :
    (e.drop p).has d = false ∧ (e.drop p).quotaOf d = 0 := by
  have h := lookup_filter_drop e.srv.quotas p d hd
  constructor
  · show (List.lookup d (e.srv.quotas.filter (fun q => !p q.1))).isSome = false
    rw [h]; rfl
  · show (List.lookup d (e.srv.quotas.filter (fun q => !p q.1))).getD 0 = 0
    rw [h]; rfl

theorem drop_kept (e : UpStore) (p : Nat → Bool) (j : Nat) (hj : p j = false) :
    (e.drop p).quotaOf j = e.quotaOf j ∧ (e.drop p).has j = e.has j := by
  have h := lookup_filter_keep e.srv.quotas p j hj
  constructor
  · show (List.lookup j (e.srv.quotas.filter (fun q => !p q.1))).getD 0 = (List.lookup j e.srv.quotas).getD 0
    rw [h]
  · show (List.lookup j (e.srv.quotas.filter (fun q => !p q.1))).isSome = (List.lookup j e.srv.quotas).isSome
    rw [h]

/-- what the time-out pass does to the record of one upstream -/
theorem cleanupTimeout_ups (shardOf : Nat → Nat) (s : Server) (now u : Nat) :
    aget (s.cleanupTimeout shardOf now).ups u =
      (aget s.ups u).map (fun e => if s.isLeader (shardOf u)
        then e.drop (fun i => (s.dead now).contains i && e.labelled.contains i) else e) := by
  unfold Server.cleanupTimeout
  rw [persist_ups]
  exact aget_map s.ups (fun k e => if s.isLeader (shardOf k)
    then e.drop (fun i => (s.dead now).contains i && e.labelled.contains i) else e) u

theorem cleanupUnknown_ups (shardOf : Nat → Nat) (s : Server) (u : Nat) :
    aget (s.cleanupUnknown shardOf).ups u =
      (aget s.ups u).map (fun e => if s.isLeader (shardOf u) then e.drop (fun i => !s.hbHas i) else e) := by
  unfold Server.cleanupUnknown
  rw [persist_ups]
  exact aget_map s.ups (fun k e => if s.isLeader (shardOf k) then e.drop (fun i => !s.hbHas i) else e) u


/-- what C09's quantifier (`KG.Props.C09.Allowed .mi`) asks of one operation -/
def C09Ok : RemoteLimiter.Op → Prop
  | .schema s => KG.Spec.RemoteLimiter.validSchema s = true ∧ RemoteLimiter.guessType s = .mi
  | .meter x => 0 < x.rateDen
  | _ => True

/-- `st` is reached by C09's model from the freshly constructed `upstreamLimiter` by an operation list inside C09's
    quantifier (schemas accepted by validation, of the max-in-flight type) -/
def GwReach (st : RemoteLimiter.State) : Prop :=
  ∃ log : List RemoteLimiter.Op, (∀ op ∈ log, C09Ok op) ∧ RemoteLimiter.exec {} log = some st

theorem exec_snoc : ∀ (log : List RemoteLimiter.Op) (st st' st'' : RemoteLimiter.State) (op : RemoteLimiter.Op),
    RemoteLimiter.exec st log = some st' → RemoteLimiter.step st' op = .ok st'' →
    RemoteLimiter.exec st (log ++ [op]) = some st''
  | [], st, st', st'', op, h1, h2 => by
    simp only [RemoteLimiter.exec, Option.some.injEq] at h1
    subst h1
    simp [RemoteLimiter.exec, h2]
  | o :: rest, st, st', st'', op, h1, h2 => by
    simp only [List.cons_append, RemoteLimiter.exec] at h1 ⊢
    cases hs : RemoteLimiter.step st o with
    | error e => rw [hs] at h1; cases h1
    | ok s1 =>
      rw [hs] at h1
      simp only at h1 ⊢
      exact exec_snoc rest s1 st' st'' op h1 h2

theorem gwReach_step {st st' : RemoteLimiter.State} {op : RemoteLimiter.Op} (h : GwReach st)
    (hs : RemoteLimiter.step st op = .ok st') (hop : C09Ok op) : GwReach st' := by
  obtain ⟨log, h1, h2⟩ := h
  refine ⟨log ++ [op], ?_, exec_snoc log _ _ _ op h2 hs⟩
  intro o ho
  rcases List.mem_append.1 ho with e | e
  · exact h1 o e
  · simp only [List.mem_singleton] at e
    subst e; exact hop

theorem gwReach_init (n : Nat) : GwReach (gwInit n) :=
  ⟨[.shards n], by intro o ho; simp only [List.mem_singleton] at ho; subst ho; trivial, rfl⟩

theorem valid_mk {l t : Int} (h0 : 0 ≤ l) (h1 : l ≤ t) (h2 : t ≤ maxInt32) : C09Ok (.schema (mkSchema l t)) := by
  constructor
  · simp [KG.Spec.RemoteLimiter.validSchema, mkSchema, h0, h1, h2]
  · simp [RemoteLimiter.guessType, mkSchema]

/-- the loop invariant extended with the projection -/
structure RInv (s : State) : Prop where
  inv : LInv s
  reach : ∀ g ∈ s.gws, ∀ u, GwReach (g.st s.nShards u)

theorem rinv_setGw {s : State} (h : RInv s) (g : Nat) (x : Gw) (hx : GwInv s.nShards x)
    (hr : ∀ u, GwReach (x.st s.nShards u)) : RInv (s.setGw g x) := by
  refine ⟨linv_setGw h.inv g x hx, ?_⟩
  intro y hy u
  rcases List.mem_or_eq_of_mem_set hy with e | e
  · exact h.reach y e u
  · subst e; exact hr u

theorem rinv_srv {s : State} (h : RInv s) (srv' : Server) (hs : SrvInv srv') : RInv { s with srv := srv' } :=
  ⟨linv_srv h.inv srv' hs, h.reach⟩

/-- one C09 step of the limiter for `u` keeps every limiter of the gateway reachable -/
theorem reach_apply {n : Nat} {g : Gw} (hr : ∀ v, GwReach (g.st n v)) (u : Nat) (op : RemoteLimiter.Op) (hop : C09Ok op)
    (hok : ∀ st0, aget g.ups u = some st0 → ∃ st', RemoteLimiter.step st0 op = .ok st') :
    ∀ v, GwReach ((g.apply n u op).st n v) := by
  intro v
  cases hu : aget g.ups u with
  | none => simp only [Gw.apply, hu]; exact hr v
  | some st0 =>
    obtain ⟨st', hstep⟩ := hok st0 hu
    have hap : (g.apply n u op).ups = aset g.ups u st' := by simp [Gw.apply, hu, stepOr, hstep]
    obtain ⟨hsu, hsv⟩ := st_of_aset n g (g.apply n u op) u _ hap
    by_cases hv : v = u
    · subst hv; rw [hsu]
      have h0 : g.st n v = st0 := by simp [Gw.st, hu]
      exact gwReach_step (h0 ▸ hr v) hstep hop
    · rw [hsv v hv]; exact hr v

theorem reach_heartbeat {n : Nat} {g : Gw} (hr : ∀ v, GwReach (g.st n v)) (ok : Bool) (now : Int) :
    ∀ v, GwReach ((g.heartbeat ok now).st n v) := by
  intro v
  rw [st_heartbeat]
  cases hu : aget g.ups v with
  | none => exact gwReach_init n
  | some st =>
    obtain ⟨st', h1, _⟩ := step_hb st ok now
    have h0 : g.st n v = st := by simp [Gw.st, hu]
    simp only [stepOr, h1]
    exact gwReach_step (h0 ▸ hr v) h1 trivial

theorem rinv_step (shardOf : Nat → Nat) {s : State} (h : RInv s) (op : Op) (hop : OpOK op) :
    RInv (step shardOf s op) := by
  have hl := linv_step shardOf h.inv op hop
  have hsrv : (step shardOf s op).gws = s.gws → (step shardOf s op).nShards = s.nShards →
      RInv (step shardOf s op) := fun e1 e2 => ⟨hl, by rw [e1, e2]; exact h.reach⟩
  cases op with
  | list u t => exact hsrv rfl rfl
  | handle u => exact hsrv rfl rfl
  | tick now => exact hsrv rfl rfl
  | unknownPass => exact hsrv rfl rfl
  | elect k b => exact hsrv rfl rfl
  | gain k => exact hsrv rfl rfl
  | lose k => exact hsrv rfl rfl
  | gwSchema g u l t =>
    simp only [step] at hl ⊢
    split
    · exact h
    · rename_i x hx
      split
      · have hxi := h.inv.gws x (gw_mem hx)
        refine rinv_setGw h g _ (gwInv_schema hxi u hop.1 hop.2.1 hop.2.2) ?_
        intro v
        change GwReach ((x.apply s.nShards u (.schema (mkSchema l t))).st s.nShards v)
        refine reach_apply (h.reach x (gw_mem hx)) u _ (valid_mk hop.1 hop.2.1 hop.2.2) ?_ v
        intro st0 hu
        have h0 : x.st s.nShards u = st0 := by simp [Gw.st, hu]
        obtain ⟨st', _, hstep, _⟩ := step_schema (hxi.ok u) hop.1 hop.2.1 hop.2.2
        exact ⟨st', h0 ▸ hstep⟩
      · exact h
  | hb g now =>
    simp only [step] at hl ⊢
    split
    · exact h
    · rename_i x hx
      have hxi := h.inv.gws x (gw_mem hx)
      split
      · exact h
      · split
        · exact rinv_srv (rinv_setGw h g _ (gwInv_heartbeat hxi true _) (reach_heartbeat (h.reach x (gw_mem hx)) true _))
            _ (srvInv_heartbeat h.inv.srv _ _)
        · exact rinv_setGw h g _ (gwInv_heartbeat hxi false _) (reach_heartbeat (h.reach x (gw_mem hx)) false _)
  | report g u x m used lvl =>
    simp only [step] at hl ⊢
    split
    · exact h
    · rename_i gw hgw
      split
      · exact h
      · rename_i hrep
        split
        · exact h
        · rename_i srv' n hsr
          have hgi := h.inv.gws gw (gw_mem hgw)
          have hcache : ((gw.st s.nShards u).cache).isSome = true := by
            simp [reports] at hrep
            cases hcc : (gw.st s.nShards u).cache with
            | none => exact absurd hcc hrep.1.2
            | some _ => rfl
          have hsrv' : SrvInv srv' := by
            have := srvInv_report shardOf h.inv.srv u gw.id x m used lvl
            rw [hsr] at this; exact this
          refine rinv_srv (rinv_setGw h g _ (gwInv_answer hgi u n hcache) ?_) _ hsrv'
          intro v
          change GwReach ((gw.apply s.nShards u (.answer true (mkItem n))).st s.nShards v)
          refine reach_apply (h.reach gw (gw_mem hgw)) u (.answer true (mkItem n)) trivial ?_ v
          intro st0 hu
          have h0 : gw.st s.nShards u = st0 := by simp [Gw.st, hu]
          rcases step_answer (hgi.ok u) n with ⟨_, hstep⟩ | ⟨_, _, _, st', _, _, _, _, _, hstep, _⟩
          · exact ⟨_, h0 ▸ hstep⟩
          · exact ⟨st', h0 ▸ hstep⟩
  | net g b =>
    simp only [step] at hl ⊢
    split
    · exact h
    · rename_i x hx
      exact rinv_setGw h g _ (gwInv_congr (h.inv.gws x (gw_mem hx)) rfl rfl)
        (fun v => by change GwReach (x.st s.nShards v); exact h.reach x (gw_mem hx) v)
  | crash g =>
    simp only [step] at hl ⊢
    split
    · exact h
    · rename_i x hx
      exact rinv_setGw h g _ (gwInv_congr (h.inv.gws x (gw_mem hx)) rfl rfl)
        (fun v => by change GwReach (x.st s.nShards v); exact h.reach x (gw_mem hx) v)
  | ret g id =>
    simp only [step] at hl ⊢
    split
    · exact h
    · rename_i x hx
      refine rinv_setGw h g _ (gwInv_started s.nShards s.nUp _ rfl rfl) ?_
      intro v
      have : ({ x with id := id, alive := true, ups := freshUps s.nShards s.nUp, fresh := [] } : Gw).st s.nShards v
          = gwInit s.nShards := by simp only [Gw.st]; exact aget_freshUps _ _ _
      rw [this]; exact gwReach_init _

theorem rinv_init (nShards nGw nUp : Nat) (k8s : Bool) : RInv (init nShards nGw nUp k8s) := by
  refine ⟨linv_init nShards nGw nUp k8s, ?_⟩
  intro g hg u
  simp only [init, List.mem_map, List.mem_range] at hg
  obtain ⟨i, _, rfl⟩ := hg
  have : (⟨i, true, true, freshUps nShards nUp, []⟩ : Gw).st nShards u = gwInit nShards := by
    simp only [Gw.st]; exact aget_freshUps _ _ _
  simp only [init]
  rw [this]; exact gwReach_init _

theorem rinv_run (shardOf : Nat → Nat) : ∀ (ops : List Op) (s : State), RInv s → (∀ op ∈ ops, OpOK op) →
    RInv (run shardOf s ops)
  | [], s, h, _ => h
  | op :: rest, s, h, hops => by
    simp only [run, List.foldl_cons]
    exact rinv_run shardOf rest _ (rinv_step shardOf h op (hops op List.mem_cons_self))
      (fun o ho => hops o (List.mem_cons_of_mem _ ho))

/-- the history never lowers the configured global limit of an upstream (`KG.Props.C07.Legal` for the loop): every
    `.list u t` carries a `t` at least as large as the limit the lister had for `u` -/
def NoLower : List (Nat × Int) → List Op → Prop
  | _, [] => True
  | listed, .list u t :: rest => (∀ t0, aget listed u = some t0 → t0 ≤ t) ∧ NoLower (aset listed u t) rest
  | listed, _ :: rest => NoLower listed rest

/-- the record's limit was never lowered and is at most what the lister says now -/
def NLe (listed : List (Nat × Int)) (p : Nat × UpStore) : Prop :=
  p.2.hi = p.2.srv.total ∧ ∃ t, aget listed p.1 = some t ∧ p.2.srv.total ≤ t

structure NLInv (s : Server) : Prop where
  ups : ∀ p ∈ s.ups, NLe s.listed p
  api : ∀ p ∈ s.api, NLe s.listed p

theorem persist_listed (s : Server) : s.persist.listed = s.listed := by unfold Server.persist; split <;> rfl

theorem nl_persist {s : Server} (h : NLInv s) : NLInv s.persist ∧ s.persist.listed = s.listed := by
  refine ⟨?_, persist_listed s⟩
  unfold Server.persist
  split
  · refine ⟨h.ups, ?_⟩
    intro p hp
    rcases List.mem_append.1 hp with e | e
    · exact h.ups p e
    · exact h.api p (List.mem_filter.1 e).1
  · exact h

section
variable (shardOf : Nat → Nat)

theorem nl_handle {s : Server} (h : NLInv s) (u : Nat) :
    NLInv (s.handle shardOf u) ∧ (s.handle shardOf u).listed = s.listed := by
  unfold Server.handle
  simp only
  split
  · exact ⟨h, rfl⟩
  · split
    · exact ⟨h, rfl⟩
    · split
      · exact ⟨h, rfl⟩
      · rename_i t ht
        apply nl_persist
        refine ⟨?_, h.api⟩
        intro p hp
        rcases mem_aset hp with e | e
        · subst e
          show NLe s.listed _
          split
          · rename_i e0 he0
            obtain ⟨h1, t0, h2, h3⟩ := h.ups _ (aget_mem he0)
            simp only at h1 h2 h3
            rw [ht] at h2
            have : t0 = t := (Option.some.inj h2).symm
            subst this
            refine ⟨?_, t0, ht, ?_⟩
            · simp only [UpStore.setLimit, Alloc.step]; split <;> omega
            · simp only [UpStore.setLimit, Alloc.step]; exact Int.le_refl _
          · exact ⟨rfl, t, ht, Int.le_refl _⟩
        · exact h.ups p e.1

theorem nl_foldl {β : Type} (f : Server → β → Server)
    (hf : ∀ s b, NLInv s → NLInv (f s b) ∧ (f s b).listed = s.listed) :
    ∀ (l : List β) (s : Server), NLInv s → NLInv (l.foldl f s) ∧ (l.foldl f s).listed = s.listed
  | [], _, h => ⟨h, rfl⟩
  | b :: rest, s, h => by
    obtain ⟨h1, h2⟩ := hf s b h
    obtain ⟨h3, h4⟩ := nl_foldl f hf rest (f s b) h1
    exact ⟨h3, h4.trans h2⟩

theorem nl_startLeading {s : Server} (h : NLInv s) (k : Nat) :
    NLInv (s.startLeading shardOf k) ∧ (s.startLeading shardOf k).listed = s.listed := by
  unfold Server.startLeading
  split
  · exact ⟨h, rfl⟩
  · simp only
    refine nl_foldl _ (fun st p hst => nl_handle shardOf hst p.1) _ _ ?_
    refine ⟨?_, h.api⟩
    intro p hp
    rcases List.mem_append.1 hp with e | e
    · split at e
      · exact h.api p (List.mem_filter.1 e).1
      · simp at e
    · exact h.ups p (List.mem_filter.1 e).1

theorem nl_stopLeading {s : Server} (h : NLInv s) (k : Nat) :
    NLInv (s.stopLeading shardOf k) ∧ (s.stopLeading shardOf k).listed = s.listed :=
  ⟨⟨fun p hp => h.ups p (List.mem_filter.1 hp).1, h.api⟩, rfl⟩

theorem nl_leaderCheck {s : Server} (h : NLInv s) :
    NLInv (s.leaderCheck shardOf) ∧ (s.leaderCheck shardOf).listed = s.listed := by
  unfold Server.leaderCheck
  simp only
  obtain ⟨h1, h2⟩ := nl_foldl _ (fun st k hst => nl_startLeading shardOf hst k)
    (s.leaders.filter (fun k => !s.hasStore k)) s h
  obtain ⟨h3, h4⟩ := nl_foldl _ (fun st k hst => nl_stopLeading shardOf hst k)
    ((List.foldl (fun st k => st.startLeading shardOf k) s (s.leaders.filter (fun k => !s.hasStore k))).stores.filter
      (fun k => !s.isLeader k)) _ h1
  exact ⟨h3, h4.trans h2⟩

theorem nl_mapUps {s : Server} (h : NLInv s) (hb : List (Nat × Nat)) (f : Nat × UpStore → UpStore)
    (hf : ∀ p, (f p).hi = p.2.hi ∧ (f p).srv.total = p.2.srv.total) :
    NLInv ({ s with hb := hb, ups := s.ups.map (fun p => (p.1, f p)) } : Server) := by
  refine ⟨?_, h.api⟩
  intro p hp
  obtain ⟨q, hq, rfl⟩ := List.mem_map.1 hp
  obtain ⟨h1, t, h2, h3⟩ := h.ups q hq
  obtain ⟨f1, f2⟩ := hf q
  exact ⟨by simp only; rw [f1, f2]; exact h1, t, h2, by simp only; rw [f2]; exact h3⟩

theorem nl_cleanupTimeout {s : Server} (h : NLInv s) (now : Nat) :
    NLInv (s.cleanupTimeout shardOf now) ∧ (s.cleanupTimeout shardOf now).listed = s.listed := by
  unfold Server.cleanupTimeout
  apply nl_persist
  apply nl_mapUps h
  intro p; split <;> exact ⟨rfl, rfl⟩

theorem nl_cleanupUnknown {s : Server} (h : NLInv s) :
    NLInv (s.cleanupUnknown shardOf) ∧ (s.cleanupUnknown shardOf).listed = s.listed := by
  unfold Server.cleanupUnknown
  apply nl_persist
  exact nl_mapUps h s.hb (fun p => if s.isLeader (shardOf p.1) then p.2.drop (fun i => !s.hbHas i) else p.2)
    (by intro p; show (if _ then _ else _ : UpStore).hi = _ ∧ (if _ then _ else _ : UpStore).srv.total = _
        split <;> exact ⟨rfl, rfl⟩)

theorem nl_report {s : Server} (h : NLInv s) (u i : Nat) (x m : Rat) (used lvl : Int) :
    NLInv (s.report shardOf u i x m used lvl).1 ∧ (s.report shardOf u i x m used lvl).1.listed = s.listed := by
  unfold Server.report
  split
  · exact ⟨h, rfl⟩
  · rename_i e he
    simp only
    apply nl_persist
    refine ⟨?_, h.api⟩
    intro p hp
    rcases mem_aset hp with e1 | e1
    · subst e1
      obtain ⟨h1, t, h2, h3⟩ := h.ups _ (serving_mem shardOf he)
      exact ⟨h1, t, h2, h3⟩
    · exact h.ups p e1.1

/-- one step keeps `NLInv`; the lister changes by `.list` only -/
theorem nl_step {s : State} (h : NLInv s.srv) (op : Op)
    (hop : match op with | .list u t => ∀ t0, aget s.srv.listed u = some t0 → t0 ≤ t | _ => True) :
    NLInv (step shardOf s op).srv ∧
    (step shardOf s op).srv.listed = (match op with | .list u t => aset s.srv.listed u t | _ => s.srv.listed) := by
  cases op with
  | list u t =>
    refine ⟨?_, rfl⟩
    simp only [step]
    have key : ∀ p : Nat × UpStore, NLe s.srv.listed p → NLe (aset s.srv.listed u t) p := by
      intro p ⟨h1, t0, h2, h3⟩
      by_cases hp : p.1 = u
      · refine ⟨h1, t, by rw [hp]; exact aget_aset_self _ _ _, ?_⟩
        have := hop t0 (hp ▸ h2); omega
      · exact ⟨h1, t0, by rw [aget_aset_ne _ _ _ _ hp]; exact h2, h3⟩
    exact ⟨fun p hp => key p (h.ups p hp), fun p hp => key p (h.api p hp)⟩
  | handle u => exact nl_handle shardOf h u
  | gwSchema g u l t => simp only [step, State.setGw]; (repeat' split) <;> exact ⟨h, rfl⟩
  | hb g now =>
    simp only [step, State.setGw]
    (repeat' split) <;> first | exact ⟨h, rfl⟩ | exact ⟨⟨h.ups, h.api⟩, rfl⟩
  | report g u x m used lvl =>
    simp only [step]
    split
    · exact ⟨h, rfl⟩
    · split
      · exact ⟨h, rfl⟩
      · split
        · exact ⟨h, rfl⟩
        · rename_i gw _ _ _ srv' n hsr
          have := nl_report shardOf h u gw.id x m used lvl
          rw [hsr] at this
          exact this
  | tick now =>
    obtain ⟨h1, h2⟩ := nl_cleanupTimeout shardOf h now
    obtain ⟨h3, h4⟩ := nl_leaderCheck shardOf h1
    exact ⟨h3, h4.trans h2⟩
  | unknownPass => exact nl_cleanupUnknown shardOf h
  | elect k b => exact ⟨⟨h.ups, h.api⟩, rfl⟩
  | gain k => exact nl_startLeading shardOf (s := s.srv.elect k true) ⟨h.ups, h.api⟩ k
  | lose k => exact nl_stopLeading shardOf (s := s.srv.elect k false) ⟨h.ups, h.api⟩ k
  | net g b => simp only [step, State.setGw]; (repeat' split) <;> exact ⟨h, rfl⟩
  | crash g => simp only [step, State.setGw]; (repeat' split) <;> exact ⟨h, rfl⟩
  | ret g id => simp only [step, State.setGw]; (repeat' split) <;> exact ⟨h, rfl⟩

theorem nl_run : ∀ (ops : List Op) (s : State), NLInv s.srv → NoLower s.srv.listed ops →
    NLInv (run shardOf s ops).srv
  | [], _, h, _ => h
  | op :: rest, s, h, hn => by
    simp only [run, List.foldl_cons]
    cases op with
    | list u t =>
      obtain ⟨h1, h2⟩ := nl_step shardOf h (.list u t) hn.1
      exact nl_run rest _ h1 (by rw [h2]; exact hn.2)
    | handle u => obtain ⟨h1, h2⟩ := nl_step shardOf h (.handle u) trivial; exact nl_run rest _ h1 (by rw [h2]; exact hn)
    | gwSchema g u l t =>
      obtain ⟨h1, h2⟩ := nl_step shardOf h (.gwSchema g u l t) trivial; exact nl_run rest _ h1 (by rw [h2]; exact hn)
    | hb g now => obtain ⟨h1, h2⟩ := nl_step shardOf h (.hb g now) trivial; exact nl_run rest _ h1 (by rw [h2]; exact hn)
    | report g u x m used lvl =>
      obtain ⟨h1, h2⟩ := nl_step shardOf h (.report g u x m used lvl) trivial
      exact nl_run rest _ h1 (by rw [h2]; exact hn)
    | tick now => obtain ⟨h1, h2⟩ := nl_step shardOf h (.tick now) trivial; exact nl_run rest _ h1 (by rw [h2]; exact hn)
    | unknownPass => obtain ⟨h1, h2⟩ := nl_step shardOf h .unknownPass trivial; exact nl_run rest _ h1 (by rw [h2]; exact hn)
    | elect k b => obtain ⟨h1, h2⟩ := nl_step shardOf h (.elect k b) trivial; exact nl_run rest _ h1 (by rw [h2]; exact hn)
    | gain k => obtain ⟨h1, h2⟩ := nl_step shardOf h (.gain k) trivial; exact nl_run rest _ h1 (by rw [h2]; exact hn)
    | lose k => obtain ⟨h1, h2⟩ := nl_step shardOf h (.lose k) trivial; exact nl_run rest _ h1 (by rw [h2]; exact hn)
    | net g b => obtain ⟨h1, h2⟩ := nl_step shardOf h (.net g b) trivial; exact nl_run rest _ h1 (by rw [h2]; exact hn)
    | crash g => obtain ⟨h1, h2⟩ := nl_step shardOf h (.crash g) trivial; exact nl_run rest _ h1 (by rw [h2]; exact hn)
    | ret g id => obtain ⟨h1, h2⟩ := nl_step shardOf h (.ret g id) trivial; exact nl_run rest _ h1 (by rw [h2]; exact hn)

end


/-! ## every recorded upstream is in the lister -/

def Lsd (listed : List (Nat × Int)) (p : Nat × UpStore) : Prop := ∃ t, aget listed p.1 = some t

structure LsInv (s : Server) : Prop where
  ups : ∀ p ∈ s.ups, Lsd s.listed p
  api : ∀ p ∈ s.api, Lsd s.listed p

theorem ls_persist {s : Server} (h : LsInv s) : LsInv s.persist ∧ s.persist.listed = s.listed := by
  refine ⟨?_, persist_listed s⟩
  unfold Server.persist
  split
  · refine ⟨h.ups, ?_⟩
    intro p hp
    rcases List.mem_append.1 hp with e | e
    · exact h.ups p e
    · exact h.api p (List.mem_filter.1 e).1
  · exact h

section
variable (shardOf : Nat → Nat)

theorem ls_handle {s : Server} (h : LsInv s) (u : Nat) :
    LsInv (s.handle shardOf u) ∧ (s.handle shardOf u).listed = s.listed := by
  unfold Server.handle
  simp only
  split
  · exact ⟨h, rfl⟩
  · split
    · exact ⟨h, rfl⟩
    · split
      · exact ⟨h, rfl⟩
      · rename_i t ht
        apply ls_persist
        refine ⟨?_, h.api⟩
        intro p hp
        rcases mem_aset hp with e | e
        · subst e; exact ⟨t, ht⟩
        · exact h.ups p e.1

theorem ls_foldl {β : Type} (f : Server → β → Server)
    (hf : ∀ s b, LsInv s → LsInv (f s b) ∧ (f s b).listed = s.listed) :
    ∀ (l : List β) (s : Server), LsInv s → LsInv (l.foldl f s) ∧ (l.foldl f s).listed = s.listed
  | [], _, h => ⟨h, rfl⟩
  | b :: rest, s, h => by
    obtain ⟨h1, h2⟩ := hf s b h
    obtain ⟨h3, h4⟩ := ls_foldl f hf rest (f s b) h1
    exact ⟨h3, h4.trans h2⟩

theorem ls_startLeading {s : Server} (h : LsInv s) (k : Nat) :
    LsInv (s.startLeading shardOf k) ∧ (s.startLeading shardOf k).listed = s.listed := by
  unfold Server.startLeading
  split
  · exact ⟨h, rfl⟩
  · simp only
    refine ls_foldl _ (fun st p hst => ls_handle shardOf hst p.1) _ _ ?_
    refine ⟨?_, h.api⟩
    intro p hp
    rcases List.mem_append.1 hp with e | e
    · split at e
      · exact h.api p (List.mem_filter.1 e).1
      · simp at e
    · exact h.ups p (List.mem_filter.1 e).1

theorem ls_stopLeading {s : Server} (h : LsInv s) (k : Nat) :
    LsInv (s.stopLeading shardOf k) ∧ (s.stopLeading shardOf k).listed = s.listed :=
  ⟨⟨fun p hp => h.ups p (List.mem_filter.1 hp).1, h.api⟩, rfl⟩

theorem ls_leaderCheck {s : Server} (h : LsInv s) :
    LsInv (s.leaderCheck shardOf) ∧ (s.leaderCheck shardOf).listed = s.listed := by
  unfold Server.leaderCheck
  simp only
  obtain ⟨h1, h2⟩ := ls_foldl _ (fun st k hst => ls_startLeading shardOf hst k)
    (s.leaders.filter (fun k => !s.hasStore k)) s h
  obtain ⟨h3, h4⟩ := ls_foldl _ (fun st k hst => ls_stopLeading shardOf hst k)
    ((List.foldl (fun st k => st.startLeading shardOf k) s (s.leaders.filter (fun k => !s.hasStore k))).stores.filter
      (fun k => !s.isLeader k)) _ h1
  exact ⟨h3, h4.trans h2⟩

theorem ls_mapUps {s : Server} (h : LsInv s) (hb : List (Nat × Nat)) (f : Nat × UpStore → UpStore) :
    LsInv ({ s with hb := hb, ups := s.ups.map (fun p => (p.1, f p)) } : Server) := by
  refine ⟨?_, h.api⟩
  intro p hp
  obtain ⟨q, hq, rfl⟩ := List.mem_map.1 hp
  exact h.ups q hq

theorem ls_cleanupTimeout {s : Server} (h : LsInv s) (now : Nat) :
    LsInv (s.cleanupTimeout shardOf now) ∧ (s.cleanupTimeout shardOf now).listed = s.listed := by
  unfold Server.cleanupTimeout
  apply ls_persist
  exact ls_mapUps h _ _

theorem ls_cleanupUnknown {s : Server} (h : LsInv s) :
    LsInv (s.cleanupUnknown shardOf) ∧ (s.cleanupUnknown shardOf).listed = s.listed := by
  unfold Server.cleanupUnknown
  apply ls_persist
  exact ls_mapUps h s.hb (fun p => if s.isLeader (shardOf p.1) then p.2.drop (fun i => !s.hbHas i) else p.2)

theorem ls_report {s : Server} (h : LsInv s) (u i : Nat) (x m : Rat) (used lvl : Int) :
    LsInv (s.report shardOf u i x m used lvl).1 ∧ (s.report shardOf u i x m used lvl).1.listed = s.listed := by
  unfold Server.report
  split
  · exact ⟨h, rfl⟩
  · rename_i e he
    simp only
    apply ls_persist
    refine ⟨?_, h.api⟩
    intro p hp
    rcases mem_aset hp with e1 | e1
    · subst e1
      obtain ⟨t, ht⟩ := h.ups (u, e) (serving_mem shardOf he)
      exact ⟨t, ht⟩
    · exact h.ups p e1.1

theorem ls_step {s : State} (h : LsInv s.srv) (op : Op) : LsInv (step shardOf s op).srv := by
  cases op with
  | list u t =>
    simp only [step]
    have key : ∀ p : Nat × UpStore, Lsd s.srv.listed p → Lsd (aset s.srv.listed u t) p := by
      intro p ⟨t0, h2⟩
      by_cases hp : p.1 = u
      · exact ⟨t, by rw [hp]; exact aget_aset_self _ _ _⟩
      · exact ⟨t0, by rw [aget_aset_ne _ _ _ _ hp]; exact h2⟩
    exact ⟨fun p hp => key p (h.ups p hp), fun p hp => key p (h.api p hp)⟩
  | handle u => exact (ls_handle shardOf h u).1
  | gwSchema g u l t => simp only [step, State.setGw]; (repeat' split) <;> exact h
  | hb g now =>
    simp only [step, State.setGw]
    (repeat' split) <;> first | exact h | exact ⟨h.ups, h.api⟩
  | report g u x m used lvl =>
    simp only [step]
    split
    · exact h
    · split
      · exact h
      · split
        · exact h
        · rename_i gw _ _ _ srv' n hsr
          have := (ls_report shardOf h u gw.id x m used lvl).1
          rw [hsr] at this
          exact this
  | tick now => exact (ls_leaderCheck shardOf (ls_cleanupTimeout shardOf h now).1).1
  | unknownPass => exact (ls_cleanupUnknown shardOf h).1
  | elect k b => exact ⟨h.ups, h.api⟩
  | gain k => exact (ls_startLeading shardOf (s := s.srv.elect k true) ⟨h.ups, h.api⟩ k).1
  | lose k => exact (ls_stopLeading shardOf (s := s.srv.elect k false) ⟨h.ups, h.api⟩ k).1
  | net g b => simp only [step, State.setGw]; (repeat' split) <;> exact h
  | crash g => simp only [step, State.setGw]; (repeat' split) <;> exact h
  | ret g id => simp only [step, State.setGw]; (repeat' split) <;> exact h

theorem ls_run : ∀ (ops : List Op) (s : State), LsInv s.srv → LsInv (run shardOf s ops).srv
  | [], _, h => h
  | op :: rest, s, h => by
    simp only [run, List.foldl_cons]
    exact ls_run rest _ (ls_step shardOf h op)

end

/-! ## abstraction onto C18's model (`KG.Model.Reclaim`) and the commuting lemmas for heartbeats and the time-out pass -/

/-- how the loop's numbers are spelled in C18's model: upstream names, instance identities, the schema name; and the
    shard function on names. Instance identities are distinct and non-empty, the shard functions agree. -/
structure Naming where
  un : Nat → Str
  iname : Nat → Str
  sname : Str
  shardOf' : Str → Nat
  iname_inj : ∀ a b, iname a = iname b → a = b
  iname_ne : ∀ a, iname a ≠ []

/-- the `.state` condition of an upstream -/
def stateCond (N : Naming) (u : Nat) (e : UpStore) : Reclaim.Cond :=
  ⟨Reclaim.stateName (N.un u), N.un u, [], none, [⟨N.sname, some e.srv.total, none⟩], [⟨N.sname, some e.srv.recSum, none⟩]⟩

/-- the condition of instance `i` holding quota `q`: labelled with its instance by the second and later reports, with
    the empty string by the first (C18) -/
def recCond (N : Naming) (u : Nat) (e : UpStore) (r : Nat × Int) : Reclaim.Cond :=
  ⟨Reclaim.condName (N.un u) (N.iname r.1), N.un u, N.iname r.1,
   some (if e.labelled.contains r.1 then N.iname r.1 else []), [⟨N.sname, some r.2, none⟩], []⟩

def condsOf (N : Naming) (shardOf : Nat → Nat) (p : Nat × UpStore) : List (Nat × Reclaim.Cond) :=
  (shardOf p.1, stateCond N p.1 p.2) :: p.2.srv.quotas.map (fun r => (shardOf p.1, recCond N p.1 p.2 r))

/-- the limiter server of the loop as a state of C18's model (local store: the API copies are not part of it; global-count
    flow controls do not exist in the allocate loop) -/
def toReclaim (N : Naming) (shardOf : Nat → Nat) (s : Server) : Reclaim.State :=
  { hb := s.hb.map (fun p => (N.iname p.1, p.2))
    leaders := s.leaders
    shards := s.stores
    clusters := []
    conds := s.ups.flatMap (condsOf N shardOf)
    fcs := []
    listed := s.listed.map (fun p => (N.un p.1, [⟨N.sname, some p.2, none⟩]))
    locks := []
    failing := [] }   -- no API fault is injected in the loop

theorem toReclaim_heartbeat (N : Naming) (shardOf : Nat → Nat) (s : Server) (i t : Nat) :
    toReclaim N shardOf (s.heartbeat i t) = Reclaim.heartbeat (toReclaim N shardOf s) (N.iname i) t := by
  simp only [toReclaim, Server.heartbeat, Reclaim.heartbeat, List.map_append, List.map_cons, List.map_nil,
    List.filter_map]
  congr 3
  apply List.filter_congr
  intro p _
  simp only [Function.comp]
  by_cases h : p.1 = i
  · subst h; simp
  · have : N.iname p.1 ≠ N.iname i := fun e => h (N.iname_inj _ _ e)
    have h1 : (p.1 != i) = true := by simpa using h
    have h2 : (N.iname p.1 != N.iname i) = true := by simpa using this
    rw [h1, h2]

theorem dead_map (N : Naming) (shardOf : Nat → Nat) (s : Server) (now : Nat) :
    ((toReclaim N shardOf s).hb.filter (Reclaim.timedOut now)).map (·.1) = (s.dead now).map N.iname := by
  simp only [toReclaim, Server.dead, List.filter_map, List.map_map]
  congr 1

theorem mem_dead_iff (N : Naming) (s : Server) (now i : Nat) :
    ((s.dead now).map N.iname).any (fun d => d == N.iname i) = (s.dead now).contains i := by
  rw [Bool.eq_iff_iff]
  simp only [List.any_eq_true, List.mem_map, beq_iff_eq, List.contains_eq_mem, decide_eq_true_eq]
  constructor
  · rintro ⟨d, ⟨j, hj, rfl⟩, e⟩
    rw [N.iname_inj _ _ e] at hj; exact hj
  · intro h; exact ⟨_, ⟨i, h, rfl⟩, rfl⟩

/-- which conditions of one upstream the time-out pass of C18's model keeps -/
theorem keep_state (N : Naming) (st : Reclaim.State) (dead : List Str) (u : Nat) (e : UpStore) :
    (!(dead.any (fun d => Reclaim.selects d (stateCond N u e)) && Reclaim.deletable N.shardOf' st (stateCond N u e)))
      = true := by
  simp [Reclaim.deletable, stateCond]

theorem selects_rec (N : Naming) (u : Nat) (e : UpStore) (r : Nat × Int) (d : Str) :
    Reclaim.selects d (recCond N u e r) = (e.labelled.contains r.1 && d == N.iname r.1) := by
  simp only [Reclaim.selects, recCond]
  cases hl : e.labelled.contains r.1 with
  | true =>
    simp only [if_true, Bool.true_and]
    rw [Bool.eq_iff_iff]
    simp only [Bool.and_eq_true, beq_iff_eq, Option.some.injEq]
    constructor
    · rintro ⟨h, _⟩; exact h.symm
    · intro h; exact ⟨h.symm, h.symm⟩
  | false =>
    simp only [Bool.false_eq_true, if_false, Bool.false_and]
    rw [Bool.eq_false_iff]
    intro h
    simp only [Bool.and_eq_true, beq_iff_eq, Option.some.injEq] at h
    exact N.iname_ne r.1 (h.2.trans h.1.symm)

theorem toReclaim_persist (N : Naming) (shardOf : Nat → Nat) (s : Server) :
    toReclaim N shardOf s.persist = toReclaim N shardOf s := by
  unfold Server.persist; split <;> rfl

theorem deletable_rec (N : Naming) (shardOf : Nat → Nat) (hsh : ∀ u, N.shardOf' (N.un u) = shardOf u) (s : Server)
    (u : Nat) (e : UpStore) (r : Nat × Int) :
    Reclaim.deletable N.shardOf' (toReclaim N shardOf s) (recCond N u e r) = s.isLeader (shardOf u) := by
  have : (N.iname r.1 != []) = true := by simpa using N.iname_ne r.1
  have hf : (toReclaim N shardOf s).failing = [] := rfl
  simp only [Reclaim.deletable, recCond, hsh, this, Bool.and_true, hf, List.contains_nil, Bool.not_false]
  rfl

/-- a record is picked by C18's time-out pass iff the loop's pass drops it -/
theorem pick_rec (N : Naming) (shardOf : Nat → Nat) (hsh : ∀ u, N.shardOf' (N.un u) = shardOf u) (s : Server) (now : Nat)
    (u : Nat) (e : UpStore) (r : Nat × Int) :
    (((s.dead now).map N.iname).any (fun d => Reclaim.selects d (recCond N u e r)) &&
      Reclaim.deletable N.shardOf' (toReclaim N shardOf s) (recCond N u e r))
    = (s.isLeader (shardOf u) && ((s.dead now).contains r.1 && e.labelled.contains r.1)) := by
  rw [deletable_rec N shardOf hsh]
  have h1 : ((s.dead now).map N.iname).any (fun d => Reclaim.selects d (recCond N u e r))
      = (e.labelled.contains r.1 && (s.dead now).contains r.1) := by
    simp only [selects_rec]
    cases e.labelled.contains r.1 with
    | false => simp
    | true => simp only [Bool.true_and]; exact mem_dead_iff N s now r.1
  rw [h1]
  cases s.isLeader (shardOf u) <;> cases (s.dead now).contains r.1 <;> cases e.labelled.contains r.1 <;> rfl

theorem recCond_drop (N : Naming) (u : Nat) (e : UpStore) (P : Nat → Bool) (r : Nat × Int) (hr : P r.1 = false) :
    recCond N u (e.drop P) r = recCond N u e r := by
  have : (e.drop P).labelled.contains r.1 = e.labelled.contains r.1 := by
    simp only [UpStore.drop, List.contains_eq_mem, List.mem_filter, hr, Bool.not_false, and_true]
  simp only [recCond, this]

/-- the conditions of one upstream after the loop's time-out pass = C18's filter of its conditions before -/
theorem condsOf_cleanup (N : Naming) (shardOf : Nat → Nat) (hsh : ∀ u, N.shardOf' (N.un u) = shardOf u) (s : Server)
    (now : Nat) (p : Nat × UpStore) :
    condsOf N shardOf (p.1, if s.isLeader (shardOf p.1)
        then p.2.drop (fun i => (s.dead now).contains i && p.2.labelled.contains i) else p.2)
    = (condsOf N shardOf p).filter (fun r =>
        !(((s.dead now).map N.iname).any (fun d => Reclaim.selects d r.2) &&
          Reclaim.deletable N.shardOf' (toReclaim N shardOf s) r.2)) := by
  obtain ⟨u, e⟩ := p
  simp only [condsOf, List.filter_cons, keep_state, if_true]
  congr 1
  · congr 1
    split <;> rfl
  rw [List.filter_map]
  cases hl : s.isLeader (shardOf u) with
  | false =>
    simp only [Bool.false_eq_true, if_false]
    have : (e.srv.quotas.filter ((fun r : Nat × Reclaim.Cond =>
        !(((s.dead now).map N.iname).any (fun d => Reclaim.selects d r.2) &&
          Reclaim.deletable N.shardOf' (toReclaim N shardOf s) r.2)) ∘ fun r => (shardOf u, recCond N u e r)))
        = e.srv.quotas := by
      rw [List.filter_eq_self]
      intro r _
      simp only [Function.comp, pick_rec N shardOf hsh, hl, Bool.false_and, Bool.not_false]
    rw [this]
  | true =>
    simp only [if_true]
    have hf : (e.srv.quotas.filter ((fun r : Nat × Reclaim.Cond =>
        !(((s.dead now).map N.iname).any (fun d => Reclaim.selects d r.2) &&
          Reclaim.deletable N.shardOf' (toReclaim N shardOf s) r.2)) ∘ fun r => (shardOf u, recCond N u e r)))
        = e.srv.quotas.filter (fun q => !((s.dead now).contains q.1 && e.labelled.contains q.1)) := by
      apply List.filter_congr
      intro r _
      simp only [Function.comp, pick_rec N shardOf hsh, hl, Bool.true_and]
    rw [hf]
    show List.map _ (e.srv.quotas.filter _) = _
    apply List.map_congr_left
    intro r hr
    have hr' := (List.mem_filter.1 hr).2
    have : ((s.dead now).contains r.1 && e.labelled.contains r.1) = false := by
      cases hx : ((s.dead now).contains r.1 && e.labelled.contains r.1) with
      | false => rfl
      | true => simp only [hx] at hr'; cases hr'
    rw [recCond_drop N u e _ r this]

theorem flatMap_congr' {α β : Type} (l : List α) (f g : α → List β) (h : ∀ x ∈ l, f x = g x) :
    l.flatMap f = l.flatMap g := by
  induction l with
  | nil => rfl
  | cons a rest ih =>
    simp only [List.flatMap_cons]
    rw [h a List.mem_cons_self, ih (fun x hx => h x (List.mem_cons_of_mem _ hx))]

/-- **commuting lemma, time-out pass**: the loop's `cleanupTimeout` IS C18's `cleanupTimeout` under the abstraction -/
theorem toReclaim_cleanupTimeout (N : Naming) (shardOf : Nat → Nat) (hsh : ∀ u, N.shardOf' (N.un u) = shardOf u)
    (s : Server) (now : Nat) :
    toReclaim N shardOf (s.cleanupTimeout shardOf now)
      = Reclaim.cleanupTimeout N.shardOf' (toReclaim N shardOf s) now := by
  unfold Server.cleanupTimeout
  rw [toReclaim_persist]
  unfold Reclaim.cleanupTimeout
  rw [dead_map]
  simp only [toReclaim, List.map_nil]
  congr 1
  · rw [List.filter_map]
    congr 1
  · rw [List.flatMap_map, List.filter_flatMap]
    exact flatMap_congr' _ _ _ (fun p _ => condsOf_cleanup N shardOf hsh s now p)

/-! ### the unknown pass -/

theorem hbHas_map (N : Naming) (shardOf : Nat → Nat) (s : Server) (i : Nat) :
    Reclaim.hbHas (toReclaim N shardOf s) (N.iname i) = s.hbHas i := by
  simp only [Reclaim.hbHas, toReclaim, Server.hbHas, List.any_map]
  congr 1
  funext p
  simp only [Function.comp]
  rw [Bool.eq_iff_iff]
  simp only [beq_iff_eq]
  exact ⟨fun e => N.iname_inj _ _ e, fun e => by rw [e]⟩

theorem hbHas_nil (N : Naming) (shardOf : Nat → Nat) (s : Server) :
    Reclaim.hbHas (toReclaim N shardOf s) [] = false := by
  simp only [Reclaim.hbHas, toReclaim, List.any_map]
  rw [List.any_eq_false]
  intro p _
  simp only [Function.comp, beq_iff_eq]
  exact N.iname_ne p.1

theorem isListed_map (N : Naming) (shardOf : Nat → Nat) (s : Server) (u : Nat) (t : Int)
    (h : aget s.listed u = some t) : Reclaim.isListed (toReclaim N shardOf s) (N.un u) = true := by
  simp only [Reclaim.isListed, toReclaim, List.any_map, List.any_eq_true]
  exact ⟨(u, t), aget_mem h, by simp⟩

/-- every condition of the abstraction belongs to an upstream of `s.ups` -/
theorem cond_upstream (N : Naming) (shardOf : Nat → Nat) (s : Server) (r : Nat × Reclaim.Cond)
    (hr : r ∈ (toReclaim N shardOf s).conds) : ∃ p ∈ s.ups, r.2.upstream = N.un p.1 := by
  simp only [toReclaim, List.mem_flatMap] at hr
  obtain ⟨p, hp, hr⟩ := hr
  refine ⟨p, hp, ?_⟩
  simp only [condsOf, List.mem_cons, List.mem_map] at hr
  rcases hr with rfl | ⟨q, _, rfl⟩ <;> rfl

theorem condsOf_unknown (N : Naming) (shardOf : Nat → Nat) (hsh : ∀ u, N.shardOf' (N.un u) = shardOf u) (s : Server)
    (p : Nat × UpStore) :
    condsOf N shardOf (p.1, if s.isLeader (shardOf p.1) then p.2.drop (fun i => !s.hbHas i) else p.2)
    = (condsOf N shardOf p).filter (fun r =>
        !(Reclaim.unknown (toReclaim N shardOf s) r.2 && Reclaim.deletable N.shardOf' (toReclaim N shardOf s) r.2)) := by
  obtain ⟨u, e⟩ := p
  have hst : (!(Reclaim.unknown (toReclaim N shardOf s) (stateCond N u e) &&
      Reclaim.deletable N.shardOf' (toReclaim N shardOf s) (stateCond N u e))) = true := by
    simp [Reclaim.deletable, stateCond]
  have hpick : ∀ r : Nat × Int, (Reclaim.unknown (toReclaim N shardOf s) (recCond N u e r) &&
      Reclaim.deletable N.shardOf' (toReclaim N shardOf s) (recCond N u e r))
      = (s.isLeader (shardOf u) && !s.hbHas r.1) := by
    intro r
    rw [deletable_rec N shardOf hsh]
    have : Reclaim.unknown (toReclaim N shardOf s) (recCond N u e r) = !s.hbHas r.1 := by
      simp only [Reclaim.unknown, recCond, hbHas_map]
    rw [this, Bool.and_comm]
  simp only [condsOf, List.filter_cons, hst, if_true]
  congr 1
  · congr 1
    split <;> rfl
  rw [List.filter_map]
  cases hl : s.isLeader (shardOf u) with
  | false =>
    simp only [Bool.false_eq_true, if_false]
    have : (e.srv.quotas.filter ((fun r : Nat × Reclaim.Cond =>
        !(Reclaim.unknown (toReclaim N shardOf s) r.2 && Reclaim.deletable N.shardOf' (toReclaim N shardOf s) r.2)) ∘
          fun r => (shardOf u, recCond N u e r))) = e.srv.quotas := by
      rw [List.filter_eq_self]
      intro r _
      simp only [Function.comp, hpick, hl, Bool.false_and, Bool.not_false]
    rw [this]
  | true =>
    simp only [if_true]
    have hf : (e.srv.quotas.filter ((fun r : Nat × Reclaim.Cond =>
        !(Reclaim.unknown (toReclaim N shardOf s) r.2 && Reclaim.deletable N.shardOf' (toReclaim N shardOf s) r.2)) ∘
          fun r => (shardOf u, recCond N u e r)))
        = e.srv.quotas.filter (fun q => !(!s.hbHas q.1)) := by
      apply List.filter_congr
      intro r _
      simp only [Function.comp, hpick, hl, Bool.true_and]
    rw [hf]
    show List.map _ (e.srv.quotas.filter _) = _
    apply List.map_congr_left
    intro r hr
    have hr' := (List.mem_filter.1 hr).2
    have : (!s.hbHas r.1) = false := by
      cases hx : (!s.hbHas r.1) with
      | false => rfl
      | true => simp only [hx] at hr'; cases hr'
    rw [recCond_drop N u e _ r this]

/-- **commuting lemma, unknown pass**: when every recorded upstream is in the lister (true in every reachable state:
    `loop_listed`), the loop's `cleanupUnknown` IS C18's `cleanupUnknown` under the abstraction -/
theorem toReclaim_cleanupUnknown (N : Naming) (shardOf : Nat → Nat) (hsh : ∀ u, N.shardOf' (N.un u) = shardOf u)
    (s : Server) (hlisted : ∀ p ∈ s.ups, ∃ t, aget s.listed p.1 = some t) :
    toReclaim N shardOf (s.cleanupUnknown shardOf) = Reclaim.cleanupUnknown N.shardOf' (toReclaim N shardOf s) := by
  -- no upstream is deleted as a whole: every condition's upstream is listed
  have hnone : ((toReclaim N shardOf s).conds.filter fun r =>
      Reclaim.unknown (toReclaim N shardOf s) r.2 && !Reclaim.isListed (toReclaim N shardOf s) r.2.upstream) = [] := by
    rw [List.filter_eq_nil_iff]
    intro r hr
    obtain ⟨p, hp, hu⟩ := cond_upstream N shardOf s r hr
    obtain ⟨t, ht⟩ := hlisted p hp
    rw [hu, isListed_map N shardOf s p.1 t ht]
    simp
  unfold Server.cleanupUnknown
  rw [toReclaim_persist]
  unfold Reclaim.cleanupUnknown
  have htrue : ∀ {α : Type} (l : List α), l.filter (fun _ => true) = l :=
    fun l => List.filter_eq_self.2 (fun _ _ => rfl)
  simp only [hnone, List.map_nil, List.contains_nil, Bool.not_false, Bool.false_and, htrue]
  have hc : (toReclaim N shardOf s).conds.filter (fun r =>
      !(Reclaim.unknown (toReclaim N shardOf s) r.2 && Reclaim.deletable N.shardOf' (toReclaim N shardOf s) r.2))
      = (s.ups.map (fun p => (p.1, if s.isLeader (shardOf p.1) then p.2.drop (fun i => !s.hbHas i) else p.2))).flatMap
          (condsOf N shardOf) := by
    rw [List.flatMap_map]
    show List.filter _ (s.ups.flatMap (condsOf N shardOf)) = _
    rw [List.filter_flatMap]
    exact (flatMap_congr' _ _ _ (fun p _ => condsOf_unknown N shardOf hsh s p)).symm
  rw [hc]
  rfl

end KG.Lemmas.LimiterLoop
