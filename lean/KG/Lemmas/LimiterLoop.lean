import KG.Spec.LimiterLoop
import KG.Props.C07
import KG.Props.C09
/-!
# Lemmas for the closed loop (`KG.Model.LimiterLoop`)

* association lists;
* the recorded-quota invariant `SInv` of one upstream's store (C07's history invariant relative to the largest limit
  in force since the record began) and its preservation by every change of the store (`Alloc.step`s and drops);
* the invariant of the limiter server (`SrvInv`) through hand-overs, reloads, clean-ups, reports;
* the gateway side: what C09's `step` does on the three ops of the loop (`GwOK`), and the projection of a loop
  history onto C09 op lists (`GwReach`) by which every C09 theorem lifts to the loop;
* the loop invariant `LInv`, preserved by every `step`.
-/
namespace KG.Lemmas.LimiterLoop
open KG KG.Model KG.Model.LimiterLoop KG.Spec.LimiterLoop
open KG.Model.Alloc (sumQ onesQ lookupD setQuota)

/-! ## association lists -/

theorem aget_mem {α : Type} {l : List (Nat × α)} {k : Nat} {v : α} (h : aget l k = some v) : (k, v) ∈ l := by
  induction l with
  | nil => simp [aget] at h
  | cons p rest ih =>
    obtain ⟨j, w⟩ := p
    unfold aget at h
    by_cases hj : j = k
    · simp only [hj, if_true, Option.some.injEq] at h
      subst hj; subst h; exact List.mem_cons_self
    · simp only [hj, if_false] at h
      exact List.mem_cons_of_mem _ (ih h)

theorem mem_adel {α : Type} {l : List (Nat × α)} {k : Nat} {p : Nat × α} (h : p ∈ adel l k) : p ∈ l ∧ p.1 ≠ k := by
  unfold adel at h
  have := List.mem_filter.1 h
  exact ⟨this.1, by simpa using this.2⟩

theorem mem_aset {α : Type} {l : List (Nat × α)} {k : Nat} {v : α} {p : Nat × α} (h : p ∈ aset l k v) :
    p = (k, v) ∨ (p ∈ l ∧ p.1 ≠ k) := by
  unfold aset at h
  rcases List.mem_cons.1 h with e | e
  · exact Or.inl e
  · exact Or.inr (mem_adel e)

theorem aget_adel_ne {α : Type} (l : List (Nat × α)) (k j : Nat) (h : j ≠ k) : aget (adel l k) j = aget l j := by
  induction l with
  | nil => rfl
  | cons p rest ih =>
    obtain ⟨i, w⟩ := p
    unfold adel at ih ⊢
    by_cases hi : i = k
    · subst hi
      have : i ≠ j := fun e => h e.symm
      simp only [List.filter_cons, bne_self_eq_false, Bool.false_eq_true, if_false, ih]
      simp [aget, this]
    · have hb : ((i, w).1 != k) = true := by simpa using hi
      simp only [List.filter_cons, hb, if_true]
      unfold aget
      by_cases hij : i = j
      · simp [hij]
      · simp only [hij, if_false]; exact ih

theorem aget_adel_self {α : Type} (l : List (Nat × α)) (k : Nat) : aget (adel l k) k = none := by
  induction l with
  | nil => rfl
  | cons p rest ih =>
    obtain ⟨i, w⟩ := p
    unfold adel at ih ⊢
    by_cases hi : i = k
    · subst hi
      simp only [List.filter_cons, bne_self_eq_false, Bool.false_eq_true, if_false, ih]
    · have hb : ((i, w).1 != k) = true := by simpa using hi
      simp only [List.filter_cons, hb, if_true]
      unfold aget
      simp only [hi, if_false]; exact ih

theorem aget_aset_self {α : Type} (l : List (Nat × α)) (k : Nat) (v : α) : aget (aset l k v) k = some v := by
  simp [aset, aget]

theorem aget_aset_ne {α : Type} (l : List (Nat × α)) (k j : Nat) (v : α) (h : j ≠ k) :
    aget (aset l k v) j = aget l j := by
  have : k ≠ j := fun e => h e.symm
  simp only [aset, aget, this, if_false]
  exact aget_adel_ne l k j h

theorem aget_map {α : Type} (l : List (Nat × α)) (f : Nat → α → α) (k : Nat) :
    aget (l.map fun p => (p.1, f p.1 p.2)) k = (aget l k).map (f k) := by
  induction l with
  | nil => rfl
  | cons p rest ih =>
    obtain ⟨i, w⟩ := p
    simp only [List.map_cons, aget]
    by_cases hi : i = k
    · subst hi; simp
    · simp only [hi, if_false]; exact ih

/-! ## the recorded-quota invariant of one upstream's store -/

/-- C07's history invariant relative to `hi`, the largest limit in force since the record began: every recorded quota
    is at least 1, their sum is within the recorded sum, and exceeds `hi` by at most the number of quotas equal to 1.
    With `hi = total` (the limit was never lowered) this is `KG.Props.C07.Inv`. -/
structure SInv (e : UpStore) : Prop where
  limit : 1 ≤ e.srv.total
  hi : e.srv.total ≤ e.hi
  ge_one : ∀ p ∈ e.srv.quotas, 1 ≤ p.2
  recorded : sumQ e.srv.quotas ≤ e.srv.recSum
  slack : sumQ e.srv.quotas - onesQ e.srv.quotas ≤ e.hi

theorem sinv_c07 {e : UpStore} (h : SInv e) (hh : e.hi = e.srv.total) : KG.Props.C07.Inv e.srv :=
  ⟨h.limit, h.ge_one, by have := h.slack; omega, h.recorded⟩

theorem c07_sinv {e : UpStore} (h : KG.Props.C07.Inv e.srv) (hh : e.hi = e.srv.total) : SInv e :=
  ⟨h.limit, by omega, h.ge_one, h.recorded, by have := h.bound; omega⟩

theorem sinv_fresh {t : Int} (ht : 1 ≤ t) : SInv (UpStore.fresh t) :=
  ⟨ht, Int.le_refl _, by simp [UpStore.fresh], by simp [UpStore.fresh, sumQ], by simp [UpStore.fresh, sumQ, onesQ]; omega⟩

theorem sinv_setLimit {e : UpStore} (h : SInv e) {t : Int} (ht : 1 ≤ t) : SInv (e.setLimit t) := by
  have h2 := h.slack
  refine ⟨ht, ?_, h.ge_one, h.recorded, ?_⟩
  · simp only [UpStore.setLimit, Alloc.step]; split <;> omega
  · simp only [UpStore.setLimit, Alloc.step]; split <;> omega

theorem sinv_report {e : UpStore} (h : SInv e) (i : Nat) (x m : Rat) (used lvl : Int) :
    SInv (e.report i x m used lvl) := by
  have hq1 := KG.Props.C07.c07_min_one x m (lookupD e.srv.quotas i) (e.srv.total - e.srv.recSum) e.srv.total
  have ht := KG.Props.C07.c07_tail x m (lookupD e.srv.quotas i) (e.srv.total - e.srv.recSum) e.srv.total
  have hc := KG.Props.C07.lookupD_nonneg e.srv.quotas i h.ge_one
  have hle := KG.Props.C07.one?_le_ones e.srv.quotas i
  have hon := KG.Props.C07.onesQ_nonneg e.srv.quotas
  have hs := h.slack
  have hr := h.recorded
  have hh := h.hi
  refine ⟨h.limit, h.hi, ?_, ?_, ?_⟩
  · simp only [UpStore.report, Alloc.step, KG.Props.C07.answer_eq]
    exact KG.Props.C07.setQuota_ge_one _ _ _ h.ge_one hq1
  · simp only [UpStore.report, Alloc.step]; omega
  · simp only [UpStore.report, Alloc.step, KG.Props.C07.answer_eq, KG.Props.C07.setQuota_sum,
      KG.Props.C07.setQuota_ones]
    generalize KG.Props.C07.next x m (lookupD e.srv.quotas i) (e.srv.total - e.srv.recSum) e.srv.total = n at *
    rcases KG.Props.C07.one?_spec e.srv.quotas i with ⟨ho, hl1⟩ | ho
    · rcases ht with hn | ⟨hn, _⟩
      · simp only [KG.Props.C07.isOne, hn, if_true, ho, hl1]; omega
      · unfold KG.Props.C07.isOne; split <;> omega
    · rcases ht with hn | ⟨hn, _⟩
      · simp only [KG.Props.C07.isOne, hn, if_true, ho]; omega
      · unfold KG.Props.C07.isOne; split <;> omega

theorem sinv_drop {e : UpStore} (h : SInv e) (p : Nat → Bool) : SInv (e.drop p) := by
  have h1 := KG.Props.C07.filter_slack e.srv.quotas (fun q => !p q.1) h.ge_one
  have h2 := KG.Props.C07.filter_sum_le e.srv.quotas (fun q => !p q.1) h.ge_one
  have hs := h.slack
  have hr := h.recorded
  refine ⟨h.limit, h.hi, ?_, ?_, ?_⟩
  · intro q hq; exact h.ge_one q (List.mem_filter.1 hq).1
  · simp only [UpStore.drop]; omega
  · simp only [UpStore.drop]; omega

/-! ## the limiter server -/

structure SrvInv (s : Server) : Prop where
  ups : ∀ p ∈ s.ups, SInv p.2
  api : ∀ p ∈ s.api, SInv p.2
  listed : ∀ p ∈ s.listed, 1 ≤ p.2

theorem foldl_inv {σ β : Type} (P : σ → Prop) (f : σ → β → σ) (hf : ∀ s b, P s → P (f s b)) :
    ∀ (l : List β) (s : σ), P s → P (l.foldl f s)
  | [], _, h => h
  | b :: rest, s, h => foldl_inv P f hf rest (f s b) (hf s b h)

theorem srvInv_persist {s : Server} (h : SrvInv s) : SrvInv s.persist := by
  unfold Server.persist
  split
  · refine ⟨h.ups, ?_, h.listed⟩
    intro p hp
    rcases List.mem_append.1 hp with e | e
    · exact h.ups p e
    · exact h.api p (List.mem_filter.1 e).1
  · exact h

section
variable (shardOf : Nat → Nat)

theorem srvInv_handle {s : Server} (h : SrvInv s) (u : Nat) : SrvInv (s.handle shardOf u) := by
  unfold Server.handle
  simp only
  split
  · exact h
  · split
    · exact h
    · split
      · exact h
      · rename_i t ht
        have ht1 : 1 ≤ t := h.listed _ (aget_mem ht)
        apply srvInv_persist
        refine ⟨?_, h.api, h.listed⟩
        intro p hp
        rcases mem_aset hp with e | e
        · subst e
          simp only
          split
          · rename_i e0 he0
            exact sinv_setLimit (h.ups _ (aget_mem he0)) ht1
          · exact sinv_fresh ht1
        · exact h.ups p e.1

theorem srvInv_startLeading {s : Server} (h : SrvInv s) (k : Nat) : SrvInv (s.startLeading shardOf k) := by
  unfold Server.startLeading
  split
  · exact h
  · simp only
    apply foldl_inv SrvInv _ (fun st p hst => srvInv_handle shardOf hst p.1)
    refine ⟨?_, h.api, h.listed⟩
    intro p hp
    rcases List.mem_append.1 hp with e | e
    · split at e
      · exact h.api p (List.mem_filter.1 e).1
      · simp at e
    · exact h.ups p (List.mem_filter.1 e).1

theorem srvInv_stopLeading {s : Server} (h : SrvInv s) (k : Nat) : SrvInv (s.stopLeading shardOf k) :=
  ⟨fun p hp => h.ups p (List.mem_filter.1 hp).1, h.api, h.listed⟩

theorem srvInv_leaderCheck {s : Server} (h : SrvInv s) : SrvInv (s.leaderCheck shardOf) := by
  unfold Server.leaderCheck
  simp only
  apply foldl_inv SrvInv _ (fun st k hst => srvInv_stopLeading shardOf hst k)
  exact foldl_inv SrvInv _ (fun st k hst => srvInv_startLeading shardOf hst k) _ _ h

theorem srvInv_elect {s : Server} (h : SrvInv s) (k : Nat) (b : Bool) : SrvInv (s.elect k b) :=
  ⟨h.ups, h.api, h.listed⟩

theorem srvInv_heartbeat {s : Server} (h : SrvInv s) (i t : Nat) : SrvInv (s.heartbeat i t) :=
  ⟨h.ups, h.api, h.listed⟩

theorem srvInv_mapUps {s : Server} (h : SrvInv s) (hb : List (Nat × Nat)) (f : Nat × UpStore → UpStore)
    (hf : ∀ p, SInv p.2 → SInv (f p)) :
    SrvInv ({ s with hb := hb, ups := s.ups.map (fun p => (p.1, f p)) } : Server) := by
  refine ⟨?_, h.api, h.listed⟩
  intro p hp
  obtain ⟨q, hq, rfl⟩ := List.mem_map.1 hp
  exact hf q (h.ups q hq)

theorem srvInv_cleanupTimeout {s : Server} (h : SrvInv s) (now : Nat) : SrvInv (s.cleanupTimeout shardOf now) := by
  unfold Server.cleanupTimeout
  apply srvInv_persist
  apply srvInv_mapUps h
  intro p hp
  split
  · exact sinv_drop hp _
  · exact hp

theorem srvInv_cleanupUnknown {s : Server} (h : SrvInv s) : SrvInv (s.cleanupUnknown shardOf) := by
  unfold Server.cleanupUnknown
  apply srvInv_persist
  have := srvInv_mapUps h s.hb (fun p => if s.isLeader (shardOf p.1) then p.2.drop (fun i => !s.hbHas i) else p.2)
    (by intro p hp; show SInv (if _ then _ else _); split
        · exact sinv_drop hp _
        · exact hp)
  exact this

theorem serving_mem {s : Server} {u : Nat} {e : UpStore} (h : s.serving shardOf u = some e) : (u, e) ∈ s.ups := by
  unfold Server.serving at h
  split at h
  · exact aget_mem h
  · cases h

theorem srvInv_report {s : Server} (h : SrvInv s) (u i : Nat) (x m : Rat) (used lvl : Int) :
    SrvInv (s.report shardOf u i x m used lvl).1 := by
  unfold Server.report
  split
  · exact h
  · rename_i e he
    simp only
    apply srvInv_persist
    refine ⟨?_, h.api, h.listed⟩
    intro p hp
    rcases mem_aset hp with e1 | e1
    · subst e1; exact sinv_report (h.ups _ (serving_mem shardOf he)) _ _ _ _ _
    · exact h.ups p e1.1

end

/-! ## the gateway side: C09's `step` on the three ops of the loop -/

open RemoteLimiter (maxInt32 bound toU32)

theorem toU32_id' {x : Int} (h0 : 0 ≤ x) (h1 : x ≤ maxInt32) : toU32 x = x := by
  unfold toU32; unfold maxInt32 at h1; omega

theorem bound_range' (v g : Int) (hg : 0 ≤ g) : 0 ≤ bound v g ∧ bound v g ≤ g := by
  simp only [bound]; split <;> split <;> omega

theorem bound_le_self (v g : Int) (hv : 0 ≤ v) : bound v g ≤ v := by
  simp only [bound]; split <;> split <;> omega

/-- the remote wrapper of an allocate schema: the answered item, the bounded item, the limiter built from it -/
def remShape (q b : Int) : RemoteLimiter.Remote :=
  ⟨some (mkItem q), some (mkItem b), some (.empty (.mi b))⟩

/-- what the `flowControlCache` of a loop gateway looks like: the valid schema, the local limiter enforcing exactly the
    local limit, and — once an answer was applied — a remote limiter that is the answer bounded to `[0, tv]` for a view
    `tv` of the global limit the gateway had when it applied it -/
def CacheOK (c : RemoteLimiter.Cache) : Prop :=
  ∃ l t, 0 ≤ l ∧ l ≤ t ∧ t ≤ maxInt32 ∧ c.loc = ⟨mkSchema l t, some (.mi l)⟩ ∧
    (c.remote = none ∨ ∃ q tv, 0 ≤ tv ∧ tv ≤ maxInt32 ∧ c.remote = some (remShape q (bound q tv)))

def GwOK (st : RemoteLimiter.State) : Prop := ∀ c, st.cache = some c → CacheOK c

/-- the remote limiter is the held quota bounded by the CURRENT view ("the gateway applied the last answer") -/
def FreshOK (st : RemoteLimiter.State) : Prop :=
  ∀ c, st.cache = some c → ∃ l t q, c.loc.config = mkSchema l t ∧ c.remote = some (remShape q (bound q t))

theorem gwOK_init (n : Nat) (hb : Option RemoteLimiter.HB) : GwOK { gwInit n with hb := hb } := by
  intro c hc; simp [gwInit] at hc

theorem newLim_mk {l t : Int} (h0 : 0 ≤ l) (h1 : l ≤ maxInt32) :
    RemoteLimiter.newLim (mkSchema l t) = .ok (.mi l) := by
  simp [RemoteLimiter.newLim, RemoteLimiter.guessType, mkSchema, toU32_id' h0 h1]

theorem mkSchema_inj {l t l' t' : Int} (h : mkSchema l t = mkSchema l' t') : l = l' ∧ t = t' := by
  simp [mkSchema] at h; exact h

theorem mkItem_inj {a b : Int} (h : mkItem a = mkItem b) : a = b := by
  simp [mkItem] at h; exact h

theorem resize_mi' (a b : Int) : ((RemoteLimiter.Lim.mi a).resize b 0).1 = .mi b := by
  simp only [RemoteLimiter.Lim.resize]; split
  · rfl
  · rename_i h; simp only [ne_eq, Decidable.not_not] at h; rw [h]

theorem localSync_mk {l0 t0 l t : Int} (hs : mkSchema l t ≠ mkSchema l0 t0) (h0 : 0 ≤ l) (hl : l ≤ maxInt32) :
    RemoteLimiter.localSync ⟨mkSchema l0 t0, some (.mi l0)⟩ (mkSchema l t)
      = .ok (⟨mkSchema l t, some (.mi l)⟩, false) := by
  simp only [RemoteLimiter.localSync, hs, if_false]
  simp only [RemoteLimiter.Lim.kind, RemoteLimiter.guessType, mkSchema, RemoteLimiter.enableGlobal]
  simp [toU32_id' h0 hl, resize_mi']

theorem localSync_same (loc : RemoteLimiter.Local) : RemoteLimiter.localSync loc loc.config = .ok (loc, false) := by
  simp [RemoteLimiter.localSync]

theorem bound_mk (l t n : Int) : RemoteLimiter.boundByGlobalLimit (mkSchema l t) (mkItem n) = mkItem (bound n t) := by
  simp [RemoteLimiter.boundByGlobalLimit, mkItem, mkSchema, RemoteLimiter.Schema.globalMax]

theorem newGFC_mk {b : Int} (h0 : 0 ≤ b) (h1 : b ≤ maxInt32) :
    RemoteLimiter.newGFC (mkItem b) = .ok (.empty (.mi b)) := by
  simp [RemoteLimiter.newGFC, RemoteLimiter.toSchema, mkItem, RemoteLimiter.newLim, RemoteLimiter.guessType,
    RemoteLimiter.newCounter, toU32_id' h0 h1, bind, Except.bind]

/-- `remoteWrapper.Sync` of the first answer: the limiter is built from the answer bounded to `[0, t]` -/
theorem remoteSync_init (l t n : Int) (h0 : 0 ≤ t) (h1 : t ≤ maxInt32) :
    RemoteLimiter.remoteSync {} (mkSchema l t) (mkItem n) = .ok (remShape n (bound n t)) := by
  have hb := bound_range' n t h0
  simp only [RemoteLimiter.remoteSync, bound_mk]
  simp [newGFC_mk hb.1 (by omega : bound n t ≤ maxInt32), remShape, bind, Except.bind]
  rfl

/-- `remoteWrapper.Sync` of a later answer: whatever it held, it now holds the answer bounded to `[0, t]` -/
theorem remoteSync_shape (l t n q b : Int) (h0 : 0 ≤ t) (h1 : t ≤ maxInt32) :
    RemoteLimiter.remoteSync (remShape q b) (mkSchema l t) (mkItem n) = .ok (remShape n (bound n t)) := by
  have hb := bound_range' n t h0
  have hb1 : bound n t ≤ maxInt32 := by omega
  simp only [RemoteLimiter.remoteSync, bound_mk]
  by_cases hc : some (mkItem n) = (remShape q b).remoteConfig ∧ some (mkItem (bound n t)) = (remShape q b).appliedConfig
  · rw [if_pos hc]
    obtain ⟨c1, c2⟩ := hc
    simp only [remShape, Option.some.injEq] at c1 c2
    have e1 := mkItem_inj c1
    have e2 := mkItem_inj c2
    subst e1; subst e2; rfl
  · rw [if_neg hc]
    simp [remShape, RemoteLimiter.GFC.inner, RemoteLimiter.Lim.kind, RemoteLimiter.itemType, mkItem,
      RemoteLimiter.Remote.strategy, RemoteLimiter.GFC.resize, toU32_id' hb.1 hb1]

/-- `upstreamLimiter.Sync` with a valid allocate schema: never panics, the local limiter enforces exactly the new local
    limit, the remote wrapper is kept as it is -/
theorem step_schema {st : RemoteLimiter.State} (h : GwOK st) {l t : Int} (h0 : 0 ≤ l) (h1 : l ≤ t) (h2 : t ≤ maxInt32) :
    ∃ c', RemoteLimiter.step st (.schema (mkSchema l t)) = .ok { st with cache := some c' } ∧
      c'.loc = ⟨mkSchema l t, some (.mi l)⟩ ∧ c'.remote = (st.cache.bind (·.remote)) := by
  have hl : l ≤ maxInt32 := by omega
  cases hc : st.cache with
  | none =>
    refine ⟨{ loc := { config := mkSchema l t, fc := some (.mi l) }, remote := none }, ?_, rfl, rfl⟩
    simp only [RemoteLimiter.step, hc, newLim_mk h0 hl]
  | some c =>
    obtain ⟨l0, t0, a0, a1, a2, hloc, hrem⟩ := h c hc
    obtain ⟨loc, rem⟩ := c
    simp only at hloc
    subst hloc
    refine ⟨{ loc := { config := mkSchema l t, fc := some (.mi l) }, remote := rem }, ?_, rfl, rfl⟩
    by_cases hs : mkSchema l t = mkSchema l0 t0
    · obtain ⟨e1, e2⟩ := mkSchema_inj hs
      subst e1; subst e2
      have := localSync_same ⟨mkSchema l t, some (.mi l)⟩
      simp only at this
      simp only [RemoteLimiter.step, hc, this]
      simp
    · simp only [RemoteLimiter.step, hc, localSync_mk hs h0 hl]
      simp

theorem gwOK_schema {st : RemoteLimiter.State} (h : GwOK st) {l t : Int} (h0 : 0 ≤ l) (h1 : l ≤ t) (h2 : t ≤ maxInt32)
    {c' : RemoteLimiter.Cache} (hloc : c'.loc = ⟨mkSchema l t, some (.mi l)⟩)
    (hrem : c'.remote = (st.cache.bind (·.remote))) : GwOK { st with cache := some c' } := by
  intro c hc
  simp only [Option.some.injEq] at hc
  subst hc
  refine ⟨l, t, h0, h1, h2, hloc, ?_⟩
  rw [hrem]
  cases hs : st.cache with
  | none => exact Or.inl rfl
  | some c0 =>
    obtain ⟨_, _, _, _, _, _, hr⟩ := h c0 hs
    exact hr

/-- `reconcile.updateFlowControls` with the answered quota `n`: never panics; a gateway with a schema now holds `n`
    and enforces `n` bounded to `[0, its view]` through the remote limiter -/
theorem step_answer {st : RemoteLimiter.State} (h : GwOK st) (n : Int) :
    (st.cache = none ∧ RemoteLimiter.step st (.answer true (mkItem n)) = .ok st) ∨
    (∃ c l t, st.cache = some c ∧ c.loc = ⟨mkSchema l t, some (.mi l)⟩ ∧ 0 ≤ t ∧ t ≤ maxInt32 ∧
      RemoteLimiter.step st (.answer true (mkItem n))
        = .ok { st with cache := some { c with remote := some (remShape n (bound n t)) } }) := by
  cases hc : st.cache with
  | none => left; exact ⟨rfl, by simp only [RemoteLimiter.step, hc]⟩
  | some c =>
    right
    obtain ⟨l, t, a0, a1, a2, hloc, hrem⟩ := h c hc
    refine ⟨c, l, t, rfl, hloc, by omega, a2, ?_⟩
    have hcfg : c.loc.config = mkSchema l t := by rw [hloc]
    have he : RemoteLimiter.enableGlobal (mkSchema l t) = true := by simp [RemoteLimiter.enableGlobal, mkSchema]
    have hty : RemoteLimiter.itemType (mkItem n) = RemoteLimiter.guessType (mkSchema l t) := by
      simp [RemoteLimiter.itemType, mkItem, RemoteLimiter.guessType, mkSchema]
    have hsync : RemoteLimiter.remoteSync (c.remote.getD {}) (mkSchema l t) (mkItem n)
        = .ok (remShape n (bound n t)) := by
      rcases hrem with hr | ⟨q, tv, _, _, hr⟩
      · rw [hr]; exact remoteSync_init l t n (by omega) a2
      · rw [hr]; exact remoteSync_shape l t n q _ (by omega) a2
    simp only [RemoteLimiter.step, hc, hcfg, he, hty, RemoteLimiter.cacheRemoteSync, hsync]
    simp [bind, Except.bind]
    rfl

theorem gwOK_answer {st : RemoteLimiter.State} (h : GwOK st) {c : RemoteLimiter.Cache} {l t n : Int}
    (hc : st.cache = some c) (hloc : c.loc = ⟨mkSchema l t, some (.mi l)⟩) (h0 : 0 ≤ t) (h1 : t ≤ maxInt32) :
    GwOK { st with cache := some { c with remote := some (remShape n (bound n t)) } } ∧
    FreshOK { st with cache := some { c with remote := some (remShape n (bound n t)) } } := by
  obtain ⟨l0, t0, a0, a1, a2, hloc0, _⟩ := h c hc
  constructor
  · intro c' hc'
    simp only [Option.some.injEq] at hc'
    subst hc'
    exact ⟨l0, t0, a0, a1, a2, hloc0, Or.inr ⟨n, t, h0, h1, rfl⟩⟩
  · intro c' hc'
    simp only [Option.some.injEq] at hc'
    subst hc'
    exact ⟨l, t, n, by simp [hloc], rfl⟩

/-- one heartbeat outcome: only the readiness status moves -/
theorem step_hb (st : RemoteLimiter.State) (ok : Bool) (now : Int) :
    RemoteLimiter.step st (.hb ok now false)
      = .ok { st with hb := some (RemoteLimiter.hbStep (st.hb.getD {}) ok now) } := by
  simp [RemoteLimiter.step]

end KG.Lemmas.LimiterLoop
