import KG.Model.MaxInflight
/-! Invariant of the lock-free counter, preserved by every atomic step (DESIGN.md Appendix A). -/
namespace KG.Lemmas.MaxInflight
open KG.Model.MaxInflight

theorem setPc_same (s : Sys) (t : Tid) (p : PC) : setPc s t p t = p := by simp [setPc]
theorem setPc_other (s : Sys) (t u : Tid) (p : PC) (h : u ≠ t) : setPc s t p u = s.pc u := by
  simp [setPc, h]

/-- The invariant. `cnt` is "the counter is exactly the admitted-and-unfinished requests plus the
    overshoots about to be rolled back"; `noRel2`, `noCas`, `acqNonneg` say that the clamp-to-zero store
    and the CAS branch are unreachable for well-formed clients. -/
structure SInv (s : Sys) : Prop where
  cnt  : s.count = s.holders.length + s.pending.length
  nh   : s.holders.Nodup
  np   : s.pending.Nodup
  hold : ∀ t, t ∈ s.holders ↔ (s.pc t = .holding ∨ s.pc t = .rel1)
  pend : ∀ t, t ∈ s.pending ↔ s.pc t = .rollback
  noRel2 : ∀ t, s.pc t ≠ .rel2
  acqNonneg : ∀ t c0, s.pc t = .acq1 c0 → 0 ≤ c0
  noCas : ∀ t c0 m, s.pc t ≠ .cas c0 m

theorem inv_init (m : Nat) : SInv (init m) := by
  refine ⟨by simp [init], by simp [init], by simp [init], ?_, ?_, ?_, ?_, ?_⟩ <;> simp [init]

theorem count_nonneg {s : Sys} (hi : SInv s) : 0 ≤ s.count := by
  have := hi.cnt; omega

/-- per-field case split on `u = t` -/
macro "pcsplit " u:ident t:ident : tactic =>
  `(tactic| (by_cases hut : $u = $t
             · subst hut; simp_all [setPc_same]
             · simp_all [setPc_other]))

theorem inv_stepThread {s : Sys} (hi : SInv s) (t : Tid) : SInv (stepThread s t).1 := by
  have hc := hi.cnt
  unfold stepThread
  split
  · -- idle: load count
    rename_i hpc
    have hnh : t ∉ s.holders := by rw [hi.hold]; simp [hpc]
    have hnp : t ∉ s.pending := by rw [hi.pend]; simp [hpc]
    refine ⟨hi.cnt, hi.nh, hi.np, ?_, ?_, ?_, ?_, ?_⟩
    · intro u; have := hi.hold u; pcsplit u t
    · intro u; have := hi.pend u; pcsplit u t
    · intro u; have := hi.noRel2 u; pcsplit u t
    · intro u c0; have := hi.acqNonneg u c0
      by_cases hut : u = t
      · subst hut; simp only [setPc_same]; intro h; injection h with h; omega
      · simp_all [setPc_other]
    · intro u c0 m; have := hi.noCas u c0 m; pcsplit u t
  · -- acq1: load max
    rename_i c0 hpc
    have h0 := hi.acqNonneg t c0 hpc
    have hnh : t ∉ s.holders := by rw [hi.hold]; simp [hpc]
    have hnp : t ∉ s.pending := by rw [hi.pend]; simp [hpc]
    have hlt : ¬ c0 < 0 := by omega
    simp only [hlt, if_false]
    split
    · refine ⟨hi.cnt, hi.nh, hi.np, ?_, ?_, ?_, ?_, ?_⟩
      · intro u; have := hi.hold u; pcsplit u t
      · intro u; have := hi.pend u; pcsplit u t
      · intro u; have := hi.noRel2 u; pcsplit u t
      · intro u c1; have := hi.acqNonneg u c1; pcsplit u t
      · intro u c1 m; have := hi.noCas u c1 m; pcsplit u t
    · refine ⟨hi.cnt, hi.nh, hi.np, ?_, ?_, ?_, ?_, ?_⟩
      · intro u; have := hi.hold u; pcsplit u t
      · intro u; have := hi.pend u; pcsplit u t
      · intro u; have := hi.noRel2 u; pcsplit u t
      · intro u c1; have := hi.acqNonneg u c1; pcsplit u t
      · intro u c1 m; have := hi.noCas u c1 m; pcsplit u t
  · -- cas: unreachable
    rename_i c0 m hpc
    exact absurd hpc (hi.noCas t c0 m)
  · -- adding
    rename_i m hpc
    have hnh : t ∉ s.holders := by rw [hi.hold]; simp [hpc]
    have hnp : t ∉ s.pending := by rw [hi.pend]; simp [hpc]
    split
    · refine ⟨?_, hi.nh, ?_, ?_, ?_, ?_, ?_, ?_⟩
      · simp only [List.length_cons]; omega
      · exact List.nodup_cons.2 ⟨hnp, hi.np⟩
      · intro u; have := hi.hold u; pcsplit u t
      · intro u; have := hi.pend u
        by_cases hut : u = t
        · subst hut; simp [setPc_same]
        · simp_all [setPc_other]
      · intro u; have := hi.noRel2 u; pcsplit u t
      · intro u c1; have := hi.acqNonneg u c1; pcsplit u t
      · intro u c1 m; have := hi.noCas u c1 m; pcsplit u t
    · refine ⟨?_, ?_, hi.np, ?_, ?_, ?_, ?_, ?_⟩
      · simp only [List.length_cons]; omega
      · exact List.nodup_cons.2 ⟨hnh, hi.nh⟩
      · intro u; have := hi.hold u
        by_cases hut : u = t
        · subst hut; simp [setPc_same]
        · simp_all [setPc_other]
      · intro u; have := hi.pend u; pcsplit u t
      · intro u; have := hi.noRel2 u; pcsplit u t
      · intro u c1; have := hi.acqNonneg u c1; pcsplit u t
      · intro u c1 m; have := hi.noCas u c1 m; pcsplit u t
  · -- rollback
    rename_i hpc
    have hp : t ∈ s.pending := (hi.pend t).2 hpc
    have hlen := List.length_erase_of_mem hp
    have hpos : 0 < s.pending.length := List.length_pos_of_mem hp
    refine ⟨?_, hi.nh, hi.np.erase t, ?_, ?_, ?_, ?_, ?_⟩
    · simp only [hlen]; omega
    · intro u; have := hi.hold u; pcsplit u t
    · intro u; have := hi.pend u
      by_cases hut : u = t
      · subst hut; simp [setPc_same, hi.np.mem_erase_iff]
      · simp only [setPc_other _ _ _ _ hut, hi.np.mem_erase_iff]
        constructor
        · intro h; exact this.1 h.2
        · intro h; exact ⟨hut, this.2 h⟩
    · intro u; have := hi.noRel2 u; pcsplit u t
    · intro u c1; have := hi.acqNonneg u c1; pcsplit u t
    · intro u c1 m; have := hi.noCas u c1 m; pcsplit u t
  · -- holding: the plain read `f.count <= 0`
    rename_i hpc
    have hh : t ∈ s.holders := (hi.hold t).2 (Or.inl hpc)
    have hpos : 0 < s.holders.length := List.length_pos_of_mem hh
    have hgt : ¬ s.count ≤ 0 := by omega
    simp only [hgt, if_false]
    have hnp : t ∉ s.pending := by rw [hi.pend]; simp [hpc]
    refine ⟨hi.cnt, hi.nh, hi.np, ?_, ?_, ?_, ?_, ?_⟩
    · intro u; have := hi.hold u
      by_cases hut : u = t
      · subst hut; simp [setPc_same, hh]
      · simp_all [setPc_other]
    · intro u; have := hi.pend u; pcsplit u t
    · intro u; have := hi.noRel2 u; pcsplit u t
    · intro u c1; have := hi.acqNonneg u c1; pcsplit u t
    · intro u c1 m; have := hi.noCas u c1 m; pcsplit u t
  · -- rel1: the decrement
    rename_i hpc
    have hh : t ∈ s.holders := (hi.hold t).2 (Or.inr hpc)
    have hlen := List.length_erase_of_mem hh
    have hpos : 0 < s.holders.length := List.length_pos_of_mem hh
    have hge : ¬ s.count - 1 < 0 := by omega
    simp only [hge, if_false]
    have hnp : t ∉ s.pending := by rw [hi.pend]; simp [hpc]
    refine ⟨?_, hi.nh.erase t, hi.np, ?_, ?_, ?_, ?_, ?_⟩
    · simp only [hlen]; omega
    · intro u; have := hi.hold u
      by_cases hut : u = t
      · subst hut; simp [setPc_same, hi.nh.mem_erase_iff]
      · simp only [setPc_other _ _ _ _ hut, hi.nh.mem_erase_iff]
        constructor
        · intro h; exact this.1 h.2
        · intro h; exact ⟨hut, this.2 h⟩
    · intro u; have := hi.pend u; pcsplit u t
    · intro u; have := hi.noRel2 u; pcsplit u t
    · intro u c1; have := hi.acqNonneg u c1; pcsplit u t
    · intro u c1 m; have := hi.noCas u c1 m; pcsplit u t
  · -- rel2: unreachable
    rename_i hpc
    exact absurd hpc (hi.noRel2 t)

theorem inv_step {s : Sys} (hi : SInv s) (e : Ev) : SInv (step s e).1 := by
  cases e with
  | step t => exact inv_stepThread hi t
  | resize n => exact ⟨hi.cnt, hi.nh, hi.np, hi.hold, hi.pend, hi.noRel2, hi.acqNonneg, hi.noCas⟩

theorem inv_run {s : Sys} (hi : SInv s) (es : List Ev) : SInv (run s es) := by
  induction es generalizing s with
  | nil => exact hi
  | cons e es ih => exact ih (inv_step hi e)

theorem inv_reachable {s : Sys} (h : Reachable s) : SInv s := by
  obtain ⟨m, es, rfl⟩ := h
  exact inv_run (inv_init m) es


/-! ## Admission bound -/

/-- A step that admits is the `Add(+1)` of a thread that loaded `m` as the limit in this very call, and
    right after it at most `m` requests are admitted and unfinished. -/
theorem admit_bound {s : Sys} (hi : SInv s) (t : Tid) (h : (stepThread s t).2 = .admitted) :
    ∃ m : Int, s.pc t = .adding m ∧ ((stepThread s t).1.holders.length : Int) ≤ m
      ∧ (stepThread s t).1.holders = t :: s.holders := by
  have hc := hi.cnt
  cases hpc : s.pc t with
  | idle => simp [stepThread, hpc] at h
  | acq1 c0 =>
    simp only [stepThread, hpc] at h
    split at h
    · simp at h
    · split at h <;> simp at h
  | cas c0 m => exact absurd hpc (hi.noCas t c0 m)
  | adding m =>
    simp only [stepThread, hpc] at h ⊢
    split at h
    · simp at h
    · rename_i hle
      refine ⟨m, rfl, ?_⟩
      simp only [hle, if_false, List.length_cons, and_true]
      omega
  | rollback => simp [stepThread, hpc] at h
  | holding =>
    simp only [stepThread, hpc] at h
    split at h <;> simp at h
  | rel1 =>
    simp only [stepThread, hpc] at h
    split at h <;> simp at h
  | rel2 => exact absurd hpc (hi.noRel2 t)

/-- Only an admitting step makes the set of admitted-and-unfinished requests grow. -/
theorem holders_step (s : Sys) (t : Tid) :
    (stepThread s t).1.holders.length ≤ s.holders.length ∨ (stepThread s t).2 = .admitted := by
  cases hpc : s.pc t with
  | idle => simp [stepThread, hpc]
  | acq1 c0 => simp only [stepThread, hpc]; split; · simp
               split <;> simp
  | cas c0 m => simp only [stepThread, hpc]; split <;> simp
  | adding m => simp only [stepThread, hpc]; split <;> simp
  | rollback => simp [stepThread, hpc]
  | holding => simp only [stepThread, hpc]; split
               · left; exact List.length_erase_le
               · simp
  | rel1 => simp only [stepThread, hpc]; split <;> (left; exact List.length_erase_le)
  | rel2 => simp [stepThread, hpc]

/-- `Cap M`: the limit in force and every limit value some thread still carries is at most `M`. -/
def Cap (M : Nat) (s : Sys) : Prop := s.max ≤ M ∧ ∀ t m, s.pc t = .adding m → m ≤ (M : Int)

theorem cap_init (M : Nat) : Cap M (init M) := by
  refine ⟨Nat.le_refl _, ?_⟩
  intro t m h; simp [init] at h

theorem cap_stepThread {M : Nat} {s : Sys} (hi : SInv s) (hc : Cap M s) (t : Tid) : Cap M (stepThread s t).1 := by
  obtain ⟨hm, ha⟩ := hc
  have key : ∀ p, (∀ m, p = PC.adding m → m ≤ (M : Int)) → ∀ u m, setPc s t p u = .adding m → m ≤ (M : Int) := by
    intro p hp u m h
    by_cases hut : u = t
    · subst hut; rw [setPc_same] at h; exact hp m h
    · rw [setPc_other _ _ _ _ hut] at h; exact ha u m h
  cases hpc : s.pc t with
  | idle => simp only [stepThread, hpc]; exact ⟨hm, key _ (by simp)⟩
  | acq1 c0 =>
    simp only [stepThread, hpc]
    split
    · exact ⟨hm, key _ (by simp)⟩
    · split
      · exact ⟨hm, key _ (by simp)⟩
      · refine ⟨hm, key _ ?_⟩
        intro m h; injection h with h; omega
  | cas c0 m => exact absurd hpc (hi.noCas t c0 m)
  | adding m => simp only [stepThread, hpc]; split <;> exact ⟨hm, key _ (by simp)⟩
  | rollback => simp only [stepThread, hpc]; exact ⟨hm, key _ (by simp)⟩
  | holding => simp only [stepThread, hpc]; split <;> exact ⟨hm, key _ (by simp)⟩
  | rel1 => simp only [stepThread, hpc]; split <;> exact ⟨hm, key _ (by simp)⟩
  | rel2 => simp only [stepThread, hpc]; exact ⟨hm, key _ (by simp)⟩

/-- Every `resize` event of the schedule sets a limit `≤ M`. -/
def ResizesLe (M : Nat) : List Ev → Prop
  | [] => True
  | .step _ :: es => ResizesLe M es
  | .resize n :: es => n ≤ M ∧ ResizesLe M es

theorem bound_run {M : Nat} {s : Sys} (hi : SInv s) (hc : Cap M s) (hb : s.holders.length ≤ M)
    (es : List Ev) (hr : ResizesLe M es) : (run s es).holders.length ≤ M := by
  induction es generalizing s with
  | nil => exact hb
  | cons e es ih =>
    cases e with
    | step t =>
      refine ih (inv_stepThread hi t) (cap_stepThread hi hc t) ?_ hr
      rcases holders_step s t with h | h
      · exact Nat.le_trans h hb
      · obtain ⟨m, hpc, hle, _⟩ := admit_bound hi t h
        have := hc.2 t m hpc
        show (stepThread s t).1.holders.length ≤ M
        omega
    | resize n =>
      exact ih (inv_step hi (.resize n)) ⟨hr.1, hc.2⟩ hb hr.2

/-! ## Resize semantics: a call that starts after the limit became `M'` uses `M'` -/

/-- Thread `t` carries no limit value other than `M'`, and `M'` is the limit in force. -/
def Fresh (M' : Nat) (t : Tid) (s : Sys) : Prop := s.max = M' ∧ ∀ m, s.pc t = .adding m → m = (M' : Int)

theorem fresh_stepThread {M' : Nat} {t : Tid} {s : Sys} (hi : SInv s) (hf : Fresh M' t s) (u : Tid) :
    Fresh M' t (stepThread s u).1 := by
  obtain ⟨hm, ha⟩ := hf
  have key : ∀ p, (∀ m, p = PC.adding m → m = (M' : Int)) → ∀ m, setPc s u p t = .adding m → m = (M' : Int) := by
    intro p hp m h
    by_cases hut : t = u
    · subst hut; rw [setPc_same] at h; exact hp m h
    · rw [setPc_other _ _ _ _ hut] at h; exact ha m h
  cases hpc : s.pc u with
  | idle => simp only [stepThread, hpc]; exact ⟨hm, key _ (by simp)⟩
  | acq1 c0 =>
    simp only [stepThread, hpc]
    split
    · exact ⟨hm, key _ (by simp)⟩
    · split
      · exact ⟨hm, key _ (by simp)⟩
      · refine ⟨hm, key _ ?_⟩
        intro m h; injection h with h; omega
  | cas c0 m => exact absurd hpc (hi.noCas u c0 m)
  | adding m => simp only [stepThread, hpc]; split <;> exact ⟨hm, key _ (by simp)⟩
  | rollback => simp only [stepThread, hpc]; exact ⟨hm, key _ (by simp)⟩
  | holding => simp only [stepThread, hpc]; split <;> exact ⟨hm, key _ (by simp)⟩
  | rel1 => simp only [stepThread, hpc]; split <;> exact ⟨hm, key _ (by simp)⟩
  | rel2 => simp only [stepThread, hpc]; exact ⟨hm, key _ (by simp)⟩

/-- The schedule contains no `resize`. -/
def NoResize : List Ev → Prop
  | [] => True
  | .step _ :: es => NoResize es
  | .resize _ :: _ => False

/-- Along `es` from `s`, every step of thread `t` that admits leaves at most `M'` holders. -/
def AdmitsWithin (M' : Nat) (t : Tid) : Sys → List Ev → Prop
  | _, [] => True
  | s, e :: es =>
    (e = .step t → (step s e).2 = .admitted → (step s e).1.holders.length ≤ M') ∧ AdmitsWithin M' t (step s e).1 es

theorem resize_run {M' : Nat} {t : Tid} {s : Sys} (hi : SInv s) (hf : Fresh M' t s)
    (es : List Ev) (hn : NoResize es) : AdmitsWithin M' t s es := by
  induction es generalizing s with
  | nil => trivial
  | cons e es ih =>
    cases e with
    | resize n => exact absurd hn (by simp [NoResize])
    | step u =>
      refine ⟨?_, ih (inv_stepThread hi u) (fresh_stepThread hi hf u) hn⟩
      intro he hadm
      injection he with he; subst he
      obtain ⟨m, hpc, hle, _⟩ := admit_bound hi u hadm
      have := hf.2 m hpc
      show (stepThread s u).1.holders.length ≤ M'
      omega

/-! ## No leak -/

theorem quiescent_count {s : Sys} (hi : SInv s) (hq : Quiescent s) : s.count = s.holders.length := by
  have hp : s.pending = [] := by
    cases hpd : s.pending with
    | nil => rfl
    | cons x xs =>
      have hx : x ∈ s.pending := by simp [hpd]
      have := (hi.pend x).1 hx
      rcases hq x with h | h <;> simp [h] at this
  have := hi.cnt
  simp [hp] at this; exact this

/-- Under the invariant, a complete `TryAcquire` by an idle thread with nobody else running is the
    sequential `Counter.tryAcquire`. -/
theorem runCall_tryAcquire {s : Sys} (hi : SInv s) (t : Tid) (hpc : s.pc t = .idle) :
    let r := runCall s t 4
    let c := (Counter.tryAcquire ⟨s.count, s.max⟩)
    r.1.count = c.1.count ∧ r.1.max = c.1.max ∧ r.2 = (if c.2 then Out.admitted else Out.rejected)
      ∧ r.1.holders = (if c.2 then t :: s.holders else s.holders) ∧ r.1.pending = s.pending
      ∧ r.1.pc t = (if c.2 then PC.holding else PC.idle) ∧ (∀ u, u ≠ t → r.1.pc u = s.pc u) := by
  have h0 := count_nonneg hi
  have hlt : ¬ s.count < 0 := by omega
  simp only [Counter.tryAcquire, hlt, if_false]
  by_cases hfull : s.count ≥ (s.max : Int)
  · simp [runCall, stepThread, hpc, setPc_same, hlt, hfull]
    intro u hu; simp [setPc, hu]
  · have h1 : ¬ s.count + 1 > (s.max : Int) := by omega
    simp [runCall, stepThread, hpc, setPc_same, hlt, hfull, h1]
    intro u hu; simp [setPc, hu]

/-- A complete `Release` by a holder with nobody else running is the sequential `Counter.release`, and it
    does decrement (the early return and the clamp are not taken). -/
theorem runCall_release {s : Sys} (hi : SInv s) (t : Tid) (hpc : s.pc t = .holding) :
    let r := runCall s t 3
    r.1.count = s.count - 1 ∧ r.1.count = (Counter.release ⟨s.count, s.max⟩).count ∧ r.1.max = s.max
      ∧ r.2 = Out.released ∧ r.1.holders = s.holders.erase t ∧ r.1.pending = s.pending
      ∧ r.1.pc t = PC.idle ∧ (∀ u, u ≠ t → r.1.pc u = s.pc u) := by
  have hh : t ∈ s.holders := (hi.hold t).2 (Or.inl hpc)
  have hpos : 0 < s.holders.length := List.length_pos_of_mem hh
  have hc := hi.cnt
  have hgt : ¬ s.count ≤ 0 := by omega
  have hge : ¬ s.count - 1 < 0 := by omega
  simp [runCall, stepThread, hpc, setPc_same, hgt, hge, Counter.release]
  intro u hu; simp [setPc, hu]


/-! ## many objects: each one only sees the events addressed to it -/

theorem heap_run_proj (h : Heap) (es : List (Nat × Ev)) (o : Nat) :
    (Heap.run h es).objs o = run (h.objs o) (eventsOf o es) := by
  induction es generalizing h with
  | nil => rfl
  | cons pe es ih =>
    obtain ⟨p, e⟩ := pe
    simp only [Heap.run, eventsOf]
    rw [ih]
    by_cases hp : p = o
    · subst hp; simp [Heap.step, run]
    · have : ¬ o = p := fun hh => hp hh.symm
      simp [Heap.step, hp, this]

end KG.Lemmas.MaxInflight
