import KG.Spec.TokenBucket
/-!
# Lemmas about the token bucket model (C06)

Everything is proved for an arbitrary arithmetic `A` satisfying `ArithOK A q D`:
`q` is the size (in nanoseconds) of the deficit the duration conversion forgives (`1` for `Arith.ns`,
`0` for `Arith.ideal`), `D` the largest representable duration.
-/
namespace KG.Lemmas.TokenBucket
open KG.Model.TokenBucket KG.Spec.TokenBucket

/-- What the proofs use of the two non-real operations. -/
structure ArithOK (A : Arith) (q D : Rat) : Prop where
  q_nonneg : 0 ≤ q
  tr_nonneg : ∀ x, 0 ≤ x → 0 ≤ A.tr x
  tr_le : ∀ x, 0 ≤ x → A.tr x ≤ x
  tr_mono : ∀ x y, 0 ≤ x → x ≤ y → A.tr x ≤ A.tr y
  /-- what truncation drops is itself truncated to nothing -/
  tr_resid : ∀ x, 0 ≤ x → A.tr (x - A.tr x) ≤ 0
  tr_slack : ∀ x, 0 ≤ x → A.tr x ≤ 0 → x ≤ q
  sat_nonneg : ∀ x, 0 ≤ x → 0 ≤ A.sat x
  sat_le : ∀ x, 0 ≤ x → A.sat x ≤ x
  sat_id : ∀ x, 0 ≤ x → x ≤ D → A.sat x = x
  sat_ge : ∀ x, D ≤ x → D ≤ A.sat x

/-! ### the two instances -/

theorem truncZ_of_nonneg {x : Rat} (h : 0 ≤ x) : truncZ x = x.floor := by
  unfold truncZ; simp [h]

theorem ns_ok : ArithOK Arith.ns 1 (maxDuration : Rat) where
  q_nonneg := by decide
  tr_nonneg := by
    intro x hx
    show (0 : Rat) ≤ ((truncZ x : Int) : Rat)
    rw [truncZ_of_nonneg hx]
    have : (0 : Int) ≤ x.floor := Rat.le_floor_iff.2 (by simpa using hx)
    exact_mod_cast this
  tr_le := by
    intro x hx
    show ((truncZ x : Int) : Rat) ≤ x
    rw [truncZ_of_nonneg hx]; exact Rat.floor_le x
  tr_mono := by
    intro x y hx hxy
    show ((truncZ x : Int) : Rat) ≤ ((truncZ y : Int) : Rat)
    rw [truncZ_of_nonneg hx, truncZ_of_nonneg (Rat.le_trans hx hxy)]
    exact_mod_cast Rat.floor_monotone hxy
  tr_resid := by
    intro x hx
    show ((truncZ (x - ((truncZ x : Int) : Rat)) : Int) : Rat) ≤ 0
    rw [truncZ_of_nonneg hx]
    have h1 : (x.floor : Rat) ≤ x := Rat.floor_le x
    have h2 : x < ((x.floor + 1 : Int) : Rat) := Rat.lt_floor_add_one x
    have h0 : 0 ≤ x - (x.floor : Rat) := by grind
    rw [truncZ_of_nonneg h0]
    have h3 : x - (x.floor : Rat) < ((1 : Int) : Rat) := by
      have : ((x.floor + 1 : Int) : Rat) = (x.floor : Rat) + 1 := by simp [Rat.intCast_add]
      simp; grind
    have : (x - (x.floor : Rat)).floor < 1 := Rat.floor_lt_iff.2 h3
    have : (x - (x.floor : Rat)).floor ≤ 0 := by omega
    exact_mod_cast this
  tr_slack := by
    intro x hx h
    have h' : ((truncZ x : Int) : Rat) ≤ 0 := h
    rw [truncZ_of_nonneg hx] at h'
    have h2 : x < ((x.floor + 1 : Int) : Rat) := Rat.lt_floor_add_one x
    have : ((x.floor + 1 : Int) : Rat) = (x.floor : Rat) + 1 := by simp [Rat.intCast_add]
    grind
  sat_nonneg := by
    intro x hx
    show 0 ≤ satDur x
    unfold satDur
    have : (0 : Rat) ≤ (maxDuration : Rat) := by decide
    split
    · exact this
    · split
      · have : (minDuration : Rat) < 0 := by decide
        grind
      · exact hx
  sat_le := by
    intro x hx
    show satDur x ≤ x
    unfold satDur
    split
    · grind
    · split
      · have : (minDuration : Rat) < 0 := by decide
        grind
      · exact Rat.le_refl
  sat_id := by
    intro x hx hD
    show satDur x = x
    unfold satDur
    have : (minDuration : Rat) < 0 := by decide
    split
    · grind
    · split
      · grind
      · rfl
  sat_ge := by
    intro x hD
    show (maxDuration : Rat) ≤ satDur x
    unfold satDur
    have : (minDuration : Rat) < 0 := by decide
    have : (0 : Rat) ≤ (maxDuration : Rat) := by decide
    split
    · exact Rat.le_refl
    · split
      · grind
      · exact hD

theorem ideal_ok (D : Rat) : ArithOK Arith.ideal 0 D where
  q_nonneg := Rat.le_refl
  tr_nonneg := fun _ h => h
  tr_le := fun _ _ => Rat.le_refl
  tr_mono := fun _ _ _ h => h
  tr_resid := by intro x _; show x - x ≤ 0; grind
  tr_slack := fun _ _ h => h
  sat_nonneg := fun _ h => h
  sat_le := fun _ _ => Rat.le_refl
  sat_id := fun _ _ _ => rfl
  sat_ge := fun _ h => h


/-! ### units -/

/-- tokens per nanosecond -/
def K (p : Params) : Rat := p.limit / 1000000000
/-- nanoseconds per token -/
def Ki (p : Params) : Rat := 1000000000 / p.limit

theorem K_pos {p : Params} (h : 0 < p.limit) : 0 < K p := by
  unfold K; rw [Rat.div_def]
  exact Rat.mul_pos h (Rat.inv_pos.2 (by decide))

theorem Ki_pos {p : Params} (h : 0 < p.limit) : 0 < Ki p := by
  unfold Ki; rw [Rat.div_def]
  exact Rat.mul_pos (by decide) (Rat.inv_pos.2 h)

theorem Ki_mul_K {p : Params} (h : 0 < p.limit) : Ki p * K p = 1 := by
  have : p.limit ≠ 0 := by grind
  unfold K Ki; grind

theorem dft_eq (A : Arith) (p : Params) (x : Rat) : durationFromTokens A p x = A.tr (x * Ki p) := by
  unfold durationFromTokens Ki
  congr 1
  rw [Rat.div_def, Rat.div_def]; grind

theorem tfd_eq (p : Params) (d : Rat) : tokensFromDuration p d = d * K p := by
  unfold tokensFromDuration K
  rw [Rat.div_def, Rat.div_def]; grind

theorem mul_Ki_mul_K {p : Params} (h : 0 < p.limit) (x : Rat) : x * Ki p * K p = x := by
  rw [Rat.mul_assoc, Ki_mul_K h]; grind

theorem mul_le_mul_K {p : Params} (h : 0 < p.limit) {a b : Rat} (hab : a ≤ b) : a * K p ≤ b * K p :=
  Rat.mul_le_mul_of_nonneg_right hab (by have := K_pos h; grind)

theorem mul_le_mul_Ki {p : Params} (h : 0 < p.limit) {a b : Rat} (hab : a ≤ b) : a * Ki p ≤ b * Ki p :=
  Rat.mul_le_mul_of_nonneg_right hab (by have := Ki_pos h; grind)

theorem mul_Ki_nonneg {p : Params} (h : 0 < p.limit) {a : Rat} (ha : 0 ≤ a) : 0 ≤ a * Ki p :=
  Rat.mul_nonneg ha (by have := Ki_pos h; grind)

theorem mul_K_nonneg {p : Params} (h : 0 < p.limit) {a : Rat} (ha : 0 ≤ a) : 0 ≤ a * K p :=
  Rat.mul_nonneg ha (by have := K_pos h; grind)

/-! ### the admission test and the invariant -/

/-- the part of `reserveN`'s test that depends on the bucket: `waitDuration ≤ maxFutureReserve (= 0)` -/
def waitOK (A : Arith) (p : Params) (x : Rat) : Prop :=
  (if x < 0 then durationFromTokens A p (-x) else 0) ≤ 0

theorem waitOK_of_nonneg (A : Arith) (p : Params) {x : Rat} (h : 0 ≤ x) : waitOK A p x := by
  unfold waitOK
  have : ¬ x < 0 := by grind
  simp [this]

/-- upward closed: more tokens never hurt -/
theorem waitOK_mono {A : Arith} {q D : Rat} (hA : ArithOK A q D) {p : Params} (hL : 0 < p.limit)
    {x y : Rat} (hxy : x ≤ y) (hx : waitOK A p x) : waitOK A p y := by
  by_cases hy : 0 ≤ y
  · exact waitOK_of_nonneg A p hy
  · have hy' : y < 0 := by grind
    have hx' : x < 0 := by grind
    unfold waitOK at *
    simp only [hy', hx', if_true] at *
    rw [dft_eq] at *
    have h1 : 0 ≤ -y * Ki p := mul_Ki_nonneg hL (by grind)
    have h2 : -y * Ki p ≤ -x * Ki p := mul_le_mul_Ki hL (by grind)
    exact Rat.le_trans (hA.tr_mono _ _ h1 h2) hx

/-- an admissible level is at most `q` nanoseconds' worth below zero -/
theorem waitOK_lower {A : Arith} {q D : Rat} (hA : ArithOK A q D) {p : Params} (hL : 0 < p.limit)
    {x : Rat} (hx : waitOK A p x) : -(q * K p) ≤ x := by
  by_cases h0 : 0 ≤ x
  · have := mul_K_nonneg hL hA.q_nonneg
    grind
  · have hx' : x < 0 := by grind
    unfold waitOK at hx
    simp only [hx', if_true] at hx
    rw [dft_eq] at hx
    have h1 : 0 ≤ -x * Ki p := mul_Ki_nonneg hL (by grind)
    have h2 := hA.tr_slack _ h1 hx
    have h3 := mul_le_mul_K hL h2
    rw [mul_Ki_mul_K hL] at h3
    grind

/-- parameters a `rate.Limiter` is built with here: a positive rate, a non-negative burst, and a burst that is
    refilled within the largest representable duration (true with a wide margin for every `int32` schema with
    `qps ≥ 1`: 2^31 s < 2^63 ns). -/
structure Valid (p : Params) (q D : Rat) : Prop where
  limit_pos : 0 < p.limit
  burst_nonneg : 0 ≤ p.burst
  refill_fits : (p.burst : Rat) * Ki p + q ≤ D

/-- invariant of the limiter state -/
def Inv (A : Arith) (p : Params) (s : State) : Prop :=
  s.tokens ≤ (p.burst : Rat) ∧ waitOK A p s.tokens

theorem burst_nonneg' {p : Params} (h : 0 ≤ p.burst) : (0 : Rat) ≤ (p.burst : Rat) := by
  exact_mod_cast h

theorem inv_init (A : Arith) (p : Params) (h : 0 ≤ p.burst) : Inv A p State.init := by
  refine ⟨?_, waitOK_of_nonneg A p (by decide)⟩
  show (0 : Rat) ≤ (p.burst : Rat)
  exact burst_nonneg' h

end KG.Lemmas.TokenBucket
