import KG.Spec.TokenBucket
/-!
# Lemmas about the token bucket model (C06)

Everything is proved for an arbitrary arithmetic `A` satisfying `ArithOK A q D`:
`q` is the size (in nanoseconds) of the deficit the duration conversion forgives (`1` for `Arith.ns`,
`0` for `Arith.ideal`), `D` the largest representable duration.
-/
namespace KG.Lemmas.TokenBucket
open KG.Model.TokenBucket KG.Spec.TokenBucket

/-- What the proofs use of the two non-real operations. -/
structure ArithOK (A : Arith) (q D : Rat) : Prop where
  q_nonneg : 0 ≤ q
  tr_nonneg : ∀ x, 0 ≤ x → 0 ≤ A.tr x
  tr_le : ∀ x, 0 ≤ x → A.tr x ≤ x
  tr_mono : ∀ x y, 0 ≤ x → x ≤ y → A.tr x ≤ A.tr y
  /-- what truncation drops is itself truncated to nothing -/
  tr_resid : ∀ x, 0 ≤ x → A.tr (x - A.tr x) ≤ 0
  tr_slack : ∀ x, 0 ≤ x → A.tr x ≤ 0 → x ≤ q
  sat_nonneg : ∀ x, 0 ≤ x → 0 ≤ A.sat x
  sat_le : ∀ x, 0 ≤ x → A.sat x ≤ x
  sat_id : ∀ x, 0 ≤ x → x ≤ D → A.sat x = x
  sat_ge : ∀ x, D ≤ x → D ≤ A.sat x

/-! ### the two instances -/

theorem truncZ_of_nonneg {x : Rat} (h : 0 ≤ x) : truncZ x = x.floor := by
  unfold truncZ; simp [h]

theorem ns_ok : ArithOK Arith.ns 1 (maxDuration : Rat) where
  q_nonneg := by decide
  tr_nonneg := by
    intro x hx
    show (0 : Rat) ≤ ((truncZ x : Int) : Rat)
    rw [truncZ_of_nonneg hx]
    have : (0 : Int) ≤ x.floor := Rat.le_floor_iff.2 (by simpa using hx)
    exact_mod_cast this
  tr_le := by
    intro x hx
    show ((truncZ x : Int) : Rat) ≤ x
    rw [truncZ_of_nonneg hx]; exact Rat.floor_le x
  tr_mono := by
    intro x y hx hxy
    show ((truncZ x : Int) : Rat) ≤ ((truncZ y : Int) : Rat)
    rw [truncZ_of_nonneg hx, truncZ_of_nonneg (Rat.le_trans hx hxy)]
    exact_mod_cast Rat.floor_monotone hxy
  tr_resid := by
    intro x hx
    show ((truncZ (x - ((truncZ x : Int) : Rat)) : Int) : Rat) ≤ 0
    rw [truncZ_of_nonneg hx]
    have h1 : (x.floor : Rat) ≤ x := Rat.floor_le x
    have h2 : x < ((x.floor + 1 : Int) : Rat) := Rat.lt_floor_add_one x
    have h0 : 0 ≤ x - (x.floor : Rat) := by grind
    rw [truncZ_of_nonneg h0]
    have h3 : x - (x.floor : Rat) < ((1 : Int) : Rat) := by
      have : ((x.floor + 1 : Int) : Rat) = (x.floor : Rat) + 1 := by simp [Rat.intCast_add]
      simp; grind
    have : (x - (x.floor : Rat)).floor < 1 := Rat.floor_lt_iff.2 h3
    have : (x - (x.floor : Rat)).floor ≤ 0 := by omega
    exact_mod_cast this
  tr_slack := by
    intro x hx h
    have h' : ((truncZ x : Int) : Rat) ≤ 0 := h
    rw [truncZ_of_nonneg hx] at h'
    have h2 : x < ((x.floor + 1 : Int) : Rat) := Rat.lt_floor_add_one x
    have : ((x.floor + 1 : Int) : Rat) = (x.floor : Rat) + 1 := by simp [Rat.intCast_add]
    grind
  sat_nonneg := by
    intro x hx
    show 0 ≤ satDur x
    unfold satDur
    have : (0 : Rat) ≤ (maxDuration : Rat) := by decide
    split
    · exact this
    · split
      · have : (minDuration : Rat) < 0 := by decide
        grind
      · exact hx
  sat_le := by
    intro x hx
    show satDur x ≤ x
    unfold satDur
    split
    · grind
    · split
      · have : (minDuration : Rat) < 0 := by decide
        grind
      · exact Rat.le_refl
  sat_id := by
    intro x hx hD
    show satDur x = x
    unfold satDur
    have : (minDuration : Rat) < 0 := by decide
    split
    · grind
    · split
      · grind
      · rfl
  sat_ge := by
    intro x hD
    show (maxDuration : Rat) ≤ satDur x
    unfold satDur
    have : (minDuration : Rat) < 0 := by decide
    have : (0 : Rat) ≤ (maxDuration : Rat) := by decide
    split
    · exact Rat.le_refl
    · split
      · grind
      · exact hD

theorem ideal_ok (D : Rat) : ArithOK Arith.ideal 0 D where
  q_nonneg := Rat.le_refl
  tr_nonneg := fun _ h => h
  tr_le := fun _ _ => Rat.le_refl
  tr_mono := fun _ _ _ h => h
  tr_resid := by intro x _; show x - x ≤ 0; grind
  tr_slack := fun _ _ h => h
  sat_nonneg := fun _ h => h
  sat_le := fun _ _ => Rat.le_refl
  sat_id := fun _ _ _ => rfl
  sat_ge := fun _ h => h


/-! ### units -/

/-- tokens per nanosecond -/
def K (p : Params) : Rat := p.limit / 1000000000
/-- nanoseconds per token -/
def Ki (p : Params) : Rat := 1000000000 / p.limit

theorem K_pos {p : Params} (h : 0 < p.limit) : 0 < K p := by
  unfold K; rw [Rat.div_def]
  exact Rat.mul_pos h (Rat.inv_pos.2 (by decide))

theorem Ki_pos {p : Params} (h : 0 < p.limit) : 0 < Ki p := by
  unfold Ki; rw [Rat.div_def]
  exact Rat.mul_pos (by decide) (Rat.inv_pos.2 h)

theorem Ki_mul_K {p : Params} (h : 0 < p.limit) : Ki p * K p = 1 := by
  have : p.limit ≠ 0 := by grind
  unfold K Ki; grind

theorem dft_eq (A : Arith) (p : Params) (x : Rat) : durationFromTokens A p x = A.tr (x * Ki p) := by
  unfold durationFromTokens Ki
  congr 1
  rw [Rat.div_def, Rat.div_def]; grind

theorem tfd_eq (p : Params) (d : Rat) : tokensFromDuration p d = d * K p := by
  unfold tokensFromDuration K
  rw [Rat.div_def, Rat.div_def]; grind

theorem mul_Ki_mul_K {p : Params} (h : 0 < p.limit) (x : Rat) : x * Ki p * K p = x := by
  rw [Rat.mul_assoc, Ki_mul_K h]; grind

theorem mul_le_mul_K {p : Params} (h : 0 < p.limit) {a b : Rat} (hab : a ≤ b) : a * K p ≤ b * K p :=
  Rat.mul_le_mul_of_nonneg_right hab (by have := K_pos h; grind)

theorem mul_le_mul_Ki {p : Params} (h : 0 < p.limit) {a b : Rat} (hab : a ≤ b) : a * Ki p ≤ b * Ki p :=
  Rat.mul_le_mul_of_nonneg_right hab (by have := Ki_pos h; grind)

theorem mul_Ki_nonneg {p : Params} (h : 0 < p.limit) {a : Rat} (ha : 0 ≤ a) : 0 ≤ a * Ki p :=
  Rat.mul_nonneg ha (by have := Ki_pos h; grind)

theorem mul_K_nonneg {p : Params} (h : 0 < p.limit) {a : Rat} (ha : 0 ≤ a) : 0 ≤ a * K p :=
  Rat.mul_nonneg ha (by have := K_pos h; grind)

/-! ### the admission test and the invariant -/

/-- the part of `reserveN`'s test that depends on the bucket: `waitDuration ≤ maxFutureReserve (= 0)` -/
def waitOK (A : Arith) (p : Params) (x : Rat) : Prop :=
  (if x < 0 then durationFromTokens A p (-x) else 0) ≤ 0

theorem waitOK_of_nonneg (A : Arith) (p : Params) {x : Rat} (h : 0 ≤ x) : waitOK A p x := by
  unfold waitOK
  have : ¬ x < 0 := by grind
  simp [this]

/-- upward closed: more tokens never hurt -/
theorem waitOK_mono {A : Arith} {q D : Rat} (hA : ArithOK A q D) {p : Params} (hL : 0 < p.limit)
    {x y : Rat} (hxy : x ≤ y) (hx : waitOK A p x) : waitOK A p y := by
  by_cases hy : 0 ≤ y
  · exact waitOK_of_nonneg A p hy
  · have hy' : y < 0 := by grind
    have hx' : x < 0 := by grind
    unfold waitOK at *
    simp only [hy', hx', if_true] at *
    rw [dft_eq] at *
    have h1 : 0 ≤ -y * Ki p := mul_Ki_nonneg hL (by grind)
    have h2 : -y * Ki p ≤ -x * Ki p := mul_le_mul_Ki hL (by grind)
    exact Rat.le_trans (hA.tr_mono _ _ h1 h2) hx

/-- an admissible level is at most `q` nanoseconds' worth below zero -/
theorem waitOK_lower {A : Arith} {q D : Rat} (hA : ArithOK A q D) {p : Params} (hL : 0 < p.limit)
    {x : Rat} (hx : waitOK A p x) : -(q * K p) ≤ x := by
  by_cases h0 : 0 ≤ x
  · have := mul_K_nonneg hL hA.q_nonneg
    grind
  · have hx' : x < 0 := by grind
    unfold waitOK at hx
    simp only [hx', if_true] at hx
    rw [dft_eq] at hx
    have h1 : 0 ≤ -x * Ki p := mul_Ki_nonneg hL (by grind)
    have h2 := hA.tr_slack _ h1 hx
    have h3 := mul_le_mul_K hL h2
    rw [mul_Ki_mul_K hL] at h3
    grind

/-- parameters a `rate.Limiter` is built with here: a positive rate, a non-negative burst, and a burst that is
    refilled within the largest representable duration (true with a wide margin for every `int32` schema with
    `qps ≥ 1`: 2^31 s < 2^63 ns). -/
structure Valid (p : Params) (q D : Rat) : Prop where
  limit_pos : 0 < p.limit
  burst_nonneg : 0 ≤ p.burst
  refill_fits : (p.burst : Rat) * Ki p + q ≤ D

/-- invariant of the limiter state -/
def Inv (A : Arith) (p : Params) (s : State) : Prop :=
  s.tokens ≤ (p.burst : Rat) ∧ waitOK A p s.tokens

theorem burst_nonneg' {p : Params} (h : 0 ≤ p.burst) : (0 : Rat) ≤ (p.burst : Rat) := by
  exact_mod_cast h

theorem inv_init (A : Arith) (p : Params) (h : 0 ≤ p.burst) : Inv A p State.init := by
  refine ⟨?_, waitOK_of_nonneg A p (by decide)⟩
  show (0 : Rat) ≤ (p.burst : Rat)
  exact burst_nonneg' h


/-! ### `advance` -/

def advLast (s : State) (now : Rat) : Rat := if now < s.last then now else s.last
def advMaxEl (A : Arith) (p : Params) (s : State) : Rat := A.tr (((p.burst : Rat) - s.tokens) * Ki p)
def advEl (A : Arith) (p : Params) (s : State) (now : Rat) : Rat :=
  if A.sat (now - advLast s now) > advMaxEl A p s then advMaxEl A p s else A.sat (now - advLast s now)
def advTok (A : Arith) (p : Params) (s : State) (now : Rat) : Rat :=
  if s.tokens + advEl A p s now * K p > (p.burst : Rat) then (p.burst : Rat) else s.tokens + advEl A p s now * K p

theorem advance_eq (A : Arith) (p : Params) (s : State) (now : Rat) :
    advance A p s now = (advLast s now, advTok A p s now) := by
  unfold advance advTok advEl advMaxEl advLast
  simp only [dft_eq, tfd_eq]

theorem advLast_le (s : State) (now : Rat) : advLast s now ≤ now := by
  unfold advLast; split <;> grind

theorem advLast_of_le {s : State} {now : Rat} (h : s.last ≤ now) : advLast s now = s.last := by
  unfold advLast
  have : ¬ now < s.last := by grind
  simp [this]

section
set_option linter.unusedSectionVars false
set_option linter.unusedVariables false
variable {A : Arith} {q D : Rat} (hA : ArithOK A q D) {p : Params} (hV : Valid p q D)
include hA hV

theorem advMaxEl_nonneg {s : State} (hI : Inv A p s) : 0 ≤ advMaxEl A p s :=
  hA.tr_nonneg _ (mul_Ki_nonneg hV.limit_pos (by have := hI.1; grind))

theorem advMaxEl_mul_K_le {s : State} (hI : Inv A p s) : advMaxEl A p s * K p ≤ (p.burst : Rat) - s.tokens := by
  have h0 : 0 ≤ ((p.burst : Rat) - s.tokens) * Ki p := mul_Ki_nonneg hV.limit_pos (by have := hI.1; grind)
  have h1 := mul_le_mul_K hV.limit_pos (hA.tr_le _ h0)
  rw [mul_Ki_mul_K hV.limit_pos] at h1
  exact h1

theorem advMaxEl_le_D {s : State} (hI : Inv A p s) : advMaxEl A p s ≤ D := by
  have h0 : 0 ≤ ((p.burst : Rat) - s.tokens) * Ki p := mul_Ki_nonneg hV.limit_pos (by have := hI.1; grind)
  have h1 := hA.tr_le _ h0
  have h2 := waitOK_lower hA hV.limit_pos hI.2
  -- (B - tokens)·Ki ≤ (B + q·K)·Ki = B·Ki + q
  have h3 : ((p.burst : Rat) - s.tokens) * Ki p ≤ ((p.burst : Rat) + q * K p) * Ki p :=
    mul_le_mul_Ki hV.limit_pos (by grind)
  have h4 : ((p.burst : Rat) + q * K p) * Ki p = (p.burst : Rat) * Ki p + q := by
    have := Ki_mul_K hV.limit_pos
    have h5 : q * K p * Ki p = q * (Ki p * K p) := by grind
    have h6 : ((p.burst : Rat) + q * K p) * Ki p = (p.burst : Rat) * Ki p + q * K p * Ki p := by grind
    rw [h6, h5, this]; grind
  have := hV.refill_fits
  unfold advMaxEl
  grind

theorem advEl_nonneg {s : State} (hI : Inv A p s) (now : Rat) : 0 ≤ advEl A p s now := by
  unfold advEl
  have h1 := advMaxEl_nonneg hA hV hI
  have h2 := hA.sat_nonneg (now - advLast s now) (by have := advLast_le s now; grind)
  split <;> assumption

theorem advEl_le_maxEl {s : State} (now : Rat) : advEl A p s now ≤ advMaxEl A p s := by
  unfold advEl
  split <;> grind

theorem advEl_le_elapsed {s : State} (hI : Inv A p s) (now : Rat) : advEl A p s now ≤ now - advLast s now := by
  unfold advEl
  have h2 := hA.sat_le (now - advLast s now) (by have := advLast_le s now; grind)
  split <;> grind

/-- `advance` never yields more than `burst` -/
theorem advTok_le_burst (s : State) (now : Rat) : advTok A p s now ≤ (p.burst : Rat) := by
  unfold advTok; split <;> grind

/-- time only adds tokens -/
theorem le_advTok {s : State} (hI : Inv A p s) (now : Rat) : s.tokens ≤ advTok A p s now := by
  unfold advTok
  have h1 := mul_K_nonneg hV.limit_pos (advEl_nonneg hA hV hI now)
  have := hI.1
  split <;> grind

/-- ... and at most `qps · elapsed` -/
theorem advTok_le_refill {s : State} (hI : Inv A p s) {now : Rat} (h : s.last ≤ now) :
    advTok A p s now ≤ s.tokens + (now - s.last) * K p := by
  have h1 := advEl_le_elapsed hA hV hI now
  rw [advLast_of_le h] at h1
  have h2 := mul_le_mul_K hV.limit_pos h1
  unfold advTok
  have := hI.1
  have h3 := mul_K_nonneg hV.limit_pos (advEl_nonneg hA hV hI now)
  split <;> grind

theorem advTok_waitOK {s : State} (hI : Inv A p s) (now : Rat) : waitOK A p (advTok A p s now) :=
  waitOK_mono hA hV.limit_pos (le_advTok hA hV hI now) hI.2

end


/-! ### `allow` (= `reserveN now 1 0`) -/

theorem allow_admit (A : Arith) (p : Params) (s : State) (now : Rat)
    (hb : 1 ≤ p.burst) (hw : waitOK A p (advTok A p s now - 1)) :
    allow A p s now = (true, { tokens := advTok A p s now - 1, last := now }) := by
  unfold allow reserveN
  rw [advance_eq]
  have h1 : (((1 : Int) : Rat)) = 1 := by simp
  simp only [h1]
  unfold waitOK at hw
  simp [hb, hw]

theorem allow_refuse (A : Arith) (p : Params) (s : State) (now : Rat)
    (h : ¬ (1 ≤ p.burst ∧ waitOK A p (advTok A p s now - 1))) :
    allow A p s now = (false, { tokens := s.tokens, last := advLast s now }) := by
  unfold allow reserveN
  rw [advance_eq]
  have h1 : (((1 : Int) : Rat)) = 1 := by simp
  simp only [h1]
  unfold waitOK at h
  by_cases hb : 1 ≤ p.burst
  · have hw : ¬ ((if advTok A p s now - 1 < 0 then durationFromTokens A p (-(advTok A p s now - 1)) else 0) ≤ 0) :=
      fun hw => h ⟨hb, hw⟩
    simp [hw]
  · simp [hb]

/-- the three things that can happen in one call -/
theorem allow_cases (A : Arith) (p : Params) (s : State) (now : Rat) :
    (1 ≤ p.burst ∧ waitOK A p (advTok A p s now - 1) ∧
      allow A p s now = (true, { tokens := advTok A p s now - 1, last := now })) ∨
    (allow A p s now = (false, { tokens := s.tokens, last := advLast s now })) := by
  by_cases h : 1 ≤ p.burst ∧ waitOK A p (advTok A p s now - 1)
  · exact Or.inl ⟨h.1, h.2, allow_admit A p s now h.1 h.2⟩
  · exact Or.inr (allow_refuse A p s now h)

theorem state_eta (s : State) : ({ tokens := s.tokens, last := s.last } : State) = s := by
  cases s; rfl

section
set_option linter.unusedSectionVars false
set_option linter.unusedVariables false
variable {A : Arith} {q D : Rat} (hA : ArithOK A q D) {p : Params} (hV : Valid p q D)
include hA hV

/-- the invariant is preserved by every call, whatever the timestamp -/
theorem allow_inv {s : State} (hI : Inv A p s) (now : Rat) : Inv A p (allow A p s now).2 := by
  rcases allow_cases A p s now with ⟨_, hw, he⟩ | he
  · rw [he]
    refine ⟨?_, hw⟩
    have := advTok_le_burst hA hV s now
    show advTok A p s now - 1 ≤ (p.burst : Rat)
    grind
  · rw [he]; exact hI

end

/-! ### traces -/

/-- the events of a run: `(clock reading, admitted)` -/
def trace (A : Arith) (p : Params) : State → List Rat → List Event
  | _, [] => []
  | s, now :: rest => (now, (allow A p s now).1) :: trace A p (allow A p s now).2 rest

theorem trace_eq_zip (A : Arith) (p : Params) (s : State) (nows : List Rat) :
    trace A p s nows = nows.zip (run A p s nows).1 := by
  induction nows generalizing s with
  | nil => simp [trace, run]
  | cons now rest ih => simp [trace, run, ih]

/-- non-decreasing, starting at or after `a` -/
def sortedFrom : Rat → List Rat → Prop
  | _, [] => True
  | a, b :: r => a ≤ b ∧ sortedFrom b r

theorem sortedFrom_mono {a a' : Rat} (h : a' ≤ a) : ∀ {l : List Rat}, sortedFrom a l → sortedFrom a' l
  | [], _ => trivial
  | _ :: _, ⟨h1, h2⟩ => ⟨Rat.le_trans h h1, h2⟩

/-- admitted events up to `t1` -/
def countLe (t1 : Rat) : List Event → Nat
  | [] => 0
  | e :: r => (if e.2 = true ∧ e.1 ≤ t1 then 1 else 0) + countLe t1 r

theorem countIn_le_countLe (t0 t1 : Rat) (ev : List Event) : countIn t0 t1 ev ≤ countLe t1 ev := by
  induction ev with
  | nil => simp [countIn, countLe]
  | cons e r ih =>
    simp only [countIn, countLe]
    by_cases h : e.2 = true ∧ t0 ≤ e.1 ∧ e.1 ≤ t1
    · have : e.2 = true ∧ e.1 ≤ t1 := ⟨h.1, h.2.2⟩
      simp [h]; omega
    · simp only [h, if_false]
      split <;> omega

theorem countLe_zero_of_gt (A : Arith) (p : Params) (t1 : Rat) :
    ∀ (nows : List Rat) (s : State) (a : Rat), t1 < a → sortedFrom a nows → countLe t1 (trace A p s nows) = 0
  | [], _, _, _, _ => rfl
  | now :: rest, s, a, h, hs => by
    have h1 : t1 < now := by have := hs.1; grind
    have h2 : ¬ now ≤ t1 := by grind
    simp only [trace, countLe]
    rw [countLe_zero_of_gt A p t1 rest _ now h1 hs.2]
    simp [h2]

theorem countIn_zero_of_gt (A : Arith) (p : Params) (t0 t1 : Rat)
    (nows : List Rat) (s : State) (a : Rat) (h : t1 < a) (hs : sortedFrom a nows) :
    countIn t0 t1 (trace A p s nows) = 0 := by
  have := countIn_le_countLe t0 t1 (trace A p s nows)
  rw [countLe_zero_of_gt A p t1 nows s a h hs] at this
  omega


/-! ### upper bound -/

section
set_option linter.unusedSectionVars false
set_option linter.unusedVariables false
variable {A : Arith} {q D : Rat} (hA : ArithOK A q D) {p : Params} (hV : Valid p q D)
include hA hV

/-- potential argument: from a state whose clock is at `s.last ≤ t1`, the calls up to `t1` admit at most
    what is in the bucket, plus what `t1 - s.last` refills, plus the forgiven deficit. -/
theorem countLe_bound (t1 : Rat) :
    ∀ (nows : List Rat) (s : State), Inv A p s → sortedFrom s.last nows → s.last ≤ t1 →
      (countLe t1 (trace A p s nows) : Rat) ≤ s.tokens + q * K p + (t1 - s.last) * K p
  | [], s, hI, _, hle => by
    have h1 := waitOK_lower hA hV.limit_pos hI.2
    have h2 := mul_K_nonneg hV.limit_pos (a := t1 - s.last) (by grind)
    simp only [trace, countLe]
    have : ((0 : Nat) : Rat) = 0 := by simp
    rw [this]; grind
  | now :: rest, s, hI, hs, hle => by
    have hnow : s.last ≤ now := hs.1
    by_cases hgt : t1 < now
    · -- this call and all later ones are after t1
      have h0 : countLe t1 (trace A p s (now :: rest)) = 0 :=
        countLe_zero_of_gt A p t1 (now :: rest) s now hgt ⟨Rat.le_refl, hs.2⟩
      rw [h0]
      have h1 := waitOK_lower hA hV.limit_pos hI.2
      have h2 := mul_K_nonneg hV.limit_pos (a := t1 - s.last) (by grind)
      have : ((0 : Nat) : Rat) = 0 := by simp
      rw [this]; grind
    · have hle1 : now ≤ t1 := by grind
      rcases allow_cases A p s now with ⟨_, hw, he⟩ | he
      · -- admitted
        have hI' : Inv A p (allow A p s now).2 := allow_inv hA hV hI now
        have ih := countLe_bound t1 rest (allow A p s now).2 hI' (by rw [he]; exact hs.2) (by rw [he]; exact hle1)
        simp only [trace, countLe]
        rw [he] at ih ⊢
        simp only [hle1, and_self, if_true] at ih ⊢
        have h3 := advTok_le_refill hA hV hI hnow
        have h4 : (t1 - now) * K p + (now - s.last) * K p = (t1 - s.last) * K p := by grind
        have : ((1 + countLe t1 (trace A p { tokens := advTok A p s now - 1, last := now } rest) : Nat) : Rat)
            = 1 + (countLe t1 (trace A p { tokens := advTok A p s now - 1, last := now } rest) : Rat) := by
          simp [Rat.natCast_add]
        rw [this]
        grind
      · -- refused: the state is unchanged
        have hst : (allow A p s now).2 = s := by
          rw [he]; show ({ tokens := s.tokens, last := advLast s now } : State) = s
          rw [advLast_of_le hnow]
        have ih := countLe_bound t1 rest s hI (sortedFrom_mono hnow hs.2) hle
        simp only [trace, countLe]
        rw [hst]
        rw [he]
        simpa using ih

/-- **every window**: the calls with clock reading in `[t0, t1]` admit at most `burst + qps·(t1 - t0)` plus
    the forgiven deficit (`q` nanoseconds' worth). -/
theorem countIn_bound (t0 t1 : Rat) (h01 : t0 ≤ t1) :
    ∀ (nows : List Rat) (s : State), Inv A p s → sortedFrom s.last nows →
      (countIn t0 t1 (trace A p s nows) : Rat) ≤ (p.burst : Rat) + q * K p + (t1 - t0) * K p
  | [], s, _, _ => by
    have h1 := burst_nonneg' hV.burst_nonneg
    have h2 := mul_K_nonneg hV.limit_pos hA.q_nonneg
    have h3 := mul_K_nonneg hV.limit_pos (a := t1 - t0) (by grind)
    simp only [trace, countIn]
    have : ((0 : Nat) : Rat) = 0 := by simp
    rw [this]; grind
  | now :: rest, s, hI, hs => by
    have hnow : s.last ≤ now := hs.1
    have hI' : Inv A p (allow A p s now).2 := allow_inv hA hV hI now
    have hB := burst_nonneg' hV.burst_nonneg
    have hq := mul_K_nonneg hV.limit_pos hA.q_nonneg
    have hT := mul_K_nonneg hV.limit_pos (a := t1 - t0) (by grind)
    by_cases hgt : t1 < now
    · have h0 : countIn t0 t1 (trace A p s (now :: rest)) = 0 :=
        countIn_zero_of_gt A p t0 t1 (now :: rest) s now hgt ⟨Rat.le_refl, hs.2⟩
      rw [h0]
      have : ((0 : Nat) : Rat) = 0 := by simp
      rw [this]; grind
    · have hle1 : now ≤ t1 := by grind
      rcases allow_cases A p s now with ⟨_, hw, he⟩ | he
      · -- admitted
        by_cases hlt : now < t0
        · -- before the window: not counted
          have ih := countIn_bound t0 t1 h01 rest (allow A p s now).2 hI' (by rw [he]; exact hs.2)
          simp only [trace, countIn]
          have : ¬ (t0 ≤ now) := by grind
          simp only [this, false_and, and_false, if_false]
          simpa using ih
        · have hge : t0 ≤ now := by grind
          have h1 := countLe_bound hA hV t1 rest (allow A p s now).2 hI' (by rw [he]; exact hs.2) (by rw [he]; exact hle1)
          have h2 := countIn_le_countLe t0 t1 (trace A p (allow A p s now).2 rest)
          have h2' : (countIn t0 t1 (trace A p (allow A p s now).2 rest) : Rat)
              ≤ (countLe t1 (trace A p (allow A p s now).2 rest) : Rat) := by exact_mod_cast h2
          simp only [trace, countIn]
          rw [he] at h1 h2' ⊢
          simp only [hge, hle1, and_self, if_true] at h1 ⊢
          have h3 := advTok_le_burst hA hV s now
          have h4 : (t1 - now) * K p ≤ (t1 - t0) * K p := mul_le_mul_K hV.limit_pos (by grind)
          have : ((1 + countIn t0 t1 (trace A p { tokens := advTok A p s now - 1, last := now } rest) : Nat) : Rat)
              = 1 + (countIn t0 t1 (trace A p { tokens := advTok A p s now - 1, last := now } rest) : Rat) := by
            simp [Rat.natCast_add]
          rw [this]
          grind
      · -- refused
        have hst : (allow A p s now).2 = s := by
          rw [he]; show ({ tokens := s.tokens, last := advLast s now } : State) = s
          rw [advLast_of_le hnow]
        have ih := countIn_bound t0 t1 h01 rest s hI (sortedFrom_mono hnow hs.2)
        simp only [trace, countIn]
        rw [hst]
        rw [he]
        simpa using ih

end


/-! ### lower bound -/

section
set_option linter.unusedSectionVars false
set_option linter.unusedVariables false
variable {A : Arith} {q D : Rat} (hA : ArithOK A q D) {p : Params} (hV : Valid p q D)
include hA hV

/-- if the level reached by `advance` is enough for `m` more tokens, the next `m` calls are admitted
    (whatever their timestamps) -/
theorem refusedAmong_zero : ∀ (m : Nat) (nows : List Rat) (s : State), Inv A p s → (m : Rat) ≤ (p.burst : Rat) →
    (∀ now rest, nows = now :: rest → waitOK A p (advTok A p s now - (m : Rat))) →
    refusedAmong m (trace A p s nows) = 0
  | 0, _, _, _, _, _ => by simp [refusedAmong]
  | m + 1, [], _, _, _, _ => by simp [trace, refusedAmong]
  | m + 1, now :: rest, s, hI, hm, h => by
    have hcast : ((m + 1 : Nat) : Rat) = (m : Rat) + 1 := by simp [Rat.natCast_add]
    have hm0 : (0 : Rat) ≤ (m : Rat) := by
      have : (0 : Nat) ≤ m := Nat.zero_le m
      exact_mod_cast this
    have hw := h now rest rfl
    rw [hcast] at hw hm
    have hb : 1 ≤ p.burst := by
      have : ((1 : Int) : Rat) ≤ (p.burst : Rat) := by simp; grind
      exact_mod_cast this
    have hw1 : waitOK A p (advTok A p s now - 1) := waitOK_mono hA hV.limit_pos (by grind) hw
    have he := allow_admit A p s now hb hw1
    have hI' : Inv A p (allow A p s now).2 := allow_inv hA hV hI now
    simp only [trace, refusedAmong]
    rw [he] at hI' ⊢
    have ih := refusedAmong_zero m rest { tokens := advTok A p s now - 1, last := now } hI' (by grind)
      (by
        intro now2 rest2 _
        have h1 := le_advTok hA hV hI' now2
        have h1' : advTok A p s now - 1 ≤ advTok A p { tokens := advTok A p s now - 1, last := now } now2 := h1
        exact waitOK_mono hA hV.limit_pos (by grind) hw)
    simp [ih]

theorem advEl_cases {s : State} (hI : Inv A p s) {now : Rat} (h : s.last ≤ now) :
    advEl A p s now = advMaxEl A p s ∨ advEl A p s now = now - s.last := by
  have hx : 0 ≤ now - s.last := by grind
  have hm := advMaxEl_le_D hA hV hI
  unfold advEl
  rw [advLast_of_le h]
  by_cases hD : now - s.last ≤ D
  · rw [hA.sat_id _ hx hD]
    split
    · exact Or.inl rfl
    · exact Or.inr rfl
  · have h1 := hA.sat_ge (now - s.last) (by grind)
    split
    · exact Or.inl rfl
    · left; grind

/-- after `now - s.last` of idleness the level reached covers `k` tokens, for every `k ≤ burst`, `k ≤ qps·idle` -/
theorem idle_level {s : State} (hI : Inv A p s) {now : Rat} (h : s.last ≤ now) {k : Rat}
    (hk0 : 0 ≤ k) (hkB : k ≤ (p.burst : Rat)) (hkT : k ≤ (now - s.last) * K p) :
    waitOK A p (advTok A p s now - k) := by
  have hL := hV.limit_pos
  have hcap := advMaxEl_mul_K_le hA hV hI
  rcases advEl_cases hA hV hI h with he | he
  · -- refilled to the brim (up to what truncation drops)
    have htok : advTok A p s now = s.tokens + advMaxEl A p s * K p := by
      unfold advTok; rw [he]
      have : ¬ (s.tokens + advMaxEl A p s * K p > (p.burst : Rat)) := by grind
      simp [this]
    rw [htok]
    -- need = (B - tokens)·Ki, ρ = need - tr need
    have hneed : 0 ≤ ((p.burst : Rat) - s.tokens) * Ki p := mul_Ki_nonneg hL (by have := hI.1; grind)
    have hres := hA.tr_resid _ hneed
    have hle := hA.tr_le _ hneed
    have hρK : (((p.burst : Rat) - s.tokens) * Ki p - advMaxEl A p s) * K p
        = ((p.burst : Rat) - s.tokens) - advMaxEl A p s * K p := by
      have := mul_Ki_mul_K hL ((p.burst : Rat) - s.tokens)
      grind
    have hw : waitOK A p (-((((p.burst : Rat) - s.tokens) * Ki p - advMaxEl A p s) * K p)) := by
      by_cases h0 : 0 ≤ -((((p.burst : Rat) - s.tokens) * Ki p - advMaxEl A p s) * K p)
      · exact waitOK_of_nonneg A p h0
      · have hneg : -((((p.burst : Rat) - s.tokens) * Ki p - advMaxEl A p s) * K p) < 0 := by grind
        unfold waitOK
        simp only [hneg, if_true]
        rw [dft_eq]
        have : - -((((p.burst : Rat) - s.tokens) * Ki p - advMaxEl A p s) * K p) * Ki p
            = ((p.burst : Rat) - s.tokens) * Ki p - advMaxEl A p s := by
          have h1 : ∀ y : Rat, - -(y * K p) * Ki p = y * (Ki p * K p) := by intro y; grind
          rw [h1, Ki_mul_K hL]; grind
        rw [this]
        exact hres
    exact waitOK_mono hA hL (by grind) hw
  · -- not full: everything that elapsed was credited
    unfold advTok; rw [he]
    split
    · exact waitOK_of_nonneg A p (by grind)
    · exact waitOK_mono hA hL (by grind) hI.2

end

end KG.Lemmas.TokenBucket
