import KG.Spec.TokenBucket
/-!
# Lemmas about the token bucket model (C06)

Everything is proved for an arbitrary arithmetic `A` satisfying `ArithOK A q D`:
`q` is the size (in nanoseconds) of the deficit the duration conversion forgives (`1` for `Arith.ns`,
`0` for `Arith.ideal`), `D` the largest representable duration.
-/
namespace KG.Lemmas.TokenBucket
open KG.Model.TokenBucket KG.Spec.TokenBucket

/-- What the proofs use of the two non-real operations. -/
structure ArithOK (A : Arith) (q D : Rat) : Prop where
  q_nonneg : 0 ≤ q
  tr_nonneg : ∀ x, 0 ≤ x → 0 ≤ A.tr x
  tr_le : ∀ x, 0 ≤ x → A.tr x ≤ x
  tr_mono : ∀ x y, 0 ≤ x → x ≤ y → A.tr x ≤ A.tr y
  /-- what truncation drops is itself truncated to nothing -/
  tr_resid : ∀ x, 0 ≤ x → A.tr (x - A.tr x) ≤ 0
  tr_slack : ∀ x, 0 ≤ x → A.tr x ≤ 0 → x ≤ q
  sat_nonneg : ∀ x, 0 ≤ x → 0 ≤ A.sat x
  sat_le : ∀ x, 0 ≤ x → A.sat x ≤ x
  sat_id : ∀ x, 0 ≤ x → x ≤ D → A.sat x = x
  sat_ge : ∀ x, D ≤ x → D ≤ A.sat x

/-! ### the two instances -/

theorem truncZ_of_nonneg {x : Rat} (h : 0 ≤ x) : truncZ x = x.floor := by
  unfold truncZ; simp [h]

theorem ns_ok : ArithOK Arith.ns 1 (maxDuration : Rat) where
  q_nonneg := by decide
  tr_nonneg := by
    intro x hx
    show (0 : Rat) ≤ ((truncZ x : Int) : Rat)
    rw [truncZ_of_nonneg hx]
    have : (0 : Int) ≤ x.floor := Rat.le_floor_iff.2 (by simpa using hx)
    exact_mod_cast this
  tr_le := by
    intro x hx
    show ((truncZ x : Int) : Rat) ≤ x
    rw [truncZ_of_nonneg hx]; exact Rat.floor_le x
  tr_mono := by
    intro x y hx hxy
    show ((truncZ x : Int) : Rat) ≤ ((truncZ y : Int) : Rat)
    rw [truncZ_of_nonneg hx, truncZ_of_nonneg (Rat.le_trans hx hxy)]
    exact_mod_cast Rat.floor_monotone hxy
  tr_resid := by
    intro x hx
    show ((truncZ (x - ((truncZ x : Int) : Rat)) : Int) : Rat) ≤ 0
    rw [truncZ_of_nonneg hx]
    have h1 : (x.floor : Rat) ≤ x := Rat.floor_le x
    have h2 : x < ((x.floor + 1 : Int) : Rat) := Rat.lt_floor_add_one x
    have h0 : 0 ≤ x - (x.floor : Rat) := by grind
    rw [truncZ_of_nonneg h0]
    have h3 : x - (x.floor : Rat) < ((1 : Int) : Rat) := by
      have : ((x.floor + 1 : Int) : Rat) = (x.floor : Rat) + 1 := by simp [Rat.intCast_add]
      simp; grind
    have : (x - (x.floor : Rat)).floor < 1 := Rat.floor_lt_iff.2 h3
    have : (x - (x.floor : Rat)).floor ≤ 0 := by omega
    exact_mod_cast this
  tr_slack := by
    intro x hx h
    have h' : ((truncZ x : Int) : Rat) ≤ 0 := h
    rw [truncZ_of_nonneg hx] at h'
    have h2 : x < ((x.floor + 1 : Int) : Rat) := Rat.lt_floor_add_one x
    have : ((x.floor + 1 : Int) : Rat) = (x.floor : Rat) + 1 := by simp [Rat.intCast_add]
    grind
  sat_nonneg := by
    intro x hx
    show 0 ≤ satDur x
    unfold satDur
    have : (0 : Rat) ≤ (maxDuration : Rat) := by decide
    split
    · exact this
    · split
      · have : (minDuration : Rat) < 0 := by decide
        grind
      · exact hx
  sat_le := by
    intro x hx
    show satDur x ≤ x
    unfold satDur
    split
    · grind
    · split
      · have : (minDuration : Rat) < 0 := by decide
        grind
      · exact Rat.le_refl
  sat_id := by
    intro x hx hD
    show satDur x = x
    unfold satDur
    have : (minDuration : Rat) < 0 := by decide
    split
    · grind
    · split
      · grind
      · rfl
  sat_ge := by
    intro x hD
    show (maxDuration : Rat) ≤ satDur x
    unfold satDur
    have : (minDuration : Rat) < 0 := by decide
    have : (0 : Rat) ≤ (maxDuration : Rat) := by decide
    split
    · exact Rat.le_refl
    · split
      · grind
      · exact hD

theorem ideal_ok (D : Rat) : ArithOK Arith.ideal 0 D where
  q_nonneg := Rat.le_refl
  tr_nonneg := fun _ h => h
  tr_le := fun _ _ => Rat.le_refl
  tr_mono := fun _ _ _ h => h
  tr_resid := by intro x _; show x - x ≤ 0; grind
  tr_slack := fun _ _ h => h
  sat_nonneg := fun _ h => h
  sat_le := fun _ _ => Rat.le_refl
  sat_id := fun _ _ _ => rfl
  sat_ge := fun _ h => h


/-! ### units -/

/-- tokens per nanosecond -/
def K (p : Params) : Rat := p.limit / 1000000000
/-- nanoseconds per token -/
def Ki (p : Params) : Rat := 1000000000 / p.limit

theorem K_pos {p : Params} (h : 0 < p.limit) : 0 < K p := by
  unfold K; rw [Rat.div_def]
  exact Rat.mul_pos h (Rat.inv_pos.2 (by decide))

theorem Ki_pos {p : Params} (h : 0 < p.limit) : 0 < Ki p := by
  unfold Ki; rw [Rat.div_def]
  exact Rat.mul_pos (by decide) (Rat.inv_pos.2 h)

theorem Ki_mul_K {p : Params} (h : 0 < p.limit) : Ki p * K p = 1 := by
  have : p.limit ≠ 0 := by grind
  unfold K Ki; grind

theorem dft_eq (A : Arith) (p : Params) (x : Rat) : durationFromTokens A p x = A.tr (x * Ki p) := by
  unfold durationFromTokens Ki
  congr 1
  rw [Rat.div_def, Rat.div_def]; grind

theorem tfd_eq (p : Params) (d : Rat) : tokensFromDuration p d = d * K p := by
  unfold tokensFromDuration K
  rw [Rat.div_def, Rat.div_def]; grind

theorem mul_Ki_mul_K {p : Params} (h : 0 < p.limit) (x : Rat) : x * Ki p * K p = x := by
  rw [Rat.mul_assoc, Ki_mul_K h]; grind

theorem mul_le_mul_K {p : Params} (h : 0 < p.limit) {a b : Rat} (hab : a ≤ b) : a * K p ≤ b * K p :=
  Rat.mul_le_mul_of_nonneg_right hab (by have := K_pos h; grind)

theorem mul_le_mul_Ki {p : Params} (h : 0 < p.limit) {a b : Rat} (hab : a ≤ b) : a * Ki p ≤ b * Ki p :=
  Rat.mul_le_mul_of_nonneg_right hab (by have := Ki_pos h; grind)

theorem mul_Ki_nonneg {p : Params} (h : 0 < p.limit) {a : Rat} (ha : 0 ≤ a) : 0 ≤ a * Ki p :=
  Rat.mul_nonneg ha (by have := Ki_pos h; grind)

theorem mul_K_nonneg {p : Params} (h : 0 < p.limit) {a : Rat} (ha : 0 ≤ a) : 0 ≤ a * K p :=
  Rat.mul_nonneg ha (by have := K_pos h; grind)

/-! ### the admission test and the invariant -/

/-- the part of `reserveN`'s test that depends on the bucket: `waitDuration ≤ maxFutureReserve (= 0)` -/
def waitOK (A : Arith) (p : Params) (x : Rat) : Prop :=
  (if x < 0 then durationFromTokens A p (-x) else 0) ≤ 0

theorem waitOK_of_nonneg (A : Arith) (p : Params) {x : Rat} (h : 0 ≤ x) : waitOK A p x := by
  unfold waitOK
  have : ¬ x < 0 := by grind
  simp [this]

/-- upward closed: more tokens never hurt -/
theorem waitOK_mono {A : Arith} {q D : Rat} (hA : ArithOK A q D) {p : Params} (hL : 0 < p.limit)
    {x y : Rat} (hxy : x ≤ y) (hx : waitOK A p x) : waitOK A p y := by
  by_cases hy : 0 ≤ y
  · exact waitOK_of_nonneg A p hy
  · have hy' : y < 0 := by grind
    have hx' : x < 0 := by grind
    unfold waitOK at *
    simp only [hy', hx', if_true] at *
    rw [dft_eq] at *
    have h1 : 0 ≤ -y * Ki p := mul_Ki_nonneg hL (by grind)
    have h2 : -y * Ki p ≤ -x * Ki p := mul_le_mul_Ki hL (by grind)
    exact Rat.le_trans (hA.tr_mono _ _ h1 h2) hx

/-- an admissible level is at most `q` nanoseconds' worth below zero -/
theorem waitOK_lower {A : Arith} {q D : Rat} (hA : ArithOK A q D) {p : Params} (hL : 0 < p.limit)
    {x : Rat} (hx : waitOK A p x) : -(q * K p) ≤ x := by
  by_cases h0 : 0 ≤ x
  · have := mul_K_nonneg hL hA.q_nonneg
    grind
  · have hx' : x < 0 := by grind
    unfold waitOK at hx
    simp only [hx', if_true] at hx
    rw [dft_eq] at hx
    have h1 : 0 ≤ -x * Ki p := mul_Ki_nonneg hL (by grind)
    have h2 := hA.tr_slack _ h1 hx
    have h3 := mul_le_mul_K hL h2
    rw [mul_Ki_mul_K hL] at h3
    grind

/-- parameters a `rate.Limiter` is built with here: a positive rate, a non-negative burst, and a burst that is
    refilled within the largest representable duration (true with a wide margin for every `int32` schema with
    `qps ≥ 1`: 2^31 s < 2^63 ns). -/
structure Valid (p : Params) (q D : Rat) : Prop where
  limit_pos : 0 < p.limit
  burst_nonneg : 0 ≤ p.burst
  refill_fits : (p.burst : Rat) * Ki p + q ≤ D

/-- invariant of the limiter state -/
def Inv (A : Arith) (p : Params) (s : State) : Prop :=
  s.tokens ≤ (p.burst : Rat) ∧ waitOK A p s.tokens

theorem burst_nonneg' {p : Params} (h : 0 ≤ p.burst) : (0 : Rat) ≤ (p.burst : Rat) := by
  exact_mod_cast h

theorem inv_init (A : Arith) (p : Params) (h : 0 ≤ p.burst) : Inv A p State.init := by
  refine ⟨?_, waitOK_of_nonneg A p (by decide)⟩
  show (0 : Rat) ≤ (p.burst : Rat)
  exact burst_nonneg' h


/-! ### `advance` -/

def advLast (s : State) (now : Rat) : Rat := if now < s.last then now else s.last
def advMaxEl (A : Arith) (p : Params) (s : State) : Rat := A.tr (((p.burst : Rat) - s.tokens) * Ki p)
def advEl (A : Arith) (p : Params) (s : State) (now : Rat) : Rat :=
  if A.sat (now - advLast s now) > advMaxEl A p s then advMaxEl A p s else A.sat (now - advLast s now)
def advTok (A : Arith) (p : Params) (s : State) (now : Rat) : Rat :=
  if s.tokens + advEl A p s now * K p > (p.burst : Rat) then (p.burst : Rat) else s.tokens + advEl A p s now * K p

theorem advance_eq (A : Arith) (p : Params) (s : State) (now : Rat) :
    advance A p s now = (advLast s now, advTok A p s now) := by
  unfold advance advTok advEl advMaxEl advLast
  simp only [dft_eq, tfd_eq]

theorem advLast_le (s : State) (now : Rat) : advLast s now ≤ now := by
  unfold advLast; split <;> grind

theorem advLast_of_le {s : State} {now : Rat} (h : s.last ≤ now) : advLast s now = s.last := by
  unfold advLast
  have : ¬ now < s.last := by grind
  simp [this]

section
set_option linter.unusedSectionVars false
set_option linter.unusedVariables false
variable {A : Arith} {q D : Rat} (hA : ArithOK A q D) {p : Params} (hV : Valid p q D)
include hA hV

theorem advMaxEl_nonneg {s : State} (hI : Inv A p s) : 0 ≤ advMaxEl A p s :=
  hA.tr_nonneg _ (mul_Ki_nonneg hV.limit_pos (by have := hI.1; grind))

theorem advMaxEl_mul_K_le {s : State} (hI : Inv A p s) : advMaxEl A p s * K p ≤ (p.burst : Rat) - s.tokens := by
  have h0 : 0 ≤ ((p.burst : Rat) - s.tokens) * Ki p := mul_Ki_nonneg hV.limit_pos (by have := hI.1; grind)
  have h1 := mul_le_mul_K hV.limit_pos (hA.tr_le _ h0)
  rw [mul_Ki_mul_K hV.limit_pos] at h1
  exact h1

theorem advMaxEl_le_D {s : State} (hI : Inv A p s) : advMaxEl A p s ≤ D := by
  have h0 : 0 ≤ ((p.burst : Rat) - s.tokens) * Ki p := mul_Ki_nonneg hV.limit_pos (by have := hI.1; grind)
  have h1 := hA.tr_le _ h0
  have h2 := waitOK_lower hA hV.limit_pos hI.2
  -- (B - tokens)·Ki ≤ (B + q·K)·Ki = B·Ki + q
  have h3 : ((p.burst : Rat) - s.tokens) * Ki p ≤ ((p.burst : Rat) + q * K p) * Ki p :=
    mul_le_mul_Ki hV.limit_pos (by grind)
  have h4 : ((p.burst : Rat) + q * K p) * Ki p = (p.burst : Rat) * Ki p + q := by
    have := Ki_mul_K hV.limit_pos
    have h5 : q * K p * Ki p = q * (Ki p * K p) := by grind
    have h6 : ((p.burst : Rat) + q * K p) * Ki p = (p.burst : Rat) * Ki p + q * K p * Ki p := by grind
    rw [h6, h5, this]; grind
  have := hV.refill_fits
  unfold advMaxEl
  grind

theorem advEl_nonneg {s : State} (hI : Inv A p s) (now : Rat) : 0 ≤ advEl A p s now := by
  unfold advEl
  have h1 := advMaxEl_nonneg hA hV hI
  have h2 := hA.sat_nonneg (now - advLast s now) (by have := advLast_le s now; grind)
  split <;> assumption

theorem advEl_le_maxEl {s : State} (now : Rat) : advEl A p s now ≤ advMaxEl A p s := by
  unfold advEl
  split <;> grind

theorem advEl_le_elapsed {s : State} (hI : Inv A p s) (now : Rat) : advEl A p s now ≤ now - advLast s now := by
  unfold advEl
  have h2 := hA.sat_le (now - advLast s now) (by have := advLast_le s now; grind)
  split <;> grind

/-- `advance` never yields more than `burst` -/
theorem advTok_le_burst (s : State) (now : Rat) : advTok A p s now ≤ (p.burst : Rat) := by
  unfold advTok; split <;> grind

/-- time only adds tokens -/
theorem le_advTok {s : State} (hI : Inv A p s) (now : Rat) : s.tokens ≤ advTok A p s now := by
  unfold advTok
  have h1 := mul_K_nonneg hV.limit_pos (advEl_nonneg hA hV hI now)
  have := hI.1
  split <;> grind

/-- ... and at most `qps · elapsed` -/
theorem advTok_le_refill {s : State} (hI : Inv A p s) {now : Rat} (h : s.last ≤ now) :
    advTok A p s now ≤ s.tokens + (now - s.last) * K p := by
  have h1 := advEl_le_elapsed hA hV hI now
  rw [advLast_of_le h] at h1
  have h2 := mul_le_mul_K hV.limit_pos h1
  unfold advTok
  have := hI.1
  have h3 := mul_K_nonneg hV.limit_pos (advEl_nonneg hA hV hI now)
  split <;> grind

theorem advTok_waitOK {s : State} (hI : Inv A p s) (now : Rat) : waitOK A p (advTok A p s now) :=
  waitOK_mono hA hV.limit_pos (le_advTok hA hV hI now) hI.2

end


/-! ### `allow` (= `reserveN now 1 0`) -/

theorem allow_admit (A : Arith) (p : Params) (s : State) (now : Rat)
    (hb : 1 ≤ p.burst) (hw : waitOK A p (advTok A p s now - 1)) :
    allow A p s now = (true, { tokens := advTok A p s now - 1, last := now }) := by
  unfold allow reserveN
  rw [advance_eq]
  have h1 : (((1 : Int) : Rat)) = 1 := by simp
  simp only [h1]
  unfold waitOK at hw
  simp [hb, hw]

theorem allow_refuse (A : Arith) (p : Params) (s : State) (now : Rat)
    (h : ¬ (1 ≤ p.burst ∧ waitOK A p (advTok A p s now - 1))) :
    allow A p s now = (false, { tokens := s.tokens, last := advLast s now }) := by
  unfold allow reserveN
  rw [advance_eq]
  have h1 : (((1 : Int) : Rat)) = 1 := by simp
  simp only [h1]
  unfold waitOK at h
  by_cases hb : 1 ≤ p.burst
  · have hw : ¬ ((if advTok A p s now - 1 < 0 then durationFromTokens A p (-(advTok A p s now - 1)) else 0) ≤ 0) :=
      fun hw => h ⟨hb, hw⟩
    simp [hw]
  · simp [hb]

/-- the three things that can happen in one call -/
theorem allow_cases (A : Arith) (p : Params) (s : State) (now : Rat) :
    (1 ≤ p.burst ∧ waitOK A p (advTok A p s now - 1) ∧
      allow A p s now = (true, { tokens := advTok A p s now - 1, last := now })) ∨
    (allow A p s now = (false, { tokens := s.tokens, last := advLast s now })) := by
  by_cases h : 1 ≤ p.burst ∧ waitOK A p (advTok A p s now - 1)
  · exact Or.inl ⟨h.1, h.2, allow_admit A p s now h.1 h.2⟩
  · exact Or.inr (allow_refuse A p s now h)

theorem state_eta (s : State) : ({ tokens := s.tokens, last := s.last } : State) = s := by
  cases s; rfl

section
set_option linter.unusedSectionVars false
set_option linter.unusedVariables false
variable {A : Arith} {q D : Rat} (hA : ArithOK A q D) {p : Params} (hV : Valid p q D)
include hA hV

/-- the invariant is preserved by every call, whatever the timestamp -/
theorem allow_inv {s : State} (hI : Inv A p s) (now : Rat) : Inv A p (allow A p s now).2 := by
  rcases allow_cases A p s now with ⟨_, hw, he⟩ | he
  · rw [he]
    refine ⟨?_, hw⟩
    have := advTok_le_burst hA hV s now
    show advTok A p s now - 1 ≤ (p.burst : Rat)
    grind
  · rw [he]; exact hI

end

/-! ### traces -/

/-- the events of a run: `(clock reading, admitted)` -/
def trace (A : Arith) (p : Params) : State → List Rat → List Event
  | _, [] => []
  | s, now :: rest => (now, (allow A p s now).1) :: trace A p (allow A p s now).2 rest

theorem trace_eq_zip (A : Arith) (p : Params) (s : State) (nows : List Rat) :
    trace A p s nows = nows.zip (run A p s nows).1 := by
  induction nows generalizing s with
  | nil => simp [trace, run]
  | cons now rest ih => simp [trace, run, ih]

/-- non-decreasing, starting at or after `a` -/
def sortedFrom : Rat → List Rat → Prop
  | _, [] => True
  | a, b :: r => a ≤ b ∧ sortedFrom b r

theorem sortedFrom_mono {a a' : Rat} (h : a' ≤ a) : ∀ {l : List Rat}, sortedFrom a l → sortedFrom a' l
  | [], _ => trivial
  | _ :: _, ⟨h1, h2⟩ => ⟨Rat.le_trans h h1, h2⟩

/-- admitted events up to `t1` -/
def countLe (t1 : Rat) : List Event → Nat
  | [] => 0
  | e :: r => (if e.2 = true ∧ e.1 ≤ t1 then 1 else 0) + countLe t1 r

theorem countIn_le_countLe (t0 t1 : Rat) (ev : List Event) : countIn t0 t1 ev ≤ countLe t1 ev := by
  induction ev with
  | nil => simp [countIn, countLe]
  | cons e r ih =>
    simp only [countIn, countLe]
    by_cases h : e.2 = true ∧ t0 ≤ e.1 ∧ e.1 ≤ t1
    · have : e.2 = true ∧ e.1 ≤ t1 := ⟨h.1, h.2.2⟩
      simp [h]; omega
    · simp only [h, if_false]
      split <;> omega

theorem countLe_zero_of_gt (A : Arith) (p : Params) (t1 : Rat) :
    ∀ (nows : List Rat) (s : State) (a : Rat), t1 < a → sortedFrom a nows → countLe t1 (trace A p s nows) = 0
  | [], _, _, _, _ => rfl
  | now :: rest, s, a, h, hs => by
    have h1 : t1 < now := by have := hs.1; grind
    have h2 : ¬ now ≤ t1 := by grind
    simp only [trace, countLe]
    rw [countLe_zero_of_gt A p t1 rest _ now h1 hs.2]
    simp [h2]

theorem countIn_zero_of_gt (A : Arith) (p : Params) (t0 t1 : Rat)
    (nows : List Rat) (s : State) (a : Rat) (h : t1 < a) (hs : sortedFrom a nows) :
    countIn t0 t1 (trace A p s nows) = 0 := by
  have := countIn_le_countLe t0 t1 (trace A p s nows)
  rw [countLe_zero_of_gt A p t1 nows s a h hs] at this
  omega


/-! ### upper bound -/

section
set_option linter.unusedSectionVars false
set_option linter.unusedVariables false
variable {A : Arith} {q D : Rat} (hA : ArithOK A q D) {p : Params} (hV : Valid p q D)
include hA hV

/-- potential argument: from a state whose clock is at `s.last ≤ t1`, the calls up to `t1` admit at most
    what is in the bucket, plus what `t1 - s.last` refills, plus the forgiven deficit. -/
theorem countLe_bound (t1 : Rat) :
    ∀ (nows : List Rat) (s : State), Inv A p s → sortedFrom s.last nows → s.last ≤ t1 →
      (countLe t1 (trace A p s nows) : Rat) ≤ s.tokens + q * K p + (t1 - s.last) * K p
  | [], s, hI, _, hle => by
    have h1 := waitOK_lower hA hV.limit_pos hI.2
    have h2 := mul_K_nonneg hV.limit_pos (a := t1 - s.last) (by grind)
    simp only [trace, countLe]
    have : ((0 : Nat) : Rat) = 0 := by simp
    rw [this]; grind
  | now :: rest, s, hI, hs, hle => by
    have hnow : s.last ≤ now := hs.1
    by_cases hgt : t1 < now
    · -- this call and all later ones are after t1
      have h0 : countLe t1 (trace A p s (now :: rest)) = 0 :=
        countLe_zero_of_gt A p t1 (now :: rest) s now hgt ⟨Rat.le_refl, hs.2⟩
      rw [h0]
      have h1 := waitOK_lower hA hV.limit_pos hI.2
      have h2 := mul_K_nonneg hV.limit_pos (a := t1 - s.last) (by grind)
      have : ((0 : Nat) : Rat) = 0 := by simp
      rw [this]; grind
    · have hle1 : now ≤ t1 := by grind
      rcases allow_cases A p s now with ⟨_, hw, he⟩ | he
      · -- admitted
        have hI' : Inv A p (allow A p s now).2 := allow_inv hA hV hI now
        have ih := countLe_bound t1 rest (allow A p s now).2 hI' (by rw [he]; exact hs.2) (by rw [he]; exact hle1)
        simp only [trace, countLe]
        rw [he] at ih ⊢
        simp only [hle1, and_self, if_true] at ih ⊢
        have h3 := advTok_le_refill hA hV hI hnow
        have h4 : (t1 - now) * K p + (now - s.last) * K p = (t1 - s.last) * K p := by grind
        have : ((1 + countLe t1 (trace A p { tokens := advTok A p s now - 1, last := now } rest) : Nat) : Rat)
            = 1 + (countLe t1 (trace A p { tokens := advTok A p s now - 1, last := now } rest) : Rat) := by
          simp [Rat.natCast_add]
        rw [this]
        grind
      · -- refused: the state is unchanged
        have hst : (allow A p s now).2 = s := by
          rw [he]; show ({ tokens := s.tokens, last := advLast s now } : State) = s
          rw [advLast_of_le hnow]
        have ih := countLe_bound t1 rest s hI (sortedFrom_mono hnow hs.2) hle
        simp only [trace, countLe]
        rw [hst]
        rw [he]
        simpa using ih

/-- **every window**: the calls with clock reading in `[t0, t1]` admit at most `burst + qps·(t1 - t0)` plus
    the forgiven deficit (`q` nanoseconds' worth). -/
theorem countIn_bound (t0 t1 : Rat) (h01 : t0 ≤ t1) :
    ∀ (nows : List Rat) (s : State), Inv A p s → sortedFrom s.last nows →
      (countIn t0 t1 (trace A p s nows) : Rat) ≤ (p.burst : Rat) + q * K p + (t1 - t0) * K p
  | [], s, _, _ => by
    have h1 := burst_nonneg' hV.burst_nonneg
    have h2 := mul_K_nonneg hV.limit_pos hA.q_nonneg
    have h3 := mul_K_nonneg hV.limit_pos (a := t1 - t0) (by grind)
    simp only [trace, countIn]
    have : ((0 : Nat) : Rat) = 0 := by simp
    rw [this]; grind
  | now :: rest, s, hI, hs => by
    have hnow : s.last ≤ now := hs.1
    have hI' : Inv A p (allow A p s now).2 := allow_inv hA hV hI now
    have hB := burst_nonneg' hV.burst_nonneg
    have hq := mul_K_nonneg hV.limit_pos hA.q_nonneg
    have hT := mul_K_nonneg hV.limit_pos (a := t1 - t0) (by grind)
    by_cases hgt : t1 < now
    · have h0 : countIn t0 t1 (trace A p s (now :: rest)) = 0 :=
        countIn_zero_of_gt A p t0 t1 (now :: rest) s now hgt ⟨Rat.le_refl, hs.2⟩
      rw [h0]
      have : ((0 : Nat) : Rat) = 0 := by simp
      rw [this]; grind
    · have hle1 : now ≤ t1 := by grind
      rcases allow_cases A p s now with ⟨_, hw, he⟩ | he
      · -- admitted
        by_cases hlt : now < t0
        · -- before the window: not counted
          have ih := countIn_bound t0 t1 h01 rest (allow A p s now).2 hI' (by rw [he]; exact hs.2)
          simp only [trace, countIn]
          have : ¬ (t0 ≤ now) := by grind
          simp only [this, false_and, and_false, if_false]
          simpa using ih
        · have hge : t0 ≤ now := by grind
          have h1 := countLe_bound hA hV t1 rest (allow A p s now).2 hI' (by rw [he]; exact hs.2) (by rw [he]; exact hle1)
          have h2 := countIn_le_countLe t0 t1 (trace A p (allow A p s now).2 rest)
          have h2' : (countIn t0 t1 (trace A p (allow A p s now).2 rest) : Rat)
              ≤ (countLe t1 (trace A p (allow A p s now).2 rest) : Rat) := by exact_mod_cast h2
          simp only [trace, countIn]
          rw [he] at h1 h2' ⊢
          simp only [hge, hle1, and_self, if_true] at h1 ⊢
          have h3 := advTok_le_burst hA hV s now
          have h4 : (t1 - now) * K p ≤ (t1 - t0) * K p := mul_le_mul_K hV.limit_pos (by grind)
          have : ((1 + countIn t0 t1 (trace A p { tokens := advTok A p s now - 1, last := now } rest) : Nat) : Rat)
              = 1 + (countIn t0 t1 (trace A p { tokens := advTok A p s now - 1, last := now } rest) : Rat) := by
            simp [Rat.natCast_add]
          rw [this]
          grind
      · -- refused
        have hst : (allow A p s now).2 = s := by
          rw [he]; show ({ tokens := s.tokens, last := advLast s now } : State) = s
          rw [advLast_of_le hnow]
        have ih := countIn_bound t0 t1 h01 rest s hI (sortedFrom_mono hnow hs.2)
        simp only [trace, countIn]
        rw [hst]
        rw [he]
        simpa using ih

end


/-! ### lower bound -/

section
set_option linter.unusedSectionVars false
set_option linter.unusedVariables false
variable {A : Arith} {q D : Rat} (hA : ArithOK A q D) {p : Params} (hV : Valid p q D)
include hA hV

/-- if the level reached by `advance` is enough for `m` more tokens, the next `m` calls are admitted
    (whatever their timestamps) -/
theorem refusedAmong_zero : ∀ (m : Nat) (nows : List Rat) (s : State), Inv A p s → (m : Rat) ≤ (p.burst : Rat) →
    (∀ now rest, nows = now :: rest → waitOK A p (advTok A p s now - (m : Rat))) →
    refusedAmong m (trace A p s nows) = 0
  | 0, _, _, _, _, _ => by simp [refusedAmong]
  | m + 1, [], _, _, _, _ => by simp [trace, refusedAmong]
  | m + 1, now :: rest, s, hI, hm, h => by
    have hcast : ((m + 1 : Nat) : Rat) = (m : Rat) + 1 := by simp [Rat.natCast_add]
    have hm0 : (0 : Rat) ≤ (m : Rat) := by
      have : (0 : Nat) ≤ m := Nat.zero_le m
      exact_mod_cast this
    have hw := h now rest rfl
    rw [hcast] at hw hm
    have hb : 1 ≤ p.burst := by
      have : ((1 : Int) : Rat) ≤ (p.burst : Rat) := by simp; grind
      exact_mod_cast this
    have hw1 : waitOK A p (advTok A p s now - 1) := waitOK_mono hA hV.limit_pos (by grind) hw
    have he := allow_admit A p s now hb hw1
    have hI' : Inv A p (allow A p s now).2 := allow_inv hA hV hI now
    simp only [trace, refusedAmong]
    rw [he] at hI' ⊢
    have ih := refusedAmong_zero m rest { tokens := advTok A p s now - 1, last := now } hI' (by grind)
      (by
        intro now2 rest2 _
        have h1 := le_advTok hA hV hI' now2
        have h1' : advTok A p s now - 1 ≤ advTok A p { tokens := advTok A p s now - 1, last := now } now2 := h1
        exact waitOK_mono hA hV.limit_pos (by grind) hw)
    simp [ih]

theorem advEl_cases {s : State} (hI : Inv A p s) {now : Rat} (h : s.last ≤ now) :
    advEl A p s now = advMaxEl A p s ∨ advEl A p s now = now - s.last := by
  have hx : 0 ≤ now - s.last := by grind
  have hm := advMaxEl_le_D hA hV hI
  unfold advEl
  rw [advLast_of_le h]
  by_cases hD : now - s.last ≤ D
  · rw [hA.sat_id _ hx hD]
    split
    · exact Or.inl rfl
    · exact Or.inr rfl
  · have h1 := hA.sat_ge (now - s.last) (by grind)
    split
    · exact Or.inl rfl
    · left; grind

/-- after `now - s.last` of idleness the level reached covers `k` tokens, for every `k ≤ burst`, `k ≤ qps·idle` -/
theorem idle_level {s : State} (hI : Inv A p s) {now : Rat} (h : s.last ≤ now) {k : Rat}
    (hk0 : 0 ≤ k) (hkB : k ≤ (p.burst : Rat)) (hkT : k ≤ (now - s.last) * K p) :
    waitOK A p (advTok A p s now - k) := by
  have hL := hV.limit_pos
  have hcap := advMaxEl_mul_K_le hA hV hI
  rcases advEl_cases hA hV hI h with he | he
  · -- refilled to the brim (up to what truncation drops)
    have htok : advTok A p s now = s.tokens + advMaxEl A p s * K p := by
      unfold advTok; rw [he]
      have : ¬ (s.tokens + advMaxEl A p s * K p > (p.burst : Rat)) := by grind
      simp [this]
    rw [htok]
    -- need = (B - tokens)·Ki, ρ = need - tr need
    have hneed : 0 ≤ ((p.burst : Rat) - s.tokens) * Ki p := mul_Ki_nonneg hL (by have := hI.1; grind)
    have hres := hA.tr_resid _ hneed
    have hle := hA.tr_le _ hneed
    have hρK : (((p.burst : Rat) - s.tokens) * Ki p - advMaxEl A p s) * K p
        = ((p.burst : Rat) - s.tokens) - advMaxEl A p s * K p := by
      have := mul_Ki_mul_K hL ((p.burst : Rat) - s.tokens)
      grind
    have hw : waitOK A p (-((((p.burst : Rat) - s.tokens) * Ki p - advMaxEl A p s) * K p)) := by
      by_cases h0 : 0 ≤ -((((p.burst : Rat) - s.tokens) * Ki p - advMaxEl A p s) * K p)
      · exact waitOK_of_nonneg A p h0
      · have hneg : -((((p.burst : Rat) - s.tokens) * Ki p - advMaxEl A p s) * K p) < 0 := by grind
        unfold waitOK
        simp only [hneg, if_true]
        rw [dft_eq]
        have : - -((((p.burst : Rat) - s.tokens) * Ki p - advMaxEl A p s) * K p) * Ki p
            = ((p.burst : Rat) - s.tokens) * Ki p - advMaxEl A p s := by
          have h1 : ∀ y : Rat, - -(y * K p) * Ki p = y * (Ki p * K p) := by intro y; grind
          rw [h1, Ki_mul_K hL]; grind
        rw [this]
        exact hres
    exact waitOK_mono hA hL (by grind) hw
  · -- not full: everything that elapsed was credited
    unfold advTok; rw [he]
    split
    · exact waitOK_of_nonneg A p (by grind)
    · exact waitOK_mono hA hL (by grind) hI.2

end


/-! ### the small-step system: every execution is a sequential run with non-decreasing clock readings -/

/-- the limiter state after a run -/
def fin (A : Arith) (p : Params) : State → List Rat → State
  | s, [] => s
  | s, now :: rest => fin A p (allow A p s now).2 rest

theorem fin_append (A : Arith) (p : Params) (now : Rat) :
    ∀ (l : List Rat) (s : State), fin A p s (l ++ [now]) = (allow A p (fin A p s l) now).2
  | [], _ => rfl
  | x :: l, _ => by simp only [List.cons_append, fin]; exact fin_append A p now l _

theorem trace_append (A : Arith) (p : Params) (now : Rat) :
    ∀ (l : List Rat) (s : State),
      trace A p s (l ++ [now]) = trace A p s l ++ [(now, (allow A p (fin A p s l) now).1)]
  | [], _ => rfl
  | _ :: l, _ => by
    simp only [List.cons_append, trace, fin]
    rw [trace_append A p now l _]

theorem fin_inv {A : Arith} {q D : Rat} (hA : ArithOK A q D) {p : Params} (hV : Valid p q D) :
    ∀ (l : List Rat) (s : State), Inv A p s → Inv A p (fin A p s l)
  | [], _, h => h
  | x :: l, _, h => fin_inv hA hV l _ (allow_inv hA hV h x)

theorem sortedFrom_snoc {b : Rat} : ∀ {l : List Rat} {a : Rat}, sortedFrom a l → (∀ x ∈ l, x ≤ b) → a ≤ b →
    sortedFrom a (l ++ [b])
  | [], _, _, _, hab => ⟨hab, trivial⟩
  | x :: l, _, hs, hl, _ =>
    ⟨hs.1, sortedFrom_snoc hs.2 (fun y hy => hl y (List.mem_cons_of_mem _ hy)) (hl x (List.mem_cons_self ..))⟩

theorem countIn_append (t0 t1 : Rat) : ∀ (l1 l2 : List Event),
    countIn t0 t1 (l1 ++ l2) = countIn t0 t1 l1 + countIn t0 t1 l2
  | [], l2 => by simp [countIn]
  | e :: l1, l2 => by simp only [List.cons_append, countIn, countIn_append t0 t1 l1 l2]; omega

theorem countIn_reverse (t0 t1 : Rat) : ∀ (l : List Event), countIn t0 t1 l.reverse = countIn t0 t1 l
  | [] => rfl
  | e :: l => by
    rw [List.reverse_cons, countIn_append, countIn_reverse t0 t1 l]
    simp only [countIn]; omega

def doneEv (d : Done) : Event := (d.now, d.ok)

/-- the event of the call that has updated the bucket but not returned yet -/
def critEv : Option (Nat × Phase) → List Event
  | some (_, .done _ now ok) => [(now, ok)]
  | _ => []

/-- all bucket updates so far, in order -/
def sysEvs (c : Sys) : List Event := (c.log.reverse.map doneEv) ++ critEv c.crit

def critInv (s0 : State) (clock : Rat) (nows : List Rat) : Option (Nat × Phase) → Prop
  | none => True
  | some (_, .held st) => st ≤ clock
  | some (_, .read st now) => st ≤ now ∧ now ≤ clock ∧ (∀ x ∈ nows, x ≤ now) ∧ s0.last ≤ now
  | some (_, .done st now _) => st ≤ now ∧ now ≤ clock

/-- the configuration is the image of a sequential run over the clock readings `nows` -/
structure SysInv (A : Arith) (p : Params) (s0 : State) (c : Sys) (nows : List Rat) : Prop where
  lim : c.lim = fin A p s0 nows
  sorted : sortedFrom s0.last nows
  le_clock : ∀ x ∈ nows, x ≤ c.clock
  base : s0.last ≤ c.clock
  evs : sysEvs c = trace A p s0 nows
  log : ∀ d ∈ c.log, d.start ≤ d.now ∧ d.now ≤ d.fin
  crit : critInv s0 c.clock nows c.crit
  pend : ∀ x ∈ c.pending, x.2 ≤ c.clock

theorem sysInv_init (A : Arith) (p : Params) (s0 : State) (clock : Rat) (h : s0.last ≤ clock) :
    SysInv A p s0 (Sys.init s0 clock) [] where
  lim := rfl
  sorted := trivial
  le_clock := by intro x hx; cases hx
  base := h
  evs := rfl
  log := by intro d hd; cases hd
  crit := trivial
  pend := by intro x hx; cases hx

/-- the same for a configuration in which nobody holds the mutex and nothing is logged yet, with callers already
    waiting (what a `Resize`, which holds the mutex itself, leaves behind) -/
theorem sysInv_start (A : Arith) (p : Params) (c : Sys) (hc : c.crit = none) (hl : c.log = [])
    (h : c.lim.last ≤ c.clock) (hp : ∀ x ∈ c.pending, x.2 ≤ c.clock) :
    SysInv A p c.lim c [] where
  lim := rfl
  sorted := trivial
  le_clock := by intro x hx; cases hx
  base := h
  evs := by unfold sysEvs; rw [hc, hl]; rfl
  log := by intro d hd; rw [hl] at hd; cases hd
  crit := by rw [hc]; trivial
  pend := hp

theorem lookup_mem : ∀ (l : List (Nat × Rat)) (i : Nat) (st : Rat), l.lookup i = some st → (i, st) ∈ l
  | [], _, _, h => by simp [List.lookup] at h
  | (j, v) :: l, i, st, h => by
    by_cases hij : i = j
    · subst hij
      simp [List.lookup] at h
      subst h; exact List.mem_cons_self ..
    · have : (i == j) = false := by simpa using hij
      simp only [List.lookup, this] at h
      exact List.mem_cons_of_mem _ (lookup_mem l i st h)

theorem removeFirst_subset (i : Nat) : ∀ (l : List (Nat × Rat)) (x : Nat × Rat), x ∈ removeFirst i l → x ∈ l
  | [], _, h => by simp [removeFirst] at h
  | y :: l, x, h => by
    unfold removeFirst at h
    split at h
    · exact List.mem_cons_of_mem _ h
    · rcases List.mem_cons.1 h with h | h
      · rw [h]; exact List.mem_cons_self ..
      · exact List.mem_cons_of_mem _ (removeFirst_subset i l x h)

theorem critInv_mono {s0 : State} {c c' : Rat} {nows : List Rat} (h : c ≤ c') :
    ∀ {k : Option (Nat × Phase)}, critInv s0 c nows k → critInv s0 c' nows k
  | none, _ => trivial
  | some (_, .held _), hk => Rat.le_trans hk h
  | some (_, .read _ _), hk => ⟨hk.1, Rat.le_trans hk.2.1 h, hk.2.2⟩
  | some (_, .done _ _ _), hk => ⟨hk.1, Rat.le_trans hk.2 h⟩

/-- every enabled step keeps the configuration the image of a sequential, non-decreasing run -/
theorem step_inv {A : Arith} {p : Params} {s0 : State} {c c' : Sys} {nows : List Rat}
    (hI : SysInv A p s0 c nows) (st : Step) (h : c.step A p st = some c') :
    ∃ nows', SysInv A p s0 c' nows' := by
  cases st with
  | tick d =>
    simp only [Sys.step] at h
    split at h
    · rename_i hd
      injection h with h; subst h
      have hc : c.clock ≤ c.clock + d := by grind
      exact ⟨nows, ⟨hI.lim, hI.sorted, fun x hx => Rat.le_trans (hI.le_clock x hx) hc, Rat.le_trans hI.base hc,
        hI.evs, hI.log, critInv_mono hc hI.crit, fun x hx => Rat.le_trans (hI.pend x hx) hc⟩⟩
    · cases h
  | call i =>
    simp only [Sys.step] at h
    injection h with h; subst h
    refine ⟨nows, ⟨hI.lim, hI.sorted, hI.le_clock, hI.base, hI.evs, hI.log, hI.crit, ?_⟩⟩
    intro x hx
    rcases List.mem_cons.1 hx with hx | hx
    · rw [hx]; exact Rat.le_refl
    · exact hI.pend x hx
  | lock i =>
    simp only [Sys.step] at h
    split at h
    · rename_i stt hcrit hlook
      injection h with h; subst h
      have hm := lookup_mem _ _ _ hlook
      refine ⟨nows, ⟨hI.lim, hI.sorted, hI.le_clock, hI.base, ?_, hI.log, hI.pend _ hm, ?_⟩⟩
      · have := hI.evs
        unfold sysEvs at this ⊢
        rw [hcrit] at this
        simpa [critEv] using this
      · intro x hx
        exact hI.pend x (removeFirst_subset i _ x hx)
    · cases h
  | now =>
    simp only [Sys.step] at h
    split at h
    · rename_i i stt hcrit
      injection h with h; subst h
      have hk := hI.crit
      rw [hcrit] at hk
      refine ⟨nows, ⟨hI.lim, hI.sorted, hI.le_clock, hI.base, ?_, hI.log, ⟨hk, Rat.le_refl, hI.le_clock, hI.base⟩, hI.pend⟩⟩
      have := hI.evs
      unfold sysEvs at this ⊢
      rw [hcrit] at this
      simpa [critEv] using this
    · cases h
  | reserve =>
    simp only [Sys.step] at h
    split at h
    · rename_i i stt now hcrit
      injection h with h; subst h
      have hk := hI.crit
      rw [hcrit] at hk
      obtain ⟨h1, h2, h3, h4⟩ := hk
      refine ⟨nows ++ [now], ⟨?_, sortedFrom_snoc hI.sorted h3 h4, ?_, hI.base, ?_, hI.log, ⟨h1, h2⟩, hI.pend⟩⟩
      · show (allow A p c.lim now).2 = fin A p s0 (nows ++ [now])
        rw [fin_append, hI.lim]
      · intro x hx
        rcases List.mem_append.1 hx with hx | hx
        · exact hI.le_clock x hx
        · have : x = now := by simpa using hx
          rw [this]; exact h2
      · have := hI.evs
        unfold sysEvs at this ⊢
        rw [hcrit] at this
        simp only [critEv, List.append_nil] at this
        show c.log.reverse.map doneEv ++ critEv (some (i, Phase.done stt now (allow A p c.lim now).1)) = _
        rw [trace_append, ← this, hI.lim]
        rfl
    · cases h
  | ret =>
    simp only [Sys.step] at h
    split at h
    · rename_i i stt now ok hcrit
      injection h with h; subst h
      have hk := hI.crit
      rw [hcrit] at hk
      refine ⟨nows, ⟨hI.lim, hI.sorted, hI.le_clock, hI.base, ?_, ?_, trivial, hI.pend⟩⟩
      · have := hI.evs
        unfold sysEvs at this ⊢
        rw [hcrit] at this
        simp only [critEv] at this
        show ({ start := stt, now := now, fin := c.clock, ok := ok } :: c.log).reverse.map doneEv ++ critEv none = _
        rw [← this]
        simp [critEv, doneEv]
      · intro d hd
        rcases List.mem_cons.1 hd with hd | hd
        · rw [hd]; exact ⟨hk.1, hk.2⟩
        · exact hI.log d hd
    · cases h

theorem exec_inv {A : Arith} {p : Params} {s0 : State} :
    ∀ (steps : List Step) {c c' : Sys} {nows : List Rat}, SysInv A p s0 c nows →
      Sys.exec A p c steps = some c' → ∃ nows', SysInv A p s0 c' nows'
  | [], c, c', nows, hI, h => by
    simp only [Sys.exec] at h
    injection h with h; subst h
    exact ⟨nows, hI⟩
  | st :: rest, c, c', nows, hI, h => by
    simp only [Sys.exec] at h
    split at h
    · cases h
    · rename_i c1 hstep
      obtain ⟨nows1, hI1⟩ := step_inv hI st hstep
      exact exec_inv rest hI1 h

/-- an admitted call that lies inside the window has its clock reading inside the window -/
theorem admittedWithin_le_countIn (t0 t1 : Rat) : ∀ (log : List Done),
    (∀ d ∈ log, d.start ≤ d.now ∧ d.now ≤ d.fin) → admittedWithin t0 t1 log ≤ countIn t0 t1 (log.map doneEv)
  | [], _ => by simp [admittedWithin, countIn]
  | d :: r, h => by
    have ih := admittedWithin_le_countIn t0 t1 r (fun x hx => h x (List.mem_cons_of_mem _ hx))
    have hd := h d (List.mem_cons_self ..)
    simp only [admittedWithin, List.map_cons, countIn, doneEv]
    by_cases hc : d.ok = true ∧ t0 ≤ d.start ∧ d.fin ≤ t1
    · have : d.ok = true ∧ t0 ≤ d.now ∧ d.now ≤ t1 :=
        ⟨hc.1, Rat.le_trans hc.2.1 hd.1, Rat.le_trans hd.2 hc.2.2⟩
      simp only [hc, this, and_self, if_true]; omega
    · simp only [hc, if_false]
      split <;> omega

theorem admittedWithin_le_trace {A : Arith} {p : Params} {s0 : State} {c : Sys} {nows : List Rat}
    (hI : SysInv A p s0 c nows) (t0 t1 : Rat) :
    admittedWithin t0 t1 c.log ≤ countIn t0 t1 (trace A p s0 nows) := by
  have h1 := admittedWithin_le_countIn t0 t1 c.log hI.log
  have h2 : countIn t0 t1 (c.log.map doneEv) = countIn t0 t1 (c.log.reverse.map doneEv) := by
    rw [List.map_reverse, countIn_reverse]
  have h3 : countIn t0 t1 (sysEvs c) = countIn t0 t1 (c.log.reverse.map doneEv) + countIn t0 t1 (critEv c.crit) := by
    unfold sysEvs; exact countIn_append ..
  rw [← hI.evs]
  omega


/-! ### the integer forms used by the run-time judges -/

theorem capacity_eq (p : Params) (T : Rat) : capacity p T = (p.burst : Rat) + T * K p := by
  unfold capacity K; rw [Rat.div_def, Rat.div_def]; grind

theorem nsWorth_eq (p : Params) : nsWorth p = K p := rfl

/-- a count bounded by `capacity + K` is bounded by the integer bound of the run-time judge -/
theorem le_boundInt {p : Params} {T : Rat} {n : Nat} (h : (n : Rat) ≤ capacity p T + K p) :
    (n : Int) ≤ boundInt p T := by
  unfold boundInt
  rw [nsWorth_eq]
  have h1 : capacity p T ≤ ((capacity p T).ceil : Rat) := Rat.le_ceil
  have h2 : K p < (((K p).floor + 1 : Int) : Rat) := Rat.lt_floor_add_one _
  have h3 : (((K p).floor + 1 : Int) : Rat) = ((K p).floor : Rat) + 1 := by simp [Rat.intCast_add]
  have h4 : (n : Rat) < (((capacity p T).ceil + (K p).floor + 1 : Int) : Rat) := by
    have : (((capacity p T).ceil + (K p).floor + 1 : Int) : Rat)
        = ((capacity p T).ceil : Rat) + ((K p).floor : Rat) + 1 := by simp [Rat.intCast_add]
    rw [this]; grind
  have h5 : (((n : Int)) : Rat) < (((capacity p T).ceil + (K p).floor + 1 : Int) : Rat) := by
    rw [Rat.intCast_natCast]; exact h4
  have := Rat.intCast_lt_intCast.1 h5
  omega

theorem owed_le_burst (p : Params) (hb : 0 ≤ p.burst) (d : Rat) : ((owed p d : Nat) : Rat) ≤ (p.burst : Rat) := by
  unfold owed
  have h1 : min p.burst (p.limit * d / 1000000000).floor ≤ p.burst := Int.min_le_left _ _
  have h2 : (((min p.burst (p.limit * d / 1000000000).floor).toNat : Nat) : Int) ≤ p.burst := by omega
  have h3 : ((((min p.burst (p.limit * d / 1000000000).floor).toNat : Nat) : Int) : Rat) ≤ (p.burst : Rat) :=
    Rat.intCast_le_intCast.2 h2
  rwa [Rat.intCast_natCast] at h3

theorem owed_le_refill (p : Params) (d : Rat) (hd : 0 ≤ d * K p) : ((owed p d : Nat) : Rat) ≤ d * K p := by
  unfold owed
  have hK : p.limit * d / 1000000000 = d * K p := by
    unfold K; rw [Rat.div_def, Rat.div_def]; grind
  rw [hK]
  by_cases h0 : min p.burst (d * K p).floor ≤ 0
  · have : (min p.burst (d * K p).floor).toNat = 0 := Int.toNat_eq_zero.2 h0
    rw [this]; simpa using hd
  · have h1 : (((min p.burst (d * K p).floor).toNat : Nat) : Int) = min p.burst (d * K p).floor :=
      Int.toNat_of_nonneg (by omega)
    have h2 : min p.burst (d * K p).floor ≤ (d * K p).floor := Int.min_le_right _ _
    have h3 : ((((min p.burst (d * K p).floor).toNat : Nat) : Int) : Rat) ≤ (((d * K p).floor : Int) : Rat) :=
      Rat.intCast_le_intCast.2 (by omega)
    rw [Rat.intCast_natCast] at h3
    exact Rat.le_trans h3 (Rat.floor_le _)


/-! ### the judges on traces -/

/-- **Upper bound, every window, every arrival pattern** (any arithmetic satisfying `ArithOK`):
    from any limiter state satisfying the invariant, for calls whose clock readings are non-decreasing,
    the number admitted with reading in `[t0, t1]` is at most `burst + qps·(t1−t0) + q·(qps/10^9)`. -/
theorem upper_window {A : Arith} {q D : Rat} (hA : ArithOK A q D) {p : Params} (hV : Valid p q D)
    (s : State) (hI : Inv A p s) (nows : List Rat) (hs : sortedFrom s.last nows)
    (t0 t1 : Rat) (h01 : t0 ≤ t1) :
    (countIn t0 t1 (trace A p s nows) : Rat) ≤ (p.burst : Rat) + (t1 - t0) * K p + q * K p := by
  have := countIn_bound hA hV t0 t1 h01 nows s hI hs
  grind

/-- **the run-time judge holds on every trace** (`q ≤ 1`: both arithmetics) -/
theorem upperOK_trace {A : Arith} {q D : Rat} (hA : ArithOK A q D) (hq : q ≤ 1) {p : Params} (hV : Valid p q D)
    (s : State) (hI : Inv A p s) (nows : List Rat) (hs : sortedFrom s.last nows) :
    upperOK p (trace A p s nows) = true := by
  unfold upperOK
  rw [List.all_eq_true]
  intro a _
  by_cases ha : a.2 = true
  · simp only [ha, Bool.not_true, Bool.false_or]
    rw [List.all_eq_true]
    intro b _
    by_cases hb : b.2 = true
    · simp only [hb, Bool.not_true, Bool.false_or]
      by_cases hab : a.1 ≤ b.1
      · simp only [hab, decide_true, Bool.not_true, Bool.false_or, decide_eq_true_eq]
        apply le_boundInt
        have h1 := upper_window hA hV s hI nows hs a.1 b.1 hab
        have h2 := mul_K_nonneg hV.limit_pos hA.q_nonneg
        have h3 : q * K p ≤ 1 * K p := mul_le_mul_K hV.limit_pos hq
        rw [capacity_eq]
        grind
      · simp [hab]
    · simp [hb]
  · simp [ha]

/-- **Never stricter than configured**: from any state satisfying the invariant, after `now - s.last` without a
    call, the next `k` calls are admitted whenever `k ≤ burst` and `k ≤ qps·idle` — whatever their (later)
    timestamps. Holds exactly, also with the nanosecond truncation. -/
theorem lower_idle {A : Arith} {q D : Rat} (hA : ArithOK A q D) {p : Params} (hV : Valid p q D)
    (s : State) (hI : Inv A p s) (now : Rat) (rest : List Rat) (h : s.last ≤ now)
    (k : Nat) (hkB : (k : Rat) ≤ (p.burst : Rat)) (hkT : (k : Rat) ≤ (now - s.last) * K p) :
    refusedAmong k (trace A p s (now :: rest)) = 0 := by
  apply refusedAmong_zero hA hV k (now :: rest) s hI hkB
  intro now' rest' he
  have : now' = now := by injection he with h1 _; exact h1.symm
  subst this
  exact idle_level hA hV hI h Rat.natCast_nonneg hkB hkT

/-- the run-time judge `lowerOK` (with no slack) holds on every trace with non-decreasing clock readings:
    after every gap, `min(burst, ⌊qps·gap⌋)` calls are admitted -/
theorem lowerOK_trace {A : Arith} {q D : Rat} (hA : ArithOK A q D) {p : Params} (hV : Valid p q D) :
    ∀ (nows : List Rat) (s : State) (prev : Rat), Inv A p s → s.last ≤ prev → sortedFrom prev nows →
      lowerOK p 0 prev (trace A p s nows) = true
  | [], _, _, _, _, _ => by simp [trace, lowerOK]
  | now :: rest, s, prev, hI, hp, hs => by
    have hnow : s.last ≤ now := Rat.le_trans hp hs.1
    have hd : 0 ≤ (now - prev) * K p := mul_K_nonneg hV.limit_pos (by have := hs.1; grind)
    have hk1 := owed_le_burst p hV.burst_nonneg (now - prev)
    have hk2 := owed_le_refill p (now - prev) hd
    have hk3 : (now - prev) * K p ≤ (now - s.last) * K p := mul_le_mul_K hV.limit_pos (by grind)
    have h0 := lower_idle hA hV s hI now rest hnow (owed p (now - prev)) hk1 (Rat.le_trans hk2 hk3)
    have hI' : Inv A p (allow A p s now).2 := allow_inv hA hV hI now
    have hlast : (allow A p s now).2.last ≤ now := by
      rcases allow_cases A p s now with ⟨_, _, he⟩ | he
      · rw [he]; exact Rat.le_refl
      · rw [he]; show advLast s now ≤ now; exact advLast_le s now
    have ih := lowerOK_trace hA hV rest (allow A p s now).2 now hI' hlast hs.2
    have h0' : refusedAmong (owed p (now - prev)) ((now, (allow A p s now).1) :: trace A p (allow A p s now).2 rest) = 0 := h0
    simp only [trace, lowerOK]
    simp [h0', ih]


/-! ### parameters, `float32` -/

/-- `float32(n) ≥ 1` for `n ≥ 1` -/
theorem f32_pos (n : Nat) (h : 1 ≤ n) : 1 ≤ f32 n := by
  unfold f32
  split
  · exact h
  · rename_i hbig
    have hn : n ≠ 0 := by omega
    have h1 : 2 ^ n.log2 ≤ n := Nat.log2_self_le hn
    have h2 : 2 ^ (n.log2 - 23) ≤ 2 ^ n.log2 := Nat.pow_le_pow_right (by decide) (Nat.sub_le _ _)
    have h3 : 0 < 2 ^ (n.log2 - 23) := Nat.two_pow_pos _
    have hq : 1 ≤ n >>> (n.log2 - 23) := by
      rw [Nat.shiftRight_eq_div_pow]
      exact Nat.div_pos (Nat.le_trans h2 h1) h3
    simp only []
    rw [Nat.shiftLeft_eq]
    have : 1 ≤ (if (n - (n >>> (n.log2 - 23)) <<< (n.log2 - 23) > 1 <<< (n.log2 - 23 - 1) ||
        n - (n >>> (n.log2 - 23)) <<< (n.log2 - 23) == 1 <<< (n.log2 - 23 - 1) && n >>> (n.log2 - 23) % 2 == 1) = true
        then n >>> (n.log2 - 23) + 1 else n >>> (n.log2 - 23)) := by
      split <;> omega
    exact Nat.mul_le_mul this h3

/-- every `(qps, burst)` with `qps ≥ 1` that fits `uint32` (what `Resize` takes; schemas are `int32`) gives a valid
    limiter configuration: the saturation of `Time.Sub` and the overflow of `time.Duration` are out of reach -/
theorem params_valid (qps burst : Nat) (hq : 1 ≤ qps) (hb : burst < 4294967296) :
    Valid (paramsOf qps burst) 1 (maxDuration : Rat) := by
  have hf := f32_pos qps hq
  have hL : (1 : Rat) ≤ ((f32 qps : Nat) : Rat) := by exact_mod_cast hf
  have hL0 : 0 < (paramsOf qps burst).limit := by show (0 : Rat) < ((f32 qps : Nat) : Rat); grind
  refine ⟨hL0, by show (0 : Int) ≤ ((burst : Nat) : Int); omega, ?_⟩
  have hKi := Ki_pos hL0
  -- Ki ≤ 10^9
  have h1 : Ki (paramsOf qps burst) * (paramsOf qps burst).limit = 1000000000 := by
    have : (paramsOf qps burst).limit ≠ 0 := by grind
    unfold Ki; grind
  have h2 : Ki (paramsOf qps burst) * 1 ≤ Ki (paramsOf qps burst) * (paramsOf qps burst).limit :=
    Rat.mul_le_mul_of_nonneg_left hL (by grind)
  have h3 : Ki (paramsOf qps burst) ≤ 1000000000 := by grind
  have hb' : (((paramsOf qps burst).burst : Int) : Rat) ≤ 4294967295 := by
    show (((burst : Nat) : Int) : Rat) ≤ 4294967295
    have h : ((burst : Nat) : Int) ≤ (4294967295 : Int) := by omega
    have h' := Rat.intCast_le_intCast.2 h
    have : (((4294967295 : Int)) : Rat) = 4294967295 := by decide +kernel
    rw [this] at h'; exact h'
  have hb0 : (0 : Rat) ≤ (((paramsOf qps burst).burst : Int) : Rat) := by
    show (0 : Rat) ≤ (((burst : Nat) : Int) : Rat)
    have h : (0 : Int) ≤ ((burst : Nat) : Int) := by omega
    have h' := Rat.intCast_le_intCast.2 h
    simpa using h'
  have h4 : (((paramsOf qps burst).burst : Int) : Rat) * Ki (paramsOf qps burst)
      ≤ (((paramsOf qps burst).burst : Int) : Rat) * 1000000000 := Rat.mul_le_mul_of_nonneg_left h3 hb0
  have h5 : (((paramsOf qps burst).burst : Int) : Rat) * 1000000000 ≤ 4294967295 * 1000000000 :=
    Rat.mul_le_mul_of_nonneg_right hb' (by decide)
  have h6 : (4294967295 * 1000000000 + 1 : Rat) ≤ (maxDuration : Rat) := by decide +kernel
  grind


/-! ### whole histories -/

theorem resize_same (b : Bucket) : b.resize b.qps b.burst = (false, b) := by
  simp [Bucket.resize]

theorem resize_changed (b : Bucket) (n burst : Nat) (h : b.qps ≠ n ∨ b.burst ≠ burst) :
    b.resize n burst = (true, Bucket.new n burst) := by
  simp [Bucket.resize, h]

theorem qps_zero (A : Arith) (b : Bucket) (h : b.qps = 0) (now : Rat) : b.tryAcquire A now = (false, b) := by
  simp [Bucket.tryAcquire, h]

theorem upperOK_refused (p : Params) : ∀ (ev : List Event), (∀ e ∈ ev, e.2 = false) → upperOK p ev = true := by
  intro ev h
  unfold upperOK
  rw [List.all_eq_true]
  intro a ha
  simp [h a ha]

theorem owed_zero (burst : Nat) (d : Rat) : owed (paramsOf 0 burst) d = 0 := by
  unfold owed paramsOf
  have h0 : f32 0 = 0 := by decide
  simp only [h0]
  have : ((((0 : Nat) : Rat)) * d / 1000000000).floor = 0 := by
    have : (((0 : Nat) : Rat)) * d / 1000000000 = ((0 : Int) : Rat) := by
      rw [Rat.div_def]; simp
    rw [this, Rat.floor_intCast]
  rw [this]
  have : min ((burst : Nat) : Int) 0 ≤ 0 := Int.min_le_right _ _
  exact Int.toNat_eq_zero.2 this

theorem lowerOK_qps_zero (burst : Nat) : ∀ (ev : List Event) (prev : Rat),
    lowerOK (paramsOf 0 burst) 0 prev ev = true
  | [], _ => rfl
  | e :: r, prev => by
    simp only [lowerOK, owed_zero, refusedAmong, lowerOK_qps_zero burst r e.1]
    simp

/-- the bucket `b`, the segment `seg` accumulated by the judge (newest first) and `hi` (no later than any
    reading to come) describe a sequential run of the current limiter since its creation -/
def SegInv (A : Arith) (b : Bucket) (seg : List Event) (hi : Rat) : Prop :=
  (b.qps = 0 ∧ ∀ e ∈ seg, e.2 = false) ∨
  (b.qps ≠ 0 ∧ ∃ done : List Rat, seg = (trace A b.params State.init done).reverse ∧
      b.lim = fin A b.params State.init done ∧ sortedFrom 0 done ∧ ∀ x ∈ done, x ≤ hi)

theorem sortedFrom_mem_ge : ∀ {l : List Rat} {a : Rat}, sortedFrom a l → ∀ x ∈ l, a ≤ x
  | [], _, _, _, hx => by cases hx
  | y :: l, a, hs, x, hx => by
    rcases List.mem_cons.1 hx with h | h
    · rw [h]; exact hs.1
    · exact Rat.le_trans hs.1 (sortedFrom_mem_ge hs.2 x h)

section
variable {A : Arith} {q D : Rat} (hA : ArithOK A q D) (hq : q ≤ 1)
  (hvalid : ∀ qps burst : Nat, 1 ≤ qps → burst < 4294967296 → Valid (paramsOf qps burst) q D)
include hA hq hvalid

/-- a segment satisfying the invariant passes the two judges -/
theorem seg_judged {b : Bucket} {seg : List Event} {hi : Rat} (hb : b.burst < 4294967296)
    (h : SegInv A b seg hi) :
    upperOK (paramsOf b.qps b.burst) seg.reverse = true ∧ lowerOK (paramsOf b.qps b.burst) 0 0 seg.reverse = true := by
  rcases h with ⟨h0, hall⟩ | ⟨h0, done, hseg, _, hs, _⟩
  · rw [h0]
    refine ⟨upperOK_refused _ _ ?_, lowerOK_qps_zero _ _ _⟩
    intro e he
    exact hall e (List.mem_reverse.1 he)
  · have hV := hvalid b.qps b.burst (by omega) hb
    have hI := inv_init A (paramsOf b.qps b.burst) hV.burst_nonneg
    rw [hseg, List.reverse_reverse]
    exact ⟨upperOK_trace hA hq hV State.init hI done hs,
      lowerOK_trace hA hV done State.init 0 hI Rat.le_refl hs⟩

/-- **Every history** of acquires (non-decreasing clock readings) and resizes is accepted by the judge that the
    harness applies to the real code: `Resize` answers `true` exactly when `(qps, burst)` changes, and every
    stretch between two effective resizes satisfies the upper bound on all its windows and owes
    `min(burst, ⌊qps·idle⌋)` after every idle period, starting full. -/
theorem judge_history : ∀ (ops : List Op) (b : Bucket) (seg : List Event) (hi : Rat),
    b.burst < 4294967296 → opsFit ops → 0 ≤ hi → sortedFrom hi (opTimes ops) → SegInv A b seg hi →
    judgeGo 0 b.qps b.burst seg allTrue (observe A b ops) = allTrue
  | [], b, seg, hi, hb, _, _, _, hS => by
    have := seg_judged hA hq hvalid hb hS
    simp [observe, judgeGo, allTrue, this.1, this.2]
  | .acquire now :: r, b, seg, hi, hb, hf, h0, hs, hS => by
    simp only [observe, judgeGo]
    have hnow : hi ≤ now := hs.1
    have h0' : 0 ≤ now := Rat.le_trans h0 hnow
    have key : SegInv A (b.tryAcquire A now).2 ((now, (b.tryAcquire A now).1) :: seg) now := by
      rcases hS with ⟨hz, hall⟩ | ⟨hnz, done, hseg, hlim, hsd, hle⟩
      · left
        rw [qps_zero A b hz now]
        refine ⟨hz, ?_⟩
        intro e he
        rcases List.mem_cons.1 he with he | he
        · rw [he]
        · exact hall e he
      · right
        simp only [Bucket.tryAcquire, hnz, if_false]
        refine ⟨hnz, done ++ [now], ?_, ?_, ?_, ?_⟩
        · show (now, (allow A b.params b.lim now).1) :: seg = (trace A b.params State.init (done ++ [now])).reverse
          rw [trace_append, List.reverse_append, hseg, hlim]
          rfl
        · show (allow A b.params b.lim now).2 = fin A b.params State.init (done ++ [now])
          rw [fin_append, hlim]
        · exact sortedFrom_snoc hsd (fun x hx => Rat.le_trans (hle x hx) hnow) h0'
        · intro x hx
          rcases List.mem_append.1 hx with hx | hx
          · exact Rat.le_trans (hle x hx) hnow
          · have : x = now := by simpa using hx
            rw [this]; exact Rat.le_refl
    have hq' : (b.tryAcquire A now).2.qps = b.qps := by
      unfold Bucket.tryAcquire; split <;> rfl
    have hb' : (b.tryAcquire A now).2.burst = b.burst := by
      unfold Bucket.tryAcquire; split <;> rfl
    have ih := judge_history r (b.tryAcquire A now).2 _ now (by rw [hb']; exact hb) hf h0' hs.2 key
    rw [hq', hb'] at ih
    exact ih
  | .resize qn bn :: r, b, seg, hi, hb, hf, h0, hs, hS => by
    simp only [observe, judgeGo]
    by_cases hch : b.qps ≠ qn ∨ b.burst ≠ bn
    · -- an effective resize: the segment is judged, a fresh bucket starts
      have hres : b.resize qn bn = (true, Bucket.new qn bn) := resize_changed b qn bn hch
      have hdec : decide (qn ≠ b.qps ∨ bn ≠ b.burst) = true := by
        have : qn ≠ b.qps ∨ bn ≠ b.burst := by
          rcases hch with h | h
          · exact Or.inl (fun e => h e.symm)
          · exact Or.inr (fun e => h e.symm)
        simp [this]
      have hj := seg_judged hA hq hvalid hb hS
      rw [hres]
      simp only [hdec, if_true]
      have hnew : SegInv A (Bucket.new qn bn) [] hi := by
        by_cases hz : qn = 0
        · left; exact ⟨hz, by intro e he; cases he⟩
        · right
          exact ⟨hz, [], rfl, rfl, trivial, by intro x hx; cases hx⟩
      have ih := judge_history r (Bucket.new qn bn) [] hi hf.1 hf.2 h0 hs hnew
      simp only [hj.1, hj.2, allTrue, Bool.and_self, beq_self_eq_true] at ih ⊢
      exact ih
    · -- unchanged parameters: nothing happens
      have hsame : b.qps = qn ∧ b.burst = bn := by
        constructor
        · exact Classical.byContradiction fun h => hch (Or.inl h)
        · exact Classical.byContradiction fun h => hch (Or.inr h)
      have hres : b.resize qn bn = (false, b) := by
        rw [← hsame.1, ← hsame.2]; exact resize_same b
      have hdec : decide (qn ≠ b.qps ∨ bn ≠ b.burst) = false := by
        simp [hsame.1, hsame.2]
      rw [hres]
      simp only [hdec]
      have ih := judge_history r b seg hi hb hf.2 h0 hs hS
      simp only [allTrue, Bool.and_self, beq_self_eq_true, Bool.false_eq_true, if_false] at ih ⊢
      exact ih

end


/-! ### which limiter is in force after a history of `Sync`s -/

/-- what the configuration path needs of a bucket implementation -/
structure BOpsOK {β : Type} (O : BOps β) : Prop where
  new_qps : ∀ q b, O.qps (O.new q b) = q
  new_burst : ∀ q b, O.burst (O.new q b) = b
  resize_qps : ∀ x q b, O.qps (O.resize x q b) = q
  resize_burst : ∀ x q b, O.burst (O.resize x q b) = b

theorem ratOps_ok : BOpsOK ratOps where
  new_qps := fun _ _ => rfl
  new_burst := fun _ _ => rfl
  resize_qps := by
    intro x q b
    show ((x.resize q b).2).qps = q
    unfold Bucket.resize
    split
    · rfl
    · rename_i h
      have : x.qps = q := Classical.byContradiction fun hne => h (Or.inl hne)
      exact this
  resize_burst := by
    intro x q b
    show ((x.resize q b).2).burst = b
    unfold Bucket.resize
    split
    · rfl
    · rename_i h
      have : x.burst = b := Classical.byContradiction fun hne => h (Or.inr hne)
      exact this

/-- a wrapper serves its recorded configuration as configured -/
def WInv {β : Type} (O : BOps β) (w : LocalWrapper β) : Prop :=
  ∀ c, w.config = some c → inForceOK c (see O w.fc) = true

theorem wInv_empty {β : Type} (O : BOps β) : WInv O (LocalWrapper.empty : LocalWrapper β) := by
  intro c h; cases h

theorem wInv_of {β : Type} {O : BOps β} {w : LocalWrapper β} {s : Schema} (h1 : w.config = some s)
    (h2 : inForceOK s (see O w.fc) = true) : WInv O w := by
  intro c hcc
  rw [h1] at hcc
  injection hcc with e
  subst e; exact h2

section
variable {β : Type} {O : BOps β} (hO : BOpsOK O)
include hO

/-- `NewFlowControl` on a legal schema does not dereference nil and builds the limiter the schema configures -/
theorem newFlowControl_ok (s : Schema) (hl : schemaLegal s = true) :
    ∃ l, newFlowControl O s = some l ∧ inForceOK s (see O (some l)) = true := by
  rcases s with ⟨ex, mi, gmi, tb, gtb, st⟩
  cases ex <;> cases mi <;> cases gmi <;> cases tb <;> cases gtb <;>
    simp [schemaLegal, guessType, newFlowControl, inForceOK, see, hO.new_qps, hO.new_burst] at hl ⊢

/-- `localWrapper.Sync` with a legal schema: afterwards the wrapper records the schema and serves it as configured,
    whatever it was before (first use, same type, another type, the same schema again) -/
theorem wrapper_sync_ok (w : LocalWrapper β) (s : Schema) (hl : schemaLegal s = true) (hw : WInv O w) :
    ∃ w', w.sync O s = some w' ∧ w'.config = some s ∧ WInv O w' := by
  unfold LocalWrapper.sync
  by_cases hc : w.config = some s
  · simp only [hc, if_true]
    exact ⟨w, rfl, hc, hw⟩
  · simp only [hc, if_false]
    have fresh : ∃ w', (newFlowControl O s).map (fun l => ({ fc := some l, config := some s } : LocalWrapper β)) = some w' ∧
        w'.config = some s ∧ WInv O w' := by
      obtain ⟨l, h1, h2⟩ := newFlowControl_ok hO s hl
      exact ⟨{ fc := some l, config := some s }, by rw [h1]; rfl, rfl, wInv_of rfl h2⟩
    cases hfc : w.fc with
    | none => exact fresh
    | some l =>
      by_cases ht : l.type ≠ guessType s
      · show ∃ w', (if l.type ≠ guessType s then _ else _) = some w' ∧ _
        rw [if_pos ht]; exact fresh
      · have ht' : l.type = guessType s := Classical.byContradiction ht
        show ∃ w', (if l.type ≠ guessType s then _ else _) = some w' ∧ _
        rw [if_neg ht]
        rcases s with ⟨ex, mi, gmi, tb, gtb, st⟩
        cases l with
        | exempt =>
          refine ⟨_, rfl, rfl, wInv_of rfl ?_⟩
          simp only [Limiter.type] at ht'
          simp [inForceOK, see, ← ht']
        | mi m =>
          simp only [Limiter.type] at ht'
          cases ex <;> cases mi <;> cases gmi <;> cases tb <;> cases gtb <;>
            simp [schemaLegal, guessType] at hl ht' <;>
            (refine ⟨_, rfl, rfl, wInv_of rfl ?_⟩
             simp [inForceOK, see, guessType])
        | tb b =>
          simp only [Limiter.type] at ht'
          cases ex <;> cases mi <;> cases gmi <;> cases tb <;> cases gtb <;>
            simp [schemaLegal, guessType] at hl ht' <;>
            (refine ⟨_, rfl, rfl, wInv_of rfl ?_⟩
             simp [inForceOK, see, guessType, hO.resize_qps, hO.resize_burst])

end

theorem lookup_setCache_same {β : Type} (n : Nat) (w : LocalWrapper β) :
    ∀ cs : List (Nat × LocalWrapper β), (setCache n w cs).lookup n = some w
  | [] => by simp [setCache, List.lookup]
  | x :: r => by
    unfold setCache
    by_cases h : x.1 = n
    · simp [h, List.lookup]
    · have : (n == x.1) = false := by simp; exact fun e => h e.symm
      simp only [h, if_false]
      rw [show x = (x.1, x.2) from rfl, List.lookup, this]
      exact lookup_setCache_same n w r

theorem lookup_setCache_other {β : Type} (n m : Nat) (w : LocalWrapper β) (h : m ≠ n) :
    ∀ cs : List (Nat × LocalWrapper β), (setCache n w cs).lookup m = cs.lookup m
  | [] => by
    have : (m == n) = false := by simpa using h
    simp [setCache, List.lookup, this]
  | x :: r => by
    unfold setCache
    by_cases hx : x.1 = n
    · have h1 : (m == n) = false := by simpa using h
      have h2 : (m == x.1) = false := by rw [hx]; exact h1
      simp only [hx, if_true]
      rw [List.lookup, h1, show x = (x.1, x.2) from rfl, List.lookup, h2]
    · simp only [hx, if_false]
      rw [show x = (x.1, x.2) from rfl, List.lookup, List.lookup]
      rw [lookup_setCache_other n m w h r]

theorem lookup_filter_key {α : Type} (P : Nat → Bool) (n : Nat) :
    ∀ cs : List (Nat × α), (cs.filter fun x => P x.1).lookup n = if P n then cs.lookup n else none
  | [] => by simp [List.lookup]
  | x :: r => by
    have ih := lookup_filter_key P n r
    rw [List.filter_cons]
    by_cases hx : P x.1 = true
    · simp only [hx, if_true]
      rw [show x = (x.1, x.2) from rfl, List.lookup, List.lookup, ih]
      by_cases hn : (n == x.1) = true
      · have : n = x.1 := by simpa using hn
        simp [hn, this, hx]
      · have hn' : (n == x.1) = false := by simpa using hn
        simp [hn']
    · have hx' : P x.1 = false := by simpa using hx
      simp only [hx', Bool.false_eq_true, if_false]
      rw [ih, show x = (x.1, x.2) from rfl, List.lookup]
      by_cases hn : (n == x.1) = true
      · have : n = x.1 := by simpa using hn
        simp [this, hx']
      · have hn' : (n == x.1) = false := by simpa using hn
        simp [hn']

theorem lookup_of_mem_legal : ∀ (sp : Spec) (n : Nat) (s : Schema), specLegal sp = true → (n, s) ∈ sp →
    sp.lookup n = some s
  | [], _, _, _, h => by cases h
  | (n0, s0) :: r, n, s, hl, hm => by
    simp only [specLegal, Bool.and_eq_true] at hl
    obtain ⟨⟨h1, _⟩, h3⟩ := hl
    rcases List.mem_cons.1 hm with h | h
    · injection h with ha hb
      subst ha; subst hb
      simp [List.lookup]
    · have ih := lookup_of_mem_legal r n s h3 h
      by_cases hn : n = n0
      · subst hn
        rw [ih] at h1; simp at h1
      · have : (n == n0) = false := by simpa using hn
        rw [List.lookup, this]; exact ih

section
variable {β : Type} {O : BOps β} (hO : BOpsOK O)
include hO

theorem syncLoop_ok : ∀ (spec : Spec) (cs : List (Nat × LocalWrapper β)), specLegal spec = true →
    (∀ n w, cs.lookup n = some w → WInv O w) →
    ∃ cs', syncLoop O cs spec = some cs' ∧ (∀ n w, cs'.lookup n = some w → WInv O w) ∧
      (∀ n s, spec.lookup n = some s → ∃ w, cs'.lookup n = some w ∧ w.config = some s) ∧
      (∀ n, spec.lookup n = none → cs'.lookup n = cs.lookup n)
  | [], cs, _, hall => ⟨cs, rfl, hall, by intro n s h; simp [List.lookup] at h, fun _ _ => rfl⟩
  | (n0, s0) :: rest, cs, hl, hall => by
    simp only [specLegal, Bool.and_eq_true] at hl
    obtain ⟨⟨h1, h2⟩, h3⟩ := hl
    have hw0 : WInv O ((cs.lookup n0).getD LocalWrapper.empty) := by
      cases hc : cs.lookup n0 with
      | none => exact wInv_empty O
      | some w => exact hall n0 w hc
    obtain ⟨w', hs, hcfg, hw'⟩ := wrapper_sync_ok hO _ s0 h2 hw0
    have hall1 : ∀ n w, (setCache n0 w' cs).lookup n = some w → WInv O w := by
      intro n w hlk
      by_cases hn : n = n0
      · subst hn
        rw [lookup_setCache_same] at hlk
        injection hlk with e; subst e; exact hw'
      · rw [lookup_setCache_other n0 n w' hn] at hlk
        exact hall n w hlk
    obtain ⟨cs', hr, hall', hin, hout⟩ := syncLoop_ok rest (setCache n0 w' cs) h3 hall1
    refine ⟨cs', ?_, hall', ?_, ?_⟩
    · simp only [syncLoop, hs]; exact hr
    · intro n s hlk
      by_cases hn : n = n0
      · subst hn
        simp [List.lookup] at hlk
        subst hlk
        have hnone : rest.lookup n = none := by
          cases hr' : rest.lookup n with
          | none => rfl
          | some x => rw [hr'] at h1; simp at h1
        refine ⟨w', ?_, hcfg⟩
        rw [hout n hnone, lookup_setCache_same]
      · have : (n == n0) = false := by simpa using hn
        rw [List.lookup, this] at hlk
        exact hin n s hlk
    · intro n hlk
      by_cases hn : n = n0
      · subst hn; simp [List.lookup] at hlk
      · have : (n == n0) = false := by simpa using hn
        rw [List.lookup, this] at hlk
        rw [hout n hlk, lookup_setCache_other n0 n w' hn]

/-- invariant of the upstream limiter: the spec in force is legal, every cached wrapper serves what it records, and
    every schema of the spec has its cache, recording exactly that schema -/
structure ULInv (u : UL β) : Prop where
  legal : specLegal u.current = true
  all : ∀ n w, u.caches.lookup n = some w → WInv O w
  cur : ∀ n s, u.current.lookup n = some s → ∃ w, u.caches.lookup n = some w ∧ w.config = some s

theorem ulInv_init : ULInv (O := O) (UL.init : UL β) where
  legal := rfl
  all := by intro n w h; simp [UL.init, List.lookup] at h
  cur := by intro n s h; simp [UL.init, List.lookup] at h

theorem ul_sync_ok (u : UL β) (spec : Spec) (hl : specLegal spec = true) (hu : ULInv (O := O) u) :
    ∃ u', u.sync O spec = some u' ∧ ULInv (O := O) u' ∧ u'.current = spec := by
  unfold UL.sync
  by_cases hc : u.current = spec
  · simp only [hc, if_true]
    exact ⟨u, rfl, hu, hc⟩
  · simp only [hc, if_false]
    obtain ⟨cs', hr, hall', hin, _⟩ := syncLoop_ok hO spec u.caches hl hu.all
    rw [hr]
    refine ⟨_, rfl, ⟨hl, ?_, ?_⟩, rfl⟩
    · intro n w hlk
      simp only [] at hlk
      rw [lookup_filter_key (fun k => !((u.current.lookup k).isSome && (spec.lookup k).isNone)) n cs'] at hlk
      split at hlk
      · exact hall' n w hlk
      · cases hlk
    · intro n s hlk
      obtain ⟨w, h1, h2⟩ := hin n s hlk
      refine ⟨w, ?_, h2⟩
      show (cs'.filter fun x => !((u.current.lookup x.1).isSome && (spec.lookup x.1).isNone)).lookup n = some w
      rw [lookup_filter_key (fun k => !((u.current.lookup k).isSome && (spec.lookup k).isNone)) n cs']
      simp [hlk, h1]

/-- a `TryAcquire` on the bucket serving `n` changes neither which limiter serves what nor its parameters -/
theorem ul_setBucket_ok (u : UL β) (n : Nat) (b b' : β) (hu : ULInv (O := O) u)
    (hload : u.load n = some (.tb b)) (hq : O.qps b' = O.qps b) (hb : O.burst b' = O.burst b) :
    ULInv (O := O) (u.setBucket n b') := by
  unfold UL.load at hload
  cases hc : u.caches.lookup n with
  | none => rw [hc] at hload; cases hload
  | some w =>
    rw [hc] at hload
    have hfc : w.fc = some (.tb b) := hload
    unfold UL.setBucket
    simp only [hc]
    refine ⟨hu.legal, ?_, ?_⟩
    · intro m w2 hlk
      by_cases hm : m = n
      · subst hm
        rw [lookup_setCache_same] at hlk
        injection hlk with e; subst e
        intro c hcc
        have := hu.all m w hc c hcc
        rw [hfc] at this
        simpa [see, hq, hb] using this
      · rw [lookup_setCache_other n m _ hm] at hlk
        exact hu.all m w2 hlk
    · intro m s hlk
      obtain ⟨w2, h1, h2⟩ := hu.cur m s hlk
      by_cases hm : m = n
      · subst hm
        rw [hc] at h1; injection h1 with e; subst e
        exact ⟨_, lookup_setCache_same _ _ _, h2⟩
      · exact ⟨w2, by rw [lookup_setCache_other n m _ hm]; exact h1, h2⟩

/-- with the invariant, every schema of the spec in force is served as configured -/
theorem allInForce_of_inv (u : UL β) (hu : ULInv (O := O) u) : allInForce O u = true := by
  unfold allInForce
  rw [List.all_eq_true]
  intro x hx
  have hlk := lookup_of_mem_legal u.current x.1 x.2 hu.legal hx
  obtain ⟨w, h1, h2⟩ := hu.cur x.1 x.2 hlk
  have := hu.all x.1 w h1 x.2 h2
  unfold UL.load
  rw [h1]
  exact this

end

theorem tryAcquire_qps (A : Arith) (b : Bucket) (now : Rat) :
    (b.tryAcquire A now).2.qps = b.qps ∧ (b.tryAcquire A now).2.burst = b.burst := by
  unfold Bucket.tryAcquire
  split <;> exact ⟨rfl, rfl⟩

/-- every legal history from any state satisfying the invariant runs without a nil dereference, keeps the
    invariant and ends with the last synced spec in force -/
theorem ul_runOps_ok (A : Arith) : ∀ (ops : List ULOp) (u : UL Bucket), opsLegal ops = true →
    ULInv (O := ratOps) u →
    ∃ u', UL.runOps A u ops = some u' ∧ ULInv (O := ratOps) u' ∧ u'.current = lastSpec u.current ops
  | [], u, _, hu => ⟨u, rfl, hu, rfl⟩
  | .sync sp :: rest, u, hl, hu => by
    simp only [opsLegal, Bool.and_eq_true] at hl
    obtain ⟨u1, h1, h2, h3⟩ := ul_sync_ok ratOps_ok u sp hl.1 hu
    obtain ⟨u', h4, h5, h6⟩ := ul_runOps_ok A rest u1 hl.2 h2
    refine ⟨u', ?_, h5, ?_⟩
    · simp only [UL.runOps, h1]; exact h4
    · rw [h6, h3]; rfl
  | .acquire n now :: rest, u, hl, hu => by
    simp only [opsLegal] at hl
    simp only [UL.runOps, lastSpec]
    cases hacq : u.acquireWith (fun b => b.tryAcquire A now) n with
    | none => exact ul_runOps_ok A rest u hl hu
    | some r =>
      have hinv : ULInv (O := ratOps) r.2 ∧ r.2.current = u.current := by
        unfold UL.acquireWith at hacq
        split at hacq
        · rename_i b hload
          injection hacq with e; subst e
          have hq := tryAcquire_qps A b now
          refine ⟨ul_setBucket_ok ratOps_ok u n b _ hu hload hq.1 hq.2, ?_⟩
          show (u.setBucket n (b.tryAcquire A now).2).current = u.current
          unfold UL.setBucket; split <;> rfl
        · cases hacq
      obtain ⟨u', h4, h5, h6⟩ := ul_runOps_ok A rest r.2 hl hinv.1
      exact ⟨u', h4, h5, by rw [h6, hinv.2]⟩

end KG.Lemmas.TokenBucket
