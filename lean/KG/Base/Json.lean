import Lean.Data.Json
/-! JSON helpers for the driver protocol (core Lean only). -/
namespace KG
open Lean

abbrev Str := List UInt8

def hexDigit (n : Nat) : Char :=
  if n < 10 then Char.ofNat (48 + n) else Char.ofNat (87 + n)

def Str.toHex (s : Str) : String :=
  String.ofList (s.flatMap fun b => [hexDigit (b.toNat / 16), hexDigit (b.toNat % 16)])

def hexVal (c : Char) : Option Nat :=
  if '0' ≤ c ∧ c ≤ '9' then some (c.toNat - 48)
  else if 'a' ≤ c ∧ c ≤ 'f' then some (c.toNat - 87)
  else if 'A' ≤ c ∧ c ≤ 'F' then some (c.toNat - 55)
  else none

def Str.ofHexAux : List Char → Option Str
  | [] => some []
  | a :: b :: rest => do
      let x ← hexVal a; let y ← hexVal b
      let r ← Str.ofHexAux rest
      pure (UInt8.ofNat (x * 16 + y) :: r)
  | _ => none

def Str.ofHex (s : String) : Option Str := Str.ofHexAux s.toList

/-- ASCII/UTF-8 bytes of a Lean string. -/
def Str.ofString (s : String) : Str := s.toUTF8.toList

namespace J
def getObj (j : Json) (k : String) : Except String Json := j.getObjVal? k
def getInt (j : Json) (k : String) : Except String Int := do (← j.getObjVal? k).getInt?
def getNat (j : Json) (k : String) : Except String Nat := do (← j.getObjVal? k).getNat?
def getBool (j : Json) (k : String) : Except String Bool := do (← j.getObjVal? k).getBool?
def getStr (j : Json) (k : String) : Except String String := do (← j.getObjVal? k).getStr?
def getArr (j : Json) (k : String) : Except String (Array Json) := do (← j.getObjVal? k).getArr?
def getHex (j : Json) (k : String) : Except String Str := do
  let s ← getStr j k
  match Str.ofHex s with
  | some b => pure b
  | none => throw s!"bad hex in {k}"
def asHex (j : Json) : Except String Str := do
  let s ← j.getStr?
  match Str.ofHex s with
  | some b => pure b
  | none => throw "bad hex"
def getHexList (j : Json) (k : String) : Except String (List Str) := do
  let a ← getArr j k
  a.toList.mapM asHex
def getIntList (j : Json) (k : String) : Except String (List Int) := do
  let a ← getArr j k
  a.toList.mapM (·.getInt?)
def optObj (j : Json) (k : String) : Option Json :=
  match j.getObjVal? k with
  | .ok .null => none
  | .ok v => some v
  | .error _ => none
def hex (s : Str) : Json := Json.str s.toHex
def hexList (l : List Str) : Json := Json.arr (l.map hex).toArray
def int (i : Int) : Json := Json.num (JsonNumber.fromInt i)
def nat (n : Nat) : Json := Json.num (JsonNumber.fromNat n)
def bool (b : Bool) : Json := Json.bool b
def obj (kvs : List (String × Json)) : Json := Json.mkObj kvs
end J
end KG
