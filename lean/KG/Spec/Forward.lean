import KG.Model.Forward
/-!
# C04 — the property as decidable judges

Each judge is stated per header name / per query key in closed form, independently of the sequence of map
mutations the code (and `KG.Model.Forward`) performs. The harness evaluates the SAME judges on what the real
upstream and the real client observed; `KG.Props.C04` proves them of the model for every input.
-/
namespace KG.Spec.Forward
open KG KG.Model.Forward

/-! ## path: "same path, escaped bytes included" -/

def isUnreserved (c : UInt8) : Bool := isAlnum c || memB c [45, 46, 95, 126]

/-- RFC 3986 §6.2.2 normal form of an escaped path: hex digits upper-cased, escapes of unreserved bytes decoded,
    bytes that may not appear raw percent-encoded. Escapes of RESERVED bytes (`%2F`, `%3B`, …) are kept: `a%2Fb`
    and `a/b` are different paths. -/
def rfcNorm : Str → Str
  | [] => []
  | c :: rest =>
    if c = 37 then
      match rest with
      | a :: b :: rest' =>
        if ishex a && ishex b then
          let d := (unhex a <<< 4) ||| unhex b
          if isUnreserved d then d :: rfcNorm rest'
          else 37 :: upperhex (d >>> 4) :: upperhex (d &&& 15) :: rfcNorm rest'
        else 37 :: 50 :: 53 :: a :: b :: rfcNorm rest'     -- malformed escape (never accepted by the server)
      | _ => 37 :: 50 :: 53 :: rest
    else if validEncodedByte c then c :: rfcNorm rest
    else 37 :: upperhex (c >>> 4) :: upperhex (c &&& 15) :: rfcNorm rest

/-- the path judge: byte-identical when the client's path is a valid RFC 3986 path; always the same decoded path;
    always the same path up to RFC normalisation -/
def pathExact (p out : Str) : Bool := !validEncoded p || decide (out = p)
def pathDecoded (p out : Str) : Bool := decide (unescape .path out = unescape .path p)
def pathNorm (p out : Str) : Bool := decide (rfcNorm out = rfcNorm p)

/-- the exact shape of the known defect C04-invalid-raw-byte-reencoded: the path holds a byte net/url does not accept
    raw, and what arrives is net/url's re-encoding of the decoded path -/
def pathKnownReencoding (p out : Str) : Bool :=
  !validEncoded p && (match unescape .path p with
    | some P => decide (out = escape .path P)
    | none => false)

/-! ## query: "same query parameters" = equal as parsed multimaps -/
def queryOK (q q' : Str) : Bool :=
  let a := parseQuery q
  let b := parseQuery q'
  ((a.map (·.1)) ++ (b.map (·.1))).all fun k => decide (valuesOf k b = valuesOf k a)

/-! ## request headers -/
/-- The hop-by-hop header names, as the SPECIFICATION fixes them (RFC 7230 §6.1 `Connection`; RFC 2616 §13.5.1
    `Keep-Alive`, `Proxy-Authenticate`, `Proxy-Authorization`, `TE`, `Trailer`, `Transfer-Encoding`, `Upgrade`; and
    the de-facto `Proxy-Connection`). The judges use this list, not the code's: `KG.Props.C04.c04_hop_list` proves
    the regenerated `hopHeaders` of reverseproxy.go names exactly these. -/
def specHop : List Str := [
  [67, 111, 110, 110, 101, 99, 116, 105, 111, 110],                                              -- Connection
  [80, 114, 111, 120, 121, 45, 67, 111, 110, 110, 101, 99, 116, 105, 111, 110],                  -- Proxy-Connection
  [75, 101, 101, 112, 45, 65, 108, 105, 118, 101],                                               -- Keep-Alive
  [80, 114, 111, 120, 121, 45, 65, 117, 116, 104, 101, 110, 116, 105, 99, 97, 116, 101],         -- Proxy-Authenticate
  [80, 114, 111, 120, 121, 45, 65, 117, 116, 104, 111, 114, 105, 122, 97, 116, 105, 111, 110],   -- Proxy-Authorization
  [84, 101],                                                                                     -- Te
  [84, 114, 97, 105, 108, 101, 114],                                                             -- Trailer
  [84, 114, 97, 110, 115, 102, 101, 114, 45, 69, 110, 99, 111, 100, 105, 110, 103],              -- Transfer-Encoding
  [85, 112, 103, 114, 97, 100, 101]]                                                             -- Upgrade

#guard specHop == ["Connection", "Proxy-Connection", "Keep-Alive", "Proxy-Authenticate", "Proxy-Authorization", "Te",
                   "Trailer", "Transfer-Encoding", "Upgrade"].map Str.ofString

/-- What the upstream must see under header name `k`, given the header map `h0` the proxy handler received
    (non-upgrade requests):
    * `X-Forwarded-For`: the prior values (unless the client listed the name in `Connection`) folded with ", " and the
      client address appended;
    * `Te`: exactly `trailers` when the client's `Te` contains that token;
    * nothing for hop-by-hop names and for names listed in `Connection`;
    * `User-Agent`: one empty value when the client sent none (so that net/http does not invent one);
    * everything else: the client's values, in order. -/
def reqHdrExpected (h0 : Hdr) (ip : Option Str) (k : Str) : List Str :=
  if k = kXFF then
    let prior := if kXFF ∈ connectionTokens h0 then [] else h0.values kXFF
    match ip with
    | none => prior
    | some ip =>
      match prior with
      | [] => [ip]
      | p :: ps => [joinWith kCommaSpace (p :: ps) ++ kCommaSpace ++ ip]
  else if k = kTe ∧ headerValuesContainsToken (h0.values kTe) kTrailers = true then [kTrailers]
  else if k ∈ connectionTokens h0 ∨ k ∈ specHop then []
  else if k = kUserAgent ∧ h0.get? kUserAgent = none then [[]]
  else h0.values k

def hasPrefixB (pre s : Str) : Bool := isPrefixOfB pre s

/-- first value the client sent under a canonical name -/
def clientFirst (lines : List (Str × Str)) (k : Str) : Option Str :=
  match (parseHeaders lines).get? k with
  | some (v :: _) => some v
  | _ => none

/-- header names whose upstream value is decided below the code under test (net/http's transport, client-go's
    wrappers, property C02) and is therefore canonicalised away -/
def volatileReq (lines : List (Str × Str)) (k : Str) : Bool :=
  decide (k = kContentLength) || decide (k = kAuthorization) || hasPrefixB kImpersonatePrefix k
  || (decide (k = kAcceptEncoding) && (clientFirst lines k).isNone)
  || (decide (k = kUserAgent) && (match clientFirst lines k with | some v => decide (v = []) | none => true))

/-- net/http's transport writes ONE `User-Agent` line (the first value) -/
def firstOnly (k : Str) (vs : List Str) : List Str := if k = kUserAgent then vs.take 1 else vs

def canonReqHeaders (lines : List (Str × Str)) (h : Hdr) : Hdr :=
  (h.filter fun e => !volatileReq lines e.1).map fun e => (e.1, firstOnly e.1 e.2)

def reqHdrOK (lines : List (Str × Str)) (ip : Option Str) (seen : Hdr) : Bool :=
  let h0 := afterAuthentication (parseHeaders lines)
  (h0.keys ++ seen.keys ++ [kXFF, kTe, kUserAgent]).all fun k =>
    volatileReq lines k || decide (seen.values k = firstOnly k (reqHdrExpected h0 ip k))

def targetOK (check : Str → Str → Bool) (t t' : Str) : Bool := check (cut 63 t).1 (cut 63 t').1

/-- request fidelity, evaluated on the client's request and the (canonicalised) request an upstream received -/
structure ReqVerdict where
  method : Bool
  host : Bool
  body : Bool
  pathExact : Bool
  pathDecoded : Bool
  pathNorm : Bool
  query : Bool
  headers : Bool
deriving Repr, DecidableEq

def reqVerdict (r : Req) (seen : UpReq) : ReqVerdict :=
  { method := decide (seen.method = r.method), host := decide (seen.host = r.host), body := decide (seen.body = r.body),
    pathExact := targetOK pathExact r.target seen.target,
    pathDecoded := targetOK pathDecoded r.target seen.target,
    pathNorm := targetOK pathNorm r.target seen.target,
    query := queryOK (cut 63 r.target).2 (cut 63 seen.target).2,
    headers := reqHdrOK r.lines r.remoteIP seen.headers }

/-! ## response headers -/
/-- What the client must see under `k`: what the gateway's own filters put there (`pre`: `Cache-Control`, and
    `Connection: close` under the CloseConnectionWhenIdle gate), then the upstream's values in order unless `k` is
    hop-by-hop or listed in the upstream's `Connection`. -/
def respHdrExpected (pre up : Hdr) (k : Str) : List Str :=
  pre.values k ++ (if k ∈ connectionTokens up ∨ k ∈ specHop then [] else up.values k)

def dropClose (k : Str) (vs : List Str) : List Str := if k = kConnection then vs.filter (fun v => decide (v ≠ kClose)) else vs

/-- response header names net/http's server decides on the gateway's own hop -/
def volatileResp (status : Nat) (up : Hdr) (k : Str) : Bool :=
  decide (k = kContentLength) || ((decide (k = kDate) || decide (k = kContentType)) && (up.get? k).isNone)
  || (decide (k = kContentType) && decide (status = 304))      -- net/http's server suppresses Content-Type on 304

def canonRespHeaders (status : Nat) (up : Hdr) (h : Hdr) : Hdr :=
  (h.filter fun e => !volatileResp status up e.1).filterMap fun e =>
    match dropClose e.1 e.2 with
    | [] => none
    | vs => some (e.1, vs)

def respHdrOK (closeWhenIdle : Bool) (status : Nat) (upLines : List (Str × Str)) (client : Hdr) : Bool :=
  let up := upstreamResponseHeaders upLines
  let pre := preHeaders closeWhenIdle
  (pre.keys ++ up.keys ++ client.keys).all fun k =>
    volatileResp status up k || decide (dropClose k (client.values k) = dropClose k (respHdrExpected pre up k))

structure RespVerdict where
  status : Bool
  body : Bool
  headers : Bool
deriving Repr, DecidableEq

def respVerdict (closeWhenIdle : Bool) (upStatus : Nat) (upLines : List (Str × Str)) (upBody : Str) (client : Resp) : RespVerdict :=
  { status := decide (client.status = upStatus), body := decide (client.body = upBody),
    headers := respHdrOK closeWhenIdle upStatus upLines client.headers }

/-! ## gateway-terminated answers -/
/-- what a client (and the upstreams) observed for a request the gateway terminated -/
structure TermObs where
  httpCode : Nat
  retryAfter : Option Nat     -- the Retry-After header, parsed
  isStatus : Bool             -- the body decodes as a `Status`
  body : StatusBody
  upstreamRequests : Nat      -- request heads any upstream parsed because of this request
  upstreamBytes : Nat         -- bytes any upstream read because of this request
deriving Repr, DecidableEq

/-- a well-formed API Status whose code is the HTTP code, and nothing forwarded, not even partially -/
def wellFormed (o : TermObs) : Bool :=
  o.isStatus && decide (o.body.kind = kStatus) && decide (o.body.apiVersion = kV1) && decide (o.body.status = kFailure)
  && decide (o.body.code = o.httpCode) && decide (o.upstreamRequests = 0) && decide (o.upstreamBytes = 0)

/-- the answer is the one the decision table gives -/
def matchesRow (a : Answer) (o : TermObs) : Bool :=
  decide (o.httpCode = a.httpCode) && decide (o.retryAfter = a.retryAfter) && decide (o.body.reason = a.body.reason)

/-- The property's own demand on Retry-After, independent of the code's constants: a 503 (cluster not proxied, no
    ready endpoint) and a flow-control 429 (other than for the `events` resource and the DenyAllRequests breaker) carry
    a Retry-After of at least one second; the other terminated answers carry none. -/
def retryAfterDemanded (o : TermObs) (flowControlled : Bool) (resource : Str) : Bool :=
  if o.httpCode = 503 ∨ (o.httpCode = 429 ∧ flowControlled = true ∧ resource ≠ [101, 118, 101, 110, 116, 115]) then
    (match o.retryAfter with
     | some n => decide (1 ≤ n)
     | none => false)
  else o.retryAfter.isNone

/-- the observation a model answer stands for -/
def obsOfAnswer (a : Answer) : TermObs :=
  { httpCode := a.httpCode, retryAfter := a.retryAfter, isStatus := true, body := a.body, upstreamRequests := 0, upstreamBytes := 0 }

/-- the dispatcher's rows of the decision table -/
def tableDispatch (s : Scenario) : Outcome :=
  if !s.policyMatches then .terminated ⟨500, none, ⟨kStatus, kV1, kFailure, kInternalError, 500⟩⟩
  else if !s.acquireOK then
    .terminated ⟨429, if s.resource = Gen.C04.rateLimitExemptResource then none else some Gen.C04.retryAfter,
                 ⟨kStatus, kV1, kFailure, kTooManyRequests, 429⟩⟩
  else if !s.popOK then .terminated ⟨503, some Gen.C04.unavailableRetryAfter, ⟨kStatus, kV1, kFailure, kServiceUnavailable, 503⟩⟩
  else .forward

/-- The decision table of DESIGN.md §5 C04 in closed form: the first condition that holds decides. -/
def table (s : Scenario) : Outcome :=
  if !s.requestInfoOK then .terminated ⟨500, none, ⟨kStatus, kV1, kFailure, kInternalError, 500⟩⟩
  else if s.hostIsIP then
    (if !s.authOK then .terminated ⟨401, none, ⟨kStatus, kV1, kFailure, kUnauthorized, 401⟩⟩
     else match s.imp with
       | .malformed => .terminated ⟨500, none, ⟨kStatus, kV1, kFailure, kInternalError, 500⟩⟩
       | .refused => .terminated ⟨403, none, ⟨kStatus, kV1, kFailure, kForbidden, 403⟩⟩
       | _ => .notProxied)
  else if !s.clusterKnown then .terminated ⟨503, some Gen.C04.unavailableRetryAfter, ⟨kStatus, kV1, kFailure, kServiceUnavailable, 503⟩⟩
  else if s.denyAll then .terminated ⟨429, none, ⟨kStatus, kV1, kFailure, kTooManyRequests, 429⟩⟩
  else if !s.authOK then .terminated ⟨401, none, ⟨kStatus, kV1, kFailure, kUnauthorized, 401⟩⟩
  else match s.imp with
    | .malformed => .terminated ⟨500, none, ⟨kStatus, kV1, kFailure, kInternalError, 500⟩⟩
    | .refused => .terminated ⟨403, none, ⟨kStatus, kV1, kFailure, kForbidden, 403⟩⟩
    | _ => tableDispatch s

end KG.Spec.Forward
