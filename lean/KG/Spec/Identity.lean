import KG.Model.Identity
/-!
# The property C02 as a declarative specification and a decidable judge

Written on the RAW client header lines with ASCII-case-insensitive names (no canonicalisation, no loops over a map),
so that "every casing of Impersonate-User / -Group / -Extra-* / Authorization" is what the statements quantify over.

* `expected`     : what must happen to a request: answered by the gateway, or forwarded as one exact identity;
* `gatewayHeaders`: the only identity bearing headers the gateway may send for an identity (closed form);
* `judge`        : evaluated on what the upstream actually received (model output in the theorems,
                   implementation output in the harness).
-/
namespace KG.Spec.Identity
open KG KG.Model.Identity

/-- "impersonate-user", "impersonate-group", "impersonate-extra-" -/
def lImpUser : Str := toLower hImpUser
def lImpGroup : Str := toLower hImpGroup
def lImpExtraPrefix : Str := toLower hImpExtraPrefix

/-- the values the client sent under a header name in any casing, in order, without the optional white space
    around a field value (RFC 7230 §3.2: not part of the value) -/
def clientValues (raw : List (Str × Str)) (lname : Str) : List Str :=
  (raw.filter (fun l => toLower l.1 == lname)).map (fun l => trimOWS l.2)

/-- the user the client asks to act as: first `Impersonate-User` value ("" = none) -/
def reqUser (raw : List (Str × Str)) : Str := (clientValues raw lImpUser).head?.getD []

def reqGroups (raw : List (Str × Str)) : List Str := clientValues raw lImpGroup

/-- the extras the client asks for: one entry per `Impersonate-Extra-<key>` line, key %-decoded from the
    lower-cased name (names are case-insensitive) -/
def reqExtras (raw : List (Str × Str)) : List (Str × List Str) :=
  raw.filterMap fun l =>
    if hasPrefix (toLower l.1) lImpExtraPrefix then
      some (unescapeExtraKey ((toLower l.1).drop lImpExtraPrefix.length), [trimOWS l.2])
    else none

def impersonationRequested (raw : List (Str × Str)) : Bool :=
  !(reqUser raw).isEmpty || !(reqGroups raw).isEmpty || !(reqExtras raw).isEmpty

/-- the check for acting as user `u`: a service account when the name has that form -/
def userCheck (u : Str) : ImpReq :=
  match splitUsername u with
  | some (ns, name) => .sa ns name
  | none => .user u

/-- every impersonation the request asks for -/
def checks (raw : List (Str × Str)) : List ImpReq :=
  [userCheck (reqUser raw)] ++ (reqGroups raw).map ImpReq.group ++
    (reqExtras raw).flatMap (fun e => e.2.map (ImpReq.extra e.1))

/-- the question the cluster's authorizer has to be asked for one impersonation (verb `impersonate`): impersonated users
    and groups are cluster-scoped objects of the core group, a service account lives in its namespace, an extra value is the
    object `userextras/<key>` named by the value in `authentication.k8s.io` — a function of the impersonation alone, never of
    what else the request asks for -/
def recordOf : ImpReq → Attrs
  | .sa ns name => { apiGroup := [], resource := resServiceAccounts, subresource := [], ns := ns, name := name }
  | .user name => { apiGroup := [], resource := resUsers, subresource := [], ns := [], name := name }
  | .group name => { apiGroup := [], resource := resGroups, subresource := [], ns := [], name := name }
  | .extra key value => { apiGroup := authenticationGroup, resource := resUserExtras, subresource := key, ns := [], name := value }

/-- the exact set of attribute records the policy must allow, computed from the client's header lines alone -/
def requiredRecords (raw : List (Str × Str)) : List Attrs := (checks raw).map recordOf

/-- a malformed impersonation: groups or extras without a user, or a requested user / namespace / group / extra key /
    extra value that is not valid UTF-8 (the target cluster could not even be asked about it) -/
def malformed (raw : List (Str × Str)) : Bool :=
  ((reqUser raw).isEmpty && (!(reqGroups raw).isEmpty || !(reqExtras raw).isEmpty)) ||
  (impersonationRequested raw && !(checks raw).all refUTF8)

/-- the cluster's policy `az` allows every required record -/
def allAllowed (az : Attrs → Decision) (raw : List (Str × Str)) : Bool :=
  (requiredRecords raw).all (fun a => (az a).allowed)

/-- Kubernetes' rule for the virtual groups of an impersonated user -/
def augment (u : Str) (gs : List Str) : List Str :=
  if u = anonymous then
    if allUnauthenticated ∈ gs then gs else gs ++ [allUnauthenticated]
  else
    if allAuthenticated ∈ gs ∨ allUnauthenticated ∈ gs then gs else gs ++ [allAuthenticated]

/-- the groups of a service account that are implied when none are listed -/
def impliedGroups (u : Str) : List Str :=
  match splitUsername u with
  | some (ns, _) => [allServiceAccountsGroup, saGroupPrefix ++ ns]
  | none => []

/-- the identity the client asked to impersonate -/
def requestedIdentity (raw : List (Str × Str)) : Identity :=
  let u := reqUser raw
  let gs := if (reqGroups raw).isEmpty then impliedGroups u else reqGroups raw
  ⟨u, augment u gs, reqExtras raw⟩

inductive Expect where
  /-- the gateway must answer itself with this status and forward nothing -/
  | answered (status : Nat)
  /-- if anything is forwarded, the upstream must be told to act as exactly this identity -/
  | forward (id : Identity)
deriving DecidableEq, Repr

/-- what the property demands for a request of an authenticated client `u` -/
def expected (raw : List (Str × Str)) (u : Identity) (az : Attrs → Decision) : Expect :=
  if !impersonationRequested raw then .forward u
  else if malformed raw then .answered 500
  else if allAllowed az raw then .forward (requestedIdentity raw)
  else .answered 403

/-- … for any request: a header line the server refuses is answered 400, an unauthenticated client 401 -/
def expectedFor (raw : List (Str × Str)) (auth : Option Identity) (az : Attrs → Decision) : Expect :=
  if !(raw.all (fun l => validName l.1 && validValue l.2)) then .answered 400
  else match auth with
    | none => .answered 401
    | some u => expected raw u az

/-- the identity bearing headers the gateway itself generates for identity `id`: its own credential (not on the
    upgrade path) and the impersonation headers; a function of `id` and the gateway's token only -/
def gatewayHeaders (token : Str) (upgrade : Bool) (id : Identity) : Headers :=
  (if upgrade then [] else [(hAuthorization, [bearerPrefix ++ token])]) ++
  [(hImpUser, [id.name])] ++ id.groups.map (fun g => (hImpGroup, [g])) ++
  id.extra.flatMap (fun e => e.2.map (fun v => (hImpExtraPrefix ++ headerKeyEscape e.1, [v])))

/-! ## comparison up to what a map / a set cannot tell apart -/

def leStr : Str → Str → Bool
  | [], _ => true
  | _ :: _, [] => false
  | a :: s, b :: t => a < b || (a == b && leStr s t)

def insertStr (x : Str) : List Str → List Str
  | [] => [x]
  | y :: ys => if leStr x y then x :: y :: ys else y :: insertStr x ys

def sortStrs : List Str → List Str
  | [] => []
  | x :: xs => insertStr x (sortStrs xs)

/-- two multimaps agree: for every key of either, the same values (as a multiset) -/
def multimapAgree (a b : Headers) : Bool :=
  (a ++ b).all (fun e => sortStrs (values a e.1) == sortStrs (values b e.1))

def identityAgree (d id : Identity) : Bool :=
  d.name == id.name && d.groups == id.groups && multimapAgree d.extra id.extra

/-- a header field value as it arrives: optional white space at both ends is not part of a value
    (RFC 7230 §3.2); on the upgrade path the writer has turned CR / LF into spaces before -/
def carried (upgrade : Bool) (v : Str) : Str := trimOWS (if upgrade then newlineToSpace v else v)

/-- the decidable hypothesis of exactness: every name, group and extra value arrives as it is (no white space at either end; no CR / LF) -/
def valuesCarried (upgrade : Bool) (id : Identity) : Bool :=
  carried upgrade id.name == id.name && id.groups.all (fun g => carried upgrade g == g) &&
  id.extra.all (fun e => e.2.all (fun v => carried upgrade v == v))

/-- the identity with every value as it arrives -/
def carryIdentity (upgrade : Bool) (id : Identity) : Identity :=
  ⟨carried upgrade id.name, id.groups.map (carried upgrade), id.extra.map (fun e => (e.1, e.2.map (carried upgrade)))⟩

/-- the identity with its extra keys lower-cased: what arrived before `headerKeyEscape` escaped upper-case letters
    (/repo 0231ee3); only used by the judge to name that regression -/
def lowerKeys (id : Identity) : Identity :=
  ⟨id.name, id.groups, id.extra.map (fun e => (toLower e.1, e.2))⟩

/-! ## the judge -/

inductive Class where
  /-- a denied / malformed impersonation reached the upstream -/
  | forwardedUnapproved
  /-- the upstream received an `Authorization` other than the gateway's own -/
  | authorization
  /-- the upstream received an `Impersonate-*` header the gateway does not generate -/
  | clientHeaderForwarded
  /-- the `Impersonate-*` headers differ from the ones the gateway generates for the identity -/
  | impersonationHeaders
  /-- an impersonation with a name that is not valid UTF-8 was forwarded: the SubjectAccessReview (JSON) cannot carry it, the
      cluster was asked about ANOTHER record (the repaired defect C02-record-not-utf8, should it return) -/
  | recordNotUTF8
  /-- the upstream is told to act as another identity -/
  | identityMismatch
  /-- … differing only by the case of extra keys (the repaired defect C02-extra-key-case, should it return) -/
  | extraKeyCase
  /-- … differing only by white space at the ends of values, or CR / LF turned into spaces on the upgrade path
      (the repaired defect C02-value-not-carried, should it return: such identities must be refused, not forwarded) -/
  | valueNotCarried
deriving DecidableEq, Repr

def Class.name : Class → String
  | .forwardedUnapproved => "c02.forwarded-unapproved"
  | .authorization => "c02.authorization"
  | .clientHeaderForwarded => "c02.client-header-forwarded"
  | .impersonationHeaders => "c02.impersonation-headers"
  | .recordNotUTF8 => "c02.record-not-utf8"
  | .identityMismatch => "c02.identity-mismatch"
  | .extraKeyCase => "c02.extra-key-case"
  | .valueNotCarried => "c02.value-not-carried"

/-- every received identity bearing name carries exactly the values the gateway generates under that name
    (groups in order; other names as multisets: a Go map does not order them) -/
def namesAgree (recv gen : Headers) : Bool :=
  (recv ++ gen).all (fun e => !isIdentityName e.1 ||
    (if e.1 == hImpGroup then values recv e.1 == values gen e.1
     else sortStrs (values recv e.1) == sortStrs (values gen e.1)))

/-- the judgement on one request received by the upstream when identity `id` is the one to act as -/
def judgeForward (token : Str) (upgrade : Bool) (id : Identity) (recv : Headers) : List Class :=
  let gen := sendOver upgrade (gatewayHeaders token upgrade id)
  (if values recv hAuthorization == values gen hAuthorization then [] else [Class.authorization]) ++
  (if namesAgree (recv.filter (fun e => hasPrefix e.1 hImpPrefix)) (gen.filter (fun e => hasPrefix e.1 hImpPrefix)) then []
   else if recv.any (fun e => hasPrefix e.1 hImpPrefix && (values gen e.1).isEmpty) then [Class.clientHeaderForwarded]
   else [Class.impersonationHeaders]) ++
  (let d := decodeIdentity recv
   if identityAgree d id then []
   else if identityAgree d (carryIdentity upgrade id) then [Class.valueNotCarried]
   else if identityAgree d (lowerKeys id) then [Class.extraKeyCase]
   else if identityAgree d (lowerKeys (carryIdentity upgrade id)) then [Class.extraKeyCase, Class.valueNotCarried]
   else [Class.identityMismatch])

/-- the property on one case: `upstream` lists the headers of every request the upstream received -/
def judge (token : Str) (upgrade : Bool) (e : Expect) (upstream : List Headers) : List Class :=
  match e with
  | .answered _ => if upstream.isEmpty then [] else [Class.forwardedUnapproved]
  | .forward id => upstream.flatMap (judgeForward token upgrade id)

/-! ## the judge against the TARGET CLUSTER's policy -/

/-- every record the request requires is one a SubjectAccessReview carries unchanged (valid UTF-8) -/
def recordsCarried (raw : List (Str × Str)) : Bool := (requiredRecords raw).all (fun a => jsonAttrs a == a)

/-- The property, judged against what the target cluster answers about the EXACT required records (`policy`), whoever the
    requestor is: a request the cluster's policy refuses, or a malformed one, must not be forwarded. The repaired defect
    C02-record-not-utf8 is named should it return: a requested name that is not valid UTF-8 was forwarded (the cluster cannot
    have been asked about it). -/
def judgeCluster (token : Str) (upgrade : Bool) (raw : List (Str × Str)) (auth : Option Identity)
    (policy : Attrs → Decision) (upstream : List Headers) : List Class :=
  match expectedFor raw auth policy with
  | .answered _ =>
    if upstream.isEmpty then []
    else if impersonationRequested raw && !(checks raw).all refUTF8 then [Class.recordNotUTF8]
    else [Class.forwardedUnapproved]
  | .forward id => upstream.flatMap (judgeForward token upgrade id)

/-- what the upstream received, as the judge takes it -/
def upstreamOf : Outcome → List Headers
  | .forwarded recv _ => [recv]
  | _ => []

end KG.Spec.Identity
