import KG.Model.Shard
/-!
# C13 — what the property demands (the judge)

The specification does not mention the limiter's state: leadership is *what client-go told the elector*
(a function of the history of `gain` / `lose` / `newLeader` callbacks), the shard of an upstream is
`shardSpec`, and every observable step of a server (model or implementation) is judged by `JudgeStep`.
-/
namespace KG.Spec.Shard
open KG KG.Model.Shard

/-- The shard of a name: FNV-1a-32 of its bytes modulo N (stated for 1 ≤ N < 2^32, where `uint32(N) = N`). -/
def shardSpec (name : Str) (n : Nat) : Nat := (fnv32a name).toNat % n

/-- leadership of one shard as told by the leader-election callbacks -/
def leaderEv (me : Str) (f : Int → Option Str) (e : Op) : Int → Option Str :=
  match e with
  | .gain s => fun x => if x = s then some me else f x
  | .lose s | .loseBegin s => fun x => if x = s then (if (f s).getD [] == me then none else f s) else f x
  | .newLeader s id => fun x => if x = s then some id else f x
  | _ => f

/-- who leads shard `s` after history `h`, as far as this server was told (`none`: nobody known) -/
def leaderAfter (me : Str) (h : List Op) : Int → Option Str := h.foldl (leaderEv me) (fun _ => none)

/-- what a step answered, as far as the property cares -/
inductive Obs
  | refusedNaming (shard : Int) (leader : Str)   -- an error "upstream u, shard s, leader is L"
  | silent                                      -- nothing done, nothing answered (handler: nil; deleteCondition: return)
  | other
deriving Repr, DecidableEq

def obsOf {ρ : Type} : Reply ρ → Obs
  | .refused s l => .refusedNaming s l
  | .skipped _ _ => .silent
  | _ => .other

/-- The judge of one step `e` taken after history `pre` by a server `me` with `n` shards (`sh` = its shard
    function), given what was observed: the answer, whether the whole store state (which shards have a store,
    and every store's content) is unchanged, and which shards have a store afterwards.

    * allocate / acquire on upstream u while `me` is not the known leader of u's shard: refused with an error
      naming that shard and its leader (the empty name if none is known), nothing changed;
    * cluster update for upstream u while not leader: nil is returned, nothing changed; condition deletion
      (which answers nothing) while not leader: nothing changed;
    * after losing shard s (`lose`, or `loseEnd` = the stop callback has completed): no store for s; while the stop
      callback runs (between `loseBegin s` and `loseEnd s`) leadership is ALREADY lost as far as `leaderAfter` is
      concerned: the entry points must refuse and a leader check must not keep or create a store for s;
    * after a leader check: every remaining store is for a shard led by `me`. -/
def JudgeStep (me : Str) (sh : Str → Int) (pre : List Op) (e : Op) (obs : Obs) (unchanged : Prop)
    (storesAfter : List Int) : Prop :=
  match e with
  | .allocate u _ | .acquire u _ _ =>
    leaderAfter me pre (sh u) ≠ some me →
      obs = .refusedNaming (sh u) ((leaderAfter me pre (sh u)).getD []) ∧ unchanged
  | .clusterUpdate u =>
    leaderAfter me pre (sh u) ≠ some me → obs = .silent ∧ unchanged
  | .deleteCond _ u _ _ =>
    leaderAfter me pre (sh u) ≠ some me → unchanged
  | .lose s | .loseEnd s => s ∉ storesAfter
  | .leaderCheck => ∀ s ∈ storesAfter, leaderAfter me pre s = some me
  | _ => True

instance (me : Str) (sh : Str → Int) (pre : List Op) (e : Op) (obs : Obs) (unchanged : Prop) [Decidable unchanged]
    (storesAfter : List Int) : Decidable (JudgeStep me sh pre e obs unchanged storesAfter) := by
  unfold JudgeStep
  cases e <;> infer_instance

/-- the upstream an entry-point op is about -/
def Op.upstream : Op → Option Str
  | .clusterUpdate u | .allocate u _ | .acquire u _ _ | .deleteCond _ u _ _ => some u
  | _ => none

/-- the shard a leader-election callback is about -/
def Op.callbackShard : Op → Option Int
  | .gain s | .newLeader s _ => some s
  | _ => none

/-- does `u` hash to `shard`? -/
def inShard (shard n : Int) (u : Str) : Bool :=
  match getShardID u n with
  | .ok s => s == shard
  | .error _ => false


/-- `heldSince me h s`: since the server last took shard s (a `gain s`, or a leader check that found it
    leader), it has not been told it lost it (`lose s`), and every leader check since found it leader.
    A store for s can exist only then (`c13_hist_store_held`). -/
def heldStep (me : Str) (pre : List Op) (held : Int → Bool) (e : Op) : Int → Bool :=
  match e with
  | .gain s => fun x => if x = s then true else held x
  | .lose s | .loseEnd s => fun x => if x = s then false else held x
  | .leaderCheck => fun x => decide (leaderAfter me pre x = some me)
  | _ => held

def heldAux (me : Str) : List Op → List Op → (Int → Bool) → Int → Bool
  | _, [], held => held
  | pre, e :: rest, held => heldAux me (pre ++ [e]) rest (heldStep me pre held e)

def heldSince (me : Str) (h : List Op) : Int → Bool := heldAux me [] h (fun _ => false)

end KG.Spec.Shard
