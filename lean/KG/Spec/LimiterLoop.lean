import KG.Model.LimiterLoop
/-!
# The system-level judge of the closed loop (one upstream at a time)

`judgeU` is evaluated on an observation `UObs` of one upstream: what the limiter server has on record for it and what
every LIVE gateway that has a schema for it enforces. The harness evaluates it on observations of the REAL
`rateLimiter` and the REAL `upstreamLimiter`s after every op; `KG.Props.C07.Loop.loop_judge` proves that it accepts
the observation `obsU` of every state the composed model reaches.

Clauses (failure classes):
* `c07.loop-recorded-invariant`   the recorded quotas break C07's history invariant: a quota < 1, their sum above the
                                  recorded sum, or `sum − #(quotas = 1)` above the largest limit in force since the record began
* `c07.loop-system-overcommit`    the gateways that hold what the server has on record for them (distinct identities)
                                  together enforce more than that limit plus the number of instances held at 1
* `c07.loop-remote-size`          a gateway hands out a remote limiter that is not its applied quota / is negative
* `c07.loop-exceeds-answer`       … larger than the quota it was answered (and reports)
* `c07.loop-exceeds-own-limit`    … larger than its own view of the global limit although it applied an answer since
                                  that view last changed, or not exactly the answer bounded to `[0, view]`
* `c07.loop-remote-while-unreachable`  the remote limiter is handed out while the client set is not ready
* `c07.loop-fallback-local`       the local limiter handed out is not exactly the local limit
-/
namespace KG.Spec.LimiterLoop
open KG KG.Model KG.Model.LimiterLoop

/-- one live gateway's limiter for the upstream -/
structure GObs where
  id : Nat
  /-- `GetOrDefault` hands out the remote limiter -/
  remote : Bool
  /-- size of the limiter handed out -/
  enforced : Int
  /-- the quota it holds and reports (`remoteConfig`) -/
  raw : Option Int
  /-- size of its remote limiter -/
  applied : Option Int
  /-- its view of the global limit, its local limit -/
  view : Int
  loc : Int
  ready : Bool
  /-- monitor: it applied an answer since its view last changed -/
  fresh : Bool
deriving Repr, DecidableEq

/-- the server's record of the upstream -/
structure SObs where
  total : Int
  /-- monitor: the largest limit in force since the record began -/
  hi : Int
  recSum : Int
  quotas : List (Nat × Int)
deriving Repr, DecidableEq

structure UObs where
  srv : Option SObs
  gws : List GObs
deriving Repr, DecidableEq

def judgeG (g : GObs) : List String :=
  if g.remote then
    (if g.applied = some g.enforced ∧ 0 ≤ g.enforced then [] else ["c07.loop-remote-size"]) ++
    (if g.ready then [] else ["c07.loop-remote-while-unreachable"]) ++
    (match g.raw with
     | none => ["c07.loop-exceeds-answer"]
     | some r =>
       (if 0 ≤ r → g.enforced ≤ r then [] else ["c07.loop-exceeds-answer"]) ++
       (if g.fresh = true → (g.enforced = RemoteLimiter.bound r g.view ∧ (0 ≤ g.view → g.enforced ≤ g.view)) then []
        else ["c07.loop-exceeds-own-limit"]))
  else
    (if g.enforced = g.loc then [] else ["c07.loop-fallback-local"])

/-- the recorded-quota invariant of C07 relative to the monitor `hi` -/
def recordedOK (s : SObs) : Bool :=
  s.quotas.all (fun p => decide (1 ≤ p.2)) && decide (Alloc.sumQ s.quotas ≤ s.recSum) &&
    decide (Alloc.sumQ s.quotas - Alloc.onesQ s.quotas ≤ s.hi)

/-- the gateway holds exactly what the server has on record for it -/
def holdsRecord (q : List (Nat × Int)) (g : GObs) : Bool :=
  match g.raw, q.lookup g.id with
  | some r, some c => decide (r = c)
  | _, _ => false

/-- the capacity enforced through remote limiters -/
def sumRemote (gs : List GObs) : Int := ((gs.filter (·.remote)).map (·.enforced)).sum

def systemOK (s : SObs) (gs : List GObs) : Bool :=
  let rs := gs.filter (·.remote)
  !(decide (rs.map (·.id)).Nodup && rs.all (holdsRecord s.quotas)) ||
    decide (sumRemote gs ≤ s.hi + Alloc.onesQ s.quotas)

def judgeU (o : UObs) : List String :=
  (o.gws.map judgeG).flatten ++
  (match o.srv with
   | none => []
   | some s =>
     (if recordedOK s then [] else ["c07.loop-recorded-invariant"]) ++
     (if systemOK s o.gws then [] else ["c07.loop-system-overcommit"]))

/-! ## the observation of a model state -/

def obsG (n : Nat) (g : Gw) (u : Nat) : GObs :=
  let st := g.st n u
  { id := g.id, remote := usesRemote st, enforced := (enforced st).getD 0, raw := raw st, applied := applied st,
    view := (view st).getD 0, loc := (localLimit st).getD 0, ready := RemoteLimiter.isReady st,
    fresh := g.fresh.contains u }

def obsS (e : UpStore) : SObs := ⟨e.srv.total, e.hi, e.srv.recSum, e.srv.quotas⟩

def obsU (s : State) (u : Nat) : UObs :=
  { srv := (aget s.srv.ups u).map obsS
    gws := (s.gws.filter (fun g => reports s.nShards g u)).map (fun g => obsG s.nShards g u) }

end KG.Spec.LimiterLoop
