import KG.Model.LocalLimiter
/-!
# C05 — the property as a judge over a history and the answers observed for it

The judge knows nothing of limiter objects or counters. It keeps, for every configured
`(cluster, schema name)`, the schema in force and the list `inflight` of requests *admitted under it
since it last changed type (or was created) and not yet finished* — for a schema that is a max-in-flight
schema now, that is exactly "admitted under it since it last became a max-in-flight schema".

For each observed answer of an arriving request it demands

* schema currently max-in-flight with limit `M` (the `uint32` the code uses): admitted **iff** fewer than
  `M` requests of `inflight` are unfinished (`≤ M` in flight at every admission, with the limit in force
  at that moment — so after a change to `M'` requests are admitted only while fewer than `M'` are in
  flight — and never refused while a slot is free: no slot leaks, once all have finished `M` are
  admitted again);
* exempt schema, no such schema, or no schema name: admitted (so nothing configured for *another* schema
  or cluster can refuse it);
* token bucket: no demand (C06).

Reading chosen: a `Sync` is the sequence of its schemas applied in order (validation forbids duplicate
names; with duplicates each entry counts as one reconfiguration), names absent from the new list are
deleted, re-submitting the list in force is not a reconfiguration.
-/
namespace KG.Spec.LocalLimiter
open KG KG.Model.LocalLimiter

structure Entry where
  config : Schema
  inflight : List Nat
  deriving DecidableEq, Repr

structure SReq where
  c : Str
  n : Str
  admitted : Bool
  released : Bool
  deriving DecidableEq, Repr

structure SState where
  last : Str → List Schema
  entries : Str → Str → Option Entry
  reqs : List SReq

def SState.init : SState := { last := fun _ => [], entries := fun _ _ => none, reqs := [] }

def SState.setEntry (σ : SState) (c n : Str) (e : Option Entry) : SState :=
  { σ with entries := fun c' n' => if c' = c ∧ n' = n then e else σ.entries c' n' }

/-- one schema of a `Sync` -/
def applySchema (σ : SState) (c : Str) (s : Schema) : SState :=
  match σ.entries c s.name with
  | none => σ.setEntry c s.name (some ⟨s, []⟩)
  | some e =>
    if s = e.config then σ
    else if guessType s ≠ guessType e.config then σ.setEntry c s.name (some ⟨s, []⟩)
    else σ.setEntry c s.name (some { e with config := s })

def applySchemas (c : Str) : SState → List Schema → SState
  | σ, [] => σ
  | σ, s :: rest => applySchemas c (applySchema σ c s) rest

def specSync (σ : SState) (c : Str) (schemas : List Schema) : SState :=
  if σ.last c = schemas then σ
  else
    let σ' := applySchemas c σ schemas
    { σ' with last := fun d => if d = c then schemas else σ'.last d,
              entries := fun c' n' => if c' = c ∧ n' ∉ names schemas then none else σ'.entries c' n' }

/-- the limit of a max-in-flight schema as the code uses it: `uint32(schema.MaxRequestsInflight.Max)` -/
def limitOf (s : Schema) : Option Nat :=
  if guessType s = .maxInflight then s.mi.map toU32 else none

/-- What the property demands of the answer to a request arriving for `(c, n)`; `none` = no demand. -/
def demand (σ : SState) (c n : Str) : Option Bool :=
  if n = [] then some true
  else match σ.entries c n with
    | none => some true
    | some e =>
      match guessType e.config with
      | .exempt => some true
      | .tokenBucket => none
      | .maxInflight =>
        match e.config.mi with
        | none => none
        | some m => some (decide (e.inflight.length < toU32 m))

def specAcquire (σ : SState) (c n : Str) (admitted : Bool) : SState :=
  let i := σ.reqs.length
  let σ1 := { σ with reqs := σ.reqs ++ [⟨c, n, admitted, false⟩] }
  if n = [] ∨ ¬ admitted then σ1
  else match σ.entries c n with
    | none => σ1
    | some e => σ1.setEntry c n (some { e with inflight := i :: e.inflight })

def specMark (reqs : List SReq) (i : Nat) : List SReq :=
  match reqs[i]? with
  | none => reqs
  | some r => reqs.set i { r with released := true }

def specRelease (σ : SState) (i : Nat) : SState :=
  match σ.reqs[i]? with
  | none => σ
  | some r =>
    if r.admitted ∧ ¬ r.released then
      let σ1 := { σ with reqs := specMark σ.reqs i }
      match σ.entries r.c r.n with
      | none => σ1
      | some e => σ1.setEntry r.c r.n (some { e with inflight := e.inflight.erase i })
    else σ

/-- Is the observed answer `out` to `op` acceptable in spec state `σ`? -/
def check (σ : SState) : Op → Out → Bool
  | .acquire c n _, .acquired b =>
    match demand σ c n with
    | none => true
    | some d => b == d
  | .acquire _ _ _, .panic _ => false          -- an arriving request never brings the gateway down
  | _, _ => true

def specStep (σ : SState) : Op → Out → SState
  | .sync c schemas, .synced => specSync σ c schemas
  | .acquire c n _, .acquired b => specAcquire σ c n b
  | .release i, _ => specRelease σ i
  | _, _ => σ

/-- Index of the first answer that breaks the property, if any. A history ends at the first panic. -/
def judgeFrom (σ : SState) (k : Nat) : List Op → List Out → Option Nat
  | op :: ops, out :: outs =>
    if check σ op out then
      if out.isPanic then none else judgeFrom (specStep σ op out) (k + 1) ops outs
    else some k
  | _, _ => none

def judge (ops : List Op) (outs : List Out) : Option Nat := judgeFrom SState.init 0 ops outs

end KG.Spec.LocalLimiter
