import KG.Model.LocalLimiter
/-!
# C05 — the property as a judge over a history and the answers observed for it

Two judges over the same bookkeeping.

**The bookkeeping** (`SState`) knows nothing of limiter objects or counters. It keeps, for every configured
`(cluster, schema name)`, the schema in force and the list `inflight` of requests *admitted under it since it
last changed type (or was created) and not yet finished* — for a schema that is a max-in-flight schema now,
that is exactly "admitted under it since it last became a max-in-flight schema".

**`judge` — the property, read from its text** (what the harness applies to the real code). The property
speaks about "a max-requests-in-flight schema with limit `M`". That is a schema as validation admits it:
exactly one kind set (a global part only beside its local part), `M = max ≥ 0`, names unique in the list. For
such a schema (`schemaValid`, not `tainted`):

* `|inflight| ≥ M` ⇒ the arriving request must be **refused** (never more than `M` admitted and unfinished;
  with the limit in force at that moment, so after a change to `M'` only while fewer than `M'` are in flight);
* `|inflight| < M` and, since the last moment at which nothing was in flight under it, no request has finished
  (`fresh`) ⇒ it must be **admitted** ("once all requests have finished `M` new ones are admitted again": no
  slot leaked, no other schema's or cluster's load counted). A refusal at any other moment is not judged: the
  text does not forbid an implementation that is stricter than necessary.
* an exempt schema, or no schema name at all ("if not set, there is no limit") ⇒ admitted;
* token bucket ⇒ no demand (C06).

Where the text says nothing the judge demands **nothing**, in either direction: a negative `max` (the code casts
it to `uint32`: 4294967295 slots — an implementation choice, not the property), several kinds or none set,
a global part without its local part, a name occurring twice in one list or configured by such an invalid schema
at any time since it was last absent (`tainted`: whether the schema kept or changed its generation is then
unspecified), a policy naming a schema that does not exist.

**`judgeExact` — what the current code does, everywhere**: admitted **iff** `|inflight| < uint32(max)`, for
every schema the code treats as max-in-flight (its own priority of kinds, duplicates applied in order), admitted
whenever no limiter applies. `judge` accepts whatever `judgeExact` accepts (`check_of_exact`); the model is
proved to satisfy `judgeExact` (so also `judge`), and a difference between model and code is a broken tie,
never a judge failure.

Reading common to both: a `Sync` is the sequence of its schemas applied in order, names absent from the new
list are deleted (a later re-addition starts a new generation), re-submitting the list in force is not a
reconfiguration, a limiter-mode switch is not a reconfiguration.
-/
namespace KG.Spec.LocalLimiter
open KG KG.Model.LocalLimiter

structure Entry where
  config : Schema
  inflight : List Nat
  deriving DecidableEq, Repr

structure SReq where
  c : Str
  n : Str
  admitted : Bool
  released : Bool
  deriving DecidableEq, Repr

structure SState where
  last : Str → List Schema
  entries : Str → Str → Option Entry
  reqs : List SReq

def SState.init : SState := { last := fun _ => [], entries := fun _ _ => none, reqs := [] }

def SState.setEntry (σ : SState) (c n : Str) (e : Option Entry) : SState :=
  { σ with entries := fun c' n' => if c' = c ∧ n' = n then e else σ.entries c' n' }

/-- one schema of a `Sync` -/
def applySchema (σ : SState) (c : Str) (s : Schema) : SState :=
  match σ.entries c s.name with
  | none => σ.setEntry c s.name (some ⟨s, []⟩)
  | some e =>
    if s = e.config then σ
    else if guessType s ≠ guessType e.config then σ.setEntry c s.name (some ⟨s, []⟩)
    else σ.setEntry c s.name (some { e with config := s })

def applySchemas (c : Str) : SState → List Schema → SState
  | σ, [] => σ
  | σ, s :: rest => applySchemas c (applySchema σ c s) rest

def specSync (σ : SState) (c : Str) (schemas : List Schema) : SState :=
  if σ.last c = schemas then σ
  else
    let σ' := applySchemas c σ schemas
    { σ' with last := fun d => if d = c then schemas else σ'.last d,
              entries := fun c' n' => if c' = c ∧ n' ∉ names schemas then none else σ'.entries c' n' }

/-- the limit of a max-in-flight schema as the code uses it: `uint32(schema.MaxRequestsInflight.Max)` -/
def limitOf (s : Schema) : Option Nat :=
  if guessType s = .maxInflight then s.mi.map toU32 else none

/-- What the *current code* answers to a request arriving for `(c, n)` (`none`: token bucket, an input). -/
def demandExact (σ : SState) (c n : Str) : Option Bool :=
  if n = [] then some true
  else match σ.entries c n with
    | none => some true
    | some e =>
      match guessType e.config with
      | .exempt => some true
      | .tokenBucket => none
      | .maxInflight =>
        match e.config.mi with
        | none => none
        | some m => some (decide (e.inflight.length < toU32 m))

def specAcquire (σ : SState) (c n : Str) (admitted : Bool) : SState :=
  let i := σ.reqs.length
  let σ1 := { σ with reqs := σ.reqs ++ [⟨c, n, admitted, false⟩] }
  if n = [] ∨ ¬ admitted then σ1
  else match σ.entries c n with
    | none => σ1
    | some e => σ1.setEntry c n (some { e with inflight := i :: e.inflight })

def specMark (reqs : List SReq) (i : Nat) : List SReq :=
  match reqs[i]? with
  | none => reqs
  | some r => reqs.set i { r with released := true }

def specRelease (σ : SState) (i : Nat) : SState :=
  match σ.reqs[i]? with
  | none => σ
  | some r =>
    if r.admitted ∧ ¬ r.released then
      let σ1 := { σ with reqs := specMark σ.reqs i }
      match σ.entries r.c r.n with
      | none => σ1
      | some e => σ1.setEntry r.c r.n (some { e with inflight := e.inflight.erase i })
    else σ

/-- Is the observed answer `out` to `op` acceptable in spec state `σ`? -/
def checkExact (σ : SState) : Op → Out → Bool
  | .acquire c n _, .acquired b =>
    match demandExact σ c n with
    | none => true
    | some d => b == d
  | .acquire _ _ _, .panic _ => false          -- an arriving request never brings the gateway down
  | _, _ => true

def specStep (σ : SState) : Op → Out → SState
  | .sync c schemas, .synced => specSync σ c schemas
  | .acquire c n _, .acquired b => specAcquire σ c n b
  | .release i, _ => specRelease σ i
  | _, _ => σ

/-- Index of the first answer that breaks the property, if any. A history ends at the first panic. -/
def judgeExactFrom (σ : SState) (k : Nat) : List Op → List Out → Option Nat
  | op :: ops, out :: outs =>
    if checkExact σ op out then
      if out.isPanic then none else judgeExactFrom (specStep σ op out) (k + 1) ops outs
    else some k
  | _, _ => none

def judgeExact (ops : List Op) (outs : List Out) : Option Nat := judgeExactFrom SState.init 0 ops outs


/-! ## the property's own judge -/

/-- a schema as validation admits it: exactly one kind, a global part only beside its local part, `max ≥ 0` -/
def schemaValid (s : Schema) : Bool :=
  ((if s.exempt then 1 else 0) + (if s.mi.isSome then 1 else 0) + (if s.tb.isSome then 1 else 0) == (1 : Nat))
    && (s.gmi.isNone || s.mi.isSome) && (s.gtb.isNone || s.tb.isSome)
    && (match s.mi with
        | some m => decide (0 ≤ m)
        | none => true)

structure PState where
  σ : SState
  /-- since the last moment at which nothing was in flight under the schema, no request under it has finished -/
  fresh : Str → Str → Bool
  /-- since the name was last absent it has been configured by an invalid schema or twice in one list -/
  tainted : Str → Str → Bool

def PState.init : PState := { σ := SState.init, fresh := fun _ _ => true, tainted := fun _ _ => false }

def freshAfter (old : Bool) (before after : Option Entry) : Bool :=
  match after with
  | none => true
  | some e' =>
    if e'.inflight.isEmpty then true
    else match before with
      | none => true
      | some e => if e'.inflight.length < e.inflight.length then false else old

def taintAfter (old : Bool) (n : Str) (schemas : List Schema) : Bool :=
  let mine := schemas.filter (fun s => s.name = n)
  if mine.isEmpty then false
  else old || decide (1 < mine.length) || mine.any (fun s => !schemaValid s)

def pStep (p : PState) (op : Op) (out : Out) : PState :=
  let σ' := specStep p.σ op out
  { σ := σ',
    fresh := fun c n => freshAfter (p.fresh c n) (p.σ.entries c n) (σ'.entries c n),
    tainted := fun c n =>
      match op, out with
      | .sync c' schemas, .synced =>
        if c' = c ∧ p.σ.last c ≠ schemas then taintAfter (p.tainted c n) n schemas else p.tainted c n
      | _, _ => p.tainted c n }

/-- What the property demands of the answer to a request arriving for `(c, n)`; `none` = no demand. -/
def demand (p : PState) (c n : Str) : Option Bool :=
  if n = [] then some true
  else match p.σ.entries c n with
    | none => none
    | some e =>
      if p.tainted c n || !schemaValid e.config then none
      else match guessType e.config with
        | .exempt => some true
        | .tokenBucket => none
        | .maxInflight =>
          match e.config.mi with
          | none => none
          | some m =>
            -- `valid` ⇒ `0 ≤ m`, so `toU32 m` is the limit `M = m` itself
            if e.inflight.length < toU32 m then (if p.fresh c n then some true else none) else some false

def check (p : PState) : Op → Out → Bool
  | .acquire c n _, .acquired b =>
    match demand p c n with
    | none => true
    | some d => b == d
  | .acquire _ _ _, .panic _ => false
  | _, _ => true

/-- Index of the first answer that breaks the property, if any. A history ends at the first panic. -/
def judgeFrom (p : PState) (k : Nat) : List Op → List Out → Option Nat
  | op :: ops, out :: outs =>
    if check p op out then
      if out.isPanic then none else judgeFrom (pStep p op out) (k + 1) ops outs
    else some k
  | _, _ => none

def judge (ops : List Op) (outs : List Out) : Option Nat := judgeFrom PState.init 0 ops outs

/-- the property demands nothing the exact description of the code does not also say -/
theorem demand_of_exact (p : PState) (c n : Str) (d : Bool) (h : demand p c n = some d) :
    demandExact p.σ c n = some d := by
  unfold demand at h
  unfold demandExact
  by_cases hn : n = []
  · simp only [hn, if_true] at h ⊢; exact h
  · simp only [hn, if_false] at h ⊢
    cases he : p.σ.entries c n with
    | none => rw [he] at h; cases h
    | some e =>
      rw [he] at h
      simp only at h ⊢
      split at h
      · cases h
      · cases hg : guessType e.config with
        | exempt => rw [hg] at h; exact h
        | tokenBucket => rw [hg] at h; cases h
        | maxInflight =>
          rw [hg] at h
          simp only at h ⊢
          cases hm : e.config.mi with
          | none => rw [hm] at h; cases h
          | some m =>
            rw [hm] at h
            simp only at h ⊢
            by_cases hlt : e.inflight.length < toU32 m
            · simp only [hlt, if_true] at h
              split at h
              · injection h with h; subst h; simp [hlt]
              · cases h
            · simp only [hlt, if_false] at h
              injection h with h; subst h; simp [hlt]

theorem check_of_exact (p : PState) (op : Op) (out : Out) (h : checkExact p.σ op out = true) :
    check p op out = true := by
  cases op with
  | acquire c n tb =>
    cases out with
    | acquired b =>
      simp only [check]
      cases hd : demand p c n with
      | none => rfl
      | some d =>
        have := demand_of_exact p c n d hd
        simp only [checkExact, this] at h
        exact h
    | synced => rfl
    | released d => rfl
    | panic m => simp [checkExact] at h
  | sync c l => cases out <;> rfl
  | release i => cases out <;> rfl
  | reset c m => cases out <;> rfl

theorem judgeFrom_of_exact (p : PState) (k : Nat) (ops : List Op) (outs : List Out)
    (h : judgeExactFrom p.σ k ops outs = none) : judgeFrom p k ops outs = none := by
  induction ops generalizing p k outs with
  | nil => simp [judgeFrom]
  | cons op ops ih =>
    cases outs with
    | nil => simp [judgeFrom]
    | cons out outs =>
      simp only [judgeExactFrom] at h
      by_cases hc : checkExact p.σ op out = true
      · simp only [hc, if_true] at h
        simp only [judgeFrom, check_of_exact p op out hc, if_true]
        by_cases hp : out.isPanic = true
        · simp [hp]
        · simp only [hp, if_false] at h ⊢
          exact ih (pStep p op out) (k + 1) outs h
      · simp only [hc, if_false] at h
        cases h

end KG.Spec.LocalLimiter
