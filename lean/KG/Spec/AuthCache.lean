import KG.Model.AuthCache
/-!
# C12 as a judge on observations

An *observation* is what can be seen of one finished request from outside the authenticator / authorizer:
the cluster instance the request's host resolved to when the request arrived (`own`), whether that cluster had a
ready endpoint then (`ownReady`), the credentials / attributes, the answer, the time, and whether a review was
sent during the request (`reviewed`). The judge says where the answer may have come from:

* no cluster, or no ready endpoint: the fixed error (not authenticated / `decisionOnError`), nothing was asked;
* a review was sent: the answer is what the request's OWN cluster says now (an error of the cluster is an error);
* no review was sent: an error that is not an upstream error (e.g. `moved`: the host changed hands while the request
  was processed), or what the request's OWN cluster said for the same
  token / spec at some earlier time that is still within the TTL of that answer.

No other cluster's oracle occurs in the judge: an answer that only another cluster gave is rejected.
`TokJudge`/`SarJudge` are the properties (`Prop`, about every earlier time); `tokJudge`/`sarJudge` are the
executable versions that search a finite list of candidate times, proved sound (`tokJudge_sound`, `sarJudge_sound`).
The theorems in `KG.Props.C12` show that every answer of the model satisfies `TokJudge`/`SarJudge`; the harness applies
`tokJudge`/`sarJudge` to the answers of the real code.
-/
namespace KG.Spec.AuthCache
open KG KG.Model.AuthCache

structure TokObs where
  own : Option Inst
  ownReady : Bool
  tok : Str
  res : TokRes
  time : Time
  reviewed : Bool
deriving Repr

structure SarObs where
  own : Option Inst
  ownReady : Bool
  attrs : Attrs
  res : SarRes
  time : Time
  reviewed : Bool
deriving Repr

/-- the answer `c` gave at `t'` is still usable at `time` (`Expiring`: `now < stored + ttl`), never an error -/
def tokCachedAt (env : Env) (c : Inst) (o : TokObs) (t' : Time) : Prop :=
  t' ≤ o.time ∧ env.tokO c o.tok t' ≠ .err ∧ o.res = (env.tokO c o.tok t').res ∧
    o.time < t' + tokTTL env.cfg (env.tokO c o.tok t')

def TokJudge (env : Env) (o : TokObs) : Prop :=
  match o.own with
  | none => o.res = .error .notFound ∧ o.reviewed = false
  | some c =>
    if o.ownReady = false then o.res = .error .noReady ∧ o.reviewed = false
    else if o.reviewed then o.res = (env.tokO c o.tok o.time).res
    else (o.res.isError = true ∧ o.res ≠ .error .upstream) ∨ ∃ t', tokCachedAt env c o t'

/-- `LRUExpireCache`: live while `now ≤ stored + ttl` (the look-up is not guarded by `shouldCache`, only the store is) -/
def sarCachedAt (env : Env) (c : Inst) (o : SarObs) (t' : Time) : Prop :=
  t' ≤ o.time ∧
    ∃ st, env.sarO c (specOf o.attrs) t' = .status st ∧ o.res = decideStatus st ∧ o.time ≤ t' + sarTTL env.cfg st

def SarJudge (env : Env) (o : SarObs) : Prop :=
  (o.res.err ≠ none → o.res.decision = .deny) ∧
  match o.own with
  | none => o.res = sarErr .notFound ∧ o.reviewed = false
  | some c =>
    if o.ownReady = false then o.res = sarErr .noReady ∧ o.reviewed = false
    else if o.reviewed then o.res = (env.sarO c (specOf o.attrs) o.time).res
    else o.res = sarErr .moved ∨ ∃ t', sarCachedAt env c o t'

/-- the cluster of `host` has a ready endpoint -/
def ownReady (s : State) (host : Str) : Bool :=
  match mgrGet s.mgr host with
  | none => false
  | some c => !(readyOf s c).isEmpty

/-! ## executable versions -/

def tokCachedAtB (env : Env) (c : Inst) (o : TokObs) (t' : Time) : Bool :=
  decide (t' ≤ o.time) && decide (env.tokO c o.tok t' ≠ .err) && decide (o.res = (env.tokO c o.tok t').res) &&
    decide (o.time < t' + tokTTL env.cfg (env.tokO c o.tok t'))

def tokJudge (env : Env) (cands : List Time) (o : TokObs) : Bool :=
  match o.own with
  | none => decide (o.res = .error .notFound) && !o.reviewed
  | some c =>
    if o.ownReady = false then decide (o.res = .error .noReady) && !o.reviewed
    else if o.reviewed then decide (o.res = (env.tokO c o.tok o.time).res)
    else (o.res.isError && decide (o.res ≠ .error .upstream)) || cands.any (tokCachedAtB env c o)

def sarCachedAtB (env : Env) (c : Inst) (o : SarObs) (t' : Time) : Bool :=
  decide (t' ≤ o.time) &&
    match env.sarO c (specOf o.attrs) t' with
    | .status st => decide (o.res = decideStatus st) && decide (o.time ≤ t' + sarTTL env.cfg st)
    | .err => false

def sarJudge (env : Env) (cands : List Time) (o : SarObs) : Bool :=
  (o.res.err.isNone || decide (o.res.decision = .deny)) &&
  match o.own with
  | none => decide (o.res = sarErr .notFound) && !o.reviewed
  | some c =>
    if o.ownReady = false then decide (o.res = sarErr .noReady) && !o.reviewed
    else if o.reviewed then decide (o.res = (env.sarO c (specOf o.attrs) o.time).res)
    else decide (o.res = sarErr .moved) || cands.any (sarCachedAtB env c o)

theorem tokCachedAtB_sound (env : Env) (c : Inst) (o : TokObs) (t' : Time)
    (h : tokCachedAtB env c o t' = true) : tokCachedAt env c o t' := by
  simp only [tokCachedAtB, Bool.and_eq_true, decide_eq_true_eq] at h
  exact ⟨h.1.1.1, h.1.1.2, h.1.2, h.2⟩

theorem tokJudge_sound (env : Env) (cands : List Time) (o : TokObs) (h : tokJudge env cands o = true) :
    TokJudge env o := by
  unfold tokJudge at h
  unfold TokJudge
  cases hown : o.own with
  | none =>
    simp only [hown] at h ⊢
    simpa using h
  | some c =>
    simp only [hown] at h ⊢
    cases hr : o.ownReady <;> cases hv : o.reviewed <;> simp only [hr, hv] at h ⊢
    · simpa using h
    · simp at h
    · simp only [Bool.true_eq_false, if_false, Bool.false_eq_true] at h ⊢
      rw [Bool.or_eq_true] at h
      cases h with
      | inl h =>
        left
        simpa using h
      | inr h =>
        right
        obtain ⟨t', _, ht⟩ := List.any_eq_true.1 h
        exact ⟨t', tokCachedAtB_sound env c o t' ht⟩
    · simpa using h

theorem sarCachedAtB_sound (env : Env) (c : Inst) (o : SarObs) (t' : Time)
    (h : sarCachedAtB env c o t' = true) : sarCachedAt env c o t' := by
  unfold sarCachedAtB at h
  rw [Bool.and_eq_true] at h
  obtain ⟨h1, h3⟩ := h
  refine ⟨by simpa using h1, ?_⟩
  split at h3
  · rename_i st hst
    rw [Bool.and_eq_true] at h3
    exact ⟨st, hst, by simpa using h3.1, by simpa using h3.2⟩
  · cases h3

theorem sarJudge_sound (env : Env) (cands : List Time) (o : SarObs) (h : sarJudge env cands o = true) :
    SarJudge env o := by
  unfold sarJudge at h
  rw [Bool.and_eq_true] at h
  obtain ⟨he, h⟩ := h
  refine ⟨?_, ?_⟩
  · intro hn
    rw [Bool.or_eq_true] at he
    cases he with
    | inl he => cases hx : o.res.err <;> simp_all
    | inr he => simpa using he
  · cases hown : o.own with
    | none =>
      simp only [hown] at h ⊢
      simpa using h
    | some c =>
      simp only [hown] at h ⊢
      cases hr : o.ownReady <;> cases hv : o.reviewed <;> simp only [hr, hv] at h ⊢
      · simpa using h
      · simp at h
      · simp only [Bool.true_eq_false, if_false, Bool.false_eq_true] at h ⊢
        rw [Bool.or_eq_true] at h
        cases h with
        | inl h => exact Or.inl (by simpa using h)
        | inr h =>
          obtain ⟨t', _, ht⟩ := List.any_eq_true.1 h
          exact Or.inr ⟨t', sarCachedAtB_sound env c o t' ht⟩
      · simpa using h

/-! ## the judge applied to the IMPLEMENTATION: only what the property demands

`TokJudge`/`SarJudge` describe the model exactly (which error in which situation). The property itself only demands that a
request that cannot be served by its own cluster is refused; it does not say with which error, and refusing more often
(a stricter implementation) never breaks it. `TokJudgeR`/`SarJudgeR` are implied by the exact judges
(`TokJudge.relax`, `SarJudge.relax`) and are what the harness evaluates on the real answers:

* no cluster / no ready endpoint: some error (deny), nothing asked;
* a review was sent: the answer the request's own cluster gives now — or a refusal;
* no review: a refusal that is not an upstream error (an upstream error without a review is a cached error), or what the
  request's own cluster said earlier, still within the TTL. Errors always deny. -/

def TokJudgeR (env : Env) (o : TokObs) : Prop :=
  match o.own with
  | none => o.res.isError = true ∧ o.reviewed = false
  | some c =>
    if o.ownReady = false then o.res.isError = true ∧ o.reviewed = false
    else if o.reviewed then o.res = (env.tokO c o.tok o.time).res ∨ o.res.isError = true
    else (o.res.isError = true ∧ o.res ≠ .error .upstream) ∨ ∃ t', tokCachedAt env c o t'

def SarJudgeR (env : Env) (o : SarObs) : Prop :=
  (o.res.err ≠ none → o.res.decision = .deny) ∧
  match o.own with
  | none => o.res.err ≠ none ∧ o.reviewed = false
  | some c =>
    if o.ownReady = false then o.res.err ≠ none ∧ o.reviewed = false
    else if o.reviewed then o.res = (env.sarO c (specOf o.attrs) o.time).res ∨ o.res.err ≠ none
    else (o.res.err ≠ none ∧ o.res.err ≠ some .upstream) ∨ ∃ t', sarCachedAt env c o t'

theorem TokJudge.relax {env : Env} {o : TokObs} (h : TokJudge env o) : TokJudgeR env o := by
  unfold TokJudge at h
  unfold TokJudgeR
  cases hown : o.own with
  | none =>
    simp only [hown] at h ⊢
    exact ⟨by rw [h.1]; rfl, h.2⟩
  | some c =>
    simp only [hown] at h ⊢
    cases hr : o.ownReady <;> cases hv : o.reviewed <;> simp only [hr, hv] at h ⊢
    · exact ⟨by rw [h.1]; rfl, h.2⟩
    · exact ⟨by rw [h.1]; rfl, h.2⟩
    · simpa using h
    · simp only [if_true] at h ⊢
      exact Or.inl h

theorem SarJudge.relax {env : Env} {o : SarObs} (h : SarJudge env o) : SarJudgeR env o := by
  obtain ⟨h1, h2⟩ := h
  refine ⟨h1, ?_⟩
  have hne : ∀ k, (sarErr k).err ≠ none := fun k => by simp [sarErr]
  cases hown : o.own with
  | none =>
    simp only [hown] at h2 ⊢
    exact ⟨by rw [h2.1]; exact hne _, h2.2⟩
  | some c =>
    simp only [hown] at h2 ⊢
    cases hr : o.ownReady <;> cases hv : o.reviewed <;> simp only [hr, hv] at h2 ⊢
    · exact ⟨by rw [h2.1]; exact hne _, h2.2⟩
    · exact ⟨by rw [h2.1]; exact hne _, h2.2⟩
    · simp only [Bool.true_eq_false, if_false, Bool.false_eq_true] at h2 ⊢
      cases h2 with
      | inl h2 => exact Or.inl ⟨by rw [h2]; exact hne _, by rw [h2]; simp [sarErr]⟩
      | inr h2 => exact Or.inr h2
    · simp only [if_true] at h2 ⊢
      exact Or.inl h2

def tokJudgeR (env : Env) (cands : List Time) (o : TokObs) : Bool :=
  match o.own with
  | none => o.res.isError && !o.reviewed
  | some c =>
    if o.ownReady = false then o.res.isError && !o.reviewed
    else if o.reviewed then decide (o.res = (env.tokO c o.tok o.time).res) || o.res.isError
    else (o.res.isError && decide (o.res ≠ .error .upstream)) || cands.any (tokCachedAtB env c o)

def sarJudgeR (env : Env) (cands : List Time) (o : SarObs) : Bool :=
  (o.res.err.isNone || decide (o.res.decision = .deny)) &&
  match o.own with
  | none => o.res.err.isSome && !o.reviewed
  | some c =>
    if o.ownReady = false then o.res.err.isSome && !o.reviewed
    else if o.reviewed then decide (o.res = (env.sarO c (specOf o.attrs) o.time).res) || o.res.err.isSome
    else (o.res.err.isSome && decide (o.res.err ≠ some .upstream)) || cands.any (sarCachedAtB env c o)

theorem tokJudgeR_sound (env : Env) (cands : List Time) (o : TokObs) (h : tokJudgeR env cands o = true) :
    TokJudgeR env o := by
  unfold tokJudgeR at h
  unfold TokJudgeR
  cases hown : o.own with
  | none =>
    simp only [hown] at h ⊢
    simpa using h
  | some c =>
    simp only [hown] at h ⊢
    cases hr : o.ownReady <;> cases hv : o.reviewed <;> simp only [hr, hv] at h ⊢
    · simpa using h
    · simp at h
    · simp only [Bool.true_eq_false, if_false, Bool.false_eq_true] at h ⊢
      rw [Bool.or_eq_true] at h
      cases h with
      | inl h => left; simpa using h
      | inr h =>
        right
        obtain ⟨t', _, ht⟩ := List.any_eq_true.1 h
        exact ⟨t', tokCachedAtB_sound env c o t' ht⟩
    · simpa using h

theorem isSome_ne_none {α} {x : Option α} (h : x.isSome = true) : x ≠ none := by
  cases x <;> simp_all

theorem sarJudgeR_sound (env : Env) (cands : List Time) (o : SarObs) (h : sarJudgeR env cands o = true) :
    SarJudgeR env o := by
  unfold sarJudgeR at h
  rw [Bool.and_eq_true] at h
  obtain ⟨he, h⟩ := h
  refine ⟨?_, ?_⟩
  · intro hn
    rw [Bool.or_eq_true] at he
    cases he with
    | inl he => cases hx : o.res.err <;> simp_all
    | inr he => simpa using he
  · cases hown : o.own with
    | none =>
      simp only [hown, Bool.and_eq_true, Bool.not_eq_true'] at h ⊢
      exact ⟨isSome_ne_none h.1, h.2⟩
    | some c =>
      simp only [hown] at h ⊢
      cases hr : o.ownReady <;> cases hv : o.reviewed <;> simp only [hr, hv] at h ⊢
      · simp only [if_true, Bool.and_eq_true, Bool.not_eq_true'] at h ⊢
        exact ⟨isSome_ne_none h.1, h.2⟩
      · simp at h
      · simp only [Bool.true_eq_false, if_false, Bool.false_eq_true] at h ⊢
        rw [Bool.or_eq_true] at h
        cases h with
        | inl h =>
          rw [Bool.and_eq_true] at h
          exact Or.inl ⟨isSome_ne_none h.1, by simpa using h.2⟩
        | inr h =>
          obtain ⟨t', _, ht⟩ := List.any_eq_true.1 h
          exact Or.inr ⟨t', sarCachedAtB_sound env c o t' ht⟩
      · simp only [Bool.true_eq_false, if_false, if_true] at h ⊢
        rw [Bool.or_eq_true] at h
        cases h with
        | inl h => exact Or.inl (by simpa using h)
        | inr h => exact Or.inr (isSome_ne_none h)

end KG.Spec.AuthCache
