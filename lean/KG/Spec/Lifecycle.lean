import KG.Model.Lifecycle
/-!
# C15 — the judge: what an observer of the gateway may never see

An *observation* is what the correspondence harness can read from the running gateway (and what `observe` reads
from a model state): for every `ClusterInfo` object whether some name still resolves to it and whether its
context is done; for every `EndpointInfo` object whether it is still in its cluster's endpoint map, whether its
context is done and whether its health-check loop is still probing; for every proxied request whether it is
still alive (its context is not done) and on which endpoint.

`judge` is the removal property on one observation:
* a cluster no name resolves to is stopped (deleted ⇒ cancelled; nothing leaks),
* an endpoint that left the endpoint map, or whose cluster is stopped, is cancelled,
* a cancelled endpoint is not probed any more,
* no proxied request is alive on a cancelled endpoint.
The theorems of `KG.Props.C15` show `judge (observe s) = true` for every reachable model state `s`; the
harness evaluates the same `judge` (through the driver) on what it observes on the real code after every
operation of a history.
-/
namespace KG.Spec.Lifecycle
open KG KG.Model.Lifecycle

structure ObsCluster where
  o : Nat
  resolvable : Bool
  done : Bool
  deriving Repr

structure ObsEp where
  id : Nat
  owner : Nat
  inMap : Bool
  done : Bool
  hcLive : Bool
  deriving Repr

structure ObsReq where
  r : Nat
  eid : Nat
  live : Bool
  deriving Repr

structure Obs where
  clusters : List ObsCluster
  eps : List ObsEp
  reqs : List ObsReq
  deriving Repr

def clusterOk (c : ObsCluster) : Bool := c.resolvable || c.done

def epOk (cs : List ObsCluster) (e : ObsEp) : Bool :=
  (e.inMap || e.done) && (!e.done || !e.hcLive) &&
  cs.all (fun c => !(c.o == e.owner) || !c.done || e.done)

def reqOk (es : List ObsEp) (q : ObsReq) : Bool :=
  !q.live || es.all (fun e => !(e.id == q.eid) || !e.done)

def judge (ob : Obs) : Bool :=
  ob.clusters.all clusterOk && ob.eps.all (epOk ob.clusters) && ob.reqs.all (reqOk ob.eps)

/-! ## reading an observation off a model state -/

def obsCluster (st : State) (o : Nat) : List ObsCluster :=
  match st.heap o with
  | none => []
  | some c => [{ o := o, resolvable := st.names c.name == some o, done := done st.cancels (clChain o) }]

def obsEp (st : State) (e : Ep) : ObsEp :=
  { id := e.id, owner := e.owner, inMap := e.inMap, done := done st.cancels e.chain, hcLive := hcLive st.cancels e }

def obsReq (st : State) (r : Nat) : List ObsReq :=
  match st.reqs r with
  | some (Phase.proxying eid o) => [{ r := r, eid := eid, live := !reqDone st r eid o }]
  | _ => []

def observe (st : State) (rids : List Nat) : Obs :=
  { clusters := (List.range st.next).flatMap (obsCluster st),
    eps := st.eps.map (obsEp st),
    reqs := rids.flatMap (obsReq st) }

end KG.Spec.Lifecycle
