import KG.Model.RemoteLimiter
/-!
# C09 — the property as a judge over (operation list, observations)

`judgeAll cfg ops obs` replays an operation list next to the observations made after every operation (by the real
code in the harness, by the model in the theorems) and returns, for every step, the list of property clauses that
the observation breaks (empty = fine). It keeps a small *monitor* `Mon` of what the property talks about:

* the schema in force, the heartbeat history of the cluster's shard, the shard count;
* `gs`: the configured global limit at the last effective sync of the remote limiter (a reconcile of a
  global-count schema, or an answered item of the schema's type while global flow control is enabled);
* `ob`: the bound the remote limiter must respect now: `gs`, or — while the wrapper reports the limiter server
  unavailable, when its size is frozen — the largest `gs` seen since that outage began.
  For one schema configuration (what the property quantifies over) `gs = ob =` the schema's global limit.

Clauses (failure classes):
* `c09.cap-exceeds-global`        the remote limiter is larger than `ob` (max-in-flight size; token bucket qps, burst)
* `c09.answer-type-mismatch`      the remote limiter has another type than the schema (no global limit bounds it)
* `c09.fallback-choice`           which limiter is handed out: remote iff rateLimiter=remote ∧ strategy ∉ {"", local}
                                  ∧ client set present ∧ ready ∧ remote synced; otherwise the local one
* `c09.ready-hysteresis`          readiness = `specReady` of the heartbeat history (up on first success, down only
                                  after more than ServerHeartBeatTimeout of consecutive failure)
* `c09.local-limit-not-enforced`  the local limiter is not exactly the schema's local limit
* `c09.quota-not-applied`         (allocate) after an effective answer the limiter is not the answer bounded to `[0, global]`
* `c09.recover-not-applied`       (count) a fresh accepted reply does not end the outage with the clamped limit
* `c09.error-fallback`            (count) a fresh error reply does not resize to `min(max(observed, local), max)`
* `c09.stale-reply-applied`       (count, max-in-flight) a stale / `RequestIDTooOld` / repeated-error reply changed the limiter
-/
namespace KG.Spec.RemoteLimiter
open KG.Model.RemoteLimiter KG.Gen.C09

/-- configured limits by type -/
structure Bound where
  mi : Int := 0
  qps : Int := 0
  burst : Int := 0
  deriving DecidableEq, Repr, Inhabited

def Bound.sup (a b : Bound) : Bound :=
  { mi := if a.mi < b.mi then b.mi else a.mi
    qps := if a.qps < b.qps then b.qps else a.qps
    burst := if a.burst < b.burst then b.burst else a.burst }

/-- the schema's configured global limit (absent members as in `boundByGlobalLimit`) -/
def globalOf (s : Schema) : Bound := { mi := s.globalMax, qps := s.globalQps, burst := s.globalBurst }

/-- the limiter that enforces exactly the schema's local limit -/
def limOf (s : Schema) : Lim :=
  match s.mi with
  | some l => .mi l
  | none =>
    match s.tb with
    | some t => .tb t.qps t.burst
    | none => .exempt 0

def limOfItem (i : Item) : Lim :=
  match i.mi with
  | some m => .mi m
  | none =>
    match i.tb with
    | some t => .tb t.qps t.burst
    | none => .exempt 0

/-- what validation accepts for a schema with a global limit: exactly one type, `0 ≤ local ≤ global` (int32) -/
def validSchema (s : Schema) : Bool :=
  !s.exempt &&
  match s.mi, s.gmi, s.tb, s.gtb with
  | some l, some g, none, none => decide (0 ≤ l) && decide (l ≤ g) && decide (g ≤ maxInt32)
  | none, none, some t, some gt =>
      decide (0 < t.qps) && decide (t.qps ≤ t.burst) && decide (t.qps ≤ gt.qps) && decide (t.burst ≤ gt.burst)
      && decide (gt.qps ≤ maxInt32) && decide (gt.burst ≤ maxInt32)
  | _, _, _, _ => false

/-- size within the bound (an Exempt limiter is within no bound) -/
def Lim.leb (l : Lim) (b : Bound) : Bool :=
  match l with
  | .exempt _ => false
  | .mi s => decide (0 ≤ s) && decide (s ≤ b.mi)
  | .tb q u => decide (0 ≤ q) && decide (q ≤ b.qps) && decide (0 ≤ u) && decide (u ≤ b.burst)

/-! ## readiness, declaratively -/

/-- start of the current run of failed heartbeats (history latest first) -/
def failRunStart : List (Bool × Int) → Option Int
  | [] => none
  | (true, _) :: _ => none
  | (false, t) :: rest =>
    match failRunStart rest with
    | some t0 => some t0
    | none => some t

/-- ready after a heartbeat history (latest first): up on a success; after a failure, still up iff it was up and
    the current run of failures (which starts now if the previous heartbeat was a success) started at most
    `ServerHeartBeatTimeout` ago -/
def specReady : List (Bool × Int) → Bool
  | [] => false
  | (true, _) :: _ => true
  | (false, now) :: rest =>
    specReady rest && !decide (now > (failRunStart rest).getD now + serverHeartBeatTimeout)

/-! ## the monitor -/

structure Mon where
  schema : Option Schema := none
  hist : List (Bool × Int) := []
  shards : Nat := 0
  synced : Bool := false
  gs : Bound := {}
  ob : Bound := {}
  prev : Obs := {}
  meter : Meter := {}
  /-- the leader of the cluster's shard known from the server info (0: none) -/
  leader : Nat := 0
  /-- the time of the last timed operation (ns) -/
  clock : Int := 0
  /-- an upper bound (unix seconds) of the counter's `lastSyncTime`: the latest moment a counter can have been created
      (an effective sync) or answered (a tick whose request was answered) -/
  contact : Int := 0
  /-- an event MAY be pending on the counter: one was raised and no tick has consumed it since -/
  mayEvent : Bool := false
  /-- an event IS pending: raised by `Op.event` on an existing counter, not consumed, counter not replaced since -/
  mustEvent : Bool := false
  /-- the bounded item applied at the last effective sync -/
  applied : Option Item := none
  /-- requests in flight: their id and whether they were admitted by the remote limiter OBJECT in force now (the
      wrapper not stopped, no new limiter object put into it since: `newBucket`, `stopsRemote`) -/
  held : List (Nat × Bool) := []
  /-- token-bucket count wrapper: tokens of requests sent and not answered (what `tokenInflight` must be) -/
  owed : Int := 0
  deriving Repr, Inhabited

/-- does this server-info sync publish ANOTHER leader for the cluster's shard than the one known? Only then does it
    count as a sign of life (a success in the heartbeat history); re-publishing the known leader says nothing about
    that leader's health and must not touch readiness. -/
def leaderChange (m : Mon) : Op → Option (Nat × Int)
  | .sync false _ (some l) now => if m.leader ≠ l then some (l, now) else none
  | _ => none

/-- does this operation (re)size the remote limiter from the configuration? -/
def effective (m : Mon) : Op → Bool
  | .reconcileCount =>
    match m.schema with
    | some s => decide (s.strategy = .count) && enableGlobal s
    | none => false
  | .answer true item =>
    match m.schema with
    | some s => enableGlobal s && decide (itemType item = guessType s)
    | none => false
  | _ => false

/-- the item an effective sync applies -/
def syncItem (m : Mon) : Op → Option Item
  | .reconcileCount => m.schema.map fun s => { strategy := s.strategy, mi := s.gmi, tb := s.gtb }
  | .answer true item => some item
  | _ => none

/-- **which syncs REBUILD the remote limiter** (`newFlowControl`: an empty max-in-flight bucket, a new counter) instead
    of resizing it in place: an effective sync that is not a repetition (same item, same bounded item) and finds no
    limiter yet, a limiter of another type, or another strategy. A changed limit alone never rebuilds. -/
def rebuilds (m : Mon) (op : Op) : Bool :=
  effective m op &&
  match syncItem m op, m.schema with
  | some item, some s =>
    !(decide (m.prev.remoteConfig = some item) && decide (m.applied = some (boundByGlobalLimit s item))) &&
    (decide (m.prev.wkind = 0) || decide (m.prev.rlim.map (·.kind) ≠ some (itemType item)) ||
     decide ((match m.prev.remoteConfig with | some c => c.strategy | none => Strategy.empty) ≠ item.strategy))
  | _, _ => false

/-- does this schema sync stop the remote wrapper (`stopRemoteWrapper`)? when the schema's TYPE changes, or global
    flow control is switched off -/
def stopsRemote (m : Mon) : Op → Bool
  | .schema s =>
    match m.schema with
    | some old => decide (s ≠ old) && (decide (guessType s ≠ guessType old) || !enableGlobal s)
    | none => false
  | _ => false

/-- does this operation put a NEW limiter object (an empty bucket) into the remote wrapper? only an effective sync that
    finds none — a changed limit or strategy keeps the limiter in force and the requests it counts -/
def newBucket (m : Mon) (op : Op) : Bool :=
  rebuilds m op && (decide (m.prev.wkind = 0) ||
    (match syncItem m op with | some item => decide (m.prev.rlim.map (·.kind) ≠ some (itemType item)) | none => false))

/-- may the counter's event flag be raised after `op`? (`event`, a request arriving or finishing: yes; a tick consumes
    it) -/
@[simp] def mayEventNext (prev : Bool) : Op → Bool
  | .event => true
  | .acquire _ => true
  | .release _ => true
  | .tick _ _ => false
  | _ => prev

def Mon.next (m : Mon) (op : Op) (o : Obs) : Mon :=
  let schema' := match op with | .schema s => some s | _ => m.schema
  let synced' := match op with
    | .schema s =>
      match m.schema with
      | some old => if s ≠ old ∧ (guessType s ≠ guessType old ∨ enableGlobal s = false) then false else m.synced
      | none => m.synced
    | _ => m.synced || effective m op
  let gs' := if effective m op then (match m.schema with | some s => globalOf s | none => m.gs) else m.gs
  let ob' := if o.unavail then m.ob.sup gs' else gs'
  { schema := schema'
    hist := match op with
      | .hb ok now false => (ok, now) :: m.hist
      | _ => match leaderChange m op with | some (_, now) => (true, now) :: m.hist | none => m.hist
    shards := match op with | .shards n => n | .sync false n _ _ => n | _ => m.shards
    synced := synced', gs := gs', ob := ob', prev := o
    meter := match op with | .meter x => x | _ => m.meter
    leader := match leaderChange m op with | some (l, _) => l | none => m.leader
    clock := match op with
      | .hb _ now false => now
      | .sync _ _ _ now => now
      | .tick now _ => now
      | _ => m.clock
    contact :=
      if effective m op then (if m.contact < unixS m.clock then unixS m.clock else m.contact)
      else match op with
        | .tick now (some _) => if o.req.isSome then (if m.contact < unixS now then unixS now else m.contact) else m.contact
        | _ => m.contact
    mayEvent := mayEventNext m.mayEvent op
    mustEvent := match op with
      | .event => decide (m.prev.wkind = 2 ∨ m.prev.wkind = 3)
      | .tick _ _ => false
      | _ => m.mustEvent && !rebuilds m op && !stopsRemote m op
    applied := if effective m op then
        (match syncItem m op, m.schema with | some item, some s => some (boundByGlobalLimit s item) | _, _ => m.applied)
      else m.applied
    held :=
      if newBucket m op || stopsRemote m op then m.held.map fun h => (h.1, false)
      else match op with
        | .acquire id =>
          if o.admitted = some true ∧ !(m.held.any (·.1 == id)) then (id, decide (m.prev.choice = .remote)) :: m.held
          else m.held
        | .release id => m.held.filter fun h => !(h.1 == id)
        | _ => m.held
    owed :=
      if rebuilds m op || stopsRemote m op then 0
      else if m.prev.wkind = 3 then
        match op with
        | .tick _ ans =>
          match o.req with
          | some hits => if ans.isSome then i32add (i32add m.owed hits) (toI32 (-hits)) else i32add m.owed hits
          | none => m.owed
        | .setLimit r => if r.hasReq then i32add m.owed (toI32 (-r.tokens)) else m.owed
        | _ => m.owed
      else m.owed }

/-! ## the judge: the property's clauses, stated from its text

Every clause is ONE-SIDED: it rejects what breaks the statement of C09, not what merely differs from the current
code's formulas (those differences are the correspondence check's business: model == code). Readings, see notes §2:
* "never admits more than the configured global limit": the remote limiter is finite, of the schema's type and within
  the bound in force (`c09.cap-exceeds-global`, `c09.answer-type-mismatch`), the requests in flight in it are within it
  (`c09.inflight-exceeds-global`);
* "while the server is unknown, not ready or failing the instance enforces the local limit rather than none": with no
  success ever, after more than the time-out of consecutive failure, or while the instance itself says not ready,
  requests get the local limiter, which IS the schema's local limit (`c09.ready-hysteresis`, `c09.fallback-choice`,
  `c09.local-limit-not-enforced`); an error reply leaves a finite limiter of the schema's type (`c09.error-fallback`;
  the cap is the first bullet) — max(observed, local), exactly local, or anything else finite ≤ global;
* "server-granted quotas take effect again once the server recovers": ready again on a success, the remote limiter is
  handed out again, a granted quota within `[0, global]` IS the limiter (`c09.quota-not-applied`), a fresh accepted
  reply gives at least `min(limit, max)` (`c09.recover-not-applied`), a stale reply changes nothing
  (`c09.stale-reply-applied`), and the instance keeps asking: a request at the latest `resyncBound` seconds after the
  last contact (`c09.no-request-when-due`) and for more than zero tokens when its bucket is empty, nothing is
  outstanding and there is demand (`c09.no-tokens-requested-on-demand`). -/

/-- was the server ever up, by the heartbeat history? -/
def everUp (hist : List (Bool × Int)) : Bool := hist.any (·.1)

/-- the instance MUST consider the server not ready: never a success, or the latest heartbeat failed and the current
    run of failures is longer than `ServerHeartBeatTimeout` -/
def specMustDown (hist : List (Bool × Int)) : Bool :=
  !everUp hist ||
  (match hist with
   | (false, now) :: rest => decide (now > (failRunStart rest).getD now + serverHeartBeatTimeout)
   | _ => false)

/-- the instance MUST consider the server ready: the latest heartbeat succeeded (it has recovered) -/
def specMustUp : List (Bool × Int) → Bool
  | (true, _) :: _ => true
  | _ => false

/-- requests must get the LOCAL limiter -/
def mustLocal (cfg : Cfg) (m' : Mon) (s : Schema) (o : Obs) : Bool :=
  decide (cfg.rateLimiter ≠ .remote) || decide (s.strategy = .empty) || decide (s.strategy = .loc) || !cfg.hasCS ||
  decide (m'.shards = 0) || specMustDown m'.hist || !o.ready || o.rlim.isNone

/-- requests must get the REMOTE limiter: everything is configured for it, the server has recovered, the remote limiter
    exists (by the specification and in fact) and is not in its own outage mode -/
def mustRemote (cfg : Cfg) (m' : Mon) (s : Schema) (o : Obs) : Bool :=
  decide (cfg.rateLimiter = .remote) && decide (s.strategy ≠ .empty) && decide (s.strategy ≠ .loc) && cfg.hasCS &&
  decide (m'.shards ≠ 0) && specMustUp m'.hist && m'.synced && o.rlim.isSome && !o.unavail

def isMI : Option Lim → Bool
  | some (.mi _) => true
  | _ => false

def isTB : Option Lim → Bool
  | some (.tb _ _) => true
  | _ => false

/-- one `SetLimit` on a max-in-flight count wrapper: its fields before, the reply, its limiter after -/
def judgeMISet (lastAcq wmax : Int) (punavail : Bool) (prlim : Option Lim) (localMi : Option Int)
    (r : Reply) (orlim : Option Lim) : List String :=
  let fresh := !(decide (r.rt > 0) && decide (r.rt ≤ lastAcq))
  if fresh && r.err == .none && r.accept then
    (match orlim with
     | some (.mi x) => if (if r.limit > wmax then wmax else r.limit) ≤ x then [] else ["c09.recover-not-applied"]
     | _ => ["c09.recover-not-applied"])
  else if fresh && r.err == .other && !punavail then
    match localMi with
    | some _ => if isMI orlim then [] else ["c09.error-fallback"]
    | none => []
  else if !fresh || r.err == .tooOld then
    (if orlim = prlim then [] else ["c09.stale-reply-applied"])
  else []

/-- the same for a token-bucket count wrapper -/
def judgeTBSet (wqps wburst : Int) (punavail : Bool) (prlim : Option Lim) (localTb : Option TB)
    (r : Reply) (orlim : Option Lim) : List String :=
  if r.err == .other && !punavail then
    match localTb with
    | some _ => if isTB orlim then [] else ["c09.error-fallback"]
    | none => []
  else if r.err == .none && r.accept && punavail then
    (match orlim with
     | some (.tb q b) => if wqps ≤ q ∧ wburst ≤ b then [] else ["c09.recover-not-applied"]
     | _ => ["c09.recover-not-applied"])
  else if r.err == .tooOld then
    (if orlim = prlim then [] else ["c09.stale-reply-applied"])
  else []

/-- judgements about one `SetLimit` from the previous observation `m.prev` to `o` -/
def judgeSetLimit (m : Mon) (r : Reply) (o : Obs) : List String :=
  let p := m.prev
  if p.wkind = 2 then
    judgeMISet p.lastAcq p.wmax p.unavail p.rlim (m.schema.bind (·.mi)) r o.rlim
  else if p.wkind = 3 then
    judgeTBSet p.wqps p.wburst p.unavail p.rlim (m.schema.bind (·.tb)) r o.rlim
  else []

/-- clauses about the state reached: `m'` is the monitor after the operation, `o` the observation made then -/
def judgePost (cfg : Cfg) (m' : Mon) (o : Obs) : List String :=
  (if (m'.shards = 0 ∨ specMustDown m'.hist = true) ∧ o.ready = true then ["c09.ready-hysteresis"] else []) ++
  (if m'.shards ≠ 0 ∧ specMustUp m'.hist = true ∧ o.ready = false then ["c09.ready-hysteresis"] else []) ++
  (match m'.schema with
   | none => if o.choice = .dflt then [] else ["c09.fallback-choice"]
   | some s =>
     (if o.choice = .dflt then ["c09.fallback-choice"] else []) ++
     (if mustLocal cfg m' s o = true ∧ o.choice ≠ .loc then ["c09.fallback-choice"] else []) ++
     (if mustRemote cfg m' s o = true ∧ o.choice ≠ .remote then ["c09.fallback-choice"] else []) ++
     (if o.choice = .loc ∧ o.lim ≠ some (limOf s) then ["c09.local-limit-not-enforced"] else []) ++
     (if o.choice = .remote ∧ o.lim ≠ o.rlim then ["c09.fallback-choice"] else []) ++
     (match o.rlim with
      | none => []
      | some l =>
        if l.kind ≠ guessType s then ["c09.answer-type-mismatch"]
        else if Lim.leb l m'.ob then [] else ["c09.cap-exceeds-global"]))

/-- the instance must have asked the server again at the latest this many (unix) seconds after the last contact; the
    code's resync period is 2 s, the property has no number: the check's reading is twice the heartbeat time-out -/
def resyncBound : Int := 10

/-- judgements about one round of the counter manager (`Op.tick`): while a count wrapper exists, a round more than
    `resyncBound` seconds after the last possible contact MUST send a request (token bucket: unless an event may be
    pending, which it serves first); the answer of a round is judged like any acquire result -/
def judgeTick (m : Mon) (now : Int) (ans : Option TickAnswer) (o : Obs) : List String :=
  let p := m.prev
  (if (p.wkind = 2 ∨ (p.wkind = 3 ∧ m.mayEvent = false)) ∧ unixS now - m.contact > resyncBound ∧ o.req.isNone
   then ["c09.no-request-when-due"] else []) ++
  (match ans, o.req with
   | some a, some hits =>
     judgeSetLimit m (tickReply a hits now) o
   | _, _ => [])

def reqPositive : Option Int → Bool
  | some h => decide (h > 0)
  | none => false

/-- **tokens ARE requested when there is demand and nothing else to wait for**: a round of a token-bucket count wrapper
    that is not in its outage mode, with a pending event (demand), an EMPTY bucket, NO request outstanding (by the
    monitor's own book-keeping `owed`, not the implementation's) and a reserve to fill, must ask for more than zero
    tokens. (How much, and when a partly filled bucket is topped up, is the implementation's batching policy.) -/
def judgeDemand (m : Mon) (o : Obs) : List String :=
  let p := m.prev
  if p.wkind = 3 ∧ m.mustEvent = true ∧ p.unavail = false ∧ p.tokens = 0 ∧ m.owed = 0 ∧
     1 ≤ p.tokenBatch ∧ p.tokenBatch ≤ p.wreserve ∧ p.wreserve ≤ 2147483647 ∧
     reqPositive o.req = false
  then ["c09.no-tokens-requested-on-demand"] else []

/-- **in-flight accounting**: when a request is admitted by the remote max-in-flight limiter, the requests admitted by
    that limiter and unfinished — this one included, and across every resize, global-limit change, strategy change
    (the schema's or an answered one), outage and recovery, because none of these may replace the bucket that counts
    them — are at most the bound in force. No exemption. -/
def judgeAcquire (m : Mon) (id : Nat) (o : Obs) : List String :=
  let p := m.prev
  if o.admitted = some true ∧ !(m.held.any (·.1 == id)) ∧ p.choice = .remote ∧
     isMI p.rlim = true ∧ ¬ ((m.held.countP (·.2) : Int) + 1 ≤ m.ob.mi)
  then ["c09.inflight-exceeds-global"] else []

/-- clauses about the transition made by `op` from the monitor `m` (before) to the observation `o` (after) -/
def judgeTrans (m : Mon) (op : Op) (o : Obs) : List String :=
  match op with
  | .tick now ans => judgeTick m now ans o ++ judgeDemand m o
  | .acquire id => judgeAcquire m id o
  | .answer true item =>
    -- a granted quota within `[0, global]` IS the limiter; one outside it is only bounded (`c09.cap-exceeds-global`)
    if effective m op && decide (o.wkind = 1) then
      match m.schema with
      | some s =>
        if boundByGlobalLimit s item = item then
          (if o.rlim = some (limOfItem item) then [] else ["c09.quota-not-applied"])
        else []
      | none => []
    else []
  | .setLimit r => judgeSetLimit m r o
  | _ => []

/-- the clauses broken by observation `o` made after `op` -/
def judgeStep (cfg : Cfg) (m : Mon) (op : Op) (o : Obs) : List String :=
  judgePost cfg (m.next op o) o ++ judgeTrans m op o

/-- per step: the broken clauses -/
def judgeFrom (cfg : Cfg) (m : Mon) : List Op → List Obs → List (List String)
  | op :: ops, o :: os => judgeStep cfg m op o :: judgeFrom cfg (m.next op o) ops os
  | _, _ => []

def judgeAll (cfg : Cfg) (ops : List Op) (obs : List Obs) : List (List String) := judgeFrom cfg {} ops obs

/-- no clause broken anywhere -/
def allGood (v : List (List String)) : Bool := v.all (·.isEmpty)

end KG.Spec.RemoteLimiter
