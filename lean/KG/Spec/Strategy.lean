import KG.Model.Strategy
/-!
# C20 as a decidable judge

The property, clause by clause, evaluated on a (stored, result) pair of ONE accepted request. It is stated on
field groups with plain equality, for any types: the harness applies it to the real code's answers and the
theorems to the model's, both rendered the way the API shows them (`View`, below: an empty map/list/byte
string reads the same as a missing one).

Reading of "The generation increases by one exactly when the spec or the annotations change" (DESIGN §5 C20,
re-examined in notes/C20.md): "change" compares the object before the request with the object after it; the
rule is the main resource's. Through the status subresource the generation is never changed (that is the
Kubernetes convention the strategies copy, e.g. the Deployment status strategy), even when the request changed
the annotations there — `statusAnnotationsOnly` classifies that case so that the harness can count it.
-/
namespace KG.Spec.Strategy
open KG.Model.Strategy

inductive Clause
  | createGeneration      -- creation sets generation to 1
  | createStatus          -- creation clears status            (kinds served with a status subresource)
  | statusSpec            -- a status update never changes spec
  | statusLabels          -- … nor labels
  | statusGeneration      -- … and keeps the generation
  | mainStatus            -- a main-resource update never changes status   (kinds served with a status subresource)
  | mainBump              -- spec or annotations changed: generation must be stored + 1
  | mainKeep              -- neither changed: generation must stay
deriving DecidableEq, Repr

def Clause.name : Clause → String
  | .createGeneration => "create-generation-not-1"
  | .createStatus => "create-status-not-cleared"
  | .statusSpec => "status-update-changed-spec"
  | .statusLabels => "status-update-changed-labels"
  | .statusGeneration => "status-update-changed-generation"
  | .mainStatus => "main-update-changed-status"
  | .mainBump => "generation-not-bumped"
  | .mainKeep => "generation-bumped-without-change"

section
variable {L A M S T : Type} [DecidableEq L] [DecidableEq A] [DecidableEq S] [DecidableEq T]

def check (c : Clause) (ok : Bool) : List Clause := if ok then [] else [c]

/-- creation: `served` says whether the kind is served with a status subresource -/
def judgeCreate (served : Bool) (zero : T) (out : Obj L A M S T) : List Clause :=
  check .createGeneration (out.generation == 1) ++
  check .createStatus (!served || out.status == zero)

def judgeStatusUpdate (stored out : Obj L A M S T) : List Clause :=
  check .statusSpec (out.spec == stored.spec) ++
  check .statusLabels (out.labels == stored.labels) ++
  check .statusGeneration (out.generation == stored.generation)

def changed (stored out : Obj L A M S T) : Bool :=
  out.spec != stored.spec || out.annotations != stored.annotations

def judgeMainUpdate (served : Bool) (stored out : Obj L A M S T) : List Clause :=
  check .mainStatus (!served || out.status == stored.status) ++
  (if changed stored out then check .mainBump (out.generation == stored.generation + 1)
   else check .mainKeep (out.generation == stored.generation))

/-- the observation: a status update that changed the annotations (the generation stays; not a violation
    under the reading chosen) -/
def statusAnnotationsOnly (stored out : Obj L A M S T) : Bool :=
  out.annotations != stored.annotations && out.generation == stored.generation

end

/-! ### The API's view of an object

A client sees renderings, not Go values: `annotations: {}` and no annotations, `[]` and no list, `""` and no
bytes are different decoded values that read the same. A `View` maps each field group to what the API shows;
for spec and annotations it is the rendering `Sem` under which the code itself compares (`semanticEqual`), for
labels and status any function. The judge is applied to `v.obj stored` and `v.obj result`. -/
structure View (L A S T L' A' S' T' : Type) where
  labels : L → L'
  status : T → T'
  sem : Sem A S A' S'

def View.obj {L A M S T L' A' S' T' : Type} (v : View L A S T L' A' S' T') (o : Obj L A M S T) : Obj L' A' M S' T' :=
  { labels := v.labels o.labels, annotations := v.sem.annotations o.annotations, generation := o.generation,
    otherMeta := o.otherMeta, spec := v.sem.spec o.spec, status := v.status o.status }

end KG.Spec.Strategy
