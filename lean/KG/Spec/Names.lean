import KG.Model.Names
/-!
# C10 — the property as predicates on manager states (the "judge")

`Inv` is the state invariant, `Frame`/`Unchanged`/`Deleted`/`Applied` are the per-event obligations, `Mirror`
is the top-level statement for admissible histories ("host H is served by cluster C iff H is one of the names
the current object of C claims"). Every predicate has a Boolean twin (`invB`, `stepB`, `mirrorB`, `tlsB`) that
the harness evaluates on the state observed on the REAL controller; `KG.Props.C10` proves that the model
satisfies the Prop versions for every history and that the Prop versions imply the Boolean ones.
-/
namespace KG.Spec.Names
open KG KG.Model.Names

section
variable (lower : Str → Str)

/-- `Cluster` of the `ClusterInfo` key `k` resolves to (raw key, no lower-casing). -/
def clusterAt (m : Mgr) (k : Str) : Option Str :=
  match m.look k with
  | none => none
  | some p => (m.heap[p]?).map (·.cluster)

/-- The state invariant.
* `wf`    : no dangling pointer;
* `mem`   : a key that resolves to a `ClusterInfo` is one of its current server names      (DESIGN (ii));
* `all`   : every current server name of a served `ClusterInfo` resolves to it            (DESIGN (iii));
* `low`   : `Cluster` is lower-cased;
* `alive` : a served `ClusterInfo` is not stopped;
* `swf`   : only existing `ClusterInfo`s are stopped.
  ((i) "the map is a function" holds by construction: `look` is a function.) -/
structure Inv (m : Mgr) : Prop where
  wf : ∀ k p, m.look k = some p → ∃ ci, m.heap[p]? = some ci
  mem : ∀ k p ci, m.look k = some p → m.heap[p]? = some ci → k ∈ loadServerNames lower ci
  all : ∀ k p ci, m.look k = some p → m.heap[p]? = some ci → ∀ n ∈ loadServerNames lower ci, m.look n = some p
  low : ∀ (p : Nat) (ci : CI), m.heap[p]? = some ci → lower ci.cluster = ci.cluster
  alive : ∀ k p, m.look k = some p → p ∉ m.stopped
  swf : ∀ p, p ∈ m.stopped → ∃ ci, m.heap[p]? = some ci

def invB (m : Mgr) : Bool :=
  (m.map.all fun e =>
    match m.look e.1 with
    | none => true
    | some p =>
      match m.heap[p]? with
      | none => false
      | some ci =>
        decide (e.1 ∈ loadServerNames lower ci)
        && (loadServerNames lower ci).all (fun n => decide (m.look n = some p))
        && !(decide (p ∈ m.stopped)))
  && (m.heap.all fun ci => decide (lower ci.cluster = ci.cluster))
  && m.stopped.all fun p => decide (p < m.heap.length)

/-- An event for cluster `c` leaves every name held by another cluster alone (same `ClusterInfo`, same content,
    same running state), and every key whose mapping changed belonged to `c` before or belongs to `c` afterwards. -/
structure Frame (c : Str) (m m' : Mgr) : Prop where
  keep : ∀ k p ci, m.look k = some p → m.heap[p]? = some ci → ci.cluster ≠ c →
          m'.look k = some p ∧ m'.heap[p]? = some ci ∧ (p ∈ m'.stopped ↔ p ∈ m.stopped)
  only : ∀ k, m'.look k = m.look k ∨ clusterAt m' k = some c ∨ clusterAt m k = some c
  back : ∀ k p ci, m'.look k = some p → m'.heap[p]? = some ci → ci.cluster ≠ c →
          m.look k = some p ∧ m.heap[p]? = some ci

def frameB (c : Str) (m m' : Mgr) : Bool :=
  (m.map.all fun e =>
    match m.look e.1 with
    | none => true
    | some p =>
      match m.heap[p]? with
      | none => true
      | some ci =>
        decide (ci.cluster = c) ||
        (decide (m'.look e.1 = some p) && decide (m'.heap[p]? = some ci)
          && (decide (p ∈ m'.stopped) == decide (p ∈ m.stopped))))
  && (m'.map.all fun e => decide (m'.look e.1 = m.look e.1) || decide (clusterAt m' e.1 = some c)
        || decide (clusterAt m e.1 = some c))
  && (m.map.all fun e => decide (m'.look e.1 = m.look e.1) || decide (clusterAt m' e.1 = some c)
        || decide (clusterAt m e.1 = some c))
  && (m'.map.all fun e =>
    match m'.look e.1 with
    | none => true
    | some p =>
      match m'.heap[p]? with
      | none => true
      | some ci =>
        decide (ci.cluster = c) || (decide (m.look e.1 = some p) && decide (m.heap[p]? = some ci)))

/-- nothing observable changed -/
structure Unchanged (m m' : Mgr) : Prop where
  look : ∀ k, m'.look k = m.look k
  heap : m'.heap = m.heap
  stopped : ∀ p, p ∈ m'.stopped ↔ p ∈ m.stopped

def unchangedB (m m' : Mgr) : Bool :=
  m.map.all (fun e => decide (m'.look e.1 = m.look e.1))
  && m'.map.all (fun e => decide (m'.look e.1 = m.look e.1))
  && decide (m'.heap = m.heap)
  && (List.range m.heap.length).all (fun p => decide (p ∈ m'.stopped) == decide (p ∈ m.stopped))

/-- after a delete event for `c`: no key resolves to a `ClusterInfo` of `c`, and the one that served `c` is stopped -/
structure Deleted (c : Str) (m m' : Mgr) : Prop where
  gone : ∀ k, clusterAt m' k ≠ some c
  stop : ∀ p ci, m.get lower c = some (p, ci) → ci.cluster = c → p ∈ m'.stopped

def deletedB (c : Str) (m m' : Mgr) : Bool :=
  m'.map.all (fun e => decide (clusterAt m' e.1 ≠ some c))
  && (match m.get lower c with
      | some (p, ci) => decide (ci.cluster ≠ c) || decide (p ∈ m'.stopped)
      | none => true)

/-- after an applied create/update event carrying `spec` for `c`: `c` is served by a running `ClusterInfo` whose
    names and TLS material are exactly the object's, and exactly the object's names resolve to it. -/
structure Applied (c : Str) (spec : Spec) (m' : Mgr) : Prop where
  served : ∃ p ci, m'.get lower c = some (p, ci) ∧ ci.cluster = c ∧
            loadServerNames lower ci = objNames lower c spec ∧ ci.cert = spec.cert ∧ ci.ca = spec.ca ∧
            p ∉ m'.stopped ∧
            ∀ k, m'.look k = some p ↔ k ∈ objNames lower c spec

def appliedB (c : Str) (spec : Spec) (m' : Mgr) : Bool :=
  match m'.get lower c with
  | none => false
  | some (p, ci) =>
    decide (ci.cluster = c) && decide (loadServerNames lower ci = objNames lower c spec)
    && decide (ci.cert = spec.cert) && decide (ci.ca = spec.ca) && !(decide (p ∈ m'.stopped))
    && (objNames lower c spec).all (fun k => decide (m'.look k = some p))
    && m'.map.all (fun e => decide (m'.look e.1 ≠ some p) || decide (e.1 ∈ objNames lower c spec))

/-- The obligations of one handler invocation for cluster `c` (= `lower name`), given what the lister answered
    and whether the handler asked for a requeue. -/
def StepOK (c : Str) (latest : Option Spec) (requeued : Bool) (m m' : Mgr) : Prop :=
  Frame c m m' ∧
  (if requeued then Unchanged m m'
   else match latest with
     | none => Deleted lower c m m'
     | some spec => Applied lower c spec m')

def stepB (c : Str) (latest : Option Spec) (requeued : Bool) (m m' : Mgr) : Bool :=
  frameB c m m' &&
  (if requeued then unchangedB m m'
   else match latest with
     | none => deletedB lower c m m'
     | some spec => appliedB lower c spec m')

/-- first failing component, for the harness report -/
def stepWhy (c : Str) (latest : Option Spec) (requeued : Bool) (m m' : Mgr) : String :=
  if !frameB c m m' then "frame"
  else if requeued then (if unchangedB m m' then "" else "refused-changed")
  else match latest with
    | none => if deletedB lower c m m' then "" else "delete"
    | some spec => if appliedB lower c spec m' then "" else "applied"

/-! ## during an event

`s` is a state a concurrent reader can observe while the handler turns `m` into `m'` (after one of its manager
writes): a name that resolves to the same `ClusterInfo` before and after the event resolves to it in `s` as well
(names a cluster keeps — its own name, the server names an update does not touch, every name of every other
cluster — never disappear, not even for a moment), and whatever resolves in `s` resolves to what it resolved to
before or resolves to after (no transient capture). -/
structure MidOK (m m' s : Mgr) : Prop where
  kept : ∀ k p, m.look k = some p → m'.look k = some p → s.look k = some p
  nostray : ∀ k q, s.look k = some q → m.look k = some q ∨ m'.look k = some q

def midB (m m' s : Mgr) : Bool :=
  (m.map.all fun e =>
    match m.look e.1 with
    | none => true
    | some p => !(decide (m'.look e.1 = some p)) || decide (s.look e.1 = some p))
  && (s.map.all fun e =>
    match s.look e.1 with
    | none => true
    | some q => decide (m.look e.1 = some q) || decide (m'.look e.1 = some q))

/-! ## TLS material follows the resolution -/

/-- What the wrappers must answer in state `m`, said without the wrappers: the material of the cluster the
    name resolves to, the base configuration otherwise. -/
def tlsSpec (m : Mgr) (base : TLS) (hostname : Str) : TLS :=
  match m.get lower hostname with
  | none => base
  | some (_, ci) =>
    if ci.cert = none ∧ ci.ca = none then base
    else { cert := if ci.cert = none then base.cert else ci.cert,
           ca := if ci.ca = none then base.ca else ci.ca,
           requestClientCert := if ci.ca = none then base.requestClientCert else true }

def verifySpec (m : Mgr) (host : Str) : Option Nat :=
  match resolve lower m host with
  | none => none
  | some (_, ci) => ci.ca

/-! ## admissible histories: the manager mirrors the lister -/

/-- The cluster that must serve the (lower-cased, port-less) host `h` according to the current objects. -/
def specOwner (lister : Lister) (h : Str) : Option Str :=
  match lister.find? (fun u => decide (h ∈ objNames lower (lower u.1) u.2)) with
  | some u => some (lower u.1)
  | none => none

/-- The manager serves exactly what the current objects say. -/
structure Mirror (lister : Lister) (m : Mgr) : Prop where
  objs : ∀ n s, lister.get n = some s → Applied lower (lower n) s m
  back : ∀ k c, clusterAt m k = some c → ∃ n s, lister.get n = some s ∧ lower n = c

def mirrorB (lister : Lister) (m : Mgr) : Bool :=
  lister.all (fun u => decide (lister.get u.1 ≠ some u.2) || appliedB lower (lower u.1) u.2 m)
  && m.map.all (fun e =>
      match clusterAt m e.1 with
      | none => true
      | some c => lister.any (fun u => (lister.get u.1).isSome && decide (lower u.1 = c)))

/-- request path on `probes`: the host resolves to the cluster the objects designate -/
def servedB (lister : Lister) (m : Mgr) (probes : List Str) : Bool :=
  probes.all fun H =>
    decide (((resolve lower m H).map (·.2.cluster)) = specOwner lower lister (lower (hostWithoutPort lower H)))

end
end KG.Spec.Names
