import KG.Model.GlobalCount
/-!
# C08 — what the property demands, as decidable predicates (the judge)

The same predicates are (1) proved of every step of the model (`KG.Props.C08`) and (2) evaluated by the
driver on what the REAL code answered and on its state before/after each operation (harness judge).
A state observation is a `G` (limit, running total, per-instance `(count, request id)`).
-/
namespace KG.Spec.GlobalCount
open KG KG.Model.GlobalCount

def maxI32 : Int := 2147483647

/-- every registered count is a non-negative `int32` -/
def AllOk (l : States) : Prop := ∀ p ∈ l, 0 ≤ p.2.count ∧ p.2.count ≤ 2147483647

def keys (l : States) : List Str := l.map (·.1)

/-- representation invariant of a `globalMaxInflight` -/
structure WF (g : G) : Prop where
  max : InI32 g.max
  count : InI32 g.count
  states : AllOk g.states
  nodup : (keys g.states).Nodup

/-- the running total is the `int32` sum of the registered counts (what `DebugInfo` compares) -/
def ModInv (g : G) : Prop := WF g ∧ g.count = wrap32 (sumStates g.states)

/-- the running total is exactly the sum of the registered counts -/
def Inv (g : G) : Prop := WF g ∧ g.count = sumStates g.states

/-- the count registered for `inst`, 0 when there is none -/
def oldCount (g : G) (inst : Str) : Int :=
  match find inst g.states with
  | some s => s.count
  | none => 0

/-- No `int32` overflow can distort this report: the limit is not negative and either the total is within
    the limit (then the code's wrapped comparison is exact whatever is reported) or the total that the
    report asks for fits an `int32`. Always true while the limit has not been lowered below the total, and
    always true when limits and reports stay below 2^30 (`KG.Props.C08.c08_seq_bounded`). -/
def Pre (g : G) (inst : Str) (cur : Int) : Prop :=
  0 ≤ g.max ∧ (sumStates g.states ≤ g.max ∨ sumStates g.states - oldCount g inst + cur ≤ 2147483647)

instance (g : G) (inst : Str) (cur : Int) : Decidable (Pre g inst cur) := by unfold Pre; infer_instance

/-- the arguments are Go `int32`s -/
def OpI32 : Op → Prop
  | .set _ _ c => InI32 c
  | .resize n => InI32 n

/-- an operation the property talks about, at state `g` -/
def OpOk (g : G) : Op → Prop
  | .set i _ c => InI32 c ∧ (0 ≤ c → Pre g i c)
  | .resize n => 0 ≤ n ∧ InI32 n

instance (g : G) (op : Op) : Decidable (OpOk g op) := by cases op <;> (unfold OpOk; infer_instance)

/-- every operation of the list is `OpOk` at the state it is applied to -/
def SafeRun : G → List Op → Prop
  | _, [] => True
  | g, op :: rest => OpOk g op ∧ SafeRun (step g op) rest

/-- a report of `inst` with id `rid` is stale at `g` -/
def stale (g : G) (inst : Str) (rid : Int) : Bool :=
  match find inst g.states with
  | some s => decide (0 < rid ∧ rid ≤ s.requestId)
  | none => false

def sameInst (a b : Option Inst) : Bool := decide (a = b)

/-! ### facts about one `SetState(inst, rid, cur)` call of the MODEL: state before, reply, state after.
    These say more than the property does (exact replies, stored ids, which entries exist); they are proved of
    the model (`c08_model_step_facts`) and are NOT what the real code is judged by: see `judgeClauses` below. -/

/-- `count = Σ per-instance counts` (as `int32`s, and exactly when the sum fits) -/
def clTotal (_b : G) (_i : Str) (_r _c : Int) (_rep : Reply) (a : G) : Bool :=
  decide (a.count = wrap32 (sumStates a.states))

/-- exact total under `Pre` -/
def clExact (b : G) (i : Str) (_r c : Int) (_rep : Reply) (a : G) : Bool :=
  decide ((0 ≤ c → Pre b i c) → b.count = sumStates b.states → a.count = sumStates a.states)

/-- `count' ≤ max count max'`, and the limit is not touched by a report -/
def clBound (b : G) (i : Str) (_r c : Int) (_rep : Reply) (a : G) : Bool :=
  decide (a.max = b.max) &&
  decide ((0 ≤ c → Pre b i c) → b.count = sumStates b.states → a.count ≤ b.count ∨ a.count ≤ a.max)

/-- an accepted report is registered and leaves the total within the limit -/
def clAccept (b : G) (i : Str) (_r c : Int) (rep : Reply) (a : G) : Bool :=
  decide (rep.accept = true → (0 ≤ c → Pre b i c) → b.count = sumStates b.states →
    a.count ≤ a.max ∧ rep.latest = c ∧ rep.err = .none ∧ (find i a.states).map (·.count) = some c)

/-- a report that does not raise the instance's count is applied -/
def clDecrease (b : G) (i : Str) (r c : Int) (rep : Reply) (a : G) : Bool :=
  decide (0 ≤ c → c ≤ oldCount b i → stale b i r = false →
    (find i a.states).map (·.count) = some c ∧ rep.latest = c ∧ rep.err = .none)

/-- a stale request id is refused and nothing changes -/
def clStale (b : G) (i : Str) (r c : Int) (rep : Reply) (a : G) : Bool :=
  decide (0 ≤ c → stale b i r = true → rep = ⟨false, c, .requestIDTooOld⟩ ∧ a = b)

/-- stored request ids never decrease; a processed report with a positive id stores exactly that id,
    which is larger than the one stored before; a refusal with `RequestIDTooOld` happens only for stale ids -/
def clIds (b : G) (i : Str) (r c : Int) (rep : Reply) (a : G) : Bool :=
  decide (0 ≤ c → rep.err = .requestIDTooOld → stale b i r = true) &&
  (if 0 ≤ c ∧ rep.err = .none then
    match find i a.states with
    | none => false
    | some s =>
      decide (0 < r → s.requestId = r) &&
      (match find i b.states with
       | none => true
       | some s0 => decide (s0.requestId ≤ s.requestId ∧ (0 < r → s0.requestId < s.requestId) ∧
                            (r ≤ 0 → s.requestId = s0.requestId)))
  else true)

/-- a removal unregisters the instance and answers `(false, -1, nil)` -/
def clRemoval (_b : G) (i : Str) (_r c : Int) (rep : Reply) (a : G) : Bool :=
  decide (c < 0 → find i a.states = none ∧ rep = ⟨false, -1, .none⟩)

/-- a refused report (`accept = false`, no error) answers the count that is registered afterwards -/
def clLatest (_b : G) (i : Str) (_r c : Int) (rep : Reply) (a : G) : Bool :=
  decide (0 ≤ c → rep.err = .none → (find i a.states).map (·.count) = some rep.latest)

/-- no other instance's entry is touched (`others` = the instances to look at) -/
def clOthers (others : List Str) (b : G) (i : Str) (_r _c : Int) (_rep : Reply) (a : G) : Bool :=
  others.all fun j => decide (j = i) || sameInst (find j a.states) (find j b.states)

def clauses (others : List Str) : List (String × (G → Str → Int → Int → Reply → G → Bool)) :=
  [("total", clTotal), ("exact", clExact), ("bound", clBound), ("accept-over-limit", clAccept),
   ("decrease-not-applied", clDecrease), ("stale-id-not-refused", clStale), ("ids", clIds),
   ("removal", clRemoval), ("latest", clLatest), ("other-instance-touched", clOthers others)]

/-- names of the clauses that `SetState(i, r, c)` with state `b` before, reply `rep`, state `a` after breaks -/
def violations (others : List Str) (b : G) (i : Str) (r c : Int) (rep : Reply) (a : G) : List String :=
  (clauses others).filterMap fun (n, f) => if f b i r c rep a then none else some n

/-- `Resize(n)` of the model: only the limit changes, and it becomes `n` -/
def resizeViolations (b : G) (n : Int) (a : G) : List String :=
  (if a.max = n then [] else ["resize-max"]) ++
  (if a.count = b.count ∧ a.states = b.states then [] else ["resize-touches-accounting"])

/-! ### THE JUDGE: the clauses of the property's text, applied to what the real code answered

Restated so that a change which keeps the property cannot break them: bounds are upper bounds, a refusal is
`accept = false` with the accounting unchanged (whatever error or `latest` value comes with it), refusals beyond
the property are allowed, and nothing is demanded of replies the property does not mention. The limit in the
observed states is the CONFIGURED one (the harness substitutes it), and "a request id already processed for that
instance" is the ghost value `lastId` that the harness tracks from the ops and the replies alone (newest positive
id of a report of this instance that was answered without an error since the instance was last removed / the flow
control created) — not whatever the code happens to store. In the model `lastId` is the stored id
(`c08_judge_sound`). -/

/-- the report's id is not newer than one already processed for the instance -/
def staleG (lastId : Option Int) (r : Int) : Bool :=
  match lastId with
  | some l => decide (0 < r ∧ r ≤ l)
  | none => false

/-- an accepted report counts as reported and leaves the total within the limit -/
def jcAccept (b : G) (i : Str) (c : Int) (rep : Reply) (a : G) : Bool :=
  decide (rep.accept = true → 0 ≤ c → Pre b i c → b.count = sumStates b.states → a.count ≤ a.max ∧ oldCount a i = c)

/-- a report that does not raise the instance's count is applied -/
def jcDecrease (lastId : Option Int) (b : G) (i : Str) (r c : Int) (a : G) : Bool :=
  decide (0 ≤ c → c ≤ oldCount b i → staleG lastId r = false → oldCount a i = c)

/-- a report whose id is not newer than one already processed is refused: not accepted, accounting unchanged -/
def jcStale (lastId : Option Int) (others : List Str) (b : G) (i : Str) (r c : Int) (rep : Reply) (a : G) : Bool :=
  decide (0 ≤ c → staleG lastId r = true →
    rep.accept = false ∧ a.count = b.count ∧ ∀ j ∈ i :: others, oldCount a j = oldCount b j)

/-- a removal unregisters the instance -/
def jcRemoval (i : Str) (c : Int) (a : G) : Bool := decide (c < 0 → find i a.states = none)

/-- no other instance's count is touched -/
def jcOthers (others : List Str) (b : G) (i : Str) (a : G) : Bool :=
  others.all fun j => decide (j = i) || decide (oldCount a j = oldCount b j)

/-- names of the clauses of the property that `SetState(i, r, c)` breaks: state `b` before, reply `rep`, state `a`
    after, ghost `lastId` -/
def judgeViolations (others : List Str) (lastId : Option Int) (b : G) (i : Str) (r c : Int) (rep : Reply) (a : G) :
    List String :=
  [("total", clTotal b i r c rep a), ("exact", clExact b i r c rep a), ("bound", clBound b i r c rep a),
   ("accept-over-limit", jcAccept b i c rep a), ("decrease-not-applied", jcDecrease lastId b i r c a),
   ("stale-id-not-refused", jcStale lastId others b i r c rep a), ("removal", jcRemoval i c a),
   ("other-instance-touched", jcOthers others b i a)].filterMap fun (n, ok) => if ok then none else some n

/-- removals by the server itself (time-out sweep, clean-up of unknown clients): with the harness's own record of
    the latest accepted count per exact instance identity in `a.states` (the removed instances taken out of it), the
    running total is again the sum: exactly the removed instances' contributions are gone -/
def jcRemovals (b a : G) : List String :=
  (if a.count = wrap32 (sumStates a.states) then [] else ["total"]) ++
  (if b.count = sumStates b.states → a.count = sumStates a.states then [] else ["exact"])

/-- a limit change (or a re-sync) leaves the accounting alone -/
def jcResize (b a : G) : List String :=
  if a.count = b.count ∧ (∀ j ∈ keys a.states ++ keys b.states, oldCount a j = oldCount b j) then []
  else ["resize-touches-accounting"]

/-- tokens: a negative ask is refused (nothing accepted, nothing granted); a grant lies between 0 and the ask -/
def grantJudge (ask : Int) (r : AcqResult) : List String :=
  (if ask < 0 → (r.accept = false ∧ r.limit = 0) then [] else ["negative-ask-not-refused"]) ++
  (if 0 ≤ ask → r.accept = true → (0 ≤ r.limit ∧ r.limit ≤ ask) then [] else ["grant-out-of-range"])

/-! ### tokens -/

/-- model-level facts about a token acquisition (more than the property says: the halving set, the error kind;
    proved of the model, not judged on the code: `grantJudge`): `0 ≤ grant ≤ ask`, a grant is one of
    `ask, ask/2, ask/4, ask/8`, nothing is granted without `accept`, a negative ask is an error -/
def grantViolations (ask : Int) (r : AcqResult) : List String :=
  (if ask < 0 → (r.err = .negativeTokens ∧ r.accept = false ∧ r.limit = 0) then [] else ["negative-ask-not-refused"]) ++
  (if 0 ≤ ask → r.err = .none → (0 ≤ r.limit ∧ r.limit ≤ ask) then [] else ["grant-out-of-range"]) ++
  (if 0 ≤ ask → r.err = .none → r.accept = true →
      (r.limit = ask ∨ r.limit = ask / 2 ∨ r.limit = ask / 2 / 2 ∨ r.limit = ask / 2 / 2 / 2) then [] else ["grant-not-a-halving"]) ++
  (if 0 ≤ ask → r.err = .none → r.accept = false → r.limit = 0 then [] else ["grant-without-accept"])

/-- Σ of the grants of a list of `(time ns, grant)` events -/
def sumGrants : List (Int × Int) → Int
  | [] => 0
  | (_, g) :: r => g + sumGrants r

/-- the events from the first one on respect `burst + qps·(t − t_first) + slack` at each later event -/
def prefixesOk (qps burst : Int) (slack : Rat) (t0 : Int) (acc : Int) : List (Int × Int) → Bool
  | [] => true
  | (t, g) :: r =>
    decide (((acc + g : Int) : Rat) ≤ (burst : Rat) + tokensFromNs qps (t - t0) + slack) &&
    prefixesOk qps burst slack t0 (acc + g) r

/-- every window of consecutive events `i..j` has `Σ grants ≤ burst + qps·(t_j − t_i) + slack`
    (`slack = 0` is the property; the harness allows 1/1000 token for the float64 arithmetic of x/time/rate) -/
def windowsOk (qps burst : Int) (slack : Rat) : List (Int × Int) → Bool
  | [] => true
  | (t, g) :: r => prefixesOk qps burst slack t 0 ((t, g) :: r) && windowsOk qps burst slack r

/-! ### definitions used in the statements of `KG.Props.C08` -/

/-- the clock readings the limiter has seen are not later than `now` -/
def Mono (b : Bucket) (now : Int) : Prop := ∀ l, b.last = some l → l ≤ now

/-- tokens in the bucket at time `t` if nothing is taken until then -/
def avail (b : Bucket) (t : Int) : Rat := (advance b t).2

/-- what a call hands out -/
def granted (ok : Bool) (n : Int) : Int := if ok then n else 0

/-- clock readings that never go back, starting not before `t0` -/
def Chain (t0 : Int) : List Int → Prop
  | [] => True
  | x :: r => t0 ≤ x ∧ Chain x r

/-- the last reading (`t0` when there is none) -/
def lastFrom (t0 : Int) : List Int → Int
  | [] => t0
  | x :: r => lastFrom x r

def newId (state : Inst) (rid : Int) : Int := if rid > 0 then rid else state.requestId

/-- an op "removes `inst`" when it is a `SetState` of `inst` with a negative count -/
def Removes (inst : Str) : Op → Prop
  | .set i _ c => i = inst ∧ c < 0
  | .resize _ => False

/-- limits and reported counts below 2^30 -/
def Bounded : Op → Prop
  | .set _ _ c => InI32 c ∧ c < 1073741824
  | .resize n => 0 ≤ n ∧ n < 1073741824

/-- `l` is an interleaving of the call lists `ts` of the threads (program order kept per thread) -/
inductive Interleave : List (List Op) → List Op → Prop
  | done (ts : List (List Op)) : (∀ t ∈ ts, t = []) → Interleave ts []
  | step (ts : List (List Op)) (i : Nat) (op : Op) (rest l : List Op) :
      ts[i]? = some (op :: rest) → Interleave (ts.set i rest) l → Interleave ts (op :: l)

/-- a sequence of token acquisitions (the token-bucket arm of `DoAcquire`), each with the clock readings of its
    `TryAcquireN` calls and the amount asked; returns the bucket and the total granted -/
def runAcq (b : Bucket) : List (List Int × Int) → Bucket × Int
  | [] => (b, 0)
  | (nows, ask) :: rest =>
    let r := tbLoop b ask nows
    let s := runAcq r.1 rest
    (s.1, r.2.2 + s.2)

/-- asks are not negative and the clock readings, taken in the order in which the calls reach the limiter,
    never go back (true for the fixed code: `TryAcquireN` reads the clock inside its critical section) -/
def TimesOk (t0 : Int) : List (List Int × Int) → Prop
  | [] => True
  | (nows, ask) :: rest => 0 ≤ ask ∧ Chain t0 nows ∧ TimesOk (lastFrom t0 nows) rest

/-- the last clock reading of the sequence -/
def endTime (t0 : Int) : List (List Int × Int) → Int
  | [] => t0
  | (nows, _) :: rest => endTime (lastFrom t0 nows) rest

/-- the clock, the bucket, and the tokens handed out so far -/
structure TBSys where
  clock : Int
  b : Bucket
  granted : Int

/-- time passes, some caller (any instance, any goroutine) executes one `TryAcquireN(n)`, or the schema is
    synced again: `Resize(qps, burst)` (atomic as well: it takes the same mutex) -/
inductive TBStep where
  | tick (d : Nat)
  | tryAcquire (n : Int)
  | resize (qps burst : Int)

def tbStep (s : TBSys) : TBStep → TBSys
  | .tick d => { s with clock := s.clock + d }
  | .tryAcquire n =>
    let r := allowN s.b s.clock n
    { s with b := r.1, granted := s.granted + granted r.2 n }
  | .resize q bu => { s with b := (bucketResize s.b q bu).1 }

/-- a `Resize` that is no reconfiguration of this bucket: same qps, same burst (what every re-sync of the
    cluster's spec after an edit of ANOTHER schema does) -/
def SameParams (qps burst : Int) : TBStep → Prop
  | .resize q bu => q = qps ∧ bu = burst
  | _ => True

/-- acquisitions (token-bucket arm of `DoAcquire`) interleaved with `Resize` calls, sequentially -/
inductive TBOp where
  | acquire (nows : List Int) (ask : Int)
  | resize (qps burst : Int)

def runTBOps (b : Bucket) : List TBOp → Bucket × Int
  | [] => (b, 0)
  | .acquire nows ask :: rest =>
    let r := tbLoop b ask nows
    let s := runTBOps r.1 rest
    (s.1, r.2.2 + s.2)
  | .resize q bu :: rest => runTBOps (bucketResize b q bu).1 rest

/-- the acquisitions of an op list -/
def acquisitions : List TBOp → List (List Int × Int)
  | [] => []
  | .acquire nows ask :: rest => (nows, ask) :: acquisitions rest
  | .resize _ _ :: rest => acquisitions rest

def tbRun (s : TBSys) (steps : List TBStep) : TBSys := steps.foldl tbStep s

/-- `t` halved `k` times the way `DoAcquire` does it -/
def halve (t : Int) : Nat → Int
  | 0 => t
  | k + 1 => halve (t / KG.Gen.C08.tbDivisor) k

def i1 : Str := [105, 49]
def i2 : Str := [105, 50]

/-- the history of the repaired defect: 60 + 30 under limit 100, limit lowered to 50, `i1` reports 40 -/
def demoOps : List Op := [.set i1 1 60, .set i2 1 30, .resize 50, .set i1 2 40]

/-! ### the fine-grained system (`KG.Model.GlobalCount.Fine`): invariant -/

/-- program counters inside the critical section of `f.lock` -/
def inside : Pc → Bool
  | .idle | .wantLock .. | .resizeStore .. => false
  | _ => true

def okCount (c : Int) : Prop := 0 ≤ c ∧ c ≤ 2147483647

/-- what holds of the shared state while the lock owner is at `pc` (the limit `max` does not occur: `Resize`
    may store it at any moment) -/
def PcInv (g : G) : Pc → Prop
  | .locked _ _ c => g.count = wrap32 (sumStates g.states) ∧ InI32 c
  | .rmDeleted st => g.count = wrap32 (sumStates g.states + st.count) ∧ okCount st.count
  | .unlocking _ => g.count = wrap32 (sumStates g.states)
  | .haveState i _ c => g.count = wrap32 (sumStates g.states) ∧ okCount c ∧ (find i g.states).isSome
  | .idChecked i _ c => g.count = wrap32 (sumStates g.states) ∧ okCount c ∧ (find i g.states).isSome
  | .idStored i _ c => g.count = wrap32 (sumStates g.states) ∧ okCount c ∧ (find i g.states).isSome
  | .swapped i _ c old =>
    g.count = wrap32 (sumStates g.states - c + old) ∧ okCount c ∧ okCount old ∧ ∃ id, find i g.states = some ⟨c, id⟩
  | .added i _ c old delta cnt =>
    g.count = cnt ∧ cnt = wrap32 (sumStates g.states) ∧ delta = c - old ∧ okCount c ∧ okCount old ∧
      ∃ id, find i g.states = some ⟨c, id⟩
  | .rollback1 i old delta =>
    g.count = wrap32 (sumStates g.states) ∧ okCount old ∧ ∃ c id, find i g.states = some ⟨c, id⟩ ∧ delta = c - old ∧ okCount c
  | .rollback2 _ delta => g.count = wrap32 (sumStates g.states + delta) ∧ InI32 delta
  | .idle | .wantLock .. | .resizeStore .. => False

/-- the invariant of the fine-grained system -/
structure FInv (s : Fine) : Prop where
  allOk : AllOk s.g.states
  nodup : (keys s.g.states).Nodup
  /-- only the owner is inside -/
  excl : ∀ (t : Nat) (pc : Pc), s.pcs[t]? = some pc → inside pc = true → s.owner = some t
  /-- the owner is inside, at a pc whose assertion holds -/
  own : ∀ (t : Nat), s.owner = some t → ∃ pc, s.pcs[t]? = some pc ∧ inside pc = true ∧ PcInv s.g pc
  /-- nobody inside: the total is the sum -/
  free : s.owner = none → s.g.count = wrap32 (sumStates s.g.states)
  /-- arguments of pending calls are `int32`s -/
  args : ∀ (t : Nat) (i : Str) (r c : Int), s.pcs[t]? = some (Pc.wantLock i r c) → InI32 c

def fineInit (max : Int) (threads : Nat) : Fine := ⟨G.init max, none, List.replicate threads .idle⟩

/-- a schedule: which thread moves, and the call it starts if it is idle; `none` if some step is not enabled -/
def fineRun (s : Fine) : List (Nat × Option Op) → Option Fine
  | [] => some s
  | (t, call) :: rest =>
    match fineStep s t call with
    | none => none
    | some s' => fineRun s' rest


/-! ### the fine-grained system refines the atomic one (forward simulation) -/

/-- `SetState` registers a fresh `instanceState{}` for an unknown instance before anything else -/
def ensure (g : G) (inst : Str) : G :=
  match find inst g.states with
  | some _ => g
  | none => { g with states := put inst ⟨0, 0⟩ g.states }

def stateOf (g : G) (inst : Str) : Inst :=
  match find inst g.states with
  | some s => s
  | none => ⟨0, 0⟩

/-- the call a thread is executing and that has not taken effect in the atomic system yet -/
def pendingOp : Pc → Option Op
  | .wantLock i r c | .locked i r c | .haveState i r c | .idChecked i r c | .idStored i r c
  | .swapped i r c _ | .added i r c _ _ _ => some (.set i r c)
  | .resizeStore n => some (.resize n)
  | _ => none

/-- how the shared state `g` of the fine-grained system relates to the state `a` of the atomic system while the
    lock owner is at `pc`: before the call's linearization point (removal / stale id / unknown instance with a
    negative count: the step that decides it; report: the `LoadInt32(&f.max)` after the add) `a` is still the
    state at lock time, afterwards it already is the result of the atomic `setState` -/
def SimPc (g a : G) : Pc → Prop
  | .locked _ _ _ => a.count = g.count ∧ a.states = g.states
  | .unlocking _ => a.count = g.count ∧ a.states = g.states
  | .rmDeleted st => a.states = g.states ∧ a.count = wrap32 (g.count + wrap32 (-st.count))
  | .haveState i _ c => 0 ≤ c ∧ g.count = a.count ∧ g.states = (ensure a i).states
  | .idChecked i r c =>
    0 ≤ c ∧ g.count = a.count ∧ g.states = (ensure a i).states ∧ r > 0 ∧ ¬ r ≤ (stateOf a i).requestId
  | .idStored i r c =>
    0 ≤ c ∧ g.count = a.count ∧ ¬ (r > 0 ∧ r ≤ (stateOf a i).requestId) ∧
      g.states = put i ⟨(stateOf a i).count, newId (stateOf a i) r⟩ (ensure a i).states
  | .swapped i r c old =>
    0 ≤ c ∧ g.count = a.count ∧ ¬ (r > 0 ∧ r ≤ (stateOf a i).requestId) ∧ old = (stateOf a i).count ∧
      g.states = put i ⟨c, newId (stateOf a i) r⟩ (ensure a i).states
  | .added i r c old delta cnt =>
    0 ≤ c ∧ ¬ (r > 0 ∧ r ≤ (stateOf a i).requestId) ∧ old = (stateOf a i).count ∧ delta = wrap32 (c - old) ∧
      cnt = wrap32 (a.count + delta) ∧ g.count = cnt ∧ g.states = put i ⟨c, newId (stateOf a i) r⟩ (ensure a i).states
  | .rollback1 i _ delta =>
    ∃ c id, find i g.states = some ⟨c, id⟩ ∧ a.states = put i ⟨wrap32 (c + wrap32 (-delta)), id⟩ g.states ∧
      a.count = wrap32 (g.count + wrap32 (-delta))
  | .rollback2 _ delta => a.states = g.states ∧ a.count = wrap32 (g.count + wrap32 (-delta))
  | .idle | .wantLock .. | .resizeStore .. => False

/-- the simulation relation between the fine-grained system and the atomic system -/
def Sim (s : Fine) (a : G) : Prop :=
  a.max = s.g.max ∧
  match s.owner with
  | none => a.count = s.g.count ∧ a.states = s.g.states
  | some t => ∃ pc, s.pcs[t]? = some pc ∧ SimPc s.g a pc

end KG.Spec.GlobalCount
