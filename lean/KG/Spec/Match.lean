import KG.Model.Match
/-!
# Declarative reading of the documented rule semantics (docs/en/design.md), independent of the loops

For one field with entry list `E` and positive-match relation `pos` on entries:
* a `"*"` entry matches everything;
* otherwise, if there is a positive entry, the field matches iff some positive entry matches
  (`-` entries are ignored);
* otherwise, if there are `-` entries, the field matches iff **no** stripped entry matches
  (exactly the complement of the corresponding positive list);
* an empty list matches iff the field is optional.
-/
namespace KG.Spec.Match
open KG KG.Model.Match

def positives (E : List Str) : List Str := E.filter (fun x => !inverted x)
def negatives (E : List Str) : List Str := (E.filter inverted).map strip

def fieldSpec (optional : Bool) (pos : Str → Bool) (E : List Str) : Bool :=
  if E.contains star then true
  else if !(positives E).isEmpty then (positives E).any pos
  else if !(negatives E).isEmpty then !(negatives E).any pos
  else optional

/-- positive-match relations of the seven fields -/
def posEq (q : Str) (p : Str) : Bool := p == q
def posResource (combined sub : Str) (p : Str) : Bool :=
  p == combined || (sub ≠ [] && p == star ++ [slash] ++ sub)
def posGlob (q : Str) (p : Str) : Bool := p == q || globMatch p q
def posGroup (groups : List Str) (p : Str) : Bool := groups.any (fun g => p == g)

def saSpec (sas : List SA) (q : Str) : Bool :=
  sas.any (fun sa => sa.ns ≠ [] && sa.name ≠ [] && makeSAUsername sa.ns sa.name == q)

/-- the user field: users list (inverted entries allowed) OR-ed with service accounts; optional when both empty -/
def userSpec (users : List Str) (sas : List SA) (q : Str) : Bool :=
  if users.isEmpty && sas.isEmpty then true
  else fieldSpec false (posGlob q) users || saSpec sas q

/-- non-resource URLs: inverted entries are ignored altogether (documented) -/
def urlSpec (urls : List Str) (q : Str) : Bool :=
  urls.contains star || (positives urls).any (posGlob q)

def ruleSpec (a : Attrs) (r : Rule) : Bool :=
  fieldSpec false (posEq a.verb) r.verbs && userSpec r.users r.serviceAccounts a.user &&
  fieldSpec true (posGroup a.groups) r.userGroups &&
  (if a.isResource then
     fieldSpec false (posEq a.apiGroup) r.apiGroups &&
     fieldSpec false (posResource (combinedResource a) a.subresource) r.resources &&
     fieldSpec true (posEq a.name) r.resourceNames
   else urlSpec r.nonResourceURLs a.path)

def policySpec (a : Attrs) (p : Policy) : Bool := p.any (ruleSpec a)

/-- first policy, in list order, having a matching rule -/
def firstMatchSpec (a : Attrs) (ps : List Policy) : Option Nat := ps.findIdx? (policySpec a)

end KG.Spec.Match
