import KG.Model.Endpoints
/-!
# C03 as a judge over observable traces

The property is stated without any of the model's machinery (no endpoint objects, no goroutine state, no
cursors): an abstract state `Abs` is recomputed from the history alone — the last synced server list and
dispatch policies, and for every server the last health report received since it (re)entered the list — and
every observable output of a step (`Out`: an endpoint picked, "no ready endpoints", a probe sent) is judged
against it.  `judgeTrace` is what the theorems of `KG.Props.C03` prove about the model for every op list, and
what the harness evaluates on the trace observed from the real code.
-/
namespace KG.Spec.Endpoints
open KG KG.Model.Endpoints

structure Abs where
  servers : List Server            -- `spec.servers` of the last Sync
  policies : List (List Name)      -- `spec.dispatchPolicies[*].upstreamSubset` of the last Sync
  report : List (Name × Bool)      -- health reports, newest first, of endpoints currently in `servers`
  born : List (Name × Nat)         -- number of the Sync at which each current server entered the list
  epoch : Nat                      -- number of Syncs so far
  pickers : List Picker            -- requests in flight: the upstream list their policy gave them
deriving Repr

def Abs.init : Abs := { servers := [], policies := [], report := [], born := [], epoch := 0, pickers := [] }

/-- marked disabled in the spec (by any of its entries) -/
def specDisabled (servers : List Server) (n : Name) : Bool := servers.any fun s => s.endpoint == n && s.disabled

/-- in the cluster's current server list -/
def Abs.inServers (a : Abs) (n : Name) : Bool := (serverNames a.servers).contains n

def Abs.enabled (a : Abs) (n : Name) : Bool := a.inServers n && !specDisabled a.servers n

/-- the last report since the endpoint entered the server list says healthy -/
def Abs.healthy (a : Abs) (n : Name) : Bool := a.report.lookup n == some true

/-- may receive traffic -/
def Abs.eligible (a : Abs) (n : Name) : Bool := a.enabled n && a.healthy n

def Abs.bornAt (a : Abs) (n : Name) : Nat := (a.born.lookup n).getD 0

/-- how the history moves the abstract state (`out` matters only for "a probe was sent" and for the upstream list a
    request was given) -/
def absStep (a : Abs) (op : Op) (out : Out) : Abs :=
  match op with
  | .sync servers policies =>
    { a with
      servers := servers, policies := policies, epoch := a.epoch + 1
      report := a.report.filter fun p => (serverNames servers).contains p.1
      born := (dedup (serverNames servers)).map fun n => (n, if a.inServers n then a.bornAt n else a.epoch) }
  | .updateStatus n h => if a.inServers n then { a with report := (n, h) :: a.report } else a
  | .probeFire n h =>
    match out with
    | .fired _ _ => { a with report := (n, h) :: a.report }
    | _ => a
  | .matchAttrs _ _ =>
    match out with
    | .matched us => { a with pickers := a.pickers ++ [some us] }
    | _ => { a with pickers := a.pickers ++ [none] }
  | _ => a

/-- the property on one step -/
def judgeStep (a : Abs) (op : Op) (out : Out) : Bool :=
  match op with
  | .sync _ _ | .updateStatus _ _ | .trigger _ | .ensure _ => out == .none
  | .probeFire n _ =>
    match out with
    -- a probe is sent only to a current, enabled server (and to its current object)
    | .fired n' g => n' == n && a.enabled n && g == a.bornAt n
    | .notFired => true
    | _ => false
  | .matchAttrs policy order =>
    match a.policies[policy]? with
    | none => out == .noRule
    | some subset =>
      if !subset.isEmpty then out == .matched subset
      else match out with
        -- no subset: the request may go to every server of the current list, and to nothing else
        | .matched us => us == order && us.isPerm (dedup (serverNames a.servers))
        | .badOrder => !order.isPerm (dedup (serverNames a.servers))
        | _ => false
  | .pop j =>
    match a.pickers[j]? with
    | some (some us) =>
      match out with
      -- soundness: in the policy's upstream list, in the current server list, enabled, healthy, the current object
      | .popped (.picked n g) => us.contains n && a.eligible n && g == a.bornAt n
      -- completeness: "no ready endpoints" (→ 503) only when nothing is eligible
      | .popped .noReady => us.all fun n => !a.eligible n
      | _ => false
    | _ => out == .noPicker

def judgeTrace : Abs → List (Op × Out) → Bool
  | _, [] => true
  | a, (op, out) :: rest => judgeStep a op out && judgeTrace (absStep a op out) rest

/-- index of the first step that breaks the property -/
def firstBad : Abs → List (Op × Out) → Nat → Option Nat
  | _, [], _ => none
  | a, (op, out) :: rest, i => if judgeStep a op out then firstBad (absStep a op out) rest (i + 1) else some i

/-- abstract state after a trace -/
def absRun (a : Abs) (tr : List (Op × Out)) : Abs := tr.foldl (fun a p => absStep a p.1 p.2) a

/-- the trace the model produces on an op list -/
def modelTrace (s : State) (ops : List Op) : List (Op × Out) := ops.zip (run s ops).2

/-! ## C14: the counting judge -/

/-- occurrences of endpoint object `(n, g)` in a result sequence -/
def countPicked (n : Name) (g : Nat) (rs : List PopOut) : Nat := rs.countP fun r => r == .picked n g

/-- strict round-robin: `⌊N/k⌋ ≤ count ≤ ⌈N/k⌉` -/
def strictOK (k N count : Nat) : Bool := decide (N / k ≤ count) && decide (count ≤ (N + k - 1) / k)

/-- bounded deviation with `D` distinct orders: `|k·count − N| ≤ D·(k−1)` -/
def boundedOK (k D N count : Nat) : Bool := decide (N ≤ k * count + D * (k - 1)) && decide (k * count ≤ N + D * (k - 1))

end KG.Spec.Endpoints
