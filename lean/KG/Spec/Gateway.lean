import KG.Model.Gateway
import KG.Spec.Identity
import KG.Spec.Match
import KG.Spec.LocalLimiter
import KG.Spec.Endpoints
import KG.Spec.Forward
/-!
# The end-to-end property of one request, as a decidable judge

`judge env s σ r o` is evaluated on what was OBSERVED for request `r` (which upstream received it and what it received,
what the client was answered) against the configuration state `s` the request met and the bookkeeping `σ` of C05's judge
(per schema: the requests admitted and not yet finished). It is written with the per-area SPECIFICATIONS, not with the
models' loops:

* the host resolves to the cluster (C10: `Model.Names.resolve` — "the map is a function, each name belongs to its cluster" is the
  invariant of the manager);
* identity: `Spec.Identity.expectedFor` / `Spec.Identity.judge` on the raw header lines (C02);
* routing: `Spec.Match.firstMatchSpec` — the FIRST policy, in list order, with a rule matching the attributes (C01);
  the upstream must be a member of that policy's subset (or of the server list when it has none), a current server,
  not disabled by any entry of the spec, healthy by its last report (C03);
* flow control: `Spec.LocalLimiter.demandExact` — a max-in-flight schema admits iff fewer than `M` of the requests admitted under
  it are unfinished; exempt / unknown / default admit (C05); a token bucket admits only while it holds a token (C06);
* the forwarded request: C04's per-part judges (`Spec.Forward`), C02's judge on the identity-bearing fields;
* otherwise: the row of C04's decision table for the FIRST failing stage, a well-formed `Status`, nothing forwarded.

The harness evaluates it on the real chain's observations; `KG.Props.C04.Gateway` proves it of the model.
-/
namespace KG.Spec.Gateway
open KG KG.Model.Gateway

/-- what was observed for one request -/
structure Obs where
  /-- number of times any upstream received (the head of) this request -/
  nUp : Nat
  /-- the endpoint whose upstream received it (first reception) -/
  endpoint : Str
  /-- method, target, Host, header fields other than the identity-bearing ones, body — as received -/
  up : Model.Forward.UpReq
  /-- `Authorization` and `Impersonate-*` fields as received -/
  identity : Model.Identity.Headers
  /-- the client's view when the gateway answered itself -/
  term : KG.Spec.Forward.TermObs
  /-- the answer came from the gateway's own control-plane handler -/
  notProxied : Bool
deriving Repr

/-! ## the stages, declaratively -/

/-- the identity the request must be forwarded as (or the status it must be answered with), C02 -/
def expectId (env : Env) (p : Option Nat) (r : Request) : KG.Spec.Identity.Expect :=
  let auth := authenticate env p r
  KG.Spec.Identity.expectedFor r.lines auth
    (match auth with
     | some u => env.authz p u
     | none => fun _ => .deny)

def policies (cl : Cluster) : List Model.Match.Policy := cl.cfg.policies.map (·.rules)

/-- the first policy with a rule matching the request's attributes (C01) -/
def firstPolicy (cl : Cluster) (ri : ReqInfo) (u : Model.Identity.Identity) : Option Nat :=
  KG.Spec.Match.firstMatchSpec (attrsOf ri u) (policies cl)

/-- current server, enabled in the spec, healthy by the last report (C03) -/
def eligible (cl : Cluster) (n : Str) : Bool :=
  (Model.Endpoints.serverNames cl.cfg.servers).contains n && !KG.Spec.Endpoints.specDisabled cl.cfg.servers n &&
    (match Model.Endpoints.load cl.ep.eps n with
     | some e => e.healthy
     | none => false)

/-- the upstreams policy `i` allows: its subset, or every current server -/
def upstreamsOf (cl : Cluster) (i : Nat) : List Str :=
  match cl.cfg.policies[i]? with
  | some p => if p.upstreamSubset = [] then Model.Endpoints.dedup (Model.Endpoints.serverNames cl.cfg.servers) else p.upstreamSubset
  | none => []

def schemaOf (cl : Cluster) (i : Nat) : Str :=
  match cl.cfg.policies[i]? with
  | some p => p.flowControlSchemaName
  | none => []

/-- does the schema admit an arriving request: C05's demand; for a token bucket (no demand there) C06's bucket -/
def admits (s : State) (σ : KG.Spec.LocalLimiter.SState) (c n : Str) (now : Rat) : Bool :=
  match KG.Spec.LocalLimiter.demandExact σ c n with
  | some d => d
  | none => (bucketAnswer s.lim s.buckets c n now).1

/-- the flags of the decision table, from the specifications -/
def specScenario (env : Env) (s : State) (σ : KG.Spec.LocalLimiter.SState) (r : Request) : Model.Forward.Scenario :=
  let cl? := resolveCluster s r
  let p? : Option Nat := if r.hostIsIP then none else cl?.map (·.1)
  let ex := expectId env p? r
  let routed : Option (Cluster × Nat) :=
    match r.info, cl?, ex with
    | some ri, some (_, cl), .forward id => (firstPolicy cl ri id).map (cl, ·)
    | _, _, _ => none
  { requestInfoOK := r.info.isSome,
    hostIsIP := r.hostIsIP,
    clusterKnown := cl?.isSome,
    denyAll := match cl? with | some (_, cl) => cl.cfg.denyAll | none => false,
    authOK := decide (ex ≠ .answered 401),
    imp := match ex with
      | .answered 500 => .malformed
      | .answered 403 => .refused
      | .answered _ => .none
      | .forward _ => if KG.Spec.Identity.impersonationRequested r.lines then .allowed else .none,
    policyMatches := routed.isSome,
    acquireOK := match routed with
      | some (cl, i) => admits s σ cl.cfg.name (schemaOf cl i) r.now
      | none => true,
    resource := match r.info with | some ri => (if ri.isResource then ri.resource else []) | none => [],
    popOK := match routed with
      | some (cl, i) => (upstreamsOf cl i).any (eligible cl)
      | none => true }

/-! ## the judge -/

def cls (b : Bool) (c : String) : List String := if b then [] else [c]

/-- a request that reached an upstream: every stage must have passed (C10, C12/C02, C01, C03, C05/C06) -/
def judgeStages (env : Env) (s : State) (σ : KG.Spec.LocalLimiter.SState) (r : Request) (o : Obs) : List String :=
  cls (decide (o.nUp = 1)) "gw.forward-count" ++
  (match r.info with
   | none => ["gw.forwarded.no-request-info"]
   | some ri =>
     if r.hostIsIP then ["gw.forwarded.ip-host"] else
     match resolveCluster s r with
     | none => ["gw.forwarded.unknown-host"]
     | some (p, cl) =>
       cls (!cl.cfg.denyAll) "gw.forwarded.deny-all" ++
       (match expectId env (some p) r with
        | .answered 401 => ["gw.forwarded.unauthenticated"]
        | .answered _ => ["gw.forwarded.unapproved-identity"]
        | .forward id =>
          (KG.Spec.Identity.judge cl.cfg.token false (.forward id) [o.identity]).map (fun c => "gw.identity." ++ c.name) ++
          (match firstPolicy cl ri id with
           | none => ["gw.forwarded.no-policy"]
           | some i =>
             cls ((upstreamsOf cl i).contains o.endpoint) "gw.endpoint.not-of-first-matching-policy" ++
             cls ((Model.Endpoints.serverNames cl.cfg.servers).contains o.endpoint) "gw.endpoint.not-a-server" ++
             cls (eligible cl o.endpoint) "gw.endpoint.not-ready" ++
             cls (admits s σ cl.cfg.name (schemaOf cl i) r.now)
               (if (KG.Spec.LocalLimiter.demandExact σ cl.cfg.name (schemaOf cl i)).isSome then "gw.admitted-over-limit"
                else "gw.admitted-empty-bucket"))))

/-- … and what it received must be the client's request (C04's per-part judges) -/
def judgeFidelity (r : Request) (o : Obs) : List String :=
  let v := KG.Spec.Forward.reqVerdict r.toForward o.up
  cls v.method "gw.fidelity.method" ++ cls v.host "gw.fidelity.host" ++ cls v.body "gw.fidelity.body" ++
  cls v.pathDecoded "gw.fidelity.path-decoded" ++ cls v.pathExact "gw.fidelity.path-exact" ++ cls v.query "gw.fidelity.query" ++
  cls v.headers "gw.fidelity.headers"

def judgeForwarded (env : Env) (s : State) (σ : KG.Spec.LocalLimiter.SState) (r : Request) (o : Obs) : List String :=
  judgeStages env s σ r o ++ judgeFidelity r o

/-- a request no upstream received: it must be the row of the first failing stage -/
def judgeAnswered (env : Env) (s : State) (σ : KG.Spec.LocalLimiter.SState) (r : Request) (o : Obs) : List String :=
  let sc := specScenario env s σ r
  match KG.Spec.Forward.table sc with
  | .forward => ["gw.not-forwarded"]          -- every stage passes: the request must reach an upstream
  | .notProxied => cls o.notProxied "gw.ip-host-not-handed-over"
  | .terminated a =>
    cls (KG.Spec.Forward.wellFormed o.term) "gw.term.not-a-status" ++
    cls (KG.Spec.Forward.matchesRow a o.term) "gw.term.row" ++
    cls (KG.Spec.Forward.retryAfterDemanded o.term
          (sc.requestInfoOK && !sc.hostIsIP && sc.clusterKnown && !sc.denyAll && sc.authOK
            && (sc.imp == Model.Forward.Imp.none || sc.imp == Model.Forward.Imp.allowed) && sc.policyMatches && !sc.acquireOK) sc.resource) "gw.term.retry-after"

def judge (env : Env) (s : State) (σ : KG.Spec.LocalLimiter.SState) (r : Request) (o : Obs) : List String :=
  if o.nUp = 0 then judgeAnswered env s σ r o else judgeForwarded env s σ r o

/-! ## the observation a model outcome stands for -/

def emptyUp : Model.Forward.UpReq := { method := [], target := [], host := [], headers := [], body := [] }
def emptyTerm : KG.Spec.Forward.TermObs :=
  { httpCode := 0, retryAfter := none, isStatus := false, body := ⟨[], [], [], [], 0⟩, upstreamRequests := 0, upstreamBytes := 0 }

def obsOf (r : Request) : Outcome → Option Obs
  | .forwarded f =>
    some { nUp := 1, endpoint := f.endpoint.1,
           up := { f.up with headers := KG.Spec.Forward.canonReqHeaders r.lines f.up.headers },
           identity := f.identity, term := emptyTerm, notProxied := false }
  | .terminated a =>
    some { nUp := 0, endpoint := [], up := emptyUp, identity := [], term := KG.Spec.Forward.obsOfAnswer a, notProxied := false }
  | .notProxied => some { nUp := 0, endpoint := [], up := emptyUp, identity := [], term := emptyTerm, notProxied := true }
  | _ => none

/-! ## the bookkeeping of C05's judge along a sequence (ghost state) -/

/-- how the bookkeeping moves when a request for `(c, n)` got the limiter's answer `admitted` -/
def trackAcquire (σ : KG.Spec.LocalLimiter.SState) (c n : Str) (admitted : Bool) : KG.Spec.LocalLimiter.SState :=
  KG.Spec.LocalLimiter.specAcquire σ c n admitted

def trackRelease (σ : KG.Spec.LocalLimiter.SState) (h : Nat) : KG.Spec.LocalLimiter.SState :=
  KG.Spec.LocalLimiter.specRelease σ h

/-- the bookkeeping after `install` -/
def trackInstall (cfgs : List ClusterCfg) : State × KG.Spec.LocalLimiter.SState :=
  cfgs.foldl (fun x c =>
    let r := addCluster x.1 c
    (r.1, if r.2 = some .created then KG.Spec.LocalLimiter.specSync x.2 (lower c.name) c.schemas else x.2))
    (State.init, KG.Spec.LocalLimiter.SState.init)

end KG.Spec.Gateway
