import KG.Model.Reclaim
/-!
# C18 as decidable predicates over (state before, op, state after)

The same predicates are (a) what the theorems of `KG.Props.C18` prove about every step of the model and
(b) what the harness evaluates (`C18.judge`) on the states *observed on the real code* before and after every op.
A `State` here is just an observation: heartbeat table, leadership, and the contents of every store.
-/
namespace KG.Spec.Reclaim
open KG KG.Model.Reclaim

/-- no heartbeat entry of `i`. -/
def NoHb (i : Inst) (s : State) : Prop := ∀ p ∈ s.hb, p.1 ≠ i

/-- no in-flight state is counted for `i` in any (max-in-flight) flow control of any store; token buckets keep
    nothing per instance. -/
def NoState (i : Inst) (s : State) : Prop := ∀ r ∈ s.fcs, r.2.2.isMif = true → ∀ p ∈ r.2.2.states, p.1 ≠ i

/-- no condition (allocated quota) of `i` is left in a shard this server leads. -/
def NoCondLed (shardOf : Ups → Nat) (i : Inst) (s : State) : Prop :=
  ∀ r ∈ s.conds, r.2.inst = i → isLeader s (shardOf r.2.upstream) = false

/-- `i` has a heartbeat entry and every entry of `i` is older than the time-out at `now`. -/
def DeadAt (now : Nat) (s : State) (i : Inst) : Prop :=
  (∃ p ∈ s.hb, p.1 = i) ∧ ∀ p ∈ s.hb, p.1 = i → timedOut now p = true

/-- `i` has a heartbeat entry and none of its entries is older than the time-out at `now`. -/
def LiveAt (now : Nat) (s : State) (i : Inst) : Prop :=
  (∃ p ∈ s.hb, p.1 = i) ∧ ∀ p ∈ s.hb, p.1 = i → timedOut now p = false

/-- every condition recorded for `i` is still recorded, unchanged, in the same store. -/
def KeepsConds (i : Inst) (pre post : State) : Prop := ∀ r ∈ pre.conds, r.2.inst = i → r ∈ post.conds

/-- the in-flight state counted for `i` in flow control `r` is still counted, unchanged. -/
def KeepsStateOf (i : Inst) (post : State) (r : Nat × Ups × FC) : Prop :=
  r.2.2.getState i ≠ none →
    ∃ r' ∈ post.fcs, r'.1 = r.1 ∧ r'.2.1 = r.2.1 ∧ r'.2.2.name = r.2.2.name ∧ r'.2.2.getState i = r.2.2.getState i

def KeepsStates (i : Inst) (pre post : State) : Prop := ∀ r ∈ pre.fcs, KeepsStateOf i post r

/-- the history contains no action (heartbeat, report, acquire) of instance `i`: `i` is silent. -/
def Quiet (i : Inst) (ops : List Op) : Prop := ∀ op ∈ ops, op.isBy i = false

/-- **Reclaim, 1 s pass.** Every instance that is dead at `now` loses its heartbeat entry, every in-flight state
    counted for it (all stores), and every labelled condition of it in the shards led — except a condition whose
    deletion the API refused in this pass (API-backed store; it is kept for the next pass). -/
def ReclaimTimeout (shardOf : Ups → Nat) (now : Nat) (pre post : State) : Prop :=
  ∀ q ∈ pre.hb, DeadAt now pre q.1 →
    NoHb q.1 post ∧ NoState q.1 post ∧
    (q.1 ≠ [] → ∀ r ∈ post.conds, r.2.inst = q.1 → r.2.label = some q.1 →
      isLeader post (shardOf r.2.upstream) = false ∨ post.failing.contains r.2.name = true)

/-- **Reclaim, 30 s pass.** Afterwards every condition left in a led shard is instance-less or belongs to an instance
    of the heartbeat table, and no in-flight state is left for the unknown instances found. -/
def ReclaimUnknown (shardOf : Ups → Nat) (pre post : State) : Prop :=
  (∀ r ∈ post.conds, isLeader post (shardOf r.2.upstream) = true →
    r.2.inst = [] ∨ hbHas post r.2.inst = true ∨ post.failing.contains r.2.name = true) ∧
  (∀ r ∈ pre.conds, r.2.inst ≠ [] → hbHas pre r.2.inst = false → NoState r.2.inst post)

/-- **Live instances are left alone, 1 s pass**: an instance that is live at `now` keeps its heartbeat entry,
    all its conditions and all its in-flight states. -/
def LiveSafeTimeout (now : Nat) (pre post : State) : Prop :=
  ∀ q ∈ pre.hb, LiveAt now pre q.1 → q ∈ post.hb ∧ KeepsConds q.1 pre post ∧ KeepsStates q.1 pre post

/-- **Live instances are left alone, 30 s pass**: an instance of the heartbeat table keeps its entry and, for every
    upstream that is still listed, its conditions and in-flight states (an upstream that is no longer listed is
    removed as a whole, that is the deletion of the upstream, not of the instance). -/
def LiveSafeUnknown (pre post : State) : Prop :=
  ∀ q ∈ pre.hb, q ∈ post.hb ∧
    (∀ r ∈ pre.conds, r.2.inst = q.1 → isListed pre r.2.upstream = true → r ∈ post.conds) ∧
    (∀ r ∈ pre.fcs, isListed pre r.2.1 = true → KeepsStateOf q.1 post r)

/-- same items (the order of `Status.LimitItemStatuses` is Go map order). -/
def SameItems (a b : List Item) : Prop := (∀ x ∈ a, x ∈ b) ∧ (∀ x ∈ b, x ∈ a)

/-- **Recorded sums**: after a successful report for `u` the upstream state condition records exactly the sums of
    the quotas of the conditions stored for `u`. -/
def SumRecorded (shardOf : Ups → Nat) (u : Ups) (post : State) : Prop :=
  match getCond post (shardOf u) u (stateName u) with
  | none => False
  | some upc => SameItems upc.status (calcSums (summed post.conds (shardOf u) u))

/-- the heartbeat of `i` at `t` is recorded, nobody else's entry changes. -/
def HeartbeatRecorded (i : Inst) (t : Nat) (pre post : State) : Prop :=
  (i, t) ∈ post.hb ∧ (∀ p ∈ post.hb, p.1 = i → p.2 = t) ∧
  (∀ p ∈ pre.hb, p.1 ≠ i → p ∈ post.hb) ∧ (∀ p ∈ post.hb, p.1 ≠ i → p ∈ pre.hb)

/-- **Every entry point records under the id the client gave** (with `HeartbeatRecorded`): an answered report of `i`
    for `u` leaves a condition owned by `i` under `i`'s condition name (unless that name is the upstream state
    condition's, which the report rewrites last). -/
def ReportRecorded (shardOf : Ups → Nat) (u : Ups) (i : Inst) (post : State) : Prop :=
  condName u i ≠ stateName u →
    ∃ r ∈ post.conds, r.1 = shardOf u ∧ r.2.inst = i ∧ r.2.upstream = u ∧ r.2.name = condName u i

/-- … and every request of an acquire of `i` that was served by a max-in-flight flow control (no error) leaves an
    in-flight state under `i` in that flow control. -/
def AcquireRecorded (shardOf : Ups → Nat) (u : Ups) (i : Inst) (rs : List (Str × Bool × Int × String)) (post : State) :
    Prop :=
  ∀ r ∈ rs, r.2.2.2 = "" →
    ∃ x ∈ post.fcs, x.1 = shardOf u ∧ x.2.1 = u ∧ x.2.2.name = r.1 ∧ x.2.2.getState i ≠ none

instance (f : Ups → Nat) (u : Ups) (i : Inst) (s : State) : Decidable (ReportRecorded f u i s) := by
  unfold ReportRecorded; infer_instance
instance (f : Ups → Nat) (u : Ups) (i : Inst) (rs : List (Str × Bool × Int × String)) (s : State) :
    Decidable (AcquireRecorded f u i rs s) := by unfold AcquireRecorded; infer_instance

/-- **Other instances' actions**: an action of instance `j` removes nothing recorded for `i ≠ j`
    (conditions: except the one stored under `j`'s own name and the upstream state condition, which it rewrites). -/
def OthersKept (u : Option Ups) (j : Inst) (pre post : State) : Prop :=
  ∀ q ∈ pre.hb, q.1 ≠ j →
    q ∈ post.hb ∧ KeepsStates q.1 pre post ∧
    (∀ r ∈ pre.conds, r.2.inst = q.1 →
      (∀ u', u = some u' → ¬(r.2.upstream = u' ∧ (r.2.name = condName u' j ∨ r.2.name = stateName u'))) → r ∈ post.conds)

instance (i : Inst) (ops : List Op) : Decidable (Quiet i ops) := by unfold Quiet; infer_instance
instance (i : Inst) (s : State) : Decidable (NoHb i s) := by unfold NoHb; infer_instance
instance (i : Inst) (s : State) : Decidable (NoState i s) := by unfold NoState; infer_instance
instance (f : Ups → Nat) (i : Inst) (s : State) : Decidable (NoCondLed f i s) := by unfold NoCondLed; infer_instance
instance (n : Nat) (s : State) (i : Inst) : Decidable (DeadAt n s i) := by unfold DeadAt; infer_instance
instance (n : Nat) (s : State) (i : Inst) : Decidable (LiveAt n s i) := by unfold LiveAt; infer_instance
instance (i : Inst) (a b : State) : Decidable (KeepsConds i a b) := by unfold KeepsConds; infer_instance
instance (i : Inst) (b : State) (r : Nat × Ups × FC) : Decidable (KeepsStateOf i b r) := by
  unfold KeepsStateOf; infer_instance
instance (i : Inst) (a b : State) : Decidable (KeepsStates i a b) := by unfold KeepsStates; infer_instance
instance (f : Ups → Nat) (n : Nat) (a b : State) : Decidable (ReclaimTimeout f n a b) := by
  unfold ReclaimTimeout; infer_instance
instance (f : Ups → Nat) (a b : State) : Decidable (ReclaimUnknown f a b) := by unfold ReclaimUnknown; infer_instance
instance (n : Nat) (a b : State) : Decidable (LiveSafeTimeout n a b) := by unfold LiveSafeTimeout; infer_instance
instance (a b : State) : Decidable (LiveSafeUnknown a b) := by unfold LiveSafeUnknown; infer_instance
instance (a b : List Item) : Decidable (SameItems a b) := by unfold SameItems; infer_instance
instance (f : Ups → Nat) (u : Ups) (s : State) : Decidable (SumRecorded f u s) := by
  unfold SumRecorded; split <;> infer_instance
instance (i : Inst) (t : Nat) (a b : State) : Decidable (HeartbeatRecorded i t a b) := by
  unfold HeartbeatRecorded; infer_instance
instance (u : Option Ups) (j : Inst) (a b : State) : Decidable (OthersKept u j a b) := by
  unfold OthersKept; infer_instance

/-- sum of the per-instance in-flight counts of a flow control. -/
def sumCounts : List (Inst × IState) → Int
  | [] => 0
  | p :: t => p.2.count + sumCounts t

/-- **What is counted is what is recorded**: the total of every max-in-flight flow control is the (int32) sum of the
    counts recorded per instance — so a state that is forgotten is also given back to the total. -/
def CountsConsistent (s : State) : Prop :=
  ∀ r ∈ s.fcs, r.2.2.isMif = true → r.2.2.count = toI32 (sumCounts r.2.2.states)

instance (s : State) : Decidable (CountsConsistent s) := by unfold CountsConsistent; infer_instance

/-- a pass deletes no condition in a shard this server does not lead (unknown pass: of a listed upstream). -/
def ForeignKept (shardOf : Ups → Nat) (needListed : Bool) (pre post : State) : Prop :=
  ∀ r ∈ pre.conds, isLeader pre (shardOf r.2.upstream) = false →
    (needListed = true → isListed pre r.2.upstream = true) → r ∈ post.conds

instance (f : Ups → Nat) (b : Bool) (x y : State) : Decidable (ForeignKept f b x y) := by
  unfold ForeignKept; infer_instance

/-- an upstream event for a listed upstream removes no condition but (rewrites) the upstream state condition. -/
def EventKeeps (shardOf : Ups → Nat) (u : Ups) (pre post : State) : Prop :=
  isListed pre u = true →
    ∀ r ∈ pre.conds, ¬(r.1 = shardOf u ∧ r.2.upstream = u ∧ r.2.name = stateName u) → r ∈ post.conds

/-- `leaderCheck` removes nothing from the store of a shard that is still led. -/
def LedStoresKept (pre post : State) : Prop :=
  ∀ r ∈ pre.conds, pre.leaders.contains r.1 = true → pre.shards.contains r.1 = true → r ∈ post.conds

instance (f : Ups → Nat) (u : Ups) (x y : State) : Decidable (EventKeeps f u x y) := by
  unfold EventKeeps; infer_instance
instance (x y : State) : Decidable (LedStoresKept x y) := by unfold LedStoresKept; infer_instance

/-- the answer of an op is not an error. -/
def Out.isOk : Out → Bool
  | .err _ => false
  | _ => true

/-- The judge of one step: the names of the C18 clauses that `(pre, op, out, post)` violates. -/
def judgeStep (shardOf : Ups → Nat) (pre : State) (op : Op) (out : Out) (post : State) : List String :=
  let ok := Out.isOk out
  let chk (name : String) (b : Bool) : List String := if b then [] else [name]
  match op with
  | .cleanupTimeout now =>
      chk "c18.timeout-pass-leaves-dead-instance" (decide (ReclaimTimeout shardOf now pre post)) ++
      chk "c18.live-instance-removed-by-timeout-pass" (decide (LiveSafeTimeout now pre post)) ++
      chk "c18.pass-deletes-in-foreign-shard" (decide (ForeignKept shardOf false pre post))
  | .cleanupUnknown =>
      chk "c18.unknown-pass-leaves-dead-instance" (decide (ReclaimUnknown shardOf pre post)) ++
      chk "c18.live-instance-removed-by-unknown-pass" (decide (LiveSafeUnknown pre post)) ++
      chk "c18.pass-deletes-in-foreign-shard" (decide (ForeignKept shardOf true pre post))
  | .report u j _ _ =>
      (if ok then chk "c18.recorded-sum-not-recomputed" (decide (SumRecorded shardOf u post)) ++
                  chk "c18.report-not-recorded-under-the-reporting-id" (decide (ReportRecorded shardOf u j post)) else []) ++
      chk "c18.other-instance-removed-by-report" (decide (OthersKept (some u) j pre post))
  | .acquire u j _ _ =>
      chk "c18.other-instance-removed-by-acquire" (decide (OthersKept none j pre post)) ++
      (match out with
       | .acquired rs => chk "c18.acquire-not-recorded-under-the-acquiring-id" (decide (AcquireRecorded shardOf u j rs post))
       | _ => [])
  | .burst _ j _ _ => chk "c18.other-instance-removed-by-acquire" (decide (OthersKept none j pre post))
  | .heartbeat i t => chk "c18.heartbeat-not-recorded" (decide (HeartbeatRecorded i t pre post))
  | .handle u => chk "c18.upstream-event-removes-conditions" (decide (EventKeeps shardOf u pre post))
  | .leaderCheck => chk "c18.leaderCheck-empties-led-store" (decide (LedStoresKept pre post))
  | _ => []

/-- The judge of one observed state. -/
def judgeState (s : State) : List String :=
  if decide (CountsConsistent s) then [] else ["c18.count-differs-from-recorded-states"]

end KG.Spec.Reclaim
