import KG.Model.ClusterSync
/-!
# C11 — what is observed of a cluster, and what the latest object says it must be

`Obs` is exactly the list of the property: routing (the dispatch-policy list and the logging switch, from
which `MatchAttributes` is computed), endpoint set with disabled flags, flow-control schemas (name ↦ limiter
type and limits) and the limiter mode, the value of every feature gate, TLS material (serving certificate,
client-CA pool), client-certificate verify options, server names.  Client connection settings are not part
of it.  Map-like parts are observed extensionally (`name ↦ Load(name)`), so that Go's map order is irrelevant.

`expected env conn o` is the declarative judge: the observation the object `o` alone prescribes.
-/
namespace KG.Spec.ClusterSync
open KG KG.Model.ClusterSync

structure Obs where
  policies : List DPolicy
  logging : Str
  endpoints : Str → Option Bool          -- `Endpoints.Load(ep)` ↦ `IstDisabled()`
  schemas : Str → Option FCView          -- `GetFlowSchema(name)` (its `String()`)
  hasSchema : Str → Bool                 -- `flowcontrol.Load(name)` finds a schema
  limiterMode : Str
  gates : Gates                          -- `FeatureEnabled` of every gate
  tls : Option (Option Str × Option Str) -- `LoadTLSConfig`: (ClientCAs, Certificates)
  verify : Option Str                    -- `LoadVerifyOptions`
  serverNames : List Str                 -- `LoadServerNames`

def observe (env : Env) (c : CI) : Obs :=
  { policies := loadPolicies c, logging := loadLogging c,
    endpoints := loadEndpoint c, schemas := getFlowSchema c, hasSchema := hasFlowSchema c,
    limiterMode := c.limiterMode, gates := c.gates,
    tls := loadTLSConfig c, verify := loadVerifyOptions c, serverNames := loadServerNames env c }

/-! ## the judge -/

def expGates (env : Env) (o : Obj) : Gates :=
  let v := gateAnnotation o.annotations
  if v.length = 0 then env.defaultGates else (env.setGates v).getD env.defaultGates

def expMode (env : Env) (conn : Conn) (o : Obj) : Str :=
  if conn.globalRateLimiter = strRemote ∧ alookup strGlobalRateLimiter (expGates env o) = some true
  then strRemote else strLocal

def expEndpoint (conn : Conn) (o : Obj) (ep : Str) : Option Bool :=
  if conn.skipSyncEndpoints then none
  else if memb ep (wantedEndpoints o.servers) then some (isDisabled o.servers ep) else none

def expSchema (o : Obj) (n : Str) : Option FCView :=
  if n.length = 0 then some defaultFlowControl
  else
    match lastSchema o.schemas n with
    | none => some defaultFlowControl
    | some s => newFlowControl s

def expCA (env : Env) (ca : Str) : Option Str := if ca.length = 0 then none else env.parseCA ca

def expCerts (env : Env) (cert key : Str) : Option Str :=
  if key.length = 0 ∨ cert.length = 0 then none else env.parsePair cert key

def expTLS (env : Env) (o : Obj) : Option (Option Str × Option Str) :=
  let ca := expCA env o.secureServing.clientCAData
  let certs := expCerts env o.secureServing.certData o.secureServing.keyData
  if certs.isNone && ca.isNone then none else some (ca, certs)

/-- the observation prescribed by the object alone -/
def expected (env : Env) (conn : Conn) (o : Obj) : Obs :=
  { policies := o.policies, logging := o.logging,
    endpoints := expEndpoint conn o, schemas := expSchema o,
    hasSchema := fun n => (lastSchema o.schemas n).isSome,
    limiterMode := expMode env conn o, gates := expGates env o,
    tls := expTLS env o, verify := expCA env o.secureServing.clientCAData,
    serverNames := env.lower o.name :: o.secureServing.serverNames.map env.lower }

/-- an object the data plane can apply from scratch: every external parser accepts what it is given and a
    transport can be built for every endpoint (what admission validation promises, C16) -/
def applicable (env : Env) (conn : Conn) (o : Obj) : Prop :=
  ((gateAnnotation o.annotations).length ≠ 0 → (env.setGates (gateAnnotation o.annotations)).isSome) ∧
  (o.secureServing.clientCAData.length ≠ 0 → (env.parseCA o.secureServing.clientCAData).isSome) ∧
  (o.secureServing.keyData.length ≠ 0 → o.secureServing.certData.length ≠ 0 →
      (env.parsePair o.secureServing.certData o.secureServing.keyData).isSome) ∧
  (conn.skipSyncEndpoints = false → ∀ s ∈ o.servers, env.addOK s.endpoint = true)

end KG.Spec.ClusterSync
