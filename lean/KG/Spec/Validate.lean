import KG.Model.Validate
/-!
# C16: what an acceptable UpstreamCluster is, declaratively

`usable env c` is the conjunction of the classes the property names: every endpoint is an `http://` / `https://` URL
that parses and has a host, all endpoints use one scheme, key / certificate / CA material is usable, policies
refer to endpoints and schemas that exist, every flow-control schema is one of the five complete, non-contradictory,
in-range shapes. `valid env known c` adds the remaining admission rules (object meta, feature-gate annotation,
name conflicts, legal enum values, client rate limits, at least one policy and one rule per policy) and is proved
to be *exactly* what the model of the validation accepts (`Props.C16.validate_ok_iff_valid`).

The harness evaluates the same predicates (through the driver) on every object the REAL validation accepts.
-/
namespace KG.Spec.Validate
open KG KG.Model.Validate

/-- an endpoint the consumers can use: `http://` or `https://` prefix, `url.Parse` succeeds, non-empty host -/
def endpointOK (env : Env) (e : Str) : Bool :=
  getURLScheme e ≠ [] && (match env.urlParse e with
    | some u => u.host ≠ []
    | none => false)

/-- all endpoints use the same scheme -/
def sameScheme (servers : List Server) : Bool :=
  servers.all (fun a => servers.all (fun b => getURLScheme a.endpoint = getURLScheme b.endpoint))

/-- the scheme of the cluster (of its first server) -/
def schemeOf (servers : List Server) : Str :=
  match servers with
  | [] => []
  | s :: _ => getURLScheme s.endpoint

/-- client TLS material: for https a way to verify the server (CA xor insecure) and a way to authenticate
    (token, or key AND certificate); a key/certificate pair that is present must parse, and so must a CA -/
def clientTLSOK (env : Env) (scheme : Str) (c : ClientConfig) : Bool :=
  (scheme ≠ sHttps ||
    ((c.insecure || c.caData ≠ []) && !(c.insecure && c.caData ≠ []) &&
     (c.bearerToken ≠ [] || c.keyData ≠ [] || c.certData ≠ []) &&
     ((c.keyData ≠ []) == (c.certData ≠ [])))) &&
  (c.keyData = [] || c.certData = [] || env.x509KeyPair c.certData c.keyData) &&
  (c.caData = [] || env.parseCertsPEM c.caData)

/-- serving material: a complete pair must parse, a client CA must parse -/
def servingOK (env : Env) (s : SecureServing) : Bool :=
  (s.certData = [] || s.keyData = [] || env.x509KeyPair s.certData s.keyData) &&
  (s.clientCAData = [] || env.parseCertsPEM s.clientCAData)

/-- the five shapes of a flow-control configuration -/
inductive Shape where
  | exempt
  | maxInflight (max : Int)
  | maxInflightGlobal (max globalMax : Int)
  | tokenBucket (tb : TokenBucket)
  | tokenBucketGlobal (tb globalTB : TokenBucket)
deriving Repr, DecidableEq

/-- exactly one local configuration; a global one only next to the local one of the same kind -/
def shapeOf (s : Schema) : Option Shape :=
  match s.exempt, s.maxRequestsInflight, s.tokenBucket, s.globalMaxRequestsInflight, s.globalTokenBucket with
  | true, none, none, none, none => some .exempt
  | false, some m, none, none, none => some (.maxInflight m)
  | false, some m, none, some g, none => some (.maxInflightGlobal m g)
  | false, none, some t, none, none => some (.tokenBucket t)
  | false, none, some t, none, some g => some (.tokenBucketGlobal t g)
  | _, _, _, _, _ => none

/-- numbers in the range the consumers need, and global ≥ local -/
def Shape.inRange : Shape → Bool
  | .exempt => true
  | .maxInflight m => 0 ≤ m
  | .maxInflightGlobal m g => 0 ≤ m && m ≤ g
  | .tokenBucket t => 0 < t.qps && t.qps ≤ t.burst
  | .tokenBucketGlobal t g => 0 < t.qps && t.qps ≤ t.burst && t.qps ≤ g.qps && t.burst ≤ g.burst

/-- complete, non-contradictory, in range -/
def schemaOK (s : Schema) : Bool :=
  match shapeOf s with
  | some sh => sh.inRange
  | none => false

/-- schema names: present and pairwise different -/
def namesOK : List Schema → Bool
  | [] => true
  | s :: rest => s.name ≠ [] && !(rest.map (·.name)).contains s.name && namesOK rest

/-- a policy refers only to endpoints of the cluster and to a schema of the cluster (or to none) -/
def policyRefsOK (servers : List Server) (schemas : List Schema) (p : Policy) : Bool :=
  p.upstreamSubset.all (fun u => (servers.map (·.endpoint)).contains u) &&
  (p.flowControlSchemaName = [] || (schemas.map (·.name)).contains p.flowControlSchemaName)

/-- the classes named by the property -/
structure Classes where
  endpoints : Bool      -- every endpoint parses, has a host and an http(s) scheme; at least one server
  oneScheme : Bool      -- no mixed schemes
  clientTLS : Bool      -- usable client key / certificate / CA
  serving : Bool        -- usable serving key / certificate / client CA
  flowControl : Bool    -- every schema complete, non-contradictory, in range
  names : Bool          -- schema names present and unique
  policyRefs : Bool     -- policies refer to known endpoints / schemas
deriving Repr, DecidableEq

def classes (env : Env) (c : Cluster) : Classes :=
  { endpoints := c.servers ≠ [] && c.servers.all (fun s => endpointOK env s.endpoint),
    oneScheme := sameScheme c.servers,
    clientTLS := clientTLSOK env (schemeOf c.servers) c.clientConfig,
    serving := servingOK env c.secureServing,
    flowControl := c.schemas.all schemaOK,
    names := namesOK c.schemas,
    policyRefs := c.policies.all (policyRefsOK c.servers c.schemas) }

/-- the object does not belong to any class the property says must be rejected -/
def usable (env : Env) (c : Cluster) : Bool :=
  let k := classes env c
  k.endpoints && k.oneScheme && k.clientTLS && k.serving && k.flowControl && k.names && k.policyRefs

/-- client rate limits of `ValidateClientConfig` -/
def clientLimitsOK (c : ClientConfig) : Bool :=
  0 ≤ c.qps && 0 ≤ c.burst && 0 ≤ c.qpsDivisor && !(0 < c.qps && c.burst < c.qps)

/-- the feature-gate annotation, when present and non-empty, parses -/
def featureGateOK (env : Env) (c : Cluster) : Bool :=
  match c.annotations with
  | none => true
  | some m => mapGet m sFeatureGateKey = [] || (env.featureGateSet (mapGet m sFeatureGateKey)).isSome

/-- no other cluster (different lower-cased name) owns one of this cluster's names -/
def noConflict (env : Env) (known : List Known) (c : Cluster) : Bool :=
  known.all (fun u =>
    env.lower u.name = env.lower c.name ||
    (u.name :: u.serverNames).all (fun s =>
      env.lower (env.lower c.name) ≠ env.lower s &&
      c.secureServing.serverNames.all (fun sn => env.lower sn ≠ env.lower s)))

/-- enum-like fields and cardinalities -/
def formOK (c : Cluster) : Bool :=
  c.schemas.all (fun s => strategyOK s.strategy) &&
  logModeOK c.loggingMode &&
  c.policies ≠ [] &&
  c.policies.all (fun p => p.strategy = sRoundRobin && p.nRules ≠ 0 && logModeOK p.logMode)

/-- everything the admission plugin requires -/
def valid (env : Env) (known : List Known) (c : Cluster) : Bool :=
  c.metaErrs = [] && usable env c && clientLimitsOK c.clientConfig && formOK c &&
  featureGateOK env c && noConflict env known c

/-- assumptions on the external parsers under which the consumers agree with the validation:
    `url.Parse` reports the scheme the prefix test saw, and client-go accepts as `Host` every URL that parses with
    a scheme and a host (`rest.DefaultServerURL`, first branch); `strings.ToLower` is idempotent. The harness
    checks the first two on every endpoint it generates. -/
structure EnvOK (env : Env) : Prop where
  scheme_agrees : ∀ s u, env.urlParse s = some u → getURLScheme s ≠ [] → u.scheme = getURLScheme s
  rest_host : ∀ s u, env.urlParse s = some u → u.scheme ≠ [] → u.host ≠ [] → env.restHostOK s = true
  lower_idem : ∀ s, env.lower (env.lower s) = env.lower s

/-- `int32` -/
def isInt32 (x : Int) : Bool := -2147483648 ≤ x && x ≤ 2147483647

/-- the numbers of the schema are `int32` values (a typing fact of the Go object; the model's `Int` is unbounded) -/
def wellTyped (s : Schema) : Bool :=
  (match s.maxRequestsInflight with
    | some m => isInt32 m
    | none => true) &&
  (match s.tokenBucket with
    | some t => isInt32 t.qps && isInt32 t.burst
    | none => true) &&
  (match s.globalMaxRequestsInflight with
    | some m => isInt32 m
    | none => true) &&
  (match s.globalTokenBucket with
    | some t => isInt32 t.qps && isInt32 t.burst
    | none => true)

/-- the limiter sizes an accepted schema asks for -/
def expectedLocal (s : Schema) : Option FlowCtl :=
  match shapeOf s with
  | some .exempt => some ⟨.exempt, 0, 0⟩
  | some (.maxInflight m) => some ⟨.maxRequestsInflight, m.toNat, 0⟩
  | some (.maxInflightGlobal m _) => some ⟨.maxRequestsInflight, m.toNat, 0⟩
  | some (.tokenBucket t) => some ⟨.tokenBucket, t.qps.toNat, t.burst.toNat⟩
  | some (.tokenBucketGlobal t _) => some ⟨.tokenBucket, t.qps.toNat, t.burst.toNat⟩
  | none => none

def expectedGlobal (s : Schema) : Option GlobalFC :=
  match shapeOf s with
  | some (.maxInflightGlobal _ g) => some ⟨.maxRequestsInflight, g, 0⟩
  | some (.tokenBucketGlobal _ g) => some ⟨.tokenBucket, g.qps, g.burst⟩
  | _ => none

/-- the gateway's flow-control cache entry a freshly applied accepted schema must produce: limiter of the
    configured type and size, the schema as local configuration, no remote limiter yet -/
def entryOf (s : Schema) : Str × FlowControlCache := (s.name, ⟨expectedLocal s, s, none⟩)

/-- the limiter server's entry for a schema with a global member -/
def hasGlobal (s : Schema) : Bool := s.globalTokenBucket.isSome || s.globalMaxRequestsInflight.isSome

/-- the limiter server's global limiters an accepted object asks for: one per schema with a global member, of the
    configured kind and numbers -/
def globalEntries (schemas : List Schema) : List (Str × GlobalFC) :=
  schemas.filterMap (fun s => (expectedGlobal s).map (fun g => (s.name, g)))

end KG.Spec.Validate
