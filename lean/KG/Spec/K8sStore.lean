import KG.Model.K8sStore
/-!
# C19 — the durability judge

The property as a decidable predicate on what an observer sees: the operations issued, what each one
answered, and the API at a crash point.

`Ghost` is the set of claims the property makes at a point of a history:
* `held n d why`: condition `n` is persisted with spec and status `d` — claimed after a write-through `Save`
  was acknowledged (`why = ack`), and for every local condition of the shard after a `Stop`/`Flush` returned
  nil (`why = flushed`);
* `gone n`: condition `n` is not in the API — claimed after `Delete` (or `DeleteUpstream`, for each of its
  items) returned nil, until somebody saves `n` again.
An operation that is running suspends the claims about the names it is writing (`ghostPre`); what it
answers decides what is claimed afterwards (`ghostPost`). An operation that answers an error claims nothing.

`judge g api` says that `api` (the API at ANY crash point while `g` is in force) honours every claim.
`KG.Props.C19.c19_durable` proves it for every history, fault script and crash point of the model; the harness
evaluates the same `judge` on the real store's answers and the real object tracker.
-/
namespace KG.Spec.K8sStore
open KG KG.Model.K8sStore

inductive Why | ack | flushed
deriving DecidableEq, Repr

structure Ghost where
  held : List (Str × Data × Why)
  gone : List Str
deriving Repr

def Ghost.empty : Ghost := ⟨[], []⟩

/-- nothing is claimed about `n` any more -/
def Ghost.forget (g : Ghost) (n : Str) : Ghost :=
  { held := g.held.filter (fun h => ¬ h.1 = n), gone := g.gone.filter (fun m => ¬ m = n) }

/-- the claim "persisted" is dropped, a claim "absent" stays -/
def Ghost.unhold (g : Ghost) (n : Str) : Ghost :=
  { g with held := g.held.filter (fun h => ¬ h.1 = n) }

def Ghost.hold (g : Ghost) (n : Str) (d : Data) (why : Why) : Ghost :=
  { held := (n, d, why) :: g.held.filter (fun h => ¬ h.1 = n), gone := g.gone.filter (fun m => ¬ m = n) }

def Ghost.absent (g : Ghost) (n : Str) : Ghost :=
  { held := g.held.filter (fun h => ¬ h.1 = n), gone := n :: g.gone.filter (fun m => ¬ m = n) }

def holdsData (api : Api) (n : Str) (d : Data) : Bool :=
  match api.get n with
  | some c => c.data = d
  | none => false

def judgeHeld (g : Ghost) (api : Api) : Bool := g.held.all (fun h => holdsData api h.1 h.2.1)
def judgeGone (g : Ghost) (api : Api) : Bool := g.gone.all (fun n => (api.get n).isNone)
def judge (g : Ghost) (api : Api) : Bool := judgeHeld g api && judgeGone g api

/-- the first claim that `api` breaks, for the report: (name, 0 = acknowledged save lost, 1 = flushed condition
    lost, 2 = deleted condition present) -/
def firstBroken (g : Ghost) (api : Api) : Option (Str × Nat) :=
  match g.held.find? (fun h => ! holdsData api h.1 h.2.1) with
  | some h => some (h.1, if h.2.2 = Why.ack then 0 else 1)
  | none =>
    match g.gone.find? (fun n => (api.get n).isSome) with
    | some n => some (n, 2)
    | none => none

def holdFlushed (l : Loc) (g : Ghost) : Ghost := l.foldl (fun g e => g.hold e.2.name e.2.data .flushed) g

section
variable (sh : Str → Nat)

/-- the local conditions a flush of `st` writes -/
def ownEntries (st : Store) : Loc := st.loc.filter (fun e => sh e.2.upstream = st.cfg.shard)

/-- Claims suspended while `op` runs on `st`. -/
def ghostPre (st : Store) (op : Op) (g : Ghost) : Ghost :=
  match op with
  | .save _ c => if sh c.upstream ≠ st.cfg.shard then g else g.forget c.name
  | .saveStored k n sp stt lb =>
    -- the cached condition changes in place before anything is written: nothing is claimed about it meanwhile
    match edited st k n sp stt lb with
    | none => g
    | some (_, c') => if sh c'.upstream ≠ st.cfg.shard then g.forget n else (g.forget n).forget c'.name
  | .delete _ n => g.unhold n
  | .deleteUpstream k _ => (llistUp k st.loc).foldl (fun g e => g.unhold e.2.name) g
  | _ => g

/-- Claims in force after `op`, started on `st` under the claims `g` (= `ghostPre … `), answered `res`. -/
def ghostPost (st : Store) (op : Op) (res : Res) (g : Ghost) : Ghost :=
  match op, res with
  | .save _ c, .ok => if st.cfg.writeThrough then g.hold c.name c.data .ack else g
  | .saveStored k n sp stt lb, .ok =>
    -- what is acknowledged is the content at the time of the acknowledgement: the stored condition as edited
    match edited st k n sp stt lb with
    | none => g
    | some (_, c') => if st.cfg.writeThrough then g.hold c'.name c'.data .ack else g
  | .delete _ n, .ok => g.absent n
  | .deleteUpstream k _, .ok => (llistUp k st.loc).foldl (fun g e => g.absent e.2.name) g
  | .flush _, .ok => holdFlushed (ownEntries sh st) g
  | .stop _, .ok => if st.stopped then g else holdFlushed (ownEntries sh st) g
  | _, _ => g

/-! ## Observations and the judge over a whole history -/

/-- What an observer sees of one operation: the store when it starts, the crash points (the API after every
    call, oldest first) before / inside / after the window in which another goroutine's call ran (`seg1` is all
    of them for a plain operation), the answers, and the API when it returned. -/
structure Obs where
  st : Store
  op : OpI
  seg1 : List Pt
  ran : Bool
  seg2 : List Pt
  ires : Res
  seg3 : List Pt
  res : Res
  fin : Api

/-- the claims in force at each crash point (an object somebody else removed is no longer claimed persisted),
    and the claims after the last one -/
def annotate (g : Ghost) : List Pt → List (Ghost × Api) × Ghost
  | [] => ([], g)
  | p :: ps =>
    let g' := match p.voided with
      | some n => g.unhold n
      | none => g
    let r := annotate g' ps
    ((g', p.api) :: r.1, r.2)

/-- names another goroutine wrote while a flush was running -/
def raced : Op → List Str
  | .save _ c => [c.name]
  | .saveStored _ n _ _ _ => [n]
  | _ => []

/-- Every (claims, API) pair the history must honour during and after one observed operation, and the claims in
    force afterwards. A call that ran inside the window of a flush claims what it claims anywhere else (a
    write-through `Save` acknowledged while a flush is running is claimed persisted from then on); the flush
    itself, when it answers nil, claims its snapshot except the conditions saved again inside its window. -/
def checkObs (g : Ghost) (o : Obs) : List (Ghost × Api) × Ghost :=
  match o.op with
  | .plain op =>
    let a1 := annotate (ghostPre sh o.st op g) o.seg1
    let g2 := ghostPost sh o.st op o.res a1.2
    (a1.1 ++ [(g2, o.fin)], g2)
  | .flushI _ _ intr | .stopI _ _ intr =>
    let skip := match o.op with
      | .stopI _ _ _ => o.st.stopped
      | _ => false
    if skip then ([(g, o.fin)], g)
    else
      let a1 := annotate g o.seg1
      if o.ran then
        let a2 := annotate (ghostPre sh o.st intr a1.2) o.seg2
        let gc := ghostPost sh o.st intr o.ires a2.2
        let a3 := annotate gc o.seg3
        let own := match intr with
          | .save _ _ | .saveStored _ _ _ _ _ => (ownEntries sh o.st).filter (fun e => ! (raced intr).contains e.2.name)
          | _ => []     -- e.g. a `Load` inside the window replaces pending cached conditions: the flush claims nothing
        let ge := if o.res = .ok then holdFlushed own a3.2 else a3.2
        (a1.1 ++ a2.1 ++ a3.1 ++ [(ge, o.fin)], ge)
      else
        let ge := if o.res = .ok then holdFlushed (ownEntries sh o.st) a1.2 else a1.2
        (a1.1 ++ [(ge, o.fin)], ge)

/-- the crash points added between two worlds, oldest first -/
def newPts (w w' : World) : List Pt := (w'.trace.take (w'.trace.length - w.trace.length)).reverse

/-- what an observer sees of the model running `op` -/
def observe (st : Store) (op : OpI) (w : World) : Obs × Store × World :=
  match stepI sh st op w with
  | (st', w', res, none) =>
    ({ st := st, op := op, seg1 := newPts w w', ran := false, seg2 := [], ires := .ok, seg3 := [], res := res, fin := w'.api }, st', w')
  | (st', w', res, some (ires, w1, w2)) =>
    ({ st := st, op := op, seg1 := newPts w w1, ran := true, seg2 := newPts w1 w2, ires := ires, seg3 := newPts w2 w',
       res := res, fin := w'.api }, st', w')

/-- the model after a whole history (its `trace` holds every crash point, newest first) -/
def runAll : Store → World → List OpI → Store × World
  | st, w, [] => (st, w)
  | st, w, op :: ops =>
    match stepI sh st op w with
    | (st', w', _, _) => runAll st' w' ops

/-- every (claims, API) pair of a whole history of the model -/
def checkAll : Store → Ghost → World → List OpI → List (Ghost × Api)
  | _, _, _, [] => []
  | st, g, w, op :: ops =>
    match observe sh st op w with
    | (o, st', w') =>
      let r := checkObs sh g o
      r.1 ++ checkAll st' r.2 w' ops

/-! ## Which histories the store mutex allows -/

/-- every method that writes to the API excludes a running flush (regenerated facts: `KG.Model.K8sStore.genLocks`) -/
def GoodLocks (L : Locks) : Prop := L.flush = true ∧ L.delete = true ∧ L.deleteUpstream = true ∧ L.save = true

/-- calls the histories do not place inside a running flush although no lock keeps them out -/
def isLoad : Op → Bool
  | .load => true
  | .saveStored _ _ _ _ _ => true
  | _ => false

/-- A call that can land inside a running flush of a store in mode `wt`: one that does not wait for the store
    mutex. `Load` takes no lock but is not issued concurrently with anything: the limiter calls it once, right
    after it has built the store (assumption; a `Load` inside a flush replaces pending cached conditions).
    `saveStored` inside a flush is not modelled: its in-place change of a cached object is seen by the flush, whose
    snapshot shares the pointers (a data race of the caller; the flush then persists the changed content before
    the `Save` is acknowledged) — snapshots are values here. -/
def allowedIntr (L : Locks) (wt : Bool) (intr : Op) : Bool := mayRunInside L wt intr && ! isLoad intr

/-- the histories the locks allow, from a store in mode `wt` (a `restart` sets the mode of the new store) -/
def allowedHist (L : Locks) : Bool → List OpI → Bool
  | _, [] => true
  | _, .plain (.restart _ wt') :: r => allowedHist L wt' r
  | wt, .plain _ :: r => allowedHist L wt r
  | wt, .flushI _ _ i :: r => allowedIntr L wt i && allowedHist L wt r
  | wt, .stopI _ _ i :: r => allowedIntr L wt i && allowedHist L wt r

/-- "A server that gains a shard loads exactly the persisted conditions of that shard": what a fresh store for
    `shard` must hold after `Load()` answered nil on `api`. -/
def persistedOf (shard : Nat) (api : Api) : List Cond := api.objs.filter (fun c => sh c.upstream = shard)

end
end KG.Spec.K8sStore
