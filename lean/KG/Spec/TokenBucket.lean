import KG.Model.TokenBucket
/-!
# C06 — what the property says, as decidable judges on an observed trace

An *event* is `(clock reading, admitted?)` of one `TryAcquire`, in the order of the critical sections.
The same judges are evaluated on the model's answers (theorems in `KG.Props.C06`: always `true`) and on the
answers of the real code (harness).
-/
namespace KG.Spec.TokenBucket
open KG.Model.TokenBucket

abbrev Event := Rat × Bool

/-- admitted events with clock reading in `[t0, t1]` -/
def countIn (t0 t1 : Rat) : List Event → Nat
  | [] => 0
  | e :: r => (if e.2 = true ∧ t0 ≤ e.1 ∧ e.1 ≤ t1 then 1 else 0) + countIn t0 t1 r

/-- `burst + qps·T` for a window of `T` nanoseconds -/
def capacity (p : Params) (T : Rat) : Rat := (p.burst : Rat) + p.limit * T / 1000000000

/-- what one nanosecond refills: the library admits while the deficit is below one nanosecond's worth of tokens -/
def nsWorth (p : Params) : Rat := p.limit / 1000000000

/-- the integer bound used at run time: `⌈burst + qps·T⌉` (+ `⌊qps/1e9⌋`, which is 0 below a billion per second) -/
def boundInt (p : Params) (T : Rat) : Int := (capacity p T).ceil + (nsWorth p).floor

/-- upper bound on every window that starts and ends at an admitted call (the tightest windows) -/
def upperOK (p : Params) (ev : List Event) : Bool :=
  ev.all fun a => !a.2 || ev.all fun b =>
    !b.2 || !(decide (a.1 ≤ b.1)) || decide ((countIn a.1 b.1 ev : Int) ≤ boundInt p (b.1 - a.1))

/-- refusals among the first `k` events (fewer events: among those that exist) -/
def refusedAmong : Nat → List Event → Nat
  | 0, _ => 0
  | _, [] => 0
  | k + 1, e :: r => (if e.2 then 0 else 1) + refusedAmong k r

/-- `min(burst, ⌊qps·d⌋)` for an idle time of `d` nanoseconds -/
def owed (p : Params) (d : Rat) : Nat := (min p.burst (p.limit * d / 1000000000).floor).toNat

/-- never stricter than configured: whenever the bucket was idle for `d` (since `prev`, the previous call or
    the creation of the bucket), the next `min(burst, ⌊qps·d⌋)` calls are admitted — all but at most `slack`
    of them. The theorems are for `slack = 0`; the float implementation is judged with `slack = 1`
    (float rounding can under-fill the bucket by one nanosecond's worth of tokens, see notes/C06.md). -/
def lowerOK (p : Params) (slack : Nat) : Rat → List Event → Bool
  | _, [] => true
  | prev, e :: r => decide (refusedAmong (owed p (e.1 - prev)) (e :: r) ≤ slack) && lowerOK p slack e.1 r

/-! ### which limiter is in force -/

/-- what an observer sees of the limiter serving a schema name: `Type()` and, by type, `MaxInflight()` or
    `QPS()`/`Burst()` -/
inductive Seen where
  | none | exempt | mi (max : Nat) | tb (qps burst : Nat)
deriving DecidableEq, Repr

def see {β : Type} (O : BOps β) : Option (Limiter β) → Seen
  | Option.none => .none
  | some .exempt => .exempt
  | some (.mi m) => .mi m
  | some (.tb b) => .tb (O.qps b) (O.burst b)

/-- **the clause**: a schema is served by a limiter of its own type carrying its configured LOCAL parameters
    (a token-bucket schema: a token bucket with exactly `tokenBucket.qps`, `tokenBucket.burst` — not the global ones) -/
def inForceOK (s : Schema) (o : Seen) : Bool :=
  match guessType s with
  | .exempt => o == .exempt
  | .maxInflight => match s.mi with
    | some m => o == .mi m
    | Option.none => false
  | .tokenBucket => match s.tb with
    | some qb => o == .tb qb.1 qb.2
    | Option.none => false

/-- what admission validation accepts: exactly one local member; a `global*` member only next to its local one -/
def schemaLegal (s : Schema) : Bool :=
  ((if s.exempt then 1 else 0) + (if s.mi.isSome then 1 else 0) + (if s.tb.isSome then 1 else 0) == 1) &&
  (s.gmi.isNone || s.mi.isSome) && (s.gtb.isNone || s.tb.isSome)

/-- distinct names, legal schemas -/
def specLegal : Spec → Bool
  | [] => true
  | (n, s) :: r => (r.lookup n).isNone && schemaLegal s && specLegal r

def opsLegal : List ULOp → Bool
  | [] => true
  | .sync sp :: r => specLegal sp && opsLegal r
  | .acquire _ _ :: r => opsLegal r

/-- the spec in force after a history (`cur` before it) -/
def lastSpec : Spec → List ULOp → Spec
  | cur, [] => cur
  | _, .sync sp :: r => lastSpec sp r
  | cur, .acquire _ _ :: r => lastSpec cur r

/-- every schema of the spec in force is served as configured -/
def allInForce {β : Type} (O : BOps β) (u : UL β) : Bool :=
  u.current.all fun x => inForceOK x.2 (see O (u.load x.1))

/-- finished calls (small-step system) that were admitted and lie inside `[t0, t1]`: invoked at or after `t0`,
    returned at or before `t1` -/
def admittedWithin (t0 t1 : Rat) : List Done → Nat
  | [] => 0
  | d :: r => (if d.ok = true ∧ t0 ≤ d.start ∧ d.fin ≤ t1 then 1 else 0) + admittedWithin t0 t1 r

/-- non-decreasing -/
def sorted : List Rat → Bool
  | [] => true
  | [_] => true
  | a :: b :: r => decide (a ≤ b) && sorted (b :: r)

/-! ### judge of a whole history of a `resizeableTokenBucket` (acquires and resizes) -/

/-- an observed operation: an acquire with its clock reading and answer, or a resize with its answer -/
inductive Obs where
  | acquire (now : Rat) (ok : Bool)
  | resize (qps burst : Nat) (resized : Bool)
deriving Repr

structure Verdict where
  upper : Bool := true
  lower : Bool := true
  resize : Bool := true
deriving Repr

/-- Walk the history: a `Resize` must answer `true` exactly when `(qps, burst)` changes; each stretch between
    two effective resizes is judged as one bucket that starts full (`prev = 0`: the zero time). -/
def judgeGo (slack : Nat) (qps burst : Nat) (seg : List Event) (v : Verdict) : List Obs → Verdict
  | [] =>
    let p := paramsOf qps burst
    let ev := seg.reverse
    { v with upper := v.upper && upperOK p ev, lower := v.lower && lowerOK p slack 0 ev }
  | .acquire now ok :: r => judgeGo slack qps burst ((now, ok) :: seg) v r
  | .resize q b resized :: r =>
    let changed := decide (q ≠ qps ∨ b ≠ burst)
    let v := { v with resize := v.resize && (resized == changed) }
    if resized then
      let p := paramsOf qps burst
      let ev := seg.reverse
      judgeGo slack q b [] { v with upper := v.upper && upperOK p ev, lower := v.lower && lowerOK p slack 0 ev } r
    else judgeGo slack qps burst seg v r


/-- what an observer records of a history: every acquire with its clock reading and answer, every `Resize`
    with its answer -/
def observe (A : Arith) : Bucket → List Op → List Obs
  | _, [] => []
  | b, .acquire now :: r => .acquire now (b.tryAcquire A now).1 :: observe A (b.tryAcquire A now).2 r
  | b, .resize q bu :: r => .resize q bu (b.resize q bu).1 :: observe A (b.resize q bu).2 r

/-- the clock readings of a history -/
def opTimes : List Op → List Rat
  | [] => []
  | .acquire now :: r => now :: opTimes r
  | .resize _ _ :: r => opTimes r

/-- every reconfiguration stays within `uint32` -/
def opsFit : List Op → Prop
  | [] => True
  | .acquire _ :: r => opsFit r
  | .resize _ bu :: r => bu < 4294967296 ∧ opsFit r

def allTrue : Verdict := { upper := true, lower := true, resize := true }

end KG.Spec.TokenBucket
