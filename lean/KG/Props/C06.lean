import KG.Lemmas.TokenBucket
/-!
# C06 — Local token bucket: admissions ≤ burst + qps·T, never stricter than set

Statement (properties.jsonl): for a token-bucket schema `(qps, burst)`, in any time interval of length `T` during
which the schema is not reconfigured, at most `burst + qps·T` requests are admitted under it, whatever the
arrival pattern and concurrency; it is never stricter than configured: after it has been idle for `t` seconds at
least `min(burst, ⌊qps·t⌋)` requests are admitted immediately.

The model (`KG.Model.TokenBucket`) is the code path `resizeableTokenBucket.TryAcquire/Resize` →
client-go `TryAccept` → x/time/rate `reserveN/advance`, over exact rationals, in two arithmetics: `Arith.ns`
(with the library's truncation of durations to whole nanoseconds and `Time.Sub`'s saturation) and `Arith.ideal`.
Time is in nanoseconds, `K p = qps/10^9` is what one nanosecond refills.

* `c06_upper_window` / `c06_upper_ns` / `c06_upper_ideal` — every call sequence with non-decreasing clock
  readings, every window `[t0, t1]`: `#admitted ≤ burst + qps·(t1−t0)` (`+ qps·1ns` with truncation).
* `c06_upper_judge` — the run-time judge `upperOK` (`⌈burst + qps·T⌉`) holds on every such trace.
* `c06_concurrent` — **all interleavings** of any number of callers with the clock (small-step system with the
  mutex of `resizeableTokenBucket`): the same bound for the calls that lie inside the window.
* `c06_unserialised_overadmits` — without the mutex the bound fails (the 4-call schedule of
  findings/C06-stale-clock-overadmit): the hypothesis "clock readings reach the bucket in order" is necessary.
* `c06_lower`, `c06_lower_judge`, `c06_fresh_full` — never stricter than configured.
* `c06_in_force`, `c06_in_force_token_bucket` — after every history of legal `Sync`s (type changes in any direction,
  delete / re-add, global members, any strategy) every schema is served by a limiter of its type with its configured
  LOCAL parameters.
* `c06_resize_same`, `c06_resize_changed` — `Resize` is the identity for unchanged parameters, a fresh (full)
  bucket otherwise; `c06_history` — whole histories of acquires and resizes satisfy the judge the harness applies
  to the real code.
-/
namespace KG.Props.C06
open KG.Model.TokenBucket KG.Spec.TokenBucket KG.Lemmas.TokenBucket

/-! ## upper bound, sequential form -/

/-- **Upper bound, every window, every arrival pattern** (any arithmetic satisfying `ArithOK`):
    from any limiter state satisfying the invariant, for calls whose clock readings are non-decreasing,
    the number admitted with reading in `[t0, t1]` is at most `burst + qps·(t1−t0) + q·(qps/10^9)`. -/
theorem c06_upper_window {A : Arith} {q D : Rat} (hA : ArithOK A q D) {p : Params} (hV : Valid p q D)
    (s : State) (hI : Inv A p s) (nows : List Rat) (hs : sortedFrom s.last nows)
    (t0 t1 : Rat) (h01 : t0 ≤ t1) :
    (countIn t0 t1 (trace A p s nows) : Rat) ≤ (p.burst : Rat) + (t1 - t0) * K p + q * K p :=
  upper_window hA hV s hI nows hs t0 t1 h01

/-- the library's arithmetic: at most one extra nanosecond of refill -/
theorem c06_upper_ns {p : Params} (hV : Valid p 1 (maxDuration : Rat))
    (nows : List Rat) (hs : sortedFrom 0 nows) (t0 t1 : Rat) (h01 : t0 ≤ t1) :
    (countIn t0 t1 (trace Arith.ns p State.init nows) : Rat) ≤ (p.burst : Rat) + (t1 - t0 + 1) * K p := by
  have := c06_upper_window ns_ok hV State.init (inv_init _ p hV.burst_nonneg) nows hs t0 t1 h01
  grind

/-- the ideal bucket: exactly the bound of the statement -/
theorem c06_upper_ideal {p : Params} {D : Rat} (hV : Valid p 0 D)
    (nows : List Rat) (hs : sortedFrom 0 nows) (t0 t1 : Rat) (h01 : t0 ≤ t1) :
    (countIn t0 t1 (trace Arith.ideal p State.init nows) : Rat) ≤ (p.burst : Rat) + (t1 - t0) * K p := by
  have := c06_upper_window (ideal_ok D) hV State.init (inv_init _ p hV.burst_nonneg) nows hs t0 t1 h01
  grind

/-- **the run-time judge holds on every trace** (`q ≤ 1`: both arithmetics): `⌈burst + qps·T⌉` on every window -/
theorem c06_upper_judge {A : Arith} {q D : Rat} (hA : ArithOK A q D) (hq : q ≤ 1) {p : Params} (hV : Valid p q D)
    (s : State) (hI : Inv A p s) (nows : List Rat) (hs : sortedFrom s.last nows) :
    upperOK p (trace A p s nows) = true :=
  upperOK_trace hA hq hV s hI nows hs

/-! ## all interleavings -/

/-- **Whatever the arrival pattern and concurrency.** Any number of callers, the clock and the mutex of
    `resizeableTokenBucket` as a small-step system (`Sys.step`: time passes, a caller invokes `TryAcquire`, gets
    the mutex, reads the clock, updates the bucket, unlocks and returns — each a separate step, arbitrarily
    interleaved). For **every** execution and every window `[t0, t1]`, the admitted calls that lie inside the
    window (invoked at or after `t0`, returned by `t1`) number at most `burst + qps·(t1−t0) (+ q ns' worth)`. -/
theorem c06_concurrent {A : Arith} {q D : Rat} (hA : ArithOK A q D) {p : Params} (hV : Valid p q D)
    (s0 : State) (hI0 : Inv A p s0) (clock0 : Rat) (h0 : s0.last ≤ clock0)
    (steps : List Step) (c : Sys) (hex : Sys.exec A p (Sys.init s0 clock0) steps = some c)
    (t0 t1 : Rat) (h01 : t0 ≤ t1) :
    (admittedWithin t0 t1 c.log : Rat) ≤ (p.burst : Rat) + (t1 - t0) * K p + q * K p := by
  obtain ⟨nows, hI⟩ := exec_inv steps (sysInv_init A p s0 clock0 h0) hex
  have h1 := admittedWithin_le_trace hI t0 t1
  have h2 := c06_upper_window hA hV s0 hI0 nows hI.sorted t0 t1 h01
  have h3 : (admittedWithin t0 t1 c.log : Rat) ≤ (countIn t0 t1 (trace A p s0 nows) : Rat) := by exact_mod_cast h1
  exact Rat.le_trans h3 h2

/-- The same from any configuration in which nobody holds the mutex — in particular right after a `Resize`
    (which holds the mutex for its whole duration, so it is one atomic step between critical sections): callers
    that invoked `TryAcquire` earlier may already be waiting. With `c06_resize_changed` (the new limiter is
    `State.init`, which satisfies the invariant) this covers every reconfiguration-free stretch of a concurrent
    run; `c06_resize_same` says an unchanged `Resize` does not end a stretch. -/
theorem c06_concurrent_from {A : Arith} {q D : Rat} (hA : ArithOK A q D) {p : Params} (hV : Valid p q D)
    (c0 : Sys) (hI0 : Inv A p c0.lim) (hc : c0.crit = none) (hl : c0.log = []) (h0 : c0.lim.last ≤ c0.clock)
    (hp : ∀ x ∈ c0.pending, x.2 ≤ c0.clock)
    (steps : List Step) (c : Sys) (hex : Sys.exec A p c0 steps = some c)
    (t0 t1 : Rat) (h01 : t0 ≤ t1) :
    (admittedWithin t0 t1 c.log : Rat) ≤ (p.burst : Rat) + (t1 - t0) * K p + q * K p := by
  obtain ⟨nows, hI⟩ := exec_inv steps (sysInv_start A p c0 hc hl h0 hp) hex
  have h1 := admittedWithin_le_trace hI t0 t1
  have h2 := c06_upper_window hA hV c0.lim hI0 nows hI.sorted t0 t1 h01
  have h3 : (admittedWithin t0 t1 c.log : Rat) ≤ (countIn t0 t1 (trace A p c0.lim nows) : Rat) := by exact_mod_cast h1
  exact Rat.le_trans h3 h2

/-- the same as the integer bound the harness applies to the real code: `⌈burst + qps·T⌉` -/
theorem c06_concurrent_judge {A : Arith} {q D : Rat} (hA : ArithOK A q D) (hq : q ≤ 1) {p : Params}
    (hV : Valid p q D) (s0 : State) (hI0 : Inv A p s0) (clock0 : Rat) (h0 : s0.last ≤ clock0)
    (steps : List Step) (c : Sys) (hex : Sys.exec A p (Sys.init s0 clock0) steps = some c)
    (t0 t1 : Rat) (h01 : t0 ≤ t1) :
    (admittedWithin t0 t1 c.log : Int) ≤ boundInt p (t1 - t0) := by
  apply le_boundInt
  have h1 := c06_concurrent hA hV s0 hI0 clock0 h0 steps c hex t0 t1 h01
  have h3 : q * K p ≤ 1 * K p := mul_le_mul_K hV.limit_pos hq
  rw [capacity_eq]
  grind

/-- The mutex is needed. If clock readings reach the bucket out of order — a caller overtaken between
    `clock.Now()` and the bucket update, which is what happened before `TryAcquire` was serialised — the bound
    fails: `qps = 1, burst = 1`, readings `T0, T0+1s, T0 (stale), T0+1s` admit 3 within one second (bound 2). -/
theorem c06_unserialised_overadmits :
    let p := paramsOf 1 1
    let T0 : Rat := 63900000000000000000
    let ev := trace Arith.ns p State.init [T0, T0 + 1000000000, T0, T0 + 1000000000]
    ev.map (·.2) = [true, true, false, true] ∧
    (countIn T0 (T0 + 1000000000) ev : Int) = 3 ∧ boundInt p 1000000000 = 2 := by
  decide +kernel

/-! ## lower bound -/

/-- **Never stricter than configured**: from any state satisfying the invariant, after `now - s.last` without a
    call, the next `k` calls are admitted whenever `k ≤ burst` and `k ≤ qps·idle` — whatever their (later)
    timestamps. Holds exactly, also with the nanosecond truncation. -/
theorem c06_lower {A : Arith} {q D : Rat} (hA : ArithOK A q D) {p : Params} (hV : Valid p q D)
    (s : State) (hI : Inv A p s) (now : Rat) (rest : List Rat) (h : s.last ≤ now)
    (k : Nat) (hkB : (k : Rat) ≤ (p.burst : Rat)) (hkT : (k : Rat) ≤ (now - s.last) * K p) :
    refusedAmong k (trace A p s (now :: rest)) = 0 :=
  lower_idle hA hV s hI now rest h k hkB hkT

/-- the run-time judge `lowerOK` (with no slack) holds on every trace with non-decreasing clock readings:
    after every gap, `min(burst, ⌊qps·gap⌋)` calls are admitted -/
theorem c06_lower_judge {A : Arith} {q D : Rat} (hA : ArithOK A q D) {p : Params} (hV : Valid p q D)
    (nows : List Rat) (s : State) (prev : Rat) (hI : Inv A p s) (hp : s.last ≤ prev) (hs : sortedFrom prev nows) :
    lowerOK p 0 prev (trace A p s nows) = true :=
  lowerOK_trace hA hV nows s prev hI hp hs

/-- a new bucket (`rate.NewLimiter`: no tokens, the zero time) is full at any real date: its first `burst` calls
    are admitted as soon as the clock is `burst/qps` past the zero time -/
theorem c06_fresh_full {A : Arith} {q D : Rat} (hA : ArithOK A q D) {p : Params} (hV : Valid p q D)
    (now : Rat) (rest : List Rat) (hnow : (p.burst : Rat) ≤ now * K p) :
    refusedAmong p.burst.toNat (trace A p State.init (now :: rest)) = 0 := by
  have h0 : (0 : Rat) ≤ now := by
    have hb := burst_nonneg' hV.burst_nonneg
    have hK := K_pos hV.limit_pos
    by_cases h : 0 ≤ now
    · exact h
    · have : now * K p < 0 * K p := Rat.mul_lt_mul_of_pos_right (by grind) hK
      grind
  have hc : ((p.burst.toNat : Nat) : Rat) = (p.burst : Rat) := by
    have : ((p.burst.toNat : Nat) : Int) = p.burst := Int.toNat_of_nonneg hV.burst_nonneg
    rw [← Rat.intCast_natCast, this]
  apply c06_lower hA hV State.init (inv_init A p hV.burst_nonneg) now rest h0
  · rw [hc]; exact Rat.le_refl
  · rw [hc]; show (p.burst : Rat) ≤ (now - 0) * K p
    have : now - 0 = now := by grind
    rw [this]; exact hnow

/-! ## Resize -/

/-- unchanged parameters: `Resize` answers `false` and the bucket (its tokens, its clock) is untouched:
    no extra burst from re-applying the same schema -/
theorem c06_resize_same (b : Bucket) : b.resize b.qps b.burst = (false, b) := by
  simp [Bucket.resize]

/-- changed parameters: a fresh limiter (full at its first call, `c06_fresh_full`) with the new parameters -/
theorem c06_resize_changed (b : Bucket) (n burst : Nat) (h : b.qps ≠ n ∨ b.burst ≠ burst) :
    b.resize n burst = (true, Bucket.new n burst) := by
  simp [Bucket.resize, h]

/-- a bucket with `qps = 0` admits nothing (`if f.qps == 0 { return false }`) -/
theorem c06_qps_zero (A : Arith) (b : Bucket) (h : b.qps = 0) (now : Rat) : b.tryAcquire A now = (false, b) := by
  simp [Bucket.tryAcquire, h]

/-! ## the parameters the real code builds are valid -/

/-- `float32(n)` is exact up to 2^24 -/
theorem f32_exact (n : Nat) (h : n ≤ 16777216) : f32 n = n := by
  simp [f32, h]

/-- every `(qps, burst)` with `qps ≥ 1` that fits `uint32` (what `Resize` takes; schemas are `int32`) gives a valid
    limiter configuration: the saturation of `Time.Sub` and the overflow of `time.Duration` are out of reach -/
theorem c06_params_valid (qps burst : Nat) (hq : 1 ≤ qps) (hb : burst < 4294967296) :
    Valid (paramsOf qps burst) 1 (maxDuration : Rat) :=
  params_valid qps burst hq hb

/-- **The statement, in the schema's own numbers** (`1 ≤ qps ≤ 2^24` so that `float32(qps)` is exact,
    `burst < 2^32`), for the library's arithmetic, a new bucket and any call list with non-decreasing clock
    readings: in every window of `T = t1 − t0` nanoseconds at most `burst + qps·(T + 1)/10^9` are admitted. -/
theorem c06_schema_upper (qps burst : Nat) (hq : 1 ≤ qps) (hq' : qps ≤ 16777216) (hb : burst < 4294967296)
    (nows : List Rat) (hs : sortedFrom 0 nows) (t0 t1 : Rat) (h01 : t0 ≤ t1) :
    (countIn t0 t1 (trace Arith.ns (paramsOf qps burst) State.init nows) : Rat)
      ≤ (burst : Rat) + (qps : Rat) * ((t1 - t0 + 1) / 1000000000) := by
  have h := c06_upper_ns (c06_params_valid qps burst hq hb) nows hs t0 t1 h01
  have hK : K (paramsOf qps burst) = (qps : Rat) / 1000000000 := by
    unfold K paramsOf; simp only [f32_exact qps hq']
  have hB : (((paramsOf qps burst).burst : Int) : Rat) = (burst : Rat) := by
    show ((((burst : Nat) : Int)) : Rat) = (burst : Rat)
    exact Rat.intCast_natCast burst
  rw [hK, hB] at h
  have : (t1 - t0 + 1) * ((qps : Rat) / 1000000000) = (qps : Rat) * ((t1 - t0 + 1) / 1000000000) := by
    rw [Rat.div_def, Rat.div_def]; grind
  rw [this] at h
  exact h

/-! ## whole histories of a `resizeableTokenBucket`: the judge the harness applies to the real code -/

/-- **C06 for whole histories, the library's arithmetic**: a bucket created with any `(qps, burst)` in `uint32`
    range, any sequence of `TryAcquire` (non-decreasing clock readings, any real date or not) and `Resize`:
    the judge finds nothing. Includes `qps = 0` (admits nothing). -/
theorem c06_history (qps burst : Nat) (hb : burst < 4294967296) (ops : List Op) (hf : opsFit ops)
    (hs : sortedFrom 0 (opTimes ops)) :
    judgeGo 0 qps burst [] allTrue (observe Arith.ns (Bucket.new qps burst) ops) = allTrue := by
  have hnew : SegInv Arith.ns (Bucket.new qps burst) [] 0 := by
    by_cases hz : qps = 0
    · left; exact ⟨hz, by intro e he; cases he⟩
    · right
      exact ⟨hz, [], rfl, rfl, trivial, by intro x hx; cases hx⟩
  exact judge_history ns_ok Rat.le_refl params_valid ops (Bucket.new qps burst) [] 0 hb hf Rat.le_refl hs hnew

/-! ## which limiter is in force after any history of reconfigurations -/

/-- **After every history** of `UpstreamLimiter.Sync`s with legal specs (distinct names; exactly one local member per
    schema, a `global*` member only next to its local one; any strategy) interleaved with requests — the same name
    changing type in any direction, being deleted and re-added, carrying a global bucket or not — no `Sync`
    dereferences nil, the last synced spec is in force, and **every schema of it is served by a limiter of its own
    type with its configured LOCAL parameters** (`allInForce`; the model of `NewFlowControl`, `localWrapper.Sync`,
    `syncLocalFlowControls`). -/
theorem c06_in_force (A : Arith) (ops : List ULOp) (hl : opsLegal ops = true) :
    ∃ u, UL.runOps A UL.init ops = some u ∧ u.current = lastSpec [] ops ∧ allInForce ratOps u = true := by
  obtain ⟨u, h1, h2, h3⟩ := ul_runOps_ok A ops UL.init hl (ulInv_init ratOps_ok)
  exact ⟨u, h1, h3, allInForce_of_inv ratOps_ok u h2⟩

/-- spelled out for a token-bucket schema: the limiter serving it is a token bucket with exactly
    `(tokenBucket.qps, tokenBucket.burst)` — whatever else the schema carries (`globalTokenBucket`, strategy) and
    whatever served that name before -/
theorem c06_in_force_token_bucket (A : Arith) (ops : List ULOp) (hl : opsLegal ops = true)
    (n : Nat) (s : Schema) (hm : (n, s) ∈ lastSpec [] ops) (q b : Nat) (htb : s.tb = some (q, b)) :
    ∃ u bk, UL.runOps A UL.init ops = some u ∧ u.load n = some (.tb bk) ∧ bk.qps = q ∧ bk.burst = b := by
  obtain ⟨u, h1, h2, h3⟩ := ul_runOps_ok A ops UL.init hl (ulInv_init ratOps_ok)
  have h3' : u.current = lastSpec [] ops := h3
  rw [← h3'] at hm
  have hlk := lookup_of_mem_legal u.current n s h2.legal hm
  obtain ⟨w, hw1, hw2⟩ := h2.cur n s hlk
  have hok := h2.all n w hw1 s hw2
  have hlegal : schemaLegal s = true := by
    have : ∀ (sp : Spec), specLegal sp = true → (n, s) ∈ sp → schemaLegal s = true := by
      intro sp
      induction sp with
      | nil => intro _ h; cases h
      | cons x r ih =>
        intro hl hm
        simp only [specLegal, Bool.and_eq_true] at hl
        rcases List.mem_cons.1 hm with h | h
        · rw [← h] at hl; exact hl.1.2
        · exact ih hl.2 h
    exact this u.current h2.legal hm
  have hload : u.load n = w.fc := by unfold UL.load; rw [hw1]; rfl
  rcases s with ⟨ex, mi, gmi, tb, gtb, st⟩
  simp only at htb
  subst htb
  cases ex <;> cases mi <;> cases gmi <;> cases gtb <;> simp [schemaLegal] at hlegal <;>
    (cases hfc : w.fc with
     | none => rw [hfc] at hok; simp [inForceOK, guessType, see] at hok
     | some l =>
       rw [hfc] at hok
       cases l with
       | exempt => simp [inForceOK, guessType, see] at hok
       | mi m => simp [inForceOK, guessType, see] at hok
       | tb bk =>
         simp [inForceOK, guessType, see, ratOps] at hok
         exact ⟨u, bk, h1, by rw [hload, hfc], hok.1, hok.2⟩)

/-- what the dispatcher gets for a policy that names a configured token-bucket schema is that schema's bucket with its
    local numbers — never the built-in exempt limiter, whatever the name is and whatever other names exist beside it -/
theorem c06_lookup_configured (A : Arith) (ops : List ULOp) (hl : opsLegal ops = true)
    (n : Nat) (s : Schema) (hm : (n, s) ∈ lastSpec [] ops) (q b : Nat) (htb : s.tb = some (q, b)) :
    ∃ u bk, UL.runOps A UL.init ops = some u ∧ u.getOrDefault (some n) = .tb bk ∧ bk.qps = q ∧ bk.burst = b := by
  obtain ⟨u, bk, h1, h2, h3, h4⟩ := c06_in_force_token_bucket A ops hl n s hm q b htb
  exact ⟨u, bk, h1, by simp [UL.getOrDefault, h2], h3, h4⟩

/-! ## every request is charged, whatever the server classified it as -/

/-- **The dispatcher charges every request shape**: what is forwarded and what is answered 429 is exactly what the
    schema's bucket answers to one `TryAcquire` per request, independent of verb, subresource, resource /
    non-resource, long-running or upgrade — so every bound above (`c06_history`, `c06_upper_*`, `c06_lower*`) holds
    for the forwarded requests of any mix of shapes. (A seeded change that skipped `TryAcquire` for long-running
    requests is what the end-to-end shape stream of the harness reports.) -/
theorem c06_every_shape_charged (A : Arith) :
    ∀ (reqs : List (ReqShape × Rat)) (b : Bucket),
      dispatchRun A b reqs = Bucket.runOps A b (reqs.map fun x => Op.acquire x.2)
  | [], _ => rfl
  | (r, now) :: rest, b => by
    simp only [dispatchRun, dispatch, List.map_cons, Bucket.runOps, Bucket.step]
    rw [c06_every_shape_charged A rest (b.tryAcquire A now).2]

/-! ## non-vacuity: the hypotheses are satisfiable by a concrete, non-trivial bucket -/

/-- `qps = 3`, `burst = 10` -/
def p310 : Params := paramsOf 3 10

example : Valid p310 1 (maxDuration : Rat) :=
  ⟨by decide +kernel, by decide +kernel, by decide +kernel⟩

example : Inv Arith.ns p310 State.init := inv_init _ _ (by decide +kernel)

/-- 12 calls at one instant in 2025, then one 333333333 ns later: 10 admitted, 1 refused, the 12th refused,
    the 13th admitted by the nanosecond truncation (the ideal bucket refuses it) -/
example : (run Arith.ns p310 State.init
    [63900000000000000000, 63900000000000000000, 63900000000000000000, 63900000000000000000,
     63900000000000000000, 63900000000000000000, 63900000000000000000, 63900000000000000000,
     63900000000000000000, 63900000000000000000, 63900000000000000000, 63900000000000000000,
     63900000000333333333]).1
    = [true, true, true, true, true, true, true, true, true, true, false, false, true] := by decide +kernel

example : (run Arith.ideal p310 State.init
    [63900000000000000000, 63900000000000000000, 63900000000000000000, 63900000000000000000,
     63900000000000000000, 63900000000000000000, 63900000000000000000, 63900000000000000000,
     63900000000000000000, 63900000000000000000, 63900000000000000000, 63900000000000000000,
     63900000000333333333]).1
    = [true, true, true, true, true, true, true, true, true, true, false, false, false] := by decide +kernel

/-- two callers interleaved with the clock: caller 0 reads the clock, time passes while it holds the mutex,
    caller 1 waits; both are admitted (burst 10) and logged with invocation, clock reading and return time -/
example : (Sys.exec Arith.ns p310 (Sys.init State.init 63900000000000000000)
      [.call 0, .call 1, .lock 0, .now, .tick 5, .reserve, .tick 2, .ret, .lock 1, .now, .reserve, .ret]).map
        (fun c => c.log.map fun d => (d.start, d.now, d.fin, d.ok))
    = some [(63900000000000000000, 63900000000000000007, 63900000000000000007, true),
            (63900000000000000000, 63900000000000000000, 63900000000000000007, true)] := by decide +kernel

/-- the mutex excludes: caller 1 cannot take it while caller 0 holds it -/
example : Sys.exec Arith.ns p310 (Sys.init State.init 0) [.call 0, .call 1, .lock 0, .lock 1] = none := by
  decide +kernel

/-- a legal history with a type change, a global bucket and a request -/
example : opsLegal
    [.sync [(1, { exempt := false, mi := some 5, gmi := none, tb := none, gtb := none, strategy := 0 })],
     .sync [(1, { exempt := false, mi := none, gmi := none, tb := some (5, 10), gtb := some (1000, 2000), strategy := 2 })],
     .acquire 1 63900000000000000000] = true := by decide

end KG.Props.C06
