import KG.Lemmas.Match
/-!
# C01 — Routing: first matching dispatch policy, with the documented rule semantics

Every theorem is about `KG.Model.Match` (the mirror of evaluation_helpers.go / matcher.go) and the
declarative `KG.Spec.Match`; they quantify over all byte strings, all lists, all policies.
-/
namespace KG.Props.C01
open KG KG.Model.Match KG.Spec.Match KG.Lemmas.Match

/-- an optional field is the non-optional one plus "empty matches everything" -/
theorem fieldSpec_optional (pos : Str → Bool) (E : List Str) :
    fieldSpec true pos E = if E.length == 0 then true else fieldSpec false pos E := by
  cases E with
  | nil => simp [fieldSpec, positives, negatives]
  | cons x xs =>
    unfold fieldSpec
    by_cases hi : inverted x = true
    · simp [positives, negatives, List.filter_cons, hi]
    · have hi' : inverted x = false := by simpa using hi
      simp [positives, negatives, List.filter_cons, hi']

/-! ## each of the seven field matchers computes the documented semantics -/

theorem c01_verb_refines (E : List Str) (q : Str) : verbMatches E q = fieldSpec false (posEq q) E := by
  unfold verbMatches; rw [simpleMatches_spec]; congr 1; funext p; simp [posEq]

theorem c01_apiGroup_refines (E : List Str) (q : Str) : apiGroupMatches E q = fieldSpec false (posEq q) E := by
  unfold apiGroupMatches; rw [simpleMatches_spec]; congr 1; funext p; simp [posEq]

theorem c01_resource_refines (E : List Str) (combined sub : Str) :
    resourceMatches E combined sub = fieldSpec false (posResource combined sub) E := by
  unfold resourceMatches; rw [simpleMatches_spec]; congr 1; funext p
  cases sub <;> simp [posResource]

theorem c01_resourceName_refines (E : List Str) (q : Str) :
    resourceNameMatches E q = fieldSpec true (posEq q) E := by
  unfold resourceNameMatches; rw [fieldSpec_optional, simpleMatches_spec]
  congr 1; congr 1; funext p; simp [posEq]

theorem c01_userGroup_refines (E : List Str) (groups : List Str) :
    userGroupMatches E groups = fieldSpec true (posGroup groups) E := by
  unfold userGroupMatches; rw [fieldSpec_optional, simpleMatches_spec]
  congr 1; congr 1; funext p; simp [posGroup]

theorem c01_user_refines (users : List Str) (sas : List SA) (q : Str) :
    userOrSAMatches users sas q = userSpec users sas q := by
  unfold userOrSAMatches userSpec
  rw [simpleMatches_spec]
  have hf : (fun p => ([q].any fun q' => p == q') || globMatch p q) = posGlob q := by
    funext p; simp [posGlob]
  rw [hf]
  have hsa : (sas.any fun sa => !(sa.ns.length == 0 || sa.name.length == 0) && makeSAUsername sa.ns sa.name == q)
      = saSpec sas q := by
    unfold saSpec; congr 1; funext sa
    cases sa.ns <;> cases sa.name <;> simp
  rw [hsa]
  cases users <;> cases sas <;> simp <;> cases fieldSpec false (posGlob q) _ <;> simp

theorem c01_url_refines (E : List Str) (q : Str) : nonResourceURLMatches E q = urlSpec E q := by
  unfold nonResourceURLMatches urlSpec
  by_cases hs : star ∈ E
  · have h1 := filterRules_star E hs
    generalize filterRules E = t at h1
    obtain ⟨fl, all⟩ := t
    simp at h1
    simp [h1, hs]
  · rw [filterRules_nostar E hs]
    have h2 : E.contains star = false := by
      cases hc : E.contains star
      · rfl
      · exact absurd ((contains_star_iff E).1 hc) hs
    simp only [h2, Bool.false_or]
    cases hp : positives E with
    | nil => simp [List.any_map, Function.comp_def]
    | cons p ps =>
      have hf : (fun x => x == q || globMatch x q) = posGlob q := by funext x; simp [posGlob]
      simp [List.any_map, Function.comp_def, posGlob, hf]

/-- **Rule level**: `RuleMatches` is the conjunction of the documented field semantics. -/
theorem c01_rule_refines (a : Attrs) (r : Rule) : ruleMatches a r = ruleSpec a r := by
  unfold ruleMatches ruleSpec
  rw [c01_verb_refines, c01_user_refines, c01_userGroup_refines, c01_apiGroup_refines,
    c01_resource_refines, c01_resourceName_refines, c01_url_refines]
  cases fieldSpec false (posEq a.verb) r.verbs <;> cases userSpec r.users r.serviceAccounts a.user <;>
    cases fieldSpec true (posGroup a.groups) r.userGroups <;> simp

theorem c01_policy_refines (a : Attrs) (p : Policy) : policyMatches a p = policySpec a p := by
  unfold policyMatches policySpec
  congr 1; funext r; exact c01_rule_refines a r

/-- **First match**: the chosen policy is the first one, in list order, that has a matching rule. -/
theorem c01_first_match (a : Attrs) (ps : List Policy) : matchPolicies a ps = firstMatchSpec a ps := by
  unfold firstMatchSpec
  induction ps with
  | nil => simp [matchPolicies]
  | cons p ps ih =>
    unfold matchPolicies
    rw [List.findIdx?_cons, c01_policy_refines, ih]

/-- the chosen policy has a matching rule and no earlier policy has one -/
theorem c01_first_match_sound (a : Attrs) (ps : List Policy) (i : Nat) (h : matchPolicies a ps = some i) :
    (∃ p, ps[i]? = some p ∧ policySpec a p = true) ∧
    (∀ j, j < i → ∀ q, ps[j]? = some q → policySpec a q = false) := by
  rw [c01_first_match] at h
  unfold firstMatchSpec at h
  rw [List.findIdx?_eq_some_iff_getElem] at h
  obtain ⟨hi, hp, hlt⟩ := h
  refine ⟨⟨ps[i], by simp [hi], hp⟩, ?_⟩
  intro j hj q hq
  have hjl : j < ps.length := Nat.lt_trans hj hi
  have := hlt j hj
  rw [List.getElem?_eq_getElem hjl] at hq
  cases hq
  simpa using this

/-- no policy is chosen (the request is rejected, never forwarded) iff no policy has a matching rule -/
theorem c01_none_iff (a : Attrs) (ps : List Policy) :
    matchPolicies a ps = none ↔ ∀ p ∈ ps, policySpec a p = false := by
  rw [c01_first_match]; unfold firstMatchSpec
  simp [List.findIdx?_eq_none_iff]

/-! ## `MatchAttributes`: rejected iff no policy matches; otherwise routed under the first matching policy -/

/-- the request is rejected (`ErrNoRouterRuleMatches`, never forwarded) iff no policy has a matching rule; it depends
    only on the attributes and the current policy list (not on endpoints or logging) -/
theorem c01_match_attributes_none (a : Attrs) (ps : List PolicyCfg) (all : List Str) (lg : Str) :
    matchAttributes a ps all lg = none ↔ ∀ p ∈ ps, policySpec a p.rules = false := by
  unfold matchAttributes
  cases h : matchPolicies a (ps.map (·.rules)) with
  | none =>
    have := (c01_none_iff a (ps.map (·.rules))).1 h
    simp only [true_iff]
    intro p hp; exact this p.rules (List.mem_map.2 ⟨p, hp, rfl⟩)
  | some i =>
    have hs := (c01_first_match_sound a _ i h).1
    obtain ⟨q, hq, hm⟩ := hs
    have hi : i < ps.length := by
      have := (List.getElem?_eq_some_iff.1 hq).1; simpa using this
    simp only [List.getElem?_eq_getElem hi]
    constructor
    · intro h'; cases h'
    · intro hall
      have hq' : q = ps[i].rules := by
        have := (List.getElem?_eq_some_iff.1 hq).2; simpa using this.symm
      have := hall ps[i] (List.getElem_mem hi)
      rw [← hq'] at this; rw [this] at hm; cases hm

/-- a routed request is handled under the first policy that has a matching rule, with that policy's flow-control
    schema (default `system-default`), upstream subset (all endpoints when empty) and log switch -/
theorem c01_match_attributes_some (a : Attrs) (ps : List PolicyCfg) (all : List Str) (lg : Str) (pk : Picker)
    (h : matchAttributes a ps all lg = some pk) :
    ∃ p, ps[pk.policy]? = some p ∧ policySpec a p.rules = true ∧
      (∀ j, j < pk.policy → ∀ q, ps[j]? = some q → policySpec a q.rules = false) ∧
      pk.flowControlName = (if p.flowControlSchemaName = [] then systemDefault else p.flowControlSchemaName) ∧
      pk.upstreams = (if p.upstreamSubset = [] then all else p.upstreamSubset) ∧
      pk.enableLog = isLogEnabled lg p.logMode := by
  unfold matchAttributes at h
  cases hm : matchPolicies a (ps.map (·.rules)) with
  | none => simp [hm] at h
  | some i =>
    simp only [hm] at h
    cases hp : ps[i]? with
    | none => simp [hp] at h
    | some p =>
      simp only [hp, Option.some.injEq] at h
      subst h
      have hs := c01_first_match_sound a _ i hm
      obtain ⟨⟨q, hq, hmq⟩, hlt⟩ := hs
      have hq' : q = p.rules := by
        rw [List.getElem?_map, hp] at hq; simpa using hq.symm
      refine ⟨p, hp, by rw [← hq']; exact hmq, ?_, ?_, ?_, rfl⟩
      · intro j hj r hr
        exact hlt j hj r.rules (by rw [List.getElem?_map, hr]; rfl)
      · cases p.flowControlSchemaName <;> simp
      · cases p.upstreamSubset <;> simp

/-- the documented log-switch table -/
theorem c01_log_table (u p : Str) :
    isLogEnabled u p = true ↔ (u ≠ logOff ∧ p ≠ logOff ∧ (u = logOn ∨ p = logOn)) := by
  unfold isLogEnabled
  by_cases h1 : u = logOff <;> by_cases h2 : p = logOff <;> by_cases h3 : u = logOn <;> by_cases h4 : p = logOn <;>
    simp [h1, h2, h3, h4]

/-! ## the documented semantics, spelled out as consequences of `fieldSpec` -/

/-- `"*"` matches everything, whatever else is in the list -/
theorem c01_star (E reqs : List Str) (extra : Str → Bool) (h : star ∈ E) : simpleMatches E reqs extra = true := by
  rw [simpleMatches_spec]; unfold fieldSpec; simp [h]

/-- `-` entries are ignored once a positive entry is present -/
theorem c01_positive_wins (E reqs : List Str) (extra : Str → Bool) :
    positives E ≠ [] → simpleMatches E reqs extra = simpleMatches (positives E) reqs extra ∨ star ∈ E := by
  intro hp
  by_cases hs : star ∈ E
  · exact Or.inr hs
  · left
    rw [simpleMatches_spec, simpleMatches_spec]
    have hps : star ∉ positives E := fun h => hs ((List.mem_filter.1 h).1)
    have hpp : positives (positives E) = positives E := by simp [positives, List.filter_filter]
    unfold fieldSpec
    simp [hs, hps, hpp, hp]

/-- A list made only of `-` entries (whose stripped forms are plain entries: not `"*"`, not themselves `-`-prefixed)
    matches exactly the requests the corresponding positive list does not match. -/
theorem c01_inverted_complement (E reqs : List Str) (extra : Str → Bool)
    (hne : E ≠ []) (hall : ∀ x ∈ E, inverted x = true)
    (hplain : ∀ x ∈ E, strip x ≠ star ∧ inverted (strip x) = false) :
    simpleMatches E reqs extra = !simpleMatches (E.map strip) reqs extra := by
  rw [simpleMatches_spec, simpleMatches_spec]
  have hs : star ∉ E := fun h => by have := hall star h; simp [star_not_inverted] at this
  have hpos : positives E = [] := by
    simp only [positives, List.filter_eq_nil_iff]; intro x hx; simp [hall x hx]
  have hneg : negatives E = E.map strip := by
    simp only [negatives]; congr 1; simp only [List.filter_eq_self]; exact hall
  have hs' : star ∉ E.map strip := by
    intro h; rw [List.mem_map] at h; obtain ⟨x, hx, e⟩ := h; exact (hplain x hx).1 e
  have hpos' : positives (E.map strip) = E.map strip := by
    simp only [positives, List.filter_eq_self]; intro y hy
    rw [List.mem_map] at hy; obtain ⟨x, hx, e⟩ := hy; subst e; simp [(hplain x hx).2]
  have hne' : E.map strip ≠ [] := by simpa using hne
  have hc : E.contains star = false := by
    cases h : E.contains star
    · rfl
    · exact absurd ((contains_star_iff E).1 h) hs
  have hc' : (E.map strip).contains star = false := by
    cases h : (E.map strip).contains star
    · rfl
    · exact absurd ((contains_star_iff _).1 h) hs'
  have he : (E.map strip).isEmpty = false := by cases E <;> simp_all
  unfold fieldSpec
  simp only [hc, hc', hpos, hneg, hpos', he]
  simp

/-- an empty optional field matches everything; an empty required field matches nothing -/
theorem c01_empty_optional (pos : Str → Bool) : fieldSpec true pos [] = true ∧ fieldSpec false pos [] = false := by
  simp [fieldSpec, positives, negatives]

/-- `*/sub` matches that subresource of any resource -/
theorem c01_all_subresource (res sub : Str) (hsub : sub ≠ []) :
    resourceMatches [star ++ [slash] ++ sub] (res ++ [slash] ++ sub) sub = true := by
  rw [c01_resource_refines]
  have h1 : (star ++ [slash] ++ sub == star) = false := by
    cases sub with
    | nil => exact absurd rfl hsub
    | cons c cs => simp [star]
  have h2 : inverted (star ++ [slash] ++ sub) = false := by simp [star, inverted, dash]
  have hc : [star ++ [slash] ++ sub].contains star = false := by
    simp only [List.contains_cons, List.contains_nil, Bool.or_false]; simpa [BEq.comm] using h1
  have hp : positives [star ++ [slash] ++ sub] = [star ++ [slash] ++ sub] := by
    have h2' : inverted (star ++ slash :: sub) = false := by simpa using h2
    simp [positives, List.filter_cons, h2']
  unfold fieldSpec
  simp only [hc, hp]
  simp [posResource, hsub]

/-- trailing-`*` globs apply to users: `p*` matches every user with prefix `p` -/
theorem c01_user_glob (p q : Str) (hp : hasPrefix q p = true) (hstar : 42 ∉ p) (hpne : inverted p = false) :
    userOrSAMatches [p ++ star] [] q = true := by
  rw [c01_user_refines]
  have htrim : trimRightStar (p ++ star) = p := by
    unfold trimRightStar star
    cases hr : p.reverse with
    | nil => simp [hr]; simpa using hr
    | cons c cs =>
      have hc : c ≠ 42 := by
        intro e; apply hstar; have : c ∈ p.reverse := by simp [hr]
        simpa [e] using this
      have hc' : (c == 42) = false := by simpa using hc
      simp only [List.reverse_append, hr, List.reverse_cons, List.reverse_nil, List.nil_append,
        List.singleton_append, List.dropWhile, beq_self_eq_true, hc']
      have : p = (c :: cs).reverse := by rw [← hr, List.reverse_reverse]
      rw [this, List.reverse_cons]
  have hsuf : hasSuffix (p ++ star) star = true := by
    simp [hasSuffix, star, List.reverse_append, hasPrefix]
  have hne : (p ++ star == star) = false ∨ p = [] := by
    cases p with
    | nil => right; rfl
    | cons c cs => left; cases cs <;> simp [star]
  have hinv : inverted (p ++ star) = false := by
    cases p with
    | nil => simp [star, inverted, dash]
    | cons c cs => simpa [inverted] using hpne
  unfold userSpec fieldSpec
  rcases hne with hne | rfl
  · simp [positives, negatives, List.filter_cons, hne, hinv, posGlob, globMatch, htrim, hsuf, hp]
  · simp [star]

end KG.Props.C01
