import KG.Lemmas.AuthCache
/-!
# C12 — Authentication and authorization decisions never cross clusters

Model: `KG.Model.AuthCache` (small-step: every access of a request to shared state is one step, so manager events,
clean-up goroutines, evictions, clock ticks and other requests interleave arbitrarily). Judge: `KG.Spec.AuthCache`.

All theorems quantify over EVERY list of small steps from `init` (`pre`), i.e. every history and interleaving, every
oracle behaviour (`env.tokO`, `env.sarO` arbitrary functions of instance, key and time) and every TTL configuration.

* `c12_token_cache_provenance`, `c12_sar_cache_provenance`: every cache entry under a cache object created for
  `(host, C)` is the answer `C`'s own oracle gave for that token / spec, stored at a past time, expiring one TTL
  later; errors are never in a cache.
* `c12_pending_uses_own_cache`: a request only ever reads / writes a cache object of the cluster it resolved to.
* `c12_token`, `c12_sar` (provenance + fail closed, all interleavings): whatever happens after a request's first
  step, every answer to it satisfies the judge w.r.t. the cluster its host resolved to AT THAT STEP:
  no cluster / no ready endpoint ⇒ the fixed error (not authenticated / deny), nothing asked;
  reviewed ⇒ exactly what that cluster says now (its errors are errors, and deny);
  not reviewed ⇒ a non-upstream error, or what that cluster said earlier, still within the TTL. Never another cluster.
* `c12_token_review_target`, `c12_sar_review_target`: a review is only sent through a ready endpoint of the cluster
  the host resolves to at that moment, which is the request's own cluster; otherwise the request ends with an error.
* `c12_error_not_cached_*`: an oracle error ends the request with an error / deny and leaves every cache unchanged.
* `c12_source_shape`: the facts the model takes from the source (regenerated on every run), stated by role (what is
  reachable from the entry point), not by spelling.
-/
namespace KG.Props.C12
open KG KG.Model.AuthCache KG.Spec.AuthCache KG.Lemmas.AuthCache

/-- a state reached by some history -/
def reach (env : Env) (pre : List Step) : State := (runSteps env init pre).1

/-- the cache invariant (`KG.Lemmas.AuthCache.Inv`) holds after every history -/
theorem c12_invariant (env : Env) (pre : List Step) : Inv env (reach env pre) := inv_runSteps (inv_init env) pre

/-! ## the caches -/

theorem c12_token_cache_provenance (env : Env) (pre : List Step) (cid : CacheId) (tok : Str) (e : TokEntry)
    (h : (cid, tok, e) ∈ (reach env pre).tokEntries) :
    e.ans = env.tokO cid.inst tok e.storedAt ∧ e.storedAt ≤ (reach env pre).clock ∧
      e.expiry = e.storedAt + tokTTL env.cfg e.ans ∧ e.ans ≠ .err := by
  obtain ⟨h1, h2, h3, h4⟩ := (c12_invariant env pre).tokE _ h
  refine ⟨h1, h2, h3, fun herr => ?_⟩
  have := h4 herr
  rw [cacheErrs_false] at this
  cases this

theorem c12_sar_cache_provenance (env : Env) (pre : List Step) (cid : CacheId) (spec : Spec) (e : SarEntry)
    (h : (cid, spec, e) ∈ (reach env pre).sarEntries) :
    env.sarO cid.inst spec e.storedAt = .status e.st ∧ e.storedAt ≤ (reach env pre).clock ∧
      e.expiry = e.storedAt + sarTTL env.cfg e.st :=
  (c12_invariant env pre).sarE _ h

theorem c12_pending_uses_own_cache (env : Env) (pre : List Step) :
    (∀ p ∈ (reach env pre).tokPend, ∀ cid, tokCid? p.stage = some cid → cid.host = p.host ∧ cid.inst = p.inst) ∧
    (∀ p ∈ (reach env pre).sarPend, ∀ cid, sarCid? p.stage = some cid → cid.host = p.host ∧ cid.inst = p.inst) :=
  ⟨fun p hp => ((c12_invariant env pre).tokP p hp).2, fun p hp => ((c12_invariant env pre).sarP p hp).2⟩

/-! ## the answers -/

/-- **Token authentication, every interleaving.** A token request starts in any reachable state (`tokBegin` with a
    fresh id; `up` is the cluster WithUpstreamInfo bound it to, if any); after it ANY steps follow (its own, other
    requests', alias moves, deletes, re-creations, endpoint changes, clean-ups, evictions, ticks). Every answer given to
    this request is for the request's host and token and satisfies the judge with respect to the cluster the host
    resolved to when the request started; and an answer that is not an error, or for which a review was sent, is only
    given when that cluster is not different from the cluster the request is bound to (if binding is checked). -/
theorem c12_token (env : Env) (pre post : List Step) (rid : Rid) (host tok : Str) (ch : Nat) (up : Option Inst)
    (hfresh : (reach env pre).nextRid ≤ rid) (t : TokOut)
    (ht : Out.tok t ∈ (runSteps env (reach env pre) (.tokBegin rid host tok ch up :: post)).2) (hr : t.rid = rid) :
    t.host = host ∧ t.tok = tok ∧ t.upstream = up ∧ t.inst = mgrGet (reach env pre).mgr host ∧
      TokJudge env ⟨mgrGet (reach env pre).mgr host, ownReady (reach env pre) host, tok, t.res, t.time, t.ep.isSome⟩ ∧
      ((t.res.isError = false ∨ t.ep.isSome = true) →
        ∃ c, mgrGet (reach env pre).mgr host = some c ∧ ownReady (reach env pre) host = true ∧
          boundElsewhere env.cfg.bindTok up c = false) := by
  have hinv := c12_invariant env pre
  generalize reach env pre = s at *
  simp only [runSteps, step] at ht
  have hold : ∀ p ∈ s.tokPend, p.rid = rid → False := fun p hp e =>
    absurd (hinv.tokP p hp).1 (by rw [e]; exact Nat.not_lt_of_le hfresh)
  have hnone : ∀ (s1 : State), s1.tokPend = s.tokPend → s1.nextRid = rid + 1 → Inv env s1 →
      Out.tok t ∈ (runSteps env s1 post).2 → False := by
    intro s1 e1 e2 hs1 h1
    have hrid : RidTok rid (fun _ _ _ _ => False) s1 :=
      ⟨by rw [e2]; exact Nat.lt_succ_self _, fun p hp e => hold p (e1 ▸ hp) e⟩
    obtain ⟨_, c, _, hF⟩ := run_tok rid _ post _ hs1 hrid t h1 hr
    exact hF
  cases hcf : clientFor s host ch with
  | error k =>
    have hb := tokBegin_of_err (env := env) (tok := tok) (up := up) hfresh hcf
    rw [hb] at ht
    cases List.mem_append.1 ht with
    | inl h1 =>
      simp only [List.mem_singleton] at h1
      cases h1
      refine ⟨rfl, rfl, rfl, rfl, ?_, ?_⟩
      · cases clientFor_err hcf with
        | inl hx =>
          obtain ⟨hk, hg⟩ := hx
          subst hk
          unfold TokJudge
          simp [hg]
        | inr hx =>
          obtain ⟨hk, c, hg, hre⟩ := hx
          subst hk
          unfold TokJudge ownReady
          simp [hg, hre]
      · intro hx
        cases hx with
        | inl hx => cases hx
        | inr hx => cases hx
    | inr h1 =>
      have hs1 := inv_tokBegin hinv rid host tok ch up
      rw [hb] at hs1
      exact (hnone { s with nextRid := rid + 1 } rfl rfl hs1 h1).elim
  | ok ce =>
    obtain ⟨c, e⟩ := ce
    obtain ⟨hg, hready⟩ := ownReady_of_ok hcf
    cases hbe : boundElsewhere env.cfg.bindTok up c with
    | true =>
      have hb := tokBegin_of_bound (env := env) (tok := tok) hfresh hcf hbe
      rw [hb] at ht
      cases List.mem_append.1 ht with
      | inl h1 =>
        simp only [List.mem_singleton] at h1
        cases h1
        refine ⟨rfl, rfl, rfl, hg.symm, ?_, ?_⟩
        · unfold TokJudge
          simp only [hg, hready]
          simp [TokRes.isError]
        · intro hx
          cases hx with
          | inl hx => cases hx
          | inr hx => cases hx
      | inr h1 =>
        have hs1 := inv_tokBegin hinv rid host tok ch up
        rw [hb] at hs1
        exact (hnone { s with nextRid := rid + 1 } rfl rfl hs1 h1).elim
    | false =>
      have hb := tokBegin_of_ok (env := env) (tok := tok) hfresh hcf hbe
      rw [hb] at ht
      simp only [List.nil_append] at ht
      have hs1 := inv_tokBegin hinv rid host tok ch up
      rw [hb] at hs1
      have hrid : RidTok rid (fun h t i u => h = host ∧ t = tok ∧ i = c ∧ u = up)
          (setTok { s with nextRid := rid + 1 } ⟨rid, host, tok, c, up, .resolved⟩) := by
        refine ⟨Nat.lt_succ_self _, fun p hp e => ?_⟩
        cases mem_setTok hp with
        | inl h1 => subst h1; exact ⟨rfl, rfl, rfl, rfl⟩
        | inr h1 => exact (hold p h1 e).elim
      obtain ⟨hok, c', hi, h1, h2, h3, hupstream⟩ := run_tok rid _ post _ hs1 hrid t ht hr
      subst h3
      refine ⟨h1, h2, hupstream, by rw [hi, hg], ?_, fun _ => ⟨c', hg, hready, hbe⟩⟩
      rw [hg, hready, ← h2]
      exact tokJudge_of_ok hok hi

/-- **Authorization (incl. the impersonation check), every interleaving.** As `c12_token`, for
    `MultiClusterSubjectAccessReviewAuthorizer.Authorize`. -/
theorem c12_sar (env : Env) (pre post : List Step) (rid : Rid) (host : Str) (attrs : Attrs) (ch : Nat) (up : Option Inst)
    (hfresh : (reach env pre).nextRid ≤ rid) (t : SarOut)
    (ht : Out.sar t ∈ (runSteps env (reach env pre) (.sarBegin rid host attrs ch up :: post)).2) (hr : t.rid = rid) :
    t.host = host ∧ t.attrs = attrs ∧ t.upstream = up ∧ t.inst = mgrGet (reach env pre).mgr host ∧
      SarJudge env ⟨mgrGet (reach env pre).mgr host, ownReady (reach env pre) host, attrs, t.res, t.time, t.ep.isSome⟩ ∧
      ((t.res.err = none ∨ t.ep.isSome = true) →
        ∃ c, mgrGet (reach env pre).mgr host = some c ∧ ownReady (reach env pre) host = true ∧
          boundElsewhere env.cfg.bindSar up c = false) := by
  have hinv := c12_invariant env pre
  generalize reach env pre = s at *
  simp only [runSteps, step] at ht
  have hold : ∀ p ∈ s.sarPend, p.rid = rid → False := fun p hp e =>
    absurd (hinv.sarP p hp).1 (by rw [e]; exact Nat.not_lt_of_le hfresh)
  have hnone : ∀ (s1 : State), s1.sarPend = s.sarPend → s1.nextRid = rid + 1 → Inv env s1 →
      Out.sar t ∈ (runSteps env s1 post).2 → False := by
    intro s1 e1 e2 hs1 h1
    have hrid : RidSar rid (fun _ _ _ _ => False) s1 :=
      ⟨by rw [e2]; exact Nat.lt_succ_self _, fun p hp e => hold p (e1 ▸ hp) e⟩
    obtain ⟨_, c, _, hF⟩ := run_sar rid _ post _ hs1 hrid t h1 hr
    exact hF
  have herrne : ∀ k, (sarErr k).err ≠ none := fun k => by simp [sarErr]
  cases hcf : clientFor s host ch with
  | error k =>
    have hb := sarBegin_of_err (env := env) (attrs := attrs) (up := up) hfresh hcf
    rw [hb] at ht
    cases List.mem_append.1 ht with
    | inl h1 =>
      simp only [List.mem_singleton] at h1
      cases h1
      refine ⟨rfl, rfl, rfl, rfl, ⟨fun _ => decisionOnError_deny, ?_⟩, ?_⟩
      · cases clientFor_err hcf with
        | inl hx =>
          obtain ⟨hk, hg⟩ := hx
          subst hk
          simp [hg]
        | inr hx =>
          obtain ⟨hk, c, hg, hre⟩ := hx
          subst hk
          unfold ownReady
          simp [hg, hre]
      · intro hx
        cases hx with
        | inl hx => exact absurd hx (herrne k)
        | inr hx => cases hx
    | inr h1 =>
      have hs1 := inv_sarBegin hinv rid host attrs ch up
      rw [hb] at hs1
      exact (hnone { s with nextRid := rid + 1 } rfl rfl hs1 h1).elim
  | ok ce =>
    obtain ⟨c, e⟩ := ce
    obtain ⟨hg, hready⟩ := ownReady_of_ok hcf
    cases hbe : boundElsewhere env.cfg.bindSar up c with
    | true =>
      have hb := sarBegin_of_bound (env := env) (attrs := attrs) hfresh hcf hbe
      rw [hb] at ht
      cases List.mem_append.1 ht with
      | inl h1 =>
        simp only [List.mem_singleton] at h1
        cases h1
        refine ⟨rfl, rfl, rfl, hg.symm, ⟨fun _ => decisionOnError_deny, ?_⟩, ?_⟩
        · simp only [hg, hready]
          simp
        · intro hx
          cases hx with
          | inl hx => exact absurd hx (herrne _)
          | inr hx => cases hx
      | inr h1 =>
        have hs1 := inv_sarBegin hinv rid host attrs ch up
        rw [hb] at hs1
        exact (hnone { s with nextRid := rid + 1 } rfl rfl hs1 h1).elim
    | false =>
      have hb := sarBegin_of_ok (env := env) (attrs := attrs) hfresh hcf hbe
      rw [hb] at ht
      simp only [List.nil_append] at ht
      have hs1 := inv_sarBegin hinv rid host attrs ch up
      rw [hb] at hs1
      have hmem : ∀ p ∈ (setSar { s with nextRid := rid + 1 }
          ⟨rid, host, attrs, c, up, e.name, readyNames { s with nextRid := rid + 1 } c, .resolved⟩).sarPend,
          p.rid = rid → p.host = host ∧ p.attrs = attrs ∧ p.inst = c ∧ p.upstream = up := by
        intro p hp e'
        cases mem_setSar hp with
        | inl h1 => subst h1; exact ⟨rfl, rfl, rfl, rfl⟩
        | inr h1 => exact (hold p h1 e').elim
      have hrid : RidSar rid (fun h a i u => h = host ∧ a = attrs ∧ i = c ∧ u = up) _ :=
        ⟨Nat.lt_succ_self _, fun p hp e' => hmem p hp e'⟩
      obtain ⟨hok, c', hi, h1, h2, h3, hupstream⟩ := run_sar rid _ post _ hs1 hrid t ht hr
      subst h3
      refine ⟨h1, h2, hupstream, by rw [hi, hg], ?_, fun _ => ⟨c', hg, hready, hbe⟩⟩
      rw [hg, hready, ← h2]
      exact sarJudge_of_ok hok hi

/-- what the harness evaluates on the REAL answers (`tokJudgeR`/`sarJudgeR`, sound for `TokJudgeR`/`SarJudgeR`) is implied by
    what is proved about the model: it keeps only what the property demands (refusals beyond it are allowed) -/
theorem c12_judge_applied_to_code_is_implied (env : Env) :
    (∀ o, TokJudge env o → TokJudgeR env o) ∧ (∀ o, SarJudge env o → SarJudgeR env o) :=
  ⟨fun _ h => h.relax, fun _ h => h.relax⟩

/-! ## consequences spelled out -/

/-- fail closed: unknown host or no ready endpoint ⇒ every answer to the request is the fixed error, not authenticated -/
theorem c12_token_fail_closed (env : Env) (pre post : List Step) (rid : Rid) (host tok : Str) (ch : Nat) (up : Option Inst)
    (hfresh : (reach env pre).nextRid ≤ rid) (t : TokOut)
    (ht : Out.tok t ∈ (runSteps env (reach env pre) (.tokBegin rid host tok ch up :: post)).2) (hr : t.rid = rid)
    (hno : ownReady (reach env pre) host = false) :
    (t.res = .error .notFound ∨ t.res = .error .noReady) ∧ t.ep = none := by
  obtain ⟨_, _, _, _, hj, _⟩ := c12_token env pre post rid host tok ch up hfresh t ht hr
  unfold TokJudge at hj
  unfold ownReady at hno
  cases hg : mgrGet (reach env pre).mgr host with
  | none =>
    simp only [hg] at hj
    exact ⟨Or.inl hj.1, by simpa using hj.2⟩
  | some c =>
    simp only [hg] at hj hno
    unfold ownReady at hj
    simp only [hg, hno, if_true] at hj
    exact ⟨Or.inr hj.1, by simpa using hj.2⟩

/-- fail closed: unknown host or no ready endpoint ⇒ deny with an error, nothing asked -/
theorem c12_sar_fail_closed (env : Env) (pre post : List Step) (rid : Rid) (host : Str) (attrs : Attrs) (ch : Nat) (up : Option Inst)
    (hfresh : (reach env pre).nextRid ≤ rid) (t : SarOut)
    (ht : Out.sar t ∈ (runSteps env (reach env pre) (.sarBegin rid host attrs ch up :: post)).2) (hr : t.rid = rid)
    (hno : ownReady (reach env pre) host = false) :
    t.res.decision = .deny ∧ (t.res.err = some .notFound ∨ t.res.err = some .noReady) ∧ t.ep = none := by
  obtain ⟨_, _, _, _, ⟨_, hj⟩, _⟩ := c12_sar env pre post rid host attrs ch up hfresh t ht hr
  unfold ownReady at hno
  cases hg : mgrGet (reach env pre).mgr host with
  | none =>
    simp only [hg] at hj
    refine ⟨?_, Or.inl ?_, by simpa using hj.2⟩
    · rw [hj.1]; exact decisionOnError_deny
    · rw [hj.1]; rfl
  | some c =>
    simp only [hg] at hj hno
    unfold ownReady at hj
    simp only [hg, hno, if_true] at hj
    refine ⟨?_, Or.inr ?_, by simpa using hj.2⟩
    · rw [hj.1]; exact decisionOnError_deny
    · rw [hj.1]; rfl

/-- an authenticated / unauthenticated (non-error) answer always comes from the oracle of the request's own cluster -/
theorem c12_token_answer_from_own_cluster (env : Env) (pre post : List Step) (rid : Rid) (host tok : Str) (ch : Nat) (up : Option Inst)
    (hfresh : (reach env pre).nextRid ≤ rid) (t : TokOut)
    (ht : Out.tok t ∈ (runSteps env (reach env pre) (.tokBegin rid host tok ch up :: post)).2) (hr : t.rid = rid)
    (hne : t.res.isError = false) :
    ∃ c, mgrGet (reach env pre).mgr host = some c ∧ ∃ t', t' ≤ t.time ∧ t.res = (env.tokO c tok t').res ∧
      (t' = t.time ∨ t.time < t' + tokTTL env.cfg (env.tokO c tok t')) := by
  obtain ⟨_, _, _, _, hj, _⟩ := c12_token env pre post rid host tok ch up hfresh t ht hr
  unfold TokJudge at hj
  cases hg : mgrGet (reach env pre).mgr host with
  | none =>
    simp only [hg] at hj
    rw [hj.1] at hne; cases hne
  | some c =>
    simp only [hg] at hj
    refine ⟨c, rfl, ?_⟩
    split at hj
    · rw [hj.1] at hne; cases hne
    · split at hj
      · exact ⟨t.time, Nat.le_refl _, hj, Or.inl rfl⟩
      · cases hj with
        | inl hj => rw [hj.1] at hne; cases hne
        | inr hj =>
          obtain ⟨t', h1, _, h3, h4⟩ := hj
          exact ⟨t', h1, h3, Or.inr h4⟩

/-- an allow (or any error-free decision) always comes from the oracle of the request's own cluster -/
theorem c12_sar_answer_from_own_cluster (env : Env) (pre post : List Step) (rid : Rid) (host : Str) (attrs : Attrs) (ch : Nat) (up : Option Inst)
    (hfresh : (reach env pre).nextRid ≤ rid) (t : SarOut)
    (ht : Out.sar t ∈ (runSteps env (reach env pre) (.sarBegin rid host attrs ch up :: post)).2) (hr : t.rid = rid)
    (hne : t.res.err = none) :
    ∃ c, mgrGet (reach env pre).mgr host = some c ∧ ∃ t', t' ≤ t.time ∧ ∃ st, env.sarO c (specOf attrs) t' = .status st ∧
      t.res = decideStatus st ∧ t.time ≤ t' + sarTTL env.cfg st := by
  obtain ⟨_, _, _, _, ⟨_, hj⟩, _⟩ := c12_sar env pre post rid host attrs ch up hfresh t ht hr
  have hderr : (sarErr .notFound).err ≠ none ∧ (sarErr .noReady).err ≠ none := ⟨by simp [sarErr], by simp [sarErr]⟩
  cases hg : mgrGet (reach env pre).mgr host with
  | none =>
    simp only [hg] at hj
    rw [hj.1] at hne; exact absurd hne hderr.1
  | some c =>
    simp only [hg] at hj
    refine ⟨c, rfl, ?_⟩
    split at hj
    · rw [hj.1] at hne; exact absurd hne hderr.2
    · split at hj
      · cases hans : env.sarO c (specOf attrs) t.time with
        | err =>
          rw [hans] at hj
          rw [hj] at hne
          simp [SarAns.res, sarErr] at hne
        | status st =>
          rw [hans] at hj
          exact ⟨t.time, Nat.le_refl _, st, hans, hj, Nat.le_add_right _ _⟩
      · cases hj with
        | inl hj => rw [hj] at hne; simp [sarErr] at hne
        | inr hj =>
          obtain ⟨t', h1, st, h2, h3, h4⟩ := hj
          exact ⟨t', h1, st, h2, h3, h4⟩


/-! ## sequences of requests: an uninterrupted request is answered exactly once -/

/-- A whole `AuthenticateToken` call with nothing in between, from any reachable state, gives exactly one answer —
    to which `c12_token` (with `post` = the rest of the call) applies. Together: for EVERY sequence of requests and
    events, each request gets one answer and it is the judge's. -/
theorem c12_token_answered_once (env : Env) (pre : List Step) (rid : Rid) (host tok : Str) (ch1 ch2 : Nat) (up : Option Inst)
    (hfresh : (reach env pre).nextRid ≤ rid) :
    ∃ t, (runSteps env (reach env pre) (tokSteps rid host tok ch1 ch2 up)).2 = [.tok t] ∧ t.rid = rid := by
  have hinv := c12_invariant env pre
  generalize reach env pre = s at *
  have hold : ∀ p ∈ s.tokPend, p.rid ≠ rid := fun p hp e =>
    absurd (hinv.tokP p hp).1 (by rw [e]; exact Nat.not_lt_of_le hfresh)
  have hnone : findTok { s with nextRid := rid + 1 } rid = none := findTok_none_of (s := { s with nextRid := rid + 1 }) hold
  have hn := tok_noop (env := env) hnone ch2
  unfold tokSteps
  cases hcf : clientFor s host ch1 with
  | error k =>
    have hb := tokBegin_of_err (env := env) (tok := tok) (up := up) hfresh hcf
    simp only [runSteps, step, hb, hn.1, hn.2.1, hn.2.2.1, hn.2.2.2, List.append_nil]
    exact ⟨_, rfl, rfl⟩
  | ok ce =>
    obtain ⟨c, e⟩ := ce
    cases hbe : boundElsewhere env.cfg.bindTok up c with
    | true =>
      have hb := tokBegin_of_bound (env := env) (tok := tok) hfresh hcf hbe
      simp only [runSteps, step, hb, hn.1, hn.2.1, hn.2.2.1, hn.2.2.2, List.append_nil]
      exact ⟨_, rfl, rfl⟩
    | false =>
      have hb := tokBegin_of_ok (env := env) (tok := tok) hfresh hcf hbe
      have hrest := tokCache_rest_answers (env := env) (p := ⟨rid, host, tok, c, up, .resolved⟩) ch2
        (findTok_setTok { s with nextRid := rid + 1 } ⟨rid, host, tok, c, up, .resolved⟩) rfl
      obtain ⟨t, h1, h2⟩ := hrest
      refine ⟨t, ?_, h2⟩
      rw [← h1]
      simp only [runSteps, step, hb, List.nil_append]

theorem c12_sar_answered_once (env : Env) (pre : List Step) (rid : Rid) (host : Str) (attrs : Attrs) (ch : Nat) (up : Option Inst)
    (hfresh : (reach env pre).nextRid ≤ rid) :
    ∃ t, (runSteps env (reach env pre) (sarSteps rid host attrs ch up)).2 = [.sar t] ∧ t.rid = rid := by
  have hinv := c12_invariant env pre
  generalize reach env pre = s at *
  have hold : ∀ p ∈ s.sarPend, p.rid ≠ rid := fun p hp e =>
    absurd (hinv.sarP p hp).1 (by rw [e]; exact Nat.not_lt_of_le hfresh)
  have hnone : findSar { s with nextRid := rid + 1 } rid = none := findSar_none_of (s := { s with nextRid := rid + 1 }) hold
  have hn := sar_noop (env := env) hnone
  unfold sarSteps
  cases hcf : clientFor s host ch with
  | error k =>
    have hb := sarBegin_of_err (env := env) (attrs := attrs) (up := up) hfresh hcf
    simp only [runSteps, step, hb, hn.1, hn.2.1, hn.2.2, List.append_nil]
    exact ⟨_, rfl, rfl⟩
  | ok ce =>
    obtain ⟨c, e⟩ := ce
    cases hbe : boundElsewhere env.cfg.bindSar up c with
    | true =>
      have hb := sarBegin_of_bound (env := env) (attrs := attrs) hfresh hcf hbe
      simp only [runSteps, step, hb, hn.1, hn.2.1, hn.2.2, List.append_nil]
      exact ⟨_, rfl, rfl⟩
    | false =>
      have hb := sarBegin_of_ok (env := env) (attrs := attrs) hfresh hcf hbe
      have hrest := sarCache_rest_answers (env := env)
        (p := ⟨rid, host, attrs, c, up, e.name, readyNames { s with nextRid := rid + 1 } c, .resolved⟩)
        (findSar_setSar { s with nextRid := rid + 1 } _) rfl
      obtain ⟨t, h1, h2⟩ := hrest
      refine ⟨t, ?_, h2⟩
      rw [← h1]
      simp only [runSteps, step, hb, List.nil_append]

/-- what the correspondence harness compares the real code with (`runMacros`: requests with events and nested
    requests scheduled between their steps) is a small-step run from `init`, so every theorem above applies to it -/
theorem c12_scheduled_runs_are_small_step_runs (env : Env) (ms : List Macro) :
    runSteps env init (runMacros env ⟨init, [], []⟩ ms).steps =
      ((runMacros env ⟨init, [], []⟩ ms).s, (runMacros env ⟨init, [], []⟩ ms).outs) :=
  runOK_macros env ms _ (runOK_init env)

/-! ## the filter chain: a request is decided only by the cluster it is bound to

`WithUpstreamInfo` binds a request to `info.UpstreamCluster = manager.Get(host)` — the cluster the dispatcher proxies it
to — BEFORE the authentication and impersonation filters run, and those resolve the host again. `Pipeline env` is the
full statement at that level: whatever happens between the binding and the authenticator's / authorizer's own
`ClientFor` (e.g. the server name moves to another live cluster) and afterwards, a request bound to `u` is only ever
reviewed by `u`, and only ever gets an answer that is not an error from `u`'s own oracle. It holds exactly because the
two functions refuse a request whose bound cluster differs from the cluster resolved now (fix 45e3360; the model reads
from the source whether they do: `KG.Gen.C12.bindsTokenToUpstream`, `bindsSarToUpstream`). -/

def Pipeline (env : Env) : Prop :=
  (∀ (pre post : List Step) (rid : Rid) (host tok : Str) (ch : Nat) (u : Inst) (t : TokOut),
    (reach env pre).nextRid ≤ rid →
    Out.tok t ∈ (runSteps env (reach env pre) (.tokBegin rid host tok ch (some u) :: post)).2 → t.rid = rid →
    (t.res.isError = false ∨ t.ep.isSome = true) →
      TokJudge env ⟨some u, true, tok, t.res, t.time, t.ep.isSome⟩) ∧
  (∀ (pre post : List Step) (rid : Rid) (host : Str) (attrs : Attrs) (ch : Nat) (u : Inst) (t : SarOut),
    (reach env pre).nextRid ≤ rid →
    Out.sar t ∈ (runSteps env (reach env pre) (.sarBegin rid host attrs ch (some u) :: post)).2 → t.rid = rid →
    (t.res.err = none ∨ t.ep.isSome = true) →
      SarJudge env ⟨some u, true, attrs, t.res, t.time, t.ep.isSome⟩) ∧
  -- last stage: the cluster that receives the proxied request is the cluster the request is bound to — hence (two
  -- clauses above) the cluster whose oracle produced its authentication and every authorization used for it
  (∀ (pre : List Step) (host : Str) (u : Inst) (ch : Nat) (d : DispOut) (c : Inst),
    Out.disp d ∈ (step env (reach env pre) (.dispatch host (some u) ch)).2 → d.proxied = some c →
      c = u ∧ (readyOf (reach env pre) u ≠ []))

/-- with both checks in place the full statement holds, for every oracle behaviour, TTL configuration and history -/
theorem c12_pipeline_of_binding (env : Env) (h1 : env.cfg.bindTok = true) (h2 : env.cfg.bindSar = true)
    (h3 : env.cfg.bindDisp = true) : Pipeline env := by
  refine ⟨?_, ?_, ?_⟩
  rotate_left 2
  · intro pre host u ch d c hd hp
    simp only [step, dispatch, h3, if_true, List.mem_singleton] at hd
    cases hd
    simp only at hp
    cases hpk : pickOne (reach env pre) u ch with
    | none => rw [hpk] at hp; cases hp
    | some e =>
      rw [hpk] at hp
      simp only [Option.map_some, Option.some.injEq] at hp
      refine ⟨hp.symm, fun hnil => ?_⟩
      have := pickOne_mem hpk
      rw [hnil] at this
      cases this
  · intro pre post rid host tok ch u t hfresh ht hr hne
    obtain ⟨_, _, _, _, hj, hb⟩ := c12_token env pre post rid host tok ch (some u) hfresh t ht hr
    obtain ⟨c, hg, hready, hbe⟩ := hb hne
    rw [h1] at hbe
    have := boundElsewhere_false hbe
    subst this
    rw [hg, hready] at hj
    exact hj
  · intro pre post rid host attrs ch u t hfresh ht hr hne
    obtain ⟨_, _, _, _, hj, hb⟩ := c12_sar env pre post rid host attrs ch (some u) hfresh t ht hr
    obtain ⟨c, hg, hready, hbe⟩ := hb hne
    rw [h2] at hbe
    have := boundElsewhere_false hbe
    subst this
    rw [hg, hready] at hj
    exact hj

/-- the configuration the source has NOW: the two flags as the extractor reads them from /repo on every run -/
def fromSource (env : Env) : Env :=
  { env with cfg := { env.cfg with bindTok := KG.Gen.C12.bindsTokenToUpstream, bindSar := KG.Gen.C12.bindsSarToUpstream,
                                   bindDisp := KG.Gen.C12.dispatcherUsesBoundCluster } }

/-- **the current tree**: the full statement, unconditionally (this is the configuration the correspondence harness
    runs the model with; it stops checking the moment one of the two comparisons disappears from the source) -/
theorem c12_pipeline (env : Env) : Pipeline (fromSource env) :=
  c12_pipeline_of_binding (fromSource env)
    (show KG.Gen.C12.bindsTokenToUpstream = true by decide) (show KG.Gen.C12.bindsSarToUpstream = true by decide)
    (show KG.Gen.C12.dispatcherUsesBoundCluster = true by decide)

/-! ## where reviews go -/

/-- The review closure: either the host still resolves to the request's own cluster `p.inst` and the review goes
    through one of ITS ready endpoints, or the request ends here with an error that is not an upstream error
    (unknown host, no ready endpoint, or "moved": the host now belongs to another cluster) and nothing is sent. -/
theorem c12_token_review_target (s : State) (rid : Rid) (ch : Nat) (p : TokPend) (cid : Option CacheId)
    (hf : findTok s rid = some p) (hst : p.stage = .missed cid) :
    (∃ e, mgrGet s.mgr p.host = some p.inst ∧ (p.inst, e) ∈ s.eps ∧ e.isReady = true ∧
        tokReview s rid ch = (setTok s { p with stage := .inFlight cid e.name (readyNames s p.inst) }, [])) ∨
    (∃ k, k ≠ ErrKind.upstream ∧ tokReview s rid ch = (delTok s rid, [tokOutErr s rid p.host p.tok (some p.inst) p.upstream k])) := by
  unfold tokReview
  simp only [hf, hst]
  cases hcf : clientFor s p.host ch with
  | error k =>
    right
    refine ⟨k, ?_, rfl⟩
    cases clientFor_err hcf with
    | inl hx => rw [hx.1]; intro e; cases e
    | inr hx => rw [hx.1]; intro e; cases e
  | ok ce =>
    obtain ⟨cur, e⟩ := ce
    obtain ⟨hg, hm⟩ := clientFor_ok hcf
    by_cases hcur : cur = p.inst
    · left
      subst hcur
      obtain ⟨h1, h2⟩ := mem_readyOf hm
      refine ⟨e, hg, h1, h2, ?_⟩
      simp
    · right
      refine ⟨.moved, (by intro e; cases e), ?_⟩
      simp [hcur]

/-- `Authorize`: cluster, cache key and client come from ONE `ClientFor`: the review goes through a ready endpoint of
    the cluster the host resolves to (which is the cluster the request is bound to, when binding is checked), or the
    request is denied at once. -/
theorem c12_sar_review_target (env : Env) (s : State) (rid : Rid) (host : Str) (attrs : Attrs) (ch : Nat) (up : Option Inst)
    (hn : s.nextRid ≤ rid) :
    (∃ c e, mgrGet s.mgr host = some c ∧ (c, e) ∈ s.eps ∧ e.isReady = true ∧ boundElsewhere env.cfg.bindSar up c = false ∧
        findSar (sarBegin env s rid host attrs ch up).1 rid = some ⟨rid, host, attrs, c, up, e.name, readyNames s c, .resolved⟩ ∧
        (sarBegin env s rid host attrs ch up).2 = []) ∨
    (∃ k t, (k = ErrKind.notFound ∨ k = ErrKind.noReady ∨ k = ErrKind.moved) ∧
        (sarBegin env s rid host attrs ch up).2 = [.sar t] ∧ t.res = sarErr k ∧ t.ep = none ∧
        (sarBegin env s rid host attrs ch up).1.sarPend = s.sarPend) := by
  cases hcf : clientFor s host ch with
  | error k =>
    right
    rw [sarBegin_of_err hn hcf]
    refine ⟨k, _, ?_, rfl, rfl, rfl, rfl⟩
    cases clientFor_err hcf with
    | inl hx => exact Or.inl hx.1
    | inr hx => exact Or.inr (Or.inl hx.1)
  | ok ce =>
    obtain ⟨c, e⟩ := ce
    obtain ⟨hg, hm⟩ := clientFor_ok hcf
    obtain ⟨h1, h2⟩ := mem_readyOf hm
    cases hbe : boundElsewhere env.cfg.bindSar up c with
    | true =>
      right
      rw [sarBegin_of_bound hn hcf hbe]
      exact ⟨.moved, _, Or.inr (Or.inr rfl), rfl, rfl, rfl, rfl⟩
    | false =>
      left
      rw [sarBegin_of_ok hn hcf hbe]
      exact ⟨c, e, hg, h1, h2, hbe, findSar_setSar _ _, rfl⟩

/-! ## errors are not cached -/

theorem c12_error_not_cached_token (env : Env) (s : State) (rid : Rid) (p : TokPend) (cid : Option CacheId) (ep : Str)
    (ready : List Str) (hf : findTok s rid = some p) (hst : p.stage = .inFlight cid ep ready)
    (herr : env.tokO p.inst p.tok s.clock = .err) :
    (tokFinish env s rid).1.tokEntries = s.tokEntries ∧
      ∃ t, (tokFinish env s rid).2 = [.tok t] ∧ t.res = .error .upstream := by
  unfold tokFinish
  simp only [hf, hst, herr]
  cases cid with
  | none => exact ⟨rfl, _, rfl, rfl⟩
  | some c =>
    simp only [cacheErrs_false, and_self, if_true]
    exact ⟨rfl, _, rfl, rfl⟩

theorem c12_error_not_cached_sar (env : Env) (s : State) (rid : Rid) (p : SarPend) (cid : CacheId)
    (hf : findSar s rid = some p) (hst : p.stage = .inFlight cid)
    (herr : env.sarO p.inst (specOf p.attrs) s.clock = .err) :
    (sarFinish env s rid).1.sarEntries = s.sarEntries ∧
      ∃ t, (sarFinish env s rid).2 = [.sar t] ∧ t.res.decision = .deny ∧ t.res.err = some .upstream := by
  unfold sarFinish
  simp only [hf, hst, herr]
  exact ⟨rfl, _, rfl, decisionOnError_deny, rfl⟩

/-! ## the shape of the source the model relies on (regenerated from /repo on every run) -/

theorem c12_source_shape :
    -- ONE shared table of caches per component, keyed by a (host string, cluster instance pointer) pair
    KG.Gen.C12.tokenCacheKeyTypes = ["*clusters.ClusterInfo", "string"] ∧
    KG.Gen.C12.sarCacheKeyTypes = ["*clusters.ClusterInfo", "string"] ∧
    -- the authenticator resolves the host twice (first `ClientFor`, review closure), the authorizer once
    KG.Gen.C12.tokenClientForSites = 2 ∧ KG.Gen.C12.sarClientForSites = 1 ∧
    -- errors are not cached; errors deny
    KG.Gen.C12.tokenCacheErrs = "false" ∧ KG.Gen.C12.decisionOnError = "authorizer.DecisionDeny" := by
  decide

/-- position of a filter in the shipped chain (innermost = 0); `none` unless it occurs exactly once -/
def chainPos (n : String) : Option Nat :=
  if KG.Gen.C12.proxyChain.count n = 1 then KG.Gen.C12.proxyChain.idxOf? n else none

/-- the order of stages `Macro.pipe` (and `Pipeline`) assume is the order the shipped wiring builds: the request is
    bound (WithUpstreamInfo, after WithExtraRequestInfo made the Hostname) BEFORE it is authenticated, the impersonation
    check runs after authentication, the dispatcher last. (The harness drives the chain built by the shipped
    `buildProxyHandlerChainFunc` itself; this pins the same fact for the proofs.) -/
theorem c12_chain_order :
    (do let d ← chainPos "WithDispatcher"
        let i ← chainPos "WithNoLoggingImpersonation"
        let a ← chainPos "WithAuthentication"
        let u ← chainPos "WithUpstreamInfo"
        let e ← chainPos "WithExtraRequestInfo"
        pure (decide (d < i) && decide (i < a) && decide (a < u) && decide (u < e))) = some true := by
  decide

/-! ## non-vacuity: concrete histories (kernel-evaluated)

Two live clusters: instance 0 accepts every token as user "A" and allows everything, instance 1 rejects / denies.
Alias `x` first belongs to 0, is used (answer cached, TTL 100), then moves to 1 while 0 stays alive. -/

def exEnv : Env :=
  { cfg := { successTTL := 100, failureTTL := 100, allowTTL := 100, denyTTL := 100 },
    tokO := fun c _ _ => if c = 0 then .ok [65] else .no,
    sarO := fun c _ _ => if c = 0 then .status ⟨true, false, [65]⟩ else .status ⟨false, true, [66]⟩ }

def hostX : Str := [120]
def exAttrs : Attrs := ⟨none, [103], [], [], [], [112], [], [], [], true⟩

def exSetup : List Step :=
  [.ev (.setEndpoint 0 [101] true false), .ev (.setEndpoint 1 [102] true false), .ev (.addWithKey hostX 0)]

def exMove : List Step := [.ev (.addWithKey hostX 1), .ev (.tick 1)]

def tokResOf : Out → Option (TokRes × Src)
  | .tok t => some (t.res, t.src)
  | _ => none

def sarResOf : Out → Option (Decision × Src)
  | .sar t => some (t.res.decision, t.src)
  | _ => none

/-- alias moved between two requests: the second answer is cluster 1's own, not the cached answer of cluster 0 -/
example : (runSteps exEnv init (exSetup ++ tokSteps 0 hostX [116] 0 0 ++ exMove ++ tokSteps 1 hostX [116] 0 0)).2.map tokResOf =
    [some (.authenticated [65], .fresh), some (.unauthenticated, .fresh)] := by decide

example : (runSteps exEnv init (exSetup ++ sarSteps 0 hostX exAttrs 0 ++ exMove ++ sarSteps 1 hostX exAttrs 0)).2.map sarResOf =
    [some (.allow, .fresh), some (.deny, .fresh)] := by decide

/-- the hypotheses of `c12_token` are met by that history (fresh id 1; an answer to request 1 exists) -/
example : (reach exEnv (exSetup ++ tokSteps 0 hostX [116] 0 0 ++ exMove)).nextRid ≤ 1 ∧
    ∃ t, Out.tok t ∈ (runSteps exEnv (reach exEnv (exSetup ++ tokSteps 0 hostX [116] 0 0 ++ exMove))
        (.tokBegin 1 hostX [116] 0 none :: (tokSteps 1 hostX [116] 0 0).tail)).2 ∧ t.rid = 1 ∧ t.res = .unauthenticated := by
  refine ⟨by decide, ⟨1, hostX, [116], some 1, none, .unauthenticated, 1, .fresh, some [102], [[102]]⟩, by decide, rfl, rfl⟩

/-- same host, no move: the second answer comes from the cache of the SAME cluster, within the TTL … -/
example : (runSteps exEnv init (exSetup ++ tokSteps 0 hostX [116] 0 0 ++ [.ev (.tick 99)] ++ tokSteps 1 hostX [116] 0 0)).2.map tokResOf =
    [some (.authenticated [65], .fresh), some (.authenticated [65], .cached 0 100)] := by decide

/-- … and is asked again once the TTL has passed -/
example : (runSteps exEnv init (exSetup ++ tokSteps 0 hostX [116] 0 0 ++ [.ev (.tick 100)] ++ tokSteps 1 hostX [116] 0 0)).2.map tokResOf =
    [some (.authenticated [65], .fresh), some (.authenticated [65], .fresh)] := by decide

/-- the host changes hands between the request's first `ClientFor` and the review closure: refused, nothing cached -/
example : (runSteps exEnv init (exSetup ++ [.tokBegin 0 hostX [116] 0 none, .tokCache 0, .tokLookup 0, .ev (.addWithKey hostX 1),
      .tokReview 0 0, .tokFinish 0])).2.map tokResOf = [some (.error .moved, .none)] ∧
    (runSteps exEnv init (exSetup ++ [.tokBegin 0 hostX [116] 0 none, .tokCache 0, .tokLookup 0, .ev (.addWithKey hostX 1),
      .tokReview 0 0, .tokFinish 0])).1.tokEntries = [] := by decide

/-- unknown host, and a cluster whose only endpoint is unhealthy: refused / denied without asking anybody -/
example : (runSteps exEnv init ([.ev (.setEndpoint 0 [101] false false), .ev (.addWithKey hostX 0)] ++
      tokSteps 0 [121] [116] 0 0 ++ tokSteps 1 hostX [116] 0 0 ++ sarSteps 2 hostX exAttrs 0)).2.map
        (fun o => (tokResOf o, sarResOf o)) =
    [(some (.error .notFound, .none), none), (some (.error .noReady, .none), none), (none, some (.deny, .none))] := by decide

/-- delete-and-stop, clean-up, re-create under the same name: the new instance starts with an empty cache -/
example : (runSteps exEnv init (exSetup ++ sarSteps 0 hostX exAttrs 0 ++
      [.ev (.deleteWithStop hostX), .ev .dropStopped, .ev (.addWithKey hostX 1), .ev (.tick 1)] ++ sarSteps 1 hostX exAttrs 0)).2.map sarResOf =
    [some (.allow, .fresh), some (.deny, .fresh)] := by decide

/-! ### the filter-chain window

`exEnv` does NOT check the binding (`bindTok = bindSar = false`, the tree before fix 45e3360). The request for `x`
is bound to cluster 1 (which rejects the token and denies), then `x` moves to cluster 0 before the authenticator
resolves it: the request — which will be proxied to cluster 1 — is authenticated / allowed by cluster 0. -/

def exSetup1 : List Step :=
  [.ev (.setEndpoint 0 [101] true false), .ev (.setEndpoint 1 [102] true false), .ev (.addWithKey hostX 1),
   .ev (.addWithKey hostX 0)]   -- bound to 1 (first), then the name moves to 0

example : (runSteps exEnv init (exSetup1 ++ tokSteps 0 hostX [116] 0 0 (some 1))).2.map tokResOf =
    [some (.authenticated [65], .fresh)] := by decide

/-- kernel-checked refutation of the full statement for a tree WITHOUT the two comparisons -/
theorem c12_pipeline_refuted_without_binding : ∃ env : Env, env.cfg.bindTok = false ∧ env.cfg.bindSar = false ∧ ¬ Pipeline env := by
  refine ⟨exEnv, rfl, rfl, fun h => ?_⟩
  have hj := h.1 exSetup1 (tokSteps 0 hostX [116] 0 0 (some 1)).tail 0 hostX [116] 0 1
    ⟨0, hostX, [116], some 0, some 1, .authenticated [65], 0, .fresh, some [101], [[101]]⟩
    (by decide) (by decide) rfl (Or.inl rfl)
  have hj' : TokRes.authenticated [65] = (exEnv.tokO 1 [116] 0).res := by simpa [TokJudge] using hj
  exact absurd hj' (by decide)

/-- … and with the comparisons the same history is refused (`moved`), for the token and for the impersonation check -/
example : (runSteps (fromSource exEnv) init (exSetup1 ++ tokSteps 0 hostX [116] 0 0 (some 1) ++ sarSteps 1 hostX exAttrs 0 (some 1))).2.map
      (fun o => (tokResOf o, sarResOf o)) =
    [(some (.error .moved, .none), none), (none, some (.deny, .none))] := by decide

/-- a dispatcher that resolves the host again at dispatch time: the request, authenticated and authorized by the cluster
    it is bound to (1), is proxied to the cluster the name has moved to meanwhile (0) — kernel-checked refutation of the
    last clause of the full statement, with both other checks in place -/
theorem c12_pipeline_refuted_without_dispatch_binding :
    ∃ env : Env, env.cfg.bindTok = true ∧ env.cfg.bindSar = true ∧ env.cfg.bindDisp = false ∧ ¬ Pipeline env := by
  refine ⟨{ exEnv with cfg := { exEnv.cfg with bindTok := true, bindSar := true } }, rfl, rfl, rfl, fun h => ?_⟩
  have := (h.2.2 exSetup1 hostX 1 0 ⟨hostX, some 1, some 0, some 0, 0⟩ 0 (by decide) rfl).1
  cases this

/-- the whole chain as the harness schedules it (`Macro.pipe`), current source: bound to 0, the name moves to 1 after the
    impersonation check and before the dispatcher: still proxied to 0, the cluster that authenticated and authorized -/
example : ((runMacros (fromSource exEnv) ⟨init, [], []⟩
      [.ev (.setEndpoint 0 [101] true false), .ev (.setEndpoint 1 [102] true false), .ev (.addWithKey hostX 0),
       .pipe hostX [116] (some [97]) [] [] [] [] [] [.ev (.addWithKey hostX 1)]]).outs.map
        (fun o => match o with | .disp d => (d.upstream, d.proxied) | _ => (none, none))) =
    [(none, none), (none, none), (some 0, some 0)] := by decide

/-- a bound request whose host did not move is served as before -/
example : (runSteps (fromSource exEnv) init (exSetup ++ tokSteps 0 hostX [116] 0 0 (some 0))).2.map tokResOf =
    [some (.authenticated [65], .fresh)] := by decide

end KG.Props.C12
