import KG.Lemmas.Strategy
import KG.Gen.C20
/-!
# C20 — Control-plane objects: spec/status separation and generation conventions

Statement (properties.jsonl): "Through the control-plane API, updating the status subresource never changes an
object's spec or labels, updating the main resource never changes its status, and creation clears status and
sets generation to 1. The generation increases by one exactly when the spec or the annotations change, and
stays the same otherwise." — for every pair (stored object, submitted object) of every kind served with a
status subresource.

Everything below is about `KG.Model.Strategy` (the strategies of apiserver-runtime wrapped by k8s
`BeforeCreate`/`BeforeUpdate`) for ARBITRARY field-group types, metadata rules, stored and submitted objects and
for every rendering `sem` under which the code compares (`semanticEqual`).
Hypotheses used, each discharged for the registrations of rest.go by `c20_registrations_*` below:
* `WellShaped r`: the Go type has ObjectMeta, a `Spec` and a `Status` field;
* `Consistent r`: a kind served with a status subresource uses a main strategy built with `subStatus = true`.

"Change" is read in the API's view (`KG.Spec.Strategy.View`): spec and annotations as they render
(`{}`/`[]`/`""` = missing), which since `933b50c` is also how the code compares them. The statements with
`v.obj` are therefore the API-level ones; specialising `sem` to the identity gives the DeepEqual ones.
-/
namespace KG.Props.C20
open KG.Model.Strategy KG.Spec.Strategy KG.Lemmas.Strategy

def WellShaped (r : Reg) : Prop := r.shape.hasMeta = true ∧ r.shape.hasSpec = true ∧ r.shape.hasStatus = true
def Consistent (r : Reg) : Prop := r.served = true → r.subStatus = true

instance (r : Reg) : Decidable (WellShaped r) := by unfold WellShaped; infer_instance
instance (r : Reg) : Decidable (Consistent r) := by unfold Consistent; infer_instance

section
variable {L A M S T A' S' : Type} [DecidableEq S'] [DecidableEq A']

/-! ## Creation -/

omit [DecidableEq S'] [DecidableEq A'] in
/-- Creation (exactly what the code does): generation 1; status is the zero value iff the main strategy was
    built with `subStatus` (and the type has a Status); spec, labels, annotations as submitted. -/
theorem c20_create_exact (r : Reg) (mr : MetaRules L A M S T) (zero : T) (o o' : Obj L A M S T)
    (h : beforeCreate r mr zero o = .ok o') :
    o'.generation = 1 ∧
    o'.status = (if r.subStatus && r.shape.hasStatus then zero else o.status) ∧
    o'.spec = o.spec ∧ o'.labels = o.labels ∧ o'.annotations = o.annotations := by
  obtain ⟨hm, rfl⟩ := beforeCreate_ok h
  unfold prepareForCreate
  cases hs : (r.subStatus && r.shape.hasStatus) <;> simp [hm]

omit [DecidableEq S'] [DecidableEq A'] in
/-- **C20 (creation)**: for a kind served with a status subresource, creation clears status and sets
    generation to 1 — whatever status and generation the client submitted. -/
theorem c20_create (r : Reg) (hc : Consistent r) (mr : MetaRules L A M S T) (zero : T) (o o' : Obj L A M S T)
    (hserved : r.served = true) (h : beforeCreate r mr zero o = .ok o') :
    o'.generation = 1 ∧ o'.status = zero := by
  obtain ⟨hg, hst, _⟩ := c20_create_exact r mr zero o o' h
  have h1 := hc hserved
  have h2 : r.shape.hasStatus = true := by
    unfold Reg.served at hserved; simp at hserved; exact hserved.2
  simp [h1, h2] at hst
  exact ⟨hg, hst⟩

/-! ## Status subresource -/

/-- **C20 (status subresource)**: an accepted update through the status endpoint leaves spec, labels and
    generation as stored (the very values, not just their renderings); status and annotations are the
    submitted ones. -/
theorem c20_status_update (sem : Sem A S A' S') (r : Reg) (hw : WellShaped r) (mr : MetaRules L A M S T)
    (sub old o' : Obj L A M S T) (h : beforeUpdate sem r .status mr sub old = .ok o') :
    o'.spec = old.spec ∧ o'.labels = old.labels ∧ o'.generation = old.generation ∧
    o'.status = sub.status ∧ o'.annotations = sub.annotations := by
  obtain ⟨_, _, rfl, _, _⟩ := beforeUpdate_ok h
  obtain ⟨hm, hs, ht⟩ := hw
  simp [updatePrepare, statusPrepareForUpdate, hm, hs, ht]

/-! ## Main resource -/

/-- Main-resource update, status (exactly what the code does). -/
theorem c20_main_update_exact (sem : Sem A S A' S') (r : Reg) (hw : WellShaped r) (mr : MetaRules L A M S T)
    (sub old o' : Obj L A M S T) (h : beforeUpdate sem r .main mr sub old = .ok o') :
    o'.status = (if r.subStatus then old.status else sub.status) ∧
    o'.spec = sub.spec ∧ o'.labels = sub.labels ∧ o'.annotations = sub.annotations := by
  obtain ⟨_, _, rfl, _, _⟩ := beforeUpdate_ok h
  obtain ⟨hm, hs, ht⟩ := hw
  simp only [updatePrepare, prepareForUpdate, hm, hs, ht]
  cases r.subStatus <;> simp <;> split <;> simp

/-- **C20 (main resource, status)**: for a kind served with a status subresource an accepted main-resource
    update never changes the status. -/
theorem c20_main_update_status (sem : Sem A S A' S') (r : Reg) (hw : WellShaped r) (hc : Consistent r)
    (mr : MetaRules L A M S T) (sub old o' : Obj L A M S T) (hserved : r.served = true)
    (h : beforeUpdate sem r .main mr sub old = .ok o') : o'.status = old.status := by
  have := (c20_main_update_exact sem r hw mr sub old o' h).1
  simpa [hc hserved] using this

/-- the main strategy's effect on generation, spec and annotations (well-shaped kinds) -/
theorem main_prepare_generation (sem : Sem A S A' S') (r : Reg) (hw : WellShaped r) (sub old : Obj L A M S T) :
    let p := updatePrepare sem r .main { sub with generation := old.generation } old
    p.spec = sub.spec ∧ p.annotations = sub.annotations ∧
    p.generation = (if sem.spec sub.spec ≠ sem.spec old.spec ∨ sem.annotations sub.annotations ≠ sem.annotations old.annotations
                    then toI64 (old.generation + 1) else old.generation) := by
  obtain ⟨hm, hs, ht⟩ := hw
  simp only [updatePrepare, prepareForUpdate, hm, hs, ht]
  cases r.subStatus <;> simp <;> split <;> simp_all

/-- **C20 (generation)**: for every stored object (its generation is an `int64`) and every submitted object,
    an accepted main-resource update has `generation' = generation + 1` exactly when the spec or the
    annotations changed — as rendered by the API: `sem` — and `generation' = generation` otherwise.
    The submitted generation is irrelevant. -/
theorem c20_main_update_generation (sem : Sem A S A' S') (r : Reg) (hw : WellShaped r) (mr : MetaRules L A M S T)
    (sub old o' : Obj L A M S T) (hg : isI64 old.generation)
    (h : beforeUpdate sem r .main mr sub old = .ok o') :
    (o'.generation = old.generation + 1 ↔
      (sem.spec o'.spec ≠ sem.spec old.spec ∨ sem.annotations o'.annotations ≠ sem.annotations old.annotations)) ∧
    (¬ (sem.spec o'.spec ≠ sem.spec old.spec ∨ sem.annotations o'.annotations ≠ sem.annotations old.annotations) →
      o'.generation = old.generation) := by
  obtain ⟨_, _, rfl, _, hdec⟩ := beforeUpdate_ok h
  obtain ⟨hsp, han, hgen⟩ := main_prepare_generation sem r hw sub old
  simp only at hsp han hgen hdec ⊢
  rw [hgen] at hdec
  rw [hsp, han, hgen]
  by_cases hch : sem.spec sub.spec ≠ sem.spec old.spec ∨ sem.annotations sub.annotations ≠ sem.annotations old.annotations
  · simp only [hch, if_true] at hdec ⊢
    have := toI64_succ_of_ge hg hdec
    simp [this]
  · simp only [hch, if_false]
    simp only [not_false_eq_true, forall_const, and_true, iff_false]
    omega

/-- Corollary in terms of the decoded values: an update that leaves spec and annotations `DeepEqual` to the
    stored ones (a no-op PUT, a label-only or status-only change — the original defect) keeps the generation. -/
theorem c20_main_update_noop (sem : Sem A S A' S') (r : Reg) (hw : WellShaped r) (mr : MetaRules L A M S T)
    (sub old o' : Obj L A M S T) (hg : isI64 old.generation)
    (h : beforeUpdate sem r .main mr sub old = .ok o')
    (hs : sub.spec = old.spec) (ha : sub.annotations = old.annotations) : o'.generation = old.generation := by
  obtain ⟨_, hsp, _, han⟩ := c20_main_update_exact sem r hw mr sub old o' h
  apply (c20_main_update_generation sem r hw mr sub old o' hg h).2
  rw [hsp, han, hs, ha]; simp

/-! ## The judge (what the harness evaluates on the real code's answers) holds on the model, in every view -/

variable {L' T' : Type} [DecidableEq L'] [DecidableEq T']

omit [DecidableEq S'] [DecidableEq A'] [DecidableEq L'] in
theorem c20_judge_create (r : Reg) (hc : Consistent r) (mr : MetaRules L A M S T)
    (v : View L A S T L' A' S' T') (zero : T) (o o' : Obj L A M S T) (h : beforeCreate r mr zero o = .ok o') :
    judgeCreate r.served (v.status zero) (v.obj o') = [] := by
  obtain ⟨hg, _⟩ := c20_create_exact r mr zero o o' h
  cases hs : r.served
  · simp [judgeCreate, check, View.obj, hg]
  · have := (c20_create r hc mr zero o o' hs h).2
    simp [judgeCreate, check, View.obj, hg, this]

omit [DecidableEq T'] in
theorem c20_judge_status (r : Reg) (hw : WellShaped r) (mr : MetaRules L A M S T)
    (v : View L A S T L' A' S' T') (sub old o' : Obj L A M S T)
    (h : beforeUpdate v.sem r .status mr sub old = .ok o') :
    judgeStatusUpdate (v.obj old) (v.obj o') = [] := by
  obtain ⟨h1, h2, h3, _, _⟩ := c20_status_update v.sem r hw mr sub old o' h
  simp [judgeStatusUpdate, check, View.obj, h1, h2, h3]

omit [DecidableEq L'] in
/-- **C20, API level, main resource**: every accepted main-resource update of a well-shaped, consistently
    registered kind meets both main-resource clauses in the API's view — also when the request spells empty
    values out. -/
theorem c20_judge_main (r : Reg) (hw : WellShaped r) (hc : Consistent r) (mr : MetaRules L A M S T)
    (v : View L A S T L' A' S' T') (sub old o' : Obj L A M S T) (hg : isI64 old.generation)
    (h : beforeUpdate v.sem r .main mr sub old = .ok o') :
    judgeMainUpdate r.served (v.obj old) (v.obj o') = [] := by
  obtain ⟨hiff, hkeep⟩ := c20_main_update_generation v.sem r hw mr sub old o' hg h
  have hst : r.served = true → o'.status = old.status :=
    fun hs => c20_main_update_status v.sem r hw hc mr sub old o' hs h
  unfold judgeMainUpdate changed check View.obj
  have h1 : (!r.served || v.status o'.status == v.status old.status) = true := by
    cases hs : r.served
    · simp
    · simp [hst hs]
  simp only [h1]
  by_cases hch : v.sem.spec o'.spec ≠ v.sem.spec old.spec ∨ v.sem.annotations o'.annotations ≠ v.sem.annotations old.annotations
  · have : (v.sem.spec o'.spec != v.sem.spec old.spec || v.sem.annotations o'.annotations != v.sem.annotations old.annotations) = true := by
      rcases hch with h | h <;> simp [h]
    simp [this, hiff.2 hch]
  · have h' : v.sem.spec o'.spec = v.sem.spec old.spec ∧ v.sem.annotations o'.annotations = v.sem.annotations old.annotations := by
      constructor
      · exact Classical.byContradiction fun hne => hch (Or.inl hne)
      · exact Classical.byContradiction fun hne => hch (Or.inr hne)
    simp [h'.1, h'.2, hkeep hch]

/-! ## Every history through the API

`apiRun` plays any list of requests (creates, updates through either endpoint, deletes; accepted or rejected)
from the empty state — including DELETEs that keep a finalizer-holding object as terminating (k8s bumps its
generation) and updates that remove it. The stored generation is always an `int64`, so the range hypothesis
of `c20_main_update_generation` is discharged for every state a client can reach, whatever the rest of the
metadata (finalizers, deletionTimestamp, owner references … all inside the opaque `otherMeta`) looks like, and
every accepted request of every history meets the judge. -/

def GenOk (st : Option (Obj L A M S T)) : Prop := ∀ o, st = some o → isI64 o.generation

omit [DecidableEq S'] [DecidableEq A'] in
theorem genOk_create (r : Reg) (mr : MetaRules L A M S T) (zero : T) (o : Obj L A M S T) :
    GenOk (beforeCreate r mr zero o).toOption := by
  intro o' h
  cases hb : beforeCreate r mr zero o with
  | error e => simp [hb, Except.toOption] at h
  | ok x =>
    simp [hb, Except.toOption] at h
    subst h
    have := (c20_create_exact r mr zero o x hb).1
    rw [this]; unfold isI64 i64Lo i64Hi; omega

omit [DecidableEq S'] [DecidableEq A'] in
theorem genOk_delete (mr : MetaRules L A M S T) (cur : Obj L A M S T) (h : isI64 cur.generation) :
    GenOk (apiDelete mr cur) := by
  intro o ho
  unfold apiDelete at ho
  split at ho
  · simp only [Option.some.injEq] at ho
    subst ho
    simp only
    split
    · exact toI64_isI64 _
    · exact h
  · cases ho

theorem genOk_step (sem : Sem A S A' S') (r : Reg) (hw : WellShaped r) (mr : MetaRules L A M S T) (zero : T)
    (acu : Endpoint → Bool)
    (st : Option (Obj L A M S T)) (a : Api L A M S T) (h : GenOk st) : GenOk (apiStep sem r mr zero acu st a) := by
  cases st with
  | none =>
    cases a with
    | create o => exact genOk_create r mr zero o
    | update ep o =>
      simp only [apiStep]
      split
      · intro _ h'; cases h'
      · split
        · intro _ h'; cases h'
        · exact genOk_create r mr zero o
    | delete => intro _ h'; simp [apiStep] at h'
  | some cur =>
    have hcur := h cur rfl
    cases a with
    | create o => simpa [apiStep] using h
    | delete => simpa [apiStep] using genOk_delete mr cur hcur
    | update ep o =>
      simp only [apiStep]
      cases hb : beforeUpdate sem r ep mr o cur with
      | error e => simpa using h
      | ok o' =>
        intro x hx
        simp only at hx
        split at hx
        · cases hx
        · simp only [Option.some.injEq] at hx
          subst hx
          cases ep with
          | status =>
            have := (c20_status_update sem r hw mr o cur o' hb).2.2.1
            rw [this]; exact hcur
          | main =>
            obtain ⟨_, _, heq, _, _⟩ := beforeUpdate_ok hb
            obtain ⟨_, _, hgen⟩ := main_prepare_generation sem r hw o cur
            rw [heq]; simp only at hgen ⊢; rw [hgen]
            split
            · exact toI64_isI64 _
            · exact hcur

theorem genOk_run (sem : Sem A S A' S') (r : Reg) (hw : WellShaped r) (mr : MetaRules L A M S T) (zero : T)
    (acu : Endpoint → Bool)
    (st : Option (Obj L A M S T)) (as : List (Api L A M S T)) (h : GenOk st) :
    GenOk (apiRun sem r mr zero acu st as) := by
  induction as generalizing st with
  | nil => exact h
  | cons a as ih => exact ih _ (genOk_step sem r hw mr zero acu st a h)

omit [DecidableEq L'] in
/-- **C20 over histories**: after ANY list of API requests from the empty state, any further accepted
    main-resource update obeys the generation rule and the status clause in the API's view — no hypothesis on
    the stored generation is left. -/
theorem c20_history (r : Reg) (hw : WellShaped r) (hc : Consistent r) (mr : MetaRules L A M S T)
    (v : View L A S T L' A' S' T') (zero : T) (acu : Endpoint → Bool)
    (hist : List (Api L A M S T)) (cur sub o' : Obj L A M S T)
    (hreach : apiRun v.sem r mr zero acu none hist = some cur)
    (h : beforeUpdate v.sem r .main mr sub cur = .ok o') :
    judgeMainUpdate r.served (v.obj cur) (v.obj o') = [] := by
  have hok := genOk_run v.sem r hw mr zero acu none hist (fun _ h => by cases h) cur hreach
  exact c20_judge_main r hw hc mr v sub cur o' hok h

/-! ## The rest of the metadata is irrelevant

All statements above already quantify over arbitrary `otherMeta` components and arbitrary `MetaRules` (which
only decide WHETHER a request is accepted and what the new `otherMeta` is). Explicitly: what the strategies
make of labels, annotations, generation, spec and status does not depend on the `otherMeta` of either object —
finalizers, deletionTimestamp/GracePeriodSeconds of a terminating object, owner references, uid,
resourceVersion, managed fields. -/

def sameGroups (a b : Obj L A M S T) : Prop :=
  a.labels = b.labels ∧ a.annotations = b.annotations ∧ a.generation = b.generation ∧ a.spec = b.spec ∧ a.status = b.status

theorem c20_update_ignores_other_metadata (sem : Sem A S A' S') (r : Reg) (ep : Endpoint)
    (obj old : Obj L A M S T) (m₁ m₂ : M) :
    sameGroups (updatePrepare sem r ep { obj with otherMeta := m₁ } { old with otherMeta := m₂ })
               (updatePrepare sem r ep obj old) := by
  cases ep <;>
    simp only [updatePrepare, prepareForUpdate, statusPrepareForUpdate, sameGroups] <;>
    (repeat' split) <;> simp_all

omit [DecidableEq S'] [DecidableEq A'] in
theorem c20_create_ignores_other_metadata (subStatus : Bool) (sh : Shape) (zero : T) (obj : Obj L A M S T) (m : M) :
    sameGroups (prepareForCreate subStatus sh zero { obj with otherMeta := m }) (prepareForCreate subStatus sh zero obj) := by
  simp only [prepareForCreate, sameGroups]
  (repeat' split) <;> simp_all

/-- … and an accepted update's generation, spec, status, labels, annotations are those of the same update on
    objects with ANY other `otherMeta` (whenever that one is accepted too). -/
theorem c20_accepted_update_ignores_other_metadata (sem : Sem A S A' S') (r : Reg) (ep : Endpoint)
    (mr mr' : MetaRules L A M S T) (obj old o₁ o₂ : Obj L A M S T) (m₁ m₂ : M)
    (h₁ : beforeUpdate sem r ep mr obj old = .ok o₁)
    (h₂ : beforeUpdate sem r ep mr' { obj with otherMeta := m₁ } { old with otherMeta := m₂ } = .ok o₂) :
    sameGroups o₂ o₁ := by
  obtain ⟨_, _, rfl, _, _⟩ := beforeUpdate_ok h₁
  obtain ⟨_, _, rfl, _, _⟩ := beforeUpdate_ok h₂
  have := c20_update_ignores_other_metadata sem r ep { obj with generation := old.generation } old m₁ m₂
  simpa [sameGroups] using this

end

/-! ## The registrations of rest.go (regenerated on every run by tools/extract/c20) -/

def regOf (f : KG.Gen.C20.RegFact) : Reg :=
  { shape := ⟨f.hasMeta, f.hasSpec, f.hasStatus⟩, subStatus := f.strategySubStatus, optSubStatus := f.optSubStatus }

/-- Every registered kind has ObjectMeta, Spec and Status (so the theorems above apply to it, served with a
    status subresource or not). A kind added to rest.go is in the regenerated list and re-decided here. -/
theorem c20_registrations_wellshaped : ∀ f ∈ KG.Gen.C20.registrations, WellShaped (regOf f) := by decide

/-- Every kind served with a status subresource has a main strategy built with `subStatus = true` (otherwise a
    main-resource update would overwrite its status). -/
theorem c20_registrations_consistent : ∀ f ∈ KG.Gen.C20.registrations, Consistent (regOf f) := by decide

/-- At least one kind is served with a status subresource (the property's quantifier is not empty). -/
theorem c20_registrations_some_served : ∃ f ∈ KG.Gen.C20.registrations, (regOf f).served = true := by decide

/-! ## The hooks around `PrepareFor…` (regenerated, semantic: names and values, not spellings)

The property depends on them implicitly. Every KNOWN hook is tied behaviourally (the harness runs the stores' own
strategies through `rest.BeforeCreate/BeforeUpdate` and the real store on both endpoints: an effectful `Canonicalize`,
a rejecting `Validate*`, a changed `AllowUnconditionalUpdate` or `NamespaceScoped` show up as a difference or a judge
failure), and `AllowCreateOnUpdate` of each endpoint flows into the model's `apiStep` as a regenerated constant —
all theorems hold for either value. What only a fact can notice is a hook of a NEW kind (`WarningsOn…`,
`CheckGracefulDelete`, `PrepareForDelete`, `BeginCreate` …), another member of the status strategy besides the wrapped
main strategy, or another member of the generic store being set (`Decorator`, `AfterUpdate`, `BeginUpdate` …). -/

def knownHooks : List String :=
  ["AllowCreateOnUpdate", "AllowUnconditionalUpdate", "Canonicalize", "NamespaceScoped", "PrepareForCreate",
   "PrepareForUpdate", "Validate", "ValidateUpdate"]

theorem c20_hooks_known :
    (∀ m ∈ KG.Gen.C20.mainStrategyMethods ++ KG.Gen.C20.statusStrategyMethods, m ∈ knownHooks) ∧
    "PrepareForCreate" ∈ KG.Gen.C20.mainStrategyMethods ∧ "PrepareForUpdate" ∈ KG.Gen.C20.mainStrategyMethods ∧
    "PrepareForUpdate" ∈ KG.Gen.C20.statusStrategyMethods := by decide

theorem c20_status_strategy_wraps_main :
    KG.Gen.C20.statusStrategyMembers = ["embedded rest.RESTCreateUpdateStrategy"] := by decide

theorem c20_store_members_known :
    KG.Gen.C20.storeMembers = ["CreateStrategy", "DefaultQualifiedResource", "DeleteStrategy", "InMemoryVersioner",
      "NewFunc", "NewListFunc", "UpdateStrategy"] ∧
    KG.Gen.C20.storeMembersAssigned = ["UpdateStrategy"] := by decide

/-! ## Non-vacuity: the hypotheses are satisfiable by concrete, non-trivial requests

Annotations `none` = absent, `some []` = spelled out as `{}`; both render as "no annotations". -/

def witnessReg : Reg := { shape := ⟨true, true, true⟩, subStatus := true, optSubStatus := true }
def witnessRules : MetaRules Unit (Option (List Nat)) Unit Nat Nat :=
  { fixCreate := id, fixUpdate := fun n _ => n, validCreate := fun _ => true, validUpdate := fun _ _ => true,
    deleteKeeps := fun _ => true, deleteBumps := fun _ => true, markDeleting := id, deletedByUpdate := fun _ _ => false }
def witnessSem : Sem (Option (List Nat)) Nat (List Nat) Nat := { annotations := fun a => a.getD [], spec := id }
def witnessView : View Unit (Option (List Nat)) Nat Nat Unit (List Nat) Nat Nat :=
  { labels := id, status := id, sem := witnessSem }
def witnessStored : Obj Unit (Option (List Nat)) Unit Nat Nat :=
  { labels := (), annotations := none, generation := 5, otherMeta := (), spec := 7, status := 3 }

/-- a no-op main update of generation 5 is accepted and stays at 5 (the first defect's witness: it went 5 → 6) -/
example : beforeUpdate witnessSem witnessReg .main witnessRules witnessStored witnessStored = .ok witnessStored := by decide
/-- `annotations: {}` against no annotations: accepted, stays at 5 (the second defect's witness: 5 → 6) -/
example : beforeUpdate witnessSem witnessReg .main witnessRules { witnessStored with annotations := some [] } witnessStored
    = .ok { witnessStored with annotations := some [] } := by decide
/-- an annotation change is accepted and bumps 5 → 6 -/
example : (beforeUpdate witnessSem witnessReg .main witnessRules { witnessStored with annotations := some [1] } witnessStored).toOption.map
    (·.generation) = some 6 := by decide
/-- a status update with another spec/status is accepted, spec restored, generation kept -/
example : beforeUpdate witnessSem witnessReg .status witnessRules { witnessStored with spec := 9, status := 4, generation := 77 } witnessStored
    = .ok { witnessStored with status := 4 } := by decide
/-- creation with a client-supplied status and generation: both overwritten -/
example : beforeCreate witnessReg witnessRules 0 { witnessStored with generation := 40 }
    = .ok { witnessStored with generation := 1, status := 0 } := by decide
/-- at generation MaxInt64 a change is REJECTED (the wrapped value fails "must not be decremented") -/
example : beforeUpdate witnessSem witnessReg .main witnessRules { witnessStored with spec := 8 }
    { witnessStored with generation := 9223372036854775807 } = .error .invalid := by decide
/-- a reachable state of `c20_history`: create (1), spec change (2), status update (2), DELETE kept by a
    finalizer (k8s bumps: 3), spec change on the terminating object (4) -/
example : apiRun witnessSem witnessReg witnessRules 0 (fun _ => true) none [.create witnessStored, .update .main { witnessStored with spec := 8 },
    .update .status { witnessStored with status := 9 }, .delete, .update .main { witnessStored with spec := 10 }] =
    some { witnessStored with spec := 10, status := 9, generation := 4 } := by decide
/-- a PUT to /status of a missing object creates it iff the status strategy allows create-on-update -/
example : (apiRun witnessSem witnessReg witnessRules 0 (fun _ => true) none [.update .status witnessStored]).isSome = true ∧
    apiRun witnessSem witnessReg witnessRules 0 (fun ep => ep != .status) none [.update .status witnessStored] = none := by decide
/-- the judge is not trivially empty: it rejects the second defect's behaviour (5 → 6 on `{}`) … -/
example : judgeMainUpdate true (witnessView.obj witnessStored)
    (witnessView.obj { witnessStored with annotations := some [], generation := 6 }) = [.mainKeep] := by decide
/-- … a missed bump, a changed status, an uncleared status on creation, a relabelling status update -/
example : judgeMainUpdate true (witnessView.obj witnessStored)
    (witnessView.obj { witnessStored with spec := 8, status := 4 }) = [.mainStatus, .mainBump] := by decide
example : judgeCreate true (0 : Nat) (witnessView.obj { witnessStored with generation := 5 }) = [.createGeneration, .createStatus] := by decide
example : judgeStatusUpdate (L := Nat) (A := Nat) (M := Unit) (S := Nat) (T := Nat) ⟨1, 0, 5, (), 7, 3⟩ ⟨2, 0, 6, (), 8, 3⟩ =
    [.statusSpec, .statusLabels, .statusGeneration] := by decide

end KG.Props.C20
