import KG.Lemmas.Strategy
/-!
# C20 — Control-plane objects: spec/status separation and generation conventions

Statement (properties.jsonl): "Through the control-plane API, updating the status subresource never changes an
object's spec or labels, updating the main resource never changes its status, and creation clears status and
sets generation to 1. The generation increases by one exactly when the spec or the annotations change, and
stays the same otherwise." — for every pair (stored object, submitted object) of every kind served with a
status subresource.

Everything below is about `KG.Model.Strategy` (the strategies of apiserver-runtime wrapped by k8s
`BeforeCreate`/`BeforeUpdate`) for ARBITRARY field-group types, metadata rules, stored and submitted objects.
Hypotheses used, each discharged for the registrations of rest.go by `c20_registrations_*` below:
* `WellShaped r`: the Go type has ObjectMeta, a `Spec` and a `Status` field;
* `Consistent r`: a kind served with a status subresource uses a main strategy built with `subStatus = true`.
-/
namespace KG.Props.C20
open KG.Model.Strategy KG.Spec.Strategy KG.Lemmas.Strategy

def WellShaped (r : Reg) : Prop := r.shape.hasMeta = true ∧ r.shape.hasSpec = true ∧ r.shape.hasStatus = true
def Consistent (r : Reg) : Prop := r.served = true → r.subStatus = true

instance (r : Reg) : Decidable (WellShaped r) := by unfold WellShaped; infer_instance
instance (r : Reg) : Decidable (Consistent r) := by unfold Consistent; infer_instance

section
variable {L A M S T : Type} [DecidableEq S] [DecidableEq A]

/-! ## Creation -/

omit [DecidableEq S] [DecidableEq A] in
/-- Creation (exactly what the code does): generation 1; status is the zero value iff the main strategy was
    built with `subStatus` (and the type has a Status); spec, labels, annotations as submitted. -/
theorem c20_create_exact (r : Reg) (mr : MetaRules L A M S T) (zero : T) (o o' : Obj L A M S T)
    (h : beforeCreate r mr zero o = .ok o') :
    o'.generation = 1 ∧
    o'.status = (if r.subStatus && r.shape.hasStatus then zero else o.status) ∧
    o'.spec = o.spec ∧ o'.labels = o.labels ∧ o'.annotations = o.annotations := by
  obtain ⟨hm, rfl⟩ := beforeCreate_ok h
  unfold prepareForCreate
  cases hs : (r.subStatus && r.shape.hasStatus) <;> simp [hm]

omit [DecidableEq S] [DecidableEq A] in
/-- **C20 (creation)**: for a kind served with a status subresource, creation clears status and sets
    generation to 1 — whatever status and generation the client submitted. -/
theorem c20_create (r : Reg) (hc : Consistent r) (mr : MetaRules L A M S T) (zero : T) (o o' : Obj L A M S T)
    (hserved : r.served = true) (h : beforeCreate r mr zero o = .ok o') :
    o'.generation = 1 ∧ o'.status = zero := by
  obtain ⟨hg, hst, _⟩ := c20_create_exact r mr zero o o' h
  have h1 := hc hserved
  have h2 : r.shape.hasStatus = true := by
    unfold Reg.served at hserved; simp at hserved; exact hserved.2
  simp [h1, h2] at hst
  exact ⟨hg, hst⟩

/-! ## Status subresource -/

/-- **C20 (status subresource)**: an accepted update through the status endpoint leaves spec, labels and
    generation as stored; status and annotations are the submitted ones. -/
theorem c20_status_update (r : Reg) (hw : WellShaped r) (mr : MetaRules L A M S T) (sub old o' : Obj L A M S T)
    (h : beforeUpdate r .status mr sub old = .ok o') :
    o'.spec = old.spec ∧ o'.labels = old.labels ∧ o'.generation = old.generation ∧
    o'.status = sub.status ∧ o'.annotations = sub.annotations := by
  obtain ⟨_, _, rfl, _, _⟩ := beforeUpdate_ok h
  obtain ⟨hm, hs, ht⟩ := hw
  simp [updatePrepare, statusPrepareForUpdate, hm, hs, ht]

/-! ## Main resource -/

/-- Main-resource update, status (exactly what the code does). -/
theorem c20_main_update_exact (r : Reg) (hw : WellShaped r) (mr : MetaRules L A M S T) (sub old o' : Obj L A M S T)
    (h : beforeUpdate r .main mr sub old = .ok o') :
    o'.status = (if r.subStatus then old.status else sub.status) ∧
    o'.spec = sub.spec ∧ o'.labels = sub.labels ∧ o'.annotations = sub.annotations := by
  obtain ⟨_, _, rfl, _, _⟩ := beforeUpdate_ok h
  obtain ⟨hm, hs, ht⟩ := hw
  simp only [updatePrepare, prepareForUpdate, hm, hs, ht]
  cases r.subStatus <;> simp <;> split <;> simp

/-- **C20 (main resource, status)**: for a kind served with a status subresource an accepted main-resource
    update never changes the status. -/
theorem c20_main_update_status (r : Reg) (hw : WellShaped r) (hc : Consistent r) (mr : MetaRules L A M S T)
    (sub old o' : Obj L A M S T) (hserved : r.served = true)
    (h : beforeUpdate r .main mr sub old = .ok o') : o'.status = old.status := by
  have := (c20_main_update_exact r hw mr sub old o' h).1
  simpa [hc hserved] using this

/-- the main strategy's effect on generation, spec and annotations (well-shaped kinds) -/
theorem main_prepare_generation (r : Reg) (hw : WellShaped r) (sub old : Obj L A M S T) :
    let p := updatePrepare r .main { sub with generation := old.generation } old
    p.spec = sub.spec ∧ p.annotations = sub.annotations ∧
    p.generation = (if sub.spec ≠ old.spec ∨ sub.annotations ≠ old.annotations
                    then toI64 (old.generation + 1) else old.generation) := by
  obtain ⟨hm, hs, ht⟩ := hw
  simp only [updatePrepare, prepareForUpdate, hm, hs, ht]
  cases r.subStatus <;> simp <;> split <;> simp_all

/-- **C20 (generation)**: for every stored object (its generation is an `int64`) and every submitted object,
    an accepted main-resource update has `generation' = generation + 1` exactly when the spec or the
    annotations changed, and `generation' = generation` otherwise. The submitted generation is irrelevant. -/
theorem c20_main_update_generation (r : Reg) (hw : WellShaped r) (mr : MetaRules L A M S T)
    (sub old o' : Obj L A M S T) (hg : isI64 old.generation)
    (h : beforeUpdate r .main mr sub old = .ok o') :
    (o'.generation = old.generation + 1 ↔ (o'.spec ≠ old.spec ∨ o'.annotations ≠ old.annotations)) ∧
    (¬ (o'.spec ≠ old.spec ∨ o'.annotations ≠ old.annotations) → o'.generation = old.generation) := by
  obtain ⟨_, _, rfl, _, hdec⟩ := beforeUpdate_ok h
  obtain ⟨hsp, han, hgen⟩ := main_prepare_generation r hw sub old
  simp only at hsp han hgen hdec ⊢
  rw [hgen] at hdec
  rw [hsp, han, hgen]
  by_cases hch : sub.spec ≠ old.spec ∨ sub.annotations ≠ old.annotations
  · simp only [hch, if_true] at hdec ⊢
    have := toI64_succ_of_ge hg hdec
    simp [this]
  · simp only [hch, if_false]
    simp only [not_false_eq_true, forall_const, and_true, iff_false]
    omega

end
end KG.Props.C20
